(* Scope.v — C10: the token/structure view of column references, on top of Terms.v / Query.v.  Definitions only.

   1. terms:      [rtoks c t]  renders a term to TOKENS; a field / star leaf becomes one [KRef] token that records
                  the table the leaf is bound to and the qualifier it is printed with; everything else is text.
                  (lemmas/ScopeLemmas.v: flattening the tokens gives exactly [Terms.render c t].)
   2. items:      [itoks]      the same for the statement items of Query.v; sub-queries are opaque text.
   3. statements: [sel_render] / [upd_render] / [del_render] / [ins_render]: Query.rquery for one statement, written
                  clause by clause with named loops (equal to Query.rquery by unfolding, lemmas/ScopeStmt.v), and
                  their token twins [sel_toks] ... in which every reference token of the statement's own clauses
                  is visible.
   4. naming:     the sq%d / name2 names of a statement's sources as stand-alone functions, and a history model
                  of from_() / join() calls in ANY order.
   5. schema:     Schema objects (parent pointers) and their rendering. *)
From PV Require Import Base Crit gen.TermsTable Terms Page gen.QueryTable Query.
Local Open Scope list_scope.

(* ------------------------------------------------------------------------------------------- *)
(* 1. tokens of a term                                                                          *)
(* ------------------------------------------------------------------------------------------- *)
Inductive tok :=
| KText (s : string)
| KRef (tb : option tref) (qual : option string) (name : string) (star : bool).

Definition ref_text (qc : option string) (qual : option string) (name : string) (star : bool) : string :=
  let base := if star then "*" else fq qc name in
  match qual with Some n => (fq qc n ++ "." ++ base)%string | None => base end.
Definition tok_text (qc : option string) (t : tok) : string :=
  match t with KText s => s | KRef _ qual name star => ref_text qc qual name star end.
Definition flat (qc : option string) (ts : list tok) : string := sconcat (map (tok_text qc) ts).

(* the rule of Field.get_sql / Star.get_sql: qualify when with_namespace or the table carries an alias,
   by Table.get_table_name() = alias or name *)
Definition qualifier (wns : bool) (tbl : option tref) : option string :=
  match tbl with
  | Some tb => if wns || truthy_ostr (talias tb) then Some (table_name tb) else None
  | None => None end.

Definition rmap {A B} (f : A -> B) (x : res A) : res B := match x with Ok a => Ok (f a) | Err e => Err e end.
Definition ptoks (b : bool) (ts : list tok) : list tok := if b then KText "(" :: ts ++ [KText ")"] else ts.
Fixpoint jtoks (sep : string) (l : list (list tok)) : list tok :=
  match l with
  | [] => []
  | [x] => x
  | x :: r => x ++ KText sep :: jtoks sep r
  end.
Definition alias_suffix (askw_ : bool) (aqc qc : option string) (a : string) : string :=
  ((if askw_ then " AS " else " ") ++ fq (or_ostr aqc qc) a)%string.
Definition alias_toks (c : ctx) (qc : option string) (ts : list tok) (alias : option string) : list tok :=
  match alias with None => ts | Some a => ts ++ [KText (alias_suffix (askw c) (aq c) qc a)] end.

(* Terms.opnd on tokens: an operand that is a predicate is parenthesised (gen/TermsTable.v: operand_parens) *)
Definition opndT (sl : oslot) (t : term) (ts : list tok) : list tok := ptoks (operand_parens sl (okind_of t)) ts.

Fixpoint rtoks (c : ctx) (t : term) {struct t} : res (list tok) :=
  match t with
  | TField name tbl alias =>
      let r := [KRef tbl (qualifier (wn c) tbl) name false] in
      Ok (if wa c then alias_toks c (q c) r alias else r)
  | TStar tbl => Ok [KRef tbl (qualifier (wn c) tbl) "*" true]
  | TValS _ _ | TValI _ _ | TValB _ _ _ | TValNone _ | TValRaw _ _ | TLit _ _ | TParam _ | TSub _ _ _ =>
      s <- render c t ;; Ok [KText s]
  | TNeg t' =>
      s0 <- rtoks (opc SNeg t' (set_wa c false)) t' ;;
      let s := opndT SNeg t' s0 in
      Ok (KText "-" :: ptoks (match t' with TArith _ _ _ _ => neg_parens_arith | TNeg _ => neg_parens_neg | _ => false end
                             || (neg_parens_minus && starts_minus (flat (q c) s))) s)
  | TArith op l r alias =>
      let c' := set_wa c false in
      a0 <- rtoks (opc SArithL l c') l ;; b0 <- rtoks (opc SArithR r c') r ;;
      let a := opndT SArithL l a0 in
      let b := opndT SArithR r b0 in
      let rp := right_needs_parens op (top_op r)
                || (sub_parens_minus && (match op with OSub => true | _ => false end) && starts_minus (flat (q c) b)) in
      let s := ptoks (left_needs_parens op (top_op l)) a ++ KText (aop_text op) :: ptoks rp b in
      Ok (if wa c then alias_toks c (q c) s alias else s)
  | TBasic cm l r alias =>
      let c' := set_wa c false in
      a0 <- rtoks (opc SCmpL l c') l ;; b0 <- rtoks (opc SCmpR r c') r ;;
      let s := opndT SCmpL l a0 ++ KText (cmp_text cm) :: opndT SCmpR r b0 in
      Ok (if wa c then alias_toks c (q c) s alias else s)
  | TCplx bo l r alias =>
      let c' := set_wa c false in
      a <- rtoks (set_subc c' (needs_brackets_x bo (top_bop l))) l ;;
      b <- rtoks (set_subc c' (needs_brackets_x bo (top_bop r))) r ;;
      let s := ptoks (subc c) (a ++ KText (" " ++ bop_text_x bo ++ " ") :: b) in
      Ok (if wa c then alias_toks c (q c) s alias else s)
  | TIn t' cont negated alias =>
      a <- rtoks (opc SInTerm t' (set_wa (set_subq c false) false)) t' ;; b <- rtoks (set_wa (set_subq c true) false) cont ;;
      Ok (alias_toks c (q c) (opndT SInTerm t' a ++ KText (" " ++ (if negated then "NOT " else "") ++ "IN ") :: b) alias)
  | TBetween t' lo hi alias =>
      let c' := set_wa c false in
      a <- rtoks (opc SBetTerm t' c') t' ;; b <- rtoks (opc SBetLo lo c') lo ;; d <- rtoks (opc SBetHi hi c') hi ;;
      Ok (alias_toks c (q c) (opndT SBetTerm t' a ++ KText " BETWEEN " :: opndT SBetLo lo b ++ KText " AND " :: opndT SBetHi hi d) alias)
  | TBitAnd t' v alias =>
      a <- rtoks (set_wa c false) t' ;; Ok (alias_toks c (q c) (KText "(" :: a ++ [KText (" & " ++ v ++ ")")]) alias)
  | TIsNull t' alias =>
      a <- rtoks (opc SIsNull t' (set_wa c false)) t' ;; Ok (alias_toks c (q c) (opndT SIsNull t' a ++ [KText " IS NULL"]) alias)
  | TNotNull t' alias =>
      a <- rtoks (opc SNotNull t' (set_wa c false)) t' ;; Ok (alias_toks c (q c) (opndT SNotNull t' a ++ [KText " IS NOT NULL"]) alias)
  | TNot t' alias => a <- rtoks (set_wa (set_subc c true) false) t' ;; Ok (alias_toks (set_subc c true) (q c) (KText "NOT " :: a) alias)
  | TAll t' alias => a <- rtoks (set_wa c false) t' ;; Ok (alias_toks c (q c) (a ++ [KText " ALL"]) alias)
  | TEmpty => Err "TypeError"
  | TCase ws els alias =>
      let c' := set_wa c false in
      match ws with
      | WNil => Err "CaseException"
      | _ =>
        cs <- rtoks_whens c' ws ;;
        e <- match els with ONone => Ok [] | OSome t' => s <- rtoks c' t' ;; Ok (KText " ELSE " :: s) end ;;
        let s := KText "CASE " :: jtoks " " cs ++ e ++ [KText " END"] in
        Ok (if wa c then alias_toks c (q c) s alias else s)
      end
  | TFunc name args special alias =>
      ss <- rtoks_list (fctx c) args ;;
      let s := KText (name ++ "(") :: jtoks "," ss
               ++ [KText ((match special with Some sp => " " ++ sp | None => "" end) ++ ")")] in
      Ok (if wa c then alias_toks c (q c) s alias else s)
  | TTuple vs alias => ss <- rtoks_list (set_wa c false) vs ;; Ok (alias_toks c (q c) (KText "(" :: jtoks "," ss ++ [KText ")"]) alias)
  | TArray vs alias =>
      ss <- rtoks_list (set_wa c false) vs ;;
      let body := jtoks "," ss in
      let s := if is_pg (dia c)
               then (match flat (q c) body with
                     | EmptyString => body ++ [KText "'{}'"]
                     | _ => KText "ARRAY[" :: body ++ [KText "]"] end)
               else KText "[" :: body ++ [KText "]"] in
      Ok (alias_toks c (q c) s alias)
  end
with rtoks_list (c : ctx) (l : tlist) {struct l} : res (list (list tok)) :=
  match l with
  | TNil => Ok []
  | TCons t r => a <- rtoks c t ;; rest <- rtoks_list c r ;; Ok (a :: rest)
  end
with rtoks_whens (c : ctx) (l : wlist) {struct l} : res (list (list tok)) :=
  match l with
  | WNil => Ok []
  | WCons cr v r =>
      a <- rtoks c cr ;; b <- rtoks c v ;; rest <- rtoks_whens c r ;;
      Ok ((KText "WHEN " :: a ++ KText " THEN " :: b) :: rest)
  end.

(* what the tokens say *)
Definition tok_tables (ts : list tok) : list (option tref) :=
  flat_map (fun tk => match tk with KRef tb _ _ _ => [tb] | KText _ => [] end) ts.
Definition refs_of (ts : list tok) : list (option string * string) :=
  flat_map (fun tk => match tk with KRef _ qual n _ => [(qual, n)] | KText _ => [] end) ts.
(* every field / star leaf of [t] with the qualifier it is rendered with under [c], in text order *)
Definition leaf_refs (c : ctx) (t : term) : list (option string * string) :=
  match rtoks c t with Ok ts => refs_of ts | Err _ => [] end.

(* the rule a reference token obeys when its statement's flag is [wns] *)
Definition ref_ok (wns : bool) (tk : tok) : Prop :=
  match tk with KRef tb qual _ _ => qual = qualifier wns tb | KText _ => True end.
Definition ref_okb (wns : bool) (tk : tok) : bool :=
  match tk with KRef tb qual _ _ => option_eqb String.eqb qual (qualifier wns tb) | KText _ => true end.

(* ------------------------------------------------------------------------------------------- *)
(* 2. tokens of a statement item (sub-queries are opaque text rendered by Query.rquery)          *)
(* ------------------------------------------------------------------------------------------- *)
Fixpoint itoks (k : kctx) (srcs : list tref) (c : ctx) (i : item) {struct i} : res (list tok) :=
  match i with
  | IT t => rtoks c (map_tref (resolve_tref srcs) t)
  | ISub x => s <- rquery (with_c k c) (wa c) (subq c) (qalias x) x ;; Ok [KText s]
  | IIn t x neg =>
      a <- rtoks (set_subq c false) (map_tref (resolve_tref srcs) t) ;;
      b <- rquery (with_c k (set_subq c true)) (wa c) true (qalias x) x ;;
      Ok (a ++ [KText (" " ++ (if neg then "NOT " else "") ++ "IN " ++ b)])
  | IExists x neg =>
      b <- rquery (with_c k c) (wa c) (subq c) (qalias x) x ;; Ok [KText ((if neg then "NOT " else "") ++ "EXISTS " ++ b)]
  | ICmp cm t x =>
      let c' := set_wa c false in
      a <- rtoks c' (map_tref (resolve_tref srcs) t) ;;
      b <- rquery (with_c k c') false (subq c) (qalias x) x ;;
      Ok (a ++ [KText (cmp_text cm ++ b)])
  | IFunc name args alias =>
      let k' := fk (with_c k c) in
      ss <- (fix go (l : list item) : res (list (list tok)) :=
               match l with [] => Ok [] | x :: r => a <- itoks k' srcs (kc k') x ;; rest <- go r ;; Ok (a :: rest) end) args ;;
      let s := KText (name ++ "(") :: jtoks "," ss ++ [KText ")"] in
      Ok (if wa c then alias_toks c (q c) s alias else s)
  | ICplx bo l r =>
      let nb (x : item) := match x with ICplx b2 _ _ => negb (bop_eqb b2 bo) | IT t => needs_brackets_x bo (top_bop t) | _ => false end in
      a <- itoks k srcs (set_subc c (nb l)) l ;; b <- itoks k srcs (set_subc c (nb r)) r ;;
      Ok (ptoks (subc c) (a ++ KText (" " ++ bop_text_x bo ++ " ") :: b))
  | INot x => a <- itoks k srcs (set_subc c true) x ;; Ok (KText "NOT " :: a)
  end.

(* [Query.item_tables i]: the tables of the field leaves of an item's own terms (not descending into sub-queries) *)

(* ------------------------------------------------------------------------------------------- *)
(* 3. one statement, clause by clause                                                           *)
(* ------------------------------------------------------------------------------------------- *)
Inductive clause := ClSelect | ClOn | ClWhere | ClGroupBy | ClHaving | ClOrderBy | ClSetValue | ClSetTarget
                  | ClInsColumn | ClInsValue | ClText.

(* names and in-statement references of the sources; [base] = the tables do_join compares a joined table with *)
(* [tk]: the names in use before the joins, from the names of the FROM items (SELECT: just these; UPDATE: target :: ...) *)
Definition stmt_names (base : list tref) (tk : list string -> list string) (from : list source) (joins : list (jhow * source * jcond))
  : list (option string) * list (option string) :=
  let (fnames, n1) := name_from sub_count 0 from in
  let (jnames, _) := name_joins base (tk (src_names from fnames)) n1 joins in (fnames, jnames).
(* SELECT: the names of the FROM items only -- the WITH names are NOT part of the names in use (pypika 2def80d: the
   numbered alias must not depend on whether with_() was called before or after the join); [withs] is kept as a parameter *)
Definition sel_tk (withs : list (string * query)) (l : list string) : list string := l.
Definition upd_tk (tbl : tref) (l : list string) : list string := tref_name tbl :: l.
Definition jsources (joins : list (jhow * source * jcond)) : list source := map (fun j => snd (fst j)) joins.
Definition stmt_srcs (base : list tref) (tk : list string -> list string) (from : list source) (joins : list (jhow * source * jcond)) : list tref :=
  let nm := stmt_names base tk from joins in src_refs from (fst nm) ++ src_refs (jsources joins) (snd nm).

(* _validate_table on the WHOLE WHERE criterion (fields_() does not descend into sub-queries): a field's table is neither
   a source nor the target *)
Definition out_of_scope (scope srcs : list tref) (o : option tref) : bool :=
  match o with Some tb => negb (existsb (tref_eqb (resolve_tref srcs tb)) scope) | None => false end.
Definition foreign_in (scope srcs : list tref) (wheres : option item) : bool :=
  existsb (out_of_scope scope srcs) (match wheres with Some w => item_tables w | None => [] end).
Definition first_is_builder (from : list source) : bool :=
  match from with SrcQ y :: _ => is_builder y | _ => false end.

Definition sel_wns (withs : list (string * query)) (from : list source) (joins : list (jhow * source * jcond)) (wheres : option item) : bool :=
  let srcs := stmt_srcs (base_tables from) (sel_tk withs) from joins in
  negb (Nat.eqb (List.length joins) 0) || Nat.ltb 1 (List.length from) || first_is_builder from
  || foreign_in srcs srcs wheres.
Definition upd_wns (tbl : tref) (from : list source) (joins : list (jhow * source * jcond)) (wheres : option item) : bool :=
  let srcs := stmt_srcs (tbl :: base_tables from) (upd_tk tbl) from joins in
  negb (Nat.eqb (List.length joins) 0) || Nat.ltb 1 (List.length from) || first_is_builder from
  || foreign_in (tbl :: srcs) srcs wheres || negb (Nat.eqb (List.length from) 0).
Definition del_wns (from : list source) (wheres : option item) : bool :=
  let srcs := src_refs from (fst (name_from sub_count 0 from)) in
  Nat.ltb 1 (List.length from) || first_is_builder from || foreign_in srcs srcs wheres.

(* the with_namespace flag of a statement as Query.v computes it; INSERT forces False on its own parts *)
Definition q_wns (x : query) : bool :=
  match x with
  | QSel _ withs _ _ from joins wheres _ _ _ _ _ _ _ => sel_wns withs from joins wheres
  | QUpd _ tbl _ from joins wheres _ => upd_wns tbl from joins wheres
  | QDel _ from wheres => del_wns from wheres
  | _ => false
  end.
Definition q_srcs (x : query) : list tref :=
  match x with
  | QSel _ withs _ _ from joins _ _ _ _ _ _ _ _ => stmt_srcs (base_tables from) (sel_tk withs) from joins
  | QUpd _ tbl _ from joins _ _ => stmt_srcs (tbl :: base_tables from) (upd_tk tbl) from joins
  | QDel _ from _ => src_refs from (fst (name_from sub_count 0 from))
  | _ => []
  end.
(* number of row sources the statement itself brings into scope *)
Definition scope_size (x : query) : nat :=
  match x with
  | QSel _ _ _ _ from joins _ _ _ _ _ _ _ _ => List.length from + List.length joins
  | QUpd _ _ _ from joins _ _ => 1 + List.length from + List.length joins
  | QDel _ from _ => List.length from
  | _ => 0
  end.

(* the context of each clause of a SELECT (Query.v: ci) and of UPDATE / DELETE / INSERT (Query.v: base) *)
Definition sel_cx (k : kctx) (wns : bool) (cl : clause) : ctx :=
  match cl with
  | ClSelect => ctx_item k true true wns
  | ClOn | ClWhere => ctx_item k false true wns
  | ClHaving => ctx_item k false clause_subq_having wns
  | ClGroupBy => ctx_item k false clause_subq_groupby wns
  | ClOrderBy => ctx_item k false clause_subq_orderby wns
  | _ => ctx_item k false false wns
  end.
Definition upd_cx (k : kctx) (wns : bool) (cl : clause) : ctx :=
  let base := set_wn (kc k) wns in
  match cl with
  | ClOn => set_subq (set_wa base false) true
  | ClWhere => set_subq base true
  | ClSetTarget | ClInsColumn => set_wn base false
  | ClSetValue => if clause_subq_setvalue then set_subq base true else base
  | _ => base
  end.
(* clauses whose references are rendered with with_namespace=False by documented intent *)
Definition is_target (cl : clause) : bool := match cl with ClSetTarget | ClInsColumn => true | _ => false end.

(* ---- named loops; the bodies are those of the inline loops of Query.rquery ---- *)
Definition mapM {A} (f : A -> res string) : list A -> res (list string) :=
  fix go (l : list A) : res (list string) :=
    match l with [] => Ok [] | y :: r => a <- f y ;; rest <- go r ;; Ok (a :: rest) end.
Definition withs_loop (kk : kctx) : list (string * query) -> res (list string) :=
  fix go (l : list (string * query)) : res (list string) :=
    match l with [] => Ok [] | (n, y) :: r =>
      a <- rquery kk false false (qalias y) y ;; rest <- go r ;; Ok ((n ++ " AS (" ++ a ++ ") ")%string :: rest) end.
Definition from_loop (k : kctx) (ct cq : ctx) : list source -> list (option string) -> res (list string) :=
  fix go (l : list source) (ns : list (option string)) : res (list string) :=
    match l with [] => Ok [] | s :: r =>
      a <- (match s with
            | SrcT t => Ok (table_sql ct t)
            | SrcQ y => rquery (with_c k cq) true true (hd None ns) y
            | SrcA n => Ok n end) ;;
      rest <- go r (tl ns) ;; Ok (a :: rest) end.
Definition join_loop (k kk : kctx) (srcs : list tref) (ct cq con : ctx) (qc : option string)
  : list (jhow * source * jcond) -> list (option string) -> res (list string) :=
  fix go (l : list (jhow * source * jcond)) (ns : list (option string)) : res (list string) :=
    match l with [] => Ok [] | (h, s, cnd) :: r =>
      a <- (match s with
            | SrcT t => Ok (table_sql ct (src_ref s (hd None ns)))
            | SrcQ y => rquery (with_c k cq) true true (hd None ns) y
            | SrcA n => Ok n end) ;;
      cn <- (match cnd with
             | JOn i => b <- ritem kk srcs con i ;; Ok (" ON " ++ b)%string
             | JUsing fs => Ok (" USING (" ++ join "," (map (fq qc) fs) ++ ")")%string
             | JCrossCond => Ok ""%string end) ;;
      rest <- go r (tl ns) ;;
      Ok ((jprefix h cnd ++ "JOIN " ++ a ++ cn)%string :: rest) end.
Definition alias_ref (selects : list item) (y : item) : option string :=
  match item_alias y with
  | Some a => if truthy_ostr (Some a) && existsb (option_eqb String.eqb (Some a)) (map item_alias selects) then Some a else None
  | None => None end.
Definition order_loop (kk : kctx) (srcs : list tref) (c : ctx) (base : ctx) (selects : list item)
  : list (item * option order) -> res (list string) :=
  fix go (l : list (item * option order)) : res (list string) :=
    match l with [] => Ok [] | (y, d) :: r =>
      a <- (match alias_ref selects y with
            | Some a => Ok (fq (or_ostr (aq base) (q base)) a)
            | None => ritem kk srcs c y end) ;;
      rest <- go r ;;
      Ok ((match d with Some d' => (a ++ " " ++ order_text d')%string | None => a end) :: rest) end.
Definition sets_loop (kk : kctx) (srcs : list tref) (ctgt cval : ctx) : list (term * item) -> res (list string) :=
  fix go (l : list (term * item)) : res (list string) :=
    match l with [] => Ok [] | (f, v) :: r =>
      a <- render ctgt f ;; b <- ritem kk srcs cval v ;; rest <- go r ;; Ok ((a ++ "=" ++ b)%string :: rest) end.
Definition rows_loop (kk : kctx) (c : ctx) : list (list item) -> res (list string) :=
  fix go (l : list (list item)) : res (list string) :=
    match l with [] => Ok [] | row :: r =>
      vs <- (fix gov (l2 : list item) : res (list string) :=
               match l2 with [] => Ok [] | y :: r2 => a <- ritem kk [] c y ;; rest <- gov r2 ;; Ok (a :: rest) end) row ;;
      rest <- go r ;; Ok (join "," vs :: rest) end.

(* ---- SELECT ---- *)
Definition sel_render (kin : kctx) (walias subquery : bool) (ali : option string)
    (c : cls) (withs : list (string * query)) (distinct : bool) (selects : list item)
    (from : list source) (joins : list (jhow * source * jcond))
    (wheres havings : option item) (groupbys : list item) (orderbys : list (item * option order))
    (l o : option Z) (fu : bool) : res string :=
  let k := defaults c kin in
  let nm := stmt_names (base_tables from) (sel_tk withs) from joins in
  let srcs := stmt_srcs (base_tables from) (sel_tk withs) from joins in
  let wns := sel_wns withs from joins wheres in
  let base := kc k in
  let cx := sel_cx k wns in
  let kk := with_c k (set_wn base wns) in
  match selects with
  | [] => Ok ""%string
  | _ =>
  w <- (match withs with
        | [] => Ok ""%string
        | _ => ws <- withs_loop kk withs ;; Ok ("WITH " ++ join "," ws)%string end) ;;
  sel <- mapM (ritem kk srcs (cx ClSelect)) selects ;;
  fr <- from_loop k (cx ClSelect) (cx ClSelect) from (fst nm) ;;
  js <- join_loop k kk srcs (cx ClSelect) (cx ClSelect) (cx ClOn) (q base) joins (snd nm) ;;
  wh <- opt_bind wheres (fun i => a <- ritem kk srcs (cx ClWhere) i ;; Ok (" WHERE " ++ a)%string) ;;
  gb <- (match groupbys with
         | [] => Ok ""%string
         | _ => gs <- mapM (fun y => match (if k_gba k then alias_ref selects y else None) with
                                     | Some a => Ok (fq (or_ostr (aq base) (q base)) a)
                                     | None => ritem kk srcs (cx ClGroupBy) y end) groupbys ;;
                Ok (" GROUP BY " ++ join "," gs)%string end) ;;
  hv <- opt_bind havings (fun i => a <- ritem kk srcs (cx ClHaving) i ;; Ok (" HAVING " ++ a)%string) ;;
  ob <- (match orderbys with
         | [] => Ok ""%string
         | _ => os <- order_loop kk srcs (cx ClOrderBy) base selects orderbys ;;
                Ok (" ORDER BY " ++ join "," os)%string end) ;;
  let body := (w ++ "SELECT " ++ (if distinct then "DISTINCT " else "") ++ join "," sel
              ++ (match fr with [] => "" | _ => " FROM " ++ join "," fr end)
              ++ (match js with [] => "" | _ => " " ++ join " " js end)
              ++ wh ++ gb ++ hv ++ ob ++ page_tail c KSelect l o ++ (if fu then " FOR UPDATE" else ""))%string in
  let body := paren subquery body in
  Ok (if walias then fmt_alias body ali (q base) (k_qaq k) (askw base) else body)
  end.

(* ---- UPDATE ---- *)
Definition upd_render (kin : kctx) (c : cls) (tbl : tref) (sets : list (term * item))
    (from : list source) (joins : list (jhow * source * jcond)) (wheres : option item) (l : option Z) : res string :=
  let k := defaults c kin in
  let nm := stmt_names (tbl :: base_tables from) (upd_tk tbl) from joins in
  let srcs := stmt_srcs (tbl :: base_tables from) (upd_tk tbl) from joins in
  let wns := upd_wns tbl from joins wheres in
  let cx := upd_cx k wns in
  let base := set_wn (kc k) wns in
  let kk := with_c k base in
  let cq := set_subq (set_wa base true) true in
  match sets with
  | [] => Ok ""%string
  | _ =>
  js <- join_loop k kk srcs base cq (cx ClOn) (q base) joins (snd nm) ;;
  ss <- sets_loop kk srcs (cx ClSetTarget) (cx ClSetValue) sets ;;
  fr <- from_loop k base cq from (fst nm) ;;
  wh <- opt_bind wheres (fun i => a <- ritem kk srcs (cx ClWhere) i ;; Ok (" WHERE " ++ a)%string) ;;
  Ok ((if cls_is_clickhouse c then "ALTER TABLE " else "UPDATE ") ++ table_sql base tbl
      ++ (match js with [] => "" | _ => " " ++ join " " js end)
      ++ (if cls_is_clickhouse c then " UPDATE " else " SET ") ++ join "," ss
      ++ (match fr with [] => "" | _ => " FROM " ++ join "," fr end)
      ++ wh ++ page_tail c KUpdate l None)%string
  end.

(* ---- DELETE ---- *)
Definition del_render (kin : kctx) (subquery : bool) (c : cls) (from : list source) (wheres : option item) : res string :=
  let k := defaults c kin in
  let fnames := fst (name_from sub_count 0 from) in
  let srcs := src_refs from fnames in
  let wns := del_wns from wheres in
  let cx := upd_cx k wns in
  let base := set_wn (kc k) wns in
  let kk := with_c k base in
  fr <- from_loop k base (set_subq (set_wa base true) true) from fnames ;;
  wh <- opt_bind wheres (fun i => a <- ritem kk srcs (cx ClWhere) i ;; Ok (" WHERE " ++ a)%string) ;;
  let body := ((if cls_is_clickhouse c
               then "ALTER TABLE" ++ (match fr with [] => "" | _ => " " ++ join "," fr ++ " DELETE" end)
               else "DELETE" ++ (match fr with [] => "" | _ => " FROM " ++ join "," fr end)) ++ wh)%string in
  Ok (paren subquery body).

(* ---- INSERT ---- *)
Definition ins_render (kin : kctx) (walias subquery : bool) (ali : option string)
    (c : cls) (into : tref) (columns : list term) (rows : list (list item)) (sel : option query) (replace : bool) : res string :=
  let k := defaults c kin in
  let cx := upd_cx k false in
  let base := set_wn (kc k) false in
  let kk := with_c k base in
  let head := ((if replace then "REPLACE INTO " else "INSERT INTO ") ++ table_sql base into)%string in
  cols <- (match columns with
           | [] => Ok ""%string
           | _ => cs <- render_list (cx ClInsColumn) (fold_right TCons TNil columns) ;; Ok (" (" ++ join "," cs ++ ")")%string end) ;;
  match rows, sel with
  | [], None => Ok ""%string
  | _ :: _, _ =>
      rs <- rows_loop kk (set_subq (set_wa base false) true) rows ;;
      Ok (head ++ cols ++ " VALUES (" ++ join "),(" rs ++ ")")%string
  | [], Some y =>
      s <- rquery kk false false (qalias y) y ;;
      match s with
      | EmptyString => Ok ""%string
      | _ =>
        let body := paren subquery (head ++ cols ++ " " ++ s)%string in
        Ok (if walias then fmt_alias body ali (q base) (k_qaq k) (askw base) else body)
      end
  end.

(* ---- token twins: the statement as tagged tokens; sub-queries, tables, glue are text ---- *)
Definition stok := (clause * tok)%type.
Definition tg (cl : clause) (ts : list tok) : list stok := map (pair cl) ts.
Definition tx (s : string) : list stok := [(ClText, KText s)].
Definition sflat (qc : option string) (l : list stok) : string := flat qc (map snd l).
(* the rule a tagged reference obeys in a statement whose flag is [wns] *)
Definition sref_ok (wns : bool) (st : stok) : Prop := ref_ok (if is_target (fst st) then false else wns) (snd st).
Definition sref_okb (wns : bool) (st : stok) : bool := ref_okb (if is_target (fst st) then false else wns) (snd st).
Definition srefs_of (l : list stok) : list (clause * option string * string) :=
  flat_map (fun st => match st with (cl, KRef _ qual n _) => [(cl, qual, n)] | _ => [] end) l.
Definition stok_tables (l : list stok) : list (clause * option tref) :=
  flat_map (fun st => match st with (cl, KRef tb _ _ _) => [(cl, tb)] | _ => [] end) l.

Definition mapT {A} (f : A -> res (list tok)) : list A -> res (list (list tok)) :=
  fix go (l : list A) : res (list (list tok)) :=
    match l with [] => Ok [] | y :: r => a <- f y ;; rest <- go r ;; Ok (a :: rest) end.
Definition opt_bindT {A} (o : option A) (f : A -> res (list tok)) : res (list tok) :=
  match o with None => Ok [] | Some a => f a end.
Definition join_toks (k kk : kctx) (srcs : list tref) (ct cq con : ctx) (qc : option string)
  : list (jhow * source * jcond) -> list (option string) -> res (list (list tok)) :=
  fix go (l : list (jhow * source * jcond)) (ns : list (option string)) : res (list (list tok)) :=
    match l with [] => Ok [] | (h, s, cnd) :: r =>
      a <- (match s with
            | SrcT t => Ok (table_sql ct (src_ref s (hd None ns)))
            | SrcQ y => rquery (with_c k cq) true true (hd None ns) y
            | SrcA n => Ok n end) ;;
      cn <- (match cnd with
             | JOn i => b <- itoks kk srcs con i ;; Ok (KText " ON " :: b)
             | JUsing fs => Ok [KText (" USING (" ++ join "," (map (fq qc) fs) ++ ")")%string]
             | JCrossCond => Ok [] end) ;;
      rest <- go r (tl ns) ;;
      Ok ((KText (jprefix h cnd ++ "JOIN " ++ a)%string :: cn) :: rest) end.
Definition order_toks (kk : kctx) (srcs : list tref) (c : ctx) (base : ctx) (selects : list item)
  : list (item * option order) -> res (list (list tok)) :=
  fix go (l : list (item * option order)) : res (list (list tok)) :=
    match l with [] => Ok [] | (y, d) :: r =>
      a <- (match alias_ref selects y with
            | Some a => Ok [KText (fq (or_ostr (aq base) (q base)) a)]
            | None => itoks kk srcs c y end) ;;
      rest <- go r ;;
      Ok ((match d with Some d' => a ++ [KText (" " ++ order_text d')%string] | None => a end) :: rest) end.
Definition sets_toks (kk : kctx) (srcs : list tref) (ctgt cval : ctx) : list (term * item) -> res (list (list stok)) :=
  fix go (l : list (term * item)) : res (list (list stok)) :=
    match l with [] => Ok [] | (f, v) :: r =>
      a <- rtoks ctgt f ;; b <- itoks kk srcs cval v ;; rest <- go r ;;
      Ok ((tg ClSetTarget a ++ tx "=" ++ tg ClSetValue b) :: rest) end.
Fixpoint sjoin (sep : string) (l : list (list stok)) : list stok :=
  match l with
  | [] => []
  | [x] => x
  | x :: r => x ++ tx sep ++ sjoin sep r
  end.
Definition rows_toks (kk : kctx) (c : ctx) : list (list item) -> res (list (list tok)) :=
  fix go (l : list (list item)) : res (list (list tok)) :=
    match l with [] => Ok [] | row :: r =>
      vs <- mapT (itoks kk [] c) row ;;
      rest <- go r ;; Ok (jtoks "," vs :: rest) end.
Definition sparen (b : bool) (l : list stok) : list stok := if b then tx "(" ++ l ++ tx ")" else l.
Definition salias (walias : bool) (l : list stok) (ali : option string) (askw_ : bool) (aqc qc : option string) : list stok :=
  if walias then match ali with None => l | Some a => l ++ tx (alias_suffix askw_ aqc qc a) end else l.

Definition sel_toks (kin : kctx) (walias subquery : bool) (ali : option string)
    (c : cls) (withs : list (string * query)) (distinct : bool) (selects : list item)
    (from : list source) (joins : list (jhow * source * jcond))
    (wheres havings : option item) (groupbys : list item) (orderbys : list (item * option order))
    (l o : option Z) (fu : bool) : res (list stok) :=
  let k := defaults c kin in
  let nm := stmt_names (base_tables from) (sel_tk withs) from joins in
  let srcs := stmt_srcs (base_tables from) (sel_tk withs) from joins in
  let wns := sel_wns withs from joins wheres in
  let base := kc k in
  let cx := sel_cx k wns in
  let kk := with_c k (set_wn base wns) in
  match selects with
  | [] => Ok []
  | _ =>
  w <- (match withs with
        | [] => Ok ""%string
        | _ => ws <- withs_loop kk withs ;; Ok ("WITH " ++ join "," ws)%string end) ;;
  sel <- mapT (itoks kk srcs (cx ClSelect)) selects ;;
  fr <- from_loop k (cx ClSelect) (cx ClSelect) from (fst nm) ;;
  js <- join_toks k kk srcs (cx ClSelect) (cx ClSelect) (cx ClOn) (q base) joins (snd nm) ;;
  wh <- opt_bindT wheres (fun i => a <- itoks kk srcs (cx ClWhere) i ;; Ok (KText " WHERE " :: a)) ;;
  gb <- (match groupbys with
         | [] => Ok []
         | _ => gs <- mapT (fun y => match (if k_gba k then alias_ref selects y else None) with
                                     | Some a => Ok [KText (fq (or_ostr (aq base) (q base)) a)]
                                     | None => itoks kk srcs (cx ClGroupBy) y end) groupbys ;;
                Ok (KText " GROUP BY " :: jtoks "," gs) end) ;;
  hv <- opt_bindT havings (fun i => a <- itoks kk srcs (cx ClHaving) i ;; Ok (KText " HAVING " :: a)) ;;
  ob <- (match orderbys with
         | [] => Ok []
         | _ => os <- order_toks kk srcs (cx ClOrderBy) base selects orderbys ;;
                Ok (KText " ORDER BY " :: jtoks "," os) end) ;;
  let body := tx (w ++ "SELECT " ++ (if distinct then "DISTINCT " else ""))%string ++ tg ClSelect (jtoks "," sel)
              ++ tx (match fr with [] => "" | _ => " FROM " ++ join "," fr end)%string
              ++ tg ClOn (match js with [] => [] | _ => KText " " :: jtoks " " js end)
              ++ tg ClWhere wh ++ tg ClGroupBy gb ++ tg ClHaving hv ++ tg ClOrderBy ob
              ++ tx (page_tail c KSelect l o ++ (if fu then " FOR UPDATE" else ""))%string in
  Ok (salias walias (sparen subquery body) ali (askw base) (k_qaq k) (q base))
  end.

Definition upd_toks (kin : kctx) (c : cls) (tbl : tref) (sets : list (term * item))
    (from : list source) (joins : list (jhow * source * jcond)) (wheres : option item) (l : option Z) : res (list stok) :=
  let k := defaults c kin in
  let nm := stmt_names (tbl :: base_tables from) (upd_tk tbl) from joins in
  let srcs := stmt_srcs (tbl :: base_tables from) (upd_tk tbl) from joins in
  let wns := upd_wns tbl from joins wheres in
  let cx := upd_cx k wns in
  let base := set_wn (kc k) wns in
  let kk := with_c k base in
  let cq := set_subq (set_wa base true) true in
  match sets with
  | [] => Ok []
  | _ =>
  js <- join_toks k kk srcs base cq (cx ClOn) (q base) joins (snd nm) ;;
  ss <- sets_toks kk srcs (cx ClSetTarget) (cx ClSetValue) sets ;;
  fr <- from_loop k base cq from (fst nm) ;;
  wh <- opt_bindT wheres (fun i => a <- itoks kk srcs (cx ClWhere) i ;; Ok (KText " WHERE " :: a)) ;;
  Ok (tx ((if cls_is_clickhouse c then "ALTER TABLE " else "UPDATE ") ++ table_sql base tbl)%string
      ++ tg ClOn (match js with [] => [] | _ => KText " " :: jtoks " " js end)
      ++ tx (if cls_is_clickhouse c then " UPDATE " else " SET ")%string ++ sjoin "," ss
      ++ tx (match fr with [] => "" | _ => " FROM " ++ join "," fr end)%string
      ++ tg ClWhere wh ++ tx (page_tail c KUpdate l None))
  end.

Definition del_toks (kin : kctx) (subquery : bool) (c : cls) (from : list source) (wheres : option item) : res (list stok) :=
  let k := defaults c kin in
  let fnames := fst (name_from sub_count 0 from) in
  let srcs := src_refs from fnames in
  let wns := del_wns from wheres in
  let cx := upd_cx k wns in
  let base := set_wn (kc k) wns in
  let kk := with_c k base in
  fr <- from_loop k base (set_subq (set_wa base true) true) from fnames ;;
  wh <- opt_bindT wheres (fun i => a <- itoks kk srcs (cx ClWhere) i ;; Ok (KText " WHERE " :: a)) ;;
  Ok (sparen subquery
        (tx (if cls_is_clickhouse c
             then "ALTER TABLE" ++ (match fr with [] => "" | _ => " " ++ join "," fr ++ " DELETE" end)
             else "DELETE" ++ (match fr with [] => "" | _ => " FROM " ++ join "," fr end))%string
         ++ tg ClWhere wh)).

Definition ins_toks (kin : kctx) (walias subquery : bool) (ali : option string)
    (c : cls) (into : tref) (columns : list term) (rows : list (list item)) (sel : option query) (replace : bool) : res (list stok) :=
  let k := defaults c kin in
  let cx := upd_cx k false in
  let base := set_wn (kc k) false in
  let kk := with_c k base in
  let head := ((if replace then "REPLACE INTO " else "INSERT INTO ") ++ table_sql base into)%string in
  cols <- (match columns with
           | [] => Ok []
           | _ => cs <- rtoks_list (cx ClInsColumn) (fold_right TCons TNil columns) ;;
                  Ok (KText " (" :: jtoks "," cs ++ [KText ")"]) end) ;;
  match rows, sel with
  | [], None => Ok []
  | _ :: _, _ =>
      rs <- rows_toks kk (set_subq (set_wa base false) true) rows ;;
      Ok (tx head ++ tg ClInsColumn cols ++ tx " VALUES (" ++ tg ClInsValue (jtoks "),(" rs) ++ tx ")")
  | [], Some y =>
      s <- rquery kk false false (qalias y) y ;;
      match s with
      | EmptyString => Ok []
      | _ => Ok (salias walias (sparen subquery (tx head ++ tg ClInsColumn cols ++ tx (" " ++ s)%string)) ali
                        (askw base) (k_qaq k) (q base))
      end
  end.

(* the tagged tokens of one statement under the keyword arguments [kin] (QSet has no clauses of its own) *)
Definition stoks (kin : kctx) (walias subquery : bool) (ali : option string) (x : query) : res (list stok) :=
  match x with
  | QSel c withs distinct selects from joins wheres havings groupbys orderbys l o fu _ =>
      sel_toks kin walias subquery ali c withs distinct selects from joins wheres havings groupbys orderbys l o fu
  | QUpd c tbl sets from joins wheres l => upd_toks kin c tbl sets from joins wheres l
  | QDel c from wheres => del_toks kin subquery c from wheres
  | QIns c into columns rows sel replace _ => ins_toks kin walias subquery ali c into columns rows sel replace
  | QSet _ _ _ _ _ _ => s <- rquery kin walias subquery ali x ;; Ok (tx s)
  end.
Definition stmt_q (kin : kctx) (x : query) : option string :=
  match x with
  | QSel c _ _ _ _ _ _ _ _ _ _ _ _ _ | QUpd c _ _ _ _ _ _ | QDel c _ _ | QIns c _ _ _ _ _ _ => q (kc (defaults c kin))
  | QSet _ _ _ _ _ _ => q (kc kin)
  end.
(* str(statement) as tagged tokens, and the references of its own clauses *)
Definition top_kctx (x : query) : kctx := top_ctx (top_cls x).
Definition str_stoks (x : query) : res (list stok) :=
  match x with QSet _ _ _ _ _ _ => Ok [] | _ => stoks (top_kctx x) false false (qalias x) x end.
Definition stmt_refs (x : query) : list (clause * option string * string) :=
  match str_stoks x with Ok ts => srefs_of ts | Err _ => [] end.

(* ------------------------------------------------------------------------------------------- *)
(* 4. naming                                                                                    *)
(* ------------------------------------------------------------------------------------------- *)
(* the sub-query's own counter as from_() reads it *)
Definition inner_count (x : query) : nat := match x with QSet _ _ _ _ _ _ => 0 | _ => sub_count x end.

(* a history of from_() / join() calls in ANY order, as far as naming is concerned *)
Inductive ev :=
| EFromQ (given : option string) (inner : nat)   (* from_(sub-query): its alias before the call, its own counter *)
| EJoinQ (given : option string)                 (* join(QueryBuilder) *)
| EOther (name : option string).                 (* tables, AliasedQuery, join(_SetOperation): no counter effect *)
Inductive nkind := NInvented | NGivenSub | NOther.
(* effective alias of every source, how it came about, and the counter afterwards *)
Fixpoint run_hist (own : nat) (h : list ev) : list (option string * nkind) * nat :=
  match h with
  | [] => ([], own)
  | EFromQ (Some a) _ :: r => let (r', n) := run_hist own r in ((Some a, NGivenSub) :: r', n)
  | EFromQ None inner :: r =>
      let d := Nat.max own inner in
      let (r', n) := run_hist (S d) r in ((Some ("sq" ++ nat_to_string d)%string, NInvented) :: r', n)
  | EJoinQ (Some a) :: r => let (r', n) := run_hist own r in ((Some a, NGivenSub) :: r', n)
  | EJoinQ None :: r => let (r', n) := run_hist (S own) r in ((Some ("sq" ++ nat_to_string own)%string, NInvented) :: r', n)
  | EOther o :: r => let (r', n) := run_hist own r in ((o, NOther) :: r', n)
  end.
Definition names_of (keep : nkind -> bool) (l : list (option string * nkind)) : list string :=
  flat_map (fun p => match p with (Some s, kd) => if keep kd then [s] else [] | _ => [] end) l.
Definition is_invented (kd : nkind) : bool := match kd with NInvented => true | _ => false end.
Definition is_given_sub (kd : nkind) : bool := match kd with NGivenSub => true | _ => false end.
Definition is_sub (kd : nkind) : bool := match kd with NOther => false | _ => true end.
Definition invented_of := names_of is_invented.     (* names the builder made up *)
Definition given_sub_of := names_of is_given_sub.   (* aliases sub-queries carried when they were passed in *)
Definition sub_of := names_of is_sub.               (* the names of all sub-query sources *)

Definition from_ev (s : source) : ev :=
  match s with
  | SrcQ x => EFromQ (qalias x) (inner_count x)
  | SrcT t => EOther None
  | SrcA n => EOther None end.
(* join(): every un-aliased sub-query or set operation is tagged sq<own>; tables never touch the counter *)
Definition join_ev (j : jhow * source * jcond) : ev :=
  match snd (fst j) with
  | SrcQ x => EJoinQ (qalias x)
  | _ => EOther None end.
(* Query.v's order: every from_() first, then the joins *)
Definition stmt_hist (from : list source) (joins : list (jhow * source * jcond)) : list ev :=
  map from_ev from ++ map join_ev joins.

Definition sq_prefixed (s : string) : bool :=
  match s with String "s" (String "q" _) => true | _ => false end.

Definition q_hist (x : query) : list ev :=
  match x with
  | QSel _ _ _ _ from joins _ _ _ _ _ _ _ _ => stmt_hist from joins
  | QUpd _ _ _ from joins _ _ => stmt_hist from joins
  | QDel _ from _ => stmt_hist from []
  | _ => []
  end.
Definition q_named (x : query) : list (option string * nkind) := fst (run_hist 0 (q_hist x)).
Definition invented_names (x : query) : list string := invented_of (q_named x).
Definition given_sub_names (x : query) : list string := given_sub_of (q_named x).
Definition subquery_names (x : query) : list string := sub_of (q_named x).
(* the names of the sub-query sources only (hist output / Query.v's effective aliases) *)
Definition sub_names_hist (l : list (option string * nkind)) : list (option string) :=
  map fst (filter (fun p => is_sub (snd p)) l).
Fixpoint sub_only (ss : list source) (ns : list (option string)) : list (option string) :=
  match ss with
  | [] => []
  | s :: r => (match s with SrcQ _ => [hd None ns] | _ => [] end) ++ sub_only r (tl ns)
  end.
(* do_join: the numbered alias name2, name3, ... written onto an un-aliased joined table that is already a base table:
   the effective aliases of the un-aliased joined tables *)
Fixpoint numbered_of (ss : list source) (ns : list (option string)) : list string :=
  match ss with
  | [] => []
  | s :: r => (match s, hd None ns with
               | SrcT t, Some a => (match talias t with None => [a] | Some _ => [] end)
               | _, _ => [] end) ++ numbered_of r (tl ns)
  end.
Definition name2_names (x : query) : list string :=
  match x with
  | QSel _ withs _ _ from joins _ _ _ _ _ _ _ _ =>
      numbered_of (jsources joins) (snd (stmt_names (base_tables from) (sel_tk withs) from joins))
  | QUpd _ tbl _ from joins _ _ =>
      numbered_of (jsources joins) (snd (stmt_names (tbl :: base_tables from) (upd_tk tbl) from joins))
  | _ => []
  end.
(* the names in use when the first join is made: the FROM items' names (tables, tagged sub-queries, WITH references that
   are selected FROM) and the UPDATE target -- not the names of WITH queries that are merely defined *)
Definition base_names (x : query) : list string :=
  match x with
  | QSel _ _ _ _ from _ _ _ _ _ _ _ _ _ => src_names from (fst (name_from sub_count 0 from))
  | QUpd _ tbl _ from _ _ _ => tref_name tbl :: src_names from (fst (name_from sub_count 0 from))
  | _ => []
  end.
(* every name the builder makes up in one statement *)
Definition builder_names (x : query) : list string := invented_names x ++ name2_names x.
(* the in-statement names of ALL sources (alias if any, else table name), and the aliases as the objects carry them *)
Definition source_names (x : query) : list string := map table_name (q_srcs x).
Definition source_aliases (x : query) : list (option string) := map talias (q_srcs x).

(* ---- correlated references: tables of the statement's own clause terms that are not among its sources ---- *)
Definition opt_list {A} (o : option A) : list A := match o with Some a => [a] | None => [] end.
Definition on_items (joins : list (jhow * source * jcond)) : list item :=
  flat_map (fun j => match snd j with JOn i => [i] | _ => [] end) joins.
Definition own_items (x : query) : list item :=
  match x with
  | QSel _ _ _ sels _ joins wh hv gb ob _ _ _ _ => sels ++ on_items joins ++ opt_list wh ++ gb ++ opt_list hv ++ map fst ob
  | QUpd _ _ sets _ joins wh _ => on_items joins ++ map snd sets ++ opt_list wh
  | QDel _ _ wh => opt_list wh
  | _ => []
  end.
Definition q_scope (x : query) : list tref :=
  match x with QUpd _ tbl _ _ _ _ _ => tbl :: q_srcs x | _ => q_srcs x end.
Definition outer_refs (x : query) : list (option tref) :=
  filter (out_of_scope (q_scope x) (q_srcs x)) (flat_map item_tables (own_items x)).
(* row sources in scope: the statement's own plus one per reference to a table of an enclosing statement *)
Definition eff_scope (x : query) : nat := scope_size x + List.length (outer_refs x).
Definition is_sud (x : query) : bool :=
  match x with QSel _ _ _ _ _ _ _ _ _ _ _ _ _ _ | QUpd _ _ _ _ _ _ _ | QDel _ _ _ => true | _ => false end.

(* ---- the references a statement is EXPECTED to print: the field leaves of its own clause items, resolved to the
        in-statement table references, clause by clause (a GROUP BY / ORDER BY item replaced by a select alias prints none) ---- *)
Definition tgt (cl : clause) (l : list (option tref)) : list (clause * option tref) := map (pair cl) l.
Definition res_tabs (srcs : list tref) (i : item) : list (option tref) := map (resolve_otref srcs) (item_tables i).
Definition sel_expected (gba : bool) (srcs : list tref) (selects : list item) (joins : list (jhow * source * jcond))
    (wheres havings : option item) (groupbys : list item) (orderbys : list (item * option order)) : list (clause * option tref) :=
  tgt ClSelect (flat_map (res_tabs srcs) selects)
  ++ tgt ClOn (flat_map (res_tabs srcs) (on_items joins))
  ++ tgt ClWhere (flat_map (res_tabs srcs) (opt_list wheres))
  ++ tgt ClGroupBy (flat_map (fun y => match (if gba then alias_ref selects y else None) with
                                       | Some _ => [] | None => res_tabs srcs y end) groupbys)
  ++ tgt ClHaving (flat_map (res_tabs srcs) (opt_list havings))
  ++ tgt ClOrderBy (flat_map (fun yd => match alias_ref selects (fst yd) with
                                        | Some _ => [] | None => res_tabs srcs (fst yd) end) orderbys).
Definition upd_expected (srcs : list tref) (sets : list (term * item)) (joins : list (jhow * source * jcond))
    (wheres : option item) : list (clause * option tref) :=
  tgt ClOn (flat_map (res_tabs srcs) (on_items joins))
  ++ flat_map (fun fv => tgt ClSetTarget (field_tables (fst fv)) ++ tgt ClSetValue (res_tabs srcs (snd fv))) sets
  ++ tgt ClWhere (flat_map (res_tabs srcs) (opt_list wheres)).
Definition expected_refs (kin : kctx) (x : query) : list (clause * option tref) :=
  match x with
  | QSel c _ _ selects _ joins wheres havings groupbys orderbys _ _ _ _ =>
      match selects with [] => [] | _ => sel_expected (k_gba (defaults c kin)) (q_srcs x) selects joins wheres havings groupbys orderbys end
  | QUpd _ _ sets _ joins wheres _ => match sets with [] => [] | _ => upd_expected (q_srcs x) sets joins wheres end
  | QDel _ _ wheres => tgt ClWhere (flat_map (res_tabs (q_srcs x)) (opt_list wheres))
  | _ => []
  end.

(* ------------------------------------------------------------------------------------------- *)
(* 5. schema objects                                                                            *)
(* ------------------------------------------------------------------------------------------- *)
Inductive schema_obj := SchRoot (name : string) | SchChild (parent : schema_obj) (name : string).
(* Schema.get_sql: the parent first *)
Fixpoint sch_sql (qc : option string) (s : schema_obj) : string :=
  match s with
  | SchRoot n => fq qc n
  | SchChild p n => (sch_sql qc p ++ "." ++ fq qc n)%string
  end.
(* Table._init_schema on a list / tuple: reduce(lambda obj, s: Schema(s, parent=obj), schema[1:], Schema(schema[0])) *)
Definition init_schema (first : string) (rest : list string) : schema_obj :=
  fold_left (fun obj s => SchChild obj s) rest (SchRoot first).
