(* ScopeCorr.v — C10 correspondence entry points.  Definitions only.
   A statement case carries the implementation's text, the aliases found on the source objects after construction
   (FROM items, then JOIN items), and the (clause, qualifier, column) triples a tokeniser saw in the text for the
   sentinel columns of the top statement's own clauses.  A term case carries the text and the (qualifier, column)
   pairs of its sentinel columns. *)
From PV Require Import Base Crit gen.TermsTable Terms Page gen.QueryTable Query QueryCorr Scope.
Local Open Scope list_scope.

Definition clause_code (cl : clause) : nat :=
  match cl with
  | ClSelect => 0 | ClOn => 1 | ClWhere => 2 | ClGroupBy => 3 | ClHaving => 4 | ClOrderBy => 5
  | ClSetValue => 6 | ClSetTarget => 7 | ClInsColumn => 8 | ClInsValue => 9 | ClText => 10 end.
(* sentinel column names start with "zq" *)
Definition is_sentinel (s : string) : bool := match s with String "z" (String "q" _) => true | _ => false end.

Definition ostr_eqb := option_eqb String.eqb.
Definition sref_eqb (a b : nat * option string * string) : bool :=
  let '(c1, q1, n1) := a in let '(c2, q2, n2) := b in Nat.eqb c1 c2 && ostr_eqb q1 q2 && String.eqb n1 n2.
Definition ref_eqb (a b : option string * string) : bool :=
  ostr_eqb (fst a) (fst b) && String.eqb (snd a) (snd b).

Definition sentinel_srefs (x : query) : list (nat * option string * string) :=
  flat_map (fun r => let '(cl, qu, n) := r in
                     if is_sentinel n || (String.eqb n "*" && is_some qu) then [(clause_code cl, qu, n)] else []) (stmt_refs x).
Definition sentinel_refs (c : ctx) (t : term) : list (option string * string) :=
  filter (fun r => is_sentinel (snd r)) (leaf_refs c t).

Inductive c10case :=
| CStmt (x : query) (text : string) (aliases : list (option string)) (refs : list (nat * option string * string))
| CTerm (c : ctx) (t : term) (text : string) (refs : list (option string * string))
(* a history of from_() / join() calls in any order, and the aliases found on the passed objects afterwards *)
| CHist (h : list ev) (aliases : list (option string)).

Definition term_text (c : ctx) (t : term) : string := match render c t with Ok s => s | Err e => ("!" ++ e)%string end.
(* the text through the TOKEN renderer: checks the token view against the implementation directly *)
Definition tok_text_of (c : ctx) (t : term) : string :=
  match rtoks c t with Ok ts => flat (q c) ts | Err e => ("!" ++ e)%string end.
Definition stok_text_of (x : query) : string :=
  match x with
  | QSet _ _ _ _ _ _ => query_text x
  | _ => match str_stoks x with Ok ts => sflat (stmt_q (top_kctx x) x) ts | Err e => ("!" ++ e)%string end
  end.
Definition is_err (s : string) : bool := match s with String "!" _ => true | _ => false end.

Definition check_c10 (cs : c10case) : bool :=
  match cs with
  | CStmt x text aliases refs =>
      String.eqb (query_text x) text && String.eqb (stok_text_of x) text
      && (is_err text || (list_eqb ostr_eqb (source_aliases x) aliases && list_eqb sref_eqb (sentinel_srefs x) refs))
  | CTerm c t text refs =>
      String.eqb (term_text c t) text && String.eqb (tok_text_of c t) text
      && (is_err text || list_eqb ref_eqb (sentinel_refs c t) refs)
  | CHist h aliases => list_eqb ostr_eqb (map fst (fst (run_hist 0 h))) aliases
  end.
Definition show_c10 (cs : c10case) : string * list (option string) * list (nat * option string * string) :=
  match cs with
  | CStmt x _ _ _ => (query_text x, source_aliases x, sentinel_srefs x)
  | CTerm c t _ _ => (term_text c t, [], map (fun r => (0, fst r, snd r)) (sentinel_refs c t))
  | CHist h _ => (""%string, map fst (fst (run_hist 0 h)), [])
  end.
