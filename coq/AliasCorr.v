(* AliasCorr.v — correspondence entry points for C13. Definitions only. *)
From PV Require Import Base Crit gen.TermsTable Terms TermsCorr Page gen.QueryTable Query gen.C13Table Alias.

(* a case: the input and the text (or "!ExceptionClass") the implementation produced *)
Inductive c13case :=
| CTerm (c : ctx) (t : term) (expected : string)              (* one term under explicit keyword arguments *)
| CStmt (s : stmt) (expected : string)                        (* str(query) of a SELECT statement *)
| CIns (c : qclass) (row : list term) (expected : string)     (* str(query) of INSERT INTO t VALUES (row) *)
| CQ (x : query) (expected : string)
| CStmtH (s : stmt) (head : string) (expected : string).     (* a SELECT with a dialect-specific head: DISTINCT / TOP (n) / modifiers *)                          (* str(query) of a nested statement / set operation (shared Query.v) *)

Definition res_text (r : res string) : string := match r with Ok s => s | Err e => "!" ++ e end.

(* SELECT {distinct}{top | modifier}{select list}: the head goes between the keyword and the select list *)
Definition splice_head (head txt : string) : string :=
  match txt with
  | EmptyString => EmptyString
  | _ => if String.prefix "SELECT " txt then "SELECT " ++ head ++ String.substring 7 (String.length txt - 7) txt else txt
  end.

Definition model_text (x : c13case) : string :=
  match x with
  | CTerm c t _ => render_text c t
  | CStmt s _ => res_text (render_stmt s)
  | CIns c row _ => res_text (render_insert c row)
  | CQ x _ => res_text (str_query x)
  | CStmtH s head _ => match render_stmt s with Ok txt => splice_head head txt | Err e => "!" ++ e end
  end.
Definition expected_text (x : c13case) : string :=
  match x with CTerm _ _ e | CStmt _ e | CIns _ _ e | CQ _ e | CStmtH _ _ e => e end.

Definition check_c13 (x : c13case) : bool := String.eqb (model_text x) (expected_text x).
Definition show_c13 (x : c13case) : string := model_text x.
