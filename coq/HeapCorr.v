(* HeapCorr.v — executable checker for the C01 `histories` correspondence cases.  Definitions only.

   A case is a history run on real pypika objects.  For every step the harness records
     * the model step (receiver, method, tracked arguments, the resolution of the method's effect list:
       which effects fired and the resulting content, the attributes of a returned wrapper object),
     * what it OBSERVED on the real objects after the call: the result's identity, and for every live object
       every attribute whose value changed (content, or identity for list/set/dict values) — for a fresh copy,
       relative to the receiver it was copied from.  Container identities are given as small numbers (pid).
   The checker runs the heap model over the extracted class table and demands that the model's own diff of the
   two worlds is exactly the observed one, and that "same Python container" coincides with "same model cell". *)
From PV Require Import Base Heap gen.C01Table.
Close Scope string_scope. Close Scope list_scope. Open Scope list_scope.

Record dentry := mkD { d_obj : nat; d_attr : attr; d_pid : option nat; d_cell : cell }.
Record cstep := mkC { c_step : step; c_raised : bool; c_ret : nat; c_delta : list dentry }.

Definition item_eqb (a b : item) : bool :=
  match a, b with
  | IAtom s, IAtom t => String.eqb s t
  | IRef o, IRef p => Nat.eqb o p
  | _, _ => false
  end.
Definition cell_eqb (a b : cell) : bool := Bool.eqb (cont a) (cont b) && list_eqb item_eqb (items a) (items b).

Fixpoint mem_nat (n : nat) (l : list nat) : bool :=
  match l with [] => false | x :: r => Nat.eqb n x || mem_nat n r end.

(* the object against which a live object's attributes are compared: itself before the step, or - for the copy made
   by this call - the receiver; None for any other new object *)
Definition baseline (T : table) (w : world) (s : step) (o : nat) : option obj :=
  if Nat.ltb o (length (objs w)) then nth_error (objs w) o else
  match s with
  | SNew _ _ => None
  | SCall recv mn _ _ _ =>
      match lookup_call T w recv mn with
      | None => None
      | Some (c, m) =>
          let n0 := length (objs w) in
          let cp1 := copies_now w recv m in
          if cp1 && Nat.eqb o n0 then nth_error (objs w) recv else
          match mret m with
          | RCall a m2 =>
              (* the copy made by the delegated @builder call: compared with the object behind self.a *)
              if negb (Nat.eqb o (if cp1 then S n0 else n0)) then None else
              match deref w recv a with
              | None => None
              | Some q =>
                  match lookup_call T w q m2 with
                  | None => None
                  | Some (_, k2) => if copies_now w q k2 then nth_error (objs w) q else None
                  end
              end
          | _ => None
          end
      end
  end.

Definition is_diff (w w' : world) (base : option obj) (a : attr) (c' : nat) : bool :=
  match base with
  | None => true
  | Some ob =>
      match lookup_attr a (oattrs ob) with
      | None => true
      | Some c =>
          match nth_error (cells w) c, nth_error (cells w') c' with
          | Some cl, Some cl' =>
              if cont cl' then negb (Nat.eqb c c') || negb (cell_eqb cl cl') else negb (cell_eqb cl cl')
          | _, _ => true
          end
      end
  end.

Fixpoint count_obj_diffs (w w' : world) (base : option obj) (l : list (attr * nat)) : nat :=
  match l with
  | [] => 0
  | (a, c') :: r => (if is_diff w w' base a c' then 1 else 0) + count_obj_diffs w w' base r
  end.

Fixpoint count_diffs (T : table) (w w' : world) (s : step) (dead : list nat) (limit : nat) (o : nat) (l : list obj) : nat :=
  match l with
  | [] => 0
  | ob :: r =>
      (if mem_nat o dead || negb (Nat.ltb o limit) then 0 else count_obj_diffs w w' (baseline T w s o) (oattrs ob))
      + count_diffs T w w' s dead limit (S o) r
  end.

Fixpoint lookup_nat (k : nat) (m : list (nat * nat)) : option nat :=
  match m with [] => None | (a, b) :: r => if Nat.eqb k a then Some b else lookup_nat k r end.
Fixpoint in_range (v : nat) (m : list (nat * nat)) : bool :=
  match m with [] => false | (_, b) :: r => Nat.eqb v b || in_range v r end.

(* one observed entry against the model world; threads the pid <-> cell bijection *)
Definition check_entry (T : table) (w w' : world) (s : step) (dead : list nat) (pm : list (nat * nat)) (d : dentry)
  : option (list (nat * nat)) :=
  if mem_nat (d_obj d) dead then None else
  match nth_error (objs w') (d_obj d) with
  | None => None
  | Some ob =>
      match lookup_attr (d_attr d) (oattrs ob) with
      | None => None
      | Some c' =>
          match nth_error (cells w') c' with
          | None => None
          | Some cl' =>
              if negb (cell_eqb cl' (d_cell d)) then None else
              if negb (is_diff w w' (baseline T w s (d_obj d)) (d_attr d) c') then None else
              match d_pid d with
              | None => if cont cl' then None else Some pm
              | Some p =>
                  if negb (cont cl') then None else
                  match lookup_nat p pm with
                  | Some c0 => if Nat.eqb c0 c' then Some pm else None
                  | None => if in_range c' pm then None else Some ((p, c') :: pm)
                  end
              end
          end
      end
  end.

Fixpoint check_entries (T : table) (w w' : world) (s : step) (dead : list nat) (pm : list (nat * nat)) (l : list dentry)
  : option (list (nat * nat)) :=
  match l with
  | [] => Some pm
  | d :: r => match check_entry T w w' s dead pm d with None => None | Some pm1 => check_entries T w w' s dead pm1 r end
  end.

Fixpoint seq_from (a n : nat) : list nat := match n with O => [] | S k => a :: seq_from (S a) k end.

Record cstate := mkS { s_w : world; s_pm : list (nat * nat); s_dead : list nat }.

Definition check_step (T : table) (st : cstate) (cs : cstep) : res cstate :=
  let w := s_w st in
  match exec_step T w (c_step cs) with
  | None => Err "model step is stuck"%string
  | Some (w', r) =>
      if negb (c_raised cs) && negb (Nat.eqb r (c_ret cs)) then
        Err ("result object: model " ++ nat_to_string r ++ ", implementation " ++ nat_to_string (c_ret cs))%string else
      let limit := if c_raised cs then length (objs w) else length (objs w') in
      let n := count_diffs T w w' (c_step cs) (s_dead st) limit 0 (objs w') in
      if negb (Nat.eqb n (length (c_delta cs))) then
        Err ("changed attributes: model " ++ nat_to_string n ++ ", implementation " ++ nat_to_string (length (c_delta cs)))%string else
      match check_entries T w w' (c_step cs) (s_dead st) (s_pm st) (c_delta cs) with
      | None => Err "an observed attribute differs from the model (content, sharing or not a model change)"%string
      | Some pm1 =>
          let dead1 := if c_raised cs then s_dead st ++ seq_from (length (objs w)) (length (objs w') - length (objs w))
                       else s_dead st in
          Ok (mkS w' pm1 dead1)
      end
  end.

(* first step on which model and implementation disagree, with the reason (None = the whole history agrees) *)
Fixpoint first_bad (T : table) (st : cstate) (i : nat) (l : list cstep) : option (nat * string) :=
  match l with
  | [] => None
  | cs :: r => match check_step T st cs with Err e => Some (i, e) | Ok st1 => first_bad T st1 (S i) r end
  end.

Definition init_state : cstate := mkS empty_world [] [].

Definition check_history (T : table) (l : list cstep) : bool :=
  match first_bad T init_state 0 l with None => true | Some _ => false end.

Definition check_case (l : list cstep) : bool := check_history class_table l.
Definition show_case (l : list cstep) : string :=
  match first_bad class_table init_state 0 l with
  | None => "model and implementation agree on every step"%string
  | Some (i, e) => ("step " ++ nat_to_string i ++ ": " ++ e)%string
  end.

(* is the history covered by the fragment theorem (no unsafe effect fired, every call copied)? *)
Definition covered (l : list cstep) : bool := hist_quiet class_table empty_world (map c_step l).
