(* ReplaceCorr.v — C15: rendering of the wrapper terms / sub-queries / statement slots and the correspondence
   entry points.  Definitions only. *)
From PV Require Import Base Crit gen.TermsTable Terms gen.C15Table Replace.

(* Table.get_sql: [schema.]name [alias] *)
Definition tref_sql (c : ctx) (t : tref) : string :=
  let base := fq (q c) (tname t) in
  let full := match tschema t with [] => base | sch => join "." (map (fq (q c)) sch) ++ "." ++ base end in
  fmt_alias full (talias t) (q c) (aq c) (askw c).

Fixpoint render_terms (c : ctx) (l : list term) : res (list string) :=
  match l with
  | [] => Ok []
  | t :: r => a <- render c t ;; rest <- render_terms c r ;; Ok (a :: rest)
  end.

(* Criterion.all(filters): EmptyCriterion & f1 & f2 ... = left-nested AND chain of the filters *)
Definition all_of (l : list term) : term :=
  match l with [] => TEmpty | x :: r => fold_left (fun acc y => TCplx BAnd acc y None) r x end.

(* the keyword arguments Function.get_sql hands to special parts (FILTER / OVER / EXTRACT .. FROM):
   with_namespace, quote_char, dialect only *)
Definition pctx (c : ctx) : ctx := set_subq (fctx c) false.

(* a plain sub-query.  Its own with_namespace decision overrides the caller's. *)
Definition render_subq (c : ctx) (with_alias subquery : bool) (sq_ : subq) (alias : option string) : res string :=
  let wn' := Nat.ltb 1 (length (sq_from sq_)) || sq_ns sq_ in
  let cs := {| q := q c; sq := sq c; aq := aq c; askw := askw c; dia := dia c; wa := true; wn := wn'; subq := true; subc := subc c |} in
  let cw := set_wa cs false in
  sels <- render_terms cs (sq_selects sq_) ;;
  w <- match sq_where sq_ with None => Ok "" | Some t => s <- render cw t ;; Ok (" WHERE " ++ s) end ;;
  let body := "SELECT " ++ join "," sels ++ " FROM " ++ join "," (map (tref_sql cs) (sq_from sq_)) ++ w in
  let s := paren subquery body in
  Ok (if with_alias then fmt_alias s alias (q c) None (askw c) else s).

Definition render_ob (c : ctx) (p : term * option string) : res string :=
  s <- render c (fst p) ;; Ok (match snd p with Some o => s ++ " " ++ o | None => s end).
Fixpoint render_obs (c : ctx) (l : list (term * option string)) : res (list string) :=
  match l with
  | [] => Ok []
  | p :: r => a <- render_ob c p ;; rest <- render_obs c r ;; Ok (a :: rest)
  end.

Definition filter_sql (c : ctx) (filters : list term) : res string :=
  match filters with
  | [] => Ok ""
  | _ => s <- render (pctx c) (all_of filters) ;; Ok (" FILTER(WHERE " ++ s ++ ")")
  end.

Definition render_wt (c : ctx) (w : wterm) : res string :=
  match w with
  | WT t => render c t
  | WAgg name args filters alias =>
      ss <- render_terms (fctx c) args ;; f <- filter_sql c filters ;;
      let s := name ++ "(" ++ join "," ss ++ ")" ++ f in
      Ok (if wa c then alias_sql c (q c) s alias else s)
  | WAnalytic name args filters partition orderbys alias =>
      ss <- render_terms (fctx c) args ;; f <- filter_sql c filters ;;
      ps <- render_terms (pctx c) partition ;; os <- render_obs (pctx c) orderbys ;;
      let parts := (match ps with [] => [] | _ => ["PARTITION BY " ++ join "," ps] end)
                   ++ (match os with [] => [] | _ => ["ORDER BY " ++ join "," os] end) in
      let s := name ++ "(" ++ join "," ss ++ ")" ++ f ++ " OVER(" ++ join " " parts ++ ")" in
      Ok (if wa c then alias_sql c (q c) s alias else s)
  | WExtract part field alias =>
      f <- render (pctx c) field ;;
      let s := "EXTRACT(" ++ part ++ " FROM " ++ f ++ ")" in
      Ok (if wa c then alias_sql c (q c) s alias else s)
  | WPeriod t lo hi alias =>
      a <- render c t ;; b <- render c lo ;; d <- render c hi ;;
      Ok (alias_sql c (q c) (a ++ " FROM " ++ b ++ " TO " ++ d) alias)
  | WNested cm nc l r n alias =>
      let c' := set_wa c false in
      a <- render c' l ;; b <- render c' r ;; d <- render c' n ;;
      let s := a ++ cmp_text cm ++ b ++ bop_text_x nc ++ d in
      Ok (if wa c then alias_sql c (q c) s alias else s)
  | WSubq sq_ alias => render_subq c (wa c) (subq c) sq_ alias
  | WInSub t sq_ negated alias =>
      a <- render (set_subq c false) t ;; b <- render_subq c (wa c) true sq_ None ;;
      Ok (alias_sql c (q c) (a ++ " " ++ (if negated then "NOT " else "") ++ "IN " ++ b) alias)
  | WCmpSub cm l sq_ alias =>
      let c' := set_wa c false in
      a <- render c' l ;; b <- render_subq c' false (subq c) sq_ None ;;
      let s := a ++ cmp_text cm ++ b in
      Ok (if wa c then alias_sql c None s alias else s)
  | WExists sq_ => b <- render_subq c (wa c) (subq c) sq_ None ;; Ok ("EXISTS " ++ b)
  end.

Definition text_of (r : res string) : string := match r with Ok s => s | Err e => "!" ++ e end.

(* the two contexts terms are observed under: Term.__str__'s, and the same with with_namespace=True *)
Definition ns_ctx : ctx := {| q := Some """"; sq := Some "'"; aq := None; askw := false; dia := None; wa := false; wn := true;
                              subq := false; subc := false |}.
(* statement slots are dumped element by element with namespace and alias *)
Definition dump_ctx : ctx := {| q := Some """"; sq := Some "'"; aq := None; askw := false; dia := None; wa := true; wn := true;
                                subq := false; subc := false |}.

Definition dT (w : wterm) : string := text_of (render_wt dump_ctx w).
Definition dt (t : term) : string := text_of (render dump_ctx t).
Definition dq (sq_ : subq) : string := text_of (render_subq str_ctx false false sq_ None).
Definition dsrc (s : source) : string :=
  match s with
  | SrcTable t => tref_sql str_ctx t
  | SrcSub sq_ al => text_of (render_subq str_ctx true true sq_ al)
  | SrcNamed n => "@" ++ n
  end.
Definition dotbl (o : option tref) : string := match o with Some t => tref_sql str_ctx t | None => "" end.
Definition dow (o : option wterm) : string := match o with Some w => dT w | None => "" end.
Definition djoin (j : join) : string :=
  match j with
  | JCross i => "Join::" ++ dsrc i
  | JOn h i cr => "JoinOn:" ++ h ++ ":" ++ dsrc i ++ ":ON " ++ dT cr
  | JUsing h i fs => "JoinUsing:" ++ h ++ ":" ++ dsrc i ++ ":USING " ++ join "," (map dt fs)
  end.
Definition semi (l : list string) : string := join ";" l.

Definition dump_stmt (s : stmt) : string :=
  (if s_clickhouse s then "CH" else "Q")
  ++ " FROM[" ++ semi (map dsrc (s_from s)) ++ "]"
  ++ " INS[" ++ dotbl (s_insert s) ++ "]"
  ++ " UPD[" ++ dotbl (s_update s) ++ "]"
  ++ " WITH[" ++ semi (map (fun p => fst p ++ "=" ++ dq (snd p)) (s_with s)) ++ "]"
  ++ " SEL[" ++ semi (map dT (s_selects s)) ++ "]"
  ++ " COL[" ++ semi (map dt (s_columns s)) ++ "]"
  ++ " VAL[" ++ semi (map (fun row => "(" ++ join "," (map dT row) ++ ")") (s_values s)) ++ "]"
  ++ " WHERE[" ++ dow (s_wheres s) ++ "]"
  ++ " PRE[" ++ dow (s_prewheres s) ++ "]"
  ++ " GRP[" ++ semi (map dT (s_groupbys s)) ++ "]"
  ++ " HAV[" ++ dow (s_havings s) ++ "]"
  ++ " ORD[" ++ semi (map (fun p => dT (fst p) ++ match snd p with Some o => " " ++ o | None => "" end) (s_orderbys s)) ++ "]"
  ++ " JOIN[" ++ semi (map djoin (s_joins s)) ++ "]"
  ++ " SET[" ++ semi (map (fun p => dt (fst p) ++ "=" ++ dT (snd p)) (s_updates s)) ++ "]"
  ++ " LBY[" ++ semi (map dT (s_limit_by s)) ++ "]".

Definition star_names (s : stmt) : list string := map (tref_sql str_ctx) (s_star s).
Definition same_set (a b : list string) : bool :=
  forallb (fun x => existsb (String.eqb x) b) a && forallb (fun x => existsb (String.eqb x) a) b
  && Nat.eqb (length a) (length b).

(* ---- correspondence cases ----
   CTerm: tables A B, the object, its text before / after replace_table under the two contexts, and the harness's
          independent verdict `viol` (the replaced object renders differently from the one built with B);
   CStmt: the same for a statement, observed slot by slot (dump) plus the _select_star_tables set. *)
Inductive case15 :=
| CTerm (A B : tref) (w : wterm) (before_s before_n after_s after_n : string) (viol : bool)
| CStmt (A B : tref) (s : stmt) (before : string) (star_before : list string) (after : string) (star_after : list string)
        (viol : bool).

Definition stmt_after (A B : tref) (s : stmt) : string * list string :=
  match rep_stmt A B s with
  | Ok s' => (dump_stmt s', star_names s')
  | Err e => ("!" ++ e, [])
  end.

Definition check15 (c : case15) : bool :=
  match c with
  | CTerm A B w bs bn as_ an viol =>
      let w' := rep_wt A B w in
      String.eqb (text_of (render_wt str_ctx w)) bs && String.eqb (text_of (render_wt ns_ctx w)) bn
      && String.eqb (text_of (render_wt str_ctx w')) as_ && String.eqb (text_of (render_wt ns_ctx w')) an
      (* the proved fragment never contains an object on which the harness saw the property fail *)
      && negb (cov_wt A w && viol)
  | CStmt A B s b sb a sa viol =>
      let r := stmt_after A B s in
      String.eqb (dump_stmt s) b && same_set (star_names s) sb
      && String.eqb (fst r) a && same_set (snd r) sa
      && negb (cov_stmt A s && viol)
  end.

Definition show15 (c : case15) : string :=
  match c with
  | CTerm A B w _ _ _ _ _ =>
      let w' := rep_wt A B w in
      text_of (render_wt str_ctx w) ++ " | " ++ text_of (render_wt ns_ctx w) ++ " => " ++ text_of (render_wt str_ctx w')
      ++ " | " ++ text_of (render_wt ns_ctx w') ++ " covered=" ++ (if cov_wt A w then "1" else "0")
  | CStmt A B s _ _ _ _ _ =>
      dump_stmt s ++ " STAR" ++ semi (star_names s) ++ " => " ++ fst (stmt_after A B s) ++ " STAR" ++ semi (snd (stmt_after A B s))
      ++ " covered=" ++ (if cov_stmt A s then "1" else "0")
  end.
