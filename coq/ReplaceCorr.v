(* ReplaceCorr.v — C15: rendering of the wrapper terms / sub-queries / statement slots and the correspondence
   entry points.  Definitions only. *)
From PV Require Import Base Crit gen.TermsTable Terms gen.C15Table Replace.

(* Table.get_sql: [schema.]name [alias] *)
Definition tref_sql (c : ctx) (t : tref) : string :=
  let base := fq (q c) (tname t) in
  let full := match tschema t with [] => base | sch => join "." (map (fq (q c)) sch) ++ "." ++ base end in
  fmt_alias full (talias t) (q c) (aq c) (askw c).

Fixpoint render_terms (c : ctx) (l : list term) : res (list string) :=
  match l with
  | [] => Ok []
  | t :: r => a <- render c t ;; rest <- render_terms c r ;; Ok (a :: rest)
  end.

(* Criterion.all(filters): EmptyCriterion & f1 & f2 ... = left-nested AND chain of the filters *)
Definition all_of (l : list term) : term :=
  match l with [] => TEmpty | x :: r => fold_left (fun acc y => TCplx BAnd acc y None) r x end.

(* the keyword arguments Function.get_sql hands to special parts (FILTER / OVER / EXTRACT .. FROM):
   with_namespace, quote_char, dialect only *)
(* since b529b5f these parts are rendered with subquery=True as well (a scalar sub-query inside them is parenthesised,
   like in a statement's WHERE), i.e. exactly under the context of the function's arguments *)
Definition pctx (c : ctx) : ctx := fctx c.

(* a plain sub-query.  Its own with_namespace decision overrides the caller's. *)
Definition render_subq (c : ctx) (with_alias subquery : bool) (sq_ : squery) (alias : option string) : res string :=
  let wn' := Nat.ltb 1 (List.length (sq_from sq_)) || sq_ns sq_ in
  let cs := {| q := q c; sq := sq c; aq := aq c; askw := askw c; dia := dia c; wa := true; wn := wn'; subq := true; subc := subc c |} in
  let cw := set_wa cs false in
  sels <- render_terms cs (sq_selects sq_) ;;
  w <- match sq_where sq_ with None => Ok "" | Some t => s <- render cw t ;; Ok (" WHERE " ++ s) end ;;
  let body := "SELECT " ++ join "," sels ++ " FROM " ++ join "," (map (tref_sql cs) (sq_from sq_)) ++ w in
  let s := paren subquery body in
  Ok (if with_alias then fmt_alias s alias (q c) None (askw c) else s).

Definition render_ob (c : ctx) (p : term * option string) : res string :=
  s <- render c (fst p) ;; Ok (match snd p with Some o => s ++ " " ++ o | None => s end).
Fixpoint render_obs (c : ctx) (l : list (term * option string)) : res (list string) :=
  match l with
  | [] => Ok []
  | p :: r => a <- render_ob c p ;; rest <- render_obs c r ;; Ok (a :: rest)
  end.

Definition filter_sql (c : ctx) (filters : list term) : res string :=
  match filters with
  | [] => Ok ""
  | _ => s <- render (pctx c) (all_of filters) ;; Ok (" FILTER(WHERE " ++ s ++ ")")
  end.

Definition render_wt (c : ctx) (w : wterm) : res string :=
  match w with
  | WT t => render c t
  | WAgg name args filters alias =>
      ss <- render_terms (fctx c) args ;; f <- filter_sql c filters ;;
      let s := name ++ "(" ++ join "," ss ++ ")" ++ f in
      Ok (if wa c then alias_sql c (q c) s alias else s)
  | WAnalytic name args filters partition orderbys alias =>
      ss <- render_terms (fctx c) args ;; f <- filter_sql c filters ;;
      ps <- render_terms (pctx c) partition ;; os <- render_obs (pctx c) orderbys ;;
      let parts := List.app (match ps with [] => [] | _ => ["PARTITION BY " ++ join "," ps] end)
                            (match os with [] => [] | _ => ["ORDER BY " ++ join "," os] end) in
      let s := name ++ "(" ++ join "," ss ++ ")" ++ f ++ " OVER(" ++ join " " parts ++ ")" in
      Ok (if wa c then alias_sql c (q c) s alias else s)
  | WExtract part field alias =>
      f <- render (pctx c) field ;;
      let s := "EXTRACT(" ++ part ++ " FROM " ++ f ++ ")" in
      Ok (if wa c then alias_sql c (q c) s alias else s)
  | WPeriod t lo hi alias =>
      a <- render c t ;; b <- render c lo ;; d <- render c hi ;;
      Ok (alias_sql c (q c) (a ++ " FROM " ++ b ++ " TO " ++ d) alias)
  | WNested cm nc l r n alias =>
      let c' := set_wa c false in
      a <- render c' l ;; b <- render c' r ;; d <- render c' n ;;
      let s := a ++ cmp_text cm ++ b ++ bop_text_x nc ++ d in
      Ok (if wa c then alias_sql c (q c) s alias else s)
  | WSubq sq_ alias => render_subq c (wa c) (subq c) sq_ alias
  | WInSub t sq_ negated alias =>
      (* as TIn: term and container no longer inherit with_alias; a predicate operand gets its own parentheses *)
      a <- render (opc SInTerm t (set_wa (set_subq c false) false)) t ;; b <- render_subq (set_wa c false) false true sq_ None ;;
      Ok (alias_sql c (q c) (opnd SInTerm t a ++ " " ++ (if negated then "NOT " else "") ++ "IN " ++ b) alias)
  | WCmpSub cm l sq_ alias =>
      let c' := set_wa c false in
      a <- render (opc SCmpL l c') l ;; b <- render_subq c' false (subq c) sq_ None ;;
      let s := opnd SCmpL l a ++ cmp_text cm ++ b in
      Ok (if wa c then alias_sql c (q c) s alias else s)
  | WExists sq_ => b <- render_subq c (wa c) (subq c) sq_ None ;; Ok ("EXISTS " ++ b)
  | WValue t alias => a <- render c t ;; Ok (alias_sql c (q c) a alias)
  | WAtTz f zone alias => a <- render c f ;; Ok (alias_sql c (q c) (a ++ " AT TIME ZONE '" ++ zone ++ "'") alias)
  end.

Definition text_of (r : res string) : string := match r with Ok s => s | Err e => "!" ++ e end.

(* the two contexts terms are observed under: Term.__str__'s, and the same with with_namespace=True *)
Definition ns_ctx : ctx := {| q := Some """"; sq := Some "'"; aq := None; askw := false; dia := None; wa := false; wn := true;
                              subq := false; subc := false |}.
(* statement slots are dumped element by element with namespace and alias *)
Definition dump_ctx : ctx := {| q := Some """"; sq := Some "'"; aq := None; askw := false; dia := None; wa := true; wn := true;
                                subq := false; subc := false |}.

Definition dT (w : wterm) : string := text_of (render_wt dump_ctx w).
Definition dt (t : term) : string := text_of (render dump_ctx t).
Definition dq (sq_ : squery) : string := text_of (render_subq str_ctx false false sq_ None).
Definition dsrc (s : source) : string :=
  match s with
  | SrcTable t => tref_sql str_ctx t
  | SrcSub sq_ al => text_of (render_subq str_ctx true true sq_ al)
  | SrcNamed n => "@" ++ n
  end.
Definition dotbl (o : option tref) : string := match o with Some t => tref_sql str_ctx t | None => "" end.
Definition dow (o : option wterm) : string := match o with Some w => dT w | None => "" end.
Definition djoin (j : qjoin) : string :=
  match j with
  | JCross i => "Join::" ++ dsrc i
  | JOn h i cr => "JoinOn:" ++ h ++ ":" ++ dsrc i ++ ":ON " ++ dT cr
  | JUsing h i fs => "JoinUsing:" ++ h ++ ":" ++ dsrc i ++ ":USING " ++ join "," (map dt fs)
  end.
Definition semi (l : list string) : string := join ";" l.

Definition dump_stmt (s : stmt) : string :=
  (match s_kind s with QGeneric => "Q" | QClickHouse => "CH" | QPostgres => "PG" | QMySQL => "MY" end)
  ++ " FROM[" ++ semi (map dsrc (s_from s)) ++ "]"
  ++ " INS[" ++ dotbl (s_insert s) ++ "]"
  ++ " UPD[" ++ dotbl (s_update s) ++ "]"
  ++ " WITH[" ++ semi (map (fun p => fst p ++ "=" ++ dq (snd p)) (s_with s)) ++ "]"
  ++ " SEL[" ++ semi (map dT (s_selects s)) ++ "]"
  ++ " COL[" ++ semi (map dt (s_columns s)) ++ "]"
  ++ " VAL[" ++ semi (map (fun row => "(" ++ join "," (map dT row) ++ ")") (s_values s)) ++ "]"
  ++ " WHERE[" ++ dow (s_wheres s) ++ "]"
  ++ " PRE[" ++ dow (s_prewheres s) ++ "]"
  ++ " GRP[" ++ semi (map dT (s_groupbys s)) ++ "]"
  ++ " HAV[" ++ dow (s_havings s) ++ "]"
  ++ " ORD[" ++ semi (map (fun p => dT (fst p) ++ match snd p with Some o => " " ++ o | None => "" end) (s_orderbys s)) ++ "]"
  ++ " JOIN[" ++ semi (map djoin (s_joins s)) ++ "]"
  ++ " SET[" ++ semi (map (fun p => dt (fst p) ++ "=" ++ dT (snd p)) (s_updates s)) ++ "]"
  ++ " LBY[" ++ semi (map dT (s_limit_by s)) ++ "]"
  ++ " DON[" ++ semi (map dT (s_distinct_on s)) ++ "]"
  ++ " RET[" ++ semi (map dT (s_returns s)) ++ "]"
  ++ " USING[" ++ semi (map (tref_sql str_ctx) (s_using s)) ++ "]"
  ++ " DUP[" ++ semi (map (fun p => dt (fst p) ++ "=" ++ dT (snd p)) (s_dup_updates s)) ++ "]".

Definition star_names (s : stmt) : list string := map (tref_sql str_ctx) (s_star s).
Definition same_set (a b : list string) : bool :=
  forallb (fun x => existsb (String.eqb x) b) a && forallb (fun x => existsb (String.eqb x) a) b
  && Nat.eqb (List.length a) (List.length b).

(* ---- correspondence cases ----
   CTerm: tables A B, the object, its text before / after replace_table under the two contexts, and the harness's
          independent verdict `viol` (the replaced object renders differently from the one built with B);
   CStmt: the same for a statement, observed slot by slot (dump) plus the _select_star_tables set. *)
Inductive case15 :=
| CTerm (A B : tref) (w : wterm) (before_s before_n after_s after_n : string) (viol : bool)
| CStmt (A B : tref) (s : stmt) (before : string) (star_before : list string) (after : string) (star_after : list string)
        (viol : bool).

Definition stmt_after (A B : tref) (s : stmt) : string * list string :=
  match rep_stmt tcfg A B s with
  | Ok s' => (dump_stmt s', star_names s')
  | Err e => ("!" ++ e, [])
  end.

Definition check15 (c : case15) : bool :=
  match c with
  | CTerm A B w bs bn as_ an viol =>
      let w' := rep_wt tcfg A B w in
      String.eqb (text_of (render_wt str_ctx w)) bs && String.eqb (text_of (render_wt ns_ctx w)) bn
      && String.eqb (text_of (render_wt str_ctx w')) as_ && String.eqb (text_of (render_wt ns_ctx w')) an
      (* the proved fragment never contains an object on which the harness saw the property fail *)
      && negb (cov_wt tcfg A w && viol)
  | CStmt A B s b sb a sa viol =>
      let r := stmt_after A B s in
      String.eqb (dump_stmt s) b && same_set (star_names s) sb
      && String.eqb (fst r) a && same_set (snd r) sa
      && negb (cov_stmt tcfg A s && viol)
  end.

Definition show15 (c : case15) : string :=
  match c with
  | CTerm A B w _ _ _ _ _ =>
      let w' := rep_wt tcfg A B w in
      text_of (render_wt str_ctx w) ++ " | " ++ text_of (render_wt ns_ctx w) ++ " => " ++ text_of (render_wt str_ctx w')
      ++ " | " ++ text_of (render_wt ns_ctx w') ++ " covered=" ++ (if cov_wt tcfg A w then "1" else "0")
  | CStmt A B s _ _ _ _ _ =>
      dump_stmt s ++ " STAR" ++ semi (star_names s) ++ " => " ++ fst (stmt_after A B s) ++ " STAR" ++ semi (snd (stmt_after A B s))
      ++ " covered=" ++ (if cov_stmt tcfg A s then "1" else "0")
  end.

(* ------------------------------------------------------------------------------------------ *)
(* one witness object per (class, child slot): table a sits in exactly that slot              *)
(* ------------------------------------------------------------------------------------------ *)
Definition vis : ctor -> slot -> bool := cvis tcfg.

Inductive obj15 := OW (w : wterm) | OS (s : stmt).

Definition show_stmt (s : stmt) : string := dump_stmt s ++ " STAR[" ++ semi (star_names s) ++ "]".
Definition show_obj (o : obj15) : string :=
  match o with OW w => text_of (render_wt ns_ctx w) | OS s => show_stmt s end.
Definition rep_show (A B : tref) (o : obj15) : string :=
  match o with
  | OW w => text_of (render_wt ns_ctx (rep_wt tcfg A B w))
  | OS s => match rep_stmt tcfg A B s with Ok s' => show_stmt s' | Err e => "!" ++ e end
  end.
Definition subst_show (A B : tref) (o : obj15) : string :=
  match o with OW w => text_of (render_wt ns_ctx (subst_wt A B w)) | OS s => show_stmt (subst_stmt A B s) end.

Definition wa : tref := plain "a".
Definition wb : tref := plain "b".
Definition wc : tref := plain "c".
Definition fa (n : string) : term := TField n (Some wa) None.
Definition fc (n : string) : term := TField n (Some wc) None.
Definition one : term := TValI 1 None.
Definition ca (n : string) : term := TBasic CEq (fa n) one None.
Definition cc (n : string) : term := TBasic CEq (fc n) one None.
Definition qa : squery := {| sq_from := [wa]; sq_selects := [fa "k"]; sq_where := None; sq_ns := false |}.

Definition stmt0 (k : qkind) : stmt :=
  {| s_kind := k; s_from := [SrcTable wc]; s_insert := None; s_update := None; s_with := [];
     s_selects := [WT (fc "y")]; s_columns := []; s_values := []; s_wheres := None; s_prewheres := None;
     s_groupbys := []; s_havings := None; s_orderbys := []; s_joins := []; s_updates := []; s_star := [];
     s_limit_by := []; s_distinct_on := []; s_returns := []; s_using := []; s_dup_updates := [] |}.
(* functional update helpers for the witness statements *)
Definition with_ (s : stmt) f i u w se co va wh pw gb hv ob jn up st lb : stmt :=
  {| s_kind := s_kind s; s_from := f; s_insert := i; s_update := u; s_with := w; s_selects := se;
     s_columns := co; s_values := va; s_wheres := wh; s_prewheres := pw; s_groupbys := gb; s_havings := hv;
     s_orderbys := ob; s_joins := jn; s_updates := up; s_star := st; s_limit_by := lb;
     s_distinct_on := []; s_returns := []; s_using := []; s_dup_updates := [] |}.
(* the dialect-only slots *)
Definition with_x (s : stmt) don ret us du : stmt :=
  {| s_kind := s_kind s; s_from := s_from s; s_insert := s_insert s; s_update := s_update s; s_with := s_with s;
     s_selects := s_selects s; s_columns := s_columns s; s_values := s_values s; s_wheres := s_wheres s;
     s_prewheres := s_prewheres s; s_groupbys := s_groupbys s; s_havings := s_havings s; s_orderbys := s_orderbys s;
     s_joins := s_joins s; s_updates := s_updates s; s_star := s_star s; s_limit_by := s_limit_by s;
     s_distinct_on := don; s_returns := ret; s_using := us; s_dup_updates := du |}.

Definition stmt_witness (k : qkind) (sl : slot) : option stmt :=
  let s := stmt0 k in
  let mk f i u w se co va wh pw gb hv ob jn up st lb := Some (with_ s f i u w se co va wh pw gb hv ob jn up st lb) in
  let F := s_from s in let SE := s_selects s in
  match sl with
  | S__from => mk [SrcTable wa] None None [] SE [] [] None None [] None [] [] [] [] []
  | S__insert_table => mk F (Some wa) None [] SE [] [] None None [] None [] [] [] [] []
  | S__update_table => mk F None (Some wa) [] SE [] [] None None [] None [] [] [] [] []
  | S__with => mk F None None [("w", qa)] SE [] [] None None [] None [] [] [] [] []
  | S__selects => mk F None None [] [WT (fa "x")] [] [] None None [] None [] [] [] [] []
  | S__columns => mk F None None [] SE [fa "x"] [] None None [] None [] [] [] [] []
  | S__values => mk F None None [] SE [] [[WT (fa "x"); WT one]] None None [] None [] [] [] [] []
  | S__wheres => mk F None None [] SE [] [] (Some (WT (ca "x"))) None [] None [] [] [] [] []
  | S__prewheres => mk F None None [] SE [] [] None (Some (WT (ca "x"))) [] None [] [] [] [] []
  | S__groupbys => mk F None None [] SE [] [] None None [WT (fa "x")] None [] [] [] [] []
  | S__havings => mk F None None [] SE [] [] None None [] (Some (WT (ca "x"))) [] [] [] [] []
  | S__orderbys => mk F None None [] SE [] [] None None [] None [(WT (fa "x"), Some "DESC")] [] [] [] []
  | S__joins => mk F None None [] SE [] [] None None [] None [] [JOn "" (SrcTable wa) (WT (cc "k"))] [] [] []
  | S__updates => mk F None None [] SE [] [] None None [] None [] [] [(fa "u", WT one)] [] []
  | S__select_star_tables => mk F None None [] SE [] [] None None [] None [] [] [] [wa] []
  | S__limit_by => match k with QClickHouse => mk F None None [] SE [] [] None None [] None [] [] [] [] [WT (fa "x")] | _ => None end
  | S__distinct_on => match k with QClickHouse | QPostgres => Some (with_x s [WT (fa "x")] [] [] []) | _ => None end
  | S__returns => match k with QPostgres => Some (with_x s [] [WT (fa "x")] [] []) | _ => None end
  | S__using => match k with QPostgres => Some (with_x s [] [] [wa] []) | _ => None end
  | S__duplicate_updates => match k with QMySQL => Some (with_x s [] [] [] [(fa "u", WT one)]) | _ => None end
  | _ => None
  end.

Definition join_stmt (j : qjoin) : stmt :=
  with_ (stmt0 QGeneric) [SrcTable wc] None None [] [WT (fc "y")] [] [] None None [] None [] [j] [] [] [].

Definition witness_for (k : ctor) (sl : slot) : option obj15 :=
  let W w := Some (OW w) in
  match k, sl with
  | KField, S_table => W (WT (fa "x"))
  | KStar, S_table => W (WT (TStar (Some wa)))
  | KValue, S_value =>      (* the value of a SET pair: QueryBuilder.set() wraps it in a ValueWrapper *)
      Some (OS (with_ (stmt0 QGeneric) [SrcTable wc] None None [] [WT (fc "y")] [] [] None None [] None [] []
                      [(TField "u" None None, WT (fa "x"))] [] []))
  | KNeg, S_term => W (WT (TNeg (fa "x")))
  | KArith, S_left => W (WT (TArith OAdd (fa "x") (fc "n") None))
  | KArith, S_right => W (WT (TArith OAdd (fc "n") (fa "x") None))
  | KBasic, S_left => W (WT (TBasic CEq (fa "x") (fc "n") None))
  | KBasic, S_right => W (WT (TBasic CEq (fc "n") (fa "x") None))
  | KCplx, S_left => W (WT (TCplx BAnd (ca "x") (cc "n") None))
  | KCplx, S_right => W (WT (TCplx BAnd (cc "n") (ca "x") None))
  | KIn, S_term => W (WT (TIn (fa "x") (TTuple (TCons one TNil) None) false None))
  | KIn, S_container => W (WT (TIn (fc "n") (TTuple (TCons (fa "x") TNil) None) false None))
  | KBetween, S_term => W (WT (TBetween (fa "x") one one None))
  | KBetween, S_start => W (WT (TBetween (fc "n") (fa "x") one None))
  | KBetween, S_end => W (WT (TBetween (fc "n") one (fa "x") None))
  | KPeriod, S_term => W (WPeriod (fa "x") one one None)
  | KPeriod, S_start => W (WPeriod (fc "n") (fa "x") one None)
  | KPeriod, S_end => W (WPeriod (fc "n") one (fa "x") None)
  | KBitAnd, S_term => W (WT (TBitAnd (fa "x") "3" None))
  | KIsNull, S_term => W (WT (TIsNull (fa "x") None))
  | KNotNull, S_term => W (WT (TNotNull (fa "x") None))
  | KNot, S_term => W (WT (TNot (ca "x") None))
  | KAll, S_term => W (WT (TAll (fa "x") None))
  | KCase, S__cases_crit => W (WT (TCase (WCons (ca "x") one WNil) ONone None))
  | KCase, S__cases_term => W (WT (TCase (WCons (cc "n") (fa "x") WNil) ONone None))
  | KCase, S__else => W (WT (TCase (WCons (cc "n") one WNil) (OSome (fa "x")) None))
  | KFunc, S_args => W (WT (TFunc "F" (TCons one (TCons (fa "x") TNil)) None None))
  | KTuple, S_values => W (WT (TTuple (TCons (fa "x") TNil) None))
  | KArray, S_values => W (WT (TArray (TCons (fa "x") TNil) None))
  | KNested, S_left => W (WNested CEq BAnd (fa "x") one one None)
  | KNested, S_right => W (WNested CEq BAnd one (fa "x") one None)
  | KNested, S_nested => W (WNested CEq BAnd one one (fa "x") None)
  | KAgg, S_args => W (WAgg "SUM" [fa "x"] [] None)
  | KAgg, S__filters => W (WAgg "SUM" [fc "n"] [ca "x"] None)
  | KAnalytic, S_args => W (WAnalytic "SUM" [fa "x"] [] [fc "n"] [] None)
  | KAnalytic, S__filters => W (WAnalytic "SUM" [fc "n"] [ca "x"] [fc "n"] [] None)
  | KAnalytic, S__partition => W (WAnalytic "RANK" [] [] [fa "x"] [] None)
  | KAnalytic, S__orderbys => W (WAnalytic "RANK" [] [] [] [(fa "x", Some "DESC")] None)
  | KExtract, S_field => W (WExtract "YEAR" (fa "x") None)
  | KExists, S_container => W (WExists qa)
  | KAtTz, S_field => W (WAtTz (fa "x") "UTC" None)
  | KQuery, _ => option_map OS (stmt_witness QGeneric sl)
  | KClickHouse, _ => option_map OS (stmt_witness QClickHouse sl)
  | KPostgres, _ => option_map OS (stmt_witness QPostgres sl)
  | KMySQL, _ => option_map OS (stmt_witness QMySQL sl)
  | KJoin, S_item => Some (OS (join_stmt (JCross (SrcTable wa))))
  | KJoinOn, S_item => Some (OS (join_stmt (JOn "" (SrcTable wa) (WT (cc "k")))))
  | KJoinOn, S_criterion => Some (OS (join_stmt (JOn "" (SrcTable wc) (WT (ca "k")))))
  | KJoinUsing, S_item => Some (OS (join_stmt (JUsing "" (SrcTable wa) [TField "k" None None])))
  | KJoinUsing, S_fields => Some (OS (join_stmt (JUsing "" (SrcTable wc) [fa "k"])))
  | _, _ => None
  end.

Definition all_ctors : list ctor :=
  [KField; KStar; KValue; KLiteral; KParam; KNeg; KArith; KBasic; KCplx; KIn; KBetween; KPeriod; KBitAnd; KIsNull; KNotNull;
   KNot; KAll; KEmpty; KCase; KFunc; KTuple; KArray; KNested; KAgg; KAnalytic; KExtract; KExists; KAtTz; KQuery; KClickHouse;
   KPostgres; KMySQL; KJoin; KJoinOn; KJoinUsing].
(* extracted, probed and pinned, but without a constructor in this model: set operations and the ON CONFLICT parts *)
Definition unmodelled_slot (s : slot) : bool :=
  match s with S__on_conflict_fields | S__on_conflict_do_updates | S__on_conflict_wheres | S__on_conflict_do_update_wheres => true
             | _ => false end.
Definition all_pairs : list (ctor * slot) :=
  flat_map (fun k => map (pair k) (filter (fun s => negb (unmodelled_slot s)) (child_slots k))) all_ctors.
Definition unvisited_pairs : list (ctor * slot) := filter (fun p => negb (vis (fst p) (snd p))) all_pairs.
Definition visited_pairs : list (ctor * slot) := filter (fun p => vis (fst p) (snd p)) all_pairs.

(* the witness of an unvisited slot: the code's result renders differently from the object built with b *)
Definition witness_differs (p : ctor * slot) : bool :=
  match witness_for (fst p) (snd p) with
  | Some o => negb (String.eqb (rep_show wa wb o) (subst_show wa wb o))
  | None => false
  end.
(* the witness of a visited slot: same rendering -- except where visiting means calling a method that does not exist *)
Definition raising_pair (p : ctor * slot) : bool :=
  match p with
  | (KQuery, S__with) | (KClickHouse, S__with) | (KPostgres, S__with) | (KMySQL, S__with) =>
      c_with_by_call tcfg && negb (c_with_ok tcfg)
  | (KJoin, S_item) => match c_src_mode tcfg KJoin with MCall => negb (c_item_ok tcfg) | _ => false end
  | _ => false
  end.
Definition witness_agrees (p : ctor * slot) : bool :=
  match witness_for (fst p) (snd p) with
  | Some o => if raising_pair p then String.eqb (rep_show wa wb o) "!TypeError"
              else String.eqb (rep_show wa wb o) (subst_show wa wb o)
  | None => false
  end.

(* committed: the slots the code visits today.  Dropping one of them must break the build. *)
Definition expected_visited : list (ctor * slot) :=
  [(KField, S_table); (KStar, S_table); (KArith, S_left); (KArith, S_right); (KBasic, S_left); (KBasic, S_right);
   (KCplx, S_left); (KCplx, S_right); (KIn, S_term); (KBetween, S_term); (KBitAnd, S_term); (KIsNull, S_term);
   (KNotNull, S_term); (KNot, S_term); (KCase, S__cases_crit); (KCase, S__cases_term); (KCase, S__else); (KFunc, S_args);
   (KTuple, S_values); (KArray, S_values); (KNested, S_left); (KNested, S_right); (KNested, S_nested); (KAgg, S_args);
   (KAnalytic, S_args);
   (* visited since the fix commits b9f327b, 464bef2, 25d2a2d, 11d7c56 *)
   (KNeg, S_term); (KIn, S_container); (KBetween, S_start); (KBetween, S_end); (KPeriod, S_term); (KPeriod, S_start);
   (KPeriod, S_end); (KAll, S_term); (KAgg, S__filters); (KAnalytic, S__filters); (KAnalytic, S__partition);
   (KAnalytic, S__orderbys); (KExtract, S_field); (KExists, S_container); (KQuery, S__updates); (KClickHouse, S__updates);
   (* visited since 1c7b7d2, 2459d05, 842179f, 0399ee8, e9a97c9, 1465503 (and the dialect builders' inherited slots) *)
   (KValue, S_value); (KAtTz, S_field); (KClickHouse, S__distinct_on); (KPostgres, S__using);
   (KChHasAny, S__left_array); (KChHasAny, S__right_array); (KChArrayFn, S__array); (KChToFixed, S__field); (KPostgres, S__from); (KPostgres,
   S__insert_table); (KPostgres, S__update_table); (KPostgres, S__with); (KPostgres, S__selects); (KPostgres,
   S__columns); (KPostgres, S__values); (KPostgres, S__wheres); (KPostgres, S__prewheres); (KPostgres, S__groupbys);
   (KPostgres, S__havings); (KPostgres, S__orderbys); (KPostgres, S__joins); (KPostgres, S__updates); (KPostgres,
   S__select_star_tables); (KPostgres, S__distinct_on); (KPostgres, S__returns); (KPostgres, S__on_conflict_fields);
   (KPostgres, S__on_conflict_do_updates); (KPostgres, S__on_conflict_wheres); (KPostgres,
   S__on_conflict_do_update_wheres); (KMySQL, S__from); (KMySQL, S__insert_table); (KMySQL, S__update_table); (KMySQL,
   S__with); (KMySQL, S__selects); (KMySQL, S__columns); (KMySQL, S__values); (KMySQL, S__wheres); (KMySQL,
   S__prewheres); (KMySQL, S__groupbys); (KMySQL, S__havings); (KMySQL, S__orderbys); (KMySQL, S__joins); (KMySQL,
   S__updates); (KMySQL, S__select_star_tables); (KMySQL, S__duplicate_updates); (KSetOp, S_base_query); (KSetOp,
   S__set_operation); (KSetOp, S__orderbys);
   (KQuery, S__from); (KQuery, S__insert_table); (KQuery, S__update_table); (KQuery, S__with); (KQuery, S__selects);
   (KQuery, S__columns); (KQuery, S__values); (KQuery, S__wheres); (KQuery, S__prewheres); (KQuery, S__groupbys);
   (KQuery, S__havings); (KQuery, S__orderbys); (KQuery, S__joins); (KQuery, S__select_star_tables);
   (KClickHouse, S__from); (KClickHouse, S__insert_table); (KClickHouse, S__update_table); (KClickHouse, S__with);
   (KClickHouse, S__selects); (KClickHouse, S__columns); (KClickHouse, S__values); (KClickHouse, S__wheres);
   (KClickHouse, S__prewheres); (KClickHouse, S__groupbys); (KClickHouse, S__havings); (KClickHouse, S__orderbys);
   (KClickHouse, S__joins); (KClickHouse, S__select_star_tables); (KClickHouse, S__limit_by);
   (KJoin, S_item); (KJoinOn, S_item); (KJoinOn, S_criterion); (KJoinUsing, S_item); (KJoinUsing, S_fields)].
Definition pair_eqb (a b : ctor * slot) : bool := Nat.eqb (ctor_id (fst a)) (ctor_id (fst b)) && slot_eqb (snd a) (snd b).
Definition show_pair (p : ctor * slot) : string := ctor_class (fst p) ++ "." ++ slot_attr (snd p).

(* ---- candidates for a refutation: every slot witness plus the sub-query / WITH shapes ---- *)
Definition sub_from : stmt :=
  with_ (stmt0 QGeneric) [SrcSub qa (Some "sq")] None None [] [WT (fc "y")] [] [] None None [] None [] [] [] [] [].
Definition sub_join : stmt := join_stmt (JOn "" (SrcSub qa (Some "j0")) (WT (cc "k"))).
Definition sub_cross : stmt := join_stmt (JCross (SrcSub qa (Some "cj"))).
Definition with_stmt : stmt :=
  with_ (stmt0 QGeneric) [SrcTable wa] None None [("w", qa)] [WT (fa "x")] [] [] None None [] None [] [JCross (SrcTable wa)] [] [] [].
Definition candidates : list obj15 :=
  flat_map (fun p => match witness_for (fst p) (snd p) with Some o => [o] | None => [] end) all_pairs
  ++ [OS sub_from; OS sub_join; OS sub_cross; OS with_stmt].
(* inside the scope of the full statement (no TSub leaf over a; dialect-only slots empty elsewhere) *)
Definition obj_ok (o : obj15) : bool := match o with OW w => sf_wt wa w | OS s => wf_stmt s && sf_stmt wa s end.
Definition refuting (o : obj15) : bool := obj_ok o && negb (String.eqb (rep_show wa wb o) (subst_show wa wb o)).
