(* GuardsCorr.v — executable interpreter for the C14 correspondence cases.  Definitions only.
   A case is a history of calls on one object together with what pypika did for each call
   (None = accepted, Some "<ExceptionClass>" = raised). *)
From PV Require Import Base Guards.
Local Open Scope list_scope.

Definition outs := list (option string).

Inductive case :=
| CaseQ (cls : qcls) (calls : list qcall) (o : outs)
| CaseC (vertica table_set : bool) (calls : list ccall) (o : outs)
| CaseD (click : bool) (calls : list dcall) (o : outs)
| CaseT (calls : list tcall) (o : outs)
| CaseW (calls : list wcall) (o : outs)
| CaseK (calls : list kcall) (o : outs)
| CaseF (params : option nat) (calls : list fcall) (o : outs)
| CaseS (base : nat) (calls : list scall) (o : outs)
| CaseR (values : list (option bool)) (r : option bool).      (* utils.resolve_is_aggregate *)

Definition model_outs (c : case) : outs :=
  match c with
  | CaseQ cls calls _ => snd (run step_q (q_init cls) calls)
  | CaseC v t calls _ => snd (run step_c (mkC v t false false 0 None None) calls)
  | CaseD k calls _ => snd (run step_d (mkD k None None) calls)
  | CaseT calls _ => snd (run step_t (mkT false false) calls)
  | CaseW calls _ => snd (run step_w (mkW false false) calls)
  | CaseK calls _ => snd (run step_k (mkK 0 false) calls)
  | CaseF p calls _ => snd (run step_f (mkF p) calls)
  | CaseS b calls _ => snd (run step_s (mkS b []) calls)
  | CaseR _ _ => []
  end.

Definition recorded (c : case) : outs :=
  match c with
  | CaseQ _ _ o | CaseC _ _ _ o | CaseD _ _ o | CaseT _ o | CaseW _ o | CaseK _ o | CaseF _ _ o | CaseS _ _ o => o
  | CaseR _ _ => []
  end.

Definition outs_eqb : outs -> outs -> bool := list_eqb (option_eqb String.eqb).

Definition check_case (c : case) : bool :=
  match c with
  | CaseR vs r => option_eqb Bool.eqb (resolve_is_aggregate vs) r
  | _ => outs_eqb (model_outs c) (recorded c)
  end.

Definition show_case (c : case) : string :=
  match c with
  | CaseR vs _ => match resolve_is_aggregate vs with None => "None" | Some true => "True" | Some false => "False" end
  | _ => join "," (map (fun o => match o with None => "ok" | Some e => e end) (model_outs c))
  end.
