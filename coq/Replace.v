(* Replace.v — C15: replace_table.  Definitions only.

   Two functions on the shared expression AST (Terms.v), on a wrapper type for the node classes the shared
   AST does not have, and on a statement record:

     subst A B   the SPECIFICATION: every table that is Table.__eq__-equal to A, in every slot at every depth,
                 becomes B ("the object built by the same calls with B in place of A");
     rep A B     the IMPLEMENTATION MODEL: the traversal the code performs.  It looks into a child slot of a node
                 exactly when [vis k s] holds, where [visited : ctor -> list slot] (gen/C15Table.v) is extracted
                 from the replace_table methods of the sources on every run.

   [covered A t] says: on every path from the root to an occurrence of A, every slot is visited.            *)
From PV Require Import Base Crit gen.TermsTable Terms gen.C15Table.

(* what the traversal needs to know about the code.  Every definition and lemma below is generic in it; the instance
   [tcfg] is read off the extracted table. *)
Record cfg := {
  cvis : ctor -> slot -> bool;      (* does class k's replace_table look into slot s? *)
  c_with_by_call : bool;            (* _with handled by calling replace_table on the AliasedQuery (else: rebuilt from its query) *)
  c_src_mode : ctor -> srcmode;     (* how QueryBuilder._from entries / Join, JoinOn, JoinUsing items are handled *)
  c_with_ok : bool;                 (* AliasedQuery has a replace_table method *)
  c_item_ok : bool                  (* Table has a replace_table method *)
}.
Definition tcfg : cfg :=
  {| cvis := fun k s => existsb (slot_eqb s) (visited k); c_with_by_call := with_by_call; c_src_mode := src_mode;
     c_with_ok := with_items_replaceable; c_item_ok := table_item_replaceable |}.

(* the table Query.from_(Table(tbl)) of the shared AST's fixed sub-query leaf TSub *)
Definition plain (s : string) : tref := {| tname := s; tschema := []; talias := None |}.

Definition cov1 (visited_slot child_covered child_has_A : bool) : bool :=
  if visited_slot then child_covered else negb child_has_A.

Section RT.
Variable cf : cfg.
Notation vis := (cvis cf).
Variables A B : tref.

(* self.table == current_table *)
Definition hit (t : tref) : bool := tref_eqb t A.
Definition sw_tbl (t : tref) : tref := if hit t then B else t.
Definition sw_otbl (o : option tref) : option tref := option_map sw_tbl o.
Definition occ_otbl (o : option tref) : bool := match o with Some t => hit t | None => false end.

(* ------------------------------------------------------------------------------------------ *)
(* terms: specification                                                                        *)
(* ------------------------------------------------------------------------------------------ *)
Fixpoint subst (t : term) {struct t} : term :=
  match t with
  | TField n tb al => TField n (sw_otbl tb) al
  | TStar tb => TStar (sw_otbl tb)
  | TNeg x => TNeg (subst x)
  | TArith o l r al => TArith o (subst l) (subst r) al
  | TBasic c l r al => TBasic c (subst l) (subst r) al
  | TCplx b l r al => TCplx b (subst l) (subst r) al
  | TIn x c ng al => TIn (subst x) (subst c) ng al
  | TBetween x lo hi al => TBetween (subst x) (subst lo) (subst hi) al
  | TBitAnd x v al => TBitAnd (subst x) v al
  | TIsNull x al => TIsNull (subst x) al
  | TNotNull x al => TNotNull (subst x) al
  | TNot x al => TNot (subst x) al
  | TAll x al => TAll (subst x) al
  | TCase ws e al => TCase (subst_w ws) (subst_o e) al
  | TFunc n args sp al => TFunc n (subst_l args) sp al
  | TTuple vs al => TTuple (subst_l vs) al
  | TArray vs al => TArray (subst_l vs) al
  | TValS _ _ | TValI _ _ | TValB _ _ _ | TValNone _ | TValRaw _ _ | TLit _ _ | TParam _ | TEmpty | TSub _ _ _ => t
  end
with subst_l (l : tlist) {struct l} : tlist :=
  match l with TNil => TNil | TCons x r => TCons (subst x) (subst_l r) end
with subst_w (l : wlist) {struct l} : wlist :=
  match l with WNil => WNil | WCons c v r => WCons (subst c) (subst v) (subst_w r) end
with subst_o (o : oterm) {struct o} : oterm :=
  match o with ONone => ONone | OSome x => OSome (subst x) end.

(* ------------------------------------------------------------------------------------------ *)
(* terms: implementation model, driven by the extracted table                                  *)
(* ------------------------------------------------------------------------------------------ *)
Fixpoint rep (t : term) {struct t} : term :=
  match t with
  | TField n tb al => TField n (if vis KField S_table then sw_otbl tb else tb) al
  | TStar tb => TStar (if vis KStar S_table then sw_otbl tb else tb)
  | TNeg x => TNeg (if vis KNeg S_term then rep x else x)
  | TArith o l r al => TArith o (if vis KArith S_left then rep l else l) (if vis KArith S_right then rep r else r) al
  | TBasic c l r al => TBasic c (if vis KBasic S_left then rep l else l) (if vis KBasic S_right then rep r else r) al
  | TCplx b l r al => TCplx b (if vis KCplx S_left then rep l else l) (if vis KCplx S_right then rep r else r) al
  | TIn x c ng al => TIn (if vis KIn S_term then rep x else x) (if vis KIn S_container then rep c else c) ng al
  | TBetween x lo hi al =>
      TBetween (if vis KBetween S_term then rep x else x) (if vis KBetween S_start then rep lo else lo)
               (if vis KBetween S_end then rep hi else hi) al
  | TBitAnd x v al => TBitAnd (if vis KBitAnd S_term then rep x else x) v al
  | TIsNull x al => TIsNull (if vis KIsNull S_term then rep x else x) al
  | TNotNull x al => TNotNull (if vis KNotNull S_term then rep x else x) al
  | TNot x al => TNot (if vis KNot S_term then rep x else x) al
  | TAll x al => TAll (if vis KAll S_term then rep x else x) al
  | TCase ws e al => TCase (rep_w ws) (if vis KCase S__else then rep_o e else e) al
  | TFunc n args sp al => TFunc n (if vis KFunc S_args then rep_l args else args) sp al
  | TTuple vs al => TTuple (if vis KTuple S_values then rep_l vs else vs) al
  | TArray vs al => TArray (if vis KArray S_values then rep_l vs else vs) al
  | TValS _ _ | TValI _ _ | TValB _ _ _ | TValNone _ | TValRaw _ _ | TLit _ _ | TParam _ | TEmpty | TSub _ _ _ => t
  end
with rep_l (l : tlist) {struct l} : tlist :=
  match l with TNil => TNil | TCons x r => TCons (rep x) (rep_l r) end
with rep_w (l : wlist) {struct l} : wlist :=
  match l with
  | WNil => WNil
  | WCons c v r => WCons (if vis KCase S__cases_crit then rep c else c) (if vis KCase S__cases_term then rep v else v) (rep_w r)
  end
with rep_o (o : oterm) {struct o} : oterm :=
  match o with ONone => ONone | OSome x => OSome (rep x) end.

(* ------------------------------------------------------------------------------------------ *)
(* occurrences                                                                                 *)
(* ------------------------------------------------------------------------------------------ *)
(* does A occur below t (any slot)?  The fixed sub-query leaf TSub mentions Table(tbl). *)
Fixpoint occ (t : term) {struct t} : bool :=
  match t with
  | TField _ tb _ | TStar tb => occ_otbl tb
  | TNeg x | TBitAnd x _ _ | TIsNull x _ | TNotNull x _ | TNot x _ | TAll x _ => occ x
  | TArith _ l r _ | TBasic _ l r _ | TCplx _ l r _ | TIn l r _ _ => occ l || occ r
  | TBetween x lo hi _ => occ x || occ lo || occ hi
  | TCase ws e _ => occ_w ws || occ_o e
  | TFunc _ vs _ _ | TTuple vs _ | TArray vs _ => occ_l vs
  | TSub _ tbl _ => hit (plain tbl)
  | TValS _ _ | TValI _ _ | TValB _ _ _ | TValNone _ | TValRaw _ _ | TLit _ _ | TParam _ | TEmpty => false
  end
with occ_l (l : tlist) {struct l} : bool :=
  match l with TNil => false | TCons x r => occ x || occ_l r end
with occ_w (l : wlist) {struct l} : bool :=
  match l with WNil => false | WCons c v r => occ c || occ v || occ_w r end
with occ_o (o : oterm) {struct o} : bool :=
  match o with ONone => false | OSome x => occ x end.

(* the shared AST's TSub is one fixed sub-query; it cannot express "the same sub-query over B", so the theorems are
   stated for terms whose TSub leaves are over a table other than A (sub-queries over A: wterm / stmt below) *)
Fixpoint sub_foreign (t : term) {struct t} : bool :=
  match t with
  | TNeg x | TBitAnd x _ _ | TIsNull x _ | TNotNull x _ | TNot x _ | TAll x _ => sub_foreign x
  | TArith _ l r _ | TBasic _ l r _ | TCplx _ l r _ | TIn l r _ _ => sub_foreign l && sub_foreign r
  | TBetween x lo hi _ => sub_foreign x && sub_foreign lo && sub_foreign hi
  | TCase ws e _ => sub_foreign_w ws && sub_foreign_o e
  | TFunc _ vs _ _ | TTuple vs _ | TArray vs _ => sub_foreign_l vs
  | TSub _ tbl _ => negb (hit (plain tbl))
  | TField _ _ _ | TStar _ | TValS _ _ | TValI _ _ | TValB _ _ _ | TValNone _ | TValRaw _ _ | TLit _ _ | TParam _
  | TEmpty => true
  end
with sub_foreign_l (l : tlist) {struct l} : bool :=
  match l with TNil => true | TCons x r => sub_foreign x && sub_foreign_l r end
with sub_foreign_w (l : wlist) {struct l} : bool :=
  match l with WNil => true | WCons c v r => sub_foreign c && sub_foreign v && sub_foreign_w r end
with sub_foreign_o (o : oterm) {struct o} : bool :=
  match o with ONone => true | OSome x => sub_foreign x end.

(* every slot on every path to an occurrence of A is visited *)
Fixpoint covered (t : term) {struct t} : bool :=
  match t with
  | TField _ tb _ => cov1 (vis KField S_table) true (occ_otbl tb)
  | TStar tb => cov1 (vis KStar S_table) true (occ_otbl tb)
  | TNeg x => cov1 (vis KNeg S_term) (covered x) (occ x)
  | TArith _ l r _ => cov1 (vis KArith S_left) (covered l) (occ l) && cov1 (vis KArith S_right) (covered r) (occ r)
  | TBasic _ l r _ => cov1 (vis KBasic S_left) (covered l) (occ l) && cov1 (vis KBasic S_right) (covered r) (occ r)
  | TCplx _ l r _ => cov1 (vis KCplx S_left) (covered l) (occ l) && cov1 (vis KCplx S_right) (covered r) (occ r)
  | TIn x c _ _ => cov1 (vis KIn S_term) (covered x) (occ x) && cov1 (vis KIn S_container) (covered c) (occ c)
  | TBetween x lo hi _ =>
      cov1 (vis KBetween S_term) (covered x) (occ x) && cov1 (vis KBetween S_start) (covered lo) (occ lo)
      && cov1 (vis KBetween S_end) (covered hi) (occ hi)
  | TBitAnd x _ _ => cov1 (vis KBitAnd S_term) (covered x) (occ x)
  | TIsNull x _ => cov1 (vis KIsNull S_term) (covered x) (occ x)
  | TNotNull x _ => cov1 (vis KNotNull S_term) (covered x) (occ x)
  | TNot x _ => cov1 (vis KNot S_term) (covered x) (occ x)
  | TAll x _ => cov1 (vis KAll S_term) (covered x) (occ x)
  | TCase ws e _ => covered_w ws && cov1 (vis KCase S__else) (covered_o e) (occ_o e)
  | TFunc _ vs _ _ => cov1 (vis KFunc S_args) (covered_l vs) (occ_l vs)
  | TTuple vs _ => cov1 (vis KTuple S_values) (covered_l vs) (occ_l vs)
  | TArray vs _ => cov1 (vis KArray S_values) (covered_l vs) (occ_l vs)
  | TSub _ tbl _ => negb (hit (plain tbl))
  | TValS _ _ | TValI _ _ | TValB _ _ _ | TValNone _ | TValRaw _ _ | TLit _ _ | TParam _ | TEmpty => true
  end
with covered_l (l : tlist) {struct l} : bool :=
  match l with TNil => true | TCons x r => covered x && covered_l r end
with covered_w (l : wlist) {struct l} : bool :=
  match l with
  | WNil => true
  | WCons c v r => cov1 (vis KCase S__cases_crit) (covered c) (occ c) && cov1 (vis KCase S__cases_term) (covered v) (occ v)
                   && covered_w r
  end
with covered_o (o : oterm) {struct o} : bool :=
  match o with ONone => true | OSome x => covered x end.

End RT.

(* the (class, slot) pairs of the shared expression AST *)
Definition term_pairs : list (ctor * slot) :=
  [(KField, S_table); (KStar, S_table); (KNeg, S_term); (KArith, S_left); (KArith, S_right); (KBasic, S_left); (KBasic, S_right);
   (KCplx, S_left); (KCplx, S_right); (KIn, S_term); (KIn, S_container); (KBetween, S_term); (KBetween, S_start);
   (KBetween, S_end); (KBitAnd, S_term); (KIsNull, S_term); (KNotNull, S_term); (KNot, S_term); (KAll, S_term);
   (KCase, S__cases_crit); (KCase, S__cases_term); (KCase, S__else); (KFunc, S_args); (KTuple, S_values); (KArray, S_values)].
Definition term_slots_all_visited (cf : cfg) : bool := forallb (fun p => cvis cf (fst p) (snd p)) term_pairs.

(* number of table references equal to C (TSub leaves are not counted: see sub_foreign) *)
Section COUNT.
Variable C : tref.
Definition cnt_otbl (o : option tref) : nat := match o with Some t => if tref_eqb t C then 1 else 0 | None => 0 end.
Fixpoint count (t : term) {struct t} : nat :=
  match t with
  | TField _ tb _ | TStar tb => cnt_otbl tb
  | TNeg x | TBitAnd x _ _ | TIsNull x _ | TNotNull x _ | TNot x _ | TAll x _ => count x
  | TArith _ l r _ | TBasic _ l r _ | TCplx _ l r _ | TIn l r _ _ => count l + count r
  | TBetween x lo hi _ => count x + count lo + count hi
  | TCase ws e _ => count_w ws + count_o e
  | TFunc _ vs _ _ | TTuple vs _ | TArray vs _ => count_l vs
  | TValS _ _ | TValI _ _ | TValB _ _ _ | TValNone _ | TValRaw _ _ | TLit _ _ | TParam _ | TEmpty | TSub _ _ _ => 0
  end
with count_l (l : tlist) {struct l} : nat :=
  match l with TNil => 0 | TCons x r => count x + count_l r end
with count_w (l : wlist) {struct l} : nat :=
  match l with WNil => 0 | WCons c v r => count c + count v + count_w r end
with count_o (o : oterm) {struct o} : nat :=
  match o with ONone => 0 | OSome x => count x end.
End COUNT.

(* ------------------------------------------------------------------------------------------ *)
(* node classes the shared AST does not have: a wrapper type whose children are shared terms   *)
(* ------------------------------------------------------------------------------------------ *)
(* a plain sub-query  Query.from_(t1)[.from_(t2)].select(..)[.where(..)];  sq_ns = its own with_namespace decision
   (several FROM tables, or a WHERE that mentioned a foreign table when it was built) *)
Record squery := { sq_from : list tref; sq_selects : list term; sq_where : option term; sq_ns : bool }.

Inductive wterm :=
| WT (t : term)
| WAgg (name : string) (args filters : list term) (alias : option string)          (* AggregateFunction(..).filter(..) *)
| WAnalytic (name : string) (args filters partition : list term) (orderbys : list (term * option string))
            (alias : option string)                                                (* AnalyticFunction .filter .over .orderby *)
| WExtract (part : string) (field : term) (alias : option string)                  (* functions.Extract *)
| WPeriod (t lo hi : term) (alias : option string)                                 (* PeriodCriterion *)
| WNested (c : cmp) (nc : bop) (l r n : term) (alias : option string)              (* NestedCriterion *)
| WSubq (q : squery) (alias : option string)                                         (* a sub-query used as a term *)
| WInSub (t : term) (q : squery) (negated : bool) (alias : option string)            (* t IN (sub-query) *)
| WCmpSub (c : cmp) (l : term) (q : squery) (alias : option string)                  (* l <cmp> (sub-query) *)
| WExists (q : squery)                                                               (* ExistsCriterion *)
| WValue (t : term) (alias : option string)                                         (* ValueWrapper around a term *)
| WAtTz (f : term) (zone : string) (alias : option string).                         (* AtTimezone *)

Inductive source :=
| SrcTable (t : tref)
| SrcSub (q : squery) (alias : option string)       (* a sub-query in FROM / JOIN *)
| SrcNamed (name : string).                       (* AliasedQuery *)

Inductive qjoin :=
| JCross (item : source)                                       (* Join *)
| JOn (how : string) (item : source) (crit : wterm)            (* JoinOn *)
| JUsing (how : string) (item : source) (fields : list term).  (* JoinUsing *)

Inductive qkind := QGeneric | QClickHouse | QPostgres | QMySQL.
Definition kctor (k : qkind) : ctor :=
  match k with QGeneric => KQuery | QClickHouse => KClickHouse | QPostgres => KPostgres | QMySQL => KMySQL end.

Record stmt := {
  s_kind : qkind;
  s_from : list source; s_insert : option tref; s_update : option tref; s_with : list (string * squery);
  s_selects : list wterm; s_columns : list term; s_values : list (list wterm);
  s_wheres : option wterm; s_prewheres : option wterm; s_groupbys : list wterm; s_havings : option wterm;
  s_orderbys : list (wterm * option string); s_joins : list qjoin; s_updates : list (term * wterm);
  s_star : list tref;              (* _select_star_tables, a set *)
  s_limit_by : list wterm;         (* ClickHouse LIMIT BY columns *)
  s_distinct_on : list wterm;      (* PostgreSQL / ClickHouse DISTINCT ON *)
  s_returns : list wterm;          (* PostgreSQL RETURNING *)
  s_using : list tref;             (* PostgreSQL DELETE .. USING tables *)
  s_dup_updates : list (term * wterm)   (* MySQL ON DUPLICATE KEY UPDATE pairs; values are ValueWrapper-wrapped *)
}.
Definition skind (s : stmt) : ctor := kctor (s_kind s).
(* slots that only some builder classes have are empty elsewhere *)
Definition is_nil {X} (l : list X) : bool := match l with [] => true | _ => false end.
Definition wf_stmt (s : stmt) : bool :=
  match s_kind s with
  | QGeneric => is_nil (s_limit_by s) && is_nil (s_distinct_on s) && is_nil (s_returns s) && is_nil (s_using s) && is_nil (s_dup_updates s)
  | QClickHouse => is_nil (s_returns s) && is_nil (s_using s) && is_nil (s_dup_updates s)
  | QPostgres => is_nil (s_limit_by s) && is_nil (s_dup_updates s)
  | QMySQL => is_nil (s_limit_by s) && is_nil (s_distinct_on s) && is_nil (s_returns s) && is_nil (s_using s)
  end.

Definition set_add (eqb : tref -> tref -> bool) (x : tref) (l : list tref) : list tref :=
  if existsb (eqb x) l then l else l ++ [x].

Definition mapM {X Y} (f : X -> res Y) : list X -> res (list Y) :=
  fix go (l : list X) : res (list Y) :=
    match l with
    | [] => Ok []
    | x :: r => match f x with Err e => Err e | Ok y => match go r with Err e => Err e | Ok ys => Ok (y :: ys) end end
    end.

Section RTW.
Variable cf : cfg.
Notation vis := (cvis cf).
Variables A B : tref.
Notation hit := (hit A).
Notation sw_tbl := (sw_tbl A B).
Notation subst := (subst A B).
Notation rep := (rep cf A B).
Notation occ := (occ A).
Notation covered := (covered cf A).

Definition ifv {X} (b : bool) (f : X -> X) (x : X) : X := if b then f x else x.
Definition occs (l : list term) : bool := existsb occ l.
Definition covs (l : list term) : bool := forallb covered l.
Definition occ_ot (o : option term) : bool := match o with Some t => occ t | None => false end.
Definition cov_ot (o : option term) : bool := match o with Some t => covered t | None => true end.
Definition sub_foreigns (l : list term) : bool := forallb (sub_foreign A) l.

(* ---- sub-queries (QueryBuilder.replace_table restricted to the three slots a squery has) ---- *)
Definition subst_q (q : squery) : squery :=
  {| sq_from := map sw_tbl (sq_from q); sq_selects := map subst (sq_selects q);
     sq_where := option_map subst (sq_where q); sq_ns := sq_ns q |}.
Definition rep_q (q : squery) : squery :=
  {| sq_from := ifv (vis KQuery S__from) (map sw_tbl) (sq_from q);
     sq_selects := ifv (vis KQuery S__selects) (map rep) (sq_selects q);
     sq_where := ifv (vis KQuery S__wheres) (option_map rep) (sq_where q); sq_ns := sq_ns q |}.
Definition occ_q (q : squery) : bool := existsb hit (sq_from q) || occs (sq_selects q) || occ_ot (sq_where q).
Definition cov_q (q : squery) : bool :=
  cov1 (vis KQuery S__from) true (existsb hit (sq_from q))
  && cov1 (vis KQuery S__selects) (covs (sq_selects q)) (occs (sq_selects q))
  && cov1 (vis KQuery S__wheres) (cov_ot (sq_where q)) (occ_ot (sq_where q)).

(* ---- wrapper terms ---- *)
Definition subst_ob (l : list (term * option string)) := map (fun p => (subst (fst p), snd p)) l.
Definition rep_ob (l : list (term * option string)) := map (fun p => (rep (fst p), snd p)) l.

Definition subst_wt (w : wterm) : wterm :=
  match w with
  | WT t => WT (subst t)
  | WAgg n a f al => WAgg n (map subst a) (map subst f) al
  | WAnalytic n a f p o al => WAnalytic n (map subst a) (map subst f) (map subst p) (subst_ob o) al
  | WExtract p f al => WExtract p (subst f) al
  | WPeriod t lo hi al => WPeriod (subst t) (subst lo) (subst hi) al
  | WNested c nc l r n al => WNested c nc (subst l) (subst r) (subst n) al
  | WSubq q al => WSubq (subst_q q) al
  | WInSub t q ng al => WInSub (subst t) (subst_q q) ng al
  | WCmpSub c l q al => WCmpSub c (subst l) (subst_q q) al
  | WExists q => WExists (subst_q q)
  | WValue t al => WValue (subst t) al
  | WAtTz f z al => WAtTz (subst f) z al
  end.

Definition rep_wt (w : wterm) : wterm :=
  match w with
  | WT t => WT (rep t)
  | WAgg n a f al => WAgg n (ifv (vis KAgg S_args) (map rep) a) (ifv (vis KAgg S__filters) (map rep) f) al
  | WAnalytic n a f p o al =>
      WAnalytic n (ifv (vis KAnalytic S_args) (map rep) a) (ifv (vis KAnalytic S__filters) (map rep) f)
                (ifv (vis KAnalytic S__partition) (map rep) p) (ifv (vis KAnalytic S__orderbys) rep_ob o) al
  | WExtract p f al => WExtract p (ifv (vis KExtract S_field) rep f) al
  | WPeriod t lo hi al =>
      WPeriod (ifv (vis KPeriod S_term) rep t) (ifv (vis KPeriod S_start) rep lo) (ifv (vis KPeriod S_end) rep hi) al
  | WNested c nc l r n al =>
      WNested c nc (ifv (vis KNested S_left) rep l) (ifv (vis KNested S_right) rep r) (ifv (vis KNested S_nested) rep n) al
  | WSubq q al => WSubq (rep_q q) al            (* the sub-query object's own replace_table *)
  | WInSub t q ng al => WInSub (ifv (vis KIn S_term) rep t) (ifv (vis KIn S_container) rep_q q) ng al
  | WCmpSub c l q al => WCmpSub c (ifv (vis KBasic S_left) rep l) (ifv (vis KBasic S_right) rep_q q) al
  | WExists q => WExists (ifv (vis KExists S_container) rep_q q)
  | WValue t al => WValue (ifv (vis KValue S_value) rep t) al
  | WAtTz f z al => WAtTz (ifv (vis KAtTz S_field) rep f) z al
  end.

Definition occ_ob (l : list (term * option string)) : bool := existsb (fun p => occ (fst p)) l.
Definition cov_ob (l : list (term * option string)) : bool := forallb (fun p => covered (fst p)) l.

Definition occ_wt (w : wterm) : bool :=
  match w with
  | WT t => occ t
  | WAgg _ a f _ => occs a || occs f
  | WAnalytic _ a f p o _ => occs a || occs f || occs p || occ_ob o
  | WExtract _ f _ => occ f
  | WPeriod t lo hi _ => occ t || occ lo || occ hi
  | WNested _ _ l r n _ => occ l || occ r || occ n
  | WSubq q _ => occ_q q
  | WInSub t q _ _ => occ t || occ_q q
  | WCmpSub _ l q _ => occ l || occ_q q
  | WExists q => occ_q q
  | WValue t _ => occ t
  | WAtTz f _ _ => occ f
  end.

Definition cov_wt (w : wterm) : bool :=
  match w with
  | WT t => covered t
  | WAgg _ a f _ => cov1 (vis KAgg S_args) (covs a) (occs a) && cov1 (vis KAgg S__filters) (covs f) (occs f)
  | WAnalytic _ a f p o _ =>
      cov1 (vis KAnalytic S_args) (covs a) (occs a) && cov1 (vis KAnalytic S__filters) (covs f) (occs f)
      && cov1 (vis KAnalytic S__partition) (covs p) (occs p) && cov1 (vis KAnalytic S__orderbys) (cov_ob o) (occ_ob o)
  | WExtract _ f _ => cov1 (vis KExtract S_field) (covered f) (occ f)
  | WPeriod t lo hi _ =>
      cov1 (vis KPeriod S_term) (covered t) (occ t) && cov1 (vis KPeriod S_start) (covered lo) (occ lo)
      && cov1 (vis KPeriod S_end) (covered hi) (occ hi)
  | WNested _ _ l r n _ =>
      cov1 (vis KNested S_left) (covered l) (occ l) && cov1 (vis KNested S_right) (covered r) (occ r)
      && cov1 (vis KNested S_nested) (covered n) (occ n)
  | WSubq q _ => cov_q q
  | WInSub t q _ _ => cov1 (vis KIn S_term) (covered t) (occ t) && cov1 (vis KIn S_container) (cov_q q) (occ_q q)
  | WCmpSub _ l q _ => cov1 (vis KBasic S_left) (covered l) (occ l) && cov1 (vis KBasic S_right) (cov_q q) (occ_q q)
  | WExists q => cov1 (vis KExists S_container) (cov_q q) (occ_q q)
  | WValue t _ => cov1 (vis KValue S_value) (covered t) (occ t)
  | WAtTz f _ _ => cov1 (vis KAtTz S_field) (covered f) (occ f)
  end.

(* ---- statements ---- *)
Definition subst_src (x : source) : source :=
  match x with SrcTable t => SrcTable (sw_tbl t) | SrcSub q al => SrcSub (subst_q q) al | SrcNamed n => SrcNamed n end.
(* `new_table if item == current_table else item`: a comparison, sub-queries and named queries never compare equal *)
Definition cmp_src (x : source) : source :=
  match x with SrcTable t => SrcTable (sw_tbl t) | _ => x end.
(* compared with ==, and a sub-query (a Term) is entered through its own replace_table *)
Definition enter_src (x : source) : source :=
  match x with SrcTable t => SrcTable (sw_tbl t) | SrcSub q al => SrcSub (rep_q q) al | SrcNamed n => SrcNamed n end.
Definition src_total (m : srcmode) (x : source) : source :=
  match m with MCmpEnter => enter_src x | _ => cmp_src x end.
Definition occ_src (x : source) : bool :=
  match x with SrcTable t => hit t | SrcSub q _ => occ_q q | SrcNamed _ => false end.
(* a source is handled completely by the comparison iff it is a table, or A does not occur in it *)
Definition cov_src (x : source) : bool := match x with SrcTable _ => true | _ => negb (occ_src x) end.
Definition cov_src_m (m : srcmode) (x : source) : bool :=
  match m with
  | MCmpEnter => match x with SrcSub q _ => cov_q q | _ => true end
  | _ => cov_src x
  end.

Definition subst_join (j : qjoin) : qjoin :=
  match j with
  | JCross i => JCross (subst_src i)
  | JOn h i c => JOn h (subst_src i) (subst_wt c)
  | JUsing h i fs => JUsing h (subst_src i) (map subst fs)
  end.
(* Join.replace_table either CALLS item.replace_table (join_item_by_call: a sub-query has it, Table / AliasedQuery answer any
   attribute with a Field (Selectable.__getattr__) and calling that raises TypeError) or compares the item like JoinOn does *)
Definition rep_join (j : qjoin) : res qjoin :=
  match j with
  | JCross i =>
      if vis KJoin S_item then
        match c_src_mode cf KJoin with
        | MCall =>
          (* self.item = self.item.replace_table(..): a sub-query has the method, Table / AliasedQuery raise *)
          match i with
          | SrcSub q al => Ok (JCross (SrcSub (rep_q q) al))
          | _ => if c_item_ok cf then Ok (JCross (cmp_src i)) else Err "TypeError"
          end
        | m => Ok (JCross (src_total m i))
        end
      else Ok j
  | JOn h i c => Ok (JOn h (ifv (vis KJoinOn S_item) (src_total (c_src_mode cf KJoinOn)) i) (ifv (vis KJoinOn S_criterion) rep_wt c))
  | JUsing h i fs =>
      Ok (JUsing h (ifv (vis KJoinUsing S_item) (src_total (c_src_mode cf KJoinUsing)) i) (ifv (vis KJoinUsing S_fields) (map rep) fs))
  end.
Definition occ_join (j : qjoin) : bool :=
  match j with
  | JCross i => occ_src i
  | JOn _ i c => occ_src i || occ_wt c
  | JUsing _ i fs => occ_src i || occs fs
  end.
Definition cov_join (j : qjoin) : bool :=
  match j with
  | JCross i =>
      if vis KJoin S_item then
        match c_src_mode cf KJoin with
        | MCall => match i with SrcSub q _ => cov_q q | _ => c_item_ok cf end
        | m => cov_src_m m i
        end
      else negb (occ_src i)
  | JOn _ i c => cov1 (vis KJoinOn S_item) (cov_src_m (c_src_mode cf KJoinOn) i) (occ_src i)
                 && cov1 (vis KJoinOn S_criterion) (cov_wt c) (occ_wt c)
  | JUsing _ i fs => cov1 (vis KJoinUsing S_item) (cov_src_m (c_src_mode cf KJoinUsing) i) (occ_src i)
                     && cov1 (vis KJoinUsing S_fields) (covs fs) (occs fs)
  end.

(* _select_star_tables: `if current in set: set.remove(current); set.add(new)` *)
Definition sw_star (l : list tref) : list tref :=
  if existsb hit l then set_add tref_eqb B (filter (fun t => negb (hit t)) l) else l.

Definition subst_otbl (o : option tref) := option_map sw_tbl o.
Definition subst_ow (o : option wterm) := option_map subst_wt o.
Definition rep_ow (o : option wterm) := option_map rep_wt o.
Definition occ_ow (o : option wterm) : bool := match o with Some w => occ_wt w | None => false end.
Definition cov_ow (o : option wterm) : bool := match o with Some w => cov_wt w | None => true end.
Definition occ_ws (l : list wterm) : bool := existsb occ_wt l.
Definition cov_ws (l : list wterm) : bool := forallb cov_wt l.

Definition subst_stmt (s : stmt) : stmt :=
  {| s_kind := s_kind s;
     s_from := map subst_src (s_from s); s_insert := subst_otbl (s_insert s); s_update := subst_otbl (s_update s);
     s_with := map (fun p => (fst p, subst_q (snd p))) (s_with s);
     s_selects := map subst_wt (s_selects s); s_columns := map subst (s_columns s);
     s_values := map (map subst_wt) (s_values s);
     s_wheres := subst_ow (s_wheres s); s_prewheres := subst_ow (s_prewheres s);
     s_groupbys := map subst_wt (s_groupbys s); s_havings := subst_ow (s_havings s);
     s_orderbys := map (fun p => (subst_wt (fst p), snd p)) (s_orderbys s);
     s_joins := map subst_join (s_joins s);
     s_updates := map (fun p => (subst (fst p), subst_wt (snd p))) (s_updates s);
     s_star := sw_star (s_star s);
     s_limit_by := map subst_wt (s_limit_by s);
     s_distinct_on := map subst_wt (s_distinct_on s);
     s_returns := map subst_wt (s_returns s);
     s_using := map sw_tbl (s_using s);
     s_dup_updates := map (fun p => (subst (fst p), subst_wt (snd p))) (s_dup_updates s) |}.

Definition rep_withs (s : stmt) : res (list (string * squery)) :=
  if vis (skind s) S__with
  then if c_with_by_call cf
       then (* alias_query.replace_table(..) on an AliasedQuery, which has no such method *)
            match s_with s with
            | [] => Ok []
            | w => if c_with_ok cf then Ok (map (fun p => (fst p, rep_q (snd p))) w) else Err "TypeError"
            end
       else (* AliasedQuery(name, query.replace_table(..)) *)
            Ok (map (fun p => (fst p, rep_q (snd p))) (s_with s))
  else Ok (s_with s).
Definition rep_joins (s : stmt) : res (list qjoin) :=
  if vis (skind s) S__joins then mapM rep_join (s_joins s) else Ok (s_joins s).
Definition rep_stmt_core (s : stmt) (withs : list (string * squery)) (joins : list qjoin) : stmt :=
  let k := skind s in
  {| s_kind := s_kind s;
     s_from := ifv (vis k S__from) (map (src_total (c_src_mode cf KQuery))) (s_from s);
     s_insert := ifv (vis k S__insert_table) subst_otbl (s_insert s);
     s_update := ifv (vis k S__update_table) subst_otbl (s_update s);
     s_with := withs;
     s_selects := ifv (vis k S__selects) (map rep_wt) (s_selects s);
     s_columns := ifv (vis k S__columns) (map rep) (s_columns s);
     s_values := ifv (vis k S__values) (map (map rep_wt)) (s_values s);
     s_wheres := ifv (vis k S__wheres) rep_ow (s_wheres s);
     s_prewheres := ifv (vis k S__prewheres) rep_ow (s_prewheres s);
     s_groupbys := ifv (vis k S__groupbys) (map rep_wt) (s_groupbys s);
     s_havings := ifv (vis k S__havings) rep_ow (s_havings s);
     s_orderbys := ifv (vis k S__orderbys) (map (fun p => (rep_wt (fst p), snd p))) (s_orderbys s);
     s_joins := joins;
     (* QueryBuilder.set() wraps every value in a ValueWrapper, whose own replace_table decides about the payload *)
     s_updates := ifv (vis k S__updates) (map (fun p => (rep (fst p), ifv (vis KValue S_value) rep_wt (snd p)))) (s_updates s);
     s_star := ifv (vis k S__select_star_tables) sw_star (s_star s);
     s_limit_by := ifv (vis k S__limit_by) (map rep_wt) (s_limit_by s);
     s_distinct_on := ifv (vis k S__distinct_on) (map rep_wt) (s_distinct_on s);
     s_returns := ifv (vis k S__returns) (map rep_wt) (s_returns s);
     s_using := ifv (vis k S__using) (map sw_tbl) (s_using s);
     s_dup_updates := ifv (vis k S__duplicate_updates)
                          (map (fun p => (rep (fst p), ifv (vis KValue S_value) rep_wt (snd p)))) (s_dup_updates s) |}.
(* QueryBuilder.replace_table: _with first, _joins later; either may raise *)
Definition rep_stmt (s : stmt) : res stmt :=
  match rep_withs s with
  | Err e => Err e
  | Ok withs => match rep_joins s with Err e => Err e | Ok joins => Ok (rep_stmt_core s withs joins) end
  end.

Definition cov_stmt (s : stmt) : bool :=
  let k := skind s in
  cov1 (vis k S__from) (forallb (cov_src_m (c_src_mode cf KQuery)) (s_from s)) (existsb occ_src (s_from s))
  && cov1 (vis k S__insert_table) true (occ_otbl A (s_insert s))
  && cov1 (vis k S__update_table) true (occ_otbl A (s_update s))
  && (if vis k S__with
      then if c_with_by_call cf then match s_with s with [] => true | _ => false end
           else forallb (fun p => cov_q (snd p)) (s_with s)
      else negb (existsb (fun p => occ_q (snd p)) (s_with s)))
  && cov1 (vis k S__selects) (cov_ws (s_selects s)) (occ_ws (s_selects s))
  && cov1 (vis k S__columns) (covs (s_columns s)) (occs (s_columns s))
  && cov1 (vis k S__values) (forallb cov_ws (s_values s)) (existsb occ_ws (s_values s))
  && cov1 (vis k S__wheres) (cov_ow (s_wheres s)) (occ_ow (s_wheres s))
  && cov1 (vis k S__prewheres) (cov_ow (s_prewheres s)) (occ_ow (s_prewheres s))
  && cov1 (vis k S__groupbys) (cov_ws (s_groupbys s)) (occ_ws (s_groupbys s))
  && cov1 (vis k S__havings) (cov_ow (s_havings s)) (occ_ow (s_havings s))
  && cov1 (vis k S__orderbys) (forallb (fun p => cov_wt (fst p)) (s_orderbys s)) (existsb (fun p => occ_wt (fst p)) (s_orderbys s))
  && (if vis k S__joins then forallb cov_join (s_joins s) else negb (existsb occ_join (s_joins s)))
  && cov1 (vis k S__updates)
          (forallb (fun p => covered (fst p) && cov1 (vis KValue S_value) (cov_wt (snd p)) (occ_wt (snd p))) (s_updates s))
          (existsb (fun p => occ (fst p) || occ_wt (snd p)) (s_updates s))
  && cov1 (vis k S__select_star_tables) true (existsb hit (s_star s))
  && cov1 (vis k S__limit_by) (cov_ws (s_limit_by s)) (occ_ws (s_limit_by s))
  && cov1 (vis k S__distinct_on) (cov_ws (s_distinct_on s)) (occ_ws (s_distinct_on s))
  && cov1 (vis k S__returns) (cov_ws (s_returns s)) (occ_ws (s_returns s))
  && cov1 (vis k S__using) true (existsb hit (s_using s))
  && cov1 (vis k S__duplicate_updates)
          (forallb (fun p => covered (fst p) && cov1 (vis KValue S_value) (cov_wt (snd p)) (occ_wt (snd p))) (s_dup_updates s))
          (existsb (fun p => occ (fst p) || occ_wt (snd p)) (s_dup_updates s)).

End RTW.

(* ------------------------------------------------------------------------------------------ *)
(* the completely visited configuration                                                        *)
(* ------------------------------------------------------------------------------------------ *)
Section SF.
Variable A : tref.
Definition sfs (l : list term) : bool := forallb (sub_foreign A) l.
Definition sf_ot (o : option term) : bool := match o with Some t => sub_foreign A t | None => true end.
Definition sf_q (q : squery) : bool := sfs (sq_selects q) && sf_ot (sq_where q).
Definition sf_wt (w : wterm) : bool :=
  match w with
  | WT t => sub_foreign A t
  | WAgg _ a f _ => sfs a && sfs f
  | WAnalytic _ a f p o _ => sfs a && sfs f && sfs p && forallb (fun x => sub_foreign A (fst x)) o
  | WExtract _ f _ => sub_foreign A f
  | WPeriod t lo hi _ => sub_foreign A t && sub_foreign A lo && sub_foreign A hi
  | WNested _ _ l r n _ => sub_foreign A l && sub_foreign A r && sub_foreign A n
  | WSubq q _ => sf_q q
  | WInSub t q _ _ => sub_foreign A t && sf_q q
  | WCmpSub _ l q _ => sub_foreign A l && sf_q q
  | WExists q => sf_q q
  | WValue t _ => sub_foreign A t
  | WAtTz f _ _ => sub_foreign A f
  end.
Definition sf_ws (l : list wterm) : bool := forallb sf_wt l.
Definition sf_ow (o : option wterm) : bool := match o with Some w => sf_wt w | None => true end.
Definition sf_src (x : source) : bool := match x with SrcSub q _ => sf_q q | _ => true end.
Definition sf_join (j : qjoin) : bool :=
  match j with
  | JCross i => sf_src i
  | JOn _ i c => sf_src i && sf_wt c
  | JUsing _ i fs => sf_src i && sfs fs
  end.
Definition sf_stmt (s : stmt) : bool :=
  forallb sf_src (s_from s) && forallb (fun p => sf_q (snd p)) (s_with s) && sf_ws (s_selects s) && sfs (s_columns s)
  && forallb sf_ws (s_values s) && sf_ow (s_wheres s) && sf_ow (s_prewheres s) && sf_ws (s_groupbys s) && sf_ow (s_havings s)
  && forallb (fun p => sf_wt (fst p)) (s_orderbys s) && forallb sf_join (s_joins s)
  && forallb (fun p => sub_foreign A (fst p) && sf_wt (snd p)) (s_updates s) && sf_ws (s_limit_by s)
  && sf_ws (s_distinct_on s) && sf_ws (s_returns s)
  && forallb (fun p => sub_foreign A (fst p) && sf_wt (snd p)) (s_dup_updates s).
End SF.

(* the (class, slot) pairs of the wrapper terms, sub-queries, joins and statements of the model *)
Definition wrapper_pairs : list (ctor * slot) :=
  [(KPeriod, S_term); (KPeriod, S_start); (KPeriod, S_end); (KNested, S_left); (KNested, S_right); (KNested, S_nested);
   (KAgg, S_args); (KAgg, S__filters); (KAnalytic, S_args); (KAnalytic, S__filters); (KAnalytic, S__partition);
   (KAnalytic, S__orderbys); (KExtract, S_field); (KExists, S_container); (KValue, S_value); (KAtTz, S_field);
   (KJoin, S_item); (KJoinOn, S_item); (KJoinOn, S_criterion); (KJoinUsing, S_item); (KJoinUsing, S_fields)].
Definition query_slots : list slot :=
  [S__from; S__insert_table; S__update_table; S__with; S__selects; S__columns; S__values; S__wheres; S__prewheres;
   S__groupbys; S__havings; S__orderbys; S__joins; S__updates; S__select_star_tables].
Definition kind_slots (k : qkind) : list slot :=
  query_slots ++ match k with
                 | QGeneric => []
                 | QClickHouse => [S__limit_by; S__distinct_on]
                 | QPostgres => [S__distinct_on; S__returns; S__using]
                 | QMySQL => [S__duplicate_updates]
                 end.
Definition is_enter (m : srcmode) : bool := match m with MCmpEnter => true | _ => false end.
(* every slot of every modelled class is entered; WITH bodies are rebuilt; FROM entries and join items are compared and,
   when they are sub-queries, entered *)
Definition full_cfg (cf : cfg) : bool :=
  term_slots_all_visited cf
  && forallb (fun p => cvis cf (fst p) (snd p)) wrapper_pairs
  && forallb (fun k => forallb (cvis cf (kctor k)) (kind_slots k)) [QGeneric; QClickHouse; QPostgres; QMySQL]
  && negb (c_with_by_call cf)
  && is_enter (c_src_mode cf KQuery) && is_enter (c_src_mode cf KJoin) && is_enter (c_src_mode cf KJoinOn)
  && is_enter (c_src_mode cf KJoinUsing).
