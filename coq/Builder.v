(* Builder.v -- value-level model of pypika's QueryBuilder clause slots and clause-adding methods
   (pypika/queries.py: QueryBuilder.__init__, from_, into, update, select, join/Joiner/do_join, where,
   prewhere, having, groupby, rollup, orderby, limit, offset, distinct, for_update, with_, force_index,
   use_index, set, columns, insert/replace, _validate_table, JoinOn.validate; dialects.py:
   MySQL/PostgreSQL for_update).  Definitions only.  Parametric in the term type.

   "value-level": a state holds the VALUE every slot of the copy returned by a @builder method ends up
   with; aliasing is not modelled (the harness uses a fresh object per use site). *)
From PV Require Import Base.
From Coq Require Import ZArith.
Local Open Scope Z_scope.
Local Open Scope list_scope.

(* ---- selectables that can stand in FROM / JOIN / a field's table -------------------------- *)
Inductive tbl :=
| Tab (name : string) (alias : option string)      (* Table(name) [.as_(alias)], no schema *)
| Wq (name : string)                               (* AliasedQuery(name) *)
| Sub (alias : option string) (id : string).       (* a QueryBuilder used as sub-query; id is opaque *)

Definition ostr_eqb : option string -> option string -> bool := option_eqb String.eqb.

(* Table.__eq__ (name, alias), AliasedQuery.__eq__ (name), QueryBuilder.__eq__ (alias only) *)
Definition tbl_eqb (a b : tbl) : bool :=
  match a, b with
  | Tab n x, Tab m y => String.eqb n m && ostr_eqb x y
  | Wq n, Wq m => String.eqb n m
  | Sub x _, Sub y _ => ostr_eqb x y
  | _, _ => false
  end.
(* values of [field.table] / elements of base_tables: None is Python's None *)
Definition otbl_eqb : option tbl -> option tbl -> bool := option_eqb tbl_eqb.

Fixpoint omem (x : option tbl) (l : list (option tbl)) : bool :=
  match l with [] => false | y :: r => otbl_eqb x y || omem x r end.

Fixpoint smem_str (x : string) (l : list string) : bool :=
  match l with [] => false | y :: r => String.eqb x y || smem_str x r end.
(* list(dict.fromkeys(l)) *)
Fixpoint dedup_from (seen l : list string) : list string :=
  match l with
  | [] => []
  | x :: r => if smem_str x seen then dedup_from seen r else x :: dedup_from (x :: seen) r
  end.
Definition dedup := dedup_from [].

Definition is_nil {A} (l : list A) : bool := match l with [] => true | _ => false end.

(* error monad *)
Definition bind {A B} (x : res A) (f : A -> res B) : res B :=
  match x with Ok a => f a | Err e => Err e end.

(* ---- clause kinds ------------------------------------------------------------------------- *)
Inductive kind :=
| KFrom | KInto | KUpdate                      (* fix the statement's target: not part of the shuffled calls *)
| KSelect | KJoin | KWhere | KPrewhere | KGroupby | KHaving | KOrderby | KLimit | KOffset | KDistinct
| KForUpdate | KWith | KForceIndex | KUseIndex | KSet | KColumns | KInsert
(* dialect-specific clause calls: Vertica hint, MySQL modifier, ClickHouse final / sample / limit_by, PostgreSQL and
   ClickHouse distinct_on *)
| KHint | KModifier | KFinal | KSample | KLimitBy | KDistinctOn
| KTop.                                          (* MSSQL top(value, percent, with_ties) *)

Definition kind_eqb (a b : kind) : bool :=
  match a, b with
  | KFrom, KFrom | KInto, KInto | KUpdate, KUpdate | KSelect, KSelect | KJoin, KJoin | KWhere, KWhere
  | KPrewhere, KPrewhere | KGroupby, KGroupby | KHaving, KHaving | KOrderby, KOrderby | KLimit, KLimit
  | KOffset, KOffset | KDistinct, KDistinct | KForUpdate, KForUpdate | KWith, KWith
  | KForceIndex, KForceIndex | KUseIndex, KUseIndex | KSet, KSet | KColumns, KColumns | KInsert, KInsert
  | KHint, KHint | KModifier, KModifier | KFinal, KFinal | KSample, KSample | KLimitBy, KLimitBy
  | KDistinctOn, KDistinctOn | KTop, KTop => true
  | _, _ => false
  end.
Definition all_kinds : list kind :=
  [KFrom; KInto; KUpdate; KSelect; KJoin; KWhere; KPrewhere; KGroupby; KHaving; KOrderby; KLimit; KOffset;
   KDistinct; KForUpdate; KWith; KForceIndex; KUseIndex; KSet; KColumns; KInsert;
   KHint; KModifier; KFinal; KSample; KLimitBy; KDistinctOn; KTop].
(* the clause-adding kinds of the property *)
Definition commuting (k : kind) : bool :=
  match k with KFrom | KInto | KUpdate => false | _ => true end.

Section Builder.
Variable term : Type.
(* observations on / constructors of terms; the theorems hold for ANY choice of them *)
Variable fields_tables : term -> list (option tbl).   (* [f.table for f in t.fields_()]  (a set keyed by text) *)
Variable find_tables : term -> list (option tbl).     (* [f.table for f in t.find_(Field)]  (JoinOn.validate) *)
Variable and_ : term -> term -> term.                 (* a & b  (the effect of  slot &= criterion) *)
Variable is_empty : term -> bool.                     (* isinstance(t, EmptyCriterion) *)
Variable field_of : string -> option tbl -> term.     (* Field(name, table=t) *)
Variable wrap_int : Z -> term.                        (* Field(..).wrap_constant(i) = ValueWrapper(i) *)
Variable star : term.                                 (* Star() *)
Variable is_star : term -> bool.                      (* isinstance(t, Star) *)
Variable sel_table : term -> option (option tbl).     (* Some t.table when hasattr(t, "table") *)
Variable mk_rollup : list term -> term.               (* Rollup( *terms) *)
Variable rollup_args : term -> option (list term).    (* t.args when isinstance(t, Rollup) *)

(* Join / JoinOn / JoinUsing objects stored in _joins *)
Inductive join :=
| JOn (item : tbl) (how : string) (crit : term) (collate : option string)
| JUsing (item : tbl) (how : string) (fields : list string)
| JCross (item : tbl).
Definition join_item (j : join) : tbl :=
  match j with JOn i _ _ _ => i | JUsing i _ _ => i | JCross i => i end.

Record qstate := mkq {
  q_from : list tbl;
  q_insert_table : option tbl;
  q_update_table : option tbl;
  q_with : list (string * term);
  q_selects : list term;
  q_select_star : bool;
  q_select_star_tables : list (option tbl);
  q_joins : list join;
  q_wheres : option term;
  q_prewheres : option term;
  q_havings : option term;
  q_groupbys : list term;
  q_orderbys : list (term * option string);
  q_limit : option Z;
  q_offset : option Z;
  q_distinct : bool;
  q_for_update : bool;
  q_for_update_nowait : bool;
  q_for_update_skip_locked : bool;
  q_for_update_of : list string;
  q_force_indexes : list string;
  q_use_indexes : list string;
  q_updates : list (term * term);
  q_columns : list term;
  q_values : list (list term);
  q_replace : bool;
  q_select_into : bool;
  q_subquery_count : Z;
  q_foreign_table : bool;
  q_mysql_rollup : bool;
  q_hint : option string;
  q_modifiers : list string;
  q_final : bool;
  q_sample : option Z;
  q_sample_offset : option Z;
  q_limit_by : option (Z * Z * list term);
  q_distinct_on : list term;
  q_insert_or_replace : bool;
  q_top : option Z;
  q_top_percent : bool;
  q_top_with_ties : bool
}.

Definition set_from (v : list tbl) (s : qstate) : qstate :=
  {| q_from := v; q_insert_table := q_insert_table s; q_update_table := q_update_table s; q_with := q_with s; q_selects := q_selects s; q_select_star := q_select_star s; q_select_star_tables := q_select_star_tables s; q_joins := q_joins s; q_wheres := q_wheres s; q_prewheres := q_prewheres s; q_havings := q_havings s; q_groupbys := q_groupbys s; q_orderbys := q_orderbys s; q_limit := q_limit s; q_offset := q_offset s; q_distinct := q_distinct s; q_for_update := q_for_update s; q_for_update_nowait := q_for_update_nowait s; q_for_update_skip_locked := q_for_update_skip_locked s; q_for_update_of := q_for_update_of s; q_force_indexes := q_force_indexes s; q_use_indexes := q_use_indexes s; q_updates := q_updates s; q_columns := q_columns s; q_values := q_values s; q_replace := q_replace s; q_select_into := q_select_into s; q_subquery_count := q_subquery_count s; q_foreign_table := q_foreign_table s; q_mysql_rollup := q_mysql_rollup s; q_hint := q_hint s; q_modifiers := q_modifiers s; q_final := q_final s; q_sample := q_sample s; q_sample_offset := q_sample_offset s; q_limit_by := q_limit_by s; q_distinct_on := q_distinct_on s; q_insert_or_replace := q_insert_or_replace s; q_top := q_top s; q_top_percent := q_top_percent s; q_top_with_ties := q_top_with_ties s |}.
Definition set_insert_table (v : option tbl) (s : qstate) : qstate :=
  {| q_from := q_from s; q_insert_table := v; q_update_table := q_update_table s; q_with := q_with s; q_selects := q_selects s; q_select_star := q_select_star s; q_select_star_tables := q_select_star_tables s; q_joins := q_joins s; q_wheres := q_wheres s; q_prewheres := q_prewheres s; q_havings := q_havings s; q_groupbys := q_groupbys s; q_orderbys := q_orderbys s; q_limit := q_limit s; q_offset := q_offset s; q_distinct := q_distinct s; q_for_update := q_for_update s; q_for_update_nowait := q_for_update_nowait s; q_for_update_skip_locked := q_for_update_skip_locked s; q_for_update_of := q_for_update_of s; q_force_indexes := q_force_indexes s; q_use_indexes := q_use_indexes s; q_updates := q_updates s; q_columns := q_columns s; q_values := q_values s; q_replace := q_replace s; q_select_into := q_select_into s; q_subquery_count := q_subquery_count s; q_foreign_table := q_foreign_table s; q_mysql_rollup := q_mysql_rollup s; q_hint := q_hint s; q_modifiers := q_modifiers s; q_final := q_final s; q_sample := q_sample s; q_sample_offset := q_sample_offset s; q_limit_by := q_limit_by s; q_distinct_on := q_distinct_on s; q_insert_or_replace := q_insert_or_replace s; q_top := q_top s; q_top_percent := q_top_percent s; q_top_with_ties := q_top_with_ties s |}.
Definition set_update_table (v : option tbl) (s : qstate) : qstate :=
  {| q_from := q_from s; q_insert_table := q_insert_table s; q_update_table := v; q_with := q_with s; q_selects := q_selects s; q_select_star := q_select_star s; q_select_star_tables := q_select_star_tables s; q_joins := q_joins s; q_wheres := q_wheres s; q_prewheres := q_prewheres s; q_havings := q_havings s; q_groupbys := q_groupbys s; q_orderbys := q_orderbys s; q_limit := q_limit s; q_offset := q_offset s; q_distinct := q_distinct s; q_for_update := q_for_update s; q_for_update_nowait := q_for_update_nowait s; q_for_update_skip_locked := q_for_update_skip_locked s; q_for_update_of := q_for_update_of s; q_force_indexes := q_force_indexes s; q_use_indexes := q_use_indexes s; q_updates := q_updates s; q_columns := q_columns s; q_values := q_values s; q_replace := q_replace s; q_select_into := q_select_into s; q_subquery_count := q_subquery_count s; q_foreign_table := q_foreign_table s; q_mysql_rollup := q_mysql_rollup s; q_hint := q_hint s; q_modifiers := q_modifiers s; q_final := q_final s; q_sample := q_sample s; q_sample_offset := q_sample_offset s; q_limit_by := q_limit_by s; q_distinct_on := q_distinct_on s; q_insert_or_replace := q_insert_or_replace s; q_top := q_top s; q_top_percent := q_top_percent s; q_top_with_ties := q_top_with_ties s |}.
Definition set_with (v : list (string * term)) (s : qstate) : qstate :=
  {| q_from := q_from s; q_insert_table := q_insert_table s; q_update_table := q_update_table s; q_with := v; q_selects := q_selects s; q_select_star := q_select_star s; q_select_star_tables := q_select_star_tables s; q_joins := q_joins s; q_wheres := q_wheres s; q_prewheres := q_prewheres s; q_havings := q_havings s; q_groupbys := q_groupbys s; q_orderbys := q_orderbys s; q_limit := q_limit s; q_offset := q_offset s; q_distinct := q_distinct s; q_for_update := q_for_update s; q_for_update_nowait := q_for_update_nowait s; q_for_update_skip_locked := q_for_update_skip_locked s; q_for_update_of := q_for_update_of s; q_force_indexes := q_force_indexes s; q_use_indexes := q_use_indexes s; q_updates := q_updates s; q_columns := q_columns s; q_values := q_values s; q_replace := q_replace s; q_select_into := q_select_into s; q_subquery_count := q_subquery_count s; q_foreign_table := q_foreign_table s; q_mysql_rollup := q_mysql_rollup s; q_hint := q_hint s; q_modifiers := q_modifiers s; q_final := q_final s; q_sample := q_sample s; q_sample_offset := q_sample_offset s; q_limit_by := q_limit_by s; q_distinct_on := q_distinct_on s; q_insert_or_replace := q_insert_or_replace s; q_top := q_top s; q_top_percent := q_top_percent s; q_top_with_ties := q_top_with_ties s |}.
Definition set_selects (v : list term) (s : qstate) : qstate :=
  {| q_from := q_from s; q_insert_table := q_insert_table s; q_update_table := q_update_table s; q_with := q_with s; q_selects := v; q_select_star := q_select_star s; q_select_star_tables := q_select_star_tables s; q_joins := q_joins s; q_wheres := q_wheres s; q_prewheres := q_prewheres s; q_havings := q_havings s; q_groupbys := q_groupbys s; q_orderbys := q_orderbys s; q_limit := q_limit s; q_offset := q_offset s; q_distinct := q_distinct s; q_for_update := q_for_update s; q_for_update_nowait := q_for_update_nowait s; q_for_update_skip_locked := q_for_update_skip_locked s; q_for_update_of := q_for_update_of s; q_force_indexes := q_force_indexes s; q_use_indexes := q_use_indexes s; q_updates := q_updates s; q_columns := q_columns s; q_values := q_values s; q_replace := q_replace s; q_select_into := q_select_into s; q_subquery_count := q_subquery_count s; q_foreign_table := q_foreign_table s; q_mysql_rollup := q_mysql_rollup s; q_hint := q_hint s; q_modifiers := q_modifiers s; q_final := q_final s; q_sample := q_sample s; q_sample_offset := q_sample_offset s; q_limit_by := q_limit_by s; q_distinct_on := q_distinct_on s; q_insert_or_replace := q_insert_or_replace s; q_top := q_top s; q_top_percent := q_top_percent s; q_top_with_ties := q_top_with_ties s |}.
Definition set_select_star (v : bool) (s : qstate) : qstate :=
  {| q_from := q_from s; q_insert_table := q_insert_table s; q_update_table := q_update_table s; q_with := q_with s; q_selects := q_selects s; q_select_star := v; q_select_star_tables := q_select_star_tables s; q_joins := q_joins s; q_wheres := q_wheres s; q_prewheres := q_prewheres s; q_havings := q_havings s; q_groupbys := q_groupbys s; q_orderbys := q_orderbys s; q_limit := q_limit s; q_offset := q_offset s; q_distinct := q_distinct s; q_for_update := q_for_update s; q_for_update_nowait := q_for_update_nowait s; q_for_update_skip_locked := q_for_update_skip_locked s; q_for_update_of := q_for_update_of s; q_force_indexes := q_force_indexes s; q_use_indexes := q_use_indexes s; q_updates := q_updates s; q_columns := q_columns s; q_values := q_values s; q_replace := q_replace s; q_select_into := q_select_into s; q_subquery_count := q_subquery_count s; q_foreign_table := q_foreign_table s; q_mysql_rollup := q_mysql_rollup s; q_hint := q_hint s; q_modifiers := q_modifiers s; q_final := q_final s; q_sample := q_sample s; q_sample_offset := q_sample_offset s; q_limit_by := q_limit_by s; q_distinct_on := q_distinct_on s; q_insert_or_replace := q_insert_or_replace s; q_top := q_top s; q_top_percent := q_top_percent s; q_top_with_ties := q_top_with_ties s |}.
Definition set_select_star_tables (v : list (option tbl)) (s : qstate) : qstate :=
  {| q_from := q_from s; q_insert_table := q_insert_table s; q_update_table := q_update_table s; q_with := q_with s; q_selects := q_selects s; q_select_star := q_select_star s; q_select_star_tables := v; q_joins := q_joins s; q_wheres := q_wheres s; q_prewheres := q_prewheres s; q_havings := q_havings s; q_groupbys := q_groupbys s; q_orderbys := q_orderbys s; q_limit := q_limit s; q_offset := q_offset s; q_distinct := q_distinct s; q_for_update := q_for_update s; q_for_update_nowait := q_for_update_nowait s; q_for_update_skip_locked := q_for_update_skip_locked s; q_for_update_of := q_for_update_of s; q_force_indexes := q_force_indexes s; q_use_indexes := q_use_indexes s; q_updates := q_updates s; q_columns := q_columns s; q_values := q_values s; q_replace := q_replace s; q_select_into := q_select_into s; q_subquery_count := q_subquery_count s; q_foreign_table := q_foreign_table s; q_mysql_rollup := q_mysql_rollup s; q_hint := q_hint s; q_modifiers := q_modifiers s; q_final := q_final s; q_sample := q_sample s; q_sample_offset := q_sample_offset s; q_limit_by := q_limit_by s; q_distinct_on := q_distinct_on s; q_insert_or_replace := q_insert_or_replace s; q_top := q_top s; q_top_percent := q_top_percent s; q_top_with_ties := q_top_with_ties s |}.
Definition set_joins (v : list join) (s : qstate) : qstate :=
  {| q_from := q_from s; q_insert_table := q_insert_table s; q_update_table := q_update_table s; q_with := q_with s; q_selects := q_selects s; q_select_star := q_select_star s; q_select_star_tables := q_select_star_tables s; q_joins := v; q_wheres := q_wheres s; q_prewheres := q_prewheres s; q_havings := q_havings s; q_groupbys := q_groupbys s; q_orderbys := q_orderbys s; q_limit := q_limit s; q_offset := q_offset s; q_distinct := q_distinct s; q_for_update := q_for_update s; q_for_update_nowait := q_for_update_nowait s; q_for_update_skip_locked := q_for_update_skip_locked s; q_for_update_of := q_for_update_of s; q_force_indexes := q_force_indexes s; q_use_indexes := q_use_indexes s; q_updates := q_updates s; q_columns := q_columns s; q_values := q_values s; q_replace := q_replace s; q_select_into := q_select_into s; q_subquery_count := q_subquery_count s; q_foreign_table := q_foreign_table s; q_mysql_rollup := q_mysql_rollup s; q_hint := q_hint s; q_modifiers := q_modifiers s; q_final := q_final s; q_sample := q_sample s; q_sample_offset := q_sample_offset s; q_limit_by := q_limit_by s; q_distinct_on := q_distinct_on s; q_insert_or_replace := q_insert_or_replace s; q_top := q_top s; q_top_percent := q_top_percent s; q_top_with_ties := q_top_with_ties s |}.
Definition set_wheres (v : option term) (s : qstate) : qstate :=
  {| q_from := q_from s; q_insert_table := q_insert_table s; q_update_table := q_update_table s; q_with := q_with s; q_selects := q_selects s; q_select_star := q_select_star s; q_select_star_tables := q_select_star_tables s; q_joins := q_joins s; q_wheres := v; q_prewheres := q_prewheres s; q_havings := q_havings s; q_groupbys := q_groupbys s; q_orderbys := q_orderbys s; q_limit := q_limit s; q_offset := q_offset s; q_distinct := q_distinct s; q_for_update := q_for_update s; q_for_update_nowait := q_for_update_nowait s; q_for_update_skip_locked := q_for_update_skip_locked s; q_for_update_of := q_for_update_of s; q_force_indexes := q_force_indexes s; q_use_indexes := q_use_indexes s; q_updates := q_updates s; q_columns := q_columns s; q_values := q_values s; q_replace := q_replace s; q_select_into := q_select_into s; q_subquery_count := q_subquery_count s; q_foreign_table := q_foreign_table s; q_mysql_rollup := q_mysql_rollup s; q_hint := q_hint s; q_modifiers := q_modifiers s; q_final := q_final s; q_sample := q_sample s; q_sample_offset := q_sample_offset s; q_limit_by := q_limit_by s; q_distinct_on := q_distinct_on s; q_insert_or_replace := q_insert_or_replace s; q_top := q_top s; q_top_percent := q_top_percent s; q_top_with_ties := q_top_with_ties s |}.
Definition set_prewheres (v : option term) (s : qstate) : qstate :=
  {| q_from := q_from s; q_insert_table := q_insert_table s; q_update_table := q_update_table s; q_with := q_with s; q_selects := q_selects s; q_select_star := q_select_star s; q_select_star_tables := q_select_star_tables s; q_joins := q_joins s; q_wheres := q_wheres s; q_prewheres := v; q_havings := q_havings s; q_groupbys := q_groupbys s; q_orderbys := q_orderbys s; q_limit := q_limit s; q_offset := q_offset s; q_distinct := q_distinct s; q_for_update := q_for_update s; q_for_update_nowait := q_for_update_nowait s; q_for_update_skip_locked := q_for_update_skip_locked s; q_for_update_of := q_for_update_of s; q_force_indexes := q_force_indexes s; q_use_indexes := q_use_indexes s; q_updates := q_updates s; q_columns := q_columns s; q_values := q_values s; q_replace := q_replace s; q_select_into := q_select_into s; q_subquery_count := q_subquery_count s; q_foreign_table := q_foreign_table s; q_mysql_rollup := q_mysql_rollup s; q_hint := q_hint s; q_modifiers := q_modifiers s; q_final := q_final s; q_sample := q_sample s; q_sample_offset := q_sample_offset s; q_limit_by := q_limit_by s; q_distinct_on := q_distinct_on s; q_insert_or_replace := q_insert_or_replace s; q_top := q_top s; q_top_percent := q_top_percent s; q_top_with_ties := q_top_with_ties s |}.
Definition set_havings (v : option term) (s : qstate) : qstate :=
  {| q_from := q_from s; q_insert_table := q_insert_table s; q_update_table := q_update_table s; q_with := q_with s; q_selects := q_selects s; q_select_star := q_select_star s; q_select_star_tables := q_select_star_tables s; q_joins := q_joins s; q_wheres := q_wheres s; q_prewheres := q_prewheres s; q_havings := v; q_groupbys := q_groupbys s; q_orderbys := q_orderbys s; q_limit := q_limit s; q_offset := q_offset s; q_distinct := q_distinct s; q_for_update := q_for_update s; q_for_update_nowait := q_for_update_nowait s; q_for_update_skip_locked := q_for_update_skip_locked s; q_for_update_of := q_for_update_of s; q_force_indexes := q_force_indexes s; q_use_indexes := q_use_indexes s; q_updates := q_updates s; q_columns := q_columns s; q_values := q_values s; q_replace := q_replace s; q_select_into := q_select_into s; q_subquery_count := q_subquery_count s; q_foreign_table := q_foreign_table s; q_mysql_rollup := q_mysql_rollup s; q_hint := q_hint s; q_modifiers := q_modifiers s; q_final := q_final s; q_sample := q_sample s; q_sample_offset := q_sample_offset s; q_limit_by := q_limit_by s; q_distinct_on := q_distinct_on s; q_insert_or_replace := q_insert_or_replace s; q_top := q_top s; q_top_percent := q_top_percent s; q_top_with_ties := q_top_with_ties s |}.
Definition set_groupbys (v : list term) (s : qstate) : qstate :=
  {| q_from := q_from s; q_insert_table := q_insert_table s; q_update_table := q_update_table s; q_with := q_with s; q_selects := q_selects s; q_select_star := q_select_star s; q_select_star_tables := q_select_star_tables s; q_joins := q_joins s; q_wheres := q_wheres s; q_prewheres := q_prewheres s; q_havings := q_havings s; q_groupbys := v; q_orderbys := q_orderbys s; q_limit := q_limit s; q_offset := q_offset s; q_distinct := q_distinct s; q_for_update := q_for_update s; q_for_update_nowait := q_for_update_nowait s; q_for_update_skip_locked := q_for_update_skip_locked s; q_for_update_of := q_for_update_of s; q_force_indexes := q_force_indexes s; q_use_indexes := q_use_indexes s; q_updates := q_updates s; q_columns := q_columns s; q_values := q_values s; q_replace := q_replace s; q_select_into := q_select_into s; q_subquery_count := q_subquery_count s; q_foreign_table := q_foreign_table s; q_mysql_rollup := q_mysql_rollup s; q_hint := q_hint s; q_modifiers := q_modifiers s; q_final := q_final s; q_sample := q_sample s; q_sample_offset := q_sample_offset s; q_limit_by := q_limit_by s; q_distinct_on := q_distinct_on s; q_insert_or_replace := q_insert_or_replace s; q_top := q_top s; q_top_percent := q_top_percent s; q_top_with_ties := q_top_with_ties s |}.
Definition set_orderbys (v : list (term * option string)) (s : qstate) : qstate :=
  {| q_from := q_from s; q_insert_table := q_insert_table s; q_update_table := q_update_table s; q_with := q_with s; q_selects := q_selects s; q_select_star := q_select_star s; q_select_star_tables := q_select_star_tables s; q_joins := q_joins s; q_wheres := q_wheres s; q_prewheres := q_prewheres s; q_havings := q_havings s; q_groupbys := q_groupbys s; q_orderbys := v; q_limit := q_limit s; q_offset := q_offset s; q_distinct := q_distinct s; q_for_update := q_for_update s; q_for_update_nowait := q_for_update_nowait s; q_for_update_skip_locked := q_for_update_skip_locked s; q_for_update_of := q_for_update_of s; q_force_indexes := q_force_indexes s; q_use_indexes := q_use_indexes s; q_updates := q_updates s; q_columns := q_columns s; q_values := q_values s; q_replace := q_replace s; q_select_into := q_select_into s; q_subquery_count := q_subquery_count s; q_foreign_table := q_foreign_table s; q_mysql_rollup := q_mysql_rollup s; q_hint := q_hint s; q_modifiers := q_modifiers s; q_final := q_final s; q_sample := q_sample s; q_sample_offset := q_sample_offset s; q_limit_by := q_limit_by s; q_distinct_on := q_distinct_on s; q_insert_or_replace := q_insert_or_replace s; q_top := q_top s; q_top_percent := q_top_percent s; q_top_with_ties := q_top_with_ties s |}.
Definition set_limit (v : option Z) (s : qstate) : qstate :=
  {| q_from := q_from s; q_insert_table := q_insert_table s; q_update_table := q_update_table s; q_with := q_with s; q_selects := q_selects s; q_select_star := q_select_star s; q_select_star_tables := q_select_star_tables s; q_joins := q_joins s; q_wheres := q_wheres s; q_prewheres := q_prewheres s; q_havings := q_havings s; q_groupbys := q_groupbys s; q_orderbys := q_orderbys s; q_limit := v; q_offset := q_offset s; q_distinct := q_distinct s; q_for_update := q_for_update s; q_for_update_nowait := q_for_update_nowait s; q_for_update_skip_locked := q_for_update_skip_locked s; q_for_update_of := q_for_update_of s; q_force_indexes := q_force_indexes s; q_use_indexes := q_use_indexes s; q_updates := q_updates s; q_columns := q_columns s; q_values := q_values s; q_replace := q_replace s; q_select_into := q_select_into s; q_subquery_count := q_subquery_count s; q_foreign_table := q_foreign_table s; q_mysql_rollup := q_mysql_rollup s; q_hint := q_hint s; q_modifiers := q_modifiers s; q_final := q_final s; q_sample := q_sample s; q_sample_offset := q_sample_offset s; q_limit_by := q_limit_by s; q_distinct_on := q_distinct_on s; q_insert_or_replace := q_insert_or_replace s; q_top := q_top s; q_top_percent := q_top_percent s; q_top_with_ties := q_top_with_ties s |}.
Definition set_offset (v : option Z) (s : qstate) : qstate :=
  {| q_from := q_from s; q_insert_table := q_insert_table s; q_update_table := q_update_table s; q_with := q_with s; q_selects := q_selects s; q_select_star := q_select_star s; q_select_star_tables := q_select_star_tables s; q_joins := q_joins s; q_wheres := q_wheres s; q_prewheres := q_prewheres s; q_havings := q_havings s; q_groupbys := q_groupbys s; q_orderbys := q_orderbys s; q_limit := q_limit s; q_offset := v; q_distinct := q_distinct s; q_for_update := q_for_update s; q_for_update_nowait := q_for_update_nowait s; q_for_update_skip_locked := q_for_update_skip_locked s; q_for_update_of := q_for_update_of s; q_force_indexes := q_force_indexes s; q_use_indexes := q_use_indexes s; q_updates := q_updates s; q_columns := q_columns s; q_values := q_values s; q_replace := q_replace s; q_select_into := q_select_into s; q_subquery_count := q_subquery_count s; q_foreign_table := q_foreign_table s; q_mysql_rollup := q_mysql_rollup s; q_hint := q_hint s; q_modifiers := q_modifiers s; q_final := q_final s; q_sample := q_sample s; q_sample_offset := q_sample_offset s; q_limit_by := q_limit_by s; q_distinct_on := q_distinct_on s; q_insert_or_replace := q_insert_or_replace s; q_top := q_top s; q_top_percent := q_top_percent s; q_top_with_ties := q_top_with_ties s |}.
Definition set_distinct (v : bool) (s : qstate) : qstate :=
  {| q_from := q_from s; q_insert_table := q_insert_table s; q_update_table := q_update_table s; q_with := q_with s; q_selects := q_selects s; q_select_star := q_select_star s; q_select_star_tables := q_select_star_tables s; q_joins := q_joins s; q_wheres := q_wheres s; q_prewheres := q_prewheres s; q_havings := q_havings s; q_groupbys := q_groupbys s; q_orderbys := q_orderbys s; q_limit := q_limit s; q_offset := q_offset s; q_distinct := v; q_for_update := q_for_update s; q_for_update_nowait := q_for_update_nowait s; q_for_update_skip_locked := q_for_update_skip_locked s; q_for_update_of := q_for_update_of s; q_force_indexes := q_force_indexes s; q_use_indexes := q_use_indexes s; q_updates := q_updates s; q_columns := q_columns s; q_values := q_values s; q_replace := q_replace s; q_select_into := q_select_into s; q_subquery_count := q_subquery_count s; q_foreign_table := q_foreign_table s; q_mysql_rollup := q_mysql_rollup s; q_hint := q_hint s; q_modifiers := q_modifiers s; q_final := q_final s; q_sample := q_sample s; q_sample_offset := q_sample_offset s; q_limit_by := q_limit_by s; q_distinct_on := q_distinct_on s; q_insert_or_replace := q_insert_or_replace s; q_top := q_top s; q_top_percent := q_top_percent s; q_top_with_ties := q_top_with_ties s |}.
Definition set_for_update (v : bool) (s : qstate) : qstate :=
  {| q_from := q_from s; q_insert_table := q_insert_table s; q_update_table := q_update_table s; q_with := q_with s; q_selects := q_selects s; q_select_star := q_select_star s; q_select_star_tables := q_select_star_tables s; q_joins := q_joins s; q_wheres := q_wheres s; q_prewheres := q_prewheres s; q_havings := q_havings s; q_groupbys := q_groupbys s; q_orderbys := q_orderbys s; q_limit := q_limit s; q_offset := q_offset s; q_distinct := q_distinct s; q_for_update := v; q_for_update_nowait := q_for_update_nowait s; q_for_update_skip_locked := q_for_update_skip_locked s; q_for_update_of := q_for_update_of s; q_force_indexes := q_force_indexes s; q_use_indexes := q_use_indexes s; q_updates := q_updates s; q_columns := q_columns s; q_values := q_values s; q_replace := q_replace s; q_select_into := q_select_into s; q_subquery_count := q_subquery_count s; q_foreign_table := q_foreign_table s; q_mysql_rollup := q_mysql_rollup s; q_hint := q_hint s; q_modifiers := q_modifiers s; q_final := q_final s; q_sample := q_sample s; q_sample_offset := q_sample_offset s; q_limit_by := q_limit_by s; q_distinct_on := q_distinct_on s; q_insert_or_replace := q_insert_or_replace s; q_top := q_top s; q_top_percent := q_top_percent s; q_top_with_ties := q_top_with_ties s |}.
Definition set_for_update_nowait (v : bool) (s : qstate) : qstate :=
  {| q_from := q_from s; q_insert_table := q_insert_table s; q_update_table := q_update_table s; q_with := q_with s; q_selects := q_selects s; q_select_star := q_select_star s; q_select_star_tables := q_select_star_tables s; q_joins := q_joins s; q_wheres := q_wheres s; q_prewheres := q_prewheres s; q_havings := q_havings s; q_groupbys := q_groupbys s; q_orderbys := q_orderbys s; q_limit := q_limit s; q_offset := q_offset s; q_distinct := q_distinct s; q_for_update := q_for_update s; q_for_update_nowait := v; q_for_update_skip_locked := q_for_update_skip_locked s; q_for_update_of := q_for_update_of s; q_force_indexes := q_force_indexes s; q_use_indexes := q_use_indexes s; q_updates := q_updates s; q_columns := q_columns s; q_values := q_values s; q_replace := q_replace s; q_select_into := q_select_into s; q_subquery_count := q_subquery_count s; q_foreign_table := q_foreign_table s; q_mysql_rollup := q_mysql_rollup s; q_hint := q_hint s; q_modifiers := q_modifiers s; q_final := q_final s; q_sample := q_sample s; q_sample_offset := q_sample_offset s; q_limit_by := q_limit_by s; q_distinct_on := q_distinct_on s; q_insert_or_replace := q_insert_or_replace s; q_top := q_top s; q_top_percent := q_top_percent s; q_top_with_ties := q_top_with_ties s |}.
Definition set_for_update_skip_locked (v : bool) (s : qstate) : qstate :=
  {| q_from := q_from s; q_insert_table := q_insert_table s; q_update_table := q_update_table s; q_with := q_with s; q_selects := q_selects s; q_select_star := q_select_star s; q_select_star_tables := q_select_star_tables s; q_joins := q_joins s; q_wheres := q_wheres s; q_prewheres := q_prewheres s; q_havings := q_havings s; q_groupbys := q_groupbys s; q_orderbys := q_orderbys s; q_limit := q_limit s; q_offset := q_offset s; q_distinct := q_distinct s; q_for_update := q_for_update s; q_for_update_nowait := q_for_update_nowait s; q_for_update_skip_locked := v; q_for_update_of := q_for_update_of s; q_force_indexes := q_force_indexes s; q_use_indexes := q_use_indexes s; q_updates := q_updates s; q_columns := q_columns s; q_values := q_values s; q_replace := q_replace s; q_select_into := q_select_into s; q_subquery_count := q_subquery_count s; q_foreign_table := q_foreign_table s; q_mysql_rollup := q_mysql_rollup s; q_hint := q_hint s; q_modifiers := q_modifiers s; q_final := q_final s; q_sample := q_sample s; q_sample_offset := q_sample_offset s; q_limit_by := q_limit_by s; q_distinct_on := q_distinct_on s; q_insert_or_replace := q_insert_or_replace s; q_top := q_top s; q_top_percent := q_top_percent s; q_top_with_ties := q_top_with_ties s |}.
Definition set_for_update_of (v : list string) (s : qstate) : qstate :=
  {| q_from := q_from s; q_insert_table := q_insert_table s; q_update_table := q_update_table s; q_with := q_with s; q_selects := q_selects s; q_select_star := q_select_star s; q_select_star_tables := q_select_star_tables s; q_joins := q_joins s; q_wheres := q_wheres s; q_prewheres := q_prewheres s; q_havings := q_havings s; q_groupbys := q_groupbys s; q_orderbys := q_orderbys s; q_limit := q_limit s; q_offset := q_offset s; q_distinct := q_distinct s; q_for_update := q_for_update s; q_for_update_nowait := q_for_update_nowait s; q_for_update_skip_locked := q_for_update_skip_locked s; q_for_update_of := v; q_force_indexes := q_force_indexes s; q_use_indexes := q_use_indexes s; q_updates := q_updates s; q_columns := q_columns s; q_values := q_values s; q_replace := q_replace s; q_select_into := q_select_into s; q_subquery_count := q_subquery_count s; q_foreign_table := q_foreign_table s; q_mysql_rollup := q_mysql_rollup s; q_hint := q_hint s; q_modifiers := q_modifiers s; q_final := q_final s; q_sample := q_sample s; q_sample_offset := q_sample_offset s; q_limit_by := q_limit_by s; q_distinct_on := q_distinct_on s; q_insert_or_replace := q_insert_or_replace s; q_top := q_top s; q_top_percent := q_top_percent s; q_top_with_ties := q_top_with_ties s |}.
Definition set_force_indexes (v : list string) (s : qstate) : qstate :=
  {| q_from := q_from s; q_insert_table := q_insert_table s; q_update_table := q_update_table s; q_with := q_with s; q_selects := q_selects s; q_select_star := q_select_star s; q_select_star_tables := q_select_star_tables s; q_joins := q_joins s; q_wheres := q_wheres s; q_prewheres := q_prewheres s; q_havings := q_havings s; q_groupbys := q_groupbys s; q_orderbys := q_orderbys s; q_limit := q_limit s; q_offset := q_offset s; q_distinct := q_distinct s; q_for_update := q_for_update s; q_for_update_nowait := q_for_update_nowait s; q_for_update_skip_locked := q_for_update_skip_locked s; q_for_update_of := q_for_update_of s; q_force_indexes := v; q_use_indexes := q_use_indexes s; q_updates := q_updates s; q_columns := q_columns s; q_values := q_values s; q_replace := q_replace s; q_select_into := q_select_into s; q_subquery_count := q_subquery_count s; q_foreign_table := q_foreign_table s; q_mysql_rollup := q_mysql_rollup s; q_hint := q_hint s; q_modifiers := q_modifiers s; q_final := q_final s; q_sample := q_sample s; q_sample_offset := q_sample_offset s; q_limit_by := q_limit_by s; q_distinct_on := q_distinct_on s; q_insert_or_replace := q_insert_or_replace s; q_top := q_top s; q_top_percent := q_top_percent s; q_top_with_ties := q_top_with_ties s |}.
Definition set_use_indexes (v : list string) (s : qstate) : qstate :=
  {| q_from := q_from s; q_insert_table := q_insert_table s; q_update_table := q_update_table s; q_with := q_with s; q_selects := q_selects s; q_select_star := q_select_star s; q_select_star_tables := q_select_star_tables s; q_joins := q_joins s; q_wheres := q_wheres s; q_prewheres := q_prewheres s; q_havings := q_havings s; q_groupbys := q_groupbys s; q_orderbys := q_orderbys s; q_limit := q_limit s; q_offset := q_offset s; q_distinct := q_distinct s; q_for_update := q_for_update s; q_for_update_nowait := q_for_update_nowait s; q_for_update_skip_locked := q_for_update_skip_locked s; q_for_update_of := q_for_update_of s; q_force_indexes := q_force_indexes s; q_use_indexes := v; q_updates := q_updates s; q_columns := q_columns s; q_values := q_values s; q_replace := q_replace s; q_select_into := q_select_into s; q_subquery_count := q_subquery_count s; q_foreign_table := q_foreign_table s; q_mysql_rollup := q_mysql_rollup s; q_hint := q_hint s; q_modifiers := q_modifiers s; q_final := q_final s; q_sample := q_sample s; q_sample_offset := q_sample_offset s; q_limit_by := q_limit_by s; q_distinct_on := q_distinct_on s; q_insert_or_replace := q_insert_or_replace s; q_top := q_top s; q_top_percent := q_top_percent s; q_top_with_ties := q_top_with_ties s |}.
Definition set_updates (v : list (term * term)) (s : qstate) : qstate :=
  {| q_from := q_from s; q_insert_table := q_insert_table s; q_update_table := q_update_table s; q_with := q_with s; q_selects := q_selects s; q_select_star := q_select_star s; q_select_star_tables := q_select_star_tables s; q_joins := q_joins s; q_wheres := q_wheres s; q_prewheres := q_prewheres s; q_havings := q_havings s; q_groupbys := q_groupbys s; q_orderbys := q_orderbys s; q_limit := q_limit s; q_offset := q_offset s; q_distinct := q_distinct s; q_for_update := q_for_update s; q_for_update_nowait := q_for_update_nowait s; q_for_update_skip_locked := q_for_update_skip_locked s; q_for_update_of := q_for_update_of s; q_force_indexes := q_force_indexes s; q_use_indexes := q_use_indexes s; q_updates := v; q_columns := q_columns s; q_values := q_values s; q_replace := q_replace s; q_select_into := q_select_into s; q_subquery_count := q_subquery_count s; q_foreign_table := q_foreign_table s; q_mysql_rollup := q_mysql_rollup s; q_hint := q_hint s; q_modifiers := q_modifiers s; q_final := q_final s; q_sample := q_sample s; q_sample_offset := q_sample_offset s; q_limit_by := q_limit_by s; q_distinct_on := q_distinct_on s; q_insert_or_replace := q_insert_or_replace s; q_top := q_top s; q_top_percent := q_top_percent s; q_top_with_ties := q_top_with_ties s |}.
Definition set_columns (v : list term) (s : qstate) : qstate :=
  {| q_from := q_from s; q_insert_table := q_insert_table s; q_update_table := q_update_table s; q_with := q_with s; q_selects := q_selects s; q_select_star := q_select_star s; q_select_star_tables := q_select_star_tables s; q_joins := q_joins s; q_wheres := q_wheres s; q_prewheres := q_prewheres s; q_havings := q_havings s; q_groupbys := q_groupbys s; q_orderbys := q_orderbys s; q_limit := q_limit s; q_offset := q_offset s; q_distinct := q_distinct s; q_for_update := q_for_update s; q_for_update_nowait := q_for_update_nowait s; q_for_update_skip_locked := q_for_update_skip_locked s; q_for_update_of := q_for_update_of s; q_force_indexes := q_force_indexes s; q_use_indexes := q_use_indexes s; q_updates := q_updates s; q_columns := v; q_values := q_values s; q_replace := q_replace s; q_select_into := q_select_into s; q_subquery_count := q_subquery_count s; q_foreign_table := q_foreign_table s; q_mysql_rollup := q_mysql_rollup s; q_hint := q_hint s; q_modifiers := q_modifiers s; q_final := q_final s; q_sample := q_sample s; q_sample_offset := q_sample_offset s; q_limit_by := q_limit_by s; q_distinct_on := q_distinct_on s; q_insert_or_replace := q_insert_or_replace s; q_top := q_top s; q_top_percent := q_top_percent s; q_top_with_ties := q_top_with_ties s |}.
Definition set_values (v : list (list term)) (s : qstate) : qstate :=
  {| q_from := q_from s; q_insert_table := q_insert_table s; q_update_table := q_update_table s; q_with := q_with s; q_selects := q_selects s; q_select_star := q_select_star s; q_select_star_tables := q_select_star_tables s; q_joins := q_joins s; q_wheres := q_wheres s; q_prewheres := q_prewheres s; q_havings := q_havings s; q_groupbys := q_groupbys s; q_orderbys := q_orderbys s; q_limit := q_limit s; q_offset := q_offset s; q_distinct := q_distinct s; q_for_update := q_for_update s; q_for_update_nowait := q_for_update_nowait s; q_for_update_skip_locked := q_for_update_skip_locked s; q_for_update_of := q_for_update_of s; q_force_indexes := q_force_indexes s; q_use_indexes := q_use_indexes s; q_updates := q_updates s; q_columns := q_columns s; q_values := v; q_replace := q_replace s; q_select_into := q_select_into s; q_subquery_count := q_subquery_count s; q_foreign_table := q_foreign_table s; q_mysql_rollup := q_mysql_rollup s; q_hint := q_hint s; q_modifiers := q_modifiers s; q_final := q_final s; q_sample := q_sample s; q_sample_offset := q_sample_offset s; q_limit_by := q_limit_by s; q_distinct_on := q_distinct_on s; q_insert_or_replace := q_insert_or_replace s; q_top := q_top s; q_top_percent := q_top_percent s; q_top_with_ties := q_top_with_ties s |}.
Definition set_replace (v : bool) (s : qstate) : qstate :=
  {| q_from := q_from s; q_insert_table := q_insert_table s; q_update_table := q_update_table s; q_with := q_with s; q_selects := q_selects s; q_select_star := q_select_star s; q_select_star_tables := q_select_star_tables s; q_joins := q_joins s; q_wheres := q_wheres s; q_prewheres := q_prewheres s; q_havings := q_havings s; q_groupbys := q_groupbys s; q_orderbys := q_orderbys s; q_limit := q_limit s; q_offset := q_offset s; q_distinct := q_distinct s; q_for_update := q_for_update s; q_for_update_nowait := q_for_update_nowait s; q_for_update_skip_locked := q_for_update_skip_locked s; q_for_update_of := q_for_update_of s; q_force_indexes := q_force_indexes s; q_use_indexes := q_use_indexes s; q_updates := q_updates s; q_columns := q_columns s; q_values := q_values s; q_replace := v; q_select_into := q_select_into s; q_subquery_count := q_subquery_count s; q_foreign_table := q_foreign_table s; q_mysql_rollup := q_mysql_rollup s; q_hint := q_hint s; q_modifiers := q_modifiers s; q_final := q_final s; q_sample := q_sample s; q_sample_offset := q_sample_offset s; q_limit_by := q_limit_by s; q_distinct_on := q_distinct_on s; q_insert_or_replace := q_insert_or_replace s; q_top := q_top s; q_top_percent := q_top_percent s; q_top_with_ties := q_top_with_ties s |}.
Definition set_select_into (v : bool) (s : qstate) : qstate :=
  {| q_from := q_from s; q_insert_table := q_insert_table s; q_update_table := q_update_table s; q_with := q_with s; q_selects := q_selects s; q_select_star := q_select_star s; q_select_star_tables := q_select_star_tables s; q_joins := q_joins s; q_wheres := q_wheres s; q_prewheres := q_prewheres s; q_havings := q_havings s; q_groupbys := q_groupbys s; q_orderbys := q_orderbys s; q_limit := q_limit s; q_offset := q_offset s; q_distinct := q_distinct s; q_for_update := q_for_update s; q_for_update_nowait := q_for_update_nowait s; q_for_update_skip_locked := q_for_update_skip_locked s; q_for_update_of := q_for_update_of s; q_force_indexes := q_force_indexes s; q_use_indexes := q_use_indexes s; q_updates := q_updates s; q_columns := q_columns s; q_values := q_values s; q_replace := q_replace s; q_select_into := v; q_subquery_count := q_subquery_count s; q_foreign_table := q_foreign_table s; q_mysql_rollup := q_mysql_rollup s; q_hint := q_hint s; q_modifiers := q_modifiers s; q_final := q_final s; q_sample := q_sample s; q_sample_offset := q_sample_offset s; q_limit_by := q_limit_by s; q_distinct_on := q_distinct_on s; q_insert_or_replace := q_insert_or_replace s; q_top := q_top s; q_top_percent := q_top_percent s; q_top_with_ties := q_top_with_ties s |}.
Definition set_subquery_count (v : Z) (s : qstate) : qstate :=
  {| q_from := q_from s; q_insert_table := q_insert_table s; q_update_table := q_update_table s; q_with := q_with s; q_selects := q_selects s; q_select_star := q_select_star s; q_select_star_tables := q_select_star_tables s; q_joins := q_joins s; q_wheres := q_wheres s; q_prewheres := q_prewheres s; q_havings := q_havings s; q_groupbys := q_groupbys s; q_orderbys := q_orderbys s; q_limit := q_limit s; q_offset := q_offset s; q_distinct := q_distinct s; q_for_update := q_for_update s; q_for_update_nowait := q_for_update_nowait s; q_for_update_skip_locked := q_for_update_skip_locked s; q_for_update_of := q_for_update_of s; q_force_indexes := q_force_indexes s; q_use_indexes := q_use_indexes s; q_updates := q_updates s; q_columns := q_columns s; q_values := q_values s; q_replace := q_replace s; q_select_into := q_select_into s; q_subquery_count := v; q_foreign_table := q_foreign_table s; q_mysql_rollup := q_mysql_rollup s; q_hint := q_hint s; q_modifiers := q_modifiers s; q_final := q_final s; q_sample := q_sample s; q_sample_offset := q_sample_offset s; q_limit_by := q_limit_by s; q_distinct_on := q_distinct_on s; q_insert_or_replace := q_insert_or_replace s; q_top := q_top s; q_top_percent := q_top_percent s; q_top_with_ties := q_top_with_ties s |}.
Definition set_foreign_table (v : bool) (s : qstate) : qstate :=
  {| q_from := q_from s; q_insert_table := q_insert_table s; q_update_table := q_update_table s; q_with := q_with s; q_selects := q_selects s; q_select_star := q_select_star s; q_select_star_tables := q_select_star_tables s; q_joins := q_joins s; q_wheres := q_wheres s; q_prewheres := q_prewheres s; q_havings := q_havings s; q_groupbys := q_groupbys s; q_orderbys := q_orderbys s; q_limit := q_limit s; q_offset := q_offset s; q_distinct := q_distinct s; q_for_update := q_for_update s; q_for_update_nowait := q_for_update_nowait s; q_for_update_skip_locked := q_for_update_skip_locked s; q_for_update_of := q_for_update_of s; q_force_indexes := q_force_indexes s; q_use_indexes := q_use_indexes s; q_updates := q_updates s; q_columns := q_columns s; q_values := q_values s; q_replace := q_replace s; q_select_into := q_select_into s; q_subquery_count := q_subquery_count s; q_foreign_table := v; q_mysql_rollup := q_mysql_rollup s; q_hint := q_hint s; q_modifiers := q_modifiers s; q_final := q_final s; q_sample := q_sample s; q_sample_offset := q_sample_offset s; q_limit_by := q_limit_by s; q_distinct_on := q_distinct_on s; q_insert_or_replace := q_insert_or_replace s; q_top := q_top s; q_top_percent := q_top_percent s; q_top_with_ties := q_top_with_ties s |}.
Definition set_mysql_rollup (v : bool) (s : qstate) : qstate :=
  {| q_from := q_from s; q_insert_table := q_insert_table s; q_update_table := q_update_table s; q_with := q_with s; q_selects := q_selects s; q_select_star := q_select_star s; q_select_star_tables := q_select_star_tables s; q_joins := q_joins s; q_wheres := q_wheres s; q_prewheres := q_prewheres s; q_havings := q_havings s; q_groupbys := q_groupbys s; q_orderbys := q_orderbys s; q_limit := q_limit s; q_offset := q_offset s; q_distinct := q_distinct s; q_for_update := q_for_update s; q_for_update_nowait := q_for_update_nowait s; q_for_update_skip_locked := q_for_update_skip_locked s; q_for_update_of := q_for_update_of s; q_force_indexes := q_force_indexes s; q_use_indexes := q_use_indexes s; q_updates := q_updates s; q_columns := q_columns s; q_values := q_values s; q_replace := q_replace s; q_select_into := q_select_into s; q_subquery_count := q_subquery_count s; q_foreign_table := q_foreign_table s; q_mysql_rollup := v; q_hint := q_hint s; q_modifiers := q_modifiers s; q_final := q_final s; q_sample := q_sample s; q_sample_offset := q_sample_offset s; q_limit_by := q_limit_by s; q_distinct_on := q_distinct_on s; q_insert_or_replace := q_insert_or_replace s; q_top := q_top s; q_top_percent := q_top_percent s; q_top_with_ties := q_top_with_ties s |}.
Definition set_hint (v : option string) (s : qstate) : qstate :=
  {| q_from := q_from s; q_insert_table := q_insert_table s; q_update_table := q_update_table s; q_with := q_with s; q_selects := q_selects s; q_select_star := q_select_star s; q_select_star_tables := q_select_star_tables s; q_joins := q_joins s; q_wheres := q_wheres s; q_prewheres := q_prewheres s; q_havings := q_havings s; q_groupbys := q_groupbys s; q_orderbys := q_orderbys s; q_limit := q_limit s; q_offset := q_offset s; q_distinct := q_distinct s; q_for_update := q_for_update s; q_for_update_nowait := q_for_update_nowait s; q_for_update_skip_locked := q_for_update_skip_locked s; q_for_update_of := q_for_update_of s; q_force_indexes := q_force_indexes s; q_use_indexes := q_use_indexes s; q_updates := q_updates s; q_columns := q_columns s; q_values := q_values s; q_replace := q_replace s; q_select_into := q_select_into s; q_subquery_count := q_subquery_count s; q_foreign_table := q_foreign_table s; q_mysql_rollup := q_mysql_rollup s; q_hint := v; q_modifiers := q_modifiers s; q_final := q_final s; q_sample := q_sample s; q_sample_offset := q_sample_offset s; q_limit_by := q_limit_by s; q_distinct_on := q_distinct_on s; q_insert_or_replace := q_insert_or_replace s; q_top := q_top s; q_top_percent := q_top_percent s; q_top_with_ties := q_top_with_ties s |}.
Definition set_modifiers (v : list string) (s : qstate) : qstate :=
  {| q_from := q_from s; q_insert_table := q_insert_table s; q_update_table := q_update_table s; q_with := q_with s; q_selects := q_selects s; q_select_star := q_select_star s; q_select_star_tables := q_select_star_tables s; q_joins := q_joins s; q_wheres := q_wheres s; q_prewheres := q_prewheres s; q_havings := q_havings s; q_groupbys := q_groupbys s; q_orderbys := q_orderbys s; q_limit := q_limit s; q_offset := q_offset s; q_distinct := q_distinct s; q_for_update := q_for_update s; q_for_update_nowait := q_for_update_nowait s; q_for_update_skip_locked := q_for_update_skip_locked s; q_for_update_of := q_for_update_of s; q_force_indexes := q_force_indexes s; q_use_indexes := q_use_indexes s; q_updates := q_updates s; q_columns := q_columns s; q_values := q_values s; q_replace := q_replace s; q_select_into := q_select_into s; q_subquery_count := q_subquery_count s; q_foreign_table := q_foreign_table s; q_mysql_rollup := q_mysql_rollup s; q_hint := q_hint s; q_modifiers := v; q_final := q_final s; q_sample := q_sample s; q_sample_offset := q_sample_offset s; q_limit_by := q_limit_by s; q_distinct_on := q_distinct_on s; q_insert_or_replace := q_insert_or_replace s; q_top := q_top s; q_top_percent := q_top_percent s; q_top_with_ties := q_top_with_ties s |}.
Definition set_final (v : bool) (s : qstate) : qstate :=
  {| q_from := q_from s; q_insert_table := q_insert_table s; q_update_table := q_update_table s; q_with := q_with s; q_selects := q_selects s; q_select_star := q_select_star s; q_select_star_tables := q_select_star_tables s; q_joins := q_joins s; q_wheres := q_wheres s; q_prewheres := q_prewheres s; q_havings := q_havings s; q_groupbys := q_groupbys s; q_orderbys := q_orderbys s; q_limit := q_limit s; q_offset := q_offset s; q_distinct := q_distinct s; q_for_update := q_for_update s; q_for_update_nowait := q_for_update_nowait s; q_for_update_skip_locked := q_for_update_skip_locked s; q_for_update_of := q_for_update_of s; q_force_indexes := q_force_indexes s; q_use_indexes := q_use_indexes s; q_updates := q_updates s; q_columns := q_columns s; q_values := q_values s; q_replace := q_replace s; q_select_into := q_select_into s; q_subquery_count := q_subquery_count s; q_foreign_table := q_foreign_table s; q_mysql_rollup := q_mysql_rollup s; q_hint := q_hint s; q_modifiers := q_modifiers s; q_final := v; q_sample := q_sample s; q_sample_offset := q_sample_offset s; q_limit_by := q_limit_by s; q_distinct_on := q_distinct_on s; q_insert_or_replace := q_insert_or_replace s; q_top := q_top s; q_top_percent := q_top_percent s; q_top_with_ties := q_top_with_ties s |}.
Definition set_sample (v : option Z) (s : qstate) : qstate :=
  {| q_from := q_from s; q_insert_table := q_insert_table s; q_update_table := q_update_table s; q_with := q_with s; q_selects := q_selects s; q_select_star := q_select_star s; q_select_star_tables := q_select_star_tables s; q_joins := q_joins s; q_wheres := q_wheres s; q_prewheres := q_prewheres s; q_havings := q_havings s; q_groupbys := q_groupbys s; q_orderbys := q_orderbys s; q_limit := q_limit s; q_offset := q_offset s; q_distinct := q_distinct s; q_for_update := q_for_update s; q_for_update_nowait := q_for_update_nowait s; q_for_update_skip_locked := q_for_update_skip_locked s; q_for_update_of := q_for_update_of s; q_force_indexes := q_force_indexes s; q_use_indexes := q_use_indexes s; q_updates := q_updates s; q_columns := q_columns s; q_values := q_values s; q_replace := q_replace s; q_select_into := q_select_into s; q_subquery_count := q_subquery_count s; q_foreign_table := q_foreign_table s; q_mysql_rollup := q_mysql_rollup s; q_hint := q_hint s; q_modifiers := q_modifiers s; q_final := q_final s; q_sample := v; q_sample_offset := q_sample_offset s; q_limit_by := q_limit_by s; q_distinct_on := q_distinct_on s; q_insert_or_replace := q_insert_or_replace s; q_top := q_top s; q_top_percent := q_top_percent s; q_top_with_ties := q_top_with_ties s |}.
Definition set_sample_offset (v : option Z) (s : qstate) : qstate :=
  {| q_from := q_from s; q_insert_table := q_insert_table s; q_update_table := q_update_table s; q_with := q_with s; q_selects := q_selects s; q_select_star := q_select_star s; q_select_star_tables := q_select_star_tables s; q_joins := q_joins s; q_wheres := q_wheres s; q_prewheres := q_prewheres s; q_havings := q_havings s; q_groupbys := q_groupbys s; q_orderbys := q_orderbys s; q_limit := q_limit s; q_offset := q_offset s; q_distinct := q_distinct s; q_for_update := q_for_update s; q_for_update_nowait := q_for_update_nowait s; q_for_update_skip_locked := q_for_update_skip_locked s; q_for_update_of := q_for_update_of s; q_force_indexes := q_force_indexes s; q_use_indexes := q_use_indexes s; q_updates := q_updates s; q_columns := q_columns s; q_values := q_values s; q_replace := q_replace s; q_select_into := q_select_into s; q_subquery_count := q_subquery_count s; q_foreign_table := q_foreign_table s; q_mysql_rollup := q_mysql_rollup s; q_hint := q_hint s; q_modifiers := q_modifiers s; q_final := q_final s; q_sample := q_sample s; q_sample_offset := v; q_limit_by := q_limit_by s; q_distinct_on := q_distinct_on s; q_insert_or_replace := q_insert_or_replace s; q_top := q_top s; q_top_percent := q_top_percent s; q_top_with_ties := q_top_with_ties s |}.
Definition set_limit_by (v : option (Z * Z * list term)) (s : qstate) : qstate :=
  {| q_from := q_from s; q_insert_table := q_insert_table s; q_update_table := q_update_table s; q_with := q_with s; q_selects := q_selects s; q_select_star := q_select_star s; q_select_star_tables := q_select_star_tables s; q_joins := q_joins s; q_wheres := q_wheres s; q_prewheres := q_prewheres s; q_havings := q_havings s; q_groupbys := q_groupbys s; q_orderbys := q_orderbys s; q_limit := q_limit s; q_offset := q_offset s; q_distinct := q_distinct s; q_for_update := q_for_update s; q_for_update_nowait := q_for_update_nowait s; q_for_update_skip_locked := q_for_update_skip_locked s; q_for_update_of := q_for_update_of s; q_force_indexes := q_force_indexes s; q_use_indexes := q_use_indexes s; q_updates := q_updates s; q_columns := q_columns s; q_values := q_values s; q_replace := q_replace s; q_select_into := q_select_into s; q_subquery_count := q_subquery_count s; q_foreign_table := q_foreign_table s; q_mysql_rollup := q_mysql_rollup s; q_hint := q_hint s; q_modifiers := q_modifiers s; q_final := q_final s; q_sample := q_sample s; q_sample_offset := q_sample_offset s; q_limit_by := v; q_distinct_on := q_distinct_on s; q_insert_or_replace := q_insert_or_replace s; q_top := q_top s; q_top_percent := q_top_percent s; q_top_with_ties := q_top_with_ties s |}.
Definition set_distinct_on (v : list term) (s : qstate) : qstate :=
  {| q_from := q_from s; q_insert_table := q_insert_table s; q_update_table := q_update_table s; q_with := q_with s; q_selects := q_selects s; q_select_star := q_select_star s; q_select_star_tables := q_select_star_tables s; q_joins := q_joins s; q_wheres := q_wheres s; q_prewheres := q_prewheres s; q_havings := q_havings s; q_groupbys := q_groupbys s; q_orderbys := q_orderbys s; q_limit := q_limit s; q_offset := q_offset s; q_distinct := q_distinct s; q_for_update := q_for_update s; q_for_update_nowait := q_for_update_nowait s; q_for_update_skip_locked := q_for_update_skip_locked s; q_for_update_of := q_for_update_of s; q_force_indexes := q_force_indexes s; q_use_indexes := q_use_indexes s; q_updates := q_updates s; q_columns := q_columns s; q_values := q_values s; q_replace := q_replace s; q_select_into := q_select_into s; q_subquery_count := q_subquery_count s; q_foreign_table := q_foreign_table s; q_mysql_rollup := q_mysql_rollup s; q_hint := q_hint s; q_modifiers := q_modifiers s; q_final := q_final s; q_sample := q_sample s; q_sample_offset := q_sample_offset s; q_limit_by := q_limit_by s; q_distinct_on := v; q_insert_or_replace := q_insert_or_replace s; q_top := q_top s; q_top_percent := q_top_percent s; q_top_with_ties := q_top_with_ties s |}.
Definition set_insert_or_replace (v : bool) (s : qstate) : qstate :=
  {| q_from := q_from s; q_insert_table := q_insert_table s; q_update_table := q_update_table s; q_with := q_with s; q_selects := q_selects s; q_select_star := q_select_star s; q_select_star_tables := q_select_star_tables s; q_joins := q_joins s; q_wheres := q_wheres s; q_prewheres := q_prewheres s; q_havings := q_havings s; q_groupbys := q_groupbys s; q_orderbys := q_orderbys s; q_limit := q_limit s; q_offset := q_offset s; q_distinct := q_distinct s; q_for_update := q_for_update s; q_for_update_nowait := q_for_update_nowait s; q_for_update_skip_locked := q_for_update_skip_locked s; q_for_update_of := q_for_update_of s; q_force_indexes := q_force_indexes s; q_use_indexes := q_use_indexes s; q_updates := q_updates s; q_columns := q_columns s; q_values := q_values s; q_replace := q_replace s; q_select_into := q_select_into s; q_subquery_count := q_subquery_count s; q_foreign_table := q_foreign_table s; q_mysql_rollup := q_mysql_rollup s; q_hint := q_hint s; q_modifiers := q_modifiers s; q_final := q_final s; q_sample := q_sample s; q_sample_offset := q_sample_offset s; q_limit_by := q_limit_by s; q_distinct_on := q_distinct_on s; q_insert_or_replace := v; q_top := q_top s; q_top_percent := q_top_percent s; q_top_with_ties := q_top_with_ties s |}.
Definition set_top (v : option Z) (s : qstate) : qstate :=
  {| q_from := q_from s; q_insert_table := q_insert_table s; q_update_table := q_update_table s; q_with := q_with s; q_selects := q_selects s; q_select_star := q_select_star s; q_select_star_tables := q_select_star_tables s; q_joins := q_joins s; q_wheres := q_wheres s; q_prewheres := q_prewheres s; q_havings := q_havings s; q_groupbys := q_groupbys s; q_orderbys := q_orderbys s; q_limit := q_limit s; q_offset := q_offset s; q_distinct := q_distinct s; q_for_update := q_for_update s; q_for_update_nowait := q_for_update_nowait s; q_for_update_skip_locked := q_for_update_skip_locked s; q_for_update_of := q_for_update_of s; q_force_indexes := q_force_indexes s; q_use_indexes := q_use_indexes s; q_updates := q_updates s; q_columns := q_columns s; q_values := q_values s; q_replace := q_replace s; q_select_into := q_select_into s; q_subquery_count := q_subquery_count s; q_foreign_table := q_foreign_table s; q_mysql_rollup := q_mysql_rollup s; q_hint := q_hint s; q_modifiers := q_modifiers s; q_final := q_final s; q_sample := q_sample s; q_sample_offset := q_sample_offset s; q_limit_by := q_limit_by s; q_distinct_on := q_distinct_on s; q_insert_or_replace := q_insert_or_replace s; q_top := v; q_top_percent := q_top_percent s; q_top_with_ties := q_top_with_ties s |}.
Definition set_top_percent (v : bool) (s : qstate) : qstate :=
  {| q_from := q_from s; q_insert_table := q_insert_table s; q_update_table := q_update_table s; q_with := q_with s; q_selects := q_selects s; q_select_star := q_select_star s; q_select_star_tables := q_select_star_tables s; q_joins := q_joins s; q_wheres := q_wheres s; q_prewheres := q_prewheres s; q_havings := q_havings s; q_groupbys := q_groupbys s; q_orderbys := q_orderbys s; q_limit := q_limit s; q_offset := q_offset s; q_distinct := q_distinct s; q_for_update := q_for_update s; q_for_update_nowait := q_for_update_nowait s; q_for_update_skip_locked := q_for_update_skip_locked s; q_for_update_of := q_for_update_of s; q_force_indexes := q_force_indexes s; q_use_indexes := q_use_indexes s; q_updates := q_updates s; q_columns := q_columns s; q_values := q_values s; q_replace := q_replace s; q_select_into := q_select_into s; q_subquery_count := q_subquery_count s; q_foreign_table := q_foreign_table s; q_mysql_rollup := q_mysql_rollup s; q_hint := q_hint s; q_modifiers := q_modifiers s; q_final := q_final s; q_sample := q_sample s; q_sample_offset := q_sample_offset s; q_limit_by := q_limit_by s; q_distinct_on := q_distinct_on s; q_insert_or_replace := q_insert_or_replace s; q_top := q_top s; q_top_percent := v; q_top_with_ties := q_top_with_ties s |}.
Definition set_top_with_ties (v : bool) (s : qstate) : qstate :=
  {| q_from := q_from s; q_insert_table := q_insert_table s; q_update_table := q_update_table s; q_with := q_with s; q_selects := q_selects s; q_select_star := q_select_star s; q_select_star_tables := q_select_star_tables s; q_joins := q_joins s; q_wheres := q_wheres s; q_prewheres := q_prewheres s; q_havings := q_havings s; q_groupbys := q_groupbys s; q_orderbys := q_orderbys s; q_limit := q_limit s; q_offset := q_offset s; q_distinct := q_distinct s; q_for_update := q_for_update s; q_for_update_nowait := q_for_update_nowait s; q_for_update_skip_locked := q_for_update_skip_locked s; q_for_update_of := q_for_update_of s; q_force_indexes := q_force_indexes s; q_use_indexes := q_use_indexes s; q_updates := q_updates s; q_columns := q_columns s; q_values := q_values s; q_replace := q_replace s; q_select_into := q_select_into s; q_subquery_count := q_subquery_count s; q_foreign_table := q_foreign_table s; q_mysql_rollup := q_mysql_rollup s; q_hint := q_hint s; q_modifiers := q_modifiers s; q_final := q_final s; q_sample := q_sample s; q_sample_offset := q_sample_offset s; q_limit_by := q_limit_by s; q_distinct_on := q_distinct_on s; q_insert_or_replace := q_insert_or_replace s; q_top := q_top s; q_top_percent := q_top_percent s; q_top_with_ties := v |}.

(* one name per slot of the record *)
Inductive slot := S_from | S_insert_table | S_update_table | S_with | S_selects | S_select_star | S_select_star_tables | S_joins | S_wheres | S_prewheres | S_havings | S_groupbys | S_orderbys | S_limit | S_offset | S_distinct | S_for_update | S_for_update_nowait | S_for_update_skip_locked | S_for_update_of | S_force_indexes | S_use_indexes | S_updates | S_columns | S_values | S_replace | S_select_into | S_subquery_count | S_foreign_table | S_mysql_rollup | S_hint | S_modifiers | S_final | S_sample | S_sample_offset | S_limit_by | S_distinct_on | S_insert_or_replace | S_top | S_top_percent | S_top_with_ties.
Definition all_slots : list slot := [S_from; S_insert_table; S_update_table; S_with; S_selects; S_select_star; S_select_star_tables; S_joins; S_wheres; S_prewheres; S_havings; S_groupbys; S_orderbys; S_limit; S_offset; S_distinct; S_for_update; S_for_update_nowait; S_for_update_skip_locked; S_for_update_of; S_force_indexes; S_use_indexes; S_updates; S_columns; S_values; S_replace; S_select_into; S_subquery_count; S_foreign_table; S_mysql_rollup; S_hint; S_modifiers; S_final; S_sample; S_sample_offset; S_limit_by; S_distinct_on; S_insert_or_replace; S_top; S_top_percent; S_top_with_ties].
Definition slot_eqb (a b : slot) : bool :=
  match a, b with
  | S_from, S_from => true
  | S_insert_table, S_insert_table => true
  | S_update_table, S_update_table => true
  | S_with, S_with => true
  | S_selects, S_selects => true
  | S_select_star, S_select_star => true
  | S_select_star_tables, S_select_star_tables => true
  | S_joins, S_joins => true
  | S_wheres, S_wheres => true
  | S_prewheres, S_prewheres => true
  | S_havings, S_havings => true
  | S_groupbys, S_groupbys => true
  | S_orderbys, S_orderbys => true
  | S_limit, S_limit => true
  | S_offset, S_offset => true
  | S_distinct, S_distinct => true
  | S_for_update, S_for_update => true
  | S_for_update_nowait, S_for_update_nowait => true
  | S_for_update_skip_locked, S_for_update_skip_locked => true
  | S_for_update_of, S_for_update_of => true
  | S_force_indexes, S_force_indexes => true
  | S_use_indexes, S_use_indexes => true
  | S_updates, S_updates => true
  | S_columns, S_columns => true
  | S_values, S_values => true
  | S_replace, S_replace => true
  | S_select_into, S_select_into => true
  | S_subquery_count, S_subquery_count => true
  | S_foreign_table, S_foreign_table => true
  | S_mysql_rollup, S_mysql_rollup => true
  | S_hint, S_hint => true
  | S_modifiers, S_modifiers => true
  | S_final, S_final => true
  | S_sample, S_sample => true
  | S_sample_offset, S_sample_offset => true
  | S_limit_by, S_limit_by => true
  | S_distinct_on, S_distinct_on => true
  | S_insert_or_replace, S_insert_or_replace => true
  | S_top, S_top => true
  | S_top_percent, S_top_percent => true
  | S_top_with_ties, S_top_with_ties => true
  | _, _ => false
  end.
(* two states agree on a slot *)
Definition eq_on (x : slot) (a b : qstate) : Prop :=
  match x with
  | S_from => q_from a = q_from b
  | S_insert_table => q_insert_table a = q_insert_table b
  | S_update_table => q_update_table a = q_update_table b
  | S_with => q_with a = q_with b
  | S_selects => q_selects a = q_selects b
  | S_select_star => q_select_star a = q_select_star b
  | S_select_star_tables => q_select_star_tables a = q_select_star_tables b
  | S_joins => q_joins a = q_joins b
  | S_wheres => q_wheres a = q_wheres b
  | S_prewheres => q_prewheres a = q_prewheres b
  | S_havings => q_havings a = q_havings b
  | S_groupbys => q_groupbys a = q_groupbys b
  | S_orderbys => q_orderbys a = q_orderbys b
  | S_limit => q_limit a = q_limit b
  | S_offset => q_offset a = q_offset b
  | S_distinct => q_distinct a = q_distinct b
  | S_for_update => q_for_update a = q_for_update b
  | S_for_update_nowait => q_for_update_nowait a = q_for_update_nowait b
  | S_for_update_skip_locked => q_for_update_skip_locked a = q_for_update_skip_locked b
  | S_for_update_of => q_for_update_of a = q_for_update_of b
  | S_force_indexes => q_force_indexes a = q_force_indexes b
  | S_use_indexes => q_use_indexes a = q_use_indexes b
  | S_updates => q_updates a = q_updates b
  | S_columns => q_columns a = q_columns b
  | S_values => q_values a = q_values b
  | S_replace => q_replace a = q_replace b
  | S_select_into => q_select_into a = q_select_into b
  | S_subquery_count => q_subquery_count a = q_subquery_count b
  | S_foreign_table => q_foreign_table a = q_foreign_table b
  | S_mysql_rollup => q_mysql_rollup a = q_mysql_rollup b
  | S_hint => q_hint a = q_hint b
  | S_modifiers => q_modifiers a = q_modifiers b
  | S_final => q_final a = q_final b
  | S_sample => q_sample a = q_sample b
  | S_sample_offset => q_sample_offset a = q_sample_offset b
  | S_limit_by => q_limit_by a = q_limit_by b
  | S_distinct_on => q_distinct_on a = q_distinct_on b
  | S_insert_or_replace => q_insert_or_replace a = q_insert_or_replace b
  | S_top => q_top a = q_top b
  | S_top_percent => q_top_percent a = q_top_percent b
  | S_top_with_ties => q_top_with_ties a = q_top_with_ties b
  end.

(* QueryBuilder.__init__ *)
Definition init : qstate :=
  mkq [] None None [] [] false [] [] None None None [] [] None None false false false false [] [] [] [] [] []
      false false 0 false false None [] false None None None [] false None false false.

(* ---- arguments of the calls ---------------------------------------------------------------- *)
Inductive sel_item := SField (t : term) | SStr (s : string) | SOther (t : term).
Inductive grp_item := GTerm (t : term) | GStr (s : string) | GInt (z : Z).
Inductive ord_item := OStr (s : string) | OTerm (t : term).
Inductive col_item := ColStr (s : string) | ColTerm (t : term).
Inductive join_spec :=
| JSOn (crit : term) (collate : option string)     (* .on(crit, collate) *)
| JSOnNone                                         (* .on(None) *)
| JSUsing (names : list string)                    (* .using( *names) *)
| JSCross.                                         (* .cross() *)

(* the value given to MSSQL top(): an int, a str, or a number that is not integral (5.7) *)
Inductive top_arg := TopInt (z : Z) | TopStr (s : string) | TopFraction.
Definition top_value (v : top_arg) : option Z :=
  match v with TopInt z => Some z | TopStr s => Z_of_string s | TopFraction => None end.

Inductive call :=
| CFrom (t : tbl) (subcount : Z)                   (* from_(t); subcount = t._subquery_count for a sub-query *)
| CInto (t : tbl)
| CUpdate (t : tbl)
| CSelect (items : list sel_item)
| CJoin (item : tbl) (how : string) (spec : join_spec)
| CWhere (c : term)
| CPrewhere (c : term)
| CHaving (c : term)
| CGroupby (items : list grp_item)
| CRollup (mysql : bool) (ts : list term)          (* rollup( *ts [, vendor="mysql"]) *)
| COrderby (items : list ord_item) (order : option string)
| CLimit (z : Z)
| COffset (z : Z)
| CDistinct
| CForUpdate (args : option (bool * bool * list string))   (* None: base class for_update();
                                                              Some (nowait, skip_locked, of): MySQL/PostgreSQL *)
| CWith (name : string) (body : term)
| CForceIndex (names : list string)
| CUseIndex (names : list string)
| CSet (field value : term)
| CColumns (items : list col_item)
| CInsert (replace : bool) (rows : list (list term))
| CInsertOrReplace (rows : list (list term))         (* SQLite insert_or_replace *)
| CHint (label : string)                             (* Vertica hint(label) *)
| CModifier (value : string)                         (* MySQL modifier(value) *)
| CFinal                                             (* ClickHouse final() *)
| CSample (n : Z) (offset : option Z)                (* ClickHouse sample(n, offset=None) *)
| CLimitBy (n offset : Z) (by_ : list col_item)      (* ClickHouse limit_by(n, by) [offset 0] / limit_offset_by *)
| CDistinctOn (fields : list col_item)               (* PostgreSQL / ClickHouse distinct_on( fields) *)
| CTop (v : top_arg) (percent with_ties : bool).     (* MSSQL top(value, percent=, with_ties=) *)

Definition kind_of (c : call) : kind :=
  match c with
  | CFrom _ _ => KFrom | CInto _ => KInto | CUpdate _ => KUpdate
  | CSelect _ => KSelect | CJoin _ _ _ => KJoin | CWhere _ => KWhere | CPrewhere _ => KPrewhere
  | CHaving _ => KHaving | CGroupby _ => KGroupby | CRollup _ _ => KGroupby | COrderby _ _ => KOrderby
  | CLimit _ => KLimit | COffset _ => KOffset | CDistinct => KDistinct | CForUpdate _ => KForUpdate
  | CWith _ _ => KWith | CForceIndex _ => KForceIndex | CUseIndex _ => KUseIndex | CSet _ _ => KSet
  | CColumns _ => KColumns | CInsert _ _ => KInsert | CInsertOrReplace _ => KInsert
  | CHint _ => KHint | CModifier _ => KModifier | CFinal => KFinal | CSample _ _ => KSample
  | CLimitBy _ _ _ => KLimitBy | CDistinctOn _ => KDistinctOn | CTop _ _ _ => KTop
  end.

(* ---- from_ / into / update ----------------------------------------------------------------- *)
Definition sq_name (n : Z) : string := ("sq" ++ Z_to_string n)%string.

Definition step_from (fr : list tbl) (cnt : Z) (t : tbl) (subcount : Z) : list tbl * Z :=
  match t with
  | Sub None id => let c := Z.max cnt subcount in (fr ++ [Sub (Some (sq_name c)) id], c + 1)
  | _ => (fr ++ [t], cnt)
  end.

Definition step_into (ins : option tbl) (sels : list term) (into : bool) (t : tbl) : res (option tbl * bool) :=
  if is_some ins then Err "AttributeError"
  else Ok (Some t, if is_nil sels then into else true).

Definition step_update (upd : option tbl) (sels : list term) (t : tbl) : res (option tbl) :=
  if is_some upd || negb (is_nil sels) then Err "AttributeError" else Ok (Some t).

(* ---- select -------------------------------------------------------------------------------- *)
Definition sel_state := (list term * bool * list (option tbl))%type.   (* _selects, _select_star, _select_star_tables *)

Definition term_table (t : term) : option tbl := match sel_table t with Some x => x | None => None end.

(* _select_field *)
Definition select_field (st : sel_state) (t : term) : sel_state :=
  let '(sels, st_star, st_tabs) := st in
  if st_star then st
  else if omem (term_table t) st_tabs then st
  else if is_star t then
    (filter (fun x => match sel_table x with None => true | Some tb => negb (otbl_eqb (term_table t) tb) end) sels ++ [t],
     st_star, st_tabs ++ [term_table t])
  else (sels ++ [t], st_star, st_tabs).

Definition select_item (fr : list tbl) (st : sel_state) (i : sel_item) : res sel_state :=
  match i with
  | SField t => Ok (select_field st t)
  | SStr n =>
      match fr with
      | [] => Err "QueryException"
      | f0 :: _ =>
          if String.eqb n "*" then let '(_, _, st_tabs) := st in Ok ([star], true, st_tabs)
          else Ok (select_field st (field_of n (Some f0)))
      end
  | SOther t => let '(sels, st_star, st_tabs) := st in Ok (sels ++ [t], st_star, st_tabs)
  end.

Fixpoint select_loop (fr : list tbl) (st : sel_state) (items : list sel_item) : res sel_state :=
  match items with
  | [] => Ok st
  | i :: r => bind (select_item fr st i) (fun st' => select_loop fr st' r)
  end.

(* ---- _validate_table ----------------------------------------------------------------------- *)
Definition validate_table (fr : list tbl) (upd : option tbl) (joins : list join) (c : term) : bool :=
  forallb (fun ft =>
             match ft with
             | None => true
             | Some _ => omem ft (map Some fr ++ [upd]) || omem ft (map (fun j => Some (join_item j)) joins)
                         || otbl_eqb ft upd
             end) (fields_tables c).

Definition add_filter (slot : option term) (c : term) : option term :=
  match slot with Some w => Some (and_ w c) | None => Some c end.

(* ---- groupby / rollup / orderby ------------------------------------------------------------ *)
Definition group_item (fr : list tbl) (i : grp_item) : res term :=
  match i with
  | GTerm t => Ok t
  | GStr n => match fr with [] => Err "IndexError" | f0 :: _ => Ok (field_of n (Some f0)) end
  | GInt z => match fr with [] => Err "IndexError" | _ :: _ => Ok (wrap_int z) end
  end.
Fixpoint group_loop (fr : list tbl) (acc : list term) (items : list grp_item) : res (list term) :=
  match items with
  | [] => Ok acc
  | i :: r => bind (group_item fr i) (fun t => group_loop fr (acc ++ [t]) r)
  end.

Definition step_rollup (grp : list term) (mr : bool) (mysql : bool) (ts : list term) : res (list term * bool) :=
  if mr then Err "AttributeError"
  else if mysql then
    if is_nil ts && is_nil grp then Err "RollupException" else Ok (grp ++ ts, true)
  else
    match rev grp with
    | g :: before =>
        match rollup_args g with
        | Some args => Ok (rev before ++ [mk_rollup (args ++ ts)], mr)
        | None => Ok (grp ++ [mk_rollup ts], mr)
        end
    | [] => Ok (grp ++ [mk_rollup ts], mr)
    end.

Definition order_item (fr : list tbl) (i : ord_item) : res term :=
  match i with
  | OTerm t => Ok t
  | OStr n => match fr with [] => Err "IndexError" | f0 :: _ => Ok (field_of n (Some f0)) end
  end.
Fixpoint order_loop (fr : list tbl) (order : option string) (acc : list (term * option string))
         (items : list ord_item) : res (list (term * option string)) :=
  match items with
  | [] => Ok acc
  | i :: r => bind (order_item fr i) (fun t => order_loop fr order (acc ++ [(t, order)]) r)
  end.

(* ---- join ---------------------------------------------------------------------------------- *)
(* do_join:  base_tables = self._from + [self._update_table] + self._with.
   [base_tables_code] is that list; [base_tables] is the part without the WITH queries.  The WITH entries are
   AliasedQuery objects: JoinOn.validate does not judge AliasedQuery references (they are checked at render time), a
   Table item is never equal to one, and the automatic alias does not count them -- so do_join's result does not
   depend on them (lemma step_join_code_eq), and [step] uses the form that does not read _with. *)
Definition base_tables (fr : list tbl) (upd : option tbl) : list (option tbl) := map Some fr ++ [upd].
Definition base_tables_code (fr : list tbl) (upd : option tbl) (w : list (string * term)) : list (option tbl) :=
  base_tables fr upd ++ map (fun x => Some (Wq (fst x))) w.

(* JoinOn.validate: criterion_tables - (set(base_tables) | {join.item ...} | {self.item}) - {None} holds no Table /
   sub-query; references to WITH queries (AliasedQuery) are left to the render-time check _validate_with_references,
   which is a function of the final state *)
Definition join_valid (bt : list (option tbl)) (joins : list join) (item : tbl) (tabs : list (option tbl)) : bool :=
  forallb (fun ft =>
             match ft with
             | None => true
             | Some (Wq _) => true
             | Some _ => omem ft bt || omem ft (map (fun j => Some (join_item j)) joins) || otbl_eqb ft (Some item)
             end) tabs.

(* do_join: the first numbered name  <table name><k>, k = 2, 3, ...  that no source of the query carries
   (taken = alias-or-name of base_tables + join items).  Only names that start with the table name can collide, so the
   search looks at those; it needs at most one step more than there are such names. *)
Definition src_name (t : option tbl) : list string :=
  match t with
  | Some (Tab n a) => [match a with Some x => x | None => n end]
  | Some (Wq n) => [n]
  | Some (Sub (Some a) _) => [a]
  | _ => []
  end.
Definition taken_names (bt : list (option tbl)) (joins : list join) : list string :=
  flat_map src_name (bt ++ map (fun j => Some (join_item j)) joins).
Fixpoint first_free_from (name : string) (rel : list string) (fuel : nat) (k : Z) : Z :=
  match fuel with
  | O => k
  | S f => if smem_str (name ++ Z_to_string k)%string rel then first_free_from name rel f (k + 1) else k
  end.
Definition first_free (name : string) (taken : list string) : Z :=
  let rel := filter (String.prefix name) taken in first_free_from name rel (S (List.length rel)) 2.
(* bt: the list the membership test uses; tb: the sources whose names are taken (FROM, UPDATE target) *)
Definition auto_alias (bt tb : list (option tbl)) (joins : list join) (item : tbl) : tbl :=
  match item with
  | Tab n None =>
      if omem (Some item) bt
      then Tab n (Some (n ++ Z_to_string (first_free n (taken_names tb joins)))%string)
      else item
  | _ => item
  end.

(* QueryBuilder.join: _tag_subquery for an un-aliased sub-query *)
Definition tag_item (cnt : Z) (item : tbl) : tbl * Z :=
  match item with
  | Sub None id => (Sub (Some (sq_name cnt)) id, cnt + 1)
  | _ => (item, cnt)
  end.

(* the criterion of  q.join(sub).on(sub.a == ...)  mentions the very object join() has just tagged *)
Definition retag (item item1 : tbl) (ft : option tbl) : option tbl :=
  match item, ft with
  | Sub None id, Some (Sub None id') => if String.eqb id id' then Some item1 else ft
  | _, _ => ft
  end.

Definition step_join_bt (bt tb : list (option tbl)) (joins : list join) (cnt : Z)
           (item : tbl) (how : string) (spec : join_spec) : res (list join * Z) :=
  let '(item1, cnt1) := tag_item cnt item in
  match spec with
  | JSOnNone => Err "JoinException"
  | JSOn crit collate =>
      if join_valid bt joins item1 (map (retag item item1) (find_tables crit))
      then Ok (joins ++ [JOn (auto_alias bt tb joins item1) how crit collate], cnt1)
      else Err "JoinException"
  | JSUsing names =>
      if is_nil names then Err "JoinException"
      else Ok (joins ++ [JUsing (auto_alias bt tb joins item1) how names], cnt1)
  | JSCross => Ok (joins ++ [JCross (auto_alias bt tb joins item1)], cnt1)
  end.
(* the method body as written (reads _with) ... *)
Definition step_join_code (fr : list tbl) (upd : option tbl) (w : list (string * term)) :=
  step_join_bt (base_tables_code fr upd w) (base_tables fr upd).
(* ... and the equal function that does not *)
Definition step_join (fr : list tbl) (upd : option tbl) :=
  step_join_bt (base_tables fr upd) (base_tables fr upd).

(* ---- columns / insert ---------------------------------------------------------------------- *)
Definition col_item_term (ins : option tbl) (i : col_item) : term :=
  match i with ColStr n => field_of n ins | ColTerm t => t end.

(* ---- one builder call: the copy's state after the method body, or the exception class ------- *)
Definition step (s : qstate) (c : call) : res qstate :=
  match c with
  | CFrom t sc =>
      let '(fr, cnt) := step_from (q_from s) (q_subquery_count s) t sc in
      Ok (set_subquery_count cnt (set_from fr s))
  | CInto t =>
      bind (step_into (q_insert_table s) (q_selects s) (q_select_into s) t)
           (fun r => Ok (set_select_into (snd r) (set_insert_table (fst r) s)))
  | CUpdate t =>
      bind (step_update (q_update_table s) (q_selects s) t) (fun u => Ok (set_update_table u s))
  | CSelect items =>
      (* the pre-check: no FROM and a string term: rejected before anything is selected *)
      if is_nil (q_from s) && existsb (fun i => match i with SStr _ => true | _ => false end) items
      then Err "QueryException" else
      bind (select_loop (q_from s) (q_selects s, q_select_star s, q_select_star_tables s) items)
           (fun r => Ok (set_select_star_tables (snd r) (set_select_star (snd (fst r)) (set_selects (fst (fst r)) s))))
  | CJoin item how spec =>
      bind (step_join (q_from s) (q_update_table s) (q_joins s) (q_subquery_count s) item how spec)
           (fun r => Ok (set_subquery_count (snd r) (set_joins (fst r) s)))
  | CWhere c =>
      if is_empty c then Ok s
      else Ok (set_wheres (add_filter (q_wheres s) c)
                 (set_foreign_table (if validate_table (q_from s) (q_update_table s) (q_joins s) c
                                     then q_foreign_table s else true) s))
  | CPrewhere c =>
      Ok (set_prewheres (add_filter (q_prewheres s) c)
            (set_foreign_table (if validate_table (q_from s) (q_update_table s) (q_joins s) c
                                then q_foreign_table s else true) s))
  | CHaving c =>
      if is_empty c then Ok s else Ok (set_havings (add_filter (q_havings s) c) s)
  | CGroupby items =>
      bind (group_loop (q_from s) (q_groupbys s) items) (fun g => Ok (set_groupbys g s))
  | CRollup mysql ts =>
      bind (step_rollup (q_groupbys s) (q_mysql_rollup s) mysql ts)
           (fun r => Ok (set_mysql_rollup (snd r) (set_groupbys (fst r) s)))
  | COrderby items order =>
      bind (order_loop (q_from s) order (q_orderbys s) items) (fun o => Ok (set_orderbys o s))
  | CLimit z => Ok (set_limit (Some z) s)
  | COffset z => Ok (set_offset (Some z) s)
  | CDistinct => Ok (set_distinct true s)
  | CForUpdate None => Ok (set_for_update true s)
  | CForUpdate (Some (nowait, skip, of_)) =>
      Ok (set_for_update_of (dedup of_)
            (set_for_update_nowait nowait (set_for_update_skip_locked skip (set_for_update true s))))
  | CWith name body => Ok (set_with (q_with s ++ [(name, body)]) s)
  | CForceIndex names => Ok (set_force_indexes (q_force_indexes s ++ names) s)
  | CUseIndex names => Ok (set_use_indexes (q_use_indexes s ++ names) s)
  | CSet f v => Ok (set_updates (q_updates s ++ [(f, v)]) s)
  | CColumns items =>
      match q_insert_table s with
      | None => Err "AttributeError"
      | Some _ => Ok (set_columns (q_columns s ++ map (col_item_term (q_insert_table s)) items) s)
      end
  | CInsert rep rows =>
      match q_insert_table s with
      | None => Err "AttributeError"
      | Some _ => Ok (set_replace rep (set_values (q_values s ++ rows) s))
      end
  | CInsertOrReplace rows =>
      match q_insert_table s with
      | None => Err "AttributeError"
      | Some _ => Ok (set_insert_or_replace true (set_replace true (set_values (q_values s ++ rows) s)))
      end
  | CHint label => Ok (set_hint (Some label) s)
  | CModifier v => Ok (set_modifiers (q_modifiers s ++ [v]) s)
  | CFinal => Ok (set_final true s)
  | CSample n off => Ok (set_sample_offset off (set_sample (Some n) s))
  | CLimitBy n off by_ => Ok (set_limit_by (Some (n, off, map (col_item_term None) by_)) s)
  | CDistinctOn fields => Ok (set_distinct_on (q_distinct_on s ++ map (col_item_term None) fields) s)
  | CTop v percent ties =>
      match top_value v with
      | None => Err "QueryException"                 (* not an integer *)
      | Some n =>
          if percent && negb ((0 <=? n) && (n <=? 100)) then Err "QueryException"
          else Ok (set_top_with_ties ties (set_top_percent percent (set_top (Some n) s)))
      end
  end.

Fixpoint run (s : qstate) (l : list call) : res qstate :=
  match l with
  | [] => Ok s
  | c :: r => bind (step s c) (fun s' => run s' r)
  end.

(* ---- footprints: the slots a call of kind k may write / may read at call time --------------- *)
Definition writes (k : kind) : list slot :=
  match k with
  | KFrom => [S_from; S_subquery_count]
  | KInto => [S_insert_table; S_select_into]
  | KUpdate => [S_update_table]
  | KSelect => [S_selects; S_select_star; S_select_star_tables]
  | KJoin => [S_joins; S_subquery_count]
  | KWhere => [S_wheres; S_foreign_table]
  | KPrewhere => [S_prewheres; S_foreign_table]
  | KGroupby => [S_groupbys; S_mysql_rollup]
  | KHaving => [S_havings]
  | KOrderby => [S_orderbys]
  | KLimit => [S_limit]
  | KOffset => [S_offset]
  | KDistinct => [S_distinct]
  | KForUpdate => [S_for_update; S_for_update_nowait; S_for_update_skip_locked; S_for_update_of]
  | KWith => [S_with]
  | KForceIndex => [S_force_indexes]
  | KUseIndex => [S_use_indexes]
  | KSet => [S_updates]
  | KColumns => [S_columns]
  | KInsert => [S_values; S_replace; S_insert_or_replace]
  | KHint => [S_hint]
  | KModifier => [S_modifiers]
  | KFinal => [S_final]
  | KSample => [S_sample; S_sample_offset]
  | KLimitBy => [S_limit_by]
  | KDistinctOn => [S_distinct_on]
  | KTop => [S_top; S_top_percent; S_top_with_ties]
  end.
(* reads (beyond the old value of the written slots) *)
Definition reads (k : kind) : list slot :=
  match k with
  | KInto => [S_selects]
  | KUpdate => [S_selects]
  | KSelect => [S_from]
  | KJoin => [S_from; S_update_table]
  | KWhere => [S_from; S_update_table; S_joins]
  | KPrewhere => [S_from; S_update_table; S_joins]
  | KGroupby => [S_from]
  | KOrderby => [S_from]
  | KColumns => [S_insert_table]
  | KInsert => [S_insert_table]
  | _ => []
  end.
Definition deps (k : kind) : list slot := reads k ++ writes k.

Fixpoint smem (x : slot) (l : list slot) : bool :=
  match l with [] => false | y :: r => slot_eqb x y || smem x r end.
Definition disjoint (a b : list slot) : bool := forallb (fun x => negb (smem x b)) a.
(* neither call writes what the other reads or writes *)
Definition independent (k1 k2 : kind) : bool :=
  disjoint (writes k1) (deps k2) && disjoint (writes k2) (deps k1).
(* the pairs that are NOT footprint-independent and are treated by their own lemma *)
Definition special (k1 k2 : kind) : bool :=
  match k1, k2 with
  | KWhere, KPrewhere | KPrewhere, KWhere       (* both or into _foreign_table *)
  | KWhere, KJoin | KJoin, KWhere               (* _validate_table reads _joins *)
  | KPrewhere, KJoin | KJoin, KPrewhere => true
  | _, _ => false
  end.
Definition footprint_table : bool :=
  forallb (fun k1 => forallb (fun k2 =>
     negb (commuting k1 && commuting k2) || kind_eqb k1 k2 || independent k1 k2 || special k1 k2) all_kinds) all_kinds.

(* ---- what get_sql can see: with_namespace (queries.py get_sql, the any([...])) -------------- *)
Definition forced (s : qstate) : bool :=
  negb (is_nil (q_joins s))
  || (1 <? Z.of_nat (List.length (q_from s)))
  || match q_from s with Sub _ _ :: _ => true | _ => false end
  || (is_some (q_update_table s) && negb (is_nil (q_from s))).
Definition with_namespace_of (s : qstate) : bool := forced s || q_foreign_table s.

(* render-equivalence: equal on every slot except _foreign_table, and the same with_namespace *)
Definition equiv (a b : qstate) : Prop :=
  (forall x, slot_eqb x S_foreign_table = false -> eq_on x a b) /\ with_namespace_of a = with_namespace_of b.

(* an arbitrary renderer that sees the flag only through with_namespace *)
Definition render {T} (R : bool -> qstate -> T) (s : qstate) : T :=
  R (with_namespace_of s) (set_foreign_table false s).

(* l2 is an interleaving of l1 that keeps the relative order of the calls of every kind *)
Definition kfilter (k : kind) (l : list call) : list call := filter (fun c => kind_eqb (kind_of c) k) l.
Definition same_kind_order (l1 l2 : list call) : Prop := forall k, kfilter k l1 = kfilter k l2.
Definition all_commuting (l : list call) : bool := forallb (fun c => commuting (kind_of c)) l.

(* ---- accumulation: the effect of a whole call list on the slots that only ever grow --------------------- *)
Definition acc_wheres (w : option term) (c : call) : option term :=
  match c with CWhere x => if is_empty x then w else add_filter w x | _ => w end.
Definition acc_prewheres (w : option term) (c : call) : option term :=
  match c with CPrewhere x => add_filter w x | _ => w end.
Definition acc_havings (w : option term) (c : call) : option term :=
  match c with CHaving x => if is_empty x then w else add_filter w x | _ => w end.
Definition acc_with (w : list (string * term)) (c : call) : list (string * term) :=
  match c with CWith n b => w ++ [(n, b)] | _ => w end.
Definition acc_force (w : list string) (c : call) : list string :=
  match c with CForceIndex l => w ++ l | _ => w end.
Definition acc_use (w : list string) (c : call) : list string :=
  match c with CUseIndex l => w ++ l | _ => w end.
Definition acc_updates (w : list (term * term)) (c : call) : list (term * term) :=
  match c with CSet f v => w ++ [(f, v)] | _ => w end.
Definition acc_values (w : list (list term)) (c : call) : list (list term) :=
  match c with CInsert _ rows => w ++ rows | CInsertOrReplace rows => w ++ rows | _ => w end.
(* orderby / groupby by explicit terms or by name against the fixed first FROM item *)
Definition acc_orderbys (fr : list tbl) (w : list (term * option string)) (c : call) : list (term * option string) :=
  match c with
  | COrderby items o =>
      w ++ map (fun i => (match i with OTerm t => t | OStr n => field_of n (hd_error fr) end, o)) items
  | _ => w
  end.

End Builder.

(* ---- canonical clause order (the specification side of the extracted get_sql table) --------- *)
(* SELECT statement: every clause get_sql may emit, in the order SQL requires *)
Definition canonical_select_order : list string :=
  ["with"; "select"; "into"; "from"; "using"; "force_index"; "use_index"; "joins"; "prewhere"; "where";
   "group"; "rollup"; "having"; "orderby"; "pagination"; "for_update"].
Definition canonical_update_order : list string :=
  ["with"; "update"; "joins"; "set"; "from"; "where"; "limit"].
Definition canonical_insert_order : list string :=
  ["with"; "replace"; "insert"; "columns"; "values"; "select"].

(* the (condition, clause) pairs of QueryBuilder.get_sql in source order, as approved when this model was written;
   gen/C08Table.v is re-extracted from the source on every run and must be equal to it *)
Definition expected_get_sql_table : list (string * string) :=
  [("not (self._selects or self._insert_table or self._delete_from or self._update_table)", "RETURN");
   ("self._insert_table and (not (self._selects or self._values))", "RETURN");
   ("self._update_table and (not self._updates)", "RETURN");
   ("self._update_table and self._with", "with");
   ("self._update_table", "update");
   ("self._update_table and self._joins", "joins");
   ("self._update_table", "set");
   ("self._update_table and self._from", "from");
   ("self._update_table and self._wheres", "where");
   ("self._update_table and self._limit is not None", "limit");
   ("self._update_table", "RETURN");
   ("self._delete_from", "delete");
   ("not (self._delete_from) and not self._select_into and self._insert_table and self._with", "with");
   ("not (self._delete_from) and not self._select_into and self._insert_table and self._replace", "replace");
   ("not (self._delete_from) and not self._select_into and self._insert_table and not (self._replace)", "insert");
   ("not (self._delete_from) and not self._select_into and self._insert_table and self._columns", "columns");
   ("not (self._delete_from) and not self._select_into and self._insert_table and self._values", "values");
   ("not (self._delete_from) and not self._select_into and self._insert_table and self._values", "RETURN");
   ("not (self._delete_from) and not self._select_into and self._insert_table and not (self._values)", "select");
   ("not (self._delete_from) and not (not self._select_into and self._insert_table) and self._with", "with");
   ("not (self._delete_from) and not (not self._select_into and self._insert_table)", "select");
   ("not (self._delete_from) and not (not self._select_into and self._insert_table) and self._insert_table", "into");
   ("self._from", "from");
   ("self._using", "using");
   ("self._force_indexes", "force_index");
   ("self._use_indexes", "use_index");
   ("self._joins", "joins");
   ("self._prewheres", "prewhere");
   ("self._wheres", "where");
   ("self._groupbys", "group");
   ("self._groupbys and self._mysql_rollup", "rollup");
   ("self._havings", "having");
   ("self._orderbys", "orderby");
   ("", "pagination");
   ("self._for_update", "for_update");
   ("with_alias", "RETURN");
   ("", "RETURN")].
Definition expected_pagination_base : list (string * string) :=
  [("self._limit is not None", "limit"); ("self._offset", "offset"); ("", "RETURN")].
Definition expected_pagination_oracle : list (string * string) :=
  [("self._offset", "offset"); ("self._limit is not None", "limit"); ("", "RETURN")].
Definition expected_pagination_mssql : list (string * string) :=
  [("self._limit is not None or self._offset", "offset"); ("self._limit is not None", "limit"); ("", "RETURN")].
Definition expected_pagination_clickhouse : list (string * string) :=
  [("self._limit_by", "limit_by"); ("", "super_pagination")].

(* the clause names a table emits under conditions that mention [key] (or under every condition for key = ""),
   up to the first unconditional RETURN of that branch *)
Fixpoint has_sub (key s : string) : bool :=
  if String.prefix key s then true
  else match s with EmptyString => false | String _ r => has_sub key r end.
Definition clauses_where (p : string -> bool) (t : list (string * string)) : list string :=
  map snd (filter (fun r => p (fst r) && negb (String.eqb (snd r) "RETURN")) t).
(* the three statement shapes of get_sql *)
Definition update_branch (t : list (string * string)) : list string :=
  clauses_where (has_sub "self._update_table") t.
Definition insert_branch (t : list (string * string)) : list string :=
  clauses_where (fun c => has_sub "not self._select_into and self._insert_table" c
                          && negb (has_sub "not (not self._select_into" c)) t.
Definition select_branch (t : list (string * string)) : list string :=
  clauses_where (fun c => has_sub "not (not self._select_into" c
                          || negb (has_sub "self._update_table" c || has_sub "self._insert_table" c
                                   || has_sub "self._delete_from" c || has_sub "self._selects" c)) t.
