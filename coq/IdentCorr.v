(* IdentCorr.v — executable interpreter for the C16 correspondence cases.  Definitions only.
   A case = the construction programs of two or three objects + everything the harness observed on
   the real objects (==, !=, hash(), in [..], in {..}, {..}.get()).  The model is evaluated on the
   configuration regenerated from the code under test (gen/C16Table.v : x_cfg). *)
From PV Require Import Base Ident.
From PV Require Import gen.C16Table.

Inductive obs :=
| OBuild (i : nat) (exc : option string)           (* constructing object i returned / raised *)
| OEq (i j : nat) (r : res bool)                   (* x_i == x_j *)
| ONe (i j : nat) (r : res bool)                   (* x_i != x_j *)
| OHashable (i : nat) (r : bool)                   (* hash(x_i) returns (true) / raises TypeError (false) *)
| OHashEq (i j : nat) (r : bool)                   (* both hashable: hash(x_i) == hash(x_j) *)
| OInList (i : nat) (js : list nat) (r : res bool) (* x_i in [x_j ...] *)
| OInSet (i : nat) (js : list nat) (r : res bool)  (* x_i in {x_j ...} *)
| ODict (i : nat) (js : list nat) (r : res bool).  (* {x_j: .. ...}.get(x_i) is not None *)

Definition case := (list iprog * list obs)%type.

Definition nth_obj (objs : list (res ident)) (i : nat) : res ident := nth i objs (Err "NoSuchObject").

(* Python's hash function is not computed by the model: its equalities are taken from the recorded
   observations (OHashEq), after checking that they respect the model's keys. *)
Fixpoint heq_lookup (os : list obs) (i j : nat) : bool :=
  match os with
  | [] => false
  | OHashEq a b r :: rest =>
      if (Nat.eqb a i && Nat.eqb b j) || (Nat.eqb a j && Nat.eqb b i) then r else heq_lookup rest i j
  | _ :: rest => heq_lookup rest i j
  end.

Fixpoint collect (objs : list (res ident)) (js : list nat) : option (list (nat * ident)) :=
  match js with
  | [] => Some []
  | j :: r => match nth_obj objs j, collect objs r with
              | Ok x, Some l => Some ((j, x) :: l)
              | _, _ => None
              end
  end.

Definition rb_eqb (x y : res bool) : bool := res_eqb Bool.eqb x y.

Definition model_in_list (objs : list (res ident)) (i : nat) (js : list nat) : option (res bool) :=
  match nth_obj objs i, collect objs js with
  | Ok a, Some l => Some (Ok (in_list x_cfg a (map snd l)))
  | _, _ => None
  end.
Definition model_in_set (os : list obs) (objs : list (res ident)) (i : nat) (js : list nat) : option (res bool) :=
  match nth_obj objs i, collect objs js with
  | Ok a, Some l =>
      Some (in_set_gen (fun p : nat * ident => hashable x_cfg (snd p))
                       (fun p q => heq_lookup os (fst p) (fst q))
                       (fun p q => ieq x_cfg (snd p) (snd q)) (i, a) l)
  | _, _ => None
  end.

Definition check_obs (os : list obs) (objs : list (res ident)) (o : obs) : bool :=
  match o with
  | OBuild i exc =>
      match nth_obj objs i, exc with
      | Ok _, None => true
      | Err e, Some f => String.eqb e f
      | _, _ => false
      end
  | OEq i j r =>
      match nth_obj objs i, nth_obj objs j with
      | Ok a, Ok b => rb_eqb (Ok (ieq x_cfg a b)) r
      | _, _ => false
      end
  | ONe i j r =>
      match nth_obj objs i, nth_obj objs j with
      | Ok a, Ok b => rb_eqb (Ok (ine x_cfg a b)) r
      | _, _ => false
      end
  | OHashable i r =>
      match nth_obj objs i with Ok a => Bool.eqb (hashable x_cfg a) r | _ => false end
  | OHashEq i j r =>
      match nth_obj objs i, nth_obj objs j with
      | Ok a, Ok b =>
          hashable x_cfg a && hashable x_cfg b
          && (if key_eqb (ikey x_cfg a) (ikey x_cfg b) then r else true)   (* equal keys must hash equal *)
      | _, _ => false
      end
  | OInList i js r =>
      match model_in_list objs i js with Some m => rb_eqb m r | None => false end
  | OInSet i js r =>
      match model_in_set os objs i js with Some m => rb_eqb m r | None => false end
  | ODict i js r =>
      match model_in_set os objs i js with Some m => rb_eqb m r | None => false end
  end.

Definition check_case (c : case) : bool :=
  let objs := map ev_iprog (fst c) in
  forallb (check_obs (snd c) objs) (snd c).

(* ---- what the model says, for the replay files ---- *)
Definition show_bool (b : bool) : string := if b then "True" else "False".
Definition show_rb (r : res bool) : string := match r with Ok b => show_bool b | Err e => "!" ++ e end.
Definition show_orb (r : option (res bool)) : string := match r with Some x => show_rb x | None => "?" end.
Definition show_nats (l : list nat) : string := "[" ++ join "," (map nat_to_string l) ++ "]".

Definition show_obs (os : list obs) (objs : list (res ident)) (o : obs) : string :=
  (if check_obs os objs o then "  ok  " else "  BAD ") ++
  match o with
  | OBuild i _ => "build " ++ nat_to_string i ++ " -> " ++ match nth_obj objs i with Ok _ => "ok" | Err e => "!" ++ e end
  | OEq i j _ => nat_to_string i ++ " == " ++ nat_to_string j ++ " -> " ++
                 match nth_obj objs i, nth_obj objs j with Ok a, Ok b => show_bool (ieq x_cfg a b) | _, _ => "?" end
  | ONe i j _ => nat_to_string i ++ " != " ++ nat_to_string j ++ " -> " ++
                 match nth_obj objs i, nth_obj objs j with Ok a, Ok b => show_bool (ine x_cfg a b) | _, _ => "?" end
  | OHashable i _ => "hashable " ++ nat_to_string i ++ " -> " ++
                 match nth_obj objs i with Ok a => show_bool (hashable x_cfg a) | _ => "?" end
  | OHashEq i j _ => "keys equal " ++ nat_to_string i ++ " " ++ nat_to_string j ++ " -> " ++
                 match nth_obj objs i, nth_obj objs j with
                 | Ok a, Ok b => show_bool (key_eqb (ikey x_cfg a) (ikey x_cfg b)) | _, _ => "?" end
  | OInList i js _ => nat_to_string i ++ " in list " ++ show_nats js ++ " -> " ++ show_orb (model_in_list objs i js)
  | OInSet i js _ => nat_to_string i ++ " in set " ++ show_nats js ++ " -> " ++ show_orb (model_in_set os objs i js)
  | ODict i js _ => nat_to_string i ++ " dict.get " ++ show_nats js ++ " -> " ++ show_orb (model_in_set os objs i js)
  end ++ ";" ++ codes [10].

Definition show_case (c : case) : string :=
  let objs := map ev_iprog (fst c) in
  sconcat (map (show_obs (snd c) objs) (snd c)).
