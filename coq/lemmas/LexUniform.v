(* LexUniform.v — the token list of a term depends on its str payloads only inside the literal tokens. *)
From PV Require Import Base Crit gen.TermsTable Terms gen.C03Table Lex lemmas.LexLemmas lemmas.LexTokLemmas.
Local Open Scope list_scope.

Section Uniform.
Variable f : string -> string.

(* ---- what the renderer inspects of a child is untouched by payload replacement ---- *)
Lemma top_op_map_all :
  (forall t, top_op (map_strs f t) = top_op t) /\ (forall l : tlist, True) /\ (forall l : wlist, True) /\ (forall o : oterm, True).
Proof. apply term_all_ind3; intros; auto; cbn [map_strs top_op]; auto. Qed.
Lemma top_op_map t : top_op (map_strs f t) = top_op t.
Proof. apply (proj1 top_op_map_all). Qed.
Lemma top_bop_map t : top_bop (map_strs f t) = top_bop t.
Proof. destruct t; reflexivity. Qed.

Lemma okind_of_map t : okind_of (map_strs f t) = okind_of t.
Proof. destruct t; reflexivity. Qed.
Lemma opc_map sl t c : opc sl (map_strs f t) c = opc sl t c.
Proof. unfold opc. rewrite okind_of_map. reflexivity. Qed.
Lemma neg_kind_map t :
  match map_strs f t with TArith _ _ _ _ => neg_parens_arith | TNeg _ => neg_parens_neg | _ => false end
  = match t with TArith _ _ _ _ => neg_parens_arith | TNeg _ => neg_parens_neg | _ => false end.
Proof. destruct t; reflexivity. Qed.

(* ---- the secondary quote stays a single character along every context change ---- *)
Lemma sq1_opc sl t c : sq1 (opc sl t c) = sq1 c.
Proof. unfold opc. destruct (operand_parens sl (okind_of t) && negb operand_keeps_subc); reflexivity. Qed.
Lemma sq1_set_wa c b : sq1 (set_wa c b) = sq1 c. Proof. reflexivity. Qed.
Lemma sq1_set_subq c b : sq1 (set_subq c b) = sq1 c. Proof. reflexivity. Qed.
Lemma sq1_set_subc c b : sq1 (set_subc c b) = sq1 c. Proof. reflexivity. Qed.
Lemma sq1_fctx c : sq1 (fctx c) = sq1 c. Proof. reflexivity. Qed.

(* ---- shape commutes with the token combinators ---- *)
Lemma map_shape_alias c qc ts alias : map shape (alias_toks c qc ts alias) = alias_toks c qc (map shape ts) alias.
Proof. destruct alias; cbn [alias_toks]; [rewrite map_app|]; reflexivity. Qed.
Lemma map_shape_tparen b ts : map shape (tparen b ts) = tparen b (map shape ts).
Proof. destruct b; cbn [tparen]; [cbn [map shape]; rewrite map_app|]; reflexivity. Qed.
Lemma map_shape_tjoin sep l : map shape (tjoin sep l) = tjoin sep (map (map shape) l).
Proof.
  induction l as [|x r IH]; [reflexivity|]. destruct r as [|y r']; [reflexivity|].
  change (tjoin sep (x :: y :: r')) with (x ++ CText sep :: tjoin sep (y :: r')).
  rewrite map_app. cbn [map shape]. rewrite IH. reflexivity.
Qed.
Lemma map_shape_topnd sl t ts : map shape (topnd sl t ts) = topnd sl t (map shape ts).
Proof. apply map_shape_tparen. Qed.
Lemma topnd_map sl t ts : topnd sl (map_strs f t) ts = topnd sl t ts.
Proof. unfold topnd. rewrite okind_of_map. reflexivity. Qed.

(* the first character of the text is decided by the shapes: a literal starts with its quote whatever its payload *)
Definition head_char (s : string) : option ascii := match s with String a _ => Some a | EmptyString => None end.
Lemma head_char_app a b : head_char (a ++ b)%string = match head_char a with Some x => Some x | None => head_char b end.
Proof. destruct a; reflexivity. Qed.
Lemma head_char_shape t : head_char (ctok_text (shape t)) = head_char (ctok_text t).
Proof. destruct t; reflexivity. Qed.
Lemma head_char_flat_shape ts : head_char (cflatten (map shape ts)) = head_char (cflatten ts).
Proof.
  induction ts as [|t r IH]; [reflexivity|]. cbn [map]. rewrite !cflatten_cons, !head_char_app, head_char_shape, IH. reflexivity.
Qed.
Lemma starts_minus_head s : starts_minus s = match head_char s with Some a => Ascii.eqb a "-"%char | None => false end.
Proof. destruct s; reflexivity. Qed.
Lemma tstarts_minus_cong a b : map shape a = map shape b -> tstarts_minus a = tstarts_minus b.
Proof.
  intros H. unfold tstarts_minus. rewrite !starts_minus_head, <- (head_char_flat_shape a), <- (head_char_flat_shape b), H.
  reflexivity.
Qed.
Lemma topnd_cong sl t a b : map shape a = map shape b -> map shape (topnd sl t a) = map shape (topnd sl t b).
Proof. intros H. rewrite !map_shape_topnd, H. reflexivity. Qed.

Lemma tok_empty_shape t : tok_empty (shape t) = tok_empty t.
Proof. destruct t; reflexivity. Qed.
Lemma all_empty_shape ts : all_empty (map shape ts) = all_empty ts.
Proof. unfold all_empty. induction ts as [|t r IH]; [reflexivity|]. cbn [map forallb]. rewrite tok_empty_shape, IH. reflexivity. Qed.
Lemma all_empty_cong a b : map shape a = map shape b -> all_empty a = all_empty b.
Proof. intros H. rewrite <- (all_empty_shape a), <- (all_empty_shape b), H. reflexivity. Qed.

Lemma lit_shape c s : sq1 c = true -> map shape (lit_toks c (f s)) = map shape (lit_toks c s).
Proof. unfold sq1, lit_toks. destruct (one_char (sq c)); [reflexivity|discriminate]. Qed.

Lemma rmap_bind_cong {A B C D} (sa : A -> C) (sb : B -> D) (X' X : res A) (F' F : A -> res B) :
  rmap sa X' = rmap sa X ->
  (forall a' a, sa a' = sa a -> rmap sb (F' a') = rmap sb (F a)) ->
  rmap sb (bind X' F') = rmap sb (bind X F).
Proof.
  intros H HF. destruct X' as [a'|e'], X as [a|e]; cbn in H; try discriminate.
  - cbn [bind]. apply HF. congruence.
  - cbn. congruence.
Qed.

Definition Ut (t : term) := forall c, sq1 c = true ->
  rmap (map shape) (toks c (map_strs f t)) = rmap (map shape) (toks c t).
Definition Ul (l : tlist) := forall c, sq1 c = true ->
  rmap (map (map shape)) (toks_list c (map_strs_l f l)) = rmap (map (map shape)) (toks_list c l).
Definition Uw (l : wlist) := forall c, sq1 c = true ->
  rmap (map (map shape)) (toks_whens c (map_strs_w f l)) = rmap (map (map shape)) (toks_whens c l).
Definition Uo (o : oterm) := match o with ONone => True | OSome t => Ut t end.

Ltac sh := cbn [rmap]; f_equal;
  rewrite ?map_shape_alias, ?map_app; cbn [map shape];
  rewrite ?map_shape_tparen, ?map_shape_topnd, ?map_shape_tjoin, ?map_app; cbn [map shape];
  rewrite ?map_shape_tparen, ?map_shape_topnd, ?map_shape_tjoin, ?map_app; cbn [map shape];
  rewrite ?map_shape_tparen, ?map_shape_topnd, ?map_shape_tjoin, ?map_app; cbn [map shape].

Lemma uniform_all : (forall t, Ut t) /\ (forall l, Ul l) /\ (forall l, Uw l) /\ (forall o, Uo o).
Proof.
  apply term_all_ind3; unfold Ut, Ul, Uw, Uo.
  - (* TField *) reflexivity.
  - (* TStar *) reflexivity.
  - (* TValS *) intros s alias c H. cbn [map_strs toks rmap]. rewrite !map_shape_alias, (lit_shape c s H). reflexivity.
  - reflexivity.
  - reflexivity.
  - reflexivity.
  - reflexivity.
  - reflexivity.
  - reflexivity.
  - (* TNeg *) intros t IH c H. cbn [map_strs toks]. rewrite opc_map, neg_kind_map.
    eapply rmap_bind_cong; [apply IH; rewrite sq1_opc; exact H|].
    intros a' a Ha. rewrite !topnd_map. rewrite (tstarts_minus_cong _ _ (topnd_cong SNeg t _ _ Ha)). sh. congruence.
  - (* TArith *) intros op l IHl r IHr alias c H. cbn [map_strs toks]. rewrite !top_op_map, !opc_map.
    eapply rmap_bind_cong; [apply IHl; rewrite sq1_opc; exact H|]. intros a' a Ha.
    eapply rmap_bind_cong; [apply IHr; rewrite sq1_opc; exact H|]. intros b' b Hb.
    rewrite !topnd_map. rewrite (tstarts_minus_cong _ _ (topnd_cong SArithR r _ _ Hb)).
    destruct (wa c); sh; congruence.
  - (* TBasic *) intros cm l IHl r IHr alias c H. cbn [map_strs toks]. rewrite !opc_map.
    eapply rmap_bind_cong; [apply IHl; rewrite sq1_opc; exact H|]. intros a' a Ha.
    eapply rmap_bind_cong; [apply IHr; rewrite sq1_opc; exact H|]. intros b' b Hb.
    rewrite !topnd_map. destruct (wa c); sh; congruence.
  - (* TCplx *) intros bo l IHl r IHr alias c H. cbn [map_strs toks]. rewrite !top_bop_map.
    eapply rmap_bind_cong; [apply IHl; exact H|]. intros a' a Ha.
    eapply rmap_bind_cong; [apply IHr; exact H|]. intros b' b Hb.
    destruct (wa c); sh; congruence.
  - (* TIn *) intros t IHt cont IHc negated alias c H. cbn [map_strs toks]. rewrite !opc_map.
    eapply rmap_bind_cong; [apply IHt; rewrite sq1_opc; exact H|]. intros a' a Ha.
    eapply rmap_bind_cong; [apply IHc; exact H|]. intros b' b Hb.
    rewrite !topnd_map. sh. congruence.
  - (* TBetween *) intros t IHt lo IHlo hi IHhi alias c H. cbn [map_strs toks]. rewrite !opc_map.
    eapply rmap_bind_cong; [apply IHt; rewrite sq1_opc; exact H|]. intros a' a Ha.
    eapply rmap_bind_cong; [apply IHlo; rewrite sq1_opc; exact H|]. intros b' b Hb.
    eapply rmap_bind_cong; [apply IHhi; rewrite sq1_opc; exact H|]. intros d' d Hd.
    rewrite !topnd_map. sh. congruence.
  - (* TBitAnd *) intros t IHt v alias c H. cbn [map_strs toks].
    eapply rmap_bind_cong; [apply IHt; exact H|]. intros a' a Ha. sh. congruence.
  - (* TIsNull *) intros t IHt alias c H. cbn [map_strs toks]. rewrite !opc_map.
    eapply rmap_bind_cong; [apply IHt; rewrite sq1_opc; exact H|]. intros a' a Ha. rewrite !topnd_map. sh. congruence.
  - (* TNotNull *) intros t IHt alias c H. cbn [map_strs toks]. rewrite !opc_map.
    eapply rmap_bind_cong; [apply IHt; rewrite sq1_opc; exact H|]. intros a' a Ha. rewrite !topnd_map. sh. congruence.
  - (* TNot *) intros t IHt alias c H. cbn [map_strs toks].
    eapply rmap_bind_cong; [apply IHt; exact H|]. intros a' a Ha. sh. congruence.
  - (* TAll *) intros t IHt alias c H. cbn [map_strs toks].
    eapply rmap_bind_cong; [apply IHt; exact H|]. intros a' a Ha. sh. congruence.
  - (* TEmpty *) reflexivity.
  - (* TCase *) intros ws IHw els IHe alias c H. cbn [map_strs toks].
    destruct ws as [|cr v r]; [reflexivity|].
    change (map_strs_w f (WCons cr v r)) with (WCons (map_strs f cr) (map_strs f v) (map_strs_w f r)) at 1.
    cbv iota.
    eapply rmap_bind_cong; [apply (IHw (set_wa c false)); exact H|]. intros cs' cs Hcs.
    destruct els as [|t']; cbn [map_strs_o].
    + cbn [bind]. destruct (wa c); sh; congruence.
    + cbn in IHe. eapply (rmap_bind_cong (map shape) (map shape)).
      * eapply rmap_bind_cong; [apply IHe; exact H|]. intros a' a Ha. sh. congruence.
      * intros e' e He. destruct (wa c); sh; congruence.
  - (* TFunc *) intros name args IHa special alias c H. cbn [map_strs toks].
    eapply rmap_bind_cong; [apply IHa; exact H|]. intros ss' ss Hss.
    destruct (wa c); sh; congruence.
  - (* TTuple *) intros vs IHv alias c H. cbn [map_strs toks].
    eapply rmap_bind_cong; [apply IHv; exact H|]. intros ss' ss Hss. sh. congruence.
  - (* TArray *) intros vs IHv alias c H. cbn [map_strs toks].
    eapply rmap_bind_cong; [apply IHv; exact H|]. intros ss' ss Hss.
    assert (Hb : map shape (tjoin "," ss') = map shape (tjoin "," ss)) by (rewrite !map_shape_tjoin; congruence).
    cbn [rmap]. f_equal. rewrite !map_shape_alias. f_equal.
    destruct (is_pg (dia c)).
    + rewrite (all_empty_cong _ _ Hb). destruct (all_empty (tjoin "," ss)); [reflexivity|].
      cbn [map shape]. rewrite !map_app. congruence.
    + cbn [map shape]. rewrite !map_app. congruence.
  - (* TSub *) reflexivity.
  - (* TNil *) reflexivity.
  - (* TCons *) intros t IHt r IHr c H. cbn [map_strs_l toks_list].
    eapply rmap_bind_cong; [apply IHt; exact H|]. intros a' a Ha.
    eapply rmap_bind_cong; [apply IHr; exact H|]. intros b' b Hb.
    cbn [rmap map]. congruence.
  - (* WNil *) reflexivity.
  - (* WCons *) intros cr IHc v IHv r IHr c H. cbn [map_strs_w toks_whens].
    eapply rmap_bind_cong; [apply IHc; exact H|]. intros a' a Ha.
    eapply rmap_bind_cong; [apply IHv; exact H|]. intros b' b Hb.
    eapply rmap_bind_cong; [apply IHr; exact H|]. intros d' d Hd.
    cbn [rmap map shape]. rewrite !map_app. cbn [map shape]. congruence.
  - (* ONone *) exact I.
  - (* OSome *) intros t IHt. exact IHt.
Qed.

Theorem uniform_map : forall c t, sq1 c = true ->
  rmap (map shape) (toks c (map_strs f t)) = rmap (map shape) (toks c t).
Proof. intros c t. apply (proj1 uniform_all t c). Qed.
End Uniform.

(* two terms that differ only in their str payloads have the same token shapes *)
Theorem uniform : forall c t1 t2, sq1 c = true -> erase t1 = erase t2 ->
  rmap (map shape) (toks c t1) = rmap (map shape) (toks c t2).
Proof.
  intros c t1 t2 H E. rewrite <- (uniform_map (fun _ => EmptyString) c t1 H), <- (uniform_map (fun _ => EmptyString) c t2 H).
  unfold erase in E. rewrite E. reflexivity.
Qed.

(* map_strs g t and t have the same erasure *)
Lemma erase_map_all g :
  (forall t, erase (map_strs g t) = erase t)
  /\ (forall l, map_strs_l (fun _ => EmptyString) (map_strs_l g l) = map_strs_l (fun _ => EmptyString) l)
  /\ (forall l, map_strs_w (fun _ => EmptyString) (map_strs_w g l) = map_strs_w (fun _ => EmptyString) l)
  /\ (forall o, map_strs_o (fun _ => EmptyString) (map_strs_o g o) = map_strs_o (fun _ => EmptyString) o).
Proof.
  unfold erase. apply term_all_ind3; intros; cbn [map_strs map_strs_l map_strs_w map_strs_o]; congruence.
Qed.
