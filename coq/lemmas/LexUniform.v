(* LexUniform.v — the token list of a term depends on its str payloads only inside the literal tokens. *)
From PV Require Import Base Crit gen.TermsTable Terms gen.C03Table Lex lemmas.LexLemmas lemmas.LexTokLemmas.
Local Open Scope list_scope.

Section Uniform.
Variable f : string -> string.

(* ---- what the renderer inspects of a child is untouched by payload replacement ---- *)
Lemma top_op_map_all :
  (forall t, top_op (map_strs f t) = top_op t) /\ (forall l : tlist, True) /\ (forall l : wlist, True) /\ (forall o : oterm, True).
Proof. apply term_all_ind3; intros; auto; cbn [map_strs top_op]; auto. Qed.
Lemma top_op_map t : top_op (map_strs f t) = top_op t.
Proof. apply (proj1 top_op_map_all). Qed.
Lemma top_bop_map t : top_bop (map_strs f t) = top_bop t.
Proof. destruct t; reflexivity. Qed.

(* ---- the secondary quote stays a single character along every context change ---- *)
Lemma sq1_set_wa c b : sq1 (set_wa c b) = sq1 c. Proof. reflexivity. Qed.
Lemma sq1_set_subq c b : sq1 (set_subq c b) = sq1 c. Proof. reflexivity. Qed.
Lemma sq1_set_subc c b : sq1 (set_subc c b) = sq1 c. Proof. reflexivity. Qed.
Lemma sq1_fctx c : sq1 (fctx c) = true. Proof. reflexivity. Qed.

(* ---- shape commutes with the token combinators ---- *)
Lemma map_shape_alias c qc ts alias : map shape (alias_toks c qc ts alias) = alias_toks c qc (map shape ts) alias.
Proof. destruct alias; cbn [alias_toks]; [rewrite map_app|]; reflexivity. Qed.
Lemma map_shape_tparen b ts : map shape (tparen b ts) = tparen b (map shape ts).
Proof. destruct b; cbn [tparen]; [cbn [map shape]; rewrite map_app|]; reflexivity. Qed.
Lemma map_shape_tjoin sep l : map shape (tjoin sep l) = tjoin sep (map (map shape) l).
Proof.
  induction l as [|x r IH]; [reflexivity|]. destruct r as [|y r']; [reflexivity|].
  change (tjoin sep (x :: y :: r')) with (x ++ CText sep :: tjoin sep (y :: r')).
  rewrite map_app. cbn [map shape]. rewrite IH. reflexivity.
Qed.
Lemma tok_empty_shape t : tok_empty (shape t) = tok_empty t.
Proof. destruct t; reflexivity. Qed.
Lemma all_empty_shape ts : all_empty (map shape ts) = all_empty ts.
Proof. unfold all_empty. induction ts as [|t r IH]; [reflexivity|]. cbn [map forallb]. rewrite tok_empty_shape, IH. reflexivity. Qed.
Lemma all_empty_cong a b : map shape a = map shape b -> all_empty a = all_empty b.
Proof. intros H. rewrite <- (all_empty_shape a), <- (all_empty_shape b), H. reflexivity. Qed.

Lemma lit_shape c s : sq1 c = true -> map shape (lit_toks c (f s)) = map shape (lit_toks c s).
Proof. unfold sq1, lit_toks. destruct (one_char (sq c)); [reflexivity|discriminate]. Qed.

Lemma rmap_bind_cong {A B C D} (sa : A -> C) (sb : B -> D) (X' X : res A) (F' F : A -> res B) :
  rmap sa X' = rmap sa X ->
  (forall a' a, sa a' = sa a -> rmap sb (F' a') = rmap sb (F a)) ->
  rmap sb (bind X' F') = rmap sb (bind X F).
Proof.
  intros H HF. destruct X' as [a'|e'], X as [a|e]; cbn in H; try discriminate.
  - cbn [bind]. apply HF. congruence.
  - cbn. congruence.
Qed.

Definition Ut (t : term) := forall c, sq1 c = true ->
  rmap (map shape) (toks c (map_strs f t)) = rmap (map shape) (toks c t).
Definition Ul (l : tlist) := forall c, sq1 c = true ->
  rmap (map (map shape)) (toks_list c (map_strs_l f l)) = rmap (map (map shape)) (toks_list c l).
Definition Uw (l : wlist) := forall c, sq1 c = true ->
  rmap (map (map shape)) (toks_whens c (map_strs_w f l)) = rmap (map (map shape)) (toks_whens c l).
Definition Uo (o : oterm) := match o with ONone => True | OSome t => Ut t end.

Ltac sh := cbn [rmap]; f_equal;
  rewrite ?map_shape_alias, ?map_app; cbn [map shape];
  rewrite ?map_shape_tparen, ?map_shape_tjoin, ?map_app; cbn [map shape];
  rewrite ?map_shape_tparen, ?map_shape_tjoin, ?map_app; cbn [map shape].

Lemma uniform_all : (forall t, Ut t) /\ (forall l, Ul l) /\ (forall l, Uw l) /\ (forall o, Uo o).
Proof.
  apply term_all_ind3; unfold Ut, Ul, Uw, Uo.
  - (* TField *) reflexivity.
  - (* TStar *) reflexivity.
  - (* TValS *) intros s alias c H. cbn [map_strs toks rmap]. rewrite !map_shape_alias, (lit_shape c s H). reflexivity.
  - reflexivity.
  - reflexivity.
  - reflexivity.
  - reflexivity.
  - reflexivity.
  - reflexivity.
  - (* TNeg *) intros t IH c H. cbn [map_strs toks]. eapply rmap_bind_cong; [apply IH; exact H|].
    intros a' a Ha. sh. congruence.
  - (* TArith *) intros op l IHl r IHr alias c H. cbn [map_strs toks]. rewrite !top_op_map.
    eapply rmap_bind_cong; [apply IHl; exact H|]. intros a' a Ha.
    eapply rmap_bind_cong; [apply IHr; exact H|]. intros b' b Hb.
    destruct (wa c); sh; congruence.
  - (* TBasic *) intros cm l IHl r IHr alias c H. cbn [map_strs toks].
    eapply rmap_bind_cong; [apply IHl; exact H|]. intros a' a Ha.
    eapply rmap_bind_cong; [apply IHr; exact H|]. intros b' b Hb.
    destruct (wa c); sh; congruence.
  - (* TCplx *) intros bo l IHl r IHr alias c H. cbn [map_strs toks]. rewrite !top_bop_map.
    eapply rmap_bind_cong; [apply IHl; exact H|]. intros a' a Ha.
    eapply rmap_bind_cong; [apply IHr; exact H|]. intros b' b Hb.
    sh. congruence.
  - (* TIn *) intros t IHt cont IHc negated alias c H. cbn [map_strs toks].
    eapply rmap_bind_cong; [apply IHt; exact H|]. intros a' a Ha.
    eapply rmap_bind_cong; [apply IHc; exact H|]. intros b' b Hb.
    sh. congruence.
  - (* TBetween *) intros t IHt lo IHlo hi IHhi alias c H. cbn [map_strs toks].
    eapply rmap_bind_cong; [apply IHt; exact H|]. intros a' a Ha.
    eapply rmap_bind_cong; [apply IHlo; exact H|]. intros b' b Hb.
    eapply rmap_bind_cong; [apply IHhi; exact H|]. intros d' d Hd.
    sh. congruence.
  - (* TBitAnd *) intros t IHt v alias c H. cbn [map_strs toks].
    eapply rmap_bind_cong; [apply IHt; exact H|]. intros a' a Ha. sh. congruence.
  - (* TIsNull *) intros t IHt alias c H. cbn [map_strs toks].
    eapply rmap_bind_cong; [apply IHt; exact H|]. intros a' a Ha. sh. congruence.
  - (* TNotNull *) intros t IHt alias c H. cbn [map_strs toks].
    eapply rmap_bind_cong; [apply IHt; exact H|]. intros a' a Ha. sh. congruence.
  - (* TNot *) intros t IHt alias c H. cbn [map_strs toks].
    eapply rmap_bind_cong; [apply IHt; exact H|]. intros a' a Ha. sh. congruence.
  - (* TAll *) intros t IHt alias c H. cbn [map_strs toks].
    eapply rmap_bind_cong; [apply IHt; exact H|]. intros a' a Ha. sh. congruence.
  - (* TEmpty *) reflexivity.
  - (* TCase *) intros ws IHw els IHe alias c H. cbn [map_strs toks].
    destruct ws as [|cr v r]; [reflexivity|].
    change (map_strs_w f (WCons cr v r)) with (WCons (map_strs f cr) (map_strs f v) (map_strs_w f r)) at 1.
    cbv iota.
    eapply rmap_bind_cong; [apply (IHw (set_wa c false)); exact H|]. intros cs' cs Hcs.
    destruct els as [|t']; cbn [map_strs_o].
    + cbn [bind]. destruct (wa c); sh; congruence.
    + cbn in IHe. eapply (rmap_bind_cong (map shape) (map shape)).
      * eapply rmap_bind_cong; [apply IHe; exact H|]. intros a' a Ha. sh. congruence.
      * intros e' e He. destruct (wa c); sh; congruence.
  - (* TFunc *) intros name args IHa special alias c H. cbn [map_strs toks].
    eapply rmap_bind_cong; [apply IHa; apply sq1_fctx|]. intros ss' ss Hss.
    destruct (wa c); sh; congruence.
  - (* TTuple *) intros vs IHv alias c H. cbn [map_strs toks].
    eapply rmap_bind_cong; [apply IHv; exact H|]. intros ss' ss Hss. sh. congruence.
  - (* TArray *) intros vs IHv alias c H. cbn [map_strs toks].
    eapply rmap_bind_cong; [apply IHv; exact H|]. intros ss' ss Hss.
    assert (Hb : map shape (tjoin "," ss') = map shape (tjoin "," ss)) by (rewrite !map_shape_tjoin; congruence).
    cbn [rmap]. f_equal. rewrite !map_shape_alias. f_equal.
    destruct (is_pg (dia c)).
    + rewrite (all_empty_cong _ _ Hb). destruct (all_empty (tjoin "," ss)); [reflexivity|].
      cbn [map shape]. rewrite !map_app. congruence.
    + cbn [map shape]. rewrite !map_app. congruence.
  - (* TSub *) reflexivity.
  - (* TNil *) reflexivity.
  - (* TCons *) intros t IHt r IHr c H. cbn [map_strs_l toks_list].
    eapply rmap_bind_cong; [apply IHt; exact H|]. intros a' a Ha.
    eapply rmap_bind_cong; [apply IHr; exact H|]. intros b' b Hb.
    cbn [rmap map]. congruence.
  - (* WNil *) reflexivity.
  - (* WCons *) intros cr IHc v IHv r IHr c H. cbn [map_strs_w toks_whens].
    eapply rmap_bind_cong; [apply IHc; exact H|]. intros a' a Ha.
    eapply rmap_bind_cong; [apply IHv; exact H|]. intros b' b Hb.
    eapply rmap_bind_cong; [apply IHr; exact H|]. intros d' d Hd.
    cbn [rmap map shape]. rewrite !map_app. cbn [map shape]. congruence.
  - (* ONone *) exact I.
  - (* OSome *) intros t IHt. exact IHt.
Qed.

Theorem uniform_map : forall c t, sq1 c = true ->
  rmap (map shape) (toks c (map_strs f t)) = rmap (map shape) (toks c t).
Proof. intros c t. apply (proj1 uniform_all t c). Qed.
End Uniform.

(* two terms that differ only in their str payloads have the same token shapes *)
Theorem uniform : forall c t1 t2, sq1 c = true -> erase t1 = erase t2 ->
  rmap (map shape) (toks c t1) = rmap (map shape) (toks c t2).
Proof.
  intros c t1 t2 H E. rewrite <- (uniform_map (fun _ => EmptyString) c t1 H), <- (uniform_map (fun _ => EmptyString) c t2 H).
  unfold erase in E. rewrite E. reflexivity.
Qed.

(* map_strs g t and t have the same erasure *)
Lemma erase_map_all g :
  (forall t, erase (map_strs g t) = erase t)
  /\ (forall l, map_strs_l (fun _ => EmptyString) (map_strs_l g l) = map_strs_l (fun _ => EmptyString) l)
  /\ (forall l, map_strs_w (fun _ => EmptyString) (map_strs_w g l) = map_strs_w (fun _ => EmptyString) l)
  /\ (forall o, map_strs_o (fun _ => EmptyString) (map_strs_o g o) = map_strs_o (fun _ => EmptyString) o).
Proof.
  unfold erase. apply term_all_ind3; intros; cbn [map_strs map_strs_l map_strs_w map_strs_o]; congruence.
Qed.
