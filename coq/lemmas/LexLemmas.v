(* LexLemmas.v — string-literal round trips (all byte strings, by induction) and numeric texts. *)
From Coq Require Import Lia DecimalString Decimal DecimalZ DecimalPos.
From PV Require Import Base Crit gen.TermsTable Terms gen.C03Table Lex.
Local Open Scope string_scope.

Lemma app_assoc_s (a b c : string) : (a ++ b) ++ c = a ++ (b ++ c).
Proof. induction a; cbn; congruence. Qed.
Lemma app_nil_r_s (a : string) : a ++ "" = a.
Proof. induction a; cbn; congruence. Qed.

(* ---- the literal pypika writes is the text of a TValS leaf ---- *)
Lemma fmt_str_is_render : forall c ch s, sq c = Some (String ch "") ->
  render c (TValS s None) = Ok (fmt_str ch s).
Proof. intros c ch s H. cbn. rewrite H. reflexivity. Qed.

Lemma fmt_str_app q s rest : fmt_str q s ++ rest = String q (double_char q s ++ String q rest).
Proof. unfold fmt_str. cbn. rewrite app_assoc_s. reflexivity. Qed.

(* ---- ANSI reader: every string comes back ---- *)
Lemma body_std_roundtrip : forall q s rest, starts_with q rest = false ->
  body_std q (double_char q s ++ String q rest) = Some (s, rest).
Proof.
  intros q s rest Hr. induction s as [|a s IH].
  - cbn. rewrite Ascii.eqb_refl. destruct rest as [|b r']; [reflexivity|].
    cbn in Hr. rewrite Hr. reflexivity.
  - cbn [double_char]. destruct (Ascii.eqb a q) eqn:E.
    + apply Ascii.eqb_eq in E. subst a. cbn [append body_std]. rewrite !Ascii.eqb_refl. rewrite IH. reflexivity.
    + cbn [append body_std]. rewrite E, IH. reflexivity.
Qed.

Theorem std_roundtrip : forall q s rest, starts_with q rest = false ->
  read_std q (fmt_str q s ++ rest) = Some (s, rest).
Proof.
  intros q s rest Hr. rewrite fmt_str_app. cbn [read_std]. rewrite Ascii.eqb_refl.
  apply body_std_roundtrip; assumption.
Qed.

(* the hypothesis on [rest] is necessary: a following quote is glued to the literal *)
Lemma std_roundtrip_needs_hyp : read_std squote (fmt_str squote "a" ++ "'b'") <> Some ("a", "'b'").
Proof. vm_compute. discriminate. Qed.

(* ---- backslash reader: every string WITHOUT a backslash comes back ---- *)
Lemma body_bs_roundtrip : forall esc q s rest, Ascii.eqb q bslash = false -> no_bslash s = true ->
  starts_with q rest = false ->
  body_bs esc q (double_char q s ++ String q rest) = Some (s, rest).
Proof.
  intros esc q s rest Hq Hs Hr. induction s as [|a s IH].
  - cbn [double_char append body_bs]. rewrite Hq, Ascii.eqb_refl. destruct rest as [|b r']; [reflexivity|].
    cbn in Hr. rewrite Hr. reflexivity.
  - cbn [no_bslash] in Hs. apply andb_prop in Hs. destruct Hs as [Ha Hs]. apply negb_true_iff in Ha.
    cbn [double_char]. destruct (Ascii.eqb a q) eqn:E.
    + apply Ascii.eqb_eq in E. subst a. cbn [append body_bs]. rewrite Hq, !Ascii.eqb_refl. rewrite (IH Hs). reflexivity.
    + cbn [append body_bs]. rewrite Ha, E, (IH Hs). reflexivity.
Qed.

Theorem bs_roundtrip_no_bslash : forall esc q s rest, Ascii.eqb q bslash = false -> no_bslash s = true ->
  starts_with q rest = false ->
  read_bs esc q (fmt_str q s ++ rest) = Some (s, rest).
Proof.
  intros esc q s rest Hq Hs Hr. rewrite fmt_str_app. cbn [read_bs]. rewrite Ascii.eqb_refl.
  apply body_bs_roundtrip; assumption.
Qed.

(* ---- backslash reader: the one-backslash string swallows the closing quote, whatever the escape table ---- *)
Definition one_bslash : string := String bslash "".

Theorem bs_unterminated : forall esc, read_bs esc squote (fmt_str squote one_bslash ++ " AND x") = None.
Proof. intros esc. reflexivity. Qed.

(* and when a later quote exists the literal ends THERE: the tail of the statement becomes string content *)
Theorem bs_swallows_tail : forall esc,
  read_bs esc squote (fmt_str squote one_bslash ++ " OR b='y'")
  = Some (esc squote ++ " OR b=", "y'").
Proof. intros esc. reflexivity. Qed.

(* a backslash that leaves the structure intact still changes the value (MySQL table: \n is a line feed) *)
Theorem bs_decodes_differently :
  read_bs mysql_esc squote (fmt_str squote (String "a" (String bslash "nb")) ++ " AND x")
  = Some (String "a" (String (ascii_of_nat 10) "b"), " AND x").
Proof. reflexivity. Qed.

(* ---- per class ---- *)
Lemma class_quote_all : forall k, class_quote k = Some squote.
Proof. intros k. destruct k; reflexivity. Qed.

Lemma class_sq1 : forall k, sq1 (class_ctx k) = true /\ sq1 (create_ctx k) = true.
Proof. intros k. destruct k; split; reflexivity. Qed.

Theorem class_roundtrip : forall k s rest,
  (lexer_of k = LStd \/ no_bslash s = true) -> starts_with squote rest = false ->
  read_lit (lexer_of k) squote (fmt_str squote s ++ rest) = Some (s, rest).
Proof.
  intros k s rest H Hr. destruct (lexer_of k) eqn:E; cbn [read_lit].
  - apply std_roundtrip; assumption.
  - destruct H as [H|H]; [discriminate|]. apply bs_roundtrip_no_bslash; auto.
Qed.

Theorem class_refuted_bs : forall k, lexer_of k = LBs ->
  read_lit (lexer_of k) squote (fmt_str squote one_bslash ++ " AND x") = None.
Proof. intros k E. rewrite E. reflexivity. Qed.

(* ---- numeric texts ---- *)
Lemma span_all_digits : forall s, all_digits s = true -> span_digits s = (String.length s, "").
Proof.
  induction s as [|a s IH]; cbn; [reflexivity|]. intros H. apply andb_prop in H. destruct H as [Ha Hs].
  rewrite Ha, (IH Hs). reflexivity.
Qed.

Lemma digits_numeric : forall s, all_digits s = true -> s <> "" -> is_numeric_text s = true /\ is_numeric_text (String "-" s) = true.
Proof.
  intros s H Hne.
  assert (Hs : after_digits s tail_ok = true).
  { unfold after_digits. rewrite (span_all_digits s H). destruct s; [congruence|reflexivity]. }
  split.
  - unfold is_numeric_text. destruct s as [|a r]; [congruence|].
    cbn in H. apply andb_prop in H. destruct H as [Ha _].
    assert (is_char_of a 45 = false).
    { unfold is_char_of, is_digit in *. apply andb_prop in Ha. destruct Ha as [H1 H2].
      apply Nat.leb_le in H1. apply Nat.eqb_neq. lia. }
    rewrite H. exact Hs.
  - unfold is_numeric_text. change (is_char_of "-" 45) with true. cbn iota. exact Hs.
Qed.

Lemma uint_digits : forall u, all_digits (NilEmpty.string_of_uint u) = true.
Proof. induction u; cbn; auto. Qed.

Lemma nz_uint_digits : forall u, all_digits (NilZero.string_of_uint u) = true /\ NilZero.string_of_uint u <> "".
Proof.
  intros u. destruct u; cbn [NilZero.string_of_uint]; split; try reflexivity; try discriminate;
    try (apply (uint_digits (_ u))).
Qed.

Theorem int_text_numeric : forall z, is_numeric_text (Z_to_string z) = true.
Proof.
  intros z. unfold Z_to_string. destruct (Z.to_int z) as [u|u]; cbn [NilZero.string_of_int].
  - destruct (nz_uint_digits u) as [H1 H2]. apply (digits_numeric _ H1 H2).
  - destruct (nz_uint_digits u) as [H1 H2]. apply (digits_numeric _ H1 H2).
Qed.

Theorem int_text_roundtrip : forall z, Z_of_string (Z_to_string z) = Some z.
Proof.
  intros z. unfold Z_of_string, Z_to_string.
  rewrite NilZero.isi.
  - simpl. rewrite DecimalZ.of_to. reflexivity.
  - destruct z; simpl; try discriminate. intros [= E]. exact (DecimalPos.Unsigned.to_uint_nonnil _ E).
  - destruct z; simpl; try discriminate. intros [= E]. exact (DecimalPos.Unsigned.to_uint_nonnil _ E).
Qed.

(* what Python prints for non-finite floats / Decimals is not a numeric literal *)
Lemma nonfinite_not_numeric :
  forallb (fun s => negb (is_numeric_text s)) ["nan"; "inf"; "-inf"; "NaN"; "Infinity"; "-Infinity"; "sNaN"; "-nan"] = true.
Proof. reflexivity. Qed.
