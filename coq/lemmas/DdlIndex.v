(* DdlIndex.v - CREATE INDEX: on the fragment where the column names (the only names still printed
   bare) need no quoting, the statement names exactly the given index, table, columns and options *)
From Coq Require Import Lia.
From PV Require Import Base gen.C17Table Ddl lemmas.DdlStrings lemmas.DdlItems.

Lemma idname_nonempty : forall s, name_ok QNone s = true -> snonempty s = true.
Proof. intros s H. simpl in H. now apply Bool.andb_true_iff in H as [H _]. Qed.

(* ---------- the texts of the index name and of the table ---------- *)
Lemma read_any_fq : forall s rest, name_ok QDouble s = true -> read_any (fqq QDouble s ++ rest) = Some (s, rest).
Proof.
  intros s rest H. unfold read_any. rewrite fqq_double. simpl starts_dq. cbv iota.
  unfold read_name. simpl qchar. cbv iota.
  change ((String """" (s ++ """")) ++ rest) with (String """" ((s ++ """") ++ rest)).
  cbv iota. rewrite Ascii.eqb_refl. rewrite sapp_assoc.
  apply take_until_app. apply (name_ok_not QDouble); [exact H | tauto].
Qed.

Lemma iname_text_facts : forall i, iname_ok i = true ->
  (forall rest, stops rest = true ->
        read_any (iname_text i ++ rest) = Some (match i with INStr s | INObj s => s end, rest))
  /\ (forall rest, stops rest = true -> strip_prefix "IF NOT EXISTS " (iname_text i ++ rest) = None).
Proof.
  intros [s|s] H; unfold iname_ok in H; unfold iname_text; split; intros rest Hr;
    try (now apply read_any_fq); rewrite fqq_double; reflexivity.
Qed.

Definition itable_tbl (t : itable) : table := match t with ITObj t => t | ITStr s => tbl s end.

Lemma itable_text_facts : forall t rest, itable_ok t = true ->
  read_table_any (itable_text t ++ String "(" rest) = Some (itable_tbl t, String "(" rest).
Proof.
  intros t rest H.
  assert (G : forall tb, table_ok QDouble tb = true ->
              read_table_any (render_table QDouble tb ++ String "(" rest) = Some (tb, String "(" rest)).
  { intros tb Htb. unfold read_table_any. apply read_table_gen_ok; auto.
    intros x r Hx _. now apply read_any_fq. }
  destruct t as [s|tb]; unfold itable_ok in H; unfold itable_text, itable_tbl.
  - apply Bool.andb_true_iff in H as [H _].
    change (fqq QDouble s) with (render_table QDouble (tbl s)). apply G.
    unfold table_ok, tbl. cbn [tname tschema talias forallb is_some negb]. now rewrite H.
  - now apply G.
Qed.

(* ---------- the column list ---------- *)
Lemma split_cols : forall cs c pre, sforall (notc ",") pre = true -> forallb (fun x => sforall (notc ",") x) (c :: cs) = true ->
  split_on "," (pre ++ join ", " (c :: cs)) = (pre ++ c) :: map (fun x => " " ++ x) cs.
Proof.
  induction cs as [|d ds IH]; intros c pre Hp H.
  - simpl join. simpl in H. apply Bool.andb_true_iff in H as [H _].
    apply split_on_none. now rewrite sforall_app, Hp, H.
  - simpl in H. apply Bool.andb_true_iff in H as [H1 H2].
    change (join ", " (c :: d :: ds)) with (c ++ String "," (" " ++ join ", " (d :: ds))).
    rewrite <- sapp_assoc. rewrite split_on_app.
    rewrite split_on_none by (now rewrite sforall_app, Hp, H1).
    rewrite IH by (auto; reflexivity). reflexivity.
Qed.

Lemma trim1_id : forall c, name_ok QNone c = true -> trim1 c = c /\ unquote_any c = Some c.
Proof.
  intros c H. pose proof H as H'. simpl in H. apply Bool.andb_true_iff in H as [H1 H2].
  destruct c as [|a r]; [discriminate|]. simpl in H2. apply Bool.andb_true_iff in H2 as [Ha _].
  split.
  - simpl. pose proof (idchar_not_space a Ha) as E. unfold notc in E. destruct (Ascii.eqb a " "); [discriminate | reflexivity].
  - unfold unquote_any. simpl starts_dq.
    pose proof (namechar_not a """"%char (idchar_namechar a Ha)) as E. unfold notc in E.
    destruct (Ascii.eqb a """"); [discriminate E; tauto|].
    rewrite <- (fqq_none (String a r)) at 1. now apply unquote_fq.
Qed.

Lemma cols_rest_read : forall ds, forallb (name_ok QNone) ds = true ->
  omap unquote_any (map trim1 (map (fun x => " " ++ x) ds)) = Some ds.
Proof.
  induction ds as [|d ds IH]; intros H; [reflexivity|].
  cbn [forallb] in H. apply Bool.andb_true_iff in H as [D1 D2].
  cbn [map omap]. change (trim1 (" " ++ d)) with d.
  rewrite (proj2 (trim1_id d D1)), (IH D2). reflexivity.
Qed.

Lemma cols_read : forall cs, cs <> [] -> forallb (name_ok QNone) cs = true ->
  omap unquote_any (map trim1 (split_on "," (join ", " cs))) = Some cs.
Proof.
  intros [|c cs] Hne H; [congruence|].
  assert (Hc : forallb (fun x => sforall (notc ",") x) (c :: cs) = true).
  { eapply forallb_impl; [|exact H]. intros x Hx. apply (name_ok_not QNone); [exact Hx | tauto]. }
  rewrite <- (sapp_nil_l (join ", " (c :: cs))). rewrite split_cols by (auto; reflexivity).
  rewrite sapp_nil_l. cbn [forallb] in H. apply Bool.andb_true_iff in H as [H1 H2].
  cbn [map omap]. rewrite (proj1 (trim1_id c H1)), (proj2 (trim1_id c H1)), (cols_rest_read cs H2). reflexivity.
Qed.

(* ---------- the statement ---------- *)
Definition index_clean (u ine : bool) (nm tb cols : string) (w : option string) : string :=
  "CREATE " ++ (if u then "UNIQUE " else "") ++ "INDEX " ++ (if ine then "IF NOT EXISTS " else "")
  ++ nm ++ " ON " ++ tb ++ "(" ++ cols ++ ")" ++ (match w with Some w => " WHERE " ++ w | None => "" end).

Lemma parse_index_clean : forall (u ine : bool) i t cs w,
  iname_ok i = true -> itable_ok t = true -> cs <> [] -> forallb (name_ok QNone) cs = true ->
  parse_index (index_clean u ine (iname_text i) (itable_text t) (join ", " cs) w)
  = Some (mk_index_ast u ine (match i with INStr s | INObj s => s end) (itable_tbl t) cs w).
Proof.
  intros u ine i t cs w Hi Ht Hne Hc. unfold index_clean, parse_index.
  destruct (iname_text_facts i Hi) as (Hread & Hine).
  rewrite strip_prefix_app.
  assert (E1 : forall x, opt_prefix "UNIQUE " ((if u then "UNIQUE " else "") ++ "INDEX " ++ x) = (u, "INDEX " ++ x)).
  { intros x. destruct u; [apply opt_prefix_app|]. rewrite sapp_nil_l. now apply opt_prefix_none. }
  rewrite E1, strip_prefix_app.
  assert (E2 : forall x, stops x = true ->
               opt_prefix "IF NOT EXISTS " ((if ine then "IF NOT EXISTS " else "") ++ iname_text i ++ x) = (ine, iname_text i ++ x)).
  { intros x Hx. destruct ine; [apply opt_prefix_app|]. rewrite sapp_nil_l. apply opt_prefix_none. now apply Hine. }
  rewrite E2 by reflexivity. rewrite Hread by reflexivity. rewrite strip_prefix_app.
  pose proof (itable_text_facts t (join ", " cs ++ ")" ++ match w with Some w0 => " WHERE " ++ w0 | None => "" end) Ht) as Hrt.
  change ("(" ++ ?x) with (String "(" x). rewrite Hrt.
  change (strip_prefix "(" (String "(" ?x)) with (Some x). cbv iota.
  change (")" ++ ?x) with (String ")" x).
  rewrite take_until_app.
  2:{ apply sforall_join; [reflexivity|]. eapply forallb_impl; [|exact Hc].
      intros x Hx. apply (name_ok_not QNone); [exact Hx | tauto]. }
  rewrite cols_read by assumption.
  destruct w as [w|]; [|reflexivity].
  change (" WHERE " ++ w) with (String " " ("WHERE " ++ w)). cbv iota.
  change (String " " ("WHERE " ++ w)) with (" WHERE " ++ w). now rewrite strip_prefix_app.
Qed.

(* ---------- the theorem ---------- *)
Lemma index_head_text : forall st,
  index_head st ++ " " = "CREATE " ++ (if i_unique st then "UNIQUE " else "") ++ "INDEX " ++ (if i_ine st then "IF NOT EXISTS " else "").
Proof. intros st. unfold index_head. destruct (i_unique st), (i_ine st); reflexivity. Qed.

Theorem index_roundtrip : forall i calls, index_frag (ibuild i calls) = true ->
  exists s, render_index (ibuild i calls) = Ok s /\ parse_index s = Some (index_ast_of i calls).
Proof.
  intros i0 calls H. unfold index_ast_of. set (st := ibuild i0 calls) in *.
  unfold index_frag in H.
  apply Bool.andb_true_iff in H as [H Hc]. apply Bool.andb_true_iff in H as [H Hne].
  apply Bool.andb_true_iff in H as [Hi Ht].
  destruct (i_table st) as [t|] eqn:Et; [|discriminate].
  assert (Hcs : forallb (name_ok QNone) (map cname (i_columns st)) = true).
  { rewrite forallb_map. exact Hc. }
  assert (Hcne : map cname (i_columns st) <> []).
  { destruct (i_columns st); [discriminate | simpl; congruence]. }
  set (w := match i_wheres st with [] => None | ws => Some (join " AND " ws) end).
  exists (index_clean (i_unique st) (i_ine st) (iname_text (i_index st)) (itable_text t)
                      (join ", " (map cname (i_columns st))) w).
  split.
  - assert (Htr : itable_truthy (Some t) = true).
    { destruct t as [s|]; [|reflexivity]. unfold itable_ok in Ht. apply Bool.andb_true_iff in Ht as [_ S].
      destruct s; [discriminate | reflexivity]. }
    unfold render_index. rewrite Hne, Et, Htr. cbn [negb]. cbv iota. f_equal.
    unfold index_clean, w. rewrite <- !sapp_assoc. rewrite index_head_text.
    destruct (i_wheres st); rewrite ?sapp_nil_r, !sapp_assoc; reflexivity.
  - unfold st. rewrite parse_index_clean by assumption. destruct t; reflexivity.
Qed.
