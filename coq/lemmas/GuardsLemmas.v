(* GuardsLemmas.v — proofs about the guard model (coq/Guards.v) for property C14. *)
From PV Require Import Base Guards.
From Coq Require Import Lia.
Local Open Scope list_scope.

(* ------------------------------------------------------------------------------------------ *)
(* tactics                                                                                     *)
(* ------------------------------------------------------------------------------------------ *)
Ltac unf := unfold first_fired, fired, g_cond, g_exn.
Ltac brk := repeat match goal with
  | |- context [if ?b then _ else _] => destruct b eqn:?
  | H : context [if ?b then _ else _] |- _ => destruct b eqn:?
  end.
Ltac fin := cbn in *; split; intro; try congruence; try discriminate.

(* ------------------------------------------------------------------------------------------ *)
(* boolean equalities are Leibniz equalities                                                   *)
(* ------------------------------------------------------------------------------------------ *)
Lemma ostr_eqb_eq : forall a b, ostr_eqb a b = true -> a = b.
Proof.
  intros [a|] [b|]; cbn; try discriminate; auto.
  intro H. apply String.eqb_eq in H. congruence.
Qed.
Lemma ostr_eqb_refl : forall a, ostr_eqb a a = true.
Proof. intros [a|]; cbn; auto. apply String.eqb_refl. Qed.

Lemma ptab_eqb_eq : forall a b, ptab_eqb a b = true -> a = b.
Proof.
  intros [n s al] [n' s' al']; unfold ptab_eqb; cbn. intro H.
  apply andb_prop in H. destruct H as [H H3]. apply andb_prop in H. destruct H as [H1 H2].
  apply String.eqb_eq in H1. apply ostr_eqb_eq in H2. apply ostr_eqb_eq in H3. congruence.
Qed.
Lemma ptab_eqb_refl : forall a, ptab_eqb a a = true.
Proof. intros [n s al]; unfold ptab_eqb; cbn. now rewrite String.eqb_refl, !ostr_eqb_refl. Qed.

Lemma tbl_eqb_refl : forall a, tbl_eqb a a = true.
Proof. intros [p|n|n src u]; cbn; auto using ptab_eqb_refl, String.eqb_refl. now rewrite ostr_eqb_refl, String.eqb_refl. Qed.
(* the same source is, a fortiori, the same element of a set; for tables and WITH queries the two notions agree *)
Lemma tbl_ident_eqb : forall a b, tbl_ident a b = true -> tbl_eqb a b = true.
Proof.
  intros [p|n|n s u] [q|m|m t v]; cbn; auto. intro H.
  apply andb_prop in H. destruct H as [H _]. exact H.
Qed.
Lemma tbl_ident_nonsub : forall a b, (match a with TSub _ _ _ => false | _ => true end) = true -> tbl_ident a b = tbl_eqb a b.
Proof. intros [p|n|n s u] b H; try discriminate; destruct b; reflexivity. Qed.

Lemma tref_eqb_refl : forall a, tref_eqb a a = true.
Proof. intros [a|]; cbn; auto using tbl_eqb_refl. Qed.

Lemma truthy_ltb : forall n, truthy n = Nat.ltb 0 n.
Proof. destruct n; reflexivity. Qed.
Lemma eqb0_truthy : forall n, Nat.eqb n 0 = negb (truthy n).
Proof. destruct n; reflexivity. Qed.

(* ------------------------------------------------------------------------------------------ *)
(* the specification table: generic facts                                                      *)
(* ------------------------------------------------------------------------------------------ *)
(* what "first_fired = Some k" says: some guard of the table is in its situation and documents class k *)
Lemma first_fired_sound : forall X (gs : list (guard X)) x k,
  first_fired gs x = Some k -> exists g, In g gs /\ g_cond g x = true /\ g_exn g = k.
Proof.
  intros X gs x k. unfold first_fired, fired.
  induction gs as [|g gs IH]; cbn; [discriminate|].
  destruct (g_cond g x) eqn:E; cbn.
  - intro H. injection H as <-. exists g. auto.
  - intro H. destruct (IH H) as [g' [Hin Hg]]. exists g'. auto.
Qed.
Lemma fires_first_fired : forall X (gs : list (guard X)) x g,
  In g gs -> g_cond g x = true -> exists k, first_fired gs x = Some k.
Proof.
  intros X gs x g. unfold first_fired, fired.
  induction gs as [|g0 gs IH]; cbn; [tauto|].
  intros [->|Hin] Hc.
  - rewrite Hc. cbn. eauto.
  - destruct (g_cond g0 x); cbn; eauto.
Qed.

(* ------------------------------------------------------------------------------------------ *)
(* resolve_is_aggregate: closed form for all lengths                                           *)
(* ------------------------------------------------------------------------------------------ *)
Definition all_none (l : list (option bool)) : bool := forallb (fun v => is_none v) l.
Definition no_false (l : list (option bool)) : bool :=
  forallb (fun v => match v with Some false => false | _ => true end) l.

Lemma not_none_nil : forall l, not_none l = [] <-> all_none l = true.
Proof.
  induction l as [|[b|] l IH]; cbn; try tauto.
  split; discriminate.
Qed.
Lemma forallb_not_none : forall l, forallb (fun b => b) (not_none l) = no_false l.
Proof. induction l as [|[[|]|] l IH]; cbn; auto. Qed.

(* None when nobody votes; otherwise True exactly when no vote is False *)
Theorem resolve_closed_form : forall l,
  resolve_is_aggregate l = if all_none l then None else Some (no_false l).
Proof.
  intro l. unfold resolve_is_aggregate.
  destruct (not_none l) eqn:E.
  - apply not_none_nil in E. now rewrite E.
  - destruct (all_none l) eqn:A.
    + apply not_none_nil in A. congruence.
    + rewrite <- E. now rewrite forallb_not_none.
Qed.

(* the votes' order and None votes are irrelevant *)
Corollary resolve_true_iff : forall l,
  resolve_is_aggregate l = Some true <-> (exists b, In (Some b) l) /\ ~ In (Some false) l.
Proof.
  intro l. rewrite resolve_closed_form. split.
  - destruct (all_none l) eqn:A; [discriminate|]. intro H. injection H as H. split.
    + clear H. induction l as [|[b|] l IH]; cbn in *; [discriminate|eauto|].
      destruct (IH A) as [b Hb]. eauto.
    + intro Hin. unfold no_false in H. rewrite forallb_forall in H. specialize (H _ Hin). discriminate.
  - intros [[b Hb] Hnf]. destruct (all_none l) eqn:A.
    + unfold all_none in A. rewrite forallb_forall in A. specialize (A _ Hb). discriminate.
    + f_equal. unfold no_false. apply forallb_forall. intros [[|]|] Hx; auto; try contradiction.
Qed.

(* ------------------------------------------------------------------------------------------ *)
(* small objects: the table is exact, without any restriction                                  *)
(* ------------------------------------------------------------------------------------------ *)
Theorem guards_t_exact : forall s c k, step_t s c = Err k <-> first_fired guards_t (s, c) = Some k.
Proof. intros [f p] c k. destruct c, f, p; unf; fin. Qed.

Theorem guards_w_exact : forall s c k, step_w s c = Err k <-> first_fired guards_w (s, c) = Some k.
Proof. intros [f b] c k. destruct c, f, b; unf; fin. Qed.

Theorem guards_k_exact : forall s c k, step_k s c = Err k <-> first_fired guards_k (s, c) = Some k.
Proof. intros [n e] c k. destruct c, n; unf; fin. Qed.

Theorem guards_f_exact : forall s c k, step_f s c = Err k <-> first_fired guards_f (s, c) = Some k.
Proof.
  intros [[p|]] [n] k; unf; cbn; [|fin].
  destruct (Nat.eqb n p); fin.
Qed.

(* rendering a chain succeeds exactly when no operand, at any depth, differs in arity from its chain *)
Fixpoint sop_renders_spec (o : sop) : sop_renders o = negb (sop_mismatch o).
Proof.
  destruct o as [n|b ops]; [reflexivity|].
  cbn [sop_renders sop_mismatch].
  induction ops as [|x r IH]; [reflexivity|].
  rewrite (sop_renders_spec x), IH, (Nat.eqb_sym b (sop_arity x)).
  destruct (sop_mismatch x), (Nat.eqb (sop_arity x) b); reflexivity.
Qed.
Theorem guards_s_exact : forall s c k, step_s s c = Err k <-> first_fired guards_s (s, c) = Some k.
Proof.
  intros [b ops] c k. destruct c; unf; cbn -[sop_renders sop_mismatch]; [fin|].
  rewrite sop_renders_spec. destruct (sop_mismatch (SNest b ops)); fin.
Qed.

(* ------------------------------------------------------------------------------------------ *)
(* CREATE / DROP builders: exact inside the contract                                           *)
(* ------------------------------------------------------------------------------------------ *)
Theorem guards_c_exact : forall s c k, wf_c s c = true ->
  (step_c s c = Err k <-> first_fired guards_c (s, c) = Some k).
Proof.
  intros [v t tmp a n pk fk] c k Hwf.
  destruct c; unf; cbn in *.
  - destruct t; fin.
  - fin.
  - destruct a; fin.
  - destruct pk as [[|m]|]; fin.
  - destruct fk as [[|m]|]; fin.
  - destruct n, is_query; fin.
  - subst v. destruct tmp; fin.
  - subst v. destruct tmp; fin.
  - destruct v; fin.
Qed.

Theorem guards_d_exact : forall s c k, wf_d s c = true ->
  (step_d s c = Err k <-> first_fired guards_d (s, c) = Some k).
Proof.
  intros [ck tg cl] c k Hwf. unfold step_d, wf_d in *.
  destruct c as [kd ne|ne]; unf; cbn in *.
  - destruct kd, ck; cbn in *; try discriminate; destruct tg as [[|]|]; fin.
  - subst ck. cbn. destruct cl as [[|]|]; fin.
Qed.

(* ------------------------------------------------------------------------------------------ *)
(* histories                                                                                   *)
(* ------------------------------------------------------------------------------------------ *)
Section Histories.
  Variables (S C : Type) (ok : S -> C -> bool) (step : S -> C -> res S) (gs : list (guard (S * C))).
  Hypothesis Hex : forall s c k, ok s c = true -> (step s c = Err k <-> first_fired gs (s, c) = Some k).

  (* per call of any history inside the contract: pypika-model outcome = what the table documents *)
  Theorem history_exact : forall cs s, hist_ok ok step s cs = true -> snd (run step s cs) = spec_outs gs step s cs.
  Proof.
    induction cs as [|c cs IH]; intros s H; cbn in *; auto.
    apply andb_prop in H. destruct H as [Hok H].
    destruct (step s c) as [s'|e] eqn:E.
    - specialize (IH s' H). destruct (run step s' cs) as [f o]. cbn in *. f_equal; auto.
      destruct (first_fired gs (s, c)) as [k|] eqn:F; auto.
      apply (Hex s c k Hok) in F. congruence.
    - specialize (IH s H). destruct (run step s cs) as [f o]. cbn in *. f_equal; auto.
      symmetry. now apply (Hex s c e Hok).
  Qed.

  (* a rejected call leaves the state: the rest of the history runs from the state before the call *)
  Theorem rejected_changes_nothing : forall s c cs e, step s c = Err e ->
    run step s (c :: cs) = (fst (run step s cs), Some e :: snd (run step s cs)).
  Proof. intros s c cs e H. cbn. rewrite H. destruct (run step s cs); reflexivity. Qed.
End Histories.

(* ------------------------------------------------------------------------------------------ *)
(* effects before a raise                                                                      *)
(* ------------------------------------------------------------------------------------------ *)
(* what raise_safe = true means: whatever precedes a raise on any path of any guarded method is an
   assignment on the builder's copy or an in-place change of a container that __copy__ re-copies *)
Theorem raise_safe_spec : forall t, raise_safe t = true ->
  forall row path pre k post, In row t -> In path (snd row) -> path = pre ++ ERaise k :: post ->
  forall e, In e pre -> harmless_on_copy e = true.
Proof.
  intros t H row path pre k post Hr Hp -> e He.
  unfold raise_safe in H. rewrite forallb_forall in H. specialize (H row Hr).
  rewrite forallb_forall in H. specialize (H _ Hp).
  unfold path_safe in H. rewrite forallb_forall in H. apply H. apply in_or_app. auto.
Qed.
