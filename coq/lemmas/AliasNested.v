(* AliasNested.v — C13 on nested statements (shared statement model Query.v): the GROUP BY-alias switch is handed down. *)
From PV Require Import Base Crit gen.TermsTable Terms Page gen.QueryTable Query.

(* _set_kwargs_defaults / the Oracle and MSSQL get_sql overrides, as modelled by [defaults]: once the switch is off it stays
   off in every nested statement, whatever its class; Oracle and SQL Server statements switch it off themselves *)
Lemma gba_inherited c k : k_gba k = false -> k_gba (defaults c k) = false.
Proof. intros H. unfold defaults. cbn [k_gba mk_k]. rewrite H. destruct (cls_gba c); reflexivity. Qed.

Lemma gba_off_oracle_mssql k : k_gba (defaults COracle k) = false /\ k_gba (defaults CMSSQL k) = false
  /\ k_gba (top_ctx COracle) = false /\ k_gba (top_ctx CMSSQL) = false.
Proof. repeat split; reflexivity. Qed.

(* a chain of nested statements of arbitrary classes below a context with the switch off *)
Lemma gba_inherited_chain cs k : k_gba k = false -> k_gba (fold_left (fun k' c => defaults c k') cs k) = false.
Proof. revert k. induction cs as [|c r IH]; intros k H; [exact H|]. cbn [fold_left]. apply IH, gba_inherited, H. Qed.

(* the only classes that switch it off (extracted class table) *)
Lemma gba_classes : forall c, cls_gba c = match c with COracle | CMSSQL => false | _ => true end.
Proof. destruct c; reflexivity. Qed.

(* the contexts Query.rquery hands to the items of EVERY clause (select list, ON, WHERE, GROUP BY, HAVING, ORDER BY: always
   [with_c k c] for the statement's own k) and to function arguments ([fk]) keep the switch: a sub-query below an ORDER BY /
   GROUP BY item, directly or inside a function call, sees the Oracle / MSSQL setting of the enclosing statement *)
Lemma gba_with_c k c : k_gba (with_c k c) = k_gba k.
Proof. reflexivity. Qed.
Lemma gba_fk k : k_gba (fk k) = k_gba k.
Proof. reflexivity. Qed.
Lemma gba_below_items k c c' cls_ : k_gba k = false -> k_gba (defaults cls_ (with_c (fk (with_c k c)) c')) = false.
Proof. intros H. apply gba_inherited. rewrite gba_with_c, gba_fk, gba_with_c. exact H. Qed.
