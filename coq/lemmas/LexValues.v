(* LexValues.v — every listed, finite Python value becomes exactly one literal token, at every wrapping site. *)
From PV Require Import Base Crit gen.TermsTable Terms gen.C03Table Lex LexCorr lemmas.LexLemmas.

Lemma lit_toks_sq1 c s : sq1 c = true -> exists ch, lit_toks c s = [CLit ch s].
Proof. unfold sq1, lit_toks. destruct (one_char (sq c)) as [ch|]; [eauto|discriminate]. Qed.

Lemma fmt_value_token : forall v c, sq1 c = true -> listed v = true -> finite v = true ->
  exists tok, toks c (fmt_value None v) = Ok [tok] /\ literal_tok tok = true.
Proof.
  induction v; intros c H L F; cbn [fmt_value toks alias_toks].
  - destruct (lit_toks_sq1 c s H) as [ch E]. rewrite E. eauto.
  - eexists; split; [reflexivity|]. apply int_text_numeric.
  - eexists; split; [reflexivity|]. destruct b; reflexivity.
  - eexists; split; reflexivity.
  - eexists; split; [reflexivity|]. exact F.
  - eexists; split; [reflexivity|]. exact F.
  - destruct (lit_toks_sq1 c iso H) as [ch E]. rewrite E. eauto.
  - destruct (lit_toks_sq1 c txt H) as [ch E]. rewrite E. eauto.
  - apply IHv; assumption.
  - discriminate L.
Qed.

Lemma wrap_value_token : forall sl v c, sq1 c = true -> listed v = true -> finite v = true ->
  exists tok, toks c (wrap_value sl None v) = Ok [tok] /\ literal_tok tok = true.
Proof.
  intros sl v c H L F. destruct v; try (apply fmt_value_token; assumption).
  cbn. eexists; split; [reflexivity|]. destruct sl, b; reflexivity.
Qed.

Theorem value_one_token : forall w k v c, sq1 c = true -> listed v = true -> finite v = true ->
  exists tok, toks c (mk_value w k None v) = Ok [tok] /\ literal_tok tok = true.
Proof.
  intros w k v c H L F.
  destruct w; destruct v; try (apply wrap_value_token; assumption);
    cbn; eexists; split; reflexivity.
Qed.
