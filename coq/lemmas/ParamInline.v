(* ParamInline.v — with no collector, the token renderer of Param.v is the token view of the shared renderer
   Terms.render: same text (flatten), same exceptions, the collector state is untouched, no collector placeholder
   is emitted. *)
From Coq Require Import Lia.
From PV Require Import Base Crit gen.TermsTable Terms gen.C06Table Param.
Local Open Scope list_scope.

Scheme term_mind6 := Induction for term Sort Prop
  with tlist_mind6 := Induction for tlist Sort Prop
  with wlist_mind6 := Induction for wlist Sort Prop
  with oterm_mind6 := Induction for oterm Sort Prop.
Combined Scheme term_all_ind6 from term_mind6, tlist_mind6, wlist_mind6, oterm_mind6.

(* ---- strings / flatten ---- *)
Lemma sapp_assoc (a b c : string) : ((a ++ b) ++ c = a ++ (b ++ c))%string.
Proof. induction a; cbn; congruence. Qed.
Lemma sapp_nil_r (a : string) : (a ++ "" = a)%string.
Proof. induction a; cbn; congruence. Qed.

Lemma flatten_nil : flatten [] = "".
Proof. reflexivity. Qed.
Lemma flatten_cons t (r : list tok) : flatten (t :: r) = (tok_text t ++ flatten r)%string.
Proof. reflexivity. Qed.
Lemma flatten_app (a b : list tok) : flatten (a ++ b) = (flatten a ++ flatten b)%string.
Proof. unfold flatten. induction a as [|t a IH]; cbn; [reflexivity|]. rewrite IH, sapp_assoc. reflexivity. Qed.
Lemma flatten_parl b l : flatten (parl b l) = paren b (flatten l).
Proof.
  destruct b; cbn [parl paren]; [|reflexivity].
  rewrite flatten_cons, flatten_app, flatten_cons, flatten_nil. cbn [tok_text]. rewrite sapp_nil_r. reflexivity.
Qed.
Lemma flatten_gparl b l : flatten (gparl b l) = paren b (flatten l).
Proof.
  destruct b; cbn [gparl paren]; [|reflexivity].
  rewrite flatten_cons, flatten_app, flatten_cons, flatten_nil. cbn [tok_text]. rewrite sapp_nil_r. reflexivity.
Qed.
Lemma flatten_wrap2 a b l : flatten (wrap2 a b l) = paren (a || b) (flatten l).
Proof. destruct a; cbn [wrap2 orb]; [apply (flatten_parl true)|apply flatten_gparl]. Qed.
Lemma flatten_opndl sl t l : flatten (opndl sl t l) = opnd sl t (flatten l).
Proof. apply flatten_parl. Qed.
Lemma alias_sql_toks c qc s alias : alias_sql c qc s alias = (s ++ flatten (alias_toks c qc alias))%string.
Proof.
  unfold alias_sql, fmt_alias, alias_toks. destruct alias; [|rewrite flatten_nil, sapp_nil_r; reflexivity].
  rewrite flatten_cons, flatten_nil. cbn [tok_text]. rewrite sapp_nil_r. reflexivity.
Qed.
Lemma flatten_aliased b c qc l alias :
  flatten (aliased b c qc l alias) = if b then alias_sql c qc (flatten l) alias else flatten l.
Proof. destruct b; cbn [aliased]; [|reflexivity]. rewrite flatten_app, alias_sql_toks. reflexivity. Qed.
Lemma flatten_jointoks sep tss : flatten (jointoks sep tss) = join sep (map flatten tss).
Proof.
  induction tss as [|x r IH]; [reflexivity|]. destruct r as [|y r'].
  - reflexivity.
  - change (jointoks sep (x :: y :: r')) with (x ++ KTxt sep :: jointoks sep (y :: r')).
    rewrite flatten_app, flatten_cons, IH. reflexivity.
Qed.

(* ---- no_auto ---- *)
Lemma no_auto_app a b : no_auto (a ++ b) = no_auto a && no_auto b.
Proof. unfold no_auto. apply forallb_app. Qed.
Lemma no_auto_cons t r : no_auto (t :: r) = negb (is_auto t) && no_auto r.
Proof. reflexivity. Qed.
Lemma no_auto_parl b l : no_auto (parl b l) = no_auto l.
Proof. destruct b; cbn [parl]; [|reflexivity]. rewrite no_auto_cons, no_auto_app. cbn. rewrite andb_true_r. reflexivity. Qed.
Lemma no_auto_gparl b l : no_auto (gparl b l) = no_auto l.
Proof. destruct b; cbn [gparl]; [|reflexivity]. rewrite no_auto_cons, no_auto_app. cbn. rewrite andb_true_r. reflexivity. Qed.
Lemma no_auto_wrap2 a b l : no_auto (wrap2 a b l) = no_auto l.
Proof. destruct a; cbn [wrap2]; [apply (no_auto_parl true)|apply no_auto_gparl]. Qed.
Lemma no_auto_opndl sl t l : no_auto (opndl sl t l) = no_auto l.
Proof. apply no_auto_parl. Qed.
Lemma no_auto_alias_toks c qc alias : no_auto (alias_toks c qc alias) = true.
Proof. destruct alias; reflexivity. Qed.
Lemma no_auto_aliased b c qc l alias : no_auto (aliased b c qc l alias) = no_auto l.
Proof. destruct b; cbn [aliased]; [|reflexivity]. rewrite no_auto_app, no_auto_alias_toks, andb_true_r. reflexivity. Qed.
Lemma no_auto_jointoks sep tss : forallb no_auto tss = true -> no_auto (jointoks sep tss) = true.
Proof.
  induction tss as [|x r IH]; [reflexivity|]. cbn [forallb]. intros H. apply andb_prop in H. destruct H as [Hx Hr].
  destruct r as [|y r']; [exact Hx|].
  change (jointoks sep (x :: y :: r')) with (x ++ KTxt sep :: jointoks sep (y :: r')).
  rewrite no_auto_app, no_auto_cons, Hx, (IH Hr). reflexivity.
Qed.

(* ---- the relation between the two renderers ---- *)
Definition relG {A B} (f : A -> B) (ok : A -> bool) (r : res (A * pstate)) (x : res B) (st : pstate) : Prop :=
  match r, x with
  | Ok (a, st'), Ok b => st' = st /\ f a = b /\ ok a = true
  | Err e, Err e' => e = e'
  | _, _ => False
  end.

Lemma relG_bind {A B A2 B2} (f : A -> B) ok (f2 : A2 -> B2) ok2 r x st K K' :
  relG f ok r x st -> (forall a, ok a = true -> relG f2 ok2 (K a st) (K' (f a)) st) ->
  relG f2 ok2 (tbind r K) (bind x K') st.
Proof.
  unfold relG at 1. destruct r as [[a st']|e], x as [b|e']; try contradiction.
  - intros [-> [<- Hok]] HK. cbn [tbind bind]. apply HK, Hok.
  - intros -> _. reflexivity.
Qed.
Lemma relG_ret {A B} (f : A -> B) ok a b st : f a = b -> ok a = true -> relG f ok (ret a st) (Ok b) st.
Proof. intros. cbn. auto. Qed.

Definition relT := relG flatten no_auto.
Definition relL := relG (map flatten) (forallb no_auto).

Definition PtA (t : term) := forall isf c st, relT (render_t isf None c t st) (render c t) st.
Definition PlA (l : tlist) := forall isf c st, relL (render_tl isf None c l st) (render_list c l) st.
Definition PwA (l : wlist) := forall isf c st, relL (render_tw isf None c l st) (render_whens c l) st.
Definition PoA (o : oterm) := match o with ONone => True | OSome t => PtA t end.

Lemma opaque_rel c t st : relT (opaque c t st) (render c t) st.
Proof. unfold opaque, relT, relG. destruct (render c t); cbn; auto. repeat split. apply sapp_nil_r. Qed.

Lemma val_leaf_rel isf c l txt alias st :
  relT (val_leaf isf None c l txt alias st) (Ok (alias_sql c (q c) txt alias)) st.
Proof.
  cbn [val_leaf]. apply relG_ret.
  - rewrite flatten_cons, alias_sql_toks. reflexivity.
  - rewrite no_auto_cons, no_auto_alias_toks. reflexivity.
Qed.

Ltac flat := repeat (rewrite ?flatten_aliased, ?flatten_app, ?flatten_cons, ?flatten_opndl, ?flatten_wrap2, ?flatten_parl, ?flatten_nil, ?flatten_jointoks;
                     cbn [tok_text]).
Ltac noauto := repeat (rewrite ?no_auto_aliased, ?no_auto_app, ?no_auto_cons, ?no_auto_opndl, ?no_auto_wrap2, ?no_auto_parl; cbn [is_auto negb andb]);
               repeat match goal with H : no_auto _ = true |- _ => rewrite H end;
               repeat match goal with H : forallb no_auto _ = true |- _ => rewrite (no_auto_jointoks _ _ H) end;
               try reflexivity.
Ltac step IH := eapply relG_bind; [apply IH | intros ? ?].
Ltac fin := apply relG_ret; [flat; rewrite ?sapp_assoc, ?sapp_nil_r; try reflexivity | noauto].

Lemma inline_all : (forall t, PtA t) /\ (forall l, PlA l) /\ (forall l, PwA l) /\ (forall o, PoA o).
Proof.
  apply term_all_ind6; unfold PtA, PlA, PwA, PoA, relT, relL.
  - (* TField *) intros. apply opaque_rel.
  - (* TStar *) intros. apply opaque_rel.
  - (* TValS *) intros. apply val_leaf_rel.
  - (* TValI *) intros. apply val_leaf_rel.
  - (* TValB *) intros. apply val_leaf_rel.
  - (* TValNone *) intros. apply val_leaf_rel.
  - (* TValRaw *) intros. apply val_leaf_rel.
  - (* TLit *) intros. apply opaque_rel.
  - (* TParam *) intros. cbn [render_t render]. apply relG_ret; [apply sapp_nil_r|reflexivity].
  - (* TNeg *) intros t IH isf c st. cbn [render_t render]. step IH. fin.
  - (* TArith *) intros op l IHl r IHr alias isf c st. cbn [render_t render]. unfold arith_left_first. step IHl. step IHr. fin.
    all: try (destruct (wa c); rewrite ?sapp_assoc; reflexivity).
  - (* TBasic *) intros cm l IHl r IHr alias isf c st. cbn [render_t render]. step IHl. step IHr. fin.
    all: try (destruct (wa c); rewrite ?sapp_assoc; reflexivity).
  - (* TCplx *) intros bo l IHl r IHr alias isf c st. cbn [render_t render]. step IHl. step IHr. fin.
  - (* TIn *) intros t IHt cont IHc negated alias isf c st. cbn [render_t render]. step IHt. step IHc. fin.
  - (* TBetween *) intros t IHt lo IHlo hi IHhi alias isf c st. cbn [render_t render]. step IHt. step IHlo. step IHhi. fin.
  - (* TBitAnd *) intros t IHt v alias isf c st. cbn [render_t render]. step IHt. fin.
  - (* TIsNull *) intros t IHt alias isf c st. cbn [render_t render]. step IHt. fin.
  - (* TNotNull *) intros t IHt alias isf c st. cbn [render_t render]. step IHt. fin.
  - (* TNot *) intros t IHt alias isf c st. cbn [render_t render]. step IHt. fin.
  - (* TAll *) intros t IHt alias isf c st. cbn [render_t render]. step IHt. fin.
  - (* TEmpty *) intros. apply opaque_rel.
  - (* TCase *) intros ws IHw els IHe alias isf c st. cbn [render_t render]. destruct ws as [|cr v r]; [reflexivity|].
    step IHw. destruct els as [|t'].
    + cbn [tbind bind ret]. fin; try (destruct (wa c); rewrite ?sapp_assoc; reflexivity).
    + cbn in IHe.
      eapply (relG_bind flatten no_auto flatten no_auto).
      * eapply relG_bind; [apply IHe|intros ? ?]. apply relG_ret; [reflexivity|noauto].
      * intros e He. fin; try (destruct (wa c); rewrite ?sapp_assoc; reflexivity).
  - (* TFunc *) intros name args IHa special alias isf c st. cbn [render_t render].
    specialize (IHa isf (fctx c) []). unfold relG in IHa.
    destruct (render_tl isf None (fctx c) args []) as [[tss s']|e], (render_list (fctx c) args) as [ss|e']; try contradiction.
    + destruct IHa as [_ [<- Hok]]. cbn [bind]. fin; try (destruct (wa c), special; rewrite ?sapp_assoc, ?sapp_nil_r; reflexivity).
    + subst. reflexivity.
  - (* TTuple *) intros vs IHv alias isf c st. cbn [render_t render]. step IHv. fin.
  - (* TArray *) intros vs IHv alias isf c st. cbn [render_t render]. step IHv. apply relG_ret.
    + flat. destruct (is_pg (dia c)).
      * destruct (join "," (map flatten a)) eqn:E; flat; rewrite ?E, ?sapp_assoc, ?sapp_nil_r; reflexivity.
      * flat. rewrite ?sapp_assoc, ?sapp_nil_r. reflexivity.
    + rewrite no_auto_aliased. destruct (is_pg (dia c)); [destruct (flatten (jointoks "," a))|]; noauto.
  - (* TSub *) intros. apply opaque_rel.
  - (* TNil *) intros. cbn. auto.
  - (* TCons *) intros t IHt r IHr isf c st. cbn [render_tl render_list]. step IHt. step IHr.
    apply relG_ret; [reflexivity|]. cbn [forallb]. rewrite H, H0. reflexivity.
  - (* WNil *) intros. cbn. auto.
  - (* WCons *) intros cr IHc v IHv r IHr isf c st. cbn [render_tw render_whens]. step IHc. step IHv. step IHr.
    apply relG_ret.
    + cbn [map]. f_equal. flat. reflexivity.
    + cbn [forallb]. rewrite H1. noauto.
  - (* ONone *) exact I.
  - (* OSome *) intros t IH. exact IH.
Qed.

Theorem inline_term isf c t st : relT (render_t isf None c t st) (render c t) st.
Proof. apply (proj1 inline_all). Qed.
Theorem inline_list isf c l st : relL (render_tl isf None c l st) (render_list c l) st.
Proof. apply (proj1 (proj2 inline_all)). Qed.

(* readable corollaries *)
Corollary inline_ok isf c t st ts st' :
  render_t isf None c t st = Ok (ts, st') -> render c t = Ok (flatten ts) /\ st' = st /\ no_auto ts = true.
Proof.
  intros H. pose proof (inline_term isf c t st) as R. unfold relT, relG in R. rewrite H in R.
  destruct (render c t); [|contradiction]. destruct R as [-> [<- Hn]]. auto.
Qed.
Corollary inline_err isf c t st e : render_t isf None c t st = Err e <-> render c t = Err e.
Proof.
  pose proof (inline_term isf c t st) as R. unfold relT, relG in R.
  destruct (render_t isf None c t st) as [[ts s']|e1], (render c t) as [s|e2]; try contradiction; split; intros H; try discriminate; congruence.
Qed.
Corollary inline_list_ok isf c l st tss st' :
  render_tl isf None c l st = Ok (tss, st') -> st' = st /\ forallb no_auto tss = true.
Proof.
  intros H. pose proof (inline_list isf c l st) as R. unfold relL, relG in R. rewrite H in R.
  destruct (render_list c l); [|contradiction]. destruct R as [-> [_ Hn]]. auto.
Qed.
