(* Proofs about the criterion algebra model (Crit.v). *)
From PV Require Import Base Crit.
From Coq Require Import Lia.

Definition nonempty (cs : list crit) : list crit := filter (fun c => negb (is_empty c)) cs.

(* left-to-right chain  ((c1 op c2) op c3) ...  ; Empty for the empty list *)
Definition chain (op : bop) (cs : list crit) : crit :=
  match cs with [] => Empty | x :: xs => fold_left (Cplx op) xs x end.

(* ---- identity laws ---- *)
Lemma cbin_empty_l op x : cbin op Empty x = x.
Proof. reflexivity. Qed.
Lemma cbin_empty_r op x : cbin op x Empty = x.
Proof. destruct x; reflexivity. Qed.
Lemma cbin_nonempty op a b : is_empty a = false -> is_empty b = false -> cbin op a b = Cplx op a b.
Proof. destruct a, b; simpl; intros; congruence. Qed.

(* ---- all / any are the left-to-right chain of the non-empty members ---- *)
Lemma fold_cbin op : forall cs a,
  fold_left (cbin op) cs a =
  if is_empty a then chain op (nonempty cs) else fold_left (Cplx op) (nonempty cs) a.
Proof.
  induction cs as [|c cs IH]; intros a.
  - destruct a; reflexivity.
  - cbn [fold_left]. rewrite IH. unfold nonempty. cbn [filter]. fold (nonempty cs).
    destruct (is_empty a) eqn:Ea.
    + destruct a; try discriminate. rewrite cbin_empty_l.
      destruct (is_empty c) eqn:Ec; cbn [negb]; [reflexivity|]. reflexivity.
    + destruct (is_empty c) eqn:Ec; cbn [negb].
      * destruct c; try discriminate. rewrite cbin_empty_r, Ea. reflexivity.
      * rewrite (cbin_nonempty op a c Ea Ec). reflexivity.
Qed.

Lemma call_all_chain cs : call_all cs = chain BAnd (nonempty cs).
Proof. unfold call_all, cand. rewrite fold_cbin. reflexivity. Qed.
Lemma call_any_chain cs : call_any cs = chain BOr (nonempty cs).
Proof. unfold call_any, cor. rewrite fold_cbin. reflexivity. Qed.

(* ---- where()/having(): empties are ignored ---- *)
Lemma add_filter_empties : forall cs w, fold_left add_filter cs w = fold_left add_filter (nonempty cs) w.
Proof.
  induction cs as [|c cs IH]; intros w; [reflexivity|].
  unfold nonempty; cbn [fold_left filter]; fold (nonempty cs).
  destruct c; cbn [is_empty negb fold_left add_filter]; apply IH.
Qed.

Lemma all_empty_no_filter : forall cs w, forallb is_empty cs = true -> fold_left add_filter cs w = w.
Proof.
  induction cs as [|c cs IH]; intros w H; [reflexivity|].
  cbn in H. apply andb_prop in H as [Hc Hcs]. destruct c; try discriminate. cbn. apply IH, Hcs.
Qed.

(* successive calls from an empty slot = one call with Criterion.all *)
Lemma add_filter_fold_nonempty : forall cs a, is_empty a = false -> Forall (fun c => is_empty c = false) cs ->
  fold_left add_filter cs (Some a) = Some (fold_left (Cplx BAnd) cs a).
Proof.
  induction cs as [|c cs IH]; intros a Ha Hcs; [reflexivity|].
  inversion Hcs as [|? ? Hc Hr]; subst. cbn [fold_left].
  replace (add_filter (Some a) c) with (Some (Cplx BAnd a c)).
  - apply IH; auto.
  - destruct c; try discriminate; unfold add_filter, cand; rewrite cbin_nonempty; auto.
Qed.

Lemma nonempty_all cs : Forall (fun c => is_empty c = false) (nonempty cs).
Proof.
  unfold nonempty. induction cs as [|c cs IH]; cbn; [constructor|].
  destruct (is_empty c) eqn:E; cbn; auto.
Qed.

Lemma where_calls_from_none cs : fold_left add_filter cs None = add_filter None (call_all cs).
Proof.
  rewrite add_filter_empties, call_all_chain.
  pose proof (nonempty_all cs) as H. destruct (nonempty cs) as [|x xs]; [reflexivity|].
  inversion H as [|? ? Hx Hxs]; subst. cbn [fold_left chain].
  replace (add_filter None x) with (Some x) by (destruct x; try discriminate; reflexivity).
  rewrite add_filter_fold_nonempty; auto.
  assert (E : is_empty (fold_left (Cplx BAnd) xs x) = false).
  { clear H Hxs. revert x Hx. induction xs as [|y ys IH]; intros x Hx; cbn; auto. }
  destruct (fold_left (Cplx BAnd) xs x); try discriminate; reflexivity.
Qed.

(* ---- rendering: AND/OR/XOR chains of one operator render flat, so re-association keeps the text ---- *)
Section Rendering.
Variable wns : bool.
Notation rc := (rc wns).
Notation render_stmt := (render_stmt wns).
Lemma append_assoc' (a b c : string) : (a ++ b) ++ c = a ++ (b ++ c).
Proof. induction a; cbn; congruence. Qed.
Lemma bop_eqb_refl op : bop_eqb op op = true.
Proof. destruct op; reflexivity. Qed.

Lemma rc_assoc op sub x y z :
  rc sub (Cplx op (Cplx op x y) z) = rc sub (Cplx op x (Cplx op y z)).
Proof.
  cbn [rc needs_brackets]. rewrite bop_eqb_refl. cbn [negb].
  destruct (rc (needs_brackets op x) x) as [a|]; [|reflexivity].
  destruct (rc (needs_brackets op y) y) as [b|]; [|reflexivity].
  destruct (rc (needs_brackets op z) z) as [c|]; [|reflexivity].
  rewrite !append_assoc'. reflexivity.
Qed.

Definition rooted (op : bop) (t : crit) : Prop := exists l r, t = Cplx op l r.

Lemma fold_rooted op : forall l x y, rooted op (fold_left (Cplx op) l (Cplx op x y)).
Proof. induction l as [|c l IH]; intros; cbn; [eexists; eexists; reflexivity | apply IH]. Qed.

Lemma rc_cplx_congr op sub x t1 t2 :
  rooted op t1 -> rooted op t2 -> rc false t1 = rc false t2 ->
  rc sub (Cplx op x t1) = rc sub (Cplx op x t2).
Proof.
  intros [l1 [r1 ->]] [l2 [r2 ->]] H. cbn [rc needs_brackets].
  replace (negb (bop_eqb op op)) with false by (destruct op; reflexivity).
  cbn [rc] in H. rewrite H. reflexivity.
Qed.

Lemma rc_fold_shift op : forall l sub x y,
  rc sub (fold_left (Cplx op) l (Cplx op x y)) = rc sub (Cplx op x (fold_left (Cplx op) l y)).
Proof.
  induction l as [|c l IH]; intros sub x y; [reflexivity|].
  cbn [fold_left]. rewrite IH, rc_assoc.
  apply rc_cplx_congr; [eexists; eexists; reflexivity | apply fold_rooted | symmetry; apply IH].
Qed.

(* successive where() calls on an already filtered statement render like one call with the conjunction *)
Lemma where_calls_render cs a sub : is_empty a = false ->
  option_map (rc sub) (fold_left add_filter cs (Some a)) =
  option_map (rc sub) (add_filter (Some a) (call_all cs)).
Proof.
  intros Ha. rewrite add_filter_empties, call_all_chain.
  pose proof (nonempty_all cs) as H.
  rewrite add_filter_fold_nonempty; auto.
  destruct (nonempty cs) as [|x xs]; [reflexivity|].
  inversion H as [|? ? Hx Hxs]; subst. cbn [fold_left chain option_map].
  assert (E : is_empty (fold_left (Cplx BAnd) xs x) = false).
  { clear H Hxs. revert x Hx. induction xs as [|y ys IH]; intros x Hx; cbn; auto. }
  replace (add_filter (Some a) (fold_left (Cplx BAnd) xs x)) with (Some (Cplx BAnd a (fold_left (Cplx BAnd) xs x))).
  - cbn [option_map]. f_equal. apply rc_fold_shift.
  - destruct (fold_left (Cplx BAnd) xs x) eqn:F; try discriminate; unfold add_filter, cand; rewrite cbin_nonempty; auto.
Qed.

End Rendering.

(* ---- renderability: no Empty ever ends up inside a stored filter ---- *)
Fixpoint clean (c : crit) : bool :=
  match c with Empty => false | Atom _ | AtomT _ _ _ => true | Cplx _ l r => clean l && clean r | Not t => clean t end.
Definition wf (c : crit) : bool := is_empty c || clean c.

Lemma clean_renders wns : forall c sub, clean c = true -> exists s, rc wns sub c = Some s.
Proof.
  induction c as [|s|p n f|op l IHl r IHr|t IHt]; intros sub H; cbn in *; try discriminate.
  - eauto.
  - eauto.
  - apply andb_prop in H as [Hl Hr].
    destruct (IHl (needs_brackets op l) Hl) as [a ->], (IHr (needs_brackets op r) Hr) as [b ->]. eauto.
  - destruct (IHt true H) as [a ->]. eauto.
Qed.

Lemma cbin_wf op a b : wf a = true -> wf b = true -> wf (cbin op a b) = true.
Proof.
  unfold wf. destruct a, b; cbn; intros Ha Hb; auto; try (rewrite Ha; auto); try (rewrite Hb; auto);
  rewrite ?andb_true_r; auto; apply andb_true_intro; auto.
Qed.
Lemma cinv_wf a : wf a = true -> wf (cinv a) = true.
Proof. unfold wf; destruct a; cbn; auto. Qed.
Lemma fold_cbin_wf op : forall cs a, wf a = true -> forallb wf cs = true -> wf (fold_left (cbin op) cs a) = true.
Proof.
  induction cs as [|c cs IH]; intros a Ha H; cbn in *; auto.
  apply andb_prop in H as [Hc Hcs]. apply IH; auto using cbin_wf.
Qed.

Definition slot_ok (o : option crit) : bool := match o with None => true | Some c => clean c end.
Lemma add_filter_ok w c : slot_ok w = true -> wf c = true -> slot_ok (add_filter w c) = true.
Proof.
  unfold wf. destruct c; cbn; intros Hw Hc; auto; destruct w as [x|]; cbn in *; auto;
  destruct x; cbn in *; try discriminate; rewrite ?Hw; auto.
Qed.
Lemma fold_add_filter_ok : forall cs w, slot_ok w = true -> forallb wf cs = true ->
  slot_ok (fold_left add_filter cs w) = true.
Proof.
  induction cs as [|c cs IH]; intros w Hw H; cbn in *; auto.
  apply andb_prop in H as [Hc Hcs]. apply IH; auto using add_filter_ok.
Qed.

Lemma stmt_renders wns head w h : slot_ok w = true -> slot_ok h = true -> exists s, render_stmt_h wns head w h = Some s.
Proof.
  intros Hw Hh. unfold render_stmt_h.
  destruct w as [x|], h as [y|]; cbn in *;
  try (destruct (clean_renders wns x false Hw) as [a ->]); try (destruct (clean_renders wns y false Hh) as [b ->]);
  cbn; eauto.
Qed.

(* ---- the sticky _foreign_table flag: successive where() calls set it exactly when one call with the conjunction does ---- *)
Lemma has_foreign_fold op : forall cs a, has_foreign (fold_left (Cplx op) cs a) = has_foreign a || existsb has_foreign cs.
Proof.
  induction cs as [|c cs IH]; intros a; cbn [fold_left existsb]; [now rewrite orb_false_r|].
  rewrite IH. cbn [has_foreign]. now rewrite orb_assoc.
Qed.

Lemma has_foreign_all cs : has_foreign (call_all cs) = existsb has_foreign cs.
Proof.
  rewrite call_all_chain. unfold chain.
  assert (E : existsb has_foreign cs = existsb has_foreign (nonempty cs)).
  { unfold nonempty. induction cs as [|c cs IH]; cbn; auto. destruct c; cbn; auto; rewrite IH; reflexivity. }
  rewrite E. destruct (nonempty cs) as [|x xs]; [reflexivity|]. rewrite has_foreign_fold. reflexivity.
Qed.

Lemma add_where_fold : forall cs st,
  fold_left add_where cs st = (fold_left add_filter cs (fst st), snd st || existsb has_foreign cs).
Proof.
  induction cs as [|c cs IH]; intros [w f]; cbn [fold_left existsb fst snd]; [now rewrite orb_false_r|].
  rewrite IH. destruct c; cbn [add_where add_filter fst snd has_foreign orb]; f_equal;
  repeat match goal with |- context [?x || false] => rewrite (orb_false_r x) end; rewrite <- ?orb_assoc; reflexivity.
Qed.

(* flag after several where() calls = flag after one call with Criterion.all of them *)
Lemma where_flag cs f : snd (fold_left add_where cs (None, f)) = snd (add_where (None, f) (call_all cs)).
Proof.
  rewrite add_where_fold. cbn [snd]. destruct (call_all cs) eqn:E; cbn [add_where snd];
  rewrite <- ?E, ?has_foreign_all; auto.
  (* call_all cs = Empty: no member mentions a foreign table *)
  pose proof (has_foreign_all cs) as H. rewrite E in H. cbn in H. rewrite <- H. now rewrite orb_false_r.
Qed.
