(* DialectView.v — C07: the statement-level token view IS the shared statement renderer.
   For every statement, context, flags and alias: whenever the token renderer (on any fuel) answers [Ok ts],
   Query.rquery / Query.ritem answer [Ok (tflat ts)].
   Method: Query.rquery is re-stated in open-recursion form ([rquery_body], built from named list helpers); the
   re-statement is CONVERTIBLE with the nested fixpoint (lemmas [ritem_unfold] / [rquery_unfold] by reflexivity), and the
   token clauses of Dialect.v are related to the helpers one by one. *)
From PV Require Import Base Crit gen.TermsTable Terms Page gen.QueryTable Query Dialect lemmas.DialectTerms lemmas.DialectQuery.
Local Open Scope list_scope.

(* ================= the string side in open-recursion form ================= *)
(* the local "map in the error monad" fixpoints of Query.v: a one-argument fix (Dialect.rmapM recurses with its parameters) *)
Section SMap.
Context {A B : Type} (f : A -> res B).
Fixpoint smapM (l : list A) : res (list B) :=
  match l with [] => Ok [] | x :: r => a <- f x ;; rest <- smapM r ;; Ok (a :: rest) end.
End SMap.
Lemma smapM_rmapM {A B} (f : A -> res B) l : smapM f l = rmapM f l.
Proof. induction l as [|x r IH]; [reflexivity|]. cbn [smapM rmapM]. rewrite IH. reflexivity. Qed.

Section StrOpen.
Variable ri : kctx -> list tref -> ctx -> item -> res string.
Variable rq : kctx -> bool -> bool -> option string -> query -> res string.

Definition ritem_body (k : kctx) (srcs : list tref) (c : ctx) (i : item) : res string :=
  match i with
  | IT t => render c (map_tref (resolve_tref srcs) t)
  | ISub x => rq (with_c k c) (wa c) (subq c) (qalias x) x
  | IIn t x neg =>
      a <- render (set_subq c false) (map_tref (resolve_tref srcs) t) ;;
      b <- rq (with_c k (set_subq c true)) (wa c) true (qalias x) x ;;
      Ok (a ++ " " ++ (if neg then "NOT " else "") ++ "IN " ++ b)%string
  | IExists x neg =>
      b <- rq (with_c k c) (wa c) (subq c) (qalias x) x ;; Ok ((if neg then "NOT " else "") ++ "EXISTS " ++ b)%string
  | ICmp cm t x =>
      let c' := set_wa c false in
      a <- render c' (map_tref (resolve_tref srcs) t) ;;
      b <- rq (with_c k c') false (subq c) (qalias x) x ;;
      Ok (a ++ cmp_text cm ++ b)%string
  | IFunc name args alias =>
      let k' := fk (with_c k c) in
      ss <- smapM (ri k' srcs (kc k')) args ;;
      let s := (name ++ "(" ++ join "," ss ++ ")")%string in
      Ok (if wa c then alias_sql c (q c) s alias else s)
  | ICplx bo l r =>
      let nb (x : item) := match x with ICplx b2 _ _ => negb (bop_eqb b2 bo) | IT t => needs_brackets_x bo (top_bop t) | _ => false end in
      a <- ri k srcs (set_subc c (nb l)) l ;; b <- ri k srcs (set_subc c (nb r)) r ;;
      Ok (paren (subc c) (a ++ " " ++ bop_text_x bo ++ " " ++ b)%string)
  | INot x => a <- ri k srcs (set_subc c true) x ;; Ok ("NOT " ++ a)%string
  end.

(* list helpers: the local fixpoints of Query.rquery, named *)
Section Sec_with_strs.
Variables (kk : kctx).
Fixpoint with_strs (l : list (string * query)) : res (list string) :=
  match l with [] => Ok [] | (n, y) :: r =>
    a <- rq kk false false (qalias y) y ;; rest <- with_strs r ;; Ok ((n ++ " AS (" ++ a ++ ") ")%string :: rest) end.
End Sec_with_strs.
Section Sec_from_strs.
Variables (k : kctx) (cx : ctx).
Fixpoint from_strs (l : list source) (ns : list (option string)) : res (list string) :=
  match l with [] => Ok [] | s :: r =>
    a <- (match s with
          | SrcT t => Ok (table_sql cx t)
          | SrcQ y => rq (with_c k cx) true true (hd None ns) y
          | SrcA n => Ok n end) ;;
    rest <- from_strs r (tl ns) ;; Ok (a :: rest) end.
End Sec_from_strs.
(* UPDATE / DELETE sources: the table is rendered in [base], a sub-query in [cq] *)
Section Sec_from_strs2.
Variables (k : kctx) (base cq : ctx).
Fixpoint from_strs2 (l : list source) (ns : list (option string)) : res (list string) :=
  match l with [] => Ok [] | s :: r =>
    a <- (match s with
          | SrcT t => Ok (table_sql base t)
          | SrcQ y => rq (with_c k cq) true true (hd None ns) y
          | SrcA nm => Ok nm end) ;;
    rest <- from_strs2 r (tl ns) ;; Ok (a :: rest) end.
End Sec_from_strs2.
Section Sec_join_strs.
Variables (k kk : kctx) (srcs : list tref) (ct cq con : ctx) (qb : option string).
Fixpoint join_strs 
         (l : list (jhow * source * jcond)) (ns : list (option string)) : res (list string) :=
  match l with [] => Ok [] | (h, s, cnd) :: r =>
    a <- (match s with
          | SrcT t => Ok (table_sql ct (src_ref s (hd None ns)))
          | SrcQ y => rq (with_c k cq) true true (hd None ns) y
          | SrcA n => Ok n end) ;;
    cn <- (match cnd with
           | JOn i => b <- ri kk srcs con i ;; Ok (" ON " ++ b)%string
           | JUsing fs => Ok (" USING (" ++ join "," (map (fq qb) fs) ++ ")")%string
           | JCrossCond => Ok "" end) ;;
    rest <- join_strs r (tl ns) ;;
    Ok ((jprefix h cnd ++ "JOIN " ++ a ++ cn)%string :: rest) end.
End Sec_join_strs.
Definition alias_ref_s (selected_aliases : list (option string)) (y : item) : option string :=
  match item_alias y with
  | Some a => if truthy_ostr (Some a) && existsb (option_eqb String.eqb (Some a)) selected_aliases then Some a else None
  | None => None end.
Section Sec_group_strs.
Variables (kk : kctx) (srcs : list tref) (cx base : ctx) (gba : bool) (sa : list (option string)).
Fixpoint group_strs (l : list item)
  : res (list string) :=
  match l with [] => Ok [] | y :: r =>
    a <- (match (if gba then alias_ref_s sa y else None) with
          | Some a => Ok (fq (or_ostr (aq base) (q base)) a)
          | None => ri kk srcs cx y end) ;;
    rest <- group_strs r ;; Ok (a :: rest) end.
End Sec_group_strs.
Section Sec_order_strs.
Variables (kk : kctx) (srcs : list tref) (cx base : ctx) (sa : list (option string)).
Fixpoint order_strs (l : list (item * option order))
  : res (list string) :=
  match l with [] => Ok [] | (y, d) :: r =>
    a <- (match alias_ref_s sa y with
          | Some a => Ok (fq (or_ostr (aq base) (q base)) a)
          | None => ri kk srcs cx y end) ;;
    rest <- order_strs r ;;
    Ok ((match d with Some d' => (a ++ " " ++ order_text d')%string | None => a end) :: rest) end.
End Sec_order_strs.

Definition qsel_str (kin : kctx) (walias subquery : bool) (ali : option string)
           (c : cls) (withs : list (string * query)) (distinct : bool) (selects : list item) (from : list source)
           (joins : list (jhow * source * jcond)) (wheres havings : option item) (groupbys : list item)
           (orderbys : list (item * option order)) (l o : option Z) (fu : bool) : res string :=
  let k := defaults c kin in
  let (fnames, n1) := name_from sub_count 0 from in
  let (jnames, _) := name_joins (base_tables from) (src_names from fnames) n1 joins in
  let srcs := (src_refs from fnames ++ src_refs (map (fun j => snd (fst j)) joins) jnames)%list in
  let in_scope (tb : tref) := existsb (tref_eqb tb) srcs in
  let foreign := existsb (fun o => match o with Some tb => negb (in_scope (resolve_tref srcs tb)) | None => false end)
                         (match wheres with Some w => item_tables w | None => [] end) in
  let wns := negb (Nat.eqb (List.length joins) 0) || Nat.ltb 1 (List.length from)
             || (match from with SrcQ y :: _ => is_builder y | _ => false end)
             || foreign in
  let base := kc k in
  let ci (wa_ sq_ : bool) := ctx_item k wa_ sq_ wns in
  let kk := with_c k (set_wn base wns) in
  match selects with
  | [] => Ok ""
  | _ =>
  w <- (match withs with
        | [] => Ok ""
        | _ => ws <- with_strs kk withs ;; Ok ("WITH " ++ join "," ws)%string end) ;;
  sel <- smapM (ri kk srcs (ci true true)) selects ;;
  fr <- from_strs k (ci true true) from fnames ;;
  js <- join_strs k kk srcs (ci true true) (ci true true) (ci false true) (q base) joins jnames ;;
  wh <- opt_bind wheres (fun i => a <- ri kk srcs (ci false true) i ;; Ok (" WHERE " ++ a)%string) ;;
  let selected_aliases := map item_alias selects in
  gb <- (match groupbys with
         | [] => Ok ""
         | _ => gs <- group_strs kk srcs (ci false clause_subq_groupby) base (k_gba k) selected_aliases groupbys ;;
                Ok (" GROUP BY " ++ join "," gs)%string end) ;;
  hv <- opt_bind havings (fun i => a <- ri kk srcs (ci false clause_subq_having) i ;; Ok (" HAVING " ++ a)%string) ;;
  ob <- (match orderbys with
         | [] => Ok ""
         | _ => os <- order_strs kk srcs (ci false clause_subq_orderby) base selected_aliases orderbys ;;
                Ok (" ORDER BY " ++ join "," os)%string end) ;;
  let body := (w ++ "SELECT " ++ (if distinct then "DISTINCT " else "") ++ join "," sel
              ++ (match fr with [] => "" | _ => " FROM " ++ join "," fr end)
              ++ (match js with [] => "" | _ => " " ++ join " " js end)
              ++ wh ++ gb ++ hv ++ ob ++ page_tail c KSelect l o ++ (if fu then " FOR UPDATE" else ""))%string in
  let body := paren subquery body in
  Ok (if walias then fmt_alias body ali (q base) (k_qaq k) (askw base) else body)
  end.

Section Sec_row_strs.
Variables (kk : kctx) (cx : ctx).
Fixpoint row_strs (l : list (list item)) : res (list string) :=
  match l with [] => Ok [] | row :: r =>
    vs <- smapM (ri kk [] cx) row ;;
    rest <- row_strs r ;; Ok (join "," vs :: rest) end.
End Sec_row_strs.

Definition qins_str (kin : kctx) (walias subquery : bool) (ali : option string)
           (c : cls) (into : tref) (columns : list term) (rows : list (list item)) (sel : option query) (replace : bool) : res string :=
  let k := defaults c kin in
  let base := set_wn (kc k) false in
  let kk := with_c k base in
  let head := ((if replace then "REPLACE INTO " else "INSERT INTO ") ++ table_sql base into)%string in
  cols <- (match columns with
           | [] => Ok ""
           | _ => cs <- render_list base (fold_right TCons TNil columns) ;; Ok (" (" ++ join "," cs ++ ")")%string end) ;;
  match rows, sel with
  | [], None => Ok ""
  | _ :: _, _ =>
      rs <- row_strs kk (set_subq (set_wa base false) true) rows ;;
      Ok (head ++ cols ++ " VALUES (" ++ join "),(" rs ++ ")")%string
  | [], Some y =>
      s <- rq kk false false (qalias y) y ;;
      match s with
      | EmptyString => Ok ""
      | _ =>
        let body := paren subquery (head ++ cols ++ " " ++ s)%string in
        Ok (if walias then fmt_alias body ali (q base) (k_qaq k) (askw base) else body)
      end
  end.

Section Sec_set_strs.
Variables (kk : kctx) (srcs : list tref) (cf cv : ctx).
Fixpoint set_strs (l : list (term * item)) : res (list string) :=
  match l with [] => Ok [] | (f, v) :: r =>
    a <- render cf f ;;
    b <- ri kk srcs cv v ;;
    rest <- set_strs r ;; Ok ((a ++ "=" ++ b)%string :: rest) end.
End Sec_set_strs.

Definition qupd_str (kin : kctx) (c : cls) (tbl : tref) (sets : list (term * item)) (from : list source)
           (joins : list (jhow * source * jcond)) (wheres : option item) (l : option Z) : res string :=
  let k := defaults c kin in
  let (fnames, n1) := name_from sub_count 0 from in
  let (jnames, _) := name_joins (tbl :: base_tables from) (tref_name tbl :: src_names from fnames) n1 joins in
  let srcs := (src_refs from fnames ++ src_refs (map (fun j => snd (fst j)) joins) jnames)%list in
  let in_scope (tb : tref) := existsb (tref_eqb tb) (tbl :: srcs) in
  let foreign := existsb (fun o => match o with Some tb => negb (in_scope (resolve_tref srcs tb)) | None => false end)
                         (match wheres with Some w => item_tables w | None => [] end) in
  let wns := negb (Nat.eqb (List.length joins) 0) || Nat.ltb 1 (List.length from)
             || (match from with SrcQ y :: _ => is_builder y | _ => false end)
             || foreign || negb (Nat.eqb (List.length from) 0) in
  let base := set_wn (kc k) wns in
  let kk := with_c k base in
  match sets with
  | [] => Ok ""
  | _ =>
  js <- join_strs k kk srcs base (set_subq (set_wa base true) true) (set_subq (set_wa base false) true) (q base) joins jnames ;;
  ss <- set_strs kk srcs (set_wn base false) (if clause_subq_setvalue then set_subq base true else base) sets ;;
  fr <- from_strs2 k base (set_subq (set_wa base true) true) from fnames ;;
  wh <- opt_bind wheres (fun i => a <- ri kk srcs (set_subq base true) i ;; Ok (" WHERE " ++ a)%string) ;;
  Ok ((if cls_is_clickhouse c then "ALTER TABLE " else "UPDATE ") ++ table_sql base tbl
      ++ (match js with [] => "" | _ => " " ++ join " " js end)
      ++ (if cls_is_clickhouse c then " UPDATE " else " SET ") ++ join "," ss
      ++ (match fr with [] => "" | _ => " FROM " ++ join "," fr end)
      ++ wh ++ page_tail c KUpdate l None)%string
  end.

Definition qdel_str (kin : kctx) (subquery : bool) (c : cls) (from : list source) (wheres : option item) : res string :=
  let k := defaults c kin in
  let (fnames, _) := name_from sub_count 0 from in
  let srcs := src_refs from fnames in
  let in_scope (tb : tref) := existsb (tref_eqb tb) srcs in
  let foreign := existsb (fun o => match o with Some tb => negb (in_scope (resolve_tref srcs tb)) | None => false end)
                         (match wheres with Some w => item_tables w | None => [] end) in
  let wns := Nat.ltb 1 (List.length from) || (match from with SrcQ y :: _ => is_builder y | _ => false end) || foreign in
  let base := set_wn (kc k) wns in
  let kk := with_c k base in
  fr <- from_strs2 k base (set_subq (set_wa base true) true) from fnames ;;
  wh <- opt_bind wheres (fun i => a <- ri kk srcs (set_subq base true) i ;; Ok (" WHERE " ++ a)%string) ;;
  let body := ((if cls_is_clickhouse c
               then "ALTER TABLE" ++ (match fr with [] => "" | _ => " " ++ join "," fr ++ " DELETE" end)
               else "DELETE" ++ (match fr with [] => "" | _ => " FROM " ++ join "," fr end)) ++ wh)%string in
  Ok (paren subquery body).

Section Sec_setop_strs.
Variables (k : kctx) (wrap : bool) (base : query).
Fixpoint setop_strs (l2 : list (setop * query)) : res (list string) :=
  match l2 with [] => Ok [] | (so, y) :: r =>
    a0 <- rq k false wrap (qalias y) y ;;
    let a := match y with
             | QSet _ _ _ _ _ _ => if wrap then a0 else ("SELECT * FROM (" ++ a0 ++ ")")%string
             | _ => a0 end in
    (if Nat.eqb (nselects base) (nselects y) then
       rs <- setop_strs r ;; Ok ((" " ++ setop_text so ++ " " ++ a)%string :: rs)
     else Err "SetOperationException") end.
End Sec_setop_strs.
Section Sec_sorder_strs.
Variables (c : ctx) (sa : list (option string)).
Fixpoint sorder_strs (l2 : list (term * option order)) : res (list string) :=
  match l2 with [] => Ok [] | (t, d) :: r =>
    a <- (match term_alias t with
          | Some a => if truthy_ostr (Some a) && existsb (option_eqb String.eqb (Some a)) sa
                      then Ok (fq (or_ostr (aq c) (q c)) a) else render (set_wa c false) t
          | None => render (set_wa c false) t end) ;;
    rs <- sorder_strs r ;;
    Ok ((match d with Some d' => (a ++ " " ++ order_text d')%string | None => a end) :: rs) end.
End Sec_sorder_strs.

Definition qset_str (kin : kctx) (walias subquery : bool) (ali : option string)
           (base : query) (ops : list (setop * query)) (orderbys : list (term * option order)) (l o : option Z) : res string :=
  let bc := match base with QSel c _ _ _ _ _ _ _ _ _ _ _ _ _ => c | QIns c _ _ _ _ _ _ => c | QUpd c _ _ _ _ _ _ => c
                          | QDel c _ _ => c | QSet _ _ _ _ _ _ => CQuery end in
  let k := defaults bc kin in
  let wrap := cls_wrap bc in
  b <- rq k false wrap (qalias base) base ;;
  rest <- setop_strs k wrap base ops ;;
  let c := kc k in
  let selected_aliases := match base with
                          | QSel _ _ _ sels _ _ _ _ _ _ _ _ _ _ => map item_alias sels
                          | _ => [] end in
  ob <- (match orderbys with
         | [] => Ok ""
         | _ => os <- sorder_strs c selected_aliases orderbys ;; Ok (" ORDER BY " ++ join "," os)%string end) ;;
  let body := (b ++ sconcat rest ++ ob ++ page_tail bc KSelect l o)%string in
  let body := paren subquery body in
  Ok (if walias then fmt_alias body ali (q c) (k_qaq k) (askw c) else body).

Definition rquery_body (kin : kctx) (walias subquery : bool) (ali : option string) (x : query) : res string :=
  match x with
  | QSel c withs distinct selects from joins wheres havings groupbys orderbys l o fu _ =>
      qsel_str kin walias subquery ali c withs distinct selects from joins wheres havings groupbys orderbys l o fu
  | QIns c into columns rows sel replace _ => qins_str kin walias subquery ali c into columns rows sel replace
  | QUpd c tbl sets from joins wheres l => qupd_str kin c tbl sets from joins wheres l
  | QDel c from wheres => qdel_str kin subquery c from wheres
  | QSet base ops orderbys l o _ => qset_str kin walias subquery ali base ops orderbys l o
  end.
End StrOpen.

(* the open-recursion form is the nested fixpoint of Query.v, by conversion *)
Lemma ritem_unfold k srcs c i : ritem k srcs c i = ritem_body ritem rquery k srcs c i.
Proof. destruct i; reflexivity. Qed.
Lemma rquery_unfold kin walias subquery ali x : rquery kin walias subquery ali x = rquery_body ritem rquery kin walias subquery ali x.
Proof. destruct x; reflexivity. Qed.

(* ================= token clauses vs string helpers ================= *)
Lemma tflat_vparen b pv ts : tflat (vparen b pv ts) = paren b (tflat ts).
Proof.
  destruct b, pv; cbn [vparen paren]; try reflexivity.
  - rewrite tflat_V, tflat_app, tflat_one. reflexivity.
  - rewrite tflat_T, tflat_app, tflat_one. reflexivity.
Qed.
Lemma tflat_page c kd l o : tflat (page_toks_v c kd l o) = page_tail c kd l o.
Proof. unfold page_toks_v. destruct (page_tail c kd l o) eqn:E; [reflexivity|]. rewrite tflat_one. reflexivity. Qed.
Lemma tflat_optlist pre sep ss :
  tflat (match ss with [] => [] | _ => T pre :: tjoin sep ss end) =
  match map tflat ss with [] => "" | _ => (pre ++ join sep (map tflat ss))%string end.
Proof. destruct ss; [reflexivity|]. rewrite tflat_T, tflat_tjoin. reflexivity. Qed.
Lemma tflat_table c og t : tflat (table_toks c og t) = table_sql c t.
Proof.
  unfold table_toks, table_sql. rewrite tflat_falias. f_equal.
  destruct (tschema t) as [|s0 ch]; [apply tflat_one|].
  rewrite tflat_app, tflat_T, tflat_one, tflat_tjoin, map_map. unfold schema_sql. cbn [tok_text snd atok_text].
  f_equal. f_equal. apply map_ext. intros a. apply tflat_one.
Qed.
Lemma tflat_concat ss : tflat (List.concat ss) = sconcat (map tflat ss).
Proof. induction ss as [|x r IH]; [reflexivity|]. cbn [List.concat map sconcat]. rewrite tflat_app, IH. reflexivity. Qed.
Lemma tflat_mark_group ts : tflat (mark_group ts) = tflat ts.
Proof. unfold tflat, mark_group. rewrite map_map. reflexivity. Qed.
Lemma tflat_cte nm og : tflat [(false, AId RCte None nm og)] = nm.
Proof. rewrite tflat_one. cbn [tok_text snd atok_text fq ostr odefault String.append]. apply sapp_nil_r. Qed.
#[export] Hint Rewrite tflat_vparen tflat_page tflat_table tflat_concat tflat_mark_group tflat_cte : tfl.

Lemma ttoks_ok c og t ts : ttoks c og t = Ok ts -> render c t = Ok (tflat ts).
Proof. intros H. rewrite (ttoks_render t c og), H. reflexivity. Qed.
Lemma ttoks_list_ok c og l tss : ttoks_list c og l = Ok tss -> render_list c l = Ok (map tflat tss).
Proof. intros H. rewrite (proj1 (proj2 ttoks_render_all) l c og), H. reflexivity. Qed.

Lemma mapM_view {A} (g : A -> res (list dtok)) (f : A -> res string) l tss :
  (forall y ts, g y = Ok ts -> f y = Ok (tflat ts)) -> rmapM g l = Ok tss -> smapM f l = Ok (map tflat tss).
Proof.
  intros Hf. revert tss. induction l as [|x r IH]; intros tss H; cbn [rmapM] in H.
  - inversion H. reflexivity.
  - inv_ok H. cbn [smapM]. erewrite Hf by eassumption. cbn [bind]. erewrite IH by reflexivity. reflexivity.
Qed.

Section View.
Variable it : kctx -> origin -> list tref -> ctx -> item -> res (list dtok).
Variable qt : kctx -> origin -> bool -> bool -> bool -> option string -> query -> res (list dtok).
Variable ri : kctx -> list tref -> ctx -> item -> res string.
Variable rq : kctx -> bool -> bool -> option string -> query -> res string.
Hypothesis Hit : forall k og srcs c i ts, it k og srcs c i = Ok ts -> ri k srcs c i = Ok (tflat ts).
Hypothesis Hqt : forall kin og wal sub pv ali x ts, qt kin og wal sub pv ali x = Ok ts -> rq kin wal sub ali x = Ok (tflat ts).
(* INSERT ... SELECT: an empty select list renders as the empty text, a non-empty one never does *)
Hypothesis Hempty : forall kin wal sub ali y, is_qsel y = true -> nselects y = 0 -> rq kin wal sub ali y = Ok "".
Hypothesis Hne : forall kin og pv ali y ts, is_qsel y = true -> nselects y <> 0 -> qt kin og false false pv ali y = Ok ts -> tflat ts <> "".

Notation rid := (fun c : cls => c).

Ltac useq E := match type of E with
  | qt _ _ _ _ _ _ _ = Ok _ => apply Hqt in E
  | it _ _ _ _ _ = Ok _ => apply Hit in E
  | ttoks _ _ _ = Ok _ => apply ttoks_ok in E
  end.
Ltac useall := repeat match goal with
  | E : qt _ _ _ _ _ _ _ = Ok _ |- _ => apply Hqt in E
  | E : it _ _ _ _ _ = Ok _ |- _ => apply Hit in E
  | E : ttoks _ _ _ = Ok _ |- _ => apply ttoks_ok in E
  end.
Ltac str_eq := autorewrite with tfl; rewrite ?map_map; repeat (progress (cbn [String.append]; rewrite ?sapp_assoc)); try reflexivity.
Ltac rw := repeat match goal with E : _ = Ok _ |- _ => rewrite E; clear E; cbn [bind] end.

Lemma item_view k og srcs c i ts : item_toks it qt k og srcs c i = Ok ts -> ritem_body ri rq k srcs c i = Ok (tflat ts).
Proof.
  intros H. destruct i; cbn [item_toks ritem_body] in *.
  - apply ttoks_ok in H. exact H.
  - apply Hqt in H. exact H.
  - inv_ok H. useall. rw; f_equal; str_eq.
  - inv_ok H. useall. rw; f_equal; str_eq.
  - inv_ok H. useall. rw; f_equal; str_eq.
  - inv_ok H. match goal with E : rmapM _ _ = Ok _ |- _ => eapply (mapM_view _ (ri (fk (with_c k c)) srcs (kc (fk (with_c k c))))) in E; [|intros y ts0 Hy; apply Hit in Hy; exact Hy] end.
    rw; f_equal; destruct (wa c); str_eq.
  - inv_ok H. useall. rw; f_equal; str_eq.
  - inv_ok H. useall. rw; f_equal; str_eq.
Qed.

Lemma with_view kk og withs tss :
  rmapM (fun ny : string * query => a <- qt kk og false false false (qalias (snd ny)) (snd ny) ;;
                                    Ok ((false, AId RCte None (fst ny) og) :: T " AS (" :: a ++ [T ") "])) withs = Ok tss ->
  with_strs rq kk withs = Ok (map tflat tss).
Proof.
  revert tss. induction withs as [|[n y] r IH]; intros tss H; cbn [rmapM] in H.
  - inversion H. reflexivity.
  - cbn [fst snd] in H. inv_ok H. match goal with E : bind _ _ = Ok _ |- _ => inv_ok E end.
    useall. cbn [with_strs]. erewrite IH by reflexivity. rw. cbn [map]. f_equal. f_equal.
    rewrite tflat_cons, tflat_T, tflat_app, tflat_one. cbn [tok_text T snd atok_text fq ostr odefault String.append].
    rewrite sapp_assoc. reflexivity.
Qed.

Lemma from_view k og cx from ns tss :
  rmapM (from_toks qt k og cx) (zip_names from ns) = Ok tss -> from_strs rq k cx from ns = Ok (map tflat tss).
Proof.
  revert ns tss. induction from as [|s r IH]; intros ns tss H.
  - inversion H. reflexivity.
  - change (zip_names (s :: r) ns) with ((s, hd None ns) :: zip_names r (tl ns)) in H. cbn [rmapM] in H. inv_ok H.
    cbn [from_strs]. erewrite IH by eassumption.
    match goal with E : from_toks _ _ _ _ _ = Ok _ |- _ => unfold from_toks, src_toks in E; cbn [fst snd] in E end.
    destruct s; cbn [bind map].
    + match goal with E : Ok _ = Ok _ |- _ => inversion E; subst end. rewrite tflat_table. reflexivity.
    + useall. rw. reflexivity.
    + match goal with E : Ok _ = Ok _ |- _ => inversion E; subst end. rewrite tflat_cte. reflexivity.
Qed.

(* UPDATE / DELETE: the table in [base], a sub-query in [cq]; table_toks only reads the quote fields, equal in both *)
Lemma table_toks_ctx c c' og t : q c = q c' -> aq c = aq c' -> askw c = askw c' -> table_toks c og t = table_toks c' og t.
Proof. intros H1 H2 H3. unfold table_toks. rewrite H1, H2, H3. reflexivity. Qed.

Lemma from2_view k og base from ns tss :
  rmapM (from_toks qt k og (set_subq (set_wa base true) true)) (zip_names from ns) = Ok tss ->
  from_strs2 rq k base (set_subq (set_wa base true) true) from ns = Ok (map tflat tss).
Proof.
  revert ns tss. induction from as [|s r IH]; intros ns tss H.
  - inversion H. reflexivity.
  - change (zip_names (s :: r) ns) with ((s, hd None ns) :: zip_names r (tl ns)) in H. cbn [rmapM] in H. inv_ok H.
    cbn [from_strs2]. erewrite IH by eassumption.
    match goal with E : from_toks _ _ _ _ _ = Ok _ |- _ => unfold from_toks, src_toks in E; cbn [fst snd] in E end.
    destruct s; cbn [bind map].
    + match goal with E : Ok _ = Ok _ |- _ => inversion E; subst end.
      rewrite (table_toks_ctx _ base) by reflexivity. rewrite tflat_table. reflexivity.
    + useall. rw. reflexivity.
    + match goal with E : Ok _ = Ok _ |- _ => inversion E; subst end. rewrite tflat_cte. reflexivity.
Qed.

Lemma join_view k kk og srcs ct cq con qb joins ns tss :
  qb = q con -> q ct = q cq -> aq ct = aq cq -> askw ct = askw cq ->
  rmapM (join_toks it qt k kk og srcs cq con) (zip_names joins ns) = Ok tss ->
  join_strs ri rq k kk srcs ct cq con qb joins ns = Ok (map tflat tss).
Proof.
  intros -> Q1 Q2 Q3. revert ns tss. induction joins as [|[[h s] cnd] r IH]; intros ns tss H.
  - inversion H. reflexivity.
  - change (zip_names ((h, s, cnd) :: r) ns) with ((h, s, cnd, hd None ns) :: zip_names r (tl ns)) in H. cbn [rmapM] in H. inv_ok H.
    cbn [join_strs]. erewrite IH by eassumption.
    match goal with E : join_toks _ _ _ _ _ _ _ _ _ = Ok _ |- _ => unfold join_toks, src_toks in E; cbn [fst snd] in E; inv_ok E end.
    assert (Hsrc : match s with
                   | SrcT t => Ok (table_sql ct (src_ref s (hd None ns)))
                   | SrcQ y => rq (with_c k cq) true true (hd None ns) y
                   | SrcA n => Ok n end = Ok (tflat a1)).
    { destruct s.
      - match goal with E : Ok _ = Ok a1 |- _ => inversion E; subst end.
        rewrite <- (table_toks_ctx ct cq) by assumption. rewrite tflat_table. reflexivity.
      - useall. assumption.
      - match goal with E : Ok _ = Ok a1 |- _ => inversion E; subst end. rewrite tflat_cte. reflexivity. }
    rewrite Hsrc. cbn [bind].
    destruct cnd as [i|fs|]; cbn [bind map].
    + match goal with E : bind _ _ = Ok _ |- _ => inv_ok E end. useall. rw; f_equal; f_equal; str_eq.
    + match goal with E : Ok _ = Ok _ |- _ => inversion E; subst end. f_equal. f_equal. autorewrite with tfl.
      rewrite ?map_map.
      replace (map (fun x : string => tflat [(false, AId RIdent (q con) x og)]) fs) with (map (fq (q con)) fs); [reflexivity|].
      apply map_ext. intros x. rewrite tflat_one. reflexivity.
    + match goal with E : Ok _ = Ok _ |- _ => inversion E; subst end. f_equal. f_equal. str_eq.
Qed.

Lemma where_view kw kk og srcs cx w ts :
  where_toks it kw kk og srcs cx w = Ok ts ->
  opt_bind w (fun i => a <- ri kk srcs cx i ;; Ok (kw ++ a)%string) = Ok (tflat ts).
Proof.
  unfold where_toks, opt_toks, opt_bind. destruct w as [i|]; intros H; [|inversion H; reflexivity].
  inv_ok H. useall. rw; f_equal; str_eq.
Qed.

Lemma alias_ref_eq selects y : alias_ref selects y = alias_ref_s (map item_alias selects) y.
Proof. reflexivity. Qed.

Lemma group_view kk og srcs cx base gba selects groupbys tss :
  rmapM (gitem_toks it kk og srcs cx base gba selects) groupbys = Ok tss ->
  group_strs ri kk srcs cx base gba (map item_alias selects) groupbys = Ok (map tflat tss).
Proof.
  revert tss. induction groupbys as [|y r IH]; intros tss H; cbn [rmapM] in H.
  - inversion H. reflexivity.
  - inv_ok H. cbn [group_strs]. erewrite IH by reflexivity.
    match goal with E : gitem_toks _ _ _ _ _ _ _ _ _ = Ok _ |- _ => unfold gitem_toks in E; inv_ok E end.
    rewrite <- alias_ref_eq. destruct (if gba then alias_ref selects y else None).
    + match goal with E : Ok _ = Ok _ |- _ => inversion E; subst end. cbn [bind map]. rewrite tflat_mark_group, tflat_one. reflexivity.
    + useall. rw. cbn [map]. rewrite tflat_mark_group. reflexivity.
Qed.

Lemma order_view kk og srcs cx base selects orderbys tss :
  rmapM (oitem_toks it kk og srcs cx base selects) orderbys = Ok tss ->
  order_strs ri kk srcs cx base (map item_alias selects) orderbys = Ok (map tflat tss).
Proof.
  revert tss. induction orderbys as [|[y d] r IH]; intros tss H; cbn [rmapM] in H.
  - inversion H. reflexivity.
  - inv_ok H. cbn [order_strs]. erewrite IH by reflexivity.
    match goal with E : oitem_toks _ _ _ _ _ _ _ _ = Ok _ |- _ => unfold oitem_toks in E; cbn [fst snd] in E; inv_ok E end.
    rewrite <- alias_ref_eq. destruct (alias_ref selects y).
    + match goal with E : Ok _ = Ok _ |- _ => inversion E; subst end. cbn [bind map]. f_equal. f_equal.
      destruct d; str_eq.
    + useall. rw. cbn [map]. f_equal. f_equal. destruct d; str_eq.
Qed.

Lemma bind_ok {A B} (x : res A) (f : A -> res B) a : x = Ok a -> bind x f = f a.
Proof. intros H. rewrite H. reflexivity. Qed.
(* solve the first bind of the goal with [lem] applied to a token-side hypothesis *)
Ltac stepb lem :=
  match goal with |- bind ?x ?f = _ =>
    let H := fresh "Hs" in eassert (H : x = Ok _) by (lem; eassumption); rewrite (bind_ok x f _ H); clear H; cbn beta end.

Lemma with_view2 kk og withs ts :
  with_toks qt kk og withs = Ok ts ->
  match withs with [] => Ok "" | _ :: _ => ws <- with_strs rq kk withs ;; Ok ("WITH " ++ join "," ws)%string end = Ok (tflat ts).
Proof.
  unfold with_toks. destruct withs as [|w0 wr]; intros H; [inversion H; reflexivity|].
  inv_ok H. erewrite with_view by eassumption. cbn [bind]. f_equal. str_eq.
Qed.
Lemma group_view2 kk og srcs cx base gba selects groupbys ts :
  group_toks it kk og srcs cx base gba selects groupbys = Ok ts ->
  match groupbys with [] => Ok "" | _ :: _ =>
    gs <- group_strs ri kk srcs cx base gba (map item_alias selects) groupbys ;; Ok (" GROUP BY " ++ join "," gs)%string end = Ok (tflat ts).
Proof.
  unfold group_toks. destruct groupbys as [|g0 gr]; intros H; [inversion H; reflexivity|].
  inv_ok H. erewrite group_view by eassumption. cbn [bind]. f_equal. str_eq.
Qed.
Lemma order_view2 kk og srcs cx base selects orderbys ts :
  order_toks it kk og srcs cx base selects orderbys = Ok ts ->
  match orderbys with [] => Ok "" | _ :: _ =>
    os <- order_strs ri kk srcs cx base (map item_alias selects) orderbys ;; Ok (" ORDER BY " ++ join "," os)%string end = Ok (tflat ts).
Proof.
  unfold order_toks. destruct orderbys as [|o0 or_]; intros H; [inversion H; reflexivity|].
  inv_ok H. erewrite order_view by eassumption. cbn [bind]. f_equal. str_eq.
Qed.
Lemma sel_view kk og srcs cx selects tss :
  rmapM (it kk og srcs cx) selects = Ok tss -> smapM (ri kk srcs cx) selects = Ok (map tflat tss).
Proof. apply mapM_view. intros y ts Hy. apply Hit in Hy. exact Hy. Qed.

Lemma map_nil_iff {A B} (f : A -> B) l : match map f l with [] => true | _ => false end = match l with [] => true | _ => false end.
Proof. destruct l; reflexivity. Qed.

Lemma qsel_view kin og0 wal sub pv ali c withs distinct selects from joins wheres havings groupbys orderbys l o fu ts :
  qsel_toks rid it qt kin og0 wal sub pv ali c withs distinct selects from joins wheres havings groupbys orderbys l o fu = Ok ts ->
  qsel_str ri rq kin wal sub ali c withs distinct selects from joins wheres havings groupbys orderbys l o fu = Ok (tflat ts).
Proof.
  unfold qsel_toks, qsel_str, foreign_ref, first_is_builder.
  destruct (name_from sub_count 0 from) as [fnames n1]. cbn [fst snd].
  destruct (name_joins (base_tables from) (src_names from fnames) n1 joins) as [jnames n2]. cbn [fst snd].
  cbv zeta. intros H. destruct selects as [|s0 sr]; [inversion H; reflexivity|].
  inv_bind H.
  stepb ltac:(eapply with_view2). stepb ltac:(eapply sel_view). stepb ltac:(eapply from_view).
  stepb ltac:(eapply join_view; [reflexivity|reflexivity|reflexivity|reflexivity|]).
  stepb ltac:(eapply (where_view " WHERE ")). stepb ltac:(eapply group_view2). stepb ltac:(eapply (where_view " HAVING ")).
  stepb ltac:(eapply order_view2).
  inversion H; subst; clear H. f_equal.
  destruct wal; rewrite ?tflat_falias, tflat_vparen; (f_equal || (f_equal; [f_equal|]));
    rewrite ?tflat_app, ?tflat_T; repeat rewrite tflat_app; rewrite ?tflat_optlist, ?tflat_tjoin, ?tflat_page;
    destruct distinct, fu; cbn [tflat map sconcat tok_text T snd atok_text app]; rewrite ?sapp_nil_r;
    repeat match goal with |- context [map tflat ?x] => destruct (map tflat x) eqn:?; [|] end;
    repeat (progress (cbn [String.append]; rewrite ?sapp_assoc)); reflexivity.
Qed.

Lemma rows_view kk og cx rows tss :
  rmapM (fun row => vs <- rmapM (it kk og [] cx) row ;; Ok (tjoin "," vs)) rows = Ok tss ->
  row_strs ri kk cx rows = Ok (map tflat tss).
Proof.
  revert tss. induction rows as [|row r IH]; intros tss H; cbn [rmapM] in H.
  - inversion H. reflexivity.
  - inv_ok H. match goal with E : bind _ _ = Ok _ |- _ => inv_ok E end.
    cbn [row_strs]. erewrite sel_view by eassumption. cbn [bind]. erewrite IH by reflexivity. cbn [bind map].
    rewrite tflat_tjoin. reflexivity.
Qed.

Lemma sappend_nil_inv (a b : string) : (a ++ b)%string = "" -> a = "" /\ b = "".
Proof. destruct a; cbn; [auto|discriminate]. Qed.

Lemma qins_view kin og0 wal sub pv ali c into columns rows sel replace ts :
  qins_toks rid it qt kin og0 wal sub pv ali c into columns rows sel replace = Ok ts ->
  qins_str ri rq kin wal sub ali c into columns rows sel replace = Ok (tflat ts).
Proof.
  unfold qins_toks, qins_str. cbv zeta. intros H. inv_bind H.
  match goal with E : match columns with [] => _ | _ => _ end = Ok ?cols |- _ =>
    assert (Hc : match columns with
                 | [] => Ok ""
                 | _ :: _ => cs <- render_list (set_wn (kc (defaults c kin)) false) (fold_right TCons TNil columns) ;;
                             Ok (" (" ++ join "," cs ++ ")")%string end = Ok (tflat cols)) end.
  { destruct columns as [|c1 cr]; [match goal with E : Ok _ = Ok _ |- _ => inversion E; reflexivity end|].
    match goal with E : bind _ _ = Ok _ |- _ => inv_ok E end.
    erewrite ttoks_list_ok by eassumption. cbn [bind]. f_equal. str_eq. }
  rewrite Hc. cbn [bind]. clear Hc.
  destruct rows as [|r0 rr].
  - destruct sel as [y|]; [|inversion H; reflexivity].
    destruct (is_qsel y) eqn:Eq; cbn [negb] in H; [|discriminate H].
    destruct (Nat.eqb (nselects y) 0) eqn:En.
    + inversion H; subst. apply PeanoNat.Nat.eqb_eq in En. rewrite (Hempty _ false false (qalias y) y Eq En). reflexivity.
    + inv_bind H. apply PeanoNat.Nat.eqb_neq in En.
      match goal with E : qt _ _ _ _ _ _ _ = Ok ?s |- _ => pose proof (Hne _ _ _ _ _ _ Eq En E) as Hn; apply Hqt in E; rewrite E end.
      cbn [bind]. destruct (tflat a0) eqn:Et; [congruence|]. inversion H; subst; clear H. f_equal. rewrite <- Et.
      destruct wal; rewrite ?tflat_falias, tflat_vparen; repeat f_equal; destruct replace; str_eq.
  - inv_ok H. erewrite rows_view by eassumption. cbn [bind]. f_equal. destruct replace; str_eq.
Qed.

Lemma set_view kk og srcs cf cv sets tss :
  rmapM (fun fv : term * item => a <- ttoks cf og (fst fv) ;; b <- it kk og srcs cv (snd fv) ;; Ok (a ++ T "=" :: b)) sets = Ok tss ->
  set_strs ri kk srcs cf cv sets = Ok (map tflat tss).
Proof.
  revert tss. induction sets as [|[f v] r IH]; intros tss H; cbn [rmapM] in H.
  - inversion H. reflexivity.
  - cbn [fst snd] in H. inv_ok H. match goal with E : bind _ _ = Ok _ |- _ => inv_ok E end. useall.
    cbn [set_strs]. erewrite IH by reflexivity. rw. cbn [map]. f_equal. f_equal. str_eq.
Qed.

Lemma qupd_view kin og0 c tbl sets from joins wheres l ts :
  qupd_toks rid it qt kin og0 c tbl sets from joins wheres l = Ok ts ->
  qupd_str ri rq kin c tbl sets from joins wheres l = Ok (tflat ts).
Proof.
  unfold qupd_toks, qupd_str, foreign_ref, first_is_builder.
  destruct (name_from sub_count 0 from) as [fnames n1]. cbn [fst snd].
  destruct (name_joins (tbl :: base_tables from) (tref_name tbl :: src_names from fnames) n1 joins) as [jnames n2]. cbn [fst snd].
  cbv zeta. intros H. destruct sets as [|s0 sr]; [inversion H; reflexivity|].
  inv_bind H.
  stepb ltac:(eapply join_view; [reflexivity|reflexivity|reflexivity|reflexivity|]).
  stepb ltac:(eapply set_view). stepb ltac:(eapply from2_view). stepb ltac:(eapply (where_view " WHERE ")).
  inversion H; subst; clear H. f_equal.
  rewrite tflat_V, tflat_app, tflat_table; repeat rewrite tflat_app; rewrite ?tflat_V, ?tflat_optlist, ?tflat_tjoin, ?tflat_page; repeat rewrite tflat_app;
    rewrite ?tflat_optlist, ?tflat_tjoin, ?tflat_page, ?tflat_V, ?tflat_app.
  destruct (cls_is_clickhouse c);
    repeat match goal with |- context [map tflat ?x] => destruct (map tflat x) eqn:?; [|] end;
    repeat (progress (cbn [String.append]; rewrite ?sapp_assoc, ?sapp_nil_r)); reflexivity.
Qed.

Lemma qdel_view kin og0 sub pv c from wheres ts :
  qdel_toks rid it qt kin og0 sub pv c from wheres = Ok ts -> qdel_str ri rq kin sub c from wheres = Ok (tflat ts).
Proof.
  unfold qdel_toks, qdel_str, foreign_ref, first_is_builder.
  destruct (name_from sub_count 0 from) as [fnames n1]. cbn [fst snd]. cbv zeta. intros H. inv_bind H.
  stepb ltac:(eapply from2_view). stepb ltac:(eapply (where_view " WHERE ")).
  inversion H; subst; clear H. f_equal. rewrite tflat_vparen. f_equal. rewrite tflat_app. f_equal.
  destruct (cls_is_clickhouse c); rewrite tflat_V;
    match goal with |- context [map tflat ?x] => destruct x as [|x0 xr] end; cbn [map]; try reflexivity;
    rewrite ?tflat_V, ?tflat_app, ?tflat_tjoin, ?tflat_one; cbn [map tok_text V snd atok_text];
    repeat (progress (cbn [String.append]; rewrite ?sapp_assoc)); reflexivity.
Qed.

Lemma setop_view k og wrap base ops tss :
  rmapM (fun sy : setop * query =>
           a0 <- qt k og false wrap true (qalias (snd sy)) (snd sy) ;;
           let a := match snd sy with
                    | QSet _ _ _ _ _ _ => if wrap then a0 else V "SELECT * FROM (" :: a0 ++ [V ")"]
                    | _ => a0 end in
           (if Nat.eqb (nselects base) (nselects (snd sy)) then Ok (T (" " ++ setop_text (fst sy) ++ " ") :: a)
            else Err "SetOperationException")) ops = Ok tss ->
  setop_strs rq k wrap base ops = Ok (map tflat tss).
Proof.
  revert tss. induction ops as [|[so y] r IH]; intros tss H; cbn [rmapM] in H.
  - inversion H. reflexivity.
  - cbn [fst snd] in H. inv_bind H. match goal with E : bind _ _ = Ok _ |- _ => inv_bind E end.
    cbn [setop_strs]. match goal with E : qt _ _ _ _ _ _ _ = Ok _ |- _ => apply Hqt in E; rewrite E end. cbn [bind].
    destruct (Nat.eqb (nselects base) (nselects y)); [|match goal with E : Err _ = Ok _ |- _ => discriminate E end].
    erewrite IH by reflexivity. cbn [bind]. inversion H; subst. cbn [map]. f_equal. f_equal.
    match goal with E : Ok (T _ :: _) = Ok _ |- _ => inversion E; subst end.
    rewrite tflat_T. destruct y; try (cbn [String.append]; rewrite ?sapp_assoc; reflexivity).
    destruct wrap; [cbn [String.append]; rewrite ?sapp_assoc; reflexivity|].
    rewrite tflat_V, tflat_app, tflat_one. cbn [tok_text V snd atok_text]. repeat (progress (cbn [String.append]; rewrite ?sapp_assoc)). reflexivity.
Qed.

Lemma sorder_view c og sa orderbys tss :
  rmapM (sitem_toks c og sa) orderbys = Ok tss -> sorder_strs c sa orderbys = Ok (map tflat tss).
Proof.
  revert tss. induction orderbys as [|[t d] r IH]; intros tss H; cbn [rmapM] in H.
  - inversion H. reflexivity.
  - inv_ok H. cbn [sorder_strs]. erewrite IH by reflexivity.
    match goal with E : sitem_toks _ _ _ _ = Ok _ |- _ => unfold sitem_toks in E; cbn [fst snd] in E; inv_ok E end.
    match goal with E : match term_alias t with Some _ => _ | None => _ end = Ok ?x |- _ =>
    assert (Ha : match term_alias t with
                 | Some a => if truthy_ostr (Some a) && existsb (option_eqb String.eqb (Some a)) sa
                             then Ok (fq (or_ostr (aq c) (q c)) a) else render (set_wa c false) t
                 | None => render (set_wa c false) t end = Ok (tflat x)) end.
    { destruct (term_alias t) as [al|]; [destruct (truthy_ostr (Some al) && existsb (option_eqb String.eqb (Some al)) sa)|].
      - match goal with E : Ok _ = Ok _ |- _ => inversion E; subst end. rewrite tflat_one. reflexivity.
      - useall. assumption.
      - useall. assumption. }
    rewrite Ha. cbn [bind map]. f_equal. f_equal. destruct d; str_eq.
Qed.

Lemma qset_view kin og0 wal sub pv ali base ops orderbys l o ts :
  qset_toks rid qt kin og0 wal sub pv ali base ops orderbys l o = Ok ts ->
  qset_str rq kin wal sub ali base ops orderbys l o = Ok (tflat ts).
Proof.
  unfold qset_toks, qset_str. cbv zeta.
  change (base_cls_of rid base) with
    (match base with QSel c _ _ _ _ _ _ _ _ _ _ _ _ _ => c | QIns c _ _ _ _ _ _ => c | QUpd c _ _ _ _ _ _ => c
                   | QDel c _ _ => c | QSet _ _ _ _ _ _ => CQuery end).
  intros H. inv_bind H.
  match goal with E : qt _ _ _ _ _ _ base = Ok _ |- _ => apply Hqt in E; rewrite E end. cbn [bind].
  stepb ltac:(eapply setop_view).
  match goal with E : match orderbys with [] => _ | _ => _ end = Ok ?ob |- bind ?x _ = _ => assert (Ho : x = Ok (tflat ob)) end.
  { destruct orderbys as [|o0 or_]; [match goal with E : Ok _ = Ok _ |- _ => inversion E; reflexivity end|].
    match goal with E : bind _ _ = Ok _ |- _ => inv_ok E end. erewrite sorder_view by eassumption. cbn [bind]. f_equal. str_eq. }
  rewrite Ho. cbn [bind]. inversion H; subst; clear H. f_equal.
  destruct wal; rewrite ?tflat_falias, tflat_vparen; repeat f_equal;
    repeat rewrite tflat_app; rewrite tflat_concat, tflat_page; rewrite ?sapp_assoc; reflexivity.
Qed.

Lemma query_view kin og0 wal sub pv ali x ts :
  query_toks rid it qt kin og0 wal sub pv ali x = Ok ts -> rquery_body ri rq kin wal sub ali x = Ok (tflat ts).
Proof.
  intros H. destruct x; cbn [query_toks rquery_body] in *.
  - eapply qsel_view; eassumption.
  - eapply qins_view; eassumption.
  - eapply qupd_view; eassumption.
  - eapply qdel_view; eassumption.
  - eapply qset_view; eassumption.
Qed.
End View.

(* ================= tying the knot ================= *)
Notation rid := (fun c : cls => c).

Lemma rquery_empty_select kin wal sub ali y : is_qsel y = true -> nselects y = 0 -> rquery kin wal sub ali y = Ok "".
Proof.
  intros Hq Hn. destruct y; try discriminate Hq. cbn [nselects] in Hn. destruct selects; [|discriminate Hn].
  rewrite rquery_unfold. cbn [rquery_body]. unfold qsel_str.
  destruct (name_from sub_count 0 from) as [fnames n1]. destruct (name_joins (base_tables from) (src_names from fnames) n1 joins).
  reflexivity.
Qed.

Lemma qtoks_select_nonempty rho n kin og pv ali y ts :
  is_qsel y = true -> nselects y <> 0 -> qtoks rho n kin og false false pv ali y = Ok ts -> tflat ts <> "".
Proof.
  intros Hq Hn H. destruct y; try discriminate Hq. cbn [nselects] in Hn. destruct selects as [|s0 sr]; [exfalso; apply Hn; reflexivity|].
  destruct n; [discriminate H|]. cbn [qtoks query_toks] in H. unfold qsel_toks in H. cbv zeta in H. inv_ok H.
  cbn [vparen]. rewrite tflat_app, tflat_T. intros He. apply sappend_nil_inv in He. destruct He as [_ He]. discriminate He.
Qed.

Theorem toks_view n :
  (forall k og srcs c i ts, itoks rid n k og srcs c i = Ok ts -> ritem k srcs c i = Ok (tflat ts)) /\
  (forall kin og wal sub pv ali x ts, qtoks rid n kin og wal sub pv ali x = Ok ts -> rquery kin wal sub ali x = Ok (tflat ts)).
Proof.
  induction n as [|n [IHi IHq]].
  - split; intros; discriminate.
  - split.
    + intros k og srcs c i ts H. cbn [itoks] in H. rewrite ritem_unfold.
      eapply (item_view _ _ ritem rquery); [| |exact H]; cbn beta; assumption.
    + intros kin og wal sub pv ali x ts H. cbn [qtoks] in H. rewrite rquery_unfold.
      eapply (query_view _ _ ritem rquery); [| | | |exact H]; cbn beta; try assumption.
      * exact rquery_empty_select.
      * intros kin0 og1 pv0 ali0 y ts0 Hq Hn Hy. eapply qtoks_select_nonempty; eassumption.
Qed.

(* str(query): whenever the token renderer answers, Query.str_query gives that text *)
Theorem str_toks_view n x ts : str_toks rid n x = Ok ts -> str_query x = Ok (tflat ts).
Proof.
  intros H. unfold str_toks in H. apply (proj2 (toks_view n)) in H. unfold str_query.
  replace (top_ctx (top_cls x)) with (top_k rid x); [exact H|]. unfold top_k. f_equal. destruct x as [? ? ? ? ? ? ? ? ? ? ? ? ? ?|? ? ? ? ? ? ?|? ? ? ? ? ? ?|? ? ?|b ? ? ? ? ?]; try reflexivity.
Qed.
