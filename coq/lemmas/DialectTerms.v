(* DialectTerms.v — C07, expression level: the token view IS Terms.render (text equality for every term and
   context), every token carries exactly the quote its origin prescribes, and the quote-erased / devendored token
   list depends on the context only through with_alias / with_namespace / subquery / subcriterion. *)
From PV Require Import Base Crit gen.TermsTable Terms Page gen.QueryTable Query Dialect.
Local Open Scope list_scope.

Scheme term_mind' := Induction for term Sort Prop
  with tlist_mind' := Induction for tlist Sort Prop
  with wlist_mind' := Induction for wlist Sort Prop
  with oterm_mind' := Induction for oterm Sort Prop.
Combined Scheme term_all_ind' from term_mind', tlist_mind', wlist_mind', oterm_mind'.

(* ---------- strings ---------- *)
Lemma sapp_assoc (a b c : string) : ((a ++ b) ++ c = a ++ (b ++ c))%string.
Proof. induction a; cbn; [reflexivity|]. rewrite IHa. reflexivity. Qed.
Lemma sapp_nil_r (a : string) : (a ++ "" = a)%string.
Proof. induction a; cbn; [reflexivity|]. rewrite IHa. reflexivity. Qed.

Definition rmap {A B} (f : A -> B) (r : res A) : res B := match r with Ok a => Ok (f a) | Err e => Err e end.

(* ---------- tflat ---------- *)
Lemma tflat_nil : tflat (@nil dtok) = "".
Proof. reflexivity. Qed.
Lemma tflat_nil' : tflat (@nil (bool * atok)) = "".
Proof. reflexivity. Qed.
Lemma tflat_cons t r : tflat (t :: r) = (tok_text t ++ tflat r)%string.
Proof. reflexivity. Qed.
Lemma tflat_app a b : tflat (a ++ b) = (tflat a ++ tflat b)%string.
Proof. induction a as [|t a IH]; cbn [app]; [reflexivity|]. rewrite !tflat_cons, IH, sapp_assoc. reflexivity. Qed.
Lemma tflat_T s r : tflat (T s :: r) = (s ++ tflat r)%string.
Proof. reflexivity. Qed.
Lemma tflat_V s r : tflat (V s :: r) = (s ++ tflat r)%string.
Proof. reflexivity. Qed.
Lemma tflat_one t : tflat [t] = tok_text t.
Proof. unfold tflat. cbn. apply sapp_nil_r. Qed.

Lemma tflat_tjoin sep l : tflat (tjoin sep l) = join sep (map tflat l).
Proof.
  induction l as [|x r IH]; [reflexivity|]. destruct r as [|y r'].
  - reflexivity.
  - change (tjoin sep (x :: y :: r')) with (x ++ T sep :: tjoin sep (y :: r')).
    change (map tflat (x :: y :: r')) with (tflat x :: map tflat (y :: r')).
    change (join sep (tflat x :: map tflat (y :: r'))) with (tflat x ++ sep ++ join sep (map tflat (y :: r')))%string.
    rewrite tflat_app, tflat_T, IH. reflexivity.
Qed.

Lemma tflat_tparen b ts : tflat (tparen b ts) = paren b (tflat ts).
Proof. destruct b; cbn [tparen paren]; [|reflexivity]. rewrite tflat_T, tflat_app, tflat_one. reflexivity. Qed.

Lemma tflat_falias r og ts alias qc aqc kw :
  tflat (falias r og ts alias qc aqc kw) = fmt_alias (tflat ts) alias qc aqc kw.
Proof.
  destruct alias as [a|]; cbn [falias fmt_alias]; [|reflexivity].
  rewrite tflat_app, !tflat_cons, tflat_nil'. cbn [tok_text snd atok_text]. rewrite sapp_nil_r. reflexivity.
Qed.
Lemma tflat_alias_toks c og qc ts alias : tflat (alias_toks c og qc ts alias) = alias_sql c qc (tflat ts) alias.
Proof. apply tflat_falias. Qed.

Lemma tok_text_pair b a : tok_text (b, a) = atok_text a.
Proof. reflexivity. Qed.
Lemma tok_text_T s : tok_text (T s) = s.
Proof. reflexivity. Qed.
Lemma tok_text_V s : tok_text (V s) = s.
Proof. reflexivity. Qed.
#[export] Hint Rewrite tflat_cons tok_text_T tok_text_V tok_text_pair : tfl.
Lemma tflat_topnd sl t ts : tflat (topnd sl t ts) = opnd sl t (tflat ts).
Proof. apply tflat_tparen. Qed.
Lemma tflat_mparen a b ts : tflat (mparen a b ts) = paren (a || b) (tflat ts).
Proof.
  unfold mparen. destruct a; cbn [orb paren].
  - rewrite tflat_T, tflat_app, tflat_one. reflexivity.
  - destruct b; cbn [paren]; [|reflexivity]. rewrite tflat_V, tflat_app, tflat_one. reflexivity.
Qed.
#[export] Hint Rewrite tflat_topnd tflat_mparen : tfl.
#[export] Hint Rewrite tflat_app tflat_T tflat_V tflat_tjoin tflat_tparen tflat_alias_toks tflat_falias tflat_one tflat_nil tflat_nil'
  sapp_assoc sapp_nil_r : tfl.

Lemma tflat_field c og name tbl :
  tflat (field_toks c og name tbl) =
  match tbl with
  | Some tb => if wn c || truthy_ostr (talias tb) then (fq (q c) (table_name tb) ++ "." ++ fq (q c) name)%string else fq (q c) name
  | None => fq (q c) name end.
Proof.
  unfold field_toks. destruct tbl as [tb|].
  - destruct (wn c || truthy_ostr (talias tb)).
    + rewrite tflat_cons, tflat_T, tflat_one. reflexivity.
    + apply tflat_one.
  - apply tflat_one.
Qed.

(* ---------- 1. the token view is the renderer ---------- *)
Definition Pt (t : term) := forall c og, render c t = rmap tflat (ttoks c og t).
Definition Pl (l : tlist) := forall c og, render_list c l = rmap (map tflat) (ttoks_list c og l).
Definition Pw (l : wlist) := forall c og, render_whens c l = rmap (map tflat) (ttoks_whens c og l).
Definition Po (o : oterm) := match o with ONone => True | OSome t => Pt t end.

Ltac fin := cbn [rmap bind]; autorewrite with tfl; cbn [atok_text]; autorewrite with tfl; try reflexivity.
Ltac step IH c og := rewrite (IH c og); destruct (ttoks c og _) as [?ts|?e]; [cbn [rmap bind]|reflexivity].

Lemma ttoks_render_all : (forall t, Pt t) /\ (forall l, Pl l) /\ (forall l, Pw l) /\ (forall o, Po o).
Proof.
  apply term_all_ind'; unfold Pt, Pl, Pw, Po.
  - (* TField *) intros name tbl alias c og. cbn [render ttoks rmap].
    destruct (wa c); [rewrite tflat_alias_toks|]; rewrite tflat_field; reflexivity.
  - (* TStar *) intros tbl c og. cbn [render ttoks rmap]. f_equal.
    destruct tbl as [tb|]; [destruct (wn c || truthy_ostr (talias tb))|]; try reflexivity.
  - intros s alias c og. cbn [render ttoks rmap]. rewrite tflat_alias_toks, tflat_one. reflexivity.
  - intros z alias c og. cbn [render ttoks rmap]. rewrite tflat_alias_toks, tflat_one. reflexivity.
  - intros b sl alias c og. cbn [render ttoks rmap]. rewrite tflat_alias_toks, tflat_one. reflexivity.
  - intros alias c og. cbn [render ttoks rmap]. rewrite tflat_alias_toks, tflat_one. reflexivity.
  - intros txt alias c og. cbn [render ttoks rmap]. rewrite tflat_alias_toks, tflat_one. reflexivity.
  - intros raw alias c og. cbn [render ttoks rmap]. rewrite tflat_alias_toks, tflat_one. reflexivity.
  - intros txt c og. cbn [render ttoks rmap]. rewrite tflat_one. reflexivity.
  - (* TNeg *) intros t IH c og. cbn [render ttoks]. rewrite (IH _ og). destruct (ttoks _ og t); [cbn [rmap bind]|reflexivity].
    rewrite tflat_T, tflat_mparen, !tflat_topnd. reflexivity.
  - (* TArith *) intros op l IHl r IHr alias c og. cbn [render ttoks].
    rewrite (IHl _ og). destruct (ttoks _ og l); [cbn [rmap bind]|reflexivity].
    rewrite (IHr _ og). destruct (ttoks _ og r); [cbn [rmap bind]|reflexivity].
    destruct (wa c); fin.
  - (* TBasic *) intros cm l IHl r IHr alias c og. cbn [render ttoks].
    rewrite (IHl _ og). destruct (ttoks _ og l); [cbn [rmap bind]|reflexivity].
    rewrite (IHr _ og). destruct (ttoks _ og r); [cbn [rmap bind]|reflexivity].
    destruct (wa c); fin.
  - (* TCplx *) intros bo l IHl r IHr alias c og. cbn [render ttoks].
    rewrite (IHl _ og). destruct (ttoks _ og l); [cbn [rmap bind]|reflexivity].
    rewrite (IHr _ og). destruct (ttoks _ og r); [cbn [rmap bind]|reflexivity]. destruct (wa c); fin.
  - (* TIn *) intros t IHt cont IHc negated alias c og. cbn [render ttoks].
    rewrite (IHt _ og). destruct (ttoks _ og t); [cbn [rmap bind]|reflexivity].
    rewrite (IHc _ og). destruct (ttoks _ og cont); [cbn [rmap bind]|reflexivity]. fin.
  - (* TBetween *) intros t IHt lo IHlo hi IHhi alias c og. cbn [render ttoks].
    rewrite (IHt _ og). destruct (ttoks _ og t); [cbn [rmap bind]|reflexivity].
    rewrite (IHlo _ og). destruct (ttoks _ og lo); [cbn [rmap bind]|reflexivity].
    rewrite (IHhi _ og). destruct (ttoks _ og hi); [cbn [rmap bind]|reflexivity]. fin.
  - (* TBitAnd *) intros t IHt v alias c og. cbn [render ttoks].
    rewrite (IHt _ og). destruct (ttoks _ og t); [cbn [rmap bind]|reflexivity]. fin.
  - (* TIsNull *) intros t IHt alias c og. cbn [render ttoks].
    rewrite (IHt _ og). destruct (ttoks _ og t); [cbn [rmap bind]|reflexivity]. fin.
  - (* TNotNull *) intros t IHt alias c og. cbn [render ttoks].
    rewrite (IHt _ og). destruct (ttoks _ og t); [cbn [rmap bind]|reflexivity]. fin.
  - (* TNot *) intros t IHt alias c og. cbn [render ttoks].
    rewrite (IHt _ og). destruct (ttoks _ og t); [cbn [rmap bind]|reflexivity]. fin.
  - (* TAll *) intros t IHt alias c og. cbn [render ttoks].
    rewrite (IHt _ og). destruct (ttoks _ og t); [cbn [rmap bind]|reflexivity]. fin.
  - (* TEmpty *) reflexivity.
  - (* TCase *) intros ws IHw els IHe alias c og. cbn [render ttoks].
    destruct ws as [|cr v r]; [reflexivity|].
    rewrite (IHw (set_wa c false) og). destruct (ttoks_whens (set_wa c false) og (WCons cr v r)); [cbn [rmap bind]|reflexivity].
    destruct els as [|t'].
    + cbn [rmap bind]. destruct (wa c); fin.
    + cbn in IHe. rewrite (IHe (set_wa c false) og). destruct (ttoks (set_wa c false) og t'); [cbn [rmap bind]|reflexivity].
      destruct (wa c); fin.
  - (* TFunc *) intros name args IHa special alias c og. cbn [render ttoks].
    rewrite (IHa (fctx c) og). destruct (ttoks_list (fctx c) og args); [cbn [rmap bind]|reflexivity].
    destruct (wa c); fin.
  - (* TTuple *) intros vs IHv alias c og. cbn [render ttoks].
    rewrite (IHv _ og). destruct (ttoks_list _ og vs); [cbn [rmap bind]|reflexivity]. fin.
  - (* TArray *) intros vs IHv alias c og. cbn [render ttoks].
    rewrite (IHv _ og). destruct (ttoks_list _ og vs) as [ss|]; [cbn [rmap bind]|reflexivity].
    rewrite tflat_alias_toks. do 2 f_equal.
    destruct (is_pg (dia c)); [|fin].
    rewrite (tflat_tjoin "," ss).
    destruct (join "," (map tflat ss)) eqn:E.
    + rewrite tflat_V, tflat_tjoin, E. reflexivity.
    + rewrite <- E. fin.
  - (* TSub *) intros col tbl alias c og. cbn [render ttoks rmap]. f_equal.
    destruct (wa c); fin.
  - (* TNil *) reflexivity.
  - (* TCons *) intros t IHt r IHr c og. cbn [render_list ttoks_list].
    rewrite (IHt c og). destruct (ttoks c og t); [cbn [rmap bind]|reflexivity].
    rewrite (IHr c og). destruct (ttoks_list c og r); reflexivity.
  - (* WNil *) reflexivity.
  - (* WCons *) intros cr IHc v IHv r IHr c og. cbn [render_whens ttoks_whens].
    rewrite (IHc c og). destruct (ttoks c og cr); [cbn [rmap bind]|reflexivity].
    rewrite (IHv c og). destruct (ttoks c og v); [cbn [rmap bind]|reflexivity].
    rewrite (IHr c og). destruct (ttoks_whens c og r); [cbn [rmap bind map]|reflexivity]. fin.
  - exact I.
  - intros t IH. exact IH.
Qed.

Theorem ttoks_render : forall t c og, render c t = rmap tflat (ttoks c og t).
Proof. exact (proj1 ttoks_render_all). Qed.

(* ---------- 2. every token carries exactly the quote its origin prescribes ---------- *)
Definition ctx_ok (v : conv) (og : origin) (c : ctx) : Prop :=
  q c = v_q v /\ sq c = og_sq v og /\ aq c = og_aq v og /\ askw c = og_as v og /\ og_adm v og = true.
Definition ex (v : conv) (ts : list dtok) : Prop := Forall (exact_tok v) ts.

Lemma ctx_ok_set_wa v og c b : ctx_ok v og c -> ctx_ok v og (set_wa c b).
Proof. destruct c; exact (fun H => H). Qed.
Lemma ctx_ok_set_subq v og c b : ctx_ok v og c -> ctx_ok v og (set_subq c b).
Proof. destruct c; exact (fun H => H). Qed.
Lemma ctx_ok_set_subc v og c b : ctx_ok v og c -> ctx_ok v og (set_subc c b).
Proof. destruct c; exact (fun H => H). Qed.
Lemma ctx_ok_set_wn v og c b : ctx_ok v og c -> ctx_ok v og (set_wn c b).
Proof. destruct c; exact (fun H => H). Qed.
Lemma ctx_ok_opc v og sl t c : ctx_ok v og c -> ctx_ok v og (opc sl t c).
Proof. intros H. unfold opc. destruct (operand_parens sl (okind_of t) && negb operand_keeps_subc); [apply ctx_ok_set_subc|]; exact H. Qed.
Lemma ctx_ok_fctx v og c : ctx_ok v og c -> ctx_ok v og (fctx c).
Proof. destruct c; exact (fun H => H). Qed.

Lemma ex_nil v : ex v [].
Proof. constructor. Qed.
Lemma ex_T v s ts : ex v ts -> ex v (T s :: ts).
Proof. intros H. constructor; [split; exact I|exact H]. Qed.
Lemma ex_V v s ts : ex v ts -> ex v (V s :: ts).
Proof. intros H. constructor; [split; exact I|exact H]. Qed.
Lemma ex_bool v b sl ts : ex v ts -> ex v ((false, ABool b sl) :: ts).
Proof. intros H. constructor; [split; exact I|exact H]. Qed.
Lemma ex_app v a b : ex v a -> ex v b -> ex v (a ++ b).
Proof. intros. apply Forall_app; split; assumption. Qed.
Lemma ex_tparen v b ts : ex v ts -> ex v (tparen b ts).
Proof. intros H. destruct b; cbn [tparen]; [|exact H]. apply ex_T, ex_app; [exact H|apply ex_T, ex_nil]. Qed.
Lemma ex_topnd v sl t ts : ex v ts -> ex v (topnd sl t ts).
Proof. apply ex_tparen. Qed.
Lemma ex_mparen v a b ts : ex v ts -> ex v (mparen a b ts).
Proof.
  intros H. unfold mparen. destruct a; [|destruct b; [|exact H]].
  - apply ex_T, ex_app; [exact H|apply ex_T, ex_nil].
  - apply ex_V, ex_app; [exact H|apply ex_V, ex_nil].
Qed.
Lemma ex_vparen v b p ts : ex v ts -> ex v (vparen b p ts).
Proof.
  intros H. destruct b, p; cbn [vparen]; try exact H.
  - apply ex_V, ex_app; [exact H|apply ex_V, ex_nil].
  - apply ex_T, ex_app; [exact H|apply ex_T, ex_nil].
Qed.
Lemma ex_tjoin v sep ss : Forall (ex v) ss -> ex v (tjoin sep ss).
Proof.
  induction 1 as [|x r Hx Hr IH]; [apply ex_nil|]. destruct r as [|y r'].
  - exact Hx.
  - change (tjoin sep (x :: y :: r')) with (x ++ T sep :: tjoin sep (y :: r')). apply ex_app; [exact Hx|apply ex_T, IH].
Qed.
Lemma ex_ident v og c name ts : ctx_ok v og c -> ex v ts -> ex v ((false, AId RIdent (q c) name og) :: ts).
Proof. intros (H & _ & _ & _ & Hadm) Ht. constructor; [split; [exact H|exact Hadm]|exact Ht]. Qed.
Lemma ex_qual v og c tb name ts : ctx_ok v og c -> ex v ts -> ex v ((false, AId (qual_role tb) (q c) name og) :: ts).
Proof.
  intros (H & _ & _ & _ & Hadm) Ht. constructor; [|exact Ht]. unfold qual_role.
  destruct (truthy_ostr (talias tb)); [destruct (tname tb)|]; (split; [exact H|exact Hadm]).
Qed.
Lemma ex_str v og c s ts : ctx_ok v og c -> ex v ts -> ex v ((false, AStr (sq c) s og) :: ts).
Proof. intros (_ & H & _ & _ & Hadm) Ht. constructor; [split; [exact H|exact Hadm]|exact Ht]. Qed.
Lemma ex_alias v og c ts alias : ctx_ok v og c -> ex v ts -> ex v (alias_toks c og (q c) ts alias).
Proof.
  intros (Hq & _ & Ha & Hk & Hadm) Ht. unfold alias_toks, falias. destruct alias as [a|]; [|exact Ht].
  apply ex_app; [exact Ht|]. constructor; [split; [exact Hk|exact Hadm]|]. constructor; [|constructor].
  split; [|exact Hadm]. cbn [exact_q snd]. rewrite Ha, Hq. reflexivity.
Qed.
Lemma ex_field v og c name tbl : ctx_ok v og c -> ex v (field_toks c og name tbl).
Proof.
  intros H. unfold field_toks. destruct tbl as [tb|]; [destruct (wn c || truthy_ostr (talias tb))|];
    try (apply ex_qual; [exact H|]); try apply ex_T; repeat (apply ex_ident; [exact H|]); apply ex_nil.
Qed.

#[export] Hint Resolve ctx_ok_opc ex_topnd ex_mparen : exdb.
#[export] Hint Resolve ctx_ok_set_wa ctx_ok_set_subq ctx_ok_set_subc ctx_ok_set_wn ctx_ok_fctx
  ex_nil ex_T ex_V ex_bool ex_app ex_tparen ex_vparen ex_tjoin ex_ident ex_qual ex_str ex_alias ex_field : exdb.

Ltac inv_bind H :=
  repeat match type of H with
  | bind ?x _ = Ok _ => let E := fresh "E" in destruct x eqn:E; cbn [bind] in H; [|discriminate H]
  end.
Ltac inv_ok H := inv_bind H; inversion H; subst; clear H.

Definition Et (t : term) := forall c og v ts, ctx_ok v og c -> ttoks c og t = Ok ts -> ex v ts.
Definition El (l : tlist) := forall c og v ss, ctx_ok v og c -> ttoks_list c og l = Ok ss -> Forall (ex v) ss.
Definition Ew (l : wlist) := forall c og v ss, ctx_ok v og c -> ttoks_whens c og l = Ok ss -> Forall (ex v) ss.
Definition Eo (o : oterm) := match o with ONone => True | OSome t => Et t end.

Lemma ex_falias v og r ts alias qc aqc kw :
  (forall a, exact_q v (false, AId r (or_ostr aqc qc) a og)) -> kw = og_as v og -> og_adm v og = true -> ex v ts ->
  ex v (falias r og ts alias qc aqc kw).
Proof.
  intros Hq Hk Hadm Ht. unfold falias. destruct alias as [a|]; [|exact Ht].
  apply ex_app; [exact Ht|]. constructor; [split; [exact Hk|exact Hadm]|]. constructor; [split; [apply Hq|exact Hadm]|constructor].
Qed.

Ltac use_ih :=
  repeat match goal with
  | Hc : ctx_ok ?v _ _, E : ttoks _ _ _ = Ok ?a |- _ =>
      let X := fresh "X" in
      assert (X : ex v a) by (match goal with IH : _ |- _ => eapply IH; [|exact E]; solve [eauto with exdb] end); clear E
  | Hc : ctx_ok ?v _ _, E : ttoks_list _ _ _ = Ok ?a |- _ =>
      let X := fresh "X" in
      assert (X : Forall (ex v) a) by (match goal with IH : _ |- _ => eapply IH; [|exact E]; solve [eauto with exdb] end); clear E
  | Hc : ctx_ok ?v _ _, E : ttoks_whens _ _ _ = Ok ?a |- _ =>
      let X := fresh "X" in
      assert (X : Forall (ex v) a) by (match goal with IH : _ |- _ => eapply IH; [|exact E]; solve [eauto with exdb] end); clear E
  end.

Lemma ttoks_exact_all : (forall t, Et t) /\ (forall l, El l) /\ (forall l, Ew l) /\ (forall o, Eo o).
Proof.
  apply term_all_ind'; unfold Et, El, Ew, Eo.
  - (* TField *) intros name tbl alias c og v ts Hc H. cbn [ttoks] in H. inv_ok H. destruct (wa c); auto with exdb.
  - (* TStar *) intros tbl c og v ts Hc H. cbn [ttoks] in H. inv_ok H.
    destruct tbl as [tb|]; [destruct (wn c || truthy_ostr (talias tb))|]; auto with exdb.
  - intros s alias c og v ts Hc H. cbn [ttoks] in H. inv_ok H. auto with exdb.
  - intros z alias c og v ts Hc H. cbn [ttoks] in H. inv_ok H. auto with exdb.
  - intros b sl alias c og v ts Hc H. cbn [ttoks] in H. inv_ok H. auto with exdb.
  - intros alias c og v ts Hc H. cbn [ttoks] in H. inv_ok H. auto with exdb.
  - intros txt alias c og v ts Hc H. cbn [ttoks] in H. inv_ok H. auto with exdb.
  - intros raw alias c og v ts Hc H. cbn [ttoks] in H. inv_ok H. auto with exdb.
  - intros txt c og v ts Hc H. cbn [ttoks] in H. inv_ok H. auto with exdb.
  - (* TNeg *) intros t IH c og v ts Hc H. cbn [ttoks] in H. inv_ok H. use_ih. auto with exdb.
  - (* TArith *) intros op l IHl r IHr alias c og v ts Hc H. cbn [ttoks] in H. inv_ok H.
    use_ih. destruct (wa c); auto 8 with exdb.
  - (* TBasic *) intros cm l IHl r IHr alias c og v ts Hc H. cbn [ttoks] in H. inv_ok H.
    use_ih. destruct (wa c); auto 8 with exdb.
  - (* TCplx *) intros bo l IHl r IHr alias c og v ts Hc H. cbn [ttoks] in H. inv_ok H.
    use_ih. destruct (wa c); auto 8 with exdb.
  - (* TIn *) intros t IHt cont IHc negated alias c og v ts Hc H. cbn [ttoks] in H. inv_ok H.
    use_ih. auto 8 with exdb.
  - (* TBetween *) intros t IHt lo IHlo hi IHhi alias c og v ts Hc H. cbn [ttoks] in H. inv_ok H.
    use_ih. auto 10 with exdb.
  - (* TBitAnd *) intros t IHt vv alias c og v ts Hc H. cbn [ttoks] in H. inv_ok H.
    use_ih. auto 8 with exdb.
  - (* TIsNull *) intros t IHt alias c og v ts Hc H. cbn [ttoks] in H. inv_ok H.
    use_ih. auto 8 with exdb.
  - (* TNotNull *) intros t IHt alias c og v ts Hc H. cbn [ttoks] in H. inv_ok H.
    use_ih. auto 8 with exdb.
  - (* TNot *) intros t IHt alias c og v ts Hc H. cbn [ttoks] in H. inv_ok H.
    use_ih. change (q c) with (q (set_subc c true)). apply ex_alias; auto with exdb.
  - (* TAll *) intros t IHt alias c og v ts Hc H. cbn [ttoks] in H. inv_ok H.
    use_ih. auto 8 with exdb.
  - (* TEmpty *) intros c og v ts Hc H. discriminate H.
  - (* TCase *) intros ws IHw els IHe alias c og v ts Hc H. cbn [ttoks] in H.
    destruct ws as [|cr vv r]; [discriminate H|].
    destruct els as [|t']; unfold Et in IHe; inv_ok H;
      try match goal with E : bind _ _ = Ok _ |- _ => inv_ok E end; use_ih; destruct (wa c); auto 12 with exdb.
  - (* TFunc *) intros name args IHa special alias c og v ts Hc H. cbn [ttoks] in H. inv_ok H.
    use_ih. destruct (wa c); auto 10 with exdb.
  - (* TTuple *) intros vs IHv alias c og v ts Hc H. cbn [ttoks] in H. inv_ok H.
    use_ih. auto 10 with exdb.
  - (* TArray *) intros vs IHv alias c og v ts Hc H. cbn [ttoks] in H. inv_ok H.
    use_ih. apply ex_alias; [exact Hc|].
    destruct (is_pg (dia c)); [match goal with |- context [tflat (tjoin "," ?l)] => destruct (tflat (tjoin "," l)) end|];
      auto 10 with exdb.
  - (* TSub *) intros col tbl alias c og v ts Hc H. cbn [ttoks] in H. inv_ok H.
    assert (X : ex v (tparen (subq c) [T "SELECT "; (false, AId RIdent (q c) col og); T " FROM "; (false, AId RIdent (q c) tbl og)]))
      by auto 10 with exdb.
    destruct (wa c); [|exact X]. destruct Hc as (Hq & _ & Ha & Hk & Hadm).
    apply ex_falias; [|exact Hk|exact Hadm|exact X]. intros ?. cbn [exact_q snd]. rewrite Hq. reflexivity.
  - (* TNil *) intros c og v ss Hc H. inversion H. constructor.
  - (* TCons *) intros t IHt r IHr c og v ss Hc H. cbn [ttoks_list] in H. inv_ok H. use_ih. constructor; assumption.
  - (* WNil *) intros c og v ss Hc H. inversion H. constructor.
  - (* WCons *) intros cr IHc vv IHv r IHr c og v ss Hc H. cbn [ttoks_whens] in H. inv_ok H.
    use_ih. constructor; [auto 8 with exdb|assumption].
  - exact I.
  - intros t IH. exact IH.
Qed.

Theorem ttoks_exact : forall t c og v ts, ctx_ok v og c -> ttoks c og t = Ok ts -> Forall (exact_tok v) ts.
Proof. exact (proj1 ttoks_exact_all). Qed.

(* ---------- 3. quote-parametricity: the erased token list does not depend on quotes / AS / dialect ---------- *)
Definition eparen (b : bool) (e : list etok) : list etok := if b then EText "(" :: e ++ [EText ")"] else e.
Fixpoint ejoin (sep : string) (l : list (list etok)) : list etok :=
  match l with
  | [] => []
  | [x] => x
  | x :: r => x ++ EText sep :: ejoin sep r
  end.
Definition ealias (r : erole) (alias : option string) : list etok :=
  match alias with Some a => [EId r a] | None => [] end.

Lemma erase_nil : erase (@nil dtok) = [].
Proof. reflexivity. Qed.
Lemma erase_nil' : erase (@nil (bool * atok)) = [].
Proof. reflexivity. Qed.
Lemma erase_cons t r : erase (t :: r) = erase1 t ++ erase r.
Proof. reflexivity. Qed.
Lemma erase_app a b : erase (a ++ b) = erase a ++ erase b.
Proof. unfold erase. apply flat_map_app. Qed.
Lemma erase_tjoin sep l : erase (tjoin sep l) = ejoin sep (map erase l).
Proof.
  induction l as [|x r IH]; [reflexivity|]. destruct r as [|y r'].
  - reflexivity.
  - change (tjoin sep (x :: y :: r')) with (x ++ T sep :: tjoin sep (y :: r')).
    rewrite erase_app, erase_cons, IH. reflexivity.
Qed.
Lemma erase_tparen b ts : erase (tparen b ts) = eparen b (erase ts).
Proof. destruct b; cbn [tparen eparen]; [|reflexivity]. rewrite erase_cons, erase_app. reflexivity. Qed.
Lemma erase_topnd sl t ts : erase (topnd sl t ts) = eparen (operand_parens sl (okind_of t)) (erase ts).
Proof. apply erase_tparen. Qed.
Lemma erase_mparen a b ts : erase (mparen a b ts) = eparen a (erase ts).
Proof.
  unfold mparen. destruct a; cbn [eparen].
  - rewrite erase_cons, erase_app. reflexivity.
  - destruct b; [|reflexivity]. rewrite erase_cons, erase_app. cbn. apply app_nil_r.
Qed.
Lemma erase_vparen b ts : erase (vparen b true ts) = erase ts.
Proof. destruct b; cbn [vparen]; [|reflexivity]. rewrite erase_cons, erase_app. cbn. apply app_nil_r. Qed.
Lemma erase_vparen_f b ts : erase (vparen b false ts) = eparen b (erase ts).
Proof. destruct b; cbn [vparen eparen]; [|reflexivity]. rewrite erase_cons, erase_app. reflexivity. Qed.
Lemma erase_falias r og ts alias qc aqc kw : erase (falias r og ts alias qc aqc kw) = erase ts ++ ealias (erole_of r) alias.
Proof. destruct alias as [a|]; cbn [falias ealias]; [|symmetry; apply app_nil_r]. rewrite erase_app. reflexivity. Qed.
Lemma erase_alias_toks c og qc ts alias : erase (alias_toks c og qc ts alias) = erase ts ++ ealias EAlias alias.
Proof. apply erase_falias. Qed.
Lemma erase_field c og name tbl :
  erase (field_toks c og name tbl) =
  match tbl with
  | Some tb => if wn c || truthy_ostr (talias tb)
               then [EId (erole_of (qual_role tb)) (table_name tb); EText "."; EId EIdent name] else [EId EIdent name]
  | None => [EId EIdent name] end.
Proof. unfold field_toks. destruct tbl as [tb|]; [destruct (wn c || truthy_ostr (talias tb))|]; reflexivity. Qed.
Lemma erase_mark_group ts : erase (mark_group ts) = [].
Proof. induction ts as [|t r IH]; [reflexivity|]. cbn [mark_group map]. rewrite erase_cons. exact IH. Qed.

#[export] Hint Rewrite erase_topnd erase_mparen : era.
#[export] Hint Rewrite erase_app erase_tjoin erase_tparen erase_vparen erase_vparen_f erase_alias_toks erase_falias erase_field
  erase_mark_group erase_cons erase_nil erase_nil' : era.

Lemma bind_rel {A A' B B'} (gA : A -> A') (gB : B -> B') (x x' : res A) (f f' : A -> res B) :
  rmap gA x = rmap gA x' ->
  (forall a a', gA a = gA a' -> rmap gB (f a) = rmap gB (f' a')) ->
  rmap gB (bind x f) = rmap gB (bind x' f').
Proof.
  intros Hx Hf. destruct x as [a|e], x' as [a'|e']; cbn [rmap bind] in *; try discriminate.
  - apply Hf. congruence.
  - congruence.
Qed.

Lemma csim_refl c : csim c c.
Proof. repeat split. Qed.
Lemma csim_set_wa c c' b : csim c c' -> csim (set_wa c b) (set_wa c' b).
Proof. intros (H1 & H2 & H3 & H4). repeat split; assumption. Qed.
Lemma csim_set_subq c c' b : csim c c' -> csim (set_subq c b) (set_subq c' b).
Proof. intros (H1 & H2 & H3 & H4). repeat split; assumption. Qed.
Lemma csim_set_subc c c' b : csim c c' -> csim (set_subc c b) (set_subc c' b).
Proof. intros (H1 & H2 & H3 & H4). repeat split; assumption. Qed.
Lemma csim_set_wn c c' b : csim c c' -> csim (set_wn c b) (set_wn c' b).
Proof. intros (H1 & H2 & H3 & H4). repeat split; assumption. Qed.
Lemma csim_opc sl t c c' : csim c c' -> csim (opc sl t c) (opc sl t c').
Proof.
  intros H. unfold opc. destruct (operand_parens sl (okind_of t) && negb operand_keeps_subc); [|exact H].
  destruct H as (H1 & H2 & H3 & H4). repeat split; assumption.
Qed.
Lemma csim_fctx c c' : csim c c' -> csim (fctx c) (fctx c').
Proof. intros (H1 & H2 & H3 & H4). repeat split; assumption. Qed.
#[export] Hint Resolve csim_opc : exdb.
#[export] Hint Resolve csim_refl csim_set_wa csim_set_subq csim_set_subc csim_set_wn csim_fctx : exdb.

Lemma erase_array d d' body body' :
  erase body = erase body' ->
  erase (if is_pg d
         then match tflat body with EmptyString => V "'{}'" :: body | _ => V "ARRAY[" :: body ++ [V "]"] end
         else V "[" :: body ++ [V "]"]) =
  erase (if is_pg d'
         then match tflat body' with EmptyString => V "'{}'" :: body' | _ => V "ARRAY[" :: body' ++ [V "]"] end
         else V "[" :: body' ++ [V "]"]).
Proof.
  intros H.
  assert (L : forall dd b, erase (if is_pg dd
         then match tflat b with EmptyString => V "'{}'" :: b | _ => V "ARRAY[" :: b ++ [V "]"] end
         else V "[" :: b ++ [V "]"]) = erase b).
  { intros dd b. destruct (is_pg dd); [destruct (tflat b)|]; rewrite erase_cons, ?erase_app; cbn; rewrite ?app_nil_r; reflexivity. }
  rewrite !L. exact H.
Qed.

Definition Rt (t : term) := forall c c' og og', csim c c' -> rmap erase (ttoks c og t) = rmap erase (ttoks c' og' t).
Definition Rl (l : tlist) := forall c c' og og', csim c c' ->
  rmap (map erase) (ttoks_list c og l) = rmap (map erase) (ttoks_list c' og' l).
Definition Rw (l : wlist) := forall c c' og og', csim c c' ->
  rmap (map erase) (ttoks_whens c og l) = rmap (map erase) (ttoks_whens c' og' l).
Definition Ro (o : oterm) := match o with ONone => True | OSome t => Rt t end.

Ltac era_fin :=
  cbn [rmap]; f_equal; autorewrite with era; cbn [erase1 fst snd T V erole_of app];
  repeat match goal with H : erase _ = erase _ |- _ => rewrite H; clear H end;
  repeat match goal with H : map erase _ = map erase _ |- _ => rewrite H; clear H end;
  try reflexivity.
Ltac bnd IH := eapply (bind_rel erase); [apply IH; auto with exdb|intros ? ? ?].
Ltac bndl IH := eapply (bind_rel (map erase)); [apply IH; auto with exdb|intros ? ? ?].

Lemma ttoks_erase_all : (forall t, Rt t) /\ (forall l, Rl l) /\ (forall l, Rw l) /\ (forall o, Ro o).
Proof.
  apply term_all_ind'; unfold Rt, Rl, Rw, Ro.
  - (* TField *) intros name tbl alias c c' og og' (Hwa & Hwn & Hsq & Hsc). cbn [ttoks]. rewrite Hwa.
    destruct (wa c'); era_fin; rewrite Hwn; reflexivity.
  - (* TStar *) intros tbl c c' og og' (Hwa & Hwn & Hsq & Hsc). cbn [ttoks rmap]. f_equal. rewrite Hwn.
    destruct tbl as [tb|]; [destruct (wn c' || truthy_ostr (talias tb))|]; reflexivity.
  - intros s alias c c' og og' Hs. cbn [ttoks]. era_fin.
  - intros z alias c c' og og' Hs. cbn [ttoks]. era_fin.
  - intros b sl alias c c' og og' Hs. cbn [ttoks]. era_fin.
  - intros alias c c' og og' Hs. cbn [ttoks]. era_fin.
  - intros txt alias c c' og og' Hs. cbn [ttoks]. era_fin.
  - intros raw alias c c' og og' Hs. cbn [ttoks]. era_fin.
  - intros txt c c' og og' Hs. reflexivity.
  - (* TNeg *) intros t IH c c' og og' Hs. cbn [ttoks]. bnd IH. era_fin.
  - (* TArith *) intros op l IHl r IHr alias c c' og og' Hs. cbn [ttoks]. bnd IHl. bnd IHr.
    destruct Hs as (Hwa & _). rewrite Hwa. destruct (wa c'); era_fin.
  - (* TBasic *) intros cm l IHl r IHr alias c c' og og' Hs. cbn [ttoks]. bnd IHl. bnd IHr.
    destruct Hs as (Hwa & _). rewrite Hwa. destruct (wa c'); era_fin.
  - (* TCplx *) intros bo l IHl r IHr alias c c' og og' Hs. cbn [ttoks]. bnd IHl. bnd IHr.
    destruct Hs as (Hwa & _ & _ & Hsc). rewrite Hsc, Hwa. destruct (wa c'); era_fin.
  - (* TIn *) intros t IHt cont IHc negated alias c c' og og' Hs. cbn [ttoks]. bnd IHt. bnd IHc. era_fin.
  - (* TBetween *) intros t IHt lo IHlo hi IHhi alias c c' og og' Hs. cbn [ttoks]. bnd IHt. bnd IHlo. bnd IHhi. era_fin.
  - (* TBitAnd *) intros t IHt v alias c c' og og' Hs. cbn [ttoks]. bnd IHt. era_fin.
  - (* TIsNull *) intros t IHt alias c c' og og' Hs. cbn [ttoks]. bnd IHt. era_fin.
  - (* TNotNull *) intros t IHt alias c c' og og' Hs. cbn [ttoks]. bnd IHt. era_fin.
  - (* TNot *) intros t IHt alias c c' og og' Hs. cbn [ttoks]. bnd IHt. era_fin.
  - (* TAll *) intros t IHt alias c c' og og' Hs. cbn [ttoks]. bnd IHt. era_fin.
  - (* TEmpty *) reflexivity.
  - (* TCase *) intros ws IHw els IHe alias c c' og og' Hs. cbn [ttoks].
    destruct ws as [|cr vv r]; [reflexivity|]. bndl IHw.
    eapply (bind_rel erase).
    + destruct els as [|t']; [reflexivity|]. cbn in IHe. bnd IHe. era_fin.
    + intros ? ? ?. destruct Hs as (Hwa & _). rewrite Hwa. destruct (wa c'); era_fin.
  - (* TFunc *) intros name args IHa special alias c c' og og' Hs. cbn [ttoks]. bndl IHa.
    destruct Hs as (Hwa & _). rewrite Hwa. destruct (wa c'); era_fin.
  - (* TTuple *) intros vs IHv alias c c' og og' Hs. cbn [ttoks]. bndl IHv. era_fin.
  - (* TArray *) intros vs IHv alias c c' og og' Hs. cbn [ttoks]. bndl IHv.
    cbn [rmap]. f_equal. rewrite !erase_alias_toks. f_equal. apply erase_array. rewrite !erase_tjoin. congruence.
  - (* TSub *) intros col tbl alias c c' og og' (Hwa & Hwn & Hsq & Hsc). cbn [ttoks]. rewrite Hwa, Hsq.
    destruct (wa c'); era_fin.
  - (* TNil *) reflexivity.
  - (* TCons *) intros t IHt r IHr c c' og og' Hs. cbn [ttoks_list]. bnd IHt. bndl IHr. cbn [rmap map]. congruence.
  - (* WNil *) reflexivity.
  - (* WCons *) intros cr IHc vv IHv r IHr c c' og og' Hs. cbn [ttoks_whens]. bnd IHc. bnd IHv. bndl IHr.
    cbn [rmap map]. apply f_equal. apply f_equal2; [|assumption].
    autorewrite with era; cbn [erase1 fst snd T V app]. congruence.
  - exact I.
  - intros t IH. exact IH.
Qed.

Theorem ttoks_erase : forall t c c' og og', csim c c' -> erase_res (ttoks c og t) = erase_res (ttoks c' og' t).
Proof. exact (proj1 ttoks_erase_all). Qed.
