(* DialectTerms.v — C07, expression level: the token view IS Terms.render (text equality for every term and
   context), every token carries exactly the quote its origin prescribes, and the quote-erased / devendored token
   list depends on the context only through with_alias / with_namespace / subquery / subcriterion. *)
From PV Require Import Base Crit gen.TermsTable Terms Page gen.QueryTable Query Dialect.
Local Open Scope list_scope.

Scheme term_mind' := Induction for term Sort Prop
  with tlist_mind' := Induction for tlist Sort Prop
  with wlist_mind' := Induction for wlist Sort Prop
  with oterm_mind' := Induction for oterm Sort Prop.
Combined Scheme term_all_ind' from term_mind', tlist_mind', wlist_mind', oterm_mind'.

(* ---------- strings ---------- *)
Lemma sapp_assoc (a b c : string) : ((a ++ b) ++ c = a ++ (b ++ c))%string.
Proof. induction a; cbn; [reflexivity|]. rewrite IHa. reflexivity. Qed.
Lemma sapp_nil_r (a : string) : (a ++ "" = a)%string.
Proof. induction a; cbn; [reflexivity|]. rewrite IHa. reflexivity. Qed.

Definition rmap {A B} (f : A -> B) (r : res A) : res B := match r with Ok a => Ok (f a) | Err e => Err e end.

(* ---------- tflat ---------- *)
Lemma tflat_nil : tflat [] = "".
Proof. reflexivity. Qed.
Lemma tflat_cons t r : tflat (t :: r) = (tok_text t ++ tflat r)%string.
Proof. reflexivity. Qed.
Lemma tflat_app a b : tflat (a ++ b) = (tflat a ++ tflat b)%string.
Proof. induction a as [|t a IH]; cbn [app]; [reflexivity|]. rewrite !tflat_cons, IH, sapp_assoc. reflexivity. Qed.
Lemma tflat_T s r : tflat (T s :: r) = (s ++ tflat r)%string.
Proof. reflexivity. Qed.
Lemma tflat_V s r : tflat (V s :: r) = (s ++ tflat r)%string.
Proof. reflexivity. Qed.
Lemma tflat_one t : tflat [t] = tok_text t.
Proof. unfold tflat. cbn. apply sapp_nil_r. Qed.

Lemma tflat_tjoin sep l : tflat (tjoin sep l) = join sep (map tflat l).
Proof.
  induction l as [|x r IH]; [reflexivity|]. destruct r as [|y r'].
  - reflexivity.
  - change (tjoin sep (x :: y :: r')) with (x ++ T sep :: tjoin sep (y :: r')).
    change (map tflat (x :: y :: r')) with (tflat x :: map tflat (y :: r')).
    change (join sep (tflat x :: map tflat (y :: r'))) with (tflat x ++ sep ++ join sep (map tflat (y :: r')))%string.
    rewrite tflat_app, tflat_T, IH. reflexivity.
Qed.

Lemma tflat_tparen b ts : tflat (tparen b ts) = paren b (tflat ts).
Proof. destruct b; cbn [tparen paren]; [|reflexivity]. rewrite tflat_T, tflat_app, tflat_one. reflexivity. Qed.

Lemma tflat_falias r og ts alias qc aqc kw :
  tflat (falias r og ts alias qc aqc kw) = fmt_alias (tflat ts) alias qc aqc kw.
Proof.
  destruct alias as [a|]; cbn [falias fmt_alias]; [|reflexivity].
  rewrite tflat_app, !tflat_cons, tflat_nil. cbn [tok_text snd atok_text]. rewrite sapp_nil_r. reflexivity.
Qed.
Lemma tflat_alias_toks c og qc ts alias : tflat (alias_toks c og qc ts alias) = alias_sql c qc (tflat ts) alias.
Proof. apply tflat_falias. Qed.

#[export] Hint Rewrite tflat_app tflat_T tflat_V tflat_tjoin tflat_tparen tflat_alias_toks tflat_falias tflat_one tflat_nil
  sapp_assoc sapp_nil_r : tfl.

Lemma tflat_field c og name tbl :
  tflat (field_toks c og name tbl) =
  match tbl with
  | Some tb => if wn c || truthy_ostr (talias tb) then (fq (q c) (table_name tb) ++ "." ++ fq (q c) name)%string else fq (q c) name
  | None => fq (q c) name end.
Proof.
  unfold field_toks. destruct tbl as [tb|].
  - destruct (wn c || truthy_ostr (talias tb)).
    + rewrite tflat_cons, tflat_T, tflat_one. reflexivity.
    + apply tflat_one.
  - apply tflat_one.
Qed.

(* ---------- 1. the token view is the renderer ---------- *)
Definition Pt (t : term) := forall c og, render c t = rmap tflat (ttoks c og t).
Definition Pl (l : tlist) := forall c og, render_list c l = rmap (map tflat) (ttoks_list c og l).
Definition Pw (l : wlist) := forall c og, render_whens c l = rmap (map tflat) (ttoks_whens c og l).
Definition Po (o : oterm) := match o with ONone => True | OSome t => Pt t end.

Ltac fin := cbn [rmap bind]; autorewrite with tfl; try reflexivity.
Ltac step IH c og := rewrite (IH c og); destruct (ttoks c og _) as [?ts|?e]; [cbn [rmap bind]|reflexivity].

Lemma ttoks_render_all : (forall t, Pt t) /\ (forall l, Pl l) /\ (forall l, Pw l) /\ (forall o, Po o).
Proof.
  apply term_all_ind'; unfold Pt, Pl, Pw, Po.
  - (* TField *) intros name tbl alias c og. cbn [render ttoks rmap].
    destruct (wa c); [rewrite tflat_alias_toks|]; rewrite tflat_field; reflexivity.
  - (* TStar *) intros tbl c og. cbn [render ttoks rmap]. f_equal.
    destruct tbl as [tb|]; [destruct (wn c || truthy_ostr (talias tb))|]; try reflexivity.
    rewrite tflat_cons, tflat_one. reflexivity.
  - intros s alias c og. cbn [render ttoks rmap]. rewrite tflat_alias_toks, tflat_one. reflexivity.
  - intros z alias c og. cbn [render ttoks rmap]. rewrite tflat_alias_toks, tflat_one. reflexivity.
  - intros b sl alias c og. cbn [render ttoks rmap]. rewrite tflat_alias_toks, tflat_one. reflexivity.
  - intros alias c og. cbn [render ttoks rmap]. rewrite tflat_alias_toks, tflat_one. reflexivity.
  - intros txt alias c og. cbn [render ttoks rmap]. rewrite tflat_alias_toks, tflat_one. reflexivity.
  - intros raw alias c og. cbn [render ttoks rmap]. rewrite tflat_alias_toks, tflat_one. reflexivity.
  - intros txt c og. cbn [render ttoks rmap]. rewrite tflat_one. reflexivity.
  - (* TNeg *) intros t IH c og. cbn [render ttoks]. rewrite (IH c og). destruct (ttoks c og t); fin.
  - (* TArith *) intros op l IHl r IHr alias c og. cbn [render ttoks].
    rewrite (IHl (set_wa c false) og). destruct (ttoks (set_wa c false) og l); [cbn [rmap bind]|reflexivity].
    rewrite (IHr (set_wa c false) og). destruct (ttoks (set_wa c false) og r); [cbn [rmap bind]|reflexivity].
    destruct (wa c); fin.
  - (* TBasic *) intros cm l IHl r IHr alias c og. cbn [render ttoks].
    rewrite (IHl (set_wa c false) og). destruct (ttoks (set_wa c false) og l); [cbn [rmap bind]|reflexivity].
    rewrite (IHr (set_wa c false) og). destruct (ttoks (set_wa c false) og r); [cbn [rmap bind]|reflexivity].
    destruct (wa c); unfold alias_sql; fin.
  - (* TCplx *) intros bo l IHl r IHr alias c og. cbn [render ttoks].
    rewrite (IHl _ og). destruct (ttoks _ og l); [cbn [rmap bind]|reflexivity].
    rewrite (IHr _ og). destruct (ttoks _ og r); [cbn [rmap bind]|reflexivity]. fin.
  - (* TIn *) intros t IHt cont IHc negated alias c og. cbn [render ttoks].
    rewrite (IHt _ og). destruct (ttoks _ og t); [cbn [rmap bind]|reflexivity].
    rewrite (IHc _ og). destruct (ttoks _ og cont); [cbn [rmap bind]|reflexivity]. fin.
  - (* TBetween *) intros t IHt lo IHlo hi IHhi alias c og. cbn [render ttoks].
    rewrite (IHt _ og). destruct (ttoks _ og t); [cbn [rmap bind]|reflexivity].
    rewrite (IHlo _ og). destruct (ttoks _ og lo); [cbn [rmap bind]|reflexivity].
    rewrite (IHhi _ og). destruct (ttoks _ og hi); [cbn [rmap bind]|reflexivity]. fin.
  - (* TBitAnd *) intros t IHt v alias c og. cbn [render ttoks].
    rewrite (IHt _ og). destruct (ttoks _ og t); [cbn [rmap bind]|reflexivity]. fin.
  - (* TIsNull *) intros t IHt alias c og. cbn [render ttoks].
    rewrite (IHt _ og). destruct (ttoks _ og t); [cbn [rmap bind]|reflexivity]. fin.
  - (* TNotNull *) intros t IHt alias c og. cbn [render ttoks].
    rewrite (IHt _ og). destruct (ttoks _ og t); [cbn [rmap bind]|reflexivity]. fin.
  - (* TNot *) intros t IHt alias c og. cbn [render ttoks].
    rewrite (IHt _ og). destruct (ttoks _ og t); [cbn [rmap bind]|reflexivity]. fin.
  - (* TAll *) intros t IHt alias c og. cbn [render ttoks].
    rewrite (IHt _ og). destruct (ttoks _ og t); [cbn [rmap bind]|reflexivity]. fin.
  - (* TEmpty *) reflexivity.
  - (* TCase *) intros ws IHw els IHe alias c og. cbn [render ttoks].
    destruct ws as [|cr v r]; [reflexivity|].
    rewrite (IHw (set_wa c false) og). destruct (ttoks_whens (set_wa c false) og (WCons cr v r)); [cbn [rmap bind]|reflexivity].
    destruct els as [|t'].
    + cbn [rmap bind]. destruct (wa c); fin.
    + cbn in IHe. rewrite (IHe (set_wa c false) og). destruct (ttoks (set_wa c false) og t'); [cbn [rmap bind]|reflexivity].
      destruct (wa c); fin.
  - (* TFunc *) intros name args IHa special alias c og. cbn [render ttoks].
    rewrite (IHa (fctx c) (OFn None)). destruct (ttoks_list (fctx c) (OFn None) args); [cbn [rmap bind]|reflexivity].
    destruct (wa c); fin.
  - (* TTuple *) intros vs IHv alias c og. cbn [render ttoks].
    rewrite (IHv c og). destruct (ttoks_list c og vs); [cbn [rmap bind]|reflexivity]. fin.
  - (* TArray *) intros vs IHv alias c og. cbn [render ttoks].
    rewrite (IHv c og). destruct (ttoks_list c og vs) as [ss|]; [cbn [rmap bind]|reflexivity].
    rewrite tflat_alias_toks. do 2 f_equal. rewrite tflat_tjoin.
    destruct (is_pg (dia c)); [|fin].
    destruct (join "," (map tflat ss)) eqn:E; fin. rewrite tflat_tjoin, E. reflexivity.
  - (* TSub *) intros col tbl alias c og. cbn [render ttoks rmap]. f_equal.
    destruct (wa c); fin.
  - (* TNil *) reflexivity.
  - (* TCons *) intros t IHt r IHr c og. cbn [render_list ttoks_list].
    rewrite (IHt c og). destruct (ttoks c og t); [cbn [rmap bind]|reflexivity].
    rewrite (IHr c og). destruct (ttoks_list c og r); reflexivity.
  - (* WNil *) reflexivity.
  - (* WCons *) intros cr IHc v IHv r IHr c og. cbn [render_whens ttoks_whens].
    rewrite (IHc c og). destruct (ttoks c og cr); [cbn [rmap bind]|reflexivity].
    rewrite (IHv c og). destruct (ttoks c og v); [cbn [rmap bind]|reflexivity].
    rewrite (IHr c og). destruct (ttoks_whens c og r); [cbn [rmap bind map]|reflexivity]. fin.
  - exact I.
  - intros t IH. exact IH.
Qed.

Theorem ttoks_render : forall t c og, render c t = rmap tflat (ttoks c og t).
Proof. exact (proj1 ttoks_render_all). Qed.
