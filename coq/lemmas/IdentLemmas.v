(* Proofs about the identity model (Ident.v).  Everything is for an arbitrary configuration [cfg]
   (arbitrary attribute lists) unless a hypothesis on the configuration is stated as a boolean. *)
From PV Require Import Base Ident.

(* ------------------------------------------------------------------------------------------ *)
(* membership / inclusion of attribute lists                                                   *)
(* ------------------------------------------------------------------------------------------ *)
Lemma sa_eqb_eq a b : sa_eqb a b = true <-> a = b.
Proof. destruct a, b; simpl; split; intro; try reflexivity; discriminate. Qed.
Lemma ta_eqb_eq a b : ta_eqb a b = true <-> a = b.
Proof. destruct a, b; simpl; split; intro; try reflexivity; discriminate. Qed.
Lemma aa_eqb_eq a b : aa_eqb a b = true <-> a = b.
Proof. destruct a, b; simpl; split; intro; try reflexivity; discriminate. Qed.
Lemma kind_eqb_eq a b : kind_eqb a b = true <-> a = b.
Proof. destruct a, b; simpl; split; intro; try reflexivity; discriminate. Qed.

Lemma smem_In x l : smem x l = true <-> In x l.
Proof.
  unfold smem. rewrite existsb_exists. split.
  - intros [y [Hy E]]. apply sa_eqb_eq in E. subst. exact Hy.
  - intro Hx. exists x. split; [exact Hx | apply sa_eqb_eq; reflexivity].
Qed.
Lemma tmem_In x l : tmem x l = true <-> In x l.
Proof.
  unfold tmem. rewrite existsb_exists. split.
  - intros [y [Hy E]]. apply ta_eqb_eq in E. subst. exact Hy.
  - intro Hx. exists x. split; [exact Hx | apply ta_eqb_eq; reflexivity].
Qed.
Lemma amem_In x l : amem x l = true <-> In x l.
Proof.
  unfold amem. rewrite existsb_exists. split.
  - intros [y [Hy E]]. apply aa_eqb_eq in E. subst. exact Hy.
  - intro Hx. exists x. split; [exact Hx | apply aa_eqb_eq; reflexivity].
Qed.
Lemma kmem_In x l : kmem x l = true <-> In x l.
Proof.
  unfold kmem. rewrite existsb_exists. split.
  - intros [y [Hy E]]. apply kind_eqb_eq in E. subst. exact Hy.
  - intro Hx. exists x. split; [exact Hx | apply kind_eqb_eq; reflexivity].
Qed.

Lemma ssub_spec l1 l2 : ssub l1 l2 = true <-> (forall x, smem x l1 = true -> smem x l2 = true).
Proof.
  unfold ssub. rewrite forallb_forall. split; intros Hs x Hx.
  - apply Hs. apply smem_In. exact Hx.
  - apply Hs. apply smem_In. exact Hx.
Qed.
Lemma tsub_spec l1 l2 : tsub l1 l2 = true <-> (forall x, In x l1 -> In x l2).
Proof.
  unfold tsub. rewrite forallb_forall. split; intros Hs x Hx.
  - apply tmem_In. apply Hs. exact Hx.
  - apply tmem_In. apply Hs. exact Hx.
Qed.
Lemma asub_spec l1 l2 : asub l1 l2 = true <-> (forall x, In x l1 -> In x l2).
Proof.
  unfold asub. rewrite forallb_forall. split; intros Hs x Hx.
  - apply amem_In. apply Hs. exact Hx.
  - apply amem_In. apply Hs. exact Hx.
Qed.

(* a failing inclusion names a culprit *)
Lemma forallb_false_ex {X} (f : X -> bool) l : forallb f l = false -> exists x, In x l /\ f x = false.
Proof.
  induction l as [|y l IH]; simpl; [discriminate|].
  destruct (f y) eqn:E; simpl; intro Hf.
  - destruct (IH Hf) as [x [Hx Fx]]. exists x. auto.
  - exists y. auto.
Qed.

(* ------------------------------------------------------------------------------------------ *)
(* generic: a conjunction of attribute comparisons = equality of the attribute projections     *)
(* ------------------------------------------------------------------------------------------ *)
Lemma forallb_map_eq {X V} (f : X -> bool) (g1 g2 : X -> V) l :
  (forall x, f x = true <-> g1 x = g2 x) -> (forallb f l = true <-> map g1 l = map g2 l).
Proof.
  intro Hf. induction l as [|x l IH]; simpl; [tauto|].
  rewrite andb_true_iff, IH, Hf. split.
  - intros [E1 E2]. rewrite E1, E2. reflexivity.
  - intro E. injection E. auto.
Qed.

Lemma map_eq_In {X V} (g1 g2 : X -> V) l x : In x l -> map g1 l = map g2 l -> g1 x = g2 x.
Proof.
  induction l as [|y l IH]; simpl; [tauto|]. intros [E|Hx] Hm; injection Hm; intros Hm' Hy.
  - subst. exact Hy.
  - apply IH; assumption.
Qed.

Lemma map_neq_In {X V} (g1 g2 : X -> V) l x : In x l -> g1 x <> g2 x -> map g1 l <> map g2 l.
Proof. intros Hx Hn Hm. apply Hn. eapply map_eq_In; eassumption. Qed.

Lemma map_eq_of_all {X V} (g1 g2 : X -> V) l : (forall x, In x l -> g1 x = g2 x) -> map g1 l = map g2 l.
Proof. intro Hg. apply map_ext_in. exact Hg. Qed.

Lemma ostr_eqb_eq a b : ostr_eqb a b = true <-> a = b.
Proof.
  destruct a, b; simpl; split; intro E; try reflexivity; try discriminate.
  - apply String.eqb_eq in E. subst. reflexivity.
  - injection E as E. subst. apply String.eqb_refl.
Qed.

(* ------------------------------------------------------------------------------------------ *)
(* schemas                                                                                     *)
(* ------------------------------------------------------------------------------------------ *)
Lemma here_eq attrs n k m l :
  name_ok attrs n m && kind_ok attrs k l = true <-> here attrs n k = here attrs m l.
Proof.
  unfold name_ok, kind_ok, here.
  destruct (smem SName attrs), (smem SKind attrs); rewrite ?andb_true_iff, ?String.eqb_eq, ?Bool.eqb_true_iff;
    (split; [intro E; try destruct E; subst; reflexivity | intro E; try (injection E; auto); auto]).
Qed.

Lemma sproj_nonnil attrs s : sproj attrs s <> [].
Proof. destruct s; simpl; discriminate. Qed.
Lemma chain_nonnil s : chain s <> [].
Proof. destruct s; simpl; discriminate. Qed.

(* Schema.__eq__ on any attribute list is equality of the projections on these attributes *)
Lemma seq_on_spec attrs : forall a b, seq_on attrs a b = true <-> sproj attrs a = sproj attrs b.
Proof.
  induction a as [n k|n k p IH]; destruct b as [m l|m l q]; cbn [seq_on sproj].
  - rewrite here_eq. split; intro E; [rewrite E; reflexivity | congruence].
  - destruct (smem SParent attrs) eqn:P; cbn [negb].
    + rewrite andb_false_r. split; [discriminate|].
      intro E. exfalso. apply (sproj_nonnil attrs q). congruence.
    + rewrite andb_true_r, here_eq. split; intro E; [rewrite E; reflexivity | congruence].
  - destruct (smem SParent attrs) eqn:P; cbn [negb].
    + rewrite andb_false_r. split; [discriminate|].
      intro E. exfalso. apply (sproj_nonnil attrs p). congruence.
    + rewrite andb_true_r, here_eq. split; intro E; [rewrite E; reflexivity | congruence].
  - destruct (smem SParent attrs) eqn:P.
    + rewrite andb_true_iff, here_eq, IH. split.
      * intros [E1 E2]. rewrite E1, E2. reflexivity.
      * intro E. split; congruence.
    + rewrite andb_true_r, here_eq. split; intro E; [rewrite E; reflexivity | congruence].
Qed.

Lemma seq_refl attrs a : seq_on attrs a a = true.
Proof. apply seq_on_spec. reflexivity. Qed.
Lemma seq_sym attrs a b : seq_on attrs a b = seq_on attrs b a.
Proof. apply Bool.eq_true_iff_eq. rewrite !seq_on_spec. split; auto. Qed.
Lemma seq_trans attrs a b c : seq_on attrs a b = true -> seq_on attrs b c = true -> seq_on attrs a c = true.
Proof. rewrite !seq_on_spec. congruence. Qed.

(* comparing fewer attributes equates more *)
Lemma seq_on_mono sa sa' : ssub sa' sa = true -> forall a b, seq_on sa a b = true -> seq_on sa' a b = true.
Proof.
  intro Hs. rewrite ssub_spec in Hs.
  pose proof (Hs SName) as HN. pose proof (Hs SParent) as HP. pose proof (Hs SKind) as HK.
  induction a as [n k|n k p IH]; destruct b as [m l|m l q]; simpl; unfold name_ok, kind_ok;
    destruct (smem SName sa'), (smem SName sa); try (specialize (HN eq_refl); discriminate);
    destruct (smem SKind sa'), (smem SKind sa); try (specialize (HK eq_refl); discriminate);
    destruct (smem SParent sa'), (smem SParent sa); try (specialize (HP eq_refl); discriminate);
    simpl; rewrite ?andb_true_r, ?andb_false_r, ?andb_true_iff; intros; try discriminate;
    repeat match goal with H : _ /\ _ |- _ => destruct H end;
    repeat split; auto.
Qed.

Lemma sproj_mono sa sa' a b : ssub sa' sa = true -> sproj sa a = sproj sa b -> sproj sa' a = sproj sa' b.
Proof. intros Hs E. apply seq_on_spec. eapply seq_on_mono; [exact Hs|]. apply seq_on_spec. exact E. Qed.

Lemma seq_on_set_eq sa sa' a b : set_eq_s sa sa' = true -> seq_on sa a b = seq_on sa' a b.
Proof.
  unfold set_eq_s. rewrite andb_true_iff. intros [H1 H2].
  apply Bool.eq_true_iff_eq. split; apply seq_on_mono; assumption.
Qed.

(* the schema chain (names) decides equality when names and parents are compared, classes are not *)
Lemma seq_on_chain sa : smem SName sa = true -> smem SParent sa = true ->
  forall a b, seq_on sa a b = true -> chain a = chain b.
Proof.
  intros HN HP. induction a as [n k|n k p IH]; destruct b as [m l|m l q]; simpl; unfold name_ok; rewrite HN, ?HP; simpl;
    rewrite ?andb_false_r, ?andb_true_iff; intros E; try discriminate.
  - destruct E as [E _]. apply String.eqb_eq in E. subst. reflexivity.
  - destruct E as [[E _] E2]. apply String.eqb_eq in E. subst. f_equal. apply IH. exact E2.
Qed.

Lemma chain_seq_on sa : smem SKind sa = false ->
  forall a b, chain a = chain b -> seq_on sa a b = true.
Proof.
  intros HK. induction a as [n k|n k p IH]; destruct b as [m l|m l q]; simpl; unfold name_ok, kind_ok; rewrite HK;
    intro E; injection E; intros; subst; rewrite ?andb_true_r.
  - destruct (smem SName sa); [apply String.eqb_refl | reflexivity].
  - exfalso. eapply chain_nonnil. symmetry. eassumption.
  - exfalso. eapply chain_nonnil. eassumption.
  - assert (Hn : (if smem SName sa then (m =? m)%string else true) = true)
      by (destruct (smem SName sa); [apply String.eqb_refl | reflexivity]).
    rewrite Hn. simpl. destruct (smem SParent sa); [apply IH; assumption | reflexivity].
Qed.

(* a failing inclusion of schema attributes yields two schemas that compare equal on the small list
   and project differently on the large one *)
Lemma schema_witness sk se : ssub sk se = false ->
  exists s1 s2, seq_on se s1 s2 = true /\ sproj sk s1 <> sproj sk s2.
Proof.
  intro Hs. apply forallb_false_ex in Hs. destruct Hs as [y [Hy Fy]].
  apply smem_In in Hy. destruct y.
  - exists (SRoot "s" false), (SRoot "r" false). simpl. unfold name_ok, kind_ok, here. rewrite Fy, Hy. split.
    + destruct (smem SKind se); reflexivity.
    + intro E. discriminate E.
  - exists (SRoot "s" false), (SSub "s" false (SRoot "p" false)). simpl. unfold name_ok, kind_ok. rewrite Fy, Hy. split.
    + destruct (smem SName se), (smem SKind se); reflexivity.
    + intro E. discriminate E.
  - exists (SRoot "s" false), (SRoot "s" true). simpl. unfold name_ok, kind_ok, here. rewrite Fy, Hy. split.
    + destruct (smem SName se); reflexivity.
    + intro E. discriminate E.
Qed.

(* ------------------------------------------------------------------------------------------ *)
(* tables and aliased queries                                                                  *)
(* ------------------------------------------------------------------------------------------ *)
Lemma tattr_eqb_spec sa x a b : tattr_eqb sa x a b = true <-> tval sa x a = tval sa x b.
Proof.
  destruct x; simpl.
  - rewrite String.eqb_eq. split; intro E; [rewrite E; reflexivity | injection E; auto].
  - destruct (tschema a) as [p|], (tschema b) as [q|]; simpl.
    + unfold sne_on. rewrite Bool.negb_involutive, seq_on_spec.
      split; intro E; [rewrite E; reflexivity | injection E; auto].
    + split; discriminate.
    + split; discriminate.
    + split; reflexivity.
  - rewrite ostr_eqb_eq. split; intro E; [rewrite E; reflexivity | injection E; auto].
  - rewrite ostr_eqb_eq. split; intro E; [rewrite E; reflexivity | injection E; auto].
  - rewrite ostr_eqb_eq. split; intro E; [rewrite E; reflexivity | injection E; auto].
  - rewrite String.eqb_eq. split; intro E; [rewrite E; reflexivity | injection E; auto].
Qed.

Lemma teq_on_spec sa ta a b :
  teq_on sa ta a b = true <-> map (fun x => tval sa x a) ta = map (fun x => tval sa x b) ta.
Proof. unfold teq_on. apply forallb_map_eq. intro x. apply tattr_eqb_spec. Qed.

Lemma aattr_eqb_spec x a b : aattr_eqb x a b = true <-> aval x a = aval x b.
Proof.
  destruct x; simpl.
  - rewrite String.eqb_eq. split; intro E; [rewrite E; reflexivity | injection E; auto].
  - rewrite ostr_eqb_eq. split; intro E; [rewrite E; reflexivity | injection E; auto].
Qed.
Lemma aeq_on_spec aa a b :
  aeq_on aa a b = true <-> map (fun x => aval x a) aa = map (fun x => aval x b) aa.
Proof. unfold aeq_on. apply forallb_map_eq. intro x. apply aattr_eqb_spec. Qed.

(* == is equality of the projection on the compared attributes (with the class family) *)
Lemma ieq_spec c a b : ieq c a b = true <-> ieqkey c a = ieqkey c b.
Proof.
  unfold ieqkey. destruct a as [s|s|s], b as [t|t|t]; simpl; try (split; discriminate).
  - rewrite teq_on_spec. split; intro E; [rewrite E; reflexivity | injection E; auto].
  - rewrite seq_on_spec. split; intro E; [rewrite E; reflexivity | injection E; auto].
  - rewrite aeq_on_spec. split; intro E; [rewrite E; reflexivity | injection E; auto].
Qed.

Theorem ieq_refl c a : ieq c a a = true.
Proof. apply ieq_spec. reflexivity. Qed.
Theorem ieq_sym c a b : ieq c a b = ieq c b a.
Proof. apply Bool.eq_true_iff_eq. rewrite !ieq_spec. split; auto. Qed.
Theorem ieq_trans c a b d : ieq c a b = true -> ieq c b d = true -> ieq c a d = true.
Proof. rewrite !ieq_spec. congruence. Qed.

(* ---- != ---- *)
Lemma forallb_set_eq {X} (f : X -> bool) l1 l2 :
  (forall x, In x l1 <-> In x l2) -> forallb f l1 = forallb f l2.
Proof.
  intro Hl. apply Bool.eq_true_iff_eq. rewrite !forallb_forall.
  split; intros Hf x Hx; apply Hf; apply Hl; exact Hx.
Qed.

Theorem ine_negb_ieq c : ne_coherent c = true -> forall a b, ine c a b = negb (ieq c a b).
Proof.
  unfold ne_coherent. rewrite !andb_true_iff. intros [[Hs Ht] Ha] a b.
  destruct a as [s|s|s], b as [t|t|t]; simpl; try reflexivity.
  - unfold tne_on, teq_on. f_equal. apply forallb_set_eq.
    unfold set_eq_t in Ht. rewrite andb_true_iff, !tsub_spec in Ht. destruct Ht. split; auto.
  - unfold sne_on. f_equal. apply seq_on_set_eq. exact Hs.
  - unfold ane_on, aeq_on. f_equal. apply forallb_set_eq.
    unfold set_eq_a in Ha. rewrite andb_true_iff, !asub_spec in Ha. destruct Ha. split; auto.
Qed.

(* ---- equal => equal hash key ---- *)
Lemma tval_mono sa sk x a b : (x = TSchema -> ssub sk sa = true) -> tval sa x a = tval sa x b -> tval sk x a = tval sk x b.
Proof.
  destruct x; simpl; auto. intros Hs E.
  destruct (tschema a) as [p|], (tschema b) as [q|]; simpl in *; try discriminate; try reflexivity.
  injection E as E. rewrite (sproj_mono sa sk p q (Hs eq_refl) E). reflexivity.
Qed.

Lemma tkey_from_teq sa ta sk tk a b :
  teq_on sa ta a b = true ->
  (forall x, In x tk -> In x ta \/ tval sk x a = tval sk x b) ->
  (In TSchema tk -> ssub sk sa = true) ->
  map (fun x => tval sk x a) tk = map (fun x => tval sk x b) tk.
Proof.
  intros E Hin Hs. apply teq_on_spec in E. apply map_eq_of_all. intros x Hx.
  destruct (Hin x Hx) as [Hta|Heq]; [|exact Heq].
  apply (tval_mono sa sk x a b).
  - intro Ex. subst. auto.
  - exact (map_eq_In _ _ ta x Hta E).
Qed.

Lemma key_schema_side c : negb (tmem TSchema (c_tkey c)) || ssub (c_tkey_s c) (c_sne c) = true ->
  In TSchema (c_tkey c) -> ssub (c_tkey_s c) (c_sne c) = true.
Proof.
  intros Hk Hin. apply tmem_In in Hin. rewrite Hin in Hk. exact Hk.
Qed.

(* the general form: [esc] lists table attributes on which the two objects are known to agree *)
Lemma ikey_of_ieq_gen c (esc : tattr -> bool) :
  tsub (filter (fun x => negb (esc x)) (c_tkey c)) (c_teq c)
  && (negb (tmem TSchema (c_tkey c)) || ssub (c_tkey_s c) (c_sne c))
  && ssub (c_skey c) (c_seq c) && asub (c_akey c) (c_aeq c) = true ->
  forall a b,
  (forall s t x, a = ITable s -> b = ITable t -> esc x = true -> tval (c_tkey_s c) x s = tval (c_tkey_s c) x t) ->
  ieq c a b = true -> ikey c a = ikey c b.
Proof.
  rewrite !andb_true_iff. intros [[[Ht Hts] Hs] Ha] a b Hesc E.
  unfold ikey. destruct a as [s|s|s], b as [t|t|t]; simpl in *; try discriminate.
  - f_equal. apply (tkey_from_teq (c_sne c) (c_teq c)); [exact E | | apply key_schema_side; exact Hts].
    intros x Hx. destruct (esc x) eqn:Ex.
    + right. apply (Hesc s t x); auto.
    + left. rewrite tsub_spec in Ht. apply Ht. apply filter_In. rewrite Ex. auto.
  - apply seq_on_spec in E. rewrite (sproj_mono _ _ _ _ Hs E). reflexivity.
  - apply aeq_on_spec in E. f_equal. apply map_eq_of_all. intros x Hx.
    rewrite asub_spec in Ha. exact (map_eq_In _ _ _ x (Ha x Hx) E).
Qed.

Theorem ikey_of_ieq c : key_coherent c = true -> forall a b, ieq c a b = true -> ikey c a = ikey c b.
Proof.
  intros Hk a b. apply (ikey_of_ieq_gen c (fun _ => false)).
  - unfold key_coherent in Hk. simpl.
    replace (filter (fun _ : tattr => true) (c_tkey c)) with (c_tkey c); [exact Hk|].
    clear. induction (c_tkey c); simpl; congruence.
  - intros; discriminate.
Qed.

(* without temporal clauses: the temporal attributes need not be compared *)
Theorem ikey_of_ieq_nt c : key_coherent_nt c = true ->
  forall a b, no_temporal a = true -> no_temporal b = true -> ieq c a b = true -> ikey c a = ikey c b.
Proof.
  intros Hk a b Na Nb. apply (ikey_of_ieq_gen c is_temporal); [exact Hk|].
  intros s t x Ea Eb Ex. subst. simpl in Na, Nb.
  rewrite andb_true_iff, !negb_true_iff in Na, Nb. destruct Na as [A1 A2], Nb as [B1 B2].
  destruct x; try discriminate; simpl.
  - destruct (tfor s), (tfor t); try discriminate; reflexivity.
  - destruct (tportion s), (tportion t); try discriminate; reflexivity.
Qed.

(* ---- the converse: an attribute that reaches the hash but is not compared gives a witness ---- *)
Definition t0 : table := {| tname := "t"; tschema := None; talias := None; tfor := None; tportion := None; tqcls := "Query" |}.
Definition t_with (x : tattr) : table :=
  match x with
  | TName => {| tname := "u"; tschema := None; talias := None; tfor := None; tportion := None; tqcls := "Query" |}
  | TSchema => {| tname := "t"; tschema := Some (SRoot "s" false); talias := None; tfor := None; tportion := None; tqcls := "Query" |}
  | TAlias => {| tname := "t"; tschema := None; talias := Some "a"; tfor := None; tportion := None; tqcls := "Query" |}
  | TFor => {| tname := "t"; tschema := None; talias := None; tfor := Some "f"; tportion := None; tqcls := "Query" |}
  | TPortion => {| tname := "t"; tschema := None; talias := None; tfor := None; tportion := Some "p"; tqcls := "Query" |}
  | TQcls => {| tname := "t"; tschema := None; talias := None; tfor := None; tportion := None; tqcls := "MySQLQuery" |}
  end.

Lemma t_with_eq sa ta x : tmem x ta = false -> teq_on sa ta t0 (t_with x) = true.
Proof.
  intro Hx. unfold teq_on. apply forallb_forall. intros y Hy.
  assert (Hn : y <> x) by (intro E; subst; apply tmem_In in Hy; congruence).
  destruct x, y; try reflexivity; congruence.
Qed.
Lemma t_with_val sk x : tval sk x t0 <> tval sk x (t_with x).
Proof. destruct x; simpl; discriminate. Qed.

Lemma table_witness sa ta sk tk : tsub tk ta = false ->
  exists a b, teq_on sa ta a b = true /\ map (fun x => tval sk x a) tk <> map (fun x => tval sk x b) tk.
Proof.
  intro Hs. apply forallb_false_ex in Hs. destruct Hs as [x [Hx Fx]].
  exists t0, (t_with x). split; [apply t_with_eq; exact Fx|].
  apply (map_neq_In _ _ tk x Hx). apply t_with_val.
Qed.

Definition ts (s : schema) : table := {| tname := "t"; tschema := Some s; talias := None; tfor := None; tportion := None; tqcls := "Query" |}.

Lemma table_schema_witness sa ta sk tk : In TSchema tk -> ssub sk sa = false ->
  exists a b, teq_on sa ta a b = true /\ map (fun x => tval sk x a) tk <> map (fun x => tval sk x b) tk.
Proof.
  intros Hin Hs. destruct (schema_witness sk sa Hs) as [s1 [s2 [E N]]].
  exists (ts s1), (ts s2). split.
  - unfold teq_on. apply forallb_forall. intros y _. destruct y; simpl; try apply String.eqb_refl; try reflexivity.
    unfold sne_on. rewrite E. reflexivity.
  - apply (map_neq_In _ _ tk TSchema Hin). simpl. intro F. injection F as F. exact (N F).
Qed.

Lemma aliased_witness aa ak : asub ak aa = false ->
  exists a b, aeq_on aa a b = true /\ map (fun x => aval x a) ak <> map (fun x => aval x b) ak.
Proof.
  intro Hs. apply forallb_false_ex in Hs. destruct Hs as [x [Hx Fx]].
  destruct x.
  - exists {| aname := "n"; abody := None |}, {| aname := "m"; abody := None |}. split.
    + unfold aeq_on. apply forallb_forall. intros y Hy. destruct y; [|reflexivity].
      apply amem_In in Hy. congruence.
    + apply (map_neq_In _ _ ak QName Hx). simpl. discriminate.
  - exists {| aname := "n"; abody := None |}, {| aname := "n"; abody := Some "q" |}. split.
    + unfold aeq_on. apply forallb_forall. intros y Hy. destruct y; [reflexivity|].
      apply amem_In in Hy. congruence.
    + apply (map_neq_In _ _ ak QBody Hx). simpl. discriminate.
Qed.

Theorem ikey_witness c : key_coherent c = false ->
  exists a b, ieq c a b = true /\ ikey c a <> ikey c b.
Proof.
  unfold key_coherent. intro Hk.
  destruct (tsub (c_tkey c) (c_teq c)) eqn:H1.
  2:{ destruct (table_witness (c_sne c) (c_teq c) (c_tkey_s c) (c_tkey c) H1) as [a [b [E N]]].
      exists (ITable a), (ITable b). split; [exact E|].
      unfold ikey. simpl. intro F. injection F as F. exact (N F). }
  destruct (negb (tmem TSchema (c_tkey c)) || ssub (c_tkey_s c) (c_sne c)) eqn:H2.
  2:{ apply orb_false_iff in H2. destruct H2 as [H2 H3]. apply negb_false_iff, tmem_In in H2.
      destruct (table_schema_witness (c_sne c) (c_teq c) (c_tkey_s c) (c_tkey c) H2 H3) as [a [b [E N]]].
      exists (ITable a), (ITable b). split; [exact E|].
      unfold ikey. simpl. intro F. injection F as F. exact (N F). }
  destruct (ssub (c_skey c) (c_seq c)) eqn:H3.
  2:{ destruct (schema_witness _ _ H3) as [s1 [s2 [E N]]].
      exists (ISchema s1), (ISchema s2). split; [exact E|].
      unfold ikey. simpl. intro F. injection F as F. exact (N F). }
  simpl in Hk.
  destruct (aliased_witness _ _ Hk) as [a [b [E N]]].
  exists (IAliased a), (IAliased b). split; [exact E|].
  unfold ikey. simpl. intro F. injection F as F. exact (N F).
Qed.

(* ------------------------------------------------------------------------------------------ *)
(* list membership / set membership / dictionary lookup                                        *)
(* ------------------------------------------------------------------------------------------ *)
Lemma existsb_and_implies {X} (f g : X -> bool) l : existsb (fun b => f b && g b) l = true -> existsb g l = true.
Proof.
  induction l as [|x l IH]; simpl; [auto|]. rewrite !orb_true_iff, andb_true_iff. intros [[_ E]|E]; auto.
Qed.
Lemma existsb_and_same {X} (f g : X -> bool) l :
  (forall b, In b l -> g b = true -> f b = true) -> existsb (fun b => f b && g b) l = existsb g l.
Proof.
  induction l as [|x l IH]; simpl; [auto|]. intro Hf. rewrite IH by (intros; apply Hf; auto).
  f_equal. destruct (g x) eqn:G; [rewrite (Hf x (or_introl eq_refl) G); reflexivity | apply andb_false_r].
Qed.

(* a set/dict never finds what a list does not *)
Theorem in_set_implies_in_list H c a l : in_set H c a l = Ok true -> in_list c a l = true.
Proof.
  unfold in_set, in_set_gen, in_list, in_list_gen. destruct (forallb (hashable c) (a :: l)); [|discriminate].
  intro E. injection E as E. eapply existsb_and_implies. exact E.
Qed.

(* on any class P of hashable objects on which equal objects have equal keys, they agree *)
Theorem in_set_agrees_gen H c (P : ident -> bool) :
  (forall a b, P a = true -> P b = true -> ieq c b a = true -> ikey c b = ikey c a) ->
  forall a l, forallb P (a :: l) = true -> forallb (hashable c) (a :: l) = true ->
  in_set H c a l = Ok (in_list c a l) /\ in_dict H c a l = Ok (in_list c a l).
Proof.
  intros Hk a l HP Hh. unfold in_dict, in_set, in_set_gen, in_list, in_list_gen. rewrite Hh.
  simpl in HP. apply andb_true_iff in HP. destruct HP as [Pa Pl]. rewrite forallb_forall in Pl.
  assert (E : existsb (fun b => hash_eq H c b a && ieq c b a) l = existsb (fun b => ieq c b a) l).
  { apply existsb_and_same. intros b Hb Eb. unfold hash_eq. rewrite (Hk a b Pa (Pl b Hb) Eb). apply Z.eqb_refl. }
  rewrite E. split; reflexivity.
Qed.

Theorem in_set_agrees H c : key_coherent c = true ->
  forall a l, forallb (hashable c) (a :: l) = true ->
  in_set H c a l = Ok (in_list c a l) /\ in_dict H c a l = Ok (in_list c a l).
Proof.
  intros Hk a l Hh. apply (in_set_agrees_gen H c (fun _ => true)); auto.
  - intros x y _ _. apply ikey_of_ieq. exact Hk.
  - clear. induction (a :: l); simpl; auto.
Qed.

Theorem in_set_agrees_nt H c : key_coherent_nt c = true ->
  forall a l, forallb no_temporal (a :: l) = true -> forallb (hashable c) (a :: l) = true ->
  in_set H c a l = Ok (in_list c a l) /\ in_dict H c a l = Ok (in_list c a l).
Proof.
  intros Hk a l Hn Hh. apply (in_set_agrees_gen H c no_temporal); auto.
  intros x y Nx Ny. apply ikey_of_ieq_nt; assumption.
Qed.

Lemma val_eq_dec : forall x y : val, {x = y} + {x <> y}.
Proof. repeat decide equality. Qed.
Lemma key_eq_dec : forall x y : key, {x = y} + {x <> y}.
Proof. repeat decide equality. Qed.

(* equal objects with different keys: some hash function makes the list find what the set misses *)
Theorem in_set_disagrees c a b : ieq c a b = true -> ikey c a <> ikey c b ->
  exists H, in_list c a [b] = true /\ in_set H c a [b] <> Ok true.
Proof.
  intros E N. exists (fun k => if key_eq_dec k (ikey c a) then 0%Z else 1%Z). split.
  - unfold in_list, in_list_gen. simpl. rewrite ieq_sym, E. reflexivity.
  - unfold in_set, in_set_gen. destruct (forallb (hashable c) [a; b]); [|discriminate].
    simpl. unfold hash_eq.
    destruct (key_eq_dec (ikey c b) (ikey c a)) as [F|F]; [exfalso; apply N; auto|].
    destruct (key_eq_dec (ikey c a) (ikey c a)) as [_|G]; [|exfalso; apply G; reflexivity].
    simpl. discriminate.
Qed.

(* ------------------------------------------------------------------------------------------ *)
(* hashability                                                                                 *)
(* ------------------------------------------------------------------------------------------ *)
Theorem all_hashable_spec c : all_hashable c = true -> forall i, hashable c i = true.
Proof.
  unfold all_hashable, hashable. simpl. rewrite !andb_true_iff. intros [H1 [H2 [H3 [H4 _]]]] i.
  destruct i as [t|s|a]; simpl; auto. destruct (sdb s); auto.
Qed.
Theorem unhashable_witness c : all_hashable c = false -> exists i, hashable c i = false.
Proof.
  intro Hf. apply forallb_false_ex in Hf. destruct Hf as [k [_ Fk]]. destruct k.
  - exists (ITable t0). exact Fk.
  - exists (ISchema (SRoot "s" false)). exact Fk.
  - exists (ISchema (SRoot "d" true)). exact Fk.
  - exists (IAliased {| aname := "n"; abody := None |}). exact Fk.
Qed.

(* ------------------------------------------------------------------------------------------ *)
(* == distinguishes name, schema chain, alias (and the temporal clause iff it is compared)     *)
(* ------------------------------------------------------------------------------------------ *)
Lemma VStr_inj a b : VStr a = VStr b -> a = b. Proof. congruence. Qed.
Lemma VOpt_inj a b : VOpt a = VOpt b -> a = b. Proof. congruence. Qed.

Lemma tschema_val_chain sa s t : smem SName sa = true -> smem SParent sa = true ->
  tval sa TSchema s = tval sa TSchema t -> ochain (tschema s) = ochain (tschema t).
Proof.
  intros HN HP. simpl. unfold ochain. destruct (tschema s) as [p|], (tschema t) as [q|]; simpl; intro E;
    try discriminate; try reflexivity.
  f_equal. apply (seq_on_chain sa HN HP). apply seq_on_spec. congruence.
Qed.

Theorem ieq_distinguishes c : dist_core c = true -> forall a b, differ_core a b -> ieq c a b = false.
Proof.
  unfold dist_core. rewrite !andb_true_iff.
  intros [[[[[[[H1 H2] H3] H4] H5] H6] H7] H8] a b D.
  destruct (ieq c a b) eqn:E; [exfalso | reflexivity].
  destruct a as [s|s|s], b as [t|t|t]; simpl in *; try discriminate.
  - apply teq_on_spec in E. apply tmem_In in H1, H2, H3. destruct D as [D|[D|D]]; apply D.
    + apply VStr_inj. exact (map_eq_In _ _ _ TName H1 E).
    + apply (tschema_val_chain (c_sne c)); auto. exact (map_eq_In _ _ _ TSchema H2 E).
    + apply VOpt_inj. exact (map_eq_In _ _ _ TAlias H3 E).
  - apply D. apply (seq_on_chain (c_seq c)); auto.
  - apply aeq_on_spec in E. apply amem_In in H8. apply D. apply VStr_inj. exact (map_eq_In _ _ _ QName H8 E).
Qed.

Theorem ieq_distinguishes_temporal c : dist_temporal c = true -> forall a b, differ_temporal a b -> ieq c a b = false.
Proof.
  unfold dist_temporal. rewrite andb_true_iff. intros [H1 H2] a b D.
  destruct (ieq c a b) eqn:E; [exfalso | reflexivity].
  destruct a as [s|s|s], b as [t|t|t]; simpl in *; try contradiction.
  apply teq_on_spec in E. apply tmem_In in H1, H2. destruct D as [D|D]; apply D; apply VOpt_inj.
  - exact (map_eq_In _ _ _ TFor H1 E).
  - exact (map_eq_In _ _ _ TPortion H2 E).
Qed.

Theorem temporal_witness c : dist_temporal c = false -> exists a b, differ_temporal a b /\ ieq c a b = true.
Proof.
  unfold dist_temporal. intro Hf. apply andb_false_iff in Hf. destruct Hf as [Hf|Hf].
  - exists (ITable t0), (ITable (t_with TFor)). split; [left; simpl; discriminate|]. apply t_with_eq. exact Hf.
  - exists (ITable t0), (ITable (t_with TPortion)). split; [right; simpl; discriminate|]. apply t_with_eq. exact Hf.
Qed.

(* ------------------------------------------------------------------------------------------ *)
(* construction routes                                                                         *)
(* ------------------------------------------------------------------------------------------ *)
Lemma chain_chain_from rest : forall root, chain (chain_from root rest) = (rev rest ++ chain root)%list.
Proof.
  unfold chain_from. induction rest as [|s r IH]; intro root; simpl; [reflexivity|].
  rewrite IH. simpl. rewrite <- app_assoc. reflexivity.
Qed.

Lemma ev_prog_chain rest : forall root s, ev_sprog root = Ok s -> ev_sprog (prog_chain root rest) = Ok (chain_from s rest).
Proof.
  unfold chain_from. induction rest as [|x r IH]; intros root s E; simpl; [exact E|].
  apply IH. simpl. rewrite E. reflexivity.
Qed.

(* Table(n, schema='s') = Table(n, schema=('s',)) ;
   Table(n, schema=(n0, n1, ..)) = Table(n, schema=Schema(.., parent=Schema(n1, parent=Schema(n0)))) *)
Theorem route_str_seq s : ev_route (RStr s) = ev_route (RSeq [s]).
Proof. reflexivity. Qed.
Theorem route_seq_obj n0 rest : ev_route (RSeq (n0 :: rest)) = ev_route (RObj (prog_chain (PNew false n0) rest)).
Proof. simpl. rewrite (ev_prog_chain rest (PNew false n0) (SRoot n0 false) eq_refl). reflexivity. Qed.
Theorem route_seq_chain n0 rest s : ev_route (RSeq (n0 :: rest)) = Ok (Some s) -> chain s = rev (n0 :: rest).
Proof. simpl. intro E. injection E as E. subst. rewrite chain_chain_from. reflexivity. Qed.
(* Database(d).s.t : the same chain as Table(t, schema=(d, s)), with a Database at the root *)
Theorem route_attr d s :
  ev_route (RAttr (PAttr (PNew true d) s)) = Ok (Some (SSub s false (SRoot d true)))
  /\ option_map chain (Some (SSub s false (SRoot d true))) = option_map chain (Some (chain_from (SRoot d false) [s])).
Proof. split; reflexivity. Qed.

(* objects with the same name, schema chain, alias and temporal clause, however built and whatever Query class
   they are bound to *)
Definition same_identity (a b : table) : Prop :=
  tname a = tname b /\ ochain (tschema a) = ochain (tschema b) /\ talias a = talias b
  /\ tfor a = tfor b /\ tportion a = tportion b.

Lemma tval_same sa x a b : smem SKind sa = false -> x <> TQcls -> same_identity a b -> tval sa x a = tval sa x b.
Proof.
  intros HK NQ [E1 [E2 [E3 [E4 E5]]]]. destruct x; simpl; try congruence.
  unfold ochain in E2. destruct (tschema a) as [p|], (tschema b) as [q|]; simpl in *; try discriminate; try reflexivity.
  injection E2 as E2. do 2 f_equal. apply seq_on_spec. apply chain_seq_on; assumption.
Qed.

Theorem route_independent c : smem SKind (c_sne c) = false -> smem SKind (c_tkey_s c) = false ->
  tmem TQcls (c_teq c) = false -> tmem TQcls (c_tkey c) = false ->
  forall a b, same_identity a b -> ieq c (ITable a) (ITable b) = true /\ ikey c (ITable a) = ikey c (ITable b).
Proof.
  intros K1 K2 Q1 Q2 a b S.
  assert (N : forall l x, tmem TQcls l = false -> In x l -> x <> TQcls).
  { intros l x Hl Hx E. subst. apply tmem_In in Hx. congruence. }
  split.
  - simpl. apply teq_on_spec. apply map_eq_of_all. intros x Hx. apply tval_same; eauto.
  - unfold ikey. simpl. f_equal. apply map_eq_of_all. intros x Hx. apply tval_same; eauto.
Qed.

(* the same, for any configuration, when the two tables are bound to the same Query class *)
Theorem route_independent_q c : smem SKind (c_sne c) = false -> smem SKind (c_tkey_s c) = false ->
  forall a b, same_identity a b -> tqcls a = tqcls b ->
  ieq c (ITable a) (ITable b) = true /\ ikey c (ITable a) = ikey c (ITable b).
Proof.
  intros K1 K2 a b S Q.
  assert (V : forall sa x, smem SKind sa = false -> tval sa x a = tval sa x b).
  { intros sa x HK. destruct x; try (apply tval_same; [assumption | discriminate | assumption]).
    simpl. rewrite Q. reflexivity. }
  split.
  - simpl. apply teq_on_spec. apply map_eq_of_all. intros x _. apply V. assumption.
  - unfold ikey. simpl. f_equal. apply map_eq_of_all. intros x _. apply V. assumption.
Qed.

(* ------------------------------------------------------------------------------------------ *)
(* the boolean key equality used by the correspondence check is equality                       *)
(* ------------------------------------------------------------------------------------------ *)
Lemma list_eqb_spec {X} (e : X -> X -> bool) : (forall x y, e x y = true <-> x = y) ->
  forall l1 l2, list_eqb e l1 l2 = true <-> l1 = l2.
Proof.
  intro He. induction l1 as [|x l1 IH]; destruct l2 as [|y l2]; simpl; try (split; [reflexivity|reflexivity]);
    try (split; discriminate).
  rewrite andb_true_iff, He, IH. split; [intros [A B]; subst; reflexivity | intro E; injection E; auto].
Qed.
Lemma obool_eqb_spec a b : option_eqb Bool.eqb a b = true <-> a = b.
Proof.
  destruct a as [x|], b as [y|]; simpl; try (split; [reflexivity|reflexivity]); try (split; discriminate).
  rewrite Bool.eqb_true_iff. split; [intro; subst; reflexivity | intro E; injection E; auto].
Qed.
Lemma level_eqb_spec a b : level_eqb a b = true <-> a = b.
Proof.
  destruct a as [a1 a2], b as [b1 b2]. unfold level_eqb. simpl. rewrite andb_true_iff, ostr_eqb_eq, obool_eqb_spec.
  split; [intros [A B]; subst; reflexivity | intro E; injection E; auto].
Qed.
Lemma val_eqb_spec a b : val_eqb a b = true <-> a = b.
Proof.
  destruct a as [x|x|x], b as [y|y|y]; simpl; try (split; discriminate).
  - rewrite String.eqb_eq. split; [intro; subst; reflexivity | intro E; injection E; auto].
  - rewrite ostr_eqb_eq. split; [intro; subst; reflexivity | intro E; injection E; auto].
  - destruct x as [x|], y as [y|]; simpl; try (split; [reflexivity|reflexivity]); try (split; discriminate).
    rewrite (list_eqb_spec level_eqb level_eqb_spec). split; [intro; subst; reflexivity | intro E; injection E; auto].
Qed.
Theorem key_eqb_spec a b : key_eqb a b = true <-> a = b.
Proof.
  destruct a as [a1 a2], b as [b1 b2]. unfold key_eqb. simpl.
  rewrite andb_true_iff, Nat.eqb_eq, (list_eqb_spec val_eqb val_eqb_spec).
  split; [intros [A B]; subst; reflexivity | intro E; injection E; auto].
Qed.

Theorem ieq_cross_kind c a b :
  (match a, b with ITable _, ITable _ | ISchema _, ISchema _ | IAliased _, IAliased _ => False | _, _ => True end) ->
  ieq c a b = false /\ ine c a b = true.
Proof. destruct a, b; simpl; intro F; try contradiction; split; reflexivity. Qed.

Lemma no_temporal_no_differ a b : no_temporal a = true -> no_temporal b = true -> differ_temporal a b -> False.
Proof.
  destruct a as [s|s|s], b as [t|t|t]; simpl; auto.
  rewrite !andb_true_iff, !negb_true_iff. intros [A1 A2] [B1 B2] [D|D]; apply D.
  - destruct (tfor s), (tfor t); try discriminate; reflexivity.
  - destruct (tportion s), (tportion t); try discriminate; reflexivity.
Qed.
