(* SelectMono.v — C04: the statement reader is monotone in its fuel, hence deterministic: two fuels on which it
   answers give the same abstract statement. *)
From PV Require Import Base Crit gen.TermsTable Terms Page gen.QueryTable Query Parse lemmas.ParseMono.
From PV Require Import C02Model C02Frag gen.C04Table Select.
From Coq Require Import Lia Arith.
Local Open Scope list_scope.

Lemma read_expr_mono f f' s x : f <= f' -> read_expr f s = Some x -> read_expr f' s = Some x.
Proof.
  unfold read_expr. intros Hle H. destruct (parse sqlite f 0 (shadow s)) as [[e r]|] eqn:E; [|discriminate].
  rewrite (mono_p sqlite f f' 0 _ _ Hle E). exact H.
Qed.

Lemma read_sel_items_mono : forall g g' f f' s x, g <= g' -> f <= f' ->
  read_sel_items g f s = Some x -> read_sel_items g' f' s = Some x.
Proof.
  induction g as [|g IH]; intros g' f f' s x Hg Hf H; [discriminate|].
  destruct g' as [|g']; [lia|]. cbn [read_sel_items] in *.
  destruct (read_expr f s) as [[e r]|] eqn:E; [|discriminate]. rewrite (read_expr_mono f f' s _ Hf E).
  destruct r as [|[t|k|sr|a|c|z] r1]; try exact H.
  - destruct t; try exact H.
    destruct (read_sel_items g f r1) as [[l r']|] eqn:R; [|discriminate].
    rewrite (IH g' f f' r1 _ ltac:(lia) Hf R). exact H.
  - destruct r1 as [|[t|k|sr|a2|c|z] r2]; try exact H.
    destruct t; try exact H.
    destruct (read_sel_items g f r2) as [[l r']|] eqn:R; [|discriminate].
    rewrite (IH g' f f' r2 _ ltac:(lia) Hf R). exact H.
Qed.

Lemma read_exprs_mono : forall g g' f f' s x, g <= g' -> f <= f' ->
  read_exprs g f s = Some x -> read_exprs g' f' s = Some x.
Proof.
  induction g as [|g IH]; intros g' f f' s x Hg Hf H; [discriminate|].
  destruct g' as [|g']; [lia|]. cbn [read_exprs] in *.
  destruct (read_expr f s) as [[e r]|] eqn:E; [|discriminate]. rewrite (read_expr_mono f f' s _ Hf E).
  destruct r as [|[t|k|sr|a|c|z] r1]; try exact H.
  destruct t; try exact H.
  destruct (read_exprs g f r1) as [[l r']|] eqn:R; [|discriminate].
  rewrite (IH g' f f' r1 _ ltac:(lia) Hf R). exact H.
Qed.

Lemma read_orders_mono : forall g g' f f' s x, g <= g' -> f <= f' ->
  read_orders g f s = Some x -> read_orders g' f' s = Some x.
Proof.
  induction g as [|g IH]; intros g' f f' s x Hg Hf H; [discriminate|].
  destruct g' as [|g']; [lia|]. cbn [read_orders] in *.
  destruct (read_expr f s) as [[e r]|] eqn:E; [|discriminate]. rewrite (read_expr_mono f f' s _ Hf E).
  destruct (read_dir r) as [d r1].
  destruct r1 as [|[t|k|sr|a|c|z] r2]; try exact H.
  destruct t; try exact H.
  destruct (read_orders g f r2) as [[l r']|] eqn:R; [|discriminate].
  rewrite (IH g' f f' r2 _ ltac:(lia) Hf R). exact H.
Qed.

Lemma read_joins_mono : forall g g' f f' s x, g <= g' -> f <= f' ->
  read_joins g f s = Some x -> read_joins g' f' s = Some x.
Proof.
  induction g as [|g IH]; intros g' f f' s x Hg Hf H; [discriminate|].
  destruct g' as [|g']; [lia|]. cbn [read_joins] in *.
  destruct s as [|[t|k|sr|a|c|z] s1]; try exact H.
  destruct k; try exact H.
  destruct s1 as [|[t|k|sr|a|c|z] s2]; try exact H.
  assert (Rec : forall r y, read_joins g f r = Some y -> read_joins g' f' r = Some y)
    by (intros r y Hy; exact (IH g' f f' r y ltac:(lia) Hf Hy)).
  destruct s2 as [|[t|k|sr2|a|c|z] s3];
    try (destruct (read_joins g f _) as [[l r2]|] eqn:R; [|discriminate]; rewrite (Rec _ _ R); exact H).
  destruct k;
    try (destruct (read_joins g f _) as [[l r2]|] eqn:R; [|discriminate]; rewrite (Rec _ _ R); exact H).
  - (* ON *)
    destruct (read_expr f s3) as [[e r1]|] eqn:E; [|discriminate]. rewrite (read_expr_mono f f' s3 _ Hf E).
    destruct (read_joins g f r1) as [[l r2]|] eqn:R; [|discriminate]. rewrite (Rec _ _ R). exact H.
  - (* USING *)
    destruct s3 as [|[t|k|sr3|a|c|z] s4];
      try (destruct (read_joins g f _) as [[l r2]|] eqn:R; [|discriminate]; rewrite (Rec _ _ R); exact H).
    destruct t;
      try (destruct (read_joins g f _) as [[l r2]|] eqn:R; [|discriminate]; rewrite (Rec _ _ R); exact H).
    destruct (read_cols s4) as [cs r1]. destruct cs as [|c0 cs]; [discriminate|].
    destruct r1 as [|[t|k|sr3|a|c|z] r2]; try discriminate. destruct t; try discriminate.
    destruct (read_joins g f r2) as [[l r3]|] eqn:R; [|discriminate]. rewrite (Rec _ _ R). exact H.
Qed.

Lemma opt_kw_mono {A} k (rd rd' : list stok -> option (A * list stok)) dflt s x :
  (forall r y, rd r = Some y -> rd' r = Some y) -> opt_kw k rd dflt s = Some x -> opt_kw k rd' dflt s = Some x.
Proof.
  intros Hr. unfold opt_kw. destruct s as [|[t|k'|sr|a|c|z] r]; auto.
  destruct (skw_eqb k' k); auto.
Qed.

Lemma read_one_mono f f' r y : f <= f' -> read_one f r = Some y -> read_one f' r = Some y.
Proof.
  unfold read_one. intros Hf H. destruct (read_expr f r) as [[e r']|] eqn:E; [|discriminate].
  rewrite (read_expr_mono f f' r _ Hf E). exact H.
Qed.

Theorem read_select_mono f f' s a : f <= f' -> read_select f s = Some a -> read_select f' s = Some a.
Proof.
  intros Hf. unfold read_select. destruct s as [|[t|k|sr|al|c|z] s0]; try discriminate. destruct k; try discriminate.
  destruct (opt_kw KDistinct (fun r => Some (true, r)) false s0) as [dr|]; [|discriminate]. cbn [obind].
  destruct (read_sel_items f f (snd dr)) as [ir|] eqn:E1; [|discriminate].
  rewrite (read_sel_items_mono f f' f f' _ _ Hf Hf E1). cbn [obind].
  destruct (opt_kw KFrom read_from [] (snd ir)) as [fr|]; [|discriminate]. cbn [obind].
  destruct (read_joins f f (snd fr)) as [jr|] eqn:E2; [|discriminate].
  rewrite (read_joins_mono f f' f f' _ _ Hf Hf E2). cbn [obind].
  destruct (opt_kw KWhere (read_one f) None (snd jr)) as [wr|] eqn:E3; [|discriminate].
  rewrite (opt_kw_mono KWhere (read_one f) (read_one f') None _ _ (fun r y => read_one_mono f f' r y Hf) E3). cbn [obind].
  destruct (opt_kw KGroupBy (read_exprs f f) [] (snd wr)) as [gr|] eqn:E4; [|discriminate].
  rewrite (opt_kw_mono KGroupBy (read_exprs f f) (read_exprs f' f') [] _ _ (fun r y => read_exprs_mono f f' f f' r y Hf Hf) E4). cbn [obind].
  destruct (opt_kw KHaving (read_one f) None (snd gr)) as [hr|] eqn:E5; [|discriminate].
  rewrite (opt_kw_mono KHaving (read_one f) (read_one f') None _ _ (fun r y => read_one_mono f f' r y Hf) E5). cbn [obind].
  destruct (opt_kw KOrderBy (read_orders f f) [] (snd hr)) as [orr|] eqn:E6; [|discriminate].
  rewrite (opt_kw_mono KOrderBy (read_orders f f) (read_orders f' f') [] _ _ (fun r y => read_orders_mono f f' f f' r y Hf Hf) E6). cbn [obind].
  auto.
Qed.

Corollary read_select_det f1 f2 s a1 a2 : read_select f1 s = Some a1 -> read_select f2 s = Some a2 -> a1 = a2.
Proof.
  intros H1 H2.
  pose proof (read_select_mono f1 (max f1 f2) s a1 (Nat.le_max_l _ _) H1) as A.
  pose proof (read_select_mono f2 (max f1 f2) s a2 (Nat.le_max_r _ _) H2) as B. congruence.
Qed.
