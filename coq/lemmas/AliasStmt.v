(* AliasStmt.v — C13 at the level of statements: select list, WHERE / HAVING / ON, GROUP BY / ORDER BY. *)
From PV Require Import Base Crit gen.TermsTable Terms TermsCorr gen.C13Table Alias lemmas.AliasLemmas.

(* ------------------------------------------------------------------------------------------------ *)
(* 1. THEOREM C: aliased objects inside a larger expression                                            *)
(* ------------------------------------------------------------------------------------------------ *)
Lemma set_alias_none_strip t : set_alias (strip_all t) None = strip_all t.
Proof. destruct t; reflexivity. Qed.
Lemma set_alias_twice t a b : set_alias (set_alias t a) b = set_alias t b.
Proof. destruct t; reflexivity. Qed.
Lemma behaviour_set_alias t a : alias_behaviour (set_alias t a) = alias_behaviour t.
Proof. destruct t; reflexivity. Qed.
Lemma behaviour_strip t : alias_behaviour (strip_all t) = alias_behaviour t.
Proof. destruct t; reflexivity. Qed.
Lemma strip_set_alias t a : strip_all (set_alias t a) = strip_all t.
Proof. destruct t; reflexivity. Qed.
Lemma alias_of_strip_inner t : alias_of (strip_inner t) = alias_of t.
Proof. destruct t; reflexivity. Qed.
Lemma behaviour_strip_inner t : alias_behaviour (strip_inner t) = alias_behaviour t.
Proof. unfold strip_inner. rewrite behaviour_set_alias. apply behaviour_strip. Qed.
Lemma strip_inner_none t : set_alias (strip_inner t) None = strip_all t.
Proof. unfold strip_inner. rewrite set_alias_twice. apply set_alias_none_strip. Qed.

(* the top node without its alias renders alias-free when its sub-terms are quiet and either the position is not the
   select list, or the top node shields its children from with_alias *)
(* a node without an alias of its own renders the same with and without with_alias: every constructor renders its
   operands with with_alias=False (39a4740, 55bfddf, f84cf61 and the older Function / Case / ArithmeticExpression code) *)
Lemma unaliased_wa_irrelevant c t : alias_of t = None -> render c t = render (set_wa c false) t.
Proof.
  intros Ha. destruct t; cbn [alias_of] in Ha; subst; try reflexivity;
    try (cbn [render]; rewrite ?set_wa_idem; cbn [wa set_wa]; destruct (wa c); reflexivity).
Qed.

(* the top node without its alias renders alias-free when its sub-terms are quiet -- in EVERY position *)
Lemma base_alias_free c t : quiet (set_alias t None) = true ->
  render c (set_alias t None) = render c (strip_all t).
Proof.
  intros Hq.
  assert (A : alias_of (set_alias t None) = None) by (destruct t; reflexivity).
  rewrite (unaliased_wa_irrelevant c _ A), (quiet_render _ (set_wa c false) eq_refl Hq), strip_set_alias.
  symmetry. apply unaliased_wa_irrelevant, alias_of_strip.
Qed.

Theorem inner_alias_free c t : quiet (set_alias t None) = true -> render c t = render c (strip_inner t).
Proof.
  intros Hq. rewrite (render_alias_spec c t), (render_alias_spec c (strip_inner t)). unfold behaviour_spec.
  rewrite behaviour_strip_inner, alias_of_strip_inner, strip_inner_none.
  assert (R : reach_q c (strip_inner t) = reach_q c t /\ reach_aq c (strip_inner t) = reach_aq c t)
    by (unfold reach_q, reach_aq; rewrite behaviour_strip_inner; auto).
  destruct R as [-> ->].
  rewrite (base_alias_free c t Hq). reflexivity.
Qed.

(* function arguments: Function.get_function_sql renders them with with_alias=False in every position *)
Theorem funcarg_alias_free c f args sp a : quiet_list args = true ->
  render c (TFunc f args sp a) = render c (TFunc f (strip_list args) sp a).
Proof.
  intros Hq. cbn [render]. rewrite (quiet_render_list args (fctx c) eq_refl Hq). reflexivity.
Qed.

(* ------------------------------------------------------------------------------------------------ *)
(* 2. the select list                                                                                 *)
(* ------------------------------------------------------------------------------------------------ *)

Theorem select_item_frag s t a : alias_of t = Some a -> sel_frag s t = true ->
  select_item s t = with_suffix (bare s PSelect t) (alias_suffix (s_cls s) a).
Proof.
  intros Ha Hf. unfold sel_frag in Hf. split_and Hf. unfold select_item, bare, ctx_at in *.
  destruct (ctx_facts (s_cls s) (joined s)) as [Hwa [_ [_ [_ [_ [_ [Hcq [Hak _]]]]]]]].
  rewrite (consumes_render t _ Hwa Hf Hq), (select_spec_suffix _ t a Ha Hq0).
  unfold alias_suffix. rewrite Hcq, Hak. reflexivity.
Qed.

(* VALUES is rendered like a select list (with_alias=True): not a position where an alias belongs *)
(* ------------------------------------------------------------------------------------------------ *)
(* 3. WHERE / HAVING / ON / GROUP BY / ORDER BY elements: no alias                                      *)
(* ------------------------------------------------------------------------------------------------ *)

Lemma non_select_wa s p : non_select p = true -> wa (ctx_at s p) = false.
Proof.
  unfold ctx_at. destruct (ctx_facts (s_cls s) (joined s)) as [_ [H1 [H2 [H3 [H4 [H5 _]]]]]].
  destruct p; try discriminate; auto.
Qed.

Theorem non_select_alias_free s p t : non_select p = true -> quiet t = true ->
  render (ctx_at s p) t = render (ctx_at s p) (strip_all t).
Proof. intros Hp Hq. apply quiet_render; auto. apply non_select_wa, Hp. Qed.

Lemma bare_non_select s p t : non_select p = true -> bare s p t = render (ctx_at s p) (strip_all t).
Proof.
  intros Hp. unfold bare. rewrite <- (non_select_wa s p Hp). rewrite set_wa_same. reflexivity.
Qed.

(* ------------------------------------------------------------------------------------------------ *)
(* 4. GROUP BY / ORDER BY                                                                             *)
(* ------------------------------------------------------------------------------------------------ *)
Lemma truthy_nonempty a : a <> "" -> truthy_ostr (Some a) = true.
Proof. destruct a; [congruence|reflexivity]. Qed.

Lemma fq_conv c a : fq (or_ostr (aq c) (q c)) a = conv_quote c ++ a ++ conv_quote c.
Proof. reflexivity. Qed.

(* the substitution law, for EVERY term: a reference exactly when the name is selected and the class allows it *)
Theorem group_item_law s t a : alias_of t = Some a -> a <> "" ->
  group_item s t = if name_in (Some a) (selected_aliases s) && spec_group_alias_allowed (s_cls s)
                   then Ok (alias_ref (s_cls s) a) else render (ctx_at s PGroup) t.
Proof.
  intros Ha Hne. unfold group_item, substitutes, ctx_at. rewrite Ha, (truthy_nonempty a Hne).
  destruct (ctx_facts (s_cls s) (joined s)) as [_ [_ [_ [_ [_ [_ [_ [_ [Hg [_ [Hgr _]]]]]]]]]]].
  rewrite Hgr, fq_conv, Hg. cbn [ostr odefault]. unfold alias_ref.
  destruct (spec_group_alias_allowed (s_cls s)); cbn [andb];
  destruct (name_in (Some a) (selected_aliases s)); reflexivity.
Qed.

Theorem order_item_law s t d a : alias_of t = Some a -> a <> "" ->
  order_item s (t, d) = with_dir d (if name_in (Some a) (selected_aliases s) && spec_order_alias_allowed (s_cls s)
                                   then Ok (alias_ref (s_cls s) a) else render (ctx_at s POrder) t).
Proof.
  intros Ha Hne. unfold order_item, with_dir, substitutes, ctx_at. cbn [fst snd]. rewrite Ha, (truthy_nonempty a Hne).
  destruct (ctx_facts (s_cls s) (joined s)) as [_ [_ [_ [_ [_ [_ [_ [_ [_ [Ho [_ Hor]]]]]]]]]]].
  rewrite Hor, fq_conv, Ho. cbn [ostr odefault]. unfold alias_ref.
  destruct (spec_order_alias_allowed (s_cls s)); cbn [andb];
  destruct (name_in (Some a) (selected_aliases s)); reflexivity.
Qed.

(* an unaliased (or empty-alias) element is never replaced *)
Lemma group_item_unaliased s t : truthy_ostr (alias_of t) = false -> group_item s t = render (ctx_at s PGroup) t.
Proof. intros H. unfold group_item, substitutes. rewrite H, andb_false_r. reflexivity. Qed.

(* a reference names a select item; when the items of that name are in the fragment, the select list defines it *)
Lemma name_in_witness a l : name_in (Some a) (map alias_of l) = true -> exists t', In t' l /\ alias_of t' = Some a.
Proof.
  unfold name_in. intros H. apply existsb_exists in H as [x [Hin Heq]]. apply in_map_iff in Hin as [t' [E Hin]].
  exists t'. split; [exact Hin|]. subst x. destruct (alias_of t'); cbn in Heq; [|discriminate].
  apply String.eqb_eq in Heq. congruence.
Qed.

Theorem reference_defined s a : name_in (Some a) (selected_aliases s) = true -> defs_ok s a = true ->
  exists t', In t' (s_sel s) /\ alias_of t' = Some a
             /\ select_item s t' = with_suffix (bare s PSelect t') (alias_suffix (s_cls s) a).
Proof.
  intros Hin Hd. destruct (name_in_witness a (s_sel s) Hin) as [t' [Ht' Ha]].
  exists t'. split; [exact Ht'|]. split; [exact Ha|].
  unfold defs_ok in Hd. rewrite forallb_forall in Hd. specialize (Hd t' Ht'). rewrite Ha in Hd.
  cbn [option_eqb] in Hd. rewrite String.eqb_refl in Hd. cbn [negb orb] in Hd.
  apply select_item_frag; auto.
Qed.

(* ------------------------------------------------------------------------------------------------ *)
(* 5. the assembled statement: each clause text is where the statement says (used to read the item-level    *)
(*    theorems as statements about the rendered text)                                                 *)
(* ------------------------------------------------------------------------------------------------ *)
Lemma map_res_nth {A B} (f : A -> res B) l ys i x : map_res f l = Ok ys -> nth_error l i = Some x ->
  exists y, nth_error ys i = Some y /\ f x = Ok y.
Proof.
  revert ys i. induction l as [|h r IH]; intros ys i H Hn; [destruct i; discriminate|].
  cbn [map_res] in H. destruct (f h) eqn:Fh; cbn [bind] in H; [|discriminate].
  destruct (map_res f r) eqn:Fr; cbn [bind] in H; [|discriminate]. inversion H; subst ys.
  destruct i as [|i]; cbn [nth_error] in *.
  - inversion Hn; subst. exists a. auto.
  - apply (IH _ _ eq_refl Hn).
Qed.

Theorem render_stmt_parts s txt : render_stmt s = Ok txt -> s_sel s <> [] ->
  exists sel jn wh gr hv od,
    map_res (select_item s) (s_sel s) = Ok sel
    /\ opt_clause (" JOIN " ++ fq (q (ctx_at s PSelect)) "u" ++ " ON ") (on_text s) (s_on s) = Ok jn
    /\ opt_clause " WHERE " (where_text s) (s_where s) = Ok wh
    /\ list_clause " GROUP BY " (group_item s) (s_group s) = Ok gr
    /\ opt_clause " HAVING " (having_text s) (s_having s) = Ok hv
    /\ list_clause " ORDER BY " (order_item s) (s_order s) = Ok od
    /\ txt = "SELECT " ++ join "," sel ++ " FROM " ++ fq (q (ctx_at s PSelect)) "t" ++ jn ++ wh ++ gr ++ hv ++ od.
Proof.
  unfold render_stmt. intros H Hne. destruct (s_sel s) as [|t0 r] eqn:Es; [congruence|]. rewrite <- Es in *.
  destruct (map_res (select_item s) (s_sel s)) as [sel|] eqn:E1; cbn [bind] in H; [|discriminate].
  destruct (opt_clause _ (on_text s) (s_on s)) as [jn|] eqn:E2; cbn [bind] in H; [|discriminate].
  destruct (opt_clause _ (where_text s) (s_where s)) as [wh|] eqn:E3; cbn [bind] in H; [|discriminate].
  destruct (list_clause _ (group_item s) (s_group s)) as [gr|] eqn:E4; cbn [bind] in H; [|discriminate].
  destruct (opt_clause _ (having_text s) (s_having s)) as [hv|] eqn:E5; cbn [bind] in H; [|discriminate].
  destruct (list_clause _ (order_item s) (s_order s)) as [od|] eqn:E6; cbn [bind] in H; [|discriminate].
  inversion H. exists sel, jn, wh, gr, hv, od. repeat split; auto.
Qed.
