(* FuncLemmas.v — the reader reads back what the wrappers write (C18). *)
From PV Require Import Base Func lemmas.FuncText.
From Coq Require Import Lia.
Open Scope string_scope.

(* ---- the DISTINCT splice ------------------------------------------------------------------ *)
Lemma splice_after_paren name rest :
  splice (name ++ "(" ++ rest) (String.length name + 1) = name ++ "(" ++ "DISTINCT " ++ rest.
Proof.
  unfold splice.
  replace (String.length name + 1) with (String.length (name ++ "(")) by (rewrite slength_app; reflexivity).
  rewrite <- (sapp_assoc name "(" rest). rewrite take_app, drop_app. rewrite sapp_assoc. reflexivity.
Qed.

(* the same splice one position early lands before the parenthesis (the off-by-one a change could introduce) *)
Lemma splice_off_by_one name rest :
  splice (name ++ "(" ++ rest) (String.length name) = name ++ "DISTINCT " ++ "(" ++ rest.
Proof. unfold splice. rewrite take_app, drop_app. reflexivity. Qed.

(* ---- frame bounds ------------------------------------------------------------------------- *)
Lemma parse_dir_app d r : parse_dir (dir_text d ++ r) = Some (d, r).
Proof.
  destruct d; unfold parse_dir, dir_text.
  - rewrite strip_prefix_app. reflexivity.
  - rewrite strip_prefix_none by reflexivity. rewrite strip_prefix_app. reflexivity.
Qed.

Lemma parse_edge_tok_num z : parse_edge_tok (Z_to_string z) = Some (Some (OInt z)).
Proof. unfold parse_edge_tok. rewrite Z_round_trip, String.eqb_refl. reflexivity. Qed.

Lemma raw_ok_parts s : raw_ok s = true ->
  is_int_text s = false /\ match s with String c _ => num_start_char c | EmptyString => false end = true
  /\ nochar " " s = true /\ nochar "(" s = true /\ nochar ")" s = true.
Proof.
  unfold raw_ok. intros H. apply andb_prop in H as [H H5]. apply andb_prop in H as [H H4]. apply andb_prop in H as [H H3].
  apply andb_prop in H as [H1 H2]. apply negb_true_iff in H1. auto.
Qed.

Lemma parse_edge_tok_raw s : raw_ok s = true -> parse_edge_tok s = Some (Some (ORaw s)).
Proof.
  intros H. destruct (raw_ok_parts s H) as [Hi _]. unfold parse_edge_tok. unfold is_int_text in Hi.
  destruct (Z_of_string s) as [z|].
  - rewrite Hi, H. reflexivity.
  - destruct (String.eqb s "UNBOUNDED") eqn:E; [|rewrite H; reflexivity].
    apply String.eqb_eq in E. subst. vm_compute in H. discriminate.
Qed.

Lemma parse_bound_app b r : bound_ok b = true -> parse_bound (render_bound b ++ r) = Some (b, r).
Proof.
  destruct b as [|d v]; unfold parse_bound, render_bound; intros Hok.
  - rewrite strip_prefix_app. reflexivity.
  - unfold render_edge. cbn [fst snd]. destruct v as [[n|s]|]; cbn [offset_text].
    + rewrite strip_prefix_none.
      2:{ rewrite !sapp_assoc. apply numeric_not_prefix; auto using numeric_Z. }
      rewrite !sapp_assoc. change (" " ++ dir_text d ++ r) with (String " " (dir_text d ++ r)).
      rewrite split_char_app by (apply numeric_nospace, numeric_Z).
      rewrite parse_edge_tok_num, parse_dir_app. reflexivity.
    + cbn in Hok. destruct (raw_ok_parts s Hok) as [_ [Hs [Hsp _]]].
      rewrite strip_prefix_none.
      2:{ rewrite !sapp_assoc. apply num_start_not_prefix; auto. }
      rewrite !sapp_assoc. change (" " ++ dir_text d ++ r) with (String " " (dir_text d ++ r)).
      rewrite split_char_app by exact Hsp.
      rewrite parse_edge_tok_raw by exact Hok. rewrite parse_dir_app. reflexivity.
    + rewrite strip_prefix_none by reflexivity.
      rewrite !sapp_assoc. change (" " ++ dir_text d ++ r) with (String " " (dir_text d ++ r)).
      rewrite split_char_app by reflexivity.
      rewrite parse_dir_app. reflexivity.
Qed.

Lemma denote_render_edge d v : offset_ok v = true -> denote_edge (render_edge (d, v)) = Some (d, v).
Proof.
  intros Hok. unfold denote_edge. pose proof (parse_bound_app (BEdge d v) "" Hok) as H.
  cbn [render_bound] in H. rewrite sapp_nil_r in H. rewrite H. reflexivity.
Qed.

Lemma unbounded_only_none d v : offset_ok v = true -> (prefix "UNBOUNDED" (render_edge (d, v)) = true <-> v = None).
Proof.
  intros Hok. split.
  - destruct v as [[n|s]|]; [| |reflexivity]; intros H; exfalso; unfold render_edge in H; cbn [fst snd offset_text] in H.
    + change (" " ++ dir_text d) with (String " " (dir_text d)) in H.
      rewrite (numeric_not_prefix "U" "NBOUNDED" (Z_to_string n) (dir_text d)) in H; auto using numeric_Z. discriminate.
    + cbn in Hok. destruct (raw_ok_parts s Hok) as [_ [Hs _]].
      rewrite (num_start_not_prefix "U" "NBOUNDED" s (" " ++ dir_text d)) in H; auto. discriminate.
  - intros ->. destruct d; reflexivity.
Qed.

Lemma bound_not_between b r : bound_ok b = true -> prefix "BETWEEN " (render_bound b ++ r) = false.
Proof.
  destruct b as [|d [[n|s]|]]; intros Hok; [reflexivity| | |reflexivity];
    unfold render_bound, render_edge; cbn [fst snd offset_text]; rewrite !sapp_assoc.
  - apply numeric_not_prefix; auto using numeric_Z.
  - cbn in Hok. destruct (raw_ok_parts s Hok) as [_ [Hs _]]. apply num_start_not_prefix; auto.
Qed.

Lemma kwp_hit W x : kwp W (" " ++ W ++ " " ++ x) = true.
Proof.
  unfold kwp. change (" " ++ W ++ " " ++ x) with (String " " (W ++ " " ++ x)).
  rewrite prefix_cons, Ascii.eqb_refl. cbn [andb]. rewrite <- sapp_assoc. apply prefix_app.
Qed.
Lemma kw_at_hit kws W x : In W kws -> kw_at kws (" " ++ W ++ " " ++ x) = true.
Proof.
  unfold kw_at. induction kws as [|V kws IH]; intros H; [destruct H|].
  cbn [existsb]. destruct H as [->|H]; [rewrite kwp_hit; reflexivity|]. rewrite IH by exact H. apply orb_true_r.
Qed.

Lemma parse_fkind_app k x : parse_fkind (fkind_text k ++ " " ++ x) = Some (k, x).
Proof.
  destruct k; unfold parse_fkind; cbn [fkind_text].
  - change ("ROWS" ++ " " ++ x) with ("ROWS " ++ x). rewrite strip_prefix_app. reflexivity.
  - rewrite strip_prefix_none by reflexivity.
    change ("RANGE" ++ " " ++ x) with ("RANGE " ++ x). rewrite strip_prefix_app. reflexivity.
Qed.

Lemma parse_frame_app f r : frame_ok (Some f) = true -> parse_frame (render_frame f ++ r) = Some (f, r).
Proof.
  destruct f as [[k lo] [hi|]]; unfold parse_frame, render_frame; cbn [frame_ok]; intros Hok.
  - apply andb_prop in Hok as [Hlo Hhi]. rewrite !sapp_assoc.
    change (" BETWEEN " ++ render_bound lo ++ " AND " ++ render_bound hi ++ r)
      with (" " ++ "BETWEEN " ++ render_bound lo ++ " AND " ++ render_bound hi ++ r).
    rewrite parse_fkind_app. rewrite strip_prefix_app, parse_bound_app by exact Hlo.
    rewrite strip_prefix_app, parse_bound_app by exact Hhi.
    reflexivity.
  - apply andb_prop in Hok as [Hlo _]. rewrite !sapp_assoc. rewrite parse_fkind_app.
    rewrite strip_prefix_none by (apply bound_not_between; exact Hlo).
    rewrite parse_bound_app by exact Hlo. reflexivity.
Qed.

Lemma frame_text_head f r : exists x, render_frame f ++ r = fkind_text (fst (fst f)) ++ " " ++ x.
Proof.
  destruct f as [[k lo] [hi|]]; unfold render_frame; cbn [fst]; rewrite !sapp_assoc.
  - exists ("BETWEEN " ++ render_bound lo ++ " AND " ++ render_bound hi ++ r). reflexivity.
  - eexists. reflexivity.
Qed.
Lemma frame_starts_kw f r : kw_at KW_ORD (" " ++ render_frame f ++ r) = true /\ kw_at KW_PART (" " ++ render_frame f ++ r) = true.
Proof.
  destruct (frame_text_head f r) as [x ->].
  split; apply kw_at_hit; destruct (fst (fst f)); cbn; auto.
Qed.

(* ---- order-by items ----------------------------------------------------------------------- *)
Lemma parse_render_orderby o : ord_ok o = true -> parse_orderby (render_orderby o) = o.
Proof.
  destruct o as [t [d|]]; unfold ord_ok, render_orderby, parse_orderby; cbn [fst snd]; intros H.
  - destruct d; cbn [order_text].
    + change (" " ++ "ASC") with " ASC". rewrite strip_suffix_app. reflexivity.
    + change (" " ++ "DESC") with " DESC". rewrite (strip_suffix_long " ASC" " DESC" t) by (cbn; auto; lia). rewrite strip_suffix_app. reflexivity.
  - repeat (apply andb_prop in H as [H ?]).
    destruct (strip_suffix " ASC" t); [discriminate|]. destruct (strip_suffix " DESC" t); [discriminate|]. reflexivity.
Qed.

Lemma follows_space kws x : delim_ok kws " " = true -> follows kws (String " " x).
Proof. intros H. right. eauto. Qed.

Lemma ord_ok_parts o : ord_ok o = true -> top 0 (fst o) = true /\ kwfree KW_ORD 0 (fst o) = true.
Proof.
  unfold ord_ok. intros H. apply andb_prop in H as [H _]. apply andb_prop in H as [H _].
  apply andb_prop in H as [H _]. apply andb_prop in H as [H1 H2]. auto.
Qed.
Lemma orderby_piece_ok o : ord_ok o = true -> piece_ok KW_ORD (render_orderby o) = true.
Proof.
  intros H. destruct (ord_ok_parts o H) as [H1 H2].
  destruct o as [t [d|]]; unfold render_orderby, piece_ok; cbn [fst snd] in *.
  - apply andb_true_intro; split.
    + apply top_app; auto. destruct d; reflexivity.
    + apply kwfree_app; auto; try reflexivity; try (destruct d; reflexivity). apply follows_space. reflexivity.
  - rewrite H1, H2. reflexivity.
Qed.

(* ---- the window --------------------------------------------------------------------------- *)
(* right-nested view of the text inside OVER( ... ) followed by x *)
Definition frame_tail (f : option frame) (x : string) : string :=
  match f with None => x | Some f => " " ++ render_frame f ++ x end.
Definition ord_tail (has_p : bool) (os : list (string * option order)) (x : string) : string :=
  match os with
  | [] => x
  | _ => (if has_p then " ORDER BY " else "ORDER BY ") ++ join "," (map render_orderby os) ++ x
  end.
Definition part_tail (ps : list string) (x : string) : string :=
  match ps with [] => x | _ => "PARTITION BY " ++ join "," ps ++ x end.
Definition has_items {A} (l : list A) : bool := match l with [] => false | _ => true end.

Lemma window_norm fd x :
  partition_sql fd ++ x =
  part_tail (fd_partition fd) (ord_tail (has_items (fd_partition fd)) (fd_orderbys fd) (frame_tail (fd_frame fd) x)).
Proof.
  unfold partition_sql, analytic_partition_sql, part_tail, ord_tail, frame_tail, has_items.
  destruct (fd_partition fd) as [|p ps], (fd_orderbys fd) as [|o os], (fd_frame fd) as [f|];
    cbn [List.app join]; rewrite ?sapp_assoc; reflexivity.
Qed.

Lemma parse_ftail_ok f rest : frame_ok f = true -> parse_ftail (frame_tail f (")" ++ rest)) = Some (f, rest).
Proof.
  unfold parse_ftail, frame_tail. intros Hok. destruct f as [f|].
  - rewrite strip_prefix_none by reflexivity.
    rewrite strip_prefix_app, parse_frame_app by exact Hok. rewrite strip_prefix_app. reflexivity.
  - rewrite strip_prefix_app. reflexivity.
Qed.

Lemma frame_tail_stops_ord f rest : stops KW_ORD (frame_tail f (")" ++ rest)).
Proof.
  destruct f as [f|]; cbn [frame_tail].
  - right. right. split; [apply frame_starts_kw|]. eexists. reflexivity.
  - right. left. eexists. reflexivity.
Qed.
Lemma frame_tail_stops_part f rest : stops KW_PART (frame_tail f (")" ++ rest)).
Proof.
  destruct f as [f|]; cbn [frame_tail].
  - right. right. split; [apply frame_starts_kw|]. eexists. reflexivity.
  - right. left. eexists. reflexivity.
Qed.

Lemma map_parse_render os : forallb ord_ok os = true -> map parse_orderby (map render_orderby os) = os.
Proof.
  induction os as [|o os IH]; intros H; [reflexivity|].
  cbn in *. apply andb_prop in H as [H1 H2]. rewrite parse_render_orderby, IH; auto.
Qed.
Lemma forallb_piece_ord os : forallb ord_ok os = true -> forallb (piece_ok KW_ORD) (map render_orderby os) = true.
Proof.
  induction os as [|o os IH]; intros H; [reflexivity|].
  cbn in *. apply andb_prop in H as [H1 H2]. rewrite orderby_piece_ok, IH; auto.
Qed.
Lemma forallb_piece_part ps : forallb part_ok ps = true -> forallb (piece_ok KW_PART) ps = true.
Proof.
  induction ps as [|p ps IH]; intros H; [reflexivity|].
  cbn in *. apply andb_prop in H as [H1 H2]. rewrite IH by auto. rewrite andb_true_r.
  unfold part_ok in H1. unfold piece_ok. repeat (apply andb_prop in H1 as [H1 ?]). rewrite H1, H0. reflexivity.
Qed.

Lemma frame_tail_no_order f rest (b : bool) :
  strip_prefix (if b then " ORDER BY " else "ORDER BY ") (frame_tail f (")" ++ rest)) = None.
Proof.
  destruct f as [[[k lo] [hi|]]|]; destruct b; try destruct k; reflexivity.
Qed.

Lemma parse_ord_ok has_p os f rest : forallb ord_ok os = true ->
  parse_ord has_p (ord_tail has_p os (frame_tail f (")" ++ rest))) = (os, frame_tail f (")" ++ rest)).
Proof.
  intros H. unfold parse_ord, ord_tail. destruct os as [|o os'].
  - rewrite frame_tail_no_order. reflexivity.
  - rewrite strip_prefix_app.
    rewrite (scan_list KW_ORD eq_refl eq_refl eq_refl); auto using forallb_piece_ord, frame_tail_stops_ord; [|discriminate].
    rewrite map_parse_render by exact H. reflexivity.
Qed.

Lemma ord_tail_stops_part os f rest : stops KW_PART (ord_tail true os (frame_tail f (")" ++ rest))).
Proof.
  destruct os as [|o os']; cbn [ord_tail]; [apply frame_tail_stops_part|].
  right. right. split; [reflexivity|]. eexists. reflexivity.
Qed.

Lemma no_partition_prefix os f rest :
  strip_prefix "PARTITION BY " (ord_tail false os (frame_tail f (")" ++ rest))) = None.
Proof.
  destruct os as [|o os']; cbn [ord_tail]; [|reflexivity].
  destruct f as [[[k lo] [hi|]]|]; try destruct k; reflexivity.
Qed.

Lemma parse_part_ok ps os f rest : forallb part_ok ps = true ->
  parse_part (part_tail ps (ord_tail (has_items ps) os (frame_tail f (")" ++ rest)))) =
  (has_items ps, ps, ord_tail (has_items ps) os (frame_tail f (")" ++ rest))).
Proof.
  intros H. unfold parse_part, part_tail. destruct ps as [|p ps'].
  - cbn [has_items]. rewrite no_partition_prefix. reflexivity.
  - cbn [has_items]. rewrite strip_prefix_app.
    rewrite (scan_list KW_PART eq_refl eq_refl eq_refl); auto using forallb_piece_part, ord_tail_stops_part. discriminate.
Qed.

Lemma parse_window_ok fd rest :
  forallb part_ok (fd_partition fd) = true -> forallb ord_ok (fd_orderbys fd) = true -> frame_ok (fd_frame fd) = true ->
  parse_window (partition_sql fd ++ ")" ++ rest) =
  Some ({| wa_partition := fd_partition fd; wa_order := fd_orderbys fd; wa_frame := fd_frame fd |}, rest).
Proof.
  intros Hp Ho Hf. rewrite window_norm. unfold parse_window.
  rewrite parse_part_ok by exact Hp. rewrite parse_ord_ok by exact Ho. rewrite parse_ftail_ok by exact Hf. reflexivity.
Qed.

(* ---- single opaque texts (special clause, filter criterion) ------------------------------- *)
Lemma parse_single_ok c rest : top 0 c = true -> parse_single (c ++ ")" ++ rest) = Some (c, rest).
Proof.
  intros H. unfold parse_single.
  pose proof (scan_list [] eq_refl eq_refl eq_refl [c] (")" ++ rest)) as E. cbn [join] in E.
  rewrite E.
  - rewrite strip_prefix_app. reflexivity.
  - discriminate.
  - cbn. unfold piece_ok. rewrite H, kwfree_nil. reflexivity.
  - right. left. eexists. reflexivity.
Qed.

Lemma top_filters_text fs : fs <> [] -> forallb filter_ok fs = true -> top 0 (filters_text fs) = true.
Proof.
  intros Hne H.
  assert (J : top 0 (join " AND " (map crit_in_and fs)) = true).
  { apply top_join; [reflexivity|]. clear Hne. induction fs as [|c fs IH]; [reflexivity|].
    cbn in *. apply andb_prop in H as [H1 H2]. rewrite (IH H2), andb_true_r.
    unfold crit_in_and, filter_ok in *. destruct (fst c); [|exact H1]. apply top_paren. apply top_bal. exact H1. }
  unfold filters_text. destruct fs as [|c [|c' fs]]; [congruence| |exact J].
  cbn in H. apply andb_prop in H as [H _]. exact H.
Qed.

(* ---- the whole call ------------------------------------------------------------------------ *)
(* right-nested view of what Function.get_sql writes *)
Definition dpre (fd : func_desc) : string := if fd_distinct fd then "DISTINCT " else "".
Definition sp_suffix (fd : func_desc) : string :=
  if truthy_ostr (fd_special fd) then " " ++ ostr (fd_special fd) else "".
Definition filter_part (fd : func_desc) : string :=
  if fd_include_filter fd then " FILTER(WHERE " ++ filters_text (fd_filters fd) ++ ")" else "".
Definition over_part (fd : func_desc) : string :=
  if fd_include_over fd then " OVER(" ++ partition_sql fd ++ ")" else "".
Definition tail_part (t : option string) : string := match t with None => "" | Some x => " " ++ x end.
Definition call_text (fd : func_desc) (args : list string) : string :=
  fd_name fd ++ "(" ++ dpre fd ++ join "," args ++ sp_suffix fd ++ ")" ++ filter_part fd ++ over_part fd.
Definition schema_part (fd : func_desc) : string := match fd_schema fd with Some sc => sc ++ "." | None => "" end.

Lemma function_sql_norm fd args :
  fd_bare fd = false -> (fd_include_filter fd = true -> fd_filters fd <> []) ->
  function_sql fd args = Ok (call_text fd args).
Proof.
  intros Hb Hf. unfold function_sql, analytic_function_sql, aggregate_function_sql, filter_sql, base_function_sql,
    call_text, dpre, sp_suffix, filter_part, over_part.
  rewrite Hb.
  destruct (fd_include_filter fd).
  - destruct (fd_filters fd) as [|f fs] eqn:EF; [exfalso; apply Hf; auto|].
    destruct (fd_include_over fd), (fd_distinct fd); rewrite ?sapp_assoc; rewrite ?splice_after_paren;
      rewrite ?sapp_nil_r; reflexivity.
  - destruct (fd_include_over fd), (fd_distinct fd); rewrite ?sapp_assoc; rewrite ?splice_after_paren;
      rewrite ?sapp_nil_r; reflexivity.
Qed.

Lemma get_sql_norm o fd args :
  fd_bare fd = false -> (fd_include_filter fd = true -> fd_filters fd <> []) ->
  get_sql o fd args = Ok (schema_part fd ++ call_text fd args ++ tail_part (tail_text o fd)).
Proof.
  intros Hb Hf. unfold get_sql. rewrite (function_sql_norm fd args Hb Hf).
  unfold schema_part, tail_part, tail_text, fmt_alias.
  destruct (fd_schema fd) as [sc|]; destruct (ro_with_alias o); try destruct (fd_alias fd) as [a|];
    try destruct (ro_as_keyword o); cbn [append]; rewrite ?sapp_assoc, ?sapp_nil_r; reflexivity.
Qed.

(* stage lemmas *)
Lemma parse_qname_ok fd : name_ok (fd_name fd) = true -> schema_ok (fd_schema fd) = true ->
  parse_qname (schema_part fd ++ fd_name fd) = (fd_schema fd, fd_name fd)
  /\ nochar "(" (schema_part fd ++ fd_name fd) = true.
Proof.
  unfold name_ok, schema_ok, schema_part, parse_qname. intros Hn Hs.
  apply andb_prop in Hn as [Hn Hdot]. apply andb_prop in Hn as [Hn Hrp]. apply andb_prop in Hn as [Hne Hlp].
  destruct (fd_schema fd) as [sc|].
  - apply andb_prop in Hs as [Hs1 Hs2]. split.
    + rewrite sapp_assoc. change ("." ++ fd_name fd) with (String "." (fd_name fd)).
      rewrite split_last_app by exact Hdot. reflexivity.
    + rewrite !nochar_app, Hs1, Hlp. reflexivity.
  - cbn [append]. rewrite split_last_none by exact Hdot. auto.
Qed.

Lemma arg_ok_parts a : arg_ok a = true ->
  top 0 a = true /\ kwfree KW_SPECIAL 0 a = true /\ prefix "DISTINCT " (a ++ " ") = false /\ a <> "".
Proof.
  unfold arg_ok. intros H. apply andb_prop in H as [H H4]. apply andb_prop in H as [H H3]. apply andb_prop in H as [H1 H2].
  apply negb_true_iff in H3. repeat split; auto. intros ->. discriminate.
Qed.

(* what follows the argument list starts with ")" or " " *)
Definition after_args (fd : func_desc) (Y : string) : string := sp_suffix fd ++ ")" ++ Y.

Lemma after_args_head fd Y : exists dl X', after_args fd Y = String dl X' /\ (dl = ")"%char \/ dl = " "%char).
Proof.
  unfold after_args, sp_suffix. destruct (truthy_ostr (fd_special fd)).
  - eexists. eexists. split; [reflexivity|]. auto.
  - eexists. eexists. split; [reflexivity|]. auto.
Qed.

Lemma join_head a l X dl X' : X = String dl X' -> (dl = ")"%char \/ dl = " "%char) ->
  exists dl2 Z, join "," (a :: l) ++ X = a ++ String dl2 Z /\ (dl2 = ")"%char \/ dl2 = " "%char \/ dl2 = ","%char).
Proof.
  intros -> Hd. destruct l as [|b l].
  - cbn [join]. exists dl, X'. split; [reflexivity|]. tauto.
  - change (join "," (a :: b :: l)) with (a ++ "," ++ join "," (b :: l)). rewrite sapp_assoc.
    exists ","%char. eexists. split; [reflexivity|]. tauto.
Qed.

Lemma parse_distinct_ok fd args Y : forallb arg_ok args = true ->
  parse_distinct (dpre fd ++ join "," args ++ after_args fd Y) = (fd_distinct fd, join "," args ++ after_args fd Y).
Proof.
  intros Ha. unfold parse_distinct, dpre. destruct (fd_distinct fd).
  - rewrite strip_prefix_app. reflexivity.
  - cbn [append]. rewrite strip_prefix_none; [reflexivity|].
    destruct (after_args_head fd Y) as [dl [X' [EX Hd]]].
    destruct args as [|a l].
    + cbn [join append]. rewrite EX. destruct Hd as [->| ->]; reflexivity.
    + cbn in Ha. apply andb_prop in Ha as [Ha _]. destruct (arg_ok_parts a Ha) as [_ [_ [Hd3 _]]].
      destruct (join_head a l _ dl X' EX Hd) as [dl2 [Z [-> Hd2]]].
      destruct (prefix "DISTINCT " (a ++ String dl2 Z)) eqn:E; [|reflexivity].
      change "DISTINCT " with ("DISTINCT" ++ " ") in E.
      apply prefix_delim in E; [change ("DISTINCT" ++ " ") with "DISTINCT " in E; congruence|].
      destruct Hd2 as [->|[->| ->]]; reflexivity.
Qed.

Lemma after_args_stops fd Y : special_ok (fd_special fd) = true -> stops KW_SPECIAL (after_args fd Y).
Proof.
  unfold after_args, sp_suffix, special_ok. intros H. destruct (fd_special fd) as [[|c sp]|]; cbn [truthy_ostr].
  - right. left. eexists. reflexivity.
  - apply andb_prop in H as [_ H]. right. right. split.
    + cbn [ostr odefault]. apply kw_at_mono. exact H.
    + eexists. reflexivity.
  - right. left. eexists. reflexivity.
Qed.

Lemma forallb_piece_args args : forallb arg_ok args = true -> forallb (piece_ok KW_SPECIAL) args = true.
Proof.
  induction args as [|a l IH]; intros H; [reflexivity|].
  cbn in *. apply andb_prop in H as [H1 H2]. rewrite IH by auto. rewrite andb_true_r.
  destruct (arg_ok_parts a H1) as [A [B _]]. unfold piece_ok. rewrite A, B. reflexivity.
Qed.

Lemma parse_args_ok fd args Y : special_ok (fd_special fd) = true -> forallb arg_ok args = true ->
  parse_args (join "," args ++ after_args fd Y) = (args, after_args fd Y).
Proof.
  intros Hs Ha. unfold parse_args. destruct args as [|a l].
  - pose proof (scan_list KW_SPECIAL eq_refl eq_refl eq_refl [""] (after_args fd Y)) as E.
    cbn [join] in *. rewrite E; auto using after_args_stops. discriminate.
  - rewrite (scan_list KW_SPECIAL eq_refl eq_refl eq_refl); auto using after_args_stops, forallb_piece_args; [|discriminate].
    cbn in Ha. apply andb_prop in Ha as [Ha _]. destruct (arg_ok_parts a Ha) as [_ [_ [_ Hne]]].
    destruct a; [congruence|]. reflexivity.
Qed.

Lemma parse_special_ok fd Y : special_ok (fd_special fd) = true ->
  parse_special (after_args fd Y) = Some (if truthy_ostr (fd_special fd) then fd_special fd else None, Y).
Proof.
  unfold after_args, sp_suffix, special_ok, parse_special. intros H.
  destruct (fd_special fd) as [[|c sp]|]; cbn [truthy_ostr].
  - change ("" ++ ")" ++ Y) with (")" ++ Y). rewrite strip_prefix_app. reflexivity.
  - apply andb_prop in H as [H _]. cbn [ostr odefault].
    rewrite strip_prefix_none by reflexivity. rewrite sapp_assoc, strip_prefix_app.
    rewrite parse_single_ok by exact H. reflexivity.
  - change ("" ++ ")" ++ Y) with (")" ++ Y). rewrite strip_prefix_app. reflexivity.
Qed.

Lemma tail_part_no_clause t : tail_ok t = true ->
  strip_prefix " FILTER(WHERE " (tail_part t) = None /\ strip_prefix " OVER(" (tail_part t) = None.
Proof.
  destruct t as [x|]; cbn [tail_ok tail_part]; [|split; reflexivity].
  intros H. apply andb_prop in H as [H1 H2]. apply negb_true_iff in H1, H2.
  split; apply strip_prefix_none.
  - change (" FILTER(WHERE ") with (String " " "FILTER(WHERE "). change (" " ++ x) with (String " " x).
    rewrite prefix_cons, H1. reflexivity.
  - change (" OVER(") with (String " " "OVER("). change (" " ++ x) with (String " " x).
    rewrite prefix_cons, H2. reflexivity.
Qed.

Lemma parse_tail_ok t : parse_tail (tail_part t) = Some t.
Proof. destruct t; reflexivity. Qed.

Lemma parse_over_ok fd t :
  forallb part_ok (fd_partition fd) = true -> forallb ord_ok (fd_orderbys fd) = true -> frame_ok (fd_frame fd) = true ->
  tail_ok t = true ->
  parse_over (over_part fd ++ tail_part t) =
  Some (if fd_include_over fd
        then Some {| wa_partition := fd_partition fd; wa_order := fd_orderbys fd; wa_frame := fd_frame fd |}
        else None, tail_part t).
Proof.
  intros Hp Ho Hfr Ht. unfold parse_over, over_part. destruct (fd_include_over fd).
  - rewrite !sapp_assoc, strip_prefix_app. rewrite parse_window_ok by assumption. reflexivity.
  - cbn [append]. destruct (tail_part_no_clause t Ht) as [_ ->]. reflexivity.
Qed.

Lemma parse_filter_ok fd t :
  (fd_include_filter fd = true -> fd_filters fd <> []) -> forallb filter_ok (fd_filters fd) = true -> tail_ok t = true ->
  parse_filter (filter_part fd ++ over_part fd ++ tail_part t) =
  Some (if fd_include_filter fd then Some (filters_text (fd_filters fd)) else None, over_part fd ++ tail_part t).
Proof.
  intros Hne Hf Ht. unfold parse_filter, filter_part. destruct (fd_include_filter fd).
  - rewrite !sapp_assoc, strip_prefix_app. rewrite parse_single_ok; [reflexivity|].
    apply top_filters_text; auto.
  - cbn [append]. rewrite strip_prefix_none; [reflexivity|].
    unfold over_part. destruct (fd_include_over fd); [reflexivity|]. cbn [append].
    destruct (tail_part_no_clause t Ht) as [E _]. unfold strip_prefix in E.
    destruct (prefix " FILTER(WHERE " (tail_part t)); [discriminate|reflexivity].
Qed.

Lemma texts_ok_parts fd : texts_ok fd = true ->
  name_ok (fd_name fd) = true /\ schema_ok (fd_schema fd) = true /\ special_ok (fd_special fd) = true
  /\ forallb filter_ok (fd_filters fd) = true /\ forallb part_ok (fd_partition fd) = true
  /\ forallb ord_ok (fd_orderbys fd) = true /\ fd_bare fd = false.
Proof.
  unfold texts_ok. intros H.
  apply andb_prop in H as [H H7]. apply andb_prop in H as [H H8]. apply andb_prop in H as [H H6]. apply andb_prop in H as [H H5].
  apply andb_prop in H as [H H4]. apply andb_prop in H as [H H3]. apply andb_prop in H as [H1 H2].
  apply negb_true_iff in H7. repeat split; assumption.
Qed.
Lemma texts_ok_frame fd : texts_ok fd = true -> frame_ok (fd_frame fd) = true.
Proof.
  unfold texts_ok. intros H. apply andb_prop in H as [H _]. apply andb_prop in H as [_ H]. exact H.
Qed.
Lemma combo_ok_parts fd : combo_ok fd = true ->
  (fd_include_filter fd = true -> fd_filters fd <> []) /\ (is_some (fd_frame fd) = true -> fd_include_over fd = true).
Proof.
  unfold combo_ok. intros H. apply andb_prop in H as [H1 H2]. split.
  - intros E. rewrite E in H1. cbn in H1. destruct (fd_filters fd); [discriminate|discriminate].
  - intros E. rewrite E in H2. cbn in H2. exact H2.
Qed.

(* the main round trip *)
Theorem render_parse o fd args :
  texts_ok fd = true -> combo_ok fd = true -> forallb arg_ok args = true -> tail_ok (tail_text o fd) = true ->
  exists s, get_sql o fd args = Ok s /\ parse_call s = Some (expected_ast o fd args).
Proof.
  intros Ht Hc Ha Htl.
  destruct (texts_ok_parts fd Ht) as [Hn [Hsc [Hsp [Hfl [Hpa [Hor Hb]]]]]].
  destruct (combo_ok_parts fd Hc) as [Hne Hfr]. pose proof (texts_ok_frame fd Ht) as Hfok.
  eexists. split; [apply get_sql_norm; assumption|].
  destruct (parse_qname_ok fd Hn Hsc) as [Hq Hnp].
  replace (schema_part fd ++ call_text fd args ++ tail_part (tail_text o fd))
    with ((schema_part fd ++ fd_name fd) ++
          String "(" (dpre fd ++ join "," args ++ after_args fd (filter_part fd ++ over_part fd ++ tail_part (tail_text o fd))))
    by (unfold call_text, after_args; rewrite !sapp_assoc; reflexivity).
  unfold parse_call.
  rewrite split_char_app by exact Hnp. rewrite Hq.
  rewrite parse_distinct_ok by exact Ha.
  rewrite parse_args_ok by assumption.
  rewrite parse_special_ok by exact Hsp.
  rewrite parse_filter_ok by assumption.
  rewrite parse_over_ok by assumption.
  rewrite parse_tail_ok.
  unfold expected_ast. f_equal. f_equal.
  destruct (fd_include_over fd) eqn:E1; [reflexivity|].
  destruct (is_some (fd_frame fd)) eqn:E2; [|reflexivity]. specialize (Hfr eq_refl). discriminate.
Qed.

(* balanced parentheses of the call text (schema prefix included, alias excluded) *)
Lemma bal_join sep : bal 0 sep = true -> forall l, forallb (bal 0) l = true -> bal 0 (join sep l) = true.
Proof.
  intros Hs. induction l as [|a l IH]; intros H; [reflexivity|].
  cbn in H. apply andb_prop in H as [H1 H2]. destruct l as [|b l]; [exact H1|].
  change (join sep (a :: b :: l)) with (a ++ sep ++ join sep (b :: l)).
  apply bal_app; [exact H1|]. apply bal_app; [exact Hs|]. apply IH. exact H2.
Qed.
Lemma forallb_impl {A} (P Q : A -> bool) l : (forall x, P x = true -> Q x = true) -> forallb P l = true -> forallb Q l = true.
Proof.
  intros I. induction l as [|a l IH]; intros H; [reflexivity|].
  cbn in *. apply andb_prop in H as [H1 H2]. rewrite (I a H1), IH; auto.
Qed.

Lemma bal_numeric s : numeric s = true -> bal 0 s = true.
Proof.
  intros H. apply bal_nochar.
  - induction s as [|c s IH]; [reflexivity|]. cbn [numeric] in H. apply andb_prop in H as [H1 H2].
    cbn [nochar]. rewrite (IH H2), andb_true_r. destruct (Ascii.eqb c "(") eqn:E; [|reflexivity].
    apply Ascii.eqb_eq in E. subst. vm_compute in H1. discriminate.
  - induction s as [|c s IH]; [reflexivity|]. cbn [numeric] in H. apply andb_prop in H as [H1 H2].
    cbn [nochar]. rewrite (IH H2), andb_true_r. destruct (Ascii.eqb c ")") eqn:E; [|reflexivity].
    apply Ascii.eqb_eq in E. subst. vm_compute in H1. discriminate.
Qed.
Lemma bal_bound b : bound_ok b = true -> bal 0 (render_bound b) = true.
Proof.
  destruct b as [|d [[n|s]|]]; intros Hok; [reflexivity| | |destruct d; reflexivity];
    unfold render_bound, render_edge; cbn [fst snd offset_text]; (apply bal_app; [|destruct d; reflexivity]).
  - apply bal_numeric, numeric_Z.
  - cbn in Hok. destruct (raw_ok_parts s Hok) as [_ [_ [_ [A B]]]]. apply bal_nochar; assumption.
Qed.
Lemma bal_frame f : frame_ok (Some f) = true -> bal 0 (render_frame f) = true.
Proof.
  destruct f as [[k lo] [hi|]]; unfold render_frame; cbn [frame_ok]; intros Hok; apply andb_prop in Hok as [Hlo Hhi].
  - apply bal_app; [destruct k; reflexivity|]. apply (bal_app " BETWEEN "); [reflexivity|].
    apply bal_app; [apply bal_bound; exact Hlo|]. apply (bal_app " AND "); [reflexivity|apply bal_bound; exact Hhi].
  - apply bal_app; [destruct k; reflexivity|]. apply (bal_app " "); [reflexivity|apply bal_bound; exact Hlo].
Qed.
Lemma bal_orderby o : ord_ok o = true -> bal 0 (render_orderby o) = true.
Proof.
  intros H. destruct (ord_ok_parts o H) as [H1 _]. apply top_bal in H1.
  destruct o as [t [d|]]; unfold render_orderby; cbn [fst snd] in *; [|exact H1].
  apply bal_app; [exact H1|]. destruct d; reflexivity.
Qed.

Lemma bal_partition_sql fd :
  forallb part_ok (fd_partition fd) = true -> forallb ord_ok (fd_orderbys fd) = true -> frame_ok (fd_frame fd) = true ->
  bal 0 (partition_sql fd) = true.
Proof.
  intros Hp Ho Hfok.
  assert (P : bal 0 (join "," (fd_partition fd)) = true).
  { apply bal_join; [reflexivity|]. eapply forallb_impl; [|exact Hp]. intros x Hx. unfold part_ok in Hx.
    apply andb_prop in Hx as [Hx _]. apply andb_prop in Hx as [Hx _]. apply top_bal. exact Hx. }
  assert (O : bal 0 (join "," (map render_orderby (fd_orderbys fd))) = true).
  { apply bal_join; [reflexivity|]. clear P. induction (fd_orderbys fd) as [|o os IH]; [reflexivity|].
    cbn in *. apply andb_prop in Ho as [H1 H2]. rewrite bal_orderby, IH; auto. }
  assert (A : bal 0 (analytic_partition_sql fd) = true).
  { unfold analytic_partition_sql. destruct (fd_partition fd) as [|p ps], (fd_orderbys fd) as [|o os]; cbn [List.app join].
    - reflexivity.
    - apply (bal_app "ORDER BY "); [reflexivity|exact O].
    - apply (bal_app "PARTITION BY "); [reflexivity|exact P].
    - apply bal_app; [apply (bal_app "PARTITION BY "); [reflexivity|exact P]|].
      apply (bal_app " "); [reflexivity|]. apply (bal_app "ORDER BY "); [reflexivity|exact O]. }
  unfold partition_sql. destruct (fd_frame fd) as [f|]; [|exact A].
  apply bal_app; [exact A|]. apply (bal_app " "); [reflexivity|apply bal_frame; exact Hfok].
Qed.

Theorem render_balanced fd args :
  texts_ok fd = true -> combo_ok fd = true -> forallb arg_ok args = true ->
  balanced (schema_part fd ++ call_text fd args) = true.
Proof.
  intros Ht Hc Ha.
  destruct (texts_ok_parts fd Ht) as [Hn [Hsc [Hsp [Hfl [Hpa [Hor Hb]]]]]].
  destruct (combo_ok_parts fd Hc) as [Hne Hfr]. pose proof (texts_ok_frame fd Ht) as Hfok.
  unfold balanced. apply bal_app.
  { unfold schema_part, schema_ok in *. destruct (fd_schema fd) as [sc|]; [|reflexivity].
    apply andb_prop in Hsc as [S1 S2]. apply bal_app; [apply bal_nochar; assumption|reflexivity]. }
  unfold call_text. apply bal_app.
  { unfold name_ok in Hn. apply andb_prop in Hn as [Hn _]. apply andb_prop in Hn as [Hn Hrp]. apply andb_prop in Hn as [_ Hlp].
    apply bal_nochar; assumption. }
  assert (I : bal 0 (dpre fd ++ join "," args ++ sp_suffix fd) = true).
  { apply bal_app; [unfold dpre; destruct (fd_distinct fd); reflexivity|]. apply bal_app.
    - apply bal_join; [reflexivity|]. eapply forallb_impl; [|exact Ha]. intros a Hx.
      destruct (arg_ok_parts a Hx) as [Hx1 _]. apply top_bal. exact Hx1.
    - unfold sp_suffix, special_ok in *. destruct (fd_special fd) as [[|c sp]|]; cbn [truthy_ostr]; try reflexivity.
      apply andb_prop in Hsp as [Hsp _]. apply (bal_app " "); [reflexivity|]. apply top_bal. exact Hsp. }
  pose proof (bal_paren _ I) as J.
  replace ("(" ++ dpre fd ++ join "," args ++ sp_suffix fd ++ ")" ++ filter_part fd ++ over_part fd)
    with (("(" ++ (dpre fd ++ join "," args ++ sp_suffix fd) ++ ")") ++ filter_part fd ++ over_part fd)
    by (rewrite !sapp_assoc; reflexivity).
  apply bal_app; [exact J|].
  apply bal_app.
  - unfold filter_part. destruct (fd_include_filter fd); [|reflexivity].
    pose proof (bal_paren ("WHERE " ++ filters_text (fd_filters fd))) as K.
    replace (" FILTER(WHERE " ++ filters_text (fd_filters fd) ++ ")")
      with (" FILTER" ++ "(" ++ ("WHERE " ++ filters_text (fd_filters fd)) ++ ")") by (rewrite !sapp_assoc; reflexivity).
    apply (bal_app " FILTER"); [reflexivity|]. apply K.
    apply (bal_app "WHERE "); [reflexivity|]. apply top_bal. apply top_filters_text; auto.
  - unfold over_part. destruct (fd_include_over fd); [|reflexivity].
    change (" OVER(" ++ partition_sql fd ++ ")") with (" OVER" ++ "(" ++ partition_sql fd ++ ")").
    apply (bal_app " OVER"); [reflexivity|]. apply bal_paren. apply bal_partition_sql; assumption.
Qed.

(* ---- the clause combinations that do not render what was asked (faithful to the code) ------- *)
Lemma empty_filter_raises fd args : fd_bare fd = false -> fd_include_filter fd = true -> fd_filters fd = [] ->
  function_sql fd args = Err "TypeError".
Proof.
  intros Hb Hi Hf. unfold function_sql, analytic_function_sql, aggregate_function_sql, filter_sql.
  rewrite Hb, Hi, Hf. reflexivity.
Qed.

Lemma custom_call_declared ps args : List.length args = List.length ps -> custom_call (Some ps) args = Ok args.
Proof. intros H. unfold custom_call. rewrite H, Nat.eqb_refl. reflexivity. Qed.
Lemma custom_call_mismatch ps args : List.length args <> List.length ps -> custom_call (Some ps) args = Err "FunctionException".
Proof. intros H. unfold custom_call. apply Nat.eqb_neq in H. rewrite H. reflexivity. Qed.
