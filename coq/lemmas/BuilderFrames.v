(* BuilderFrames.v -- frame lemmas for Builder.step: every call writes only [writes (kind_of c)] and its result
   depends only on [deps (kind_of c)]; state extensionality; footprint table. *)
From PV Require Import Base Builder.

Section Frames.
Variable term : Type.
Variable fields_tables : term -> list (option tbl).
Variable find_tables : term -> list (option tbl).
Variable and_ : term -> term -> term.
Variable is_empty : term -> bool.
Variable field_of : string -> option tbl -> term.
Variable wrap_int : Z -> term.
Variable star : term.
Variable is_star : term -> bool.
Variable sel_table : term -> option (option tbl).
Variable mk_rollup : list term -> term.
Variable rollup_args : term -> option (list term).

Notation stp := (step term fields_tables find_tables and_ is_empty field_of wrap_int star is_star sel_table mk_rollup rollup_args).

Lemma qstate_ext : forall a b : qstate term, (forall x, eq_on term x a b) -> a = b.
Proof.
  intros a b H.
  pose proof (H S_from) as H_from; simpl in H_from.
  pose proof (H S_insert_table) as H_insert_table; simpl in H_insert_table.
  pose proof (H S_update_table) as H_update_table; simpl in H_update_table.
  pose proof (H S_with) as H_with; simpl in H_with.
  pose proof (H S_selects) as H_selects; simpl in H_selects.
  pose proof (H S_select_star) as H_select_star; simpl in H_select_star.
  pose proof (H S_select_star_tables) as H_select_star_tables; simpl in H_select_star_tables.
  pose proof (H S_joins) as H_joins; simpl in H_joins.
  pose proof (H S_wheres) as H_wheres; simpl in H_wheres.
  pose proof (H S_prewheres) as H_prewheres; simpl in H_prewheres.
  pose proof (H S_havings) as H_havings; simpl in H_havings.
  pose proof (H S_groupbys) as H_groupbys; simpl in H_groupbys.
  pose proof (H S_orderbys) as H_orderbys; simpl in H_orderbys.
  pose proof (H S_limit) as H_limit; simpl in H_limit.
  pose proof (H S_offset) as H_offset; simpl in H_offset.
  pose proof (H S_distinct) as H_distinct; simpl in H_distinct.
  pose proof (H S_for_update) as H_for_update; simpl in H_for_update.
  pose proof (H S_for_update_nowait) as H_for_update_nowait; simpl in H_for_update_nowait.
  pose proof (H S_for_update_skip_locked) as H_for_update_skip_locked; simpl in H_for_update_skip_locked.
  pose proof (H S_for_update_of) as H_for_update_of; simpl in H_for_update_of.
  pose proof (H S_force_indexes) as H_force_indexes; simpl in H_force_indexes.
  pose proof (H S_use_indexes) as H_use_indexes; simpl in H_use_indexes.
  pose proof (H S_updates) as H_updates; simpl in H_updates.
  pose proof (H S_columns) as H_columns; simpl in H_columns.
  pose proof (H S_values) as H_values; simpl in H_values.
  pose proof (H S_replace) as H_replace; simpl in H_replace.
  pose proof (H S_select_into) as H_select_into; simpl in H_select_into.
  pose proof (H S_subquery_count) as H_subquery_count; simpl in H_subquery_count.
  pose proof (H S_foreign_table) as H_foreign_table; simpl in H_foreign_table.
  pose proof (H S_mysql_rollup) as H_mysql_rollup; simpl in H_mysql_rollup.
  pose proof (H S_hint) as H_hint; simpl in H_hint.
  pose proof (H S_modifiers) as H_modifiers; simpl in H_modifiers.
  pose proof (H S_final) as H_final; simpl in H_final.
  pose proof (H S_sample) as H_sample; simpl in H_sample.
  pose proof (H S_sample_offset) as H_sample_offset; simpl in H_sample_offset.
  pose proof (H S_limit_by) as H_limit_by; simpl in H_limit_by.
  pose proof (H S_distinct_on) as H_distinct_on; simpl in H_distinct_on.
  pose proof (H S_insert_or_replace) as H_insert_or_replace; simpl in H_insert_or_replace.
  pose proof (H S_top) as H_top; simpl in H_top.
  pose proof (H S_top_percent) as H_top_percent; simpl in H_top_percent.
  pose proof (H S_top_with_ties) as H_top_with_ties; simpl in H_top_with_ties.
  destruct a, b; simpl in *; subst; reflexivity.
Qed.

Lemma slot_eqb_refl : forall x, slot_eqb x x = true.
Proof. destruct x; reflexivity. Qed.
Lemma slot_eqb_eq : forall x y, slot_eqb x y = true -> x = y.
Proof. destruct x, y; simpl; intro H; try discriminate; reflexivity. Qed.

Lemma eq_on_refl : forall x (s : qstate term), eq_on term x s s.
Proof. destruct x; reflexivity. Qed.
Lemma eq_on_sym : forall x (a b : qstate term), eq_on term x a b -> eq_on term x b a.
Proof. destruct x; simpl; intros; symmetry; assumption. Qed.
Lemma eq_on_trans : forall x (a b c : qstate term), eq_on term x a b -> eq_on term x b c -> eq_on term x a c.
Proof. destruct x; simpl; intros a b c H1 H2; rewrite H1; exact H2. Qed.

Ltac destr_matches H :=
  repeat match type of H with
         | context [match ?e with _ => _ end] => destruct e eqn:?
         end.

(* a call writes only the slots of its kind *)
Lemma step_writes : forall c s s', stp s c = Ok s' ->
  forall x, smem x (writes (kind_of term c)) = false -> eq_on term x s s'.
Proof.
  intros c s s' H x Hx.
  destruct c; cbn [step] in H; unfold bind in H; destr_matches H; try discriminate;
    inversion H; subst; clear H; destruct x; simpl in Hx; try discriminate; reflexivity.
Qed.

Ltac get H x :=
  let h := fresh "E" in
  (assert (h := H x); simpl in h; first [ specialize (h eq_refl) | clear h ]).
Ltac get_all H :=
  get H S_from; get H S_insert_table; get H S_update_table; get H S_with; get H S_selects; get H S_select_star;
  get H S_select_star_tables; get H S_joins; get H S_wheres; get H S_prewheres; get H S_havings; get H S_groupbys;
  get H S_orderbys; get H S_limit; get H S_offset; get H S_distinct; get H S_for_update; get H S_for_update_nowait;
  get H S_for_update_skip_locked; get H S_for_update_of; get H S_force_indexes; get H S_use_indexes; get H S_updates;
  get H S_columns; get H S_values; get H S_replace; get H S_select_into; get H S_subquery_count; get H S_foreign_table;
  get H S_mysql_rollup; get H S_hint; get H S_modifiers; get H S_final; get H S_sample; get H S_sample_offset;
  get H S_limit_by; get H S_distinct_on; get H S_insert_or_replace; get H S_top; get H S_top_percent;
  get H S_top_with_ties.
Ltac rew_all := repeat match goal with E : ?a = ?b |- _ => rewrite E; clear E end.

(* outcome of a call = f(slots in deps): same error, or results equal on the written slots *)
Definition agree_out (k : kind) (r1 r2 : res (qstate term)) : Prop :=
  match r1, r2 with
  | Ok a, Ok b => forall x, smem x (writes k) = true -> eq_on term x a b
  | Err e, Err f => e = f
  | _, _ => False
  end.

Lemma step_reads : forall c s1 s2,
  (forall x, smem x (deps (kind_of term c)) = true -> eq_on term x s1 s2) ->
  agree_out (kind_of term c) (stp s1 c) (stp s2 c).
Proof.
  intros c s1 s2 H.
  destruct c; get_all H; cbn [step kind_of]; rew_all; unfold agree_out;
    repeat match goal with
           | |- context [bind ?e _] => destruct e eqn:?; cbn [bind]
           | |- context [let '(_, _) := ?e in _] => destruct e eqn:?
           | |- context [if ?e then _ else _] => destruct e eqn:?
           | |- context [match q_insert_table _ ?s with _ => _ end] => destruct (q_insert_table _ s) eqn:?
           | |- context [match top_value ?v with _ => _ end] => destruct (top_value v) eqn:?
           | a : option (bool * bool * list string) |- _ => destruct a as [[[? ?] ?]|]
           end; try reflexivity;
    intros x Hx; destruct x; simpl in Hx; try discriminate; simpl; try reflexivity; try assumption;
    first [ exact (H S_wheres eq_refl) | exact (H S_foreign_table eq_refl) | exact (H S_havings eq_refl) ].
Qed.

End Frames.

Lemma footprint_table_ok : footprint_table = true.
Proof. vm_compute. reflexivity. Qed.

Lemma footprint_cases : forall k1 k2, commuting k1 = true -> commuting k2 = true -> kind_eqb k1 k2 = false ->
  independent k1 k2 = true \/ special k1 k2 = true.
Proof.
  intros k1 k2 H1 H2 H3.
  destruct k1, k2; simpl in *; try discriminate; vm_compute; auto.
Qed.
