(* JsonLemmas.v — proofs about coq/Json.v (JSON literal on its fragment; Tuple/Array token structure). *)
From Coq Require Import Lia.
From PV Require Import Base gen.C20Table Interval Json lemmas.IntervalLemmas.

Local Open Scope string_scope.

(* ------------------------------------------------------------------------------------------ *)
(* induction principle for the nested type jvalue                                              *)
(* ------------------------------------------------------------------------------------------ *)
Section JInd.
  Variable P : jvalue -> Prop.
  Hypothesis HS : forall s, P (JStr s).
  Hypothesis HI : forall z, P (JInt z).
  Hypothesis HF : forall t, P (JFloat t).
  Hypothesis HB : forall b, P (JBool b).
  Hypothesis HN : P JNull.
  Hypothesis HL : forall l, Forall P l -> P (JList l).
  Hypothesis HD : forall kvs, Forall (fun kv => P (fst kv) /\ P (snd kv)) kvs -> P (JDict kvs).

  Fixpoint jvalue_ind2 (v : jvalue) : P v :=
    match v with
    | JStr s => HS s
    | JInt z => HI z
    | JFloat t => HF t
    | JBool b => HB b
    | JNull => HN
    | JList l =>
        HL l ((fix go (l : list jvalue) : Forall P l :=
                 match l with
                 | [] => Forall_nil _
                 | x :: r => Forall_cons _ (jvalue_ind2 x) (go r)
                 end) l)
    | JDict kvs =>
        HD kvs ((fix go (l : list (jvalue * jvalue)) : Forall (fun kv => P (fst kv) /\ P (snd kv)) l :=
                   match l with
                   | [] => Forall_nil _
                   | (k, x) :: r => Forall_cons (k, x) (conj (jvalue_ind2 k) (jvalue_ind2 x)) (go r)
                   end) kvs)
    end.
End JInd.

(* ------------------------------------------------------------------------------------------ *)
(* JSON                                                                                        *)
(* ------------------------------------------------------------------------------------------ *)
Definition item_text (kv : jvalue * jvalue) : string :=
  match kv with (k, x) => json_text k ++ ":" ++ json_text x end.
Definition item_spec (kv : jvalue * jvalue) : string :=
  match kv with (k, x) => json_key_spec k ++ ":" ++ json_spec x end.

(* with string keys the rendered text is the RFC 8259 text, whatever the strings contain *)
Lemma json_text_is_spec : forall v, jkeys v = true -> json_text v = json_spec v.
Proof.
  induction v as [s|z|t|b| |l IH|kvs IH] using jvalue_ind2; intros H; try reflexivity.
  - assert (A : map json_text l = map json_spec l).
    { induction l as [|x l IHl]; [reflexivity|].
      simpl in H. apply andb_true_iff in H as [Hx Hl]. inversion IH as [|? ? Px Pl]; subst.
      simpl. rewrite (Px Hx), (IHl Pl Hl). reflexivity. }
    simpl. rewrite A. reflexivity.
  - assert (A : map item_text kvs = map item_spec kvs).
    { induction kvs as [|[k x] kvs IHl]; [reflexivity|].
      simpl in H. apply andb_true_iff in H as [Hkx Hl]. apply andb_true_iff in Hkx as [Hk Hx].
      inversion IH as [|? ? Pkx Pl]; subst. destruct Pkx as [_ Px]. simpl in Px.
      assert (KS : json_text k = json_key_spec k) by (destruct k; try discriminate; reflexivity).
      change (map item_text ((k, x) :: kvs)) with ((json_text k ++ ":" ++ json_text x) :: map item_text kvs).
      change (map item_spec ((k, x) :: kvs)) with ((json_key_spec k ++ ":" ++ json_spec x) :: map item_spec kvs).
      rewrite KS, (Px Hx), (IHl Pl Hl). reflexivity. }
    change (json_text (JDict kvs)) with ("{" ++ join "," (map item_text kvs) ++ "}"). rewrite A. reflexivity.
Qed.

(* quote doubling is decodable for every content *)
Lemma sql_decode_quote : forall s, sql_decode (sql_quote s) = Some s.
Proof.
  intros s. unfold sql_decode, sql_quote. rewrite Ascii.eqb_refl.
  induction s as [|c s IH]; [reflexivity|].
  simpl double_char. destruct (Ascii.eqb c sq_char) eqn:E.
  - apply Ascii.eqb_eq in E. subst c.
    change (String sq_char (String sq_char (double_char sq_char s)) ++ String sq_char "")
      with (String sq_char (String sq_char (double_char sq_char s ++ String sq_char ""))).
    unfold sql_unq; fold sql_unq. rewrite Ascii.eqb_refl, IH. reflexivity.
  - change (String c (double_char sq_char s) ++ String sq_char "")
      with (String c (double_char sq_char s ++ String sq_char "")).
    unfold sql_unq; fold sql_unq. rewrite E, IH. reflexivity.
Qed.

(* JSON.get_sql is exactly the standard SQL literal of the JSON text, for EVERY value *)
Lemma json_sql_is_quote : forall v, json_sql (Some "'") v = sql_quote (json_text v).
Proof. reflexivity. Qed.

Theorem json_holds : forall v, jkeys v = true ->
  json_text v = json_spec v
  /\ json_sql (Some "'") v = sql_quote (json_spec v)
  /\ sql_decode (json_sql (Some "'") v) = Some (json_spec v).
Proof.
  intros v H. pose proof (json_text_is_spec v H) as E.
  split; [exact E|]. rewrite json_sql_is_quote, E. split; [reflexivity|apply sql_decode_quote].
Qed.

(* the former fragment is inside the quantifier *)
Lemma jfrag_jkeys : forall v, jfrag v = true -> jkeys v = true.
Proof.
  induction v as [s|z|t|b| |l IH|kvs IH] using jvalue_ind2; intros H; try reflexivity.
  - simpl in *. induction l as [|x l IHl]; [reflexivity|].
    simpl in H. apply andb_true_iff in H as [Hx Hl]. inversion IH as [|? ? Px Pl]; subst.
    simpl. rewrite (Px Hx), (IHl Pl Hl). reflexivity.
  - simpl in *. induction kvs as [|[k x] kvs IHl]; [reflexivity|].
    simpl in H. apply andb_true_iff in H as [Hkx Hl]. apply andb_true_iff in Hkx as [Hk Hx].
    apply andb_true_iff in Hk as [Hks _].
    inversion IH as [|? ? Pkx Pl]; subst. destruct Pkx as [_ Px]. simpl in Px.
    simpl. rewrite Hks, (Px Hx), (IHl Pl Hl). reflexivity.
Qed.

(* ---- keyword contexts: only the outer literal quote depends on the context ---- *)
Lemma json_sql_ctx_indep : forall c c' v, cx_secondary c = cx_secondary c' -> json_sql_ctx c v = json_sql_ctx c' v.
Proof. intros c c' v H. unfold json_sql_ctx. rewrite H. reflexivity. Qed.

Lemma json_sql_ctx_shape : forall c v,
  json_sql_ctx c v = fq (cx_secondary c) (double_quote (cx_secondary c) (json_text v)).
Proof. reflexivity. Qed.

(* every one of the ten query classes (constants read from the code on this run) uses the standard
   single quote for string literals *)
Lemma class_ctxs_single_quote :
  forallb (fun e => option_eqb String.eqb (cx_secondary (snd e)) (Some "'")) class_ctxs = true
  /\ map fst class_ctxs = ["Query"; "MySQLQuery"; "VerticaQuery"; "OracleQuery"; "PostgreSQLQuery"; "RedshiftQuery";
                           "MSSQLQuery"; "ClickHouseQuery"; "SQLLiteQuery"; "SnowflakeQuery"].
Proof. split; reflexivity. Qed.

Lemma class_ctx_secondary : forall name c, In (name, c) class_ctxs -> cx_secondary c = Some "'".
Proof.
  intros name c Hin. destruct class_ctxs_single_quote as [A _]. rewrite forallb_forall in A.
  specialize (A _ Hin). simpl in A. destruct (cx_secondary c) as [s|]; [|discriminate].
  simpl in A. apply String.eqb_eq in A. congruence.
Qed.

Theorem json_holds_ctx : forall c v, cx_secondary c = Some "'" -> jkeys v = true ->
  json_sql_ctx c v = sql_quote (json_spec v) /\ sql_decode (json_sql_ctx c v) = Some (json_spec v).
Proof.
  intros c v Hc H. unfold json_sql_ctx. rewrite Hc.
  destruct (json_holds v H) as (_ & E1 & E2). split; assumption.
Qed.

(* ------------------------------------------------------------------------------------------ *)
(* Tuple / Array                                                                               *)
(* ------------------------------------------------------------------------------------------ *)
Local Arguments is_quote : simpl never.
Local Arguments is_open : simpl never.
Local Arguments is_close : simpl never.
Local Arguments ch : simpl never.

Definition prepend (e : string) (o : option (list string)) : option (list string) :=
  match o with Some (x :: r) => Some ((e ++ x) :: r) | _ => None end.

Lemma ohead_prepend : forall c e o, ohead c (prepend e o) = prepend (String c e) o.
Proof. intros c e [[|x r]|]; reflexivity. Qed.

Lemma items_nonnil : forall s d q, items d q s <> Some [].
Proof.
  assert (OH : forall c o, ohead c o <> Some []) by (intros c [[|x r]|]; discriminate).
  induction s as [|c s IH]; intros d q; [discriminate|]. unfold items; fold items.
  destruct q; [apply OH|]. destruct (is_quote c); [apply OH|]. destruct (is_open c); [apply OH|].
  destruct (is_close c); [destruct d; [destruct s; discriminate|apply OH]|].
  destruct (ch c "," && Nat.eqb d 0); [|apply OH].
  destruct (items 0 None s); discriminate.
Qed.

(* scanning an element that sits at depth d0 + r in front of the rest of the text *)
Lemma items_app : forall e d0 r q rest r' q',
  walk r q e = Some (r', q') ->
  (0 < d0 \/ nocomma r q e = true) ->
  items (d0 + r) q (e ++ rest) = prepend e (items (d0 + r') q' rest).
Proof.
  induction e as [|c e IH]; intros d0 r q rest r' q' Hw Hc.
  - simpl in Hw. injection Hw as <- <-. simpl. pose proof (items_nonnil rest (d0 + r) q) as N.
    destruct (items (d0 + r) q rest) as [[|x l]|]; [congruence|reflexivity|reflexivity].
  - change (String c e ++ rest) with (String c (e ++ rest)).
    unfold items; fold items. rewrite <- ohead_prepend.
    simpl in Hw. simpl in Hc.
    destruct q as [qc|].
    + rewrite (IH d0 r _ rest r' q' Hw Hc). reflexivity.
    + destruct (is_quote c).
      * rewrite (IH d0 r _ rest r' q' Hw Hc). reflexivity.
      * destruct (is_open c).
        -- replace (S (d0 + r)) with (d0 + S r) by lia.
           rewrite (IH d0 (S r) _ rest r' q' Hw Hc). reflexivity.
        -- destruct (is_close c).
           ++ destruct r as [|r0]; [discriminate|].
              replace (d0 + S r0) with (S (d0 + r0)) by lia.
              rewrite (IH d0 r0 _ rest r' q' Hw); [reflexivity|].
              destruct Hc as [Hc|Hc]; [left; exact Hc|right; exact Hc].
           ++ assert (E : ch c "," && Nat.eqb (d0 + r) 0 = false).
              { destruct Hc as [Hc|Hc].
                - replace (Nat.eqb (d0 + r) 0) with false by (symmetry; apply Nat.eqb_neq; lia).
                  apply andb_false_r.
                - destruct (ch c "," && Nat.eqb r 0) eqn:E; [discriminate|].
                  apply andb_false_iff in E as [E|E]; [rewrite E; reflexivity|].
                  apply Nat.eqb_neq in E.
                  replace (Nat.eqb (d0 + r) 0) with false by (symmetry; apply Nat.eqb_neq; lia).
                  apply andb_false_r. }
              rewrite E. rewrite (IH d0 r _ rest r' q' Hw); [reflexivity|].
              destruct Hc as [Hc|Hc]; [left; exact Hc|right].
              destruct (ch c "," && Nat.eqb r 0); [discriminate|exact Hc].
Qed.

Lemma items_app0 : forall e rest, walk 0 None e = Some (0, None) -> nocomma 0 None e = true ->
  items 0 None (e ++ rest) = prepend e (items 0 None rest).
Proof. intros e rest H1 H2. exact (items_app e 0 0 None rest 0 None H1 (or_intror H2)). Qed.

Lemma walk_app : forall a b d q,
  walk d q (a ++ b) = match walk d q a with Some (d', q') => walk d' q' b | None => None end.
Proof.
  induction a as [|c a IH]; intros b d q; [reflexivity|].
  change (String c a ++ b) with (String c (a ++ b)). simpl.
  destruct q as [qc|]; [apply IH|].
  destruct (is_quote c); [apply IH|]. destruct (is_open c); [apply IH|].
  destruct (is_close c); [destruct d; [reflexivity|apply IH]|apply IH].
Qed.

(* a balanced text is balanced at every depth, and below depth 0 of an enclosing bracket its commas
   do not matter *)
Lemma walk_shift : forall e k d q d' q', walk d q e = Some (d', q') -> walk (k + d) q e = Some (k + d', q').
Proof.
  induction e as [|c e IH]; intros k d q d' q' H.
  - simpl in *. injection H as <- <-. reflexivity.
  - simpl in *. destruct q as [qc|]; [apply IH; exact H|].
    destruct (is_quote c); [apply IH; exact H|].
    destruct (is_open c); [replace (S (k + d)) with (k + S d) by lia; apply IH; exact H|].
    destruct (is_close c); [|apply IH; exact H].
    destruct d as [|d0]; [discriminate|]. replace (k + S d0) with (S (k + d0)) by lia. apply IH; exact H.
Qed.

Lemma nocomma_deep : forall e k d q st, walk d q e = Some st -> nocomma (S k + d) q e = true.
Proof.
  induction e as [|c e IH]; intros k d q st H; [reflexivity|].
  simpl in *. destruct q as [qc|]; [eapply IH; exact H|].
  destruct (is_quote c); [eapply IH; exact H|].
  destruct (is_open c); [replace (S (S (k + d))) with (S k + S d) by lia; eapply IH; exact H|].
  destruct (is_close c).
  - destruct d as [|d0]; [discriminate|]. replace (k + S d0) with (S (k + d0)) by lia.
    apply (IH k d0 None st H).
  - rewrite andb_false_r. apply (IH k d None st H).
Qed.

Lemma nocomma_app : forall a b d q d' q', walk d q a = Some (d', q') ->
  nocomma d q (a ++ b) = nocomma d q a && nocomma d' q' b.
Proof.
  induction a as [|c a IH]; intros b d q d' q' H.
  - simpl in H. injection H as <- <-. reflexivity.
  - change (String c a ++ b) with (String c (a ++ b)). simpl in *.
    destruct q as [qc|]; [apply IH; exact H|].
    destruct (is_quote c); [apply IH; exact H|]. destruct (is_open c); [apply IH; exact H|].
    destruct (is_close c); [destruct d; [discriminate|apply IH; exact H]|].
    destruct (ch c "," && Nat.eqb d 0); [reflexivity|apply IH; exact H].
Qed.

Definition elem_ok (s : string) : Prop :=
  nonempty s = true /\ nocomma 0 None s = true /\ walk 0 None s = Some (0, None).

Lemma atom_ok_elem : forall s, atom_ok s = true -> elem_ok s.
Proof.
  intros s H. unfold atom_ok in H. apply andb_true_iff in H as [H H3]. apply andb_true_iff in H as [H1 H2].
  repeat split; try assumption. destruct (walk 0 None s) as [[[|n] [q|]]|]; try discriminate. reflexivity.
Qed.

(* the comma-joined element texts, seen from inside a bracket (depth 1) *)
Lemma joined_walk : forall es, Forall elem_ok es ->
  walk 1 None (join "," es) = Some (1, None).
Proof.
  induction es as [|x es IH]; intros H; [reflexivity|].
  inversion H as [|? ? Hx Hes]; subst. destruct Hx as (_ & _ & Hw).
  pose proof (walk_shift x 1 0 None 0 None Hw) as Hw1. simpl in Hw1.
  destruct es as [|y es]; [exact Hw1|].
  change (join "," (x :: y :: es)) with (x ++ "," ++ join "," (y :: es)).
  rewrite walk_app, Hw1. change ("," ++ join "," (y :: es)) with (String "," (join "," (y :: es))).
  simpl. apply IH. exact Hes.
Qed.

Lemma nonempty_app_l : forall a b, nonempty a = true -> nonempty (a ++ b) = true.
Proof. intros [|c a] b H; [discriminate|reflexivity]. Qed.

Lemma joined_nonempty : forall x es, nonempty x = true -> nonempty (join "," (x :: es)) = true.
Proof.
  intros x [|y es] H; [exact H|].
  change (join "," (x :: y :: es)) with (x ++ "," ++ join "," (y :: es)). apply nonempty_app_l, H.
Qed.

(* a bracketed, comma-joined list of admissible elements is an admissible element *)
Lemma bracketed_ok : forall (pre : string) (o c : ascii) es,
  is_open o = true -> is_close c = true -> is_quote o = false -> is_quote c = false -> is_open c = false ->
  walk 0 None pre = Some (0, None) -> nocomma 0 None pre = true ->
  Forall elem_ok es ->
  elem_ok (pre ++ String o (join "," es ++ String c "")).
Proof.
  intros pre o c es Ho Hc Hqo Hqc Hoc Hpre Hpre2 Hes.
  pose proof (joined_walk es Hes) as Hj.
  assert (W : walk 0 None (String o (join "," es ++ String c "")) = Some (0, None)).
  { simpl. rewrite Hqo, Ho. rewrite walk_app, Hj. simpl. rewrite Hqc, Hoc, Hc. reflexivity. }
  repeat split.
  - destruct pre; reflexivity.
  - rewrite (nocomma_app pre _ 0 None 0 None Hpre), Hpre2. simpl. rewrite Hqo, Ho.
    rewrite (nocomma_app _ _ 1 None 1 None Hj).
    assert (W0 : exists st, walk 0 None (join "," es) = Some st).
    { clear - Hes. induction es as [|x es IH]; [eexists; reflexivity|].
      inversion Hes as [|? ? Hx Hes']; subst. destruct Hx as (_ & _ & Hw).
      destruct es as [|y es]; [eexists; exact Hw|].
      change (join "," (x :: y :: es)) with (x ++ "," ++ join "," (y :: es)).
      rewrite walk_app, Hw. change ("," ++ join "," (y :: es)) with (String "," (join "," (y :: es))).
      simpl. apply IH. exact Hes'. }
    destruct W0 as [st W0]. pose proof (nocomma_deep (join "," es) 0 0 None st W0) as ND.
    change (S 0 + 0) with 1 in ND. rewrite ND.
    simpl. rewrite Hqc, Hoc, Hc. reflexivity.
  - rewrite walk_app, Hpre. exact W.
Qed.

Lemma render_ok : forall d t, sterm_ok t = true -> elem_ok (render_seq d t).
Proof.
  intros d. fix IH 1. intros [s|k vs] H.
  - apply atom_ok_elem. exact H.
  - simpl in H.
    assert (Hes : Forall elem_ok (map (render_seq d) vs)).
    { clear k. induction vs as [|x vs IHvs]; [constructor|].
      simpl in H. apply andb_true_iff in H as [Hx Hvs]. constructor; [apply IH; exact Hx|apply IHvs; exact Hvs]. }
    simpl. set (es := map (render_seq d) vs) in *. destruct k.
    + apply (bracketed_ok "" "("%char ")"%char es); try reflexivity; exact Hes.
    + destruct (pg_like d).
      * destruct (nonempty (join "," es)).
        -- apply (bracketed_ok "ARRAY" "["%char "]"%char es); try reflexivity; exact Hes.
        -- repeat split.
      * apply (bracketed_ok "" "["%char "]"%char es); try reflexivity; exact Hes.
Qed.

(* splitting the joined elements back: every element once, in order *)
Lemma items_joined : forall (c : ascii) es, is_close c = true -> is_quote c = false -> is_open c = false ->
  Forall elem_ok es -> es <> [] ->
  items 0 None (join "," es ++ String c "") = Some es.
Proof.
  intros c es Hc Hq Ho. induction es as [|x es IH]; intros Hes Hne; [congruence|].
  inversion Hes as [|? ? Hx Hes']; subst. destruct Hx as (_ & Hx2 & Hx3).
  destruct es as [|y es].
  - simpl join. rewrite (items_app0 x (String c "") Hx3 Hx2).
    simpl. rewrite Hq, Ho, Hc. simpl. rewrite sapp_nil. reflexivity.
  - change (join "," (x :: y :: es)) with (x ++ "," ++ join "," (y :: es)).
    rewrite sapp_assoc.
    rewrite (items_app0 x _ Hx3 Hx2).
    change (("," ++ join "," (y :: es)) ++ String c "") with (String "," (join "," (y :: es) ++ String c "")).
    unfold items at 1; fold items.
    change (is_quote ",") with false. change (is_open ",") with false. change (is_close ",") with false.
    change (ch "," "," && Nat.eqb 0 0) with true. cbv iota.
    rewrite IH by (auto; discriminate). simpl. rewrite sapp_nil. reflexivity.
Qed.

Theorem seq_elements : forall d k vs, forallb sterm_ok vs = true ->
  elements (render_seq d (SSeq k vs)) = Some (map (render_seq d) vs).
Proof.
  intros d k vs H.
  assert (Hes : Forall elem_ok (map (render_seq d) vs)).
  { clear k. induction vs as [|x vs IHvs]; [constructor|].
    simpl in H. apply andb_true_iff in H as [Hx Hvs]. constructor; [apply render_ok; exact Hx|apply IHvs; exact Hvs]. }
  simpl render_seq. set (es := map (render_seq d) vs) in *.
  assert (Hne : es <> [] -> nonempty (join "," es) = true /\ exists x r, es = x :: r /\ nonempty x = true).
  { intros Hn. destruct es as [|x r]; [congruence|]. inversion Hes as [|? ? Hx _]; subst.
    destruct Hx as (Hx1 & _). split; [apply joined_nonempty; exact Hx1|]. exists x, r. split; [reflexivity|exact Hx1]. }
  assert (Fin : forall c, is_close c = true -> is_quote c = false -> is_open c = false ->
            match items 0 None (join "," es ++ String c "") with
            | Some [EmptyString] => Some []
            | o => o
            end = Some es).
  { intros c Hc Hq Ho. destruct es as [|x r] eqn:Ees.
    - simpl. rewrite Hq, Ho, Hc. reflexivity.
    - rewrite (items_joined c (x :: r) Hc Hq Ho Hes) by discriminate.
      destruct (Hne ltac:(discriminate)) as (_ & x' & r' & E & Hx'). injection E as <- <-.
      destruct x; [discriminate|]. reflexivity. }
  destruct k.
  - unfold elements. change (String.eqb ("(" ++ join "," es ++ ")") "'{}'") with false. cbv iota.
    change (strip_open ("(" ++ join "," es ++ ")")) with (Some (join "," es ++ ")")).
    apply (Fin ")"%char); reflexivity.
  - destruct (pg_like d).
    + destruct (nonempty (join "," es)) eqn:En.
      * unfold elements. change (String.eqb ("ARRAY[" ++ join "," es ++ "]") "'{}'") with false. cbv iota.
        change (strip_open ("ARRAY[" ++ join "," es ++ "]")) with (Some (join "," es ++ "]")).
        apply (Fin "]"%char); reflexivity.
      * destruct es as [|x r]; [reflexivity|].
        destruct (Hne ltac:(discriminate)) as (E & _). congruence.
    + unfold elements. change (String.eqb ("[" ++ join "," es ++ "]") "'{}'") with false. cbv iota.
      change (strip_open ("[" ++ join "," es ++ "]")) with (Some (join "," es ++ "]")).
      apply (Fin "]"%char); reflexivity.
Qed.
