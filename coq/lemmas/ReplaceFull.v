(* ReplaceFull.v — C15 for a completely visited configuration: every modelled object is in the fragment, hence
   replace_table = "built with the other table" on ALL terms, wrapper terms and well-formed statements. *)
From PV Require Import Base Crit gen.TermsTable Terms gen.C15Table Replace lemmas.ReplaceEqs lemmas.ReplaceLemmas lemmas.ReplaceStmt.
From Coq Require Import Lia Arith.

Lemma cov1_true v c o : v = true -> c = true -> cov1 v c o = true.
Proof. intros -> ->. reflexivity. Qed.
Lemma forallb_impl {X} (P Q : X -> bool) l : (forall x, P x = true -> Q x = true) -> forallb P l = true -> forallb Q l = true.
Proof.
  intro H. induction l as [|x l IH]; simpl; auto. intro E. apply andb_true_iff in E. destruct E as [E1 E2].
  rewrite (H x E1), (IH E2). reflexivity.
Qed.

Ltac asplit H :=
  repeat match type of H with
         | (_ && _)%bool = true => apply andb_true_iff in H; let H1 := fresh H in destruct H as [H H1]; try asplit H1
         end.

Section FULL.
Variable cf : cfg.
Variable A : tref.
Hypothesis FC : full_cfg cf = true.

Lemma fc_terms : term_slots_all_visited cf = true.
Proof. pose proof FC as FC0; unfold full_cfg in FC0; asplit FC0. assumption. Qed.

Lemma fc_wrapper k s : In (k, s) wrapper_pairs -> cvis cf k s = true.
Proof.
  pose proof FC as FC0; unfold full_cfg in FC0; asplit FC0. intro H.
  match goal with Hw : forallb _ wrapper_pairs = true |- _ => rewrite forallb_forall in Hw; exact (Hw (k, s) H) end.
Qed.

Lemma fc_kind k s : In s (kind_slots k) -> cvis cf (kctor k) s = true.
Proof.
  pose proof FC as FC0; unfold full_cfg in FC0; asplit FC0. intro H.
  match goal with Hk : forallb _ [QGeneric; QClickHouse; QPostgres; QMySQL] = true |- _ =>
    rewrite forallb_forall in Hk; assert (Hq : In k [QGeneric; QClickHouse; QPostgres; QMySQL]) by (destruct k; simpl; tauto);
    specialize (Hk k Hq); rewrite forallb_forall in Hk; exact (Hk s H) end.
Qed.

Lemma fc_with : c_with_by_call cf = false.
Proof. pose proof FC as FC0; unfold full_cfg in FC0; asplit FC0. apply negb_true_iff. assumption. Qed.
Lemma fc_mode k : In k [KQuery; KJoin; KJoinOn; KJoinUsing] -> c_src_mode cf k = MCmpEnter.
Proof.
  pose proof FC as FC0; unfold full_cfg in FC0; asplit FC0. intro H. simpl in H.
  destruct H as [<-|[<-|[<-|[<-|[]]]]];
    match goal with Hm : is_enter (c_src_mode cf ?K) = true |- c_src_mode cf ?K = _ => destruct (c_src_mode cf K); try discriminate; reflexivity end.
Qed.

Lemma fc_term k s : In (k, s) term_pairs -> cvis cf k s = true.
Proof. intro H. pose proof fc_terms as T. unfold term_slots_all_visited in T. rewrite forallb_forall in T. exact (T (k, s) H). Qed.

Ltac wvis := apply fc_wrapper; unfold wrapper_pairs; simpl; tauto.
Ltac tvis := apply fc_term; unfold term_pairs; simpl; tauto.
Ltac kvis := apply (fc_kind QGeneric); unfold kind_slots, query_slots; simpl; tauto.
Ltac vsolve := first [wvis | tvis | kvis].

(* terms *)
Lemma full_covered t : sub_foreign A t = true -> covered cf A t = true.
Proof. apply (proj1 (all_visited_covered_all cf A fc_terms)). Qed.
Lemma full_covs l : sfs A l = true -> covs cf A l = true.
Proof. apply forallb_impl. apply full_covered. Qed.
Lemma full_cov_ot o : sf_ot A o = true -> cov_ot cf A o = true.
Proof. destruct o; simpl; auto. apply full_covered. Qed.

(* sub-queries: their slots are the generic QueryBuilder's *)
Lemma full_cov_q q : sf_q A q = true -> cov_q cf A q = true.
Proof.
  unfold sf_q, cov_q. intro H. asplit H.
  repeat (apply andb_true_iff; split); apply cov1_true; try vsolve;
    [reflexivity | apply full_covs; assumption | apply full_cov_ot; assumption].
Qed.

Lemma full_cov_ob l : forallb (fun x => sub_foreign A (fst x)) l = true -> cov_ob cf A l = true.
Proof. apply forallb_impl. intros x. apply full_covered. Qed.

Ltac csolve := first [apply full_covered | apply full_covs | apply full_cov_ob | apply full_cov_q]; assumption.

Lemma full_cov_wt w : sf_wt A w = true -> cov_wt cf A w = true.
Proof.
  destruct w; cbn [sf_wt Replace.cov_wt]; intro H; asplit H;
    first [csolve
          | (repeat (apply andb_true_iff; split)); first [csolve | (apply cov1_true; [vsolve | csolve])]].
Qed.

Lemma full_cov_ws l : sf_ws A l = true -> cov_ws cf A l = true.
Proof. apply forallb_impl. apply full_cov_wt. Qed.
Lemma full_cov_ow o : sf_ow A o = true -> cov_ow cf A o = true.
Proof. destruct o; simpl; auto. apply full_cov_wt. Qed.

Lemma full_cov_src x : sf_src A x = true -> cov_src_m cf A MCmpEnter x = true.
Proof. destruct x; simpl; auto. apply full_cov_q. Qed.

Lemma full_cov_join j : sf_join A j = true -> cov_join cf A j = true.
Proof.
  destruct j; simpl; intro H.
  - rewrite (fc_wrapper KJoin S_item ltac:(unfold wrapper_pairs; simpl; tauto)).
    rewrite (fc_mode KJoin ltac:(simpl; tauto)). apply full_cov_src. assumption.
  - asplit H. rewrite (fc_mode KJoinOn ltac:(simpl; tauto)).
    apply andb_true_iff; split; apply cov1_true; try wvis; [apply full_cov_src | apply full_cov_wt]; assumption.
  - asplit H. rewrite (fc_mode KJoinUsing ltac:(simpl; tauto)).
    apply andb_true_iff; split; apply cov1_true; try wvis; [apply full_cov_src | apply full_covs]; assumption.
Qed.

Lemma cov1_nil_ws v : cov1 v (cov_ws cf A []) (occ_ws A []) = true.
Proof. destruct v; reflexivity. Qed.

Lemma full_value_pairs (l : list (term * wterm)) :
  forallb (fun p => sub_foreign A (fst p) && sf_wt A (snd p)) l = true ->
  forallb (fun p => covered cf A (fst p) && cov1 (cvis cf KValue S_value) (cov_wt cf A (snd p)) (occ_wt A (snd p))) l = true.
Proof.
  apply forallb_impl. intros [t w] E. simpl in *. apply andb_true_iff in E. destruct E as [E1 E2].
  rewrite (full_covered t E1). simpl. apply cov1_true; [wvis | apply full_cov_wt; assumption].
Qed.

Theorem full_cov_stmt s : wf_stmt s = true -> sf_stmt A s = true -> cov_stmt cf A s = true.
Proof.
  intros W H. unfold sf_stmt in H. asplit H. unfold cov_stmt. cbv zeta. unfold skind.
  assert (QS : forall sl, In sl query_slots -> cvis cf (kctor (s_kind s)) sl = true).
  { intros sl Hs. apply fc_kind. unfold kind_slots. apply in_or_app. left. exact Hs. }
  rewrite (fc_mode KQuery ltac:(simpl; tauto)), fc_with.
  repeat (apply andb_true_iff; split).
  - apply cov1_true; [apply QS; unfold query_slots; simpl; tauto | apply (forallb_impl (sf_src A)); [apply full_cov_src | assumption]].
  - apply cov1_true; [apply QS; unfold query_slots; simpl; tauto | reflexivity].
  - apply cov1_true; [apply QS; unfold query_slots; simpl; tauto | reflexivity].
  - rewrite (QS S__with ltac:(unfold query_slots; simpl; tauto)).
    apply (forallb_impl (fun p => sf_q A (snd p))); [intros x; apply full_cov_q | assumption].
  - apply cov1_true; [apply QS; unfold query_slots; simpl; tauto | apply full_cov_ws; assumption].
  - apply cov1_true; [apply QS; unfold query_slots; simpl; tauto | apply full_covs; assumption].
  - apply cov1_true; [apply QS; unfold query_slots; simpl; tauto | apply (forallb_impl (sf_ws A)); [apply full_cov_ws | assumption]].
  - apply cov1_true; [apply QS; unfold query_slots; simpl; tauto | apply full_cov_ow; assumption].
  - apply cov1_true; [apply QS; unfold query_slots; simpl; tauto | apply full_cov_ow; assumption].
  - apply cov1_true; [apply QS; unfold query_slots; simpl; tauto | apply full_cov_ws; assumption].
  - apply cov1_true; [apply QS; unfold query_slots; simpl; tauto | apply full_cov_ow; assumption].
  - apply cov1_true; [apply QS; unfold query_slots; simpl; tauto
                     | apply (forallb_impl (fun p => sf_wt A (fst p))); [intros x; apply full_cov_wt | assumption]].
  - rewrite (QS S__joins ltac:(unfold query_slots; simpl; tauto)).
    apply (forallb_impl (sf_join A)); [apply full_cov_join | assumption].
  - apply cov1_true; [apply QS; unfold query_slots; simpl; tauto | apply full_value_pairs; assumption].
  - apply cov1_true; [apply QS; unfold query_slots; simpl; tauto | reflexivity].
  - (* _limit_by *) unfold wf_stmt in W. destruct (s_kind s) eqn:K; asplit W;
      try (destruct (s_limit_by s); [apply cov1_nil_ws | discriminate]).
    apply cov1_true; [apply (fc_kind QClickHouse); unfold kind_slots; simpl; tauto | apply full_cov_ws; assumption].
  - (* _distinct_on *) unfold wf_stmt in W. destruct (s_kind s) eqn:K; asplit W;
      try (destruct (s_distinct_on s); [apply cov1_nil_ws | discriminate]).
    + apply cov1_true; [apply (fc_kind QClickHouse); unfold kind_slots; simpl; tauto | apply full_cov_ws; assumption].
    + apply cov1_true; [apply (fc_kind QPostgres); unfold kind_slots; simpl; tauto | apply full_cov_ws; assumption].
  - (* _returns *) unfold wf_stmt in W. destruct (s_kind s) eqn:K; asplit W;
      try (destruct (s_returns s); [apply cov1_nil_ws | discriminate]).
    apply cov1_true; [apply (fc_kind QPostgres); unfold kind_slots; simpl; tauto | apply full_cov_ws; assumption].
  - (* _using *) unfold wf_stmt in W. destruct (s_kind s) eqn:K; asplit W;
      try (destruct (s_using s); [destruct (cvis cf _ S__using); reflexivity | discriminate]).
    apply cov1_true; [apply (fc_kind QPostgres); unfold kind_slots; simpl; tauto | reflexivity].
  - (* _duplicate_updates *) unfold wf_stmt in W. destruct (s_kind s) eqn:K; asplit W;
      try (destruct (s_dup_updates s); [destruct (cvis cf _ S__duplicate_updates); reflexivity | discriminate]).
    apply cov1_true; [apply (fc_kind QMySQL); unfold kind_slots; simpl; tauto | apply full_value_pairs; assumption].
Qed.

End FULL.

(* the property for a completely visited configuration *)
Theorem full_cfg_holds cf : full_cfg cf = true ->
  forall A B : tref,
    (forall t, sub_foreign A t = true -> rep cf A B t = subst A B t)
    /\ (forall w, sf_wt A w = true -> rep_wt cf A B w = subst_wt A B w)
    /\ (forall s, wf_stmt s = true -> sf_stmt A s = true -> rep_stmt cf A B s = Ok (subst_stmt A B s))
    /\ (forall C t, tref_eqb C A = false -> tref_eqb C B = false -> count C (rep cf A B t) = count C t).
Proof.
  intros FC A B. split; [|split; [|split]].
  - intros t F. apply covered_rep_subst. apply full_covered; assumption.
  - intros w F. apply cov_wt_ok. apply full_cov_wt; assumption.
  - intros s W F. apply cov_stmt_ok. apply full_cov_stmt; assumption.
  - intros C t CA CB. apply (proj1 (count_rep_all cf A B C CA CB)).
Qed.
