(* PageLemmas.v — proofs about the pagination model (coq/Page.v). *)
From PV Require Import Base Page.
From Coq Require Import Lia DecimalString Decimal DecimalZ DecimalPos DecimalFacts.

(* ------------------------------------------------------------------------------------------ *)
(* A. decimal numerals                                                                         *)
(* ------------------------------------------------------------------------------------------ *)
Lemma to_int_not_posnil z : Z.to_int z <> Pos Nil.
Proof.
  destruct z; simpl; intro H; inversion H as [H1].
  exact (DecimalPos.Unsigned.to_uint_nonnil _ H1).
Qed.
Lemma to_int_not_negnil z : Z.to_int z <> Neg Nil.
Proof.
  destruct z; simpl; intro H; inversion H as [H1].
  exact (DecimalPos.Unsigned.to_uint_nonnil _ H1).
Qed.

Lemma Z_of_to_string z : Z_of_string (Z_to_string z) = Some z.
Proof.
  unfold Z_of_string, Z_to_string.
  rewrite NilZero.isi by (apply to_int_not_posnil || apply to_int_not_negnil).
  simpl. now rewrite DecimalZ.of_to.
Qed.

Lemma numtok_Z z : (0 <= z)%Z -> numtok (Z_to_string z) = Some z.
Proof.
  intro H. unfold numtok. rewrite Z_of_to_string.
  rewrite String.eqb_refl. destruct (0 <=? z)%Z eqn:E; [reflexivity | lia].
Qed.

(* the characters of a numeral are digits (or a leading minus): never a blank *)
Lemma no_space_uint d : no_space (NilEmpty.string_of_uint d) = true.
Proof. induction d; simpl; auto. Qed.
Lemma nonempty_uint d : d <> Nil -> nonempty (NilEmpty.string_of_uint d) = true.
Proof. destruct d; simpl; auto; intro H; now elim H. Qed.

Lemma tok_ok_Z z : tok_ok (Z_to_string z) = true.
Proof.
  unfold tok_ok, Z_to_string.
  destruct z as [|p|p]; simpl.
  - reflexivity.
  - pose proof (DecimalPos.Unsigned.to_uint_nonnil p) as Hn.
    unfold NilZero.string_of_uint. destruct (Pos.to_uint p) eqn:E; try (now elim Hn);
      rewrite <- E in *; rewrite no_space_uint, nonempty_uint; auto.
  - pose proof (DecimalPos.Unsigned.to_uint_nonnil p) as Hn.
    unfold NilZero.string_of_uint. destruct (Pos.to_uint p) eqn:E; try (now elim Hn);
      rewrite <- E in *; rewrite no_space_uint; auto.
Qed.

(* ------------------------------------------------------------------------------------------ *)
(* B. words / tokens                                                                           *)
(* ------------------------------------------------------------------------------------------ *)
Lemma words_nonnil s : exists h t, words s = h :: t.
Proof.
  induction s as [|a r IH]; simpl; eauto.
  destruct (is_space a); eauto.
  destruct IH as (h & t & ->); eauto.
Qed.

Lemma words_app w s : no_space w = true ->
  words (w ++ s) = match words s with h :: t => (w ++ h) :: t | [] => [w] end.
Proof.
  induction w as [|a r IH]; simpl; intro H.
  - destruct (words_nonnil s) as (h & t & ->). reflexivity.
  - apply andb_prop in H as [Ha Hr]. destruct (is_space a); [discriminate|].
    rewrite (IH Hr). destruct (words_nonnil s) as (h & t & ->). reflexivity.
Qed.

Lemma words_space s : words (" " ++ s) = "" :: words s.
Proof. reflexivity. Qed.

Lemma app_empty_r (s : string) : s ++ "" = s.
Proof. induction s; simpl; congruence. Qed.

Lemma sapp_assoc (a b c : string) : (a ++ b) ++ c = a ++ (b ++ c).
Proof. induction a; simpl; congruence. Qed.

(* a clean word followed by a blank is the next token, whatever follows *)
Lemma tokens_word_sp w s : tok_ok w = true -> tokens (w ++ " " ++ s) = w :: tokens s.
Proof.
  intro H. apply andb_prop in H as [Hne Hns]. unfold tokens.
  rewrite (words_app w _ Hns), words_space. simpl. rewrite app_empty_r, Hne. reflexivity.
Qed.

Lemma untok_cons w l : untok (w :: l) = " " ++ w ++ untok l.
Proof. reflexivity. Qed.

Lemma words_untok_head l : exists t, words (untok l) = "" :: t.
Proof. destruct l as [|w l]; [now exists []|]. rewrite untok_cons. eexists. apply words_space. Qed.

Theorem tokens_untok l : forallb tok_ok l = true -> tokens (untok l) = l.
Proof.
  induction l as [|w l IH]; intro H; [reflexivity|].
  simpl in H. apply andb_prop in H as [Hw Hl]. apply andb_prop in Hw as [Hne Hns].
  rewrite untok_cons. unfold tokens in *. rewrite words_space.
  rewrite (words_app w _ Hns). destruct (words_untok_head l) as (t & E).
  rewrite E in *. simpl in *. rewrite app_empty_r, Hne. f_equal. now apply IH.
Qed.

Lemma untok_app (a b : list string) : untok (a ++ b)%list = untok a ++ untok b.
Proof.
  induction a as [|w a IH]; [reflexivity|].
  change ((w :: a) ++ b)%list with (w :: (a ++ b)%list). rewrite !untok_cons, IH, !sapp_assoc. reflexivity.
Qed.

(* ------------------------------------------------------------------------------------------ *)
(* C. parentheses                                                                              *)
(* ------------------------------------------------------------------------------------------ *)
Lemma drop_close_app x : drop_close (x ++ ")") = Some x.
Proof.
  induction x as [|a r IH]; [reflexivity|].
  simpl. rewrite IH. destruct r; reflexivity.
Qed.
Lemma unparen_paren x : unparen ("(" ++ x ++ ")") = Some x.
Proof. simpl. apply drop_close_app. Qed.

Lemma no_space_app a b : no_space (a ++ b) = no_space a && no_space b.
Proof. induction a; simpl; auto. rewrite IHa. now rewrite andb_assoc. Qed.

Lemma tok_ok_by b : no_space (join "," b) = true -> tok_ok (by_text b) = true.
Proof. intro H. unfold tok_ok, by_text. simpl. rewrite no_space_app, H. reflexivity. Qed.

(* ------------------------------------------------------------------------------------------ *)
(* D. the rendered tail is in the class's grammar and denotes the requested window             *)
(* ------------------------------------------------------------------------------------------ *)
Local Opaque Z_to_string Z_of_string.
Arguments numtok : simpl never.

Lemma tok_ok_pyZ o : tok_ok (pyZ o) = true.
Proof. destruct o; [apply tok_ok_Z | reflexivity]. Qed.

Lemma page_toks_ok c k p : page_ok p = true -> forallb tok_ok (page_toks c k p) = true.
Proof.
  intro H. unfold page_ok in H. apply andb_prop in H as [_ Hb].
  unfold page_toks. rewrite forallb_app. apply andb_true_intro; split.
  - unfold lby_toks. destruct c, k; try reflexivity. destruct (lby p) as [[[n m] b]|]; [|reflexivity].
    apply andb_prop in Hb as [_ Hb].
    unfold limit_by_toks. destruct (negb (m =? 0)%Z); simpl; rewrite !tok_ok_Z, (tok_ok_by b Hb); reflexivity.
  - destruct c, k; unfold page_pieces, gp;
      repeat match goal with |- context [if ?b then _ else _] => destruct b end;
      simpl; rewrite ?tok_ok_pyZ, ?tok_ok_Z; reflexivity.
Qed.

Lemma nonneg_tr z : (0 <=? z)%Z = true -> (0 <= z)%Z.
Proof. intro H. now apply Z.leb_le. Qed.

Ltac numtoks :=
  repeat match goal with
  | H : (0 <=? ?z)%Z = true |- context [numtok (Z_to_string ?z)] => rewrite (numtok_Z z (nonneg_tr z H))
  end; rewrite ?(numtok_Z 0%Z (Z.le_refl 0)).


Arguments truthyZ : simpl never.

Lemma truthy_false m : truthyZ (Some m) = false -> m = 0%Z.
Proof. unfold truthyZ. intro H. apply negb_false_iff in H. now apply Z.eqb_eq. Qed.

Lemma unparen_by b : unparen (by_text b) = Some (join "," b).
Proof. unfold by_text. apply unparen_paren. Qed.
Arguments by_text : simpl never.
Arguments unparen : simpl never.

Theorem denote_render c k p :
  page_ok p = true -> frag c k p = true ->
  denote_page (family_of c) (render_page c k p) = Some (requested c k p).
Proof.
  intros Hok Hf. unfold denote_page, render_page. rewrite (tokens_untok _ (page_toks_ok c k p Hok)).
  destruct p as [n m lb tp]. unfold page_ok in Hok. simpl in Hok.
  apply andb_prop in Hok as [Hnm Hlb]. apply andb_prop in Hnm as [Hn Hm].
  assert (Hcase : forall c', c' <> CClickHouse \/ k <> KSelect -> lby_toks c' k (mkPage n m lb tp) = []).
  { intros c' [H|H]; destruct c', k; try reflexivity; now elim H. }
  destruct n as [n|], m as [m|]; simpl in Hn, Hm;
    try (destruct (truthyZ (Some m)) eqn:Em; [|pose proof (truthy_false m Em); subst m]);
    destruct c, k; unfold frag in Hf; simpl in Hf; rewrite ?Em in Hf; try discriminate Hf;
    try (unfold page_toks; rewrite Hcase by (left; discriminate || (right; discriminate)));
    unfold page_toks, page_pieces, requested, is_some; simpl; rewrite ?Em; simpl; rewrite ?Em; simpl; numtoks; try reflexivity.
  all: destruct lb as [[[bn bm] bb]|]; [|simpl; numtoks; reflexivity].
  all: apply andb_prop in Hlb as [Hb1 Hb3]; apply andb_prop in Hb1 as [Hb1 Hb2].
  all: unfold limit_by_toks; destruct (bm =? 0)%Z eqn:Eb; [apply Z.eqb_eq in Eb; subst bm|]; simpl; numtoks;
       rewrite unparen_by; simpl; numtoks; try reflexivity.
Qed.

Theorem denote_render_exact c k p :
  page_ok p = true -> frag c k p = false ->
  denote_page (family_of c) (render_page c k p) = None.
Proof.
  intros Hok Hf. unfold denote_page, render_page. rewrite (tokens_untok _ (page_toks_ok c k p Hok)).
  destruct p as [n m lb tp]. unfold page_ok in Hok. simpl in Hok.
  apply andb_prop in Hok as [Hnm Hlb]. apply andb_prop in Hnm as [Hn Hm].
  assert (Hcase : forall c', c' <> CClickHouse \/ k <> KSelect -> lby_toks c' k (mkPage n m lb tp) = []).
  { intros c' [H|H]; destruct c', k; try reflexivity; now elim H. }
  destruct n as [n|], m as [m|]; simpl in Hn, Hm;
    try (destruct (truthyZ (Some m)) eqn:Em; [|pose proof (truthy_false m Em); subst m]);
    destruct c, k; unfold frag in Hf; simpl in Hf; rewrite ?Em in Hf; try discriminate Hf;
    try (unfold page_toks; rewrite Hcase by (left; discriminate || (right; discriminate)));
    unfold page_toks, page_pieces, requested, is_some; simpl; rewrite ?Em; simpl; rewrite ?Em; simpl; numtoks; try reflexivity.
  all: destruct lb as [[[bn bm] bb]|]; [|simpl; numtoks; reflexivity].
  all: apply andb_prop in Hlb as [Hb1 Hb3]; apply andb_prop in Hb1 as [Hb1 Hb2].
  all: unfold limit_by_toks; destruct (bm =? 0)%Z eqn:Eb; [apply Z.eqb_eq in Eb; subst bm|]; simpl; numtoks;
       rewrite unparen_by; simpl; numtoks; try reflexivity.
Qed.

(* ------------------------------------------------------------------------------------------ *)
(* E. the last call of a kind wins                                                             *)
(* ------------------------------------------------------------------------------------------ *)
Definition wr {V} (o : option V) (d : V) : V := match o with Some v => v | None => d end.

Lemma step_slots c k cl p p' : step c k cl p = Ok p' ->
  lim p' = wr (w_lim cl) (lim p) /\ off p' = wr (w_off cl) (off p)
  /\ lby p' = wr (w_lby cl) (lby p) /\ top p' = wr (w_top cl) (top p).
Proof.
  destruct p as [n m lb tp].
  destruct cl, k, c; simpl; intro H; try discriminate H; try (injection H as <-; simpl; auto).
  all: destruct (percent && _) ; try discriminate H; injection H as <-; simpl; auto.
Qed.

Lemma last_hit_cons {V} (f : call -> option V) cl r d :
  wr (last_hit f (cl :: r)) d = wr (last_hit f r) (wr (f cl) d).
Proof. simpl. destruct (last_hit f r); reflexivity. Qed.

Theorem run_last c k cs : forall p p', run c k cs p = Ok p' ->
  lim p' = wr (last_hit w_lim cs) (lim p) /\ off p' = wr (last_hit w_off cs) (off p)
  /\ lby p' = wr (last_hit w_lby cs) (lby p) /\ top p' = wr (last_hit w_top cs) (top p).
Proof.
  induction cs as [|cl r IH]; intros p p' H.
  - injection H as <-. simpl. auto.
  - cbn [run] in H. destruct (step c k cl p) as [p1|e] eqn:E; [|discriminate].
    apply step_slots in E as (E1 & E2 & E3 & E4).
    apply IH in H as (H1 & H2 & H3 & H4).
    rewrite !last_hit_cons, <- E1, <- E2, <- E3, <- E4. auto.
Qed.

Lemma page_eta p : p = mkPage (lim p) (off p) (lby p) (top p).
Proof. now destruct p. Qed.

Theorem last_calls_determine_page c k cs1 cs2 p1 p2 :
  page_of c k cs1 = Ok p1 -> page_of c k cs2 = Ok p2 ->
  last_hit w_lim cs1 = last_hit w_lim cs2 -> last_hit w_off cs1 = last_hit w_off cs2 ->
  last_hit w_lby cs1 = last_hit w_lby cs2 -> last_hit w_top cs1 = last_hit w_top cs2 ->
  p1 = p2.
Proof.
  intros H1 H2 A B C D.
  apply run_last in H1 as (a1 & b1 & c1 & d1). apply run_last in H2 as (a2 & b2 & c2 & d2).
  rewrite (page_eta p1), (page_eta p2), a1, a2, b1, b2, c1, c2, d1, d2, A, B, C, D. reflexivity.
Qed.

(* success of a call sequence depends on the class only *)
Definition supported (c : cls) (k : kind) (cl : call) : bool :=
  match step c k cl page0 with Ok _ => true | Err _ => false end.
Lemma step_supported c k cl p : supported c k cl = true -> exists p', step c k cl p = Ok p'.
Proof.
  unfold supported. destruct p as [n m lb tp].
  destruct cl, k, c; simpl; intro H; try discriminate H; eauto.
  all: destruct (percent && _); try discriminate H; eauto.
Qed.
Theorem run_supported c k cs : forall p, forallb (supported c k) cs = true -> exists p', run c k cs p = Ok p'.
Proof.
  induction cs as [|cl r IH]; intros p H; [eexists; reflexivity|].
  simpl in H. apply andb_prop in H as [Ha Hr].
  destruct (step_supported c k cl p Ha) as (p1 & E). cbn [run]. rewrite E. now apply IH.
Qed.

(* slicing is the shorthand for offset(a).limit(b); limit/offset commute *)
Theorem slice_is_offset_limit c k a b p : k <> KSetOp ->
  run c k [CSlice a b] p = run c k [COffset a; CLimit b] p.
Proof. intro H. destruct k; [reflexivity | now elim H | reflexivity]. Qed.
Theorem limit_offset_commute c k n m p :
  run c k [CLimit n; COffset m] p = run c k [COffset m; CLimit n] p.
Proof. reflexivity. Qed.

(* ------------------------------------------------------------------------------------------ *)
(* F. structure: limit 0 kept, MSSQL offset, piece order, position                            *)
(* ------------------------------------------------------------------------------------------ *)
Theorem limit_zero_kept c k p : lim p = Some 0%Z -> In PLimit (page_pieces c k p).
Proof. intro H. destruct c, k; unfold page_pieces; rewrite H; simpl; destruct (truthyZ (off p)); simpl; auto. Qed.

Theorem limit_present_iff c k p : In PLimit (page_pieces c k p) <-> lim p <> None.
Proof.
  destruct p as [[n|] m lb tp]; destruct c, k; unfold page_pieces; simpl; destruct (truthyZ m); simpl;
    split; intro H; try discriminate; try tauto; try (now elim H); intuition discriminate.
Qed.

Theorem mssql_offset_forced k n m lb tp : k <> KUpdate ->
  page_pieces CMSSQL k (mkPage (Some n) m lb tp) = [POffset; PLimit].
Proof. intro H. destruct k; [reflexivity | reflexivity | now elim H]. Qed.

Theorem mssql_offset_zero_text k n : k <> KUpdate ->
  render_page CMSSQL k (pg (Some n) None) = " OFFSET 0 ROWS FETCH NEXT " ++ Z_to_string n ++ " ROWS ONLY".
Proof. intro H. destruct k; [reflexivity | reflexivity | now elim H]. Qed.

Theorem fetch_family_offset_first c k p : is_fetch c = true -> k <> KUpdate ->
  In (page_pieces c k p) [[]; [POffset]; [PLimit]; [POffset; PLimit]].
Proof.
  destruct c; try discriminate; intros _ Hk; destruct k; try (now elim Hk); unfold page_pieces;
    destruct (is_some (lim p)), (truthyZ (off p)); simpl; auto 6.
Qed.

Theorem limit_family_limit_first c k p : is_fetch c = false \/ k = KUpdate ->
  In (page_pieces c k p) [[]; [PLimit]; [POffset]; [PLimit; POffset]].
Proof.
  intros [H|H]; destruct c, k; try discriminate H; unfold page_pieces;
    destruct (is_some (lim p)), (truthyZ (off p)); simpl; auto 6.
Qed.

Theorem clickhouse_limit_by_first p x : lby p = Some x ->
  page_toks CClickHouse KSelect p = (limit_by_toks x ++ page_toks CClickHouse KSelect (set_lby None p))%list.
Proof. intro H. unfold page_toks, lby_toks. rewrite H. destruct p; reflexivity. Qed.

Theorem bare_offset_not_limit_grammar m : denote_toks FLimit ["OFFSET"; m] = None.
Proof. reflexivity. Qed.
Theorem fetch_before_offset_not_grammar r n m :
  denote_toks (FFetch r) ["FETCH"; "NEXT"; n; "ROWS"; "ONLY"; "OFFSET"; m; "ROWS"] = None.
Proof. reflexivity. Qed.
Theorem limit_after_by_only m n x :
  denote_toks FClickHouse ["LIMIT"; n; "OFFSET"; m; "LIMIT"; n; "BY"; x] = None.
Proof. simpl. unfold read_by. simpl. destruct (numtok n); destruct (numtok m); reflexivity. Qed.

(* the pieces depend on the slots only through None / 0 / non-zero *)
Theorem pieces_by_class c k p :
  page_pieces c k p = page_pieces c k (pg (sentinel 7 (classify (lim p))) (sentinel 5 (classify (off p)))).
Proof.
  destruct p as [[n|] [m|] lb tp]; unfold classify; simpl;
    try destruct (n =? 0)%Z eqn:En; try destruct (m =? 0)%Z eqn:Em;
    destruct c, k; unfold page_pieces, truthyZ; simpl; rewrite ?En, ?Em; reflexivity.
Qed.

(* position *)
Theorem select_position c d rest ob fu p :
  stmt_text c KSelect d rest ob fu p = select_head c d p rest ++ ob ++ render_page c KSelect p ++ fu.
Proof. reflexivity. Qed.
Theorem setop_position c d rest ob fu p :
  stmt_text c KSetOp d rest ob fu p = rest ++ ob ++ render_page c KSetOp p.
Proof. reflexivity. Qed.
Theorem update_position c d rest ob fu p :
  stmt_text c KUpdate d rest ob fu p = rest ++ render_page c KUpdate p.
Proof. reflexivity. Qed.

(* ------------------------------------------------------------------------------------------ *)
(* G. MSSQL TOP read back from the statement head                                              *)
(* ------------------------------------------------------------------------------------------ *)

Lemma tokens_kw w s : tok_ok w = true -> tokens (w ++ String " " s) = w :: tokens s.
Proof. intro H. exact (tokens_word_sp w s H). Qed.

Lemma tok_ok_paren z : tok_ok ("(" ++ Z_to_string z ++ ")") = true.
Proof.
  pose proof (tok_ok_Z z) as H. unfold tok_ok in *. apply andb_prop in H as [_ H].
  simpl. rewrite no_space_app, H. reflexivity.
Qed.

Lemma tokens_top z s :
  tokens ("TOP (" ++ Z_to_string z ++ ") " ++ s) = "TOP" :: ("(" ++ Z_to_string z ++ ")") :: tokens s.
Proof.
  change ("TOP (" ++ Z_to_string z ++ ") " ++ s) with ("TOP" ++ " " ++ ("(" ++ Z_to_string z ++ ") " ++ s)).
  rewrite tokens_word_sp by reflexivity. f_equal.
  replace ("(" ++ Z_to_string z ++ ") " ++ s) with (("(" ++ Z_to_string z ++ ")") ++ " " ++ s)
    by (simpl; now rewrite sapp_assoc).
  now rewrite tokens_word_sp by apply tok_ok_paren.
Qed.


Lemma tk_select s : tokens ("SELECT " ++ s) = "SELECT" :: tokens s.
Proof. exact (tokens_word_sp "SELECT" s eq_refl). Qed.
Lemma tk_distinct s : tokens ("DISTINCT " ++ s) = "DISTINCT" :: tokens s.
Proof. exact (tokens_word_sp "DISTINCT" s eq_refl). Qed.
Lemma tk_percent s : tokens ("PERCENT " ++ s) = "PERCENT" :: tokens s.
Proof. exact (tokens_word_sp "PERCENT" s eq_refl). Qed.
Lemma tk_ties s : tokens ("WITH TIES " ++ s) = "WITH" :: "TIES" :: tokens s.
Proof.
  change ("WITH TIES " ++ s) with ("WITH" ++ " " ++ ("TIES" ++ " " ++ s)).
  now rewrite !tokens_word_sp by reflexivity.
Qed.
Lemma app_nil_l' (s : string) : "" ++ s = s.
Proof. reflexivity. Qed.

Definition paren (s : string) : string := "(" ++ s ++ ")".
Arguments paren : simpl never.
Lemma unparen_paren' s : unparen (paren s) = Some s.
Proof. apply unparen_paren. Qed.

Definition top_tokens (p : page) : list string :=
  match top p with
  | Some (v, pc, ties) =>
      ["TOP"; paren (Z_to_string v)] ++ (if pc then ["PERCENT"] else []) ++ (if ties then ["WITH"; "TIES"] else [])
  | None => []
  end.

Lemma tokens_select_head (d : bool) p rest :
  tokens (select_head CMSSQL d p rest) =
  ("SELECT" :: (if d then ["DISTINCT"] else []) ++ top_tokens p ++ tokens rest)%list.
Proof.
  unfold select_head, top_sql, top_tokens. destruct p as [n m lb [[[v pc] ties]|]]; simpl top.
  - destruct d, pc, ties; rewrite ?sapp_assoc, ?app_nil_l', tk_select, ?tk_distinct, tokens_top, ?app_nil_l',
      ?tk_percent, ?app_nil_l', ?tk_ties; reflexivity.
  - destruct d; rewrite ?app_nil_l', tk_select, ?tk_distinct; reflexivity.
Qed.

Lemma unparen_Z z : unparen ("(" ++ Z_to_string z ++ ")") = Some (Z_to_string z).
Proof. apply unparen_paren. Qed.


Arguments kw : simpl never.
Ltac kwr := repeat match goal with |- context [kw ?a ?b] =>
   let v := eval vm_compute in (kw a b) in
   match v with true => change (kw a b) with true | false => change (kw a b) with false end end.

Theorem read_top_head d p rest :
  nonnegO (option_map (fun x => fst (fst x)) (top p)) = true -> rest_ok rest = true ->
  read_top (tokens (select_head CMSSQL d p rest)) = Some (top p).
Proof.
  intros Hv Hr. rewrite tokens_select_head. unfold top_tokens, rest_ok in *.
  destruct p as [n m lb [[[v pc] ties]|]]; simpl top in *.
  - simpl in Hv. apply Z.leb_le in Hv.
    destruct d, pc, ties; unfold read_top; cbn [List.app]; repeat (kwr; cbv iota beta); rewrite unparen_paren', (numtok_Z v Hv);
      repeat (kwr; cbv iota beta); try reflexivity.
    all: destruct (tokens rest) as [|a [|b r]]; try reflexivity.
    all: apply negb_true_iff in Hr; repeat (apply orb_false_elim in Hr as [Hr ?]).
    all: rewrite ?H, ?H0, ?H1, ?Hr; cbv iota beta; rewrite ?H, ?H0, ?H1, ?Hr; reflexivity.
  - destruct d; unfold read_top; cbn [List.app]; repeat (kwr; cbv iota beta).
    all: destruct (tokens rest) as [|a [|b r]]; try reflexivity.
    all: apply negb_true_iff in Hr; repeat (apply orb_false_elim in Hr as [Hr ?]).
    all: rewrite ?H, ?H0, ?H1, ?Hr; cbv iota beta; rewrite ?H, ?H0, ?H1, ?Hr; reflexivity.
Qed.
