(* ParsePrint.v — the generic print/parse theorem:
   for every engine table T satisfying a few finite sanity conditions and every expression tree e all of whose
   (parent position, child) pairs are parenthesised at least where the textbook rule requires ("dominated"),
   parsing the printed token list gives back exactly e.   Unbounded depth, any operator mix. *)
From PV Require Import Base Crit gen.TermsTable Parse lemmas.ParseMono.
From Coq Require Import Lia Arith.
Local Open Scope list_scope.

Section G.
Variable T : ptable.
Variable pol : pos -> expr -> bool.

(* finite sanity conditions on the engine table (each instance discharges them by computation) *)
Hypothesis H_prec : forall o, prec T o <= maxl T.
Hypothesis H_not : lvl_not T <= maxl T.
Hypothesis H_is : lvl_is T <= maxl T.
Hypothesis H_in : lvl_in T <= maxl T.
Hypothesis H_bet : lvl_between T <= maxl T.
(* nothing the operator loop consumes lives at NOT's level *)
Hypothesis H_not_free : forall t m, tok_level T t = Some m -> m <> lvl_not T.
(* BETWEEN's AND is not swallowed by the lower bound *)
Hypothesis H_and : prec T (BB BAnd) <= lvl_between T.

Notation parse := (parse T).
Notation descend := (descend T).
Notation loop := (loop T).
Notation parse_items := (parse_items T).
Notation parse_items1 := (parse_items1 T).
Notation parse_whens := (parse_whens T).
Notation level := (level T).
Notation pr := (pr pol).
Notation pr_items := (pr_items pol).
Notation pr_whens := (pr_whens pol).
Notation pr_else := (pr_else pol).
Notation atomlvl := (atomlvl T).
Notation maxl := (maxl T).

(* ---- dominated trees ---- *)
Definition okp (p : pos) (c : expr) : bool := implb (spec_needs T p c) (pol p c).

Fixpoint dom (e : expr) : bool :=
  match e with
  | EAtom _ => true
  | ENeg c => okp PNeg c && dom c
  | ENot c => okp PNot c && dom c
  | EBin o l r => okp (PBinL o) l && okp (PBinR o) r && dom l && dom r
  | EPost _ c => okp PPost c && dom c
  | EIn _ c items => okp PInL c && dom c && dom_items items
  | EBetween c lo hi => okp PBetE c && okp PBetLo lo && okp PBetHi hi && dom c && dom lo && dom hi
  | ECall _ args => dom_items args
  | ECase ws els => dom_whens ws && dom_else els
  end
with dom_items (l : elist) : bool := match l with ENil => true | ECons e r => dom e && dom_items r end
with dom_whens (l : ewlist) : bool := match l with EWNil => true | EWCons c v r => dom c && dom v && dom_whens r end
with dom_else (o : eopt) : bool := match o with EONone => true | EOSome e => dom e end.

(* ---- relational view of the parser ---- *)
Definition P k ts x := exists f, parse f k ts = Some x.
Definition L k a ts x := exists f, loop f k a ts = Some x.
Definition PI ts x := exists f, parse_items f ts = Some x.
Definition PI1 ts x := exists f, parse_items1 f ts = Some x.
Definition PW ts x := exists f, parse_whens f ts = Some x.

Definition cont k e rest x := if nonassoc T k then x = (e, rest) else L k e rest x.

Lemma atom_leb : Nat.leb atomlvl maxl = false.
Proof. apply Nat.leb_gt. unfold Parse.atomlvl. lia. Qed.

Definition starts_not (ts : list tok) : bool := match ts with KNot :: _ => true | _ => false end.

Lemma P_desc k ts a r x : k <= maxl -> (starts_not ts = true -> k <> lvl_not T) ->
  P (S k) ts (a, r) -> L k a r x -> P k ts x.
Proof.
  intros Hk Hn [f1 H1] [f2 H2]. exists (S (S (max f1 f2))). rewrite parse_S.
  apply Nat.leb_le in Hk; rewrite Hk.
  assert (D : descend (S (max f1 f2)) k ts = Some x).
  { rewrite descend_S. rewrite (mono_p T f1 (max f1 f2) _ _ _ (Nat.le_max_l _ _) H1).
    apply (mono_l T f2); auto using Nat.le_max_r. }
  destruct ts as [|t r0]; [exact D|]. destruct t; try exact D.
  destruct (Nat.eqb k (lvl_not T)) eqn:E; [|exact D].
  apply Nat.eqb_eq in E. exfalso. apply Hn; auto.
Qed.

Lemma P_not r c r' x : P (lvl_not T) r (c, r') -> L (lvl_not T) (ENot c) r' x -> P (lvl_not T) (KNot :: r) x.
Proof.
  intros [f1 H1] [f2 H2]. exists (S (max f1 f2)). rewrite parse_S.
  pose proof H_not as Hk. apply Nat.leb_le in Hk; rewrite Hk. rewrite Nat.eqb_refl.
  rewrite (mono_p T f1 (max f1 f2) _ _ _ (Nat.le_max_l _ _) H1).
  apply (mono_l T f2); auto using Nat.le_max_r.
Qed.

Lemma P_atom a r : P atomlvl (KAtom a :: r) (EAtom a, r).
Proof. exists 1. rewrite parse_S, atom_leb. reflexivity. Qed.
Lemma P_neg r c r' : P atomlvl r (c, r') -> P atomlvl (KNeg :: r) (ENeg c, r').
Proof. intros [f H]. exists (S f). rewrite parse_S, atom_leb. now rewrite H. Qed.
Lemma P_paren r c r' : P 0 r (c, KRP :: r') -> P atomlvl (KLP :: r) (c, r').
Proof. intros [f H]. exists (S f). rewrite parse_S, atom_leb. now rewrite H. Qed.
Lemma P_call g r args r' : PI r (args, KRP :: r') -> P atomlvl (KName g :: KLP :: r) (ECall g args, r').
Proof. intros [f H]. exists (S f). rewrite parse_S, atom_leb. now rewrite H. Qed.
Lemma P_case_noelse r ws r1 : PW r (ws, KEnd :: r1) -> P atomlvl (KCase :: r) (ECase ws EONone, r1).
Proof. intros [f H]. exists (S f). rewrite parse_S, atom_leb. now rewrite H. Qed.
Lemma P_case_else r ws r1 e r2 : PW r (ws, KElse :: r1) -> P 0 r1 (e, KEnd :: r2) ->
  P atomlvl (KCase :: r) (ECase ws (EOSome e), r2).
Proof.
  intros [f1 H1] [f2 H2]. exists (S (max f1 f2)). rewrite parse_S, atom_leb.
  rewrite (mono_w T f1 (max f1 f2) _ _ (Nat.le_max_l _ _) H1).
  rewrite (mono_p T f2 (max f1 f2) _ _ _ (Nat.le_max_r _ _) H2). reflexivity.
Qed.

(* head token is not consumed by the level-k loop *)
Definition quiet (k : nat) (ts : list tok) : Prop :=
  match ts with t :: _ => tok_level T t <> Some k | [] => True end.
(* head token, if an operator, lives at level <= j *)
Definition low (j : nat) (ts : list tok) : Prop :=
  match ts with t :: _ => forall m, tok_level T t = Some m -> m <= j | [] => True end.

Lemma low_quiet j k ts : low j ts -> j < k -> quiet k ts.
Proof. destruct ts as [|t r]; cbn; auto. intros H Hlt E. specialize (H _ E). lia. Qed.

Lemma L_stop k a ts : quiet k ts -> L k a ts (a, ts).
Proof.
  intros Q. exists 1. rewrite loop_S. destruct ts as [|t r]; auto.
  cbn in Q. destruct t; auto; cbn in Q.
  - destruct (Nat.eqb (prec T o) k) eqn:E; auto. apply Nat.eqb_eq in E. congruence.
  - destruct (Nat.eqb (lvl_is T) k) eqn:E; auto. apply Nat.eqb_eq in E. congruence.
  - destruct r as [|t2 r2]; auto. destruct t2; auto.
    destruct (Nat.eqb (lvl_in T) k) eqn:E; auto. apply Nat.eqb_eq in E. congruence.
  - destruct (Nat.eqb (lvl_between T) k) eqn:E; auto. apply Nat.eqb_eq in E. congruence.
Qed.

Lemma cont_stop k e rest : quiet k rest -> cont k e rest (e, rest).
Proof. intros Q. unfold cont. destruct (nonassoc T k); auto using L_stop. Qed.

Lemma L_bin k a o r rhs r' x : prec T o = k -> P (S k) r (rhs, r') -> cont k (EBin o a rhs) r' x ->
  L k a (KOp o :: r) x.
Proof.
  intros Hk [f1 H1] Hc. unfold cont in Hc. destruct (nonassoc T k) eqn:NA.
  - subst x. exists (S f1). rewrite loop_S. apply Nat.eqb_eq in Hk; rewrite Hk, H1, NA. reflexivity.
  - destruct Hc as [f2 H2]. exists (S (max f1 f2)). rewrite loop_S. apply Nat.eqb_eq in Hk; rewrite Hk.
    rewrite (mono_p T f1 (max f1 f2) _ _ _ (Nat.le_max_l _ _) H1), NA.
    apply (mono_l T f2); auto using Nat.le_max_r.
Qed.

Lemma L_post k a p r x : lvl_is T = k -> cont k (EPost p a) r x -> L k a (KPost p :: r) x.
Proof.
  intros Hk Hc. unfold cont in Hc. destruct (nonassoc T k) eqn:NA.
  - subst x. exists 1. rewrite loop_S. apply Nat.eqb_eq in Hk; rewrite Hk, NA. reflexivity.
  - destruct Hc as [f2 H2]. exists (S f2). rewrite loop_S. apply Nat.eqb_eq in Hk; rewrite Hk, NA. exact H2.
Qed.

Lemma L_in k a neg r items r' x : lvl_in T = k -> PI r (items, KRP :: r') -> cont k (EIn neg a items) r' x ->
  L k a (KIn neg :: KLP :: r) x.
Proof.
  intros Hk [f1 H1] Hc. unfold cont in Hc. destruct (nonassoc T k) eqn:NA.
  - subst x. exists (S f1). rewrite loop_S. apply Nat.eqb_eq in Hk; rewrite Hk, H1, NA. reflexivity.
  - destruct Hc as [f2 H2]. exists (S (max f1 f2)). rewrite loop_S. apply Nat.eqb_eq in Hk; rewrite Hk.
    rewrite (mono_i T f1 (max f1 f2) _ _ (Nat.le_max_l _ _) H1), NA.
    apply (mono_l T f2); auto using Nat.le_max_r.
Qed.

Lemma L_between k a r lo r1 hi r2 x : lvl_between T = k ->
  P (S k) r (lo, KOp (BB BAnd) :: r1) -> P (S k) r1 (hi, r2) -> cont k (EBetween a lo hi) r2 x ->
  L k a (KBetween :: r) x.
Proof.
  intros Hk [f1 H1] [f3 H3] Hc. unfold cont in Hc. apply Nat.eqb_eq in Hk. destruct (nonassoc T k) eqn:NA.
  - subst x. exists (S (max f1 f3)). rewrite loop_S, Hk.
    rewrite (mono_p T f1 (max f1 f3) _ _ _ (Nat.le_max_l _ _) H1).
    rewrite (mono_p T f3 (max f1 f3) _ _ _ (Nat.le_max_r _ _) H3), NA. reflexivity.
  - destruct Hc as [f2 H2]. exists (S (max (max f1 f3) f2)). rewrite loop_S, Hk.
    assert (A1 : f1 <= max (max f1 f3) f2) by lia. assert (A3 : f3 <= max (max f1 f3) f2) by lia.
    rewrite (mono_p T f1 _ _ _ _ A1 H1).
    rewrite (mono_p T f3 _ _ _ _ A3 H3), NA.
    apply (mono_l T f2); [lia | exact H2].
Qed.

(* item lists and WHEN lists *)
Definition not_rp (ts : list tok) : Prop := match ts with KRP :: _ => False | _ => True end.
Definition not_comma (ts : list tok) : Prop := match ts with KComma :: _ => False | _ => True end.
Definition not_when (ts : list tok) : Prop := match ts with KWhen :: _ => False | _ => True end.

Lemma PI_nil r : PI (KRP :: r) (ENil, KRP :: r).
Proof. exists 1. reflexivity. Qed.
Lemma PI_cons ts x : not_rp ts -> PI1 ts x -> PI ts x.
Proof.
  intros N [f H]. exists (S f). rewrite parse_items_S. destruct ts as [|t r]; auto. destruct t; auto. destruct N.
Qed.
Lemma PI1_last ts e r : P 0 ts (e, r) -> not_comma r -> PI1 ts (ECons e ENil, r).
Proof.
  intros [f H] N. exists (S f). rewrite parse_items1_S, H. destruct r as [|t r']; auto. destruct t; auto. destruct N.
Qed.
Lemma PI1_more ts e r rest r' : P 0 ts (e, KComma :: r) -> PI1 r (rest, r') -> PI1 ts (ECons e rest, r').
Proof.
  intros [f1 H1] [f2 H2]. exists (S (max f1 f2)). rewrite parse_items1_S.
  rewrite (mono_p T f1 (max f1 f2) _ _ _ (Nat.le_max_l _ _) H1).
  rewrite (mono_i1 T f2 (max f1 f2) _ _ (Nat.le_max_r _ _) H2). reflexivity.
Qed.
Lemma PW_nil ts : not_when ts -> PW ts (EWNil, ts).
Proof. intros N. exists 1. rewrite parse_whens_S. destruct ts as [|t r]; auto. destruct t; auto. destruct N. Qed.
Lemma PW_cons r c r1 v r2 ws r3 : P 0 r (c, KThen :: r1) -> P 0 r1 (v, r2) -> PW r2 (ws, r3) ->
  PW (KWhen :: r) (EWCons c v ws, r3).
Proof.
  intros [f1 H1] [f2 H2] [f3 H3]. exists (S (max (max f1 f2) f3)). rewrite parse_whens_S.
  rewrite (mono_p T f1 (max (max f1 f2) f3) _ _ _ ltac:(lia) H1).
  rewrite (mono_p T f2 (max (max f1 f2) f3) _ _ _ ltac:(lia) H2).
  rewrite (mono_w T f3 (max (max f1 f2) f3) _ _ ltac:(lia) H3). reflexivity.
Qed.

(* ---- climbing down from level k+d to level k over quiet input ---- *)
Lemma P_lift : forall d k ts a r, k + d <= S maxl -> P (k + d) ts (a, r) ->
   (forall i, k <= i < k + d -> quiet i r) ->
   (starts_not ts = true -> k + d <= lvl_not T) ->
   P k ts (a, r).
Proof.
  induction d as [|d IH]; intros k ts a r Hle HP Hq Hn.
  - now rewrite Nat.add_0_r in HP.
  - apply IH with (k := k); try lia.
    + replace (k + S d) with (S (k + d)) in HP by lia.
      eapply P_desc; [lia | | exact HP | apply L_stop, Hq; lia].
      intros Hs. specialize (Hn Hs). lia.
    + intros; apply Hq; lia.
    + intros Hs. specialize (Hn Hs). lia.
Qed.

Lemma level_le e : level e <= S maxl.
Proof.
  destruct e; cbn; unfold Parse.atomlvl; auto; try lia.
Qed.

(* ---- first token of a printed expression ---- *)
Lemma pr_nonempty e : pr e <> [].
Proof.
  destruct e; cbn [Parse.pr]; try discriminate; intros H; apply app_eq_nil in H as [_ H]; discriminate.
Qed.

Lemma starts_not_app (a b : list tok) : a <> [] -> starts_not (a ++ b) = starts_not a.
Proof. destruct a; cbn; congruence. Qed.

Lemma starts_not_par b l rest : l <> [] -> starts_not (par b l ++ rest) = true -> b = false /\ starts_not l = true.
Proof.
  destruct b; cbn [par]; intros Hl H.
  - cbn in H. discriminate.
  - rewrite starts_not_app in H by exact Hl. auto.
Qed.

Lemma lmin_ge j : j <= lmin T j.
Proof. unfold lmin. destruct (nonassoc T j); lia. Qed.

(* a child printed bare at a dominated position binds at least as tightly as the position asks *)
Lemma bare_ok p c : okp p c = true -> pol p c = true \/ ctxmin T p <= level c.
Proof.
  unfold okp, spec_needs. destruct (pol p c); auto. intros H. right.
  destruct (Nat.ltb (level c) (ctxmin T p)) eqn:E; [discriminate|]. apply Nat.ltb_ge in E. exact E.
Qed.

Lemma head_not : forall e, dom e = true -> starts_not (pr e) = true -> level e <= lvl_not T.
Proof.
  induction e as [a|c IHc|c IHc|o l IHl r IHr|p c IHc|neg c IHc items|c IHc lo IHlo hi IHhi|g args|ws els];
    intros D S; cbn [pr] in S; cbn [Parse.level]; try (cbn in S; discriminate); try lia.
  - (* EBin *)
    cbn [dom] in D. repeat (apply andb_prop in D as [D ?]).
    apply starts_not_par in S as [Hb S]; [|apply pr_nonempty].
    destruct (bare_ok _ _ D) as [Hp|Hle]; [congruence|]. cbn [ctxmin] in Hle.
    pose proof (lmin_ge (prec T o)). specialize (IHl ltac:(assumption) S). lia.
  - cbn [dom] in D. repeat (apply andb_prop in D as [D ?]).
    apply starts_not_par in S as [Hb S]; [|apply pr_nonempty].
    destruct (bare_ok _ _ D) as [Hp|Hle]; [congruence|]. cbn [ctxmin] in Hle.
    pose proof (lmin_ge (lvl_is T)). specialize (IHc ltac:(assumption) S). lia.
  - cbn [dom] in D. repeat (apply andb_prop in D as [D ?]).
    apply starts_not_par in S as [Hb S]; [|apply pr_nonempty].
    destruct (bare_ok _ _ D) as [Hp|Hle]; [congruence|]. cbn [ctxmin] in Hle.
    pose proof (lmin_ge (lvl_in T)). specialize (IHc ltac:(assumption) S). lia.
  - cbn [dom] in D. repeat (apply andb_prop in D as [D ?]).
    apply starts_not_par in S as [Hb S]; [|apply pr_nonempty].
    destruct (bare_ok _ _ D) as [Hp|Hle]; [congruence|]. cbn [ctxmin] in Hle.
    pose proof (lmin_ge (lvl_between T)). specialize (IHc ltac:(assumption) S). lia.
Qed.

(* ---- the main induction ---- *)
Definition after (j : nat) (e : expr) (rest : list tok) (x : expr * list tok) : Prop :=
  if Nat.leb j maxl then cont j e rest x else x = (e, rest).

Definition IH (c : expr) := dom c = true ->
  forall rest x, low (level c) rest -> after (level c) c rest x -> P (level c) (pr c ++ rest) x.

(* tokens that end every loop *)
Definition inert (ts : list tok) : Prop := match ts with t :: _ => tok_level T t = None | [] => True end.
Lemma inert_quiet ts k : inert ts -> quiet k ts.
Proof. destruct ts as [|t r]; cbn; auto. intros ->. discriminate. Qed.
Lemma inert_low ts j : inert ts -> low j ts.
Proof. destruct ts as [|t r]; cbn; auto. intros -> m. discriminate. Qed.

(* an operand printed with or without parentheses, in a context that asks for level m *)
Lemma operand c (IHc : IH c) (D : dom c = true) m b rest' :
  m <= S maxl -> (forall i, m <= i <= maxl -> quiet i rest') -> (b = true \/ m <= level c) ->
  P m (par b (pr c) ++ rest') (c, rest').
Proof.
  intros Hm Hq Hb. pose proof (level_le c) as Hlev.
  destruct b; cbn [par].
  - apply P_lift with (d := S maxl - m); try lia.
    + replace (m + (S maxl - m)) with (S maxl) by lia.
      cbn [app]. rewrite <- app_assoc. cbn [app]. apply P_paren.
      apply P_lift with (d := level c); try lia.
      * cbn [Nat.add]. apply IHc; auto. { cbn; intros; discriminate. }
        unfold after. destruct (Nat.leb (level c) maxl) eqn:E; auto.
        apply cont_stop. cbn. discriminate.
      * intros; cbn; discriminate.
      * cbn [Nat.add]. intros S. rewrite starts_not_app in S by apply pr_nonempty. apply head_not; auto.
    + intros i Hi. apply Hq. lia.
    + cbn. discriminate.
  - destruct Hb as [?|Hle]; try discriminate.
    apply P_lift with (d := level c - m); try lia.
    + replace (m + (level c - m)) with (level c) by lia.
      apply IHc; auto.
      * destruct rest' as [|t r]; cbn; auto. intros k Hk.
        destruct (le_gt_dec k (level c)); auto. exfalso.
        assert (k <= maxl).
        { destruct t; cbn in Hk; try discriminate; inversion Hk; subst; auto. }
        apply (Hq k); [lia|]. cbn. exact Hk.
      * unfold after. destruct (Nat.leb (level c) maxl) eqn:E; auto.
        apply cont_stop. apply Nat.leb_le in E. apply Hq. lia.
    + intros i Hi. apply Hq. lia.
    + replace (m + (level c - m)) with (level c) by lia.
      intros S. rewrite starts_not_app in S by apply pr_nonempty. apply head_not; auto.
Qed.

(* the leftmost child of a node living at level j, followed by the node's own operator token *)
Lemma left_operand l (IHl : IH l) (D : dom l = true) j b tk R y :
  j <= maxl -> tok_level T tk = Some j ->
  (b = true \/ lmin T j <= level l) ->
  L j l (tk :: R) y -> P j (par b (pr l) ++ tk :: R) y.
Proof.
  intros Hj Htk Hb Hy. pose proof (level_le l) as Hlev. pose proof (lmin_ge j) as Hlm.
  assert (Hn : starts_not (par b (pr l) ++ tk :: R) = true -> j <> lvl_not T).
  { intros _ E. apply (H_not_free _ _ Htk). exact E. }
  assert (Hq : forall i, S j <= i <= maxl -> quiet i (tk :: R)).
  { intros i Hi. cbn. rewrite Htk. intros E. inversion E. lia. }
  destruct b.
  - eapply P_desc; [exact Hj | exact Hn | | exact Hy].
    apply (operand l IHl D (S j) true); auto; try lia.
  - destruct Hb as [?|Hle]; try discriminate.
    destruct (Nat.eq_dec j (level l)) as [Heq|Hne].
    + (* left spine: the child lives at the same level and is printed bare *)
      cbn [par]. rewrite Heq. apply IHl; auto.
      * cbn. intros m Hm. rewrite Htk in Hm. inversion Hm. lia.
      * unfold after. rewrite <- Heq. apply Nat.leb_le in Hj as Hjb. rewrite Hjb.
        unfold cont. unfold lmin in Hle. destruct (nonassoc T j); [lia | exact Hy].
    + eapply P_desc; [exact Hj | exact Hn | | exact Hy].
      apply (operand l IHl D (S j) false); auto; try lia.
Qed.

Lemma after_at j e rest x : j <= maxl -> after j e rest x -> cont j e rest x.
Proof. intros Hj. unfold after. apply Nat.leb_le in Hj. now rewrite Hj. Qed.

Scheme expr_mind := Induction for expr Sort Prop
  with elist_mind := Induction for elist Sort Prop
  with ewlist_mind := Induction for ewlist Sort Prop
  with eopt_mind := Induction for eopt Sort Prop.
Combined Scheme expr_all_ind from expr_mind, elist_mind, ewlist_mind, eopt_mind.

(* statements for the list-like parts *)
Definition IHitems (l : elist) := dom_items l = true -> l <> ENil ->
  forall rest, inert rest -> not_comma rest -> PI1 (pr_items l ++ rest) (l, rest).
Definition IHwhens (l : ewlist) := dom_whens l = true ->
  forall rest, inert rest -> not_when rest -> PW (pr_whens l ++ rest) (l, rest).
Definition IHelse (o : eopt) := dom_else o = true ->
  match o with
  | EONone => True
  | EOSome e => forall rest, inert rest -> P 0 (pr e ++ rest) (e, rest)
  end.

(* a complete expression at level 0 followed by an inert token *)
Lemma whole c (IHc : IH c) (D : dom c = true) rest : inert rest -> P 0 (pr c ++ rest) (c, rest).
Proof.
  intros I. change (pr c) with (par false (pr c)).
  apply operand; auto; try lia. intros; apply inert_quiet; auto.
Qed.


(* first token of a printed expression *)
Definition opener (t : tok) : bool :=
  match t with KAtom _ | KNeg | KNot | KLP | KName _ | KCase => true | _ => false end.

Lemma pr_first : forall e, exists (t : tok) (r : list tok), pr e = t :: r /\ opener t = true.
Proof.
  assert (Hpar : forall b (l rest : list tok), (exists (t : tok) (r : list tok), l = t :: r /\ opener t = true) ->
            exists (t : tok) (r : list tok), (par b l ++ rest)%list = t :: r /\ opener t = true).
  { intros b l rest [t [r [-> Ho]]]. destruct b; cbn; eauto. }
  induction e as [a|c IHc|c IHc|o l IHl r IHr|p c IHc|neg c IHc items|c IHc lo IHlo hi IHhi|g args|ws els];
    cbn [Parse.pr]; try (eexists; eexists; split; [reflexivity|reflexivity]); apply Hpar; assumption.
Qed.

Lemma opener_not_rp e rest : not_rp (pr e ++ rest).
Proof. destruct (pr_first e) as [t [r [-> Ho]]]. cbn. destruct t; try discriminate; exact I. Qed.

Lemma items_parse l (IHl : IHitems l) (D : dom_items l = true) r :
  PI (pr_items l ++ KRP :: r) (l, KRP :: r).
Proof.
  destruct l as [|e l'].
  - cbn. apply PI_nil.
  - apply PI_cons.
    + cbn [Parse.pr_items]. destruct l'; [|rewrite <- app_assoc]; apply opener_not_rp.
    + apply IHl; auto; cbn; auto. discriminate.
Qed.

Lemma low_quiet_from j rest : low j rest -> forall i, S j <= i <= maxl -> quiet i rest.
Proof. intros H i Hi. eapply low_quiet; eauto. lia. Qed.

Lemma main_all :
  (forall e, IH e) /\ (forall l, IHitems l) /\ (forall l, IHwhens l) /\ (forall o, IHelse o).
Proof.
  apply expr_all_ind.
  - (* EAtom *)
    intros a D rest x Hlow Haft. cbn in *. unfold after in Haft. rewrite atom_leb in Haft. subst. apply P_atom.
  - (* ENeg *)
    intros c IHc D rest x Hlow Haft. cbn [Parse.level] in *. unfold after in Haft. rewrite atom_leb in Haft. subst.
    cbn [dom] in D. apply andb_prop in D as [Dk Dc].
    cbn [Parse.pr app]. apply P_neg. apply operand; auto; try (unfold Parse.atomlvl; lia).
    apply (bare_ok PNeg c Dk).
  - (* ENot *)
    intros c IHc D rest x Hlow Haft. cbn [Parse.level] in *. set (j := lvl_not T) in *.
    cbn [dom] in D. apply andb_prop in D as [Dk Dc].
    assert (Hqj : quiet j rest).
    { destruct rest as [|t r]; cbn; auto. intros E. exact (H_not_free _ _ E eq_refl). }
    cbn [Parse.pr app]. apply P_not with (c := c) (r' := rest).
    + apply operand; auto; try (unfold j; lia).
      * intros i Hi. destruct (Nat.eq_dec i j) as [->|Hne]; auto. eapply low_quiet; eauto. lia.
      * apply (bare_ok PNot c Dk).
    + apply after_at in Haft; [|exact H_not]. unfold cont in Haft.
      destruct (nonassoc T j); [subst x; apply L_stop; exact Hqj | exact Haft].
  - (* EBin *)
    intros o l IHl r IHr D rest x Hlow Haft. cbn [Parse.level] in *. set (j := prec T o) in *.
    assert (Hj : j <= maxl) by apply H_prec.
    cbn [dom] in D. repeat (apply andb_prop in D as [D ?]).
    apply after_at in Haft; [|exact Hj].
    cbn [Parse.pr]. rewrite <- app_assoc. cbn [app].
    set (R := par (pol (PBinR o) r) (pr r) ++ rest).
    assert (HR : P (S j) R (r, rest)).
    { unfold R. apply operand; auto; try lia.
      - apply low_quiet_from; auto.
      - apply (bare_ok (PBinR o) r); auto. }
    apply left_operand; auto.
    + apply (bare_ok (PBinL o) l); auto.
    + eapply L_bin; [reflexivity | exact HR | exact Haft].
  - (* EPost *)
    intros p c IHc D rest x Hlow Haft. cbn [Parse.level] in *. set (j := lvl_is T) in *.
    cbn [dom] in D. apply andb_prop in D as [Dk Dc].
    apply after_at in Haft; [|exact H_is].
    cbn [Parse.pr]. rewrite <- app_assoc. cbn [app].
    apply left_operand; auto.
    + apply (bare_ok PPost c Dk).
    + apply L_post; auto.
  - (* EIn *)
    intros neg c IHc items IHi D rest x Hlow Haft. cbn [Parse.level] in *. set (j := lvl_in T) in *.
    cbn [dom] in D. repeat (apply andb_prop in D as [D ?]).
    apply after_at in Haft; [|exact H_in].
    cbn [Parse.pr]. rewrite <- app_assoc. cbn [app]. rewrite <- app_assoc. cbn [app].
    apply left_operand; auto.
    + apply (bare_ok PInL c); auto.
    + eapply L_in; [reflexivity | apply items_parse; auto | exact Haft].
  - (* EBetween *)
    intros c IHc lo IHlo hi IHhi D rest x Hlow Haft. cbn [Parse.level] in *. set (j := lvl_between T) in *.
    cbn [dom] in D. repeat (apply andb_prop in D as [D ?]).
    apply after_at in Haft; [|exact H_bet].
    cbn [Parse.pr]. rewrite <- app_assoc. cbn [app]. rewrite <- app_assoc. cbn [app].
    set (R2 := par (pol PBetHi hi) (pr hi) ++ rest).
    apply left_operand; auto.
    + apply (bare_ok PBetE c); auto.
    + eapply L_between with (r1 := R2); [reflexivity | | | exact Haft].
      * apply operand; auto; try (unfold j; lia).
        -- intros i Hi. cbn. intros E. inversion E. unfold j in *. lia.
        -- apply (bare_ok PBetLo lo); auto.
      * unfold R2. apply operand; auto; try (unfold j; lia).
        -- apply low_quiet_from; auto.
        -- apply (bare_ok PBetHi hi); auto.
  - (* ECall *)
    intros g args IHa D rest x Hlow Haft. cbn [Parse.level] in *. unfold after in Haft. rewrite atom_leb in Haft. subst.
    cbn [dom] in D. cbn [Parse.pr app]. rewrite <- app_assoc. cbn [app].
    apply P_call. apply items_parse; auto.
  - (* ECase *)
    intros ws IHw els IHe D rest x Hlow Haft. cbn [Parse.level] in *. unfold after in Haft. rewrite atom_leb in Haft. subst.
    cbn [dom] in D. apply andb_prop in D as [Dw De].
    cbn [Parse.pr app]. destruct els as [|e].
    + cbn [Parse.pr_else app]. apply P_case_noelse. rewrite <- app_assoc. cbn [app]. apply IHw; cbn; auto.
    + cbn [Parse.pr_else]. rewrite <- !app_assoc. cbn [app].
      apply P_case_else with (r1 := pr e ++ KEnd :: rest).
      * apply IHw; cbn; auto.
      * rewrite <- ?app_assoc. cbn [app]. apply (IHe De). cbn. reflexivity.
  - (* ENil *)
    intros D N. congruence.
  - (* ECons *)
    intros e IHe r IHr D N rest Hin Hnc. cbn [dom_items] in D. apply andb_prop in D as [De Dr].
    cbn [Parse.pr_items]. destruct r as [|e2 r2].
    + apply PI1_last; auto. apply whole; auto.
    + rewrite <- app_assoc. cbn [app].
      apply PI1_more with (r := pr_items (ECons e2 r2) ++ rest).
      * apply whole; auto. cbn. reflexivity.
      * apply IHr; auto. discriminate.
  - (* EWNil *)
    intros D rest Hin Hnw. cbn. apply PW_nil; auto.
  - (* EWCons *)
    intros c IHc v IHv r IHr D rest Hin Hnw. cbn [dom_whens] in D. repeat (apply andb_prop in D as [D ?]).
    cbn [Parse.pr_whens]. cbn [app]. rewrite <- app_assoc. cbn [app]. rewrite <- app_assoc.
    apply PW_cons with (r1 := pr v ++ pr_whens r ++ rest) (r2 := pr_whens r ++ rest).
    + apply whole; auto. cbn. reflexivity.
    + apply whole; auto. destruct r; cbn; auto.
    + apply IHr; auto.
  - (* EONone *)
    intros D. exact I.
  - (* EOSome *)
    intros e IHe D rest Hin. cbn in D. apply whole; auto.
Qed.

(* THE THEOREM: a dominated tree re-parses, from level 0, to exactly itself (and any larger fuel gives the same answer). *)
Theorem parse_print e : dom e = true -> exists fuel, parse fuel 0 (pr e) = Some (e, []).
Proof.
  intros D. destruct main_all as [M _].
  assert (H : P 0 (pr e ++ []) (e, [])) by (apply whole; auto; exact I).
  rewrite app_nil_r in H. exact H.
Qed.

Theorem parse_fuel_mono f f' k ts x : f <= f' -> parse f k ts = Some x -> parse f' k ts = Some x.
Proof. apply mono_p. Qed.

End G.
