(* DdlApi.v - the builder methods as called (Table arguments go through _ddl_target first, 70f811c):
   every theorem about the builder on normalised calls lifts to the calls as written, and an alias on
   a Table argument makes no difference to any DDL statement *)
From Coq Require Import Lia Permutation.
From PV Require Import Base gen.C17Table Ddl lemmas.DdlStrings lemmas.DdlItems lemmas.DdlBuild lemmas.DdlCreate lemmas.DdlDrop lemmas.DdlIndex.

Lemma ddl_target_idem : forall t, ddl_target (ddl_target t) = ddl_target t.
Proof. reflexivity. Qed.
Lemma norm_ccall_idem : forall c, norm_ccall (norm_ccall c) = norm_ccall c.
Proof. intros []; reflexivity. Qed.
Lemma norm_icall_idem : forall c, norm_icall (norm_icall c) = norm_icall c.
Proof. intros [| |[|]| | |]; reflexivity. Qed.
Lemma norm_dcall_idem : forall c, norm_dcall (norm_dcall c) = norm_dcall c.
Proof. intros [k [| |]| |]; reflexivity. Qed.

(* only names matter: a table a caller may pass (any alias) is stored as an alias-free one *)
Lemma table_wide_target : forall q t, table_wide q t = true -> table_ok q (ddl_target t) = true.
Proof.
  intros q [n sc al] H. unfold table_wide in H. unfold table_ok, ddl_target. simpl in *.
  apply Bool.andb_true_iff in H as [H _]. now rewrite H.
Qed.

(* ---------- create ---------- *)
Lemma api_run_map : forall cls calls st, api_run cls st calls = run cls st (map norm_ccall calls).
Proof.
  induction calls as [|c r IH]; intros st; [reflexivity|]. simpl. unfold api_step.
  destruct (step cls st (norm_ccall c)); [apply IH | reflexivity].
Qed.

Lemma api_build_eq : forall cls t calls, api_build cls t calls = build cls (ddl_target t) (map norm_ccall calls).
Proof. intros. unfold api_build, build. now rewrite api_run_map. Qed.

Lemma norm_flag : forall c, is_flag_call c = true -> norm_ccall c = c.
Proof. intros [] H; try discriminate; reflexivity. Qed.
Lemma norm_reads_temporary : forall c, reads_temporary (norm_ccall c) = reads_temporary c.
Proof. intros []; reflexivity. Qed.
Lemma norm_structural : forall c, structural (norm_ccall c) = structural c.
Proof. intros []; reflexivity. Qed.

Lemma filter_map_norm : forall calls, filter structural (map norm_ccall calls) = map norm_ccall (filter structural calls).
Proof.
  induction calls as [|c r IH]; [reflexivity|]. simpl. rewrite norm_structural.
  destruct (structural c); simpl; now rewrite IH.
Qed.

Lemma existsb_map_norm : forall (p : ccall -> bool), (forall c, p (norm_ccall c) = p c) ->
  forall calls, existsb p (map norm_ccall calls) = existsb p calls.
Proof. intros p Hp. induction calls as [|c r IH]; [reflexivity|]. simpl. now rewrite Hp, IH. Qed.

Lemma filter_len_map_norm : forall (p : ccall -> bool), (forall c, p (norm_ccall c) = p c) ->
  forall calls, List.length (filter p (map norm_ccall calls)) = List.length (filter p calls).
Proof.
  intros p Hp. induction calls as [|c r IH]; [reflexivity|]. simpl. rewrite Hp.
  destruct (p c); simpl; now rewrite IH.
Qed.

Lemma simple_program_norm : forall calls, simple_program (map norm_ccall calls) = simple_program calls.
Proof.
  intros calls. unfold simple_program, count_calls.
  rewrite !existsb_map_norm by (intros []; reflexivity).
  rewrite !filter_len_map_norm by (intros []; reflexivity). reflexivity.
Qed.

Lemma create_frag_norm : forall cls calls, create_frag cls (map norm_ccall calls) = create_frag cls calls.
Proof. intros. unfold create_frag. now rewrite existsb_map_norm by (intros []; reflexivity). Qed.

(* the description of a program as written: that of the normalised program *)
Definition api_spec_ok (q : quote) (t : table) (calls : list ccall) : bool :=
  spec_ok q (ddl_target t) (map norm_ccall calls).
Definition api_ast_of (t : table) (calls : list ccall) : create_ast := ast_of (ddl_target t) (map norm_ccall calls).
Definition api_state_of (t : table) (calls : list ccall) : cstate := state_of (ddl_target t) (map norm_ccall calls).

Theorem api_create_roundtrip : forall cls t calls st,
  api_build cls t calls = Ok st -> api_spec_ok (create_quote cls) t calls = true ->
  parse_create (create_quote cls) (render_create cls st) = Some (api_ast_of t calls).
Proof. intros cls t calls st H Hs. rewrite api_build_eq in H. exact (create_roundtrip_all _ _ _ _ H Hs). Qed.

Theorem api_build_state : forall cls t calls st, api_build cls t calls = Ok st -> st = api_state_of t calls.
Proof. intros cls t calls st H. rewrite api_build_eq in H. exact (build_state _ _ _ _ H). Qed.

Theorem api_accepted_create_frag : forall cls t calls st, api_build cls t calls = Ok st -> create_frag cls calls = true.
Proof.
  intros cls t calls st H. rewrite api_build_eq in H. rewrite <- create_frag_norm. exact (accepted_create_frag _ _ _ _ H).
Qed.

Theorem api_order_invariant : forall cls t c1 c2 s1 s2,
  api_build cls t c1 = Ok s1 -> api_build cls t c2 = Ok s2 ->
  Permutation c1 c2 -> filter structural c1 = filter structural c2 ->
  s1 = s2 /\ render_create cls s1 = render_create cls s2.
Proof.
  intros cls t c1 c2 s1 s2 H1 H2 Hp Hf. rewrite api_build_eq in H1, H2.
  eapply build_order_invariant; eauto.
  - now apply Permutation_map.
  - now rewrite !filter_map_norm, Hf.
Qed.

Theorem api_flag_call_commutes : forall cls l1 f c l2 st, is_flag_call f = true ->
  (is_call_temporary f && reads_temporary c)%bool = false ->
  api_run cls st (l1 ++ f :: c :: l2) = api_run cls st (l1 ++ c :: f :: l2).
Proof.
  intros cls l1 f c l2 st Hf Hc. rewrite !api_run_map, !map_app. simpl map. rewrite (norm_flag f Hf).
  apply flag_call_commutes; auto. now rewrite norm_reads_temporary.
Qed.

Theorem api_create_guards : forall cls st,
  (forall t, is_some (s_table st) = true -> api_step cls st (KCreateTable t) = Err "AttributeError")
  /\ (forall ns, pk_set st = true -> api_step cls st (KPrimaryKey ns) = Err "AttributeError")
  /\ (forall a t b od ou, fk_set st = true -> api_step cls st (KForeignKey a t b od ou) = Err "AttributeError")
  /\ (forall cs, is_some (s_as_select st) = true -> api_step cls st (KColumns cs) = Err "AttributeError")
  /\ (forall q, nonempty (s_columns st) = true -> api_step cls st (KAsSelect q) = Err "AttributeError")
  /\ ((has_vertica_flags cls && s_temporary st)%bool = false ->
      api_step cls st KLocal = Err "AttributeError" /\ api_step cls st KPreserveRows = Err "AttributeError").
Proof.
  intros cls st. destruct (create_guards cls st) as (G1 & G2 & G3 & G4 & G5 & G6). unfold api_step. simpl.
  repeat split; intros; auto; now apply G6.
Qed.

Theorem api_simple_program_accepted : forall cls t calls, simple_program calls = true -> create_frag cls calls = true ->
  exists st, api_build cls t calls = Ok st.
Proof.
  intros cls t calls H Hu. rewrite api_build_eq. apply simple_program_accepted.
  - now rewrite simple_program_norm.
  - now rewrite create_frag_norm.
Qed.

(* ---------- index ---------- *)
Lemma api_ibuild_map : forall i calls, api_ibuild i calls = ibuild i (map norm_icall calls).
Proof.
  intros i calls. unfold api_ibuild, ibuild. generalize (mk_istate i [] None [] false false).
  induction calls as [|c r IH]; intros st; [reflexivity|]. simpl. apply IH.
Qed.

Theorem api_index_roundtrip : forall i calls, index_frag (api_ibuild i calls) = true ->
  exists s, render_index (api_ibuild i calls) = Ok s /\ parse_index s = Some (index_ast_of i (map norm_icall calls)).
Proof. intros i calls H. rewrite api_ibuild_map in *. now apply index_roundtrip. Qed.

(* ---------- drop ---------- *)
Lemma api_drun_map : forall cls calls st, api_drun cls st calls = drun cls st (map norm_dcall calls).
Proof.
  induction calls as [|c r IH]; intros st; [reflexivity|]. simpl.
  destruct (dstep cls st (norm_dcall c)); [apply IH | reflexivity].
Qed.

Lemma last_cluster_norm : forall calls, last_cluster (map norm_dcall calls) = last_cluster calls.
Proof.
  intros calls. unfold last_cluster. generalize (@None string). induction calls as [|c r IH]; intros a; [reflexivity|].
  simpl. destruct c as [k0 [| |]| |]; simpl; apply IH.
Qed.
Lemma if_exists_norm : forall calls, existsb is_dcall_if_exists (map norm_dcall calls) = existsb is_dcall_if_exists calls.
Proof.
  induction calls as [|c r IH]; [reflexivity|]. simpl. rewrite IH. destruct c as [k0 [| |]| |]; reflexivity.
Qed.

Theorem api_drop_roundtrip : forall cls calls st k tg,
  api_drun cls init_dstate calls = Ok st ->
  last_drop (map norm_dcall calls) = Some (k, tg) ->
  target_ok (drop_quote cls) tg = true ->
  (match last_cluster calls with Some c => name_ok cluster_quote c | None => true end) = true ->
  parse_drop (drop_quote cls) cluster_quote (render_drop cls st)
  = Some (drop_ast_of (mk_drop_spec k tg (existsb is_dcall_if_exists calls) (last_cluster calls))).
Proof.
  intros cls calls st k tg H Hd Ht Hc. rewrite api_drun_map in H.
  pose proof (last_cluster_norm calls) as E1. pose proof (if_exists_norm calls) as E2.
  rewrite <- E1, <- E2. apply drop_roundtrip; auto. now rewrite E1.
Qed.

Theorem api_drop_program_accepted : forall cls k tg pre post,
  (is_ch_kind k && negb (has_clickhouse_drops cls))%bool = false ->
  forallb is_dcall_if_exists pre = true -> forallb is_dcall_if_exists post = true ->
  exists st, api_drun cls init_dstate (pre ++ DDrop k tg :: post) = Ok st.
Proof.
  intros cls k tg pre post Hk Hpre Hpost. rewrite api_drun_map, map_app. simpl map.
  assert (N : forall l, forallb is_dcall_if_exists l = true -> map norm_dcall l = l).
  { induction l as [|c r IH]; intros H; [reflexivity|]. simpl in H. apply Bool.andb_true_iff in H as [H1 H2].
    destruct c; try discriminate. simpl. now rewrite IH. }
  rewrite (N pre Hpre), (N post Hpost).
  destruct tg as [n|t|s]; simpl norm_dcall; now apply drop_program_accepted.
Qed.

(* ---------- an alias on a Table argument makes no difference to any DDL statement ---------- *)
Theorem alias_independent :
  (forall cls t calls, create_text cls t calls = create_text cls (ddl_target t) (map norm_ccall calls))
  /\ (forall i calls, index_text i calls = index_text i (map norm_icall calls))
  /\ (forall cls calls, drop_text cls calls = drop_text cls (map norm_dcall calls)).
Proof.
  split; [|split].
  - intros. unfold create_text. rewrite !api_build_eq, ddl_target_idem, map_map.
    now rewrite (map_ext _ _ norm_ccall_idem).
  - intros. unfold index_text. rewrite !api_ibuild_map, map_map. now rewrite (map_ext _ _ norm_icall_idem).
  - intros. unfold drop_text. rewrite !api_drun_map, map_map. now rewrite (map_ext _ _ norm_dcall_idem).
Qed.
