(* GuardsQLemmas.v — the guard table of QueryBuilder and its dialect subclasses is exact on the
   fragment frag_q (proofs for property C14). *)
From PV Require Import Base Guards lemmas.GuardsLemmas.
From Coq Require Import Lia.
Local Open Scope list_scope.

(* ------------------------------------------------------------------------------------------ *)
(* lists                                                                                       *)
(* ------------------------------------------------------------------------------------------ *)
Lemma filter_nil_forallb : forall A (f : A -> bool) l,
  (match filter (fun x => negb (f x)) l with [] => true | _ => false end) = forallb f l.
Proof.
  intros A f l. induction l as [|a l IH]; cbn; auto.
  destruct (f a); cbn; auto.
Qed.

Lemma forallb_negb_existsb_in : forall A (P Q : A -> bool) l,
  (forall x, In x l -> P x = negb (Q x)) -> forallb P l = negb (existsb Q l).
Proof.
  intros A P Q l. induction l as [|a l IH]; cbn; intro H; auto.
  rewrite (H a) by auto. rewrite IH by auto. now rewrite negb_orb.
Qed.

Lemma mem_app : forall x l1 l2, mem x (l1 ++ l2) = mem x l1 || mem x l2.
Proof. intros. unfold mem. apply existsb_app. Qed.
Lemma mem_some_map : forall x l, mem (Some x) (map Some l) = existsb (tbl_eqb x) l.
Proof. intros x l. induction l as [|a l IH]; cbn; auto. now rewrite <- IH. Qed.
Lemma mem_none_map : forall l, mem None (map Some l) = false.
Proof. induction l; cbn; auto. Qed.
Lemma mem_some_joins : forall x (js : list jrec),
  mem (Some x) (map (fun j => Some (j_item j)) js) = existsb (fun j => tbl_eqb x (j_item j)) js.
Proof. intros x js. induction js as [|j js IH]; cbn; auto. now rewrite <- IH. Qed.
Lemma mem_none_joins : forall (js : list jrec), mem None (map (fun j => Some (j_item j)) js) = false.
Proof. induction js; cbn; auto. Qed.

(* ------------------------------------------------------------------------------------------ *)
(* select                                                                                      *)
(* ------------------------------------------------------------------------------------------ *)
Definition is_sstr (t : selterm) : bool := match t with SStr _ => true | _ => false end.

Lemma sel1_from : forall s t s', sel1 s t = Ok s' -> q_from s' = q_from s.
Proof.
  intros s t s'. destruct t as [star| |]; unfold sel1, sel_field; cbn.
  - destruct (q_from s) eqn:E; [discriminate|]. destruct star, (q_star s); intro H; injection H as <-; cbn; auto.
  - destruct (q_star s); intro H; injection H as <-; cbn; auto.
  - intro H; injection H as <-; cbn; auto.
Qed.
Lemma sel1_err : forall s t k, sel1 s t = Err k <-> (q_from s = [] /\ is_sstr t = true /\ k = QueryExc).
Proof.
  intros s t k. destruct t as [star| |]; unfold sel1, sel_field; cbn.
  - destruct (q_from s); [|destruct star, (q_star s)]; split; intro H; try discriminate; try tauto.
    + injection H as <-. auto.
    + destruct H as [_ [_ ->]]. auto.
    + destruct H as [H _]; discriminate.
    + destruct H as [H _]; discriminate.
    + destruct H as [H _]; discriminate.
    + destruct H as [H _]; discriminate.
  - destruct (q_star s); split; intro H; try discriminate; destruct H as [_ [H _]]; discriminate.
  - split; intro H; try discriminate; destruct H as [_ [H _]]; discriminate.
Qed.
Lemma select_err : forall ts s k,
  fold_res sel1 s ts = Err k <-> (q_from s = [] /\ existsb is_sstr ts = true /\ k = QueryExc).
Proof.
  induction ts as [|t ts IH]; intros s k; cbn.
  - split; [discriminate|]. intros [_ [H _]]. discriminate.
  - destruct (sel1 s t) as [s'|e] eqn:E.
    + rewrite IH. rewrite (sel1_from _ _ _ E).
      assert (Hn : ~ (q_from s = [] /\ is_sstr t = true)).
      { intros [H1 H2]. destruct t; try discriminate. unfold sel1 in E. rewrite H1 in E. discriminate. }
      split; intros [H1 [H2 H3]].
      * repeat split; auto; try (rewrite H2; apply orb_true_r).
      * repeat split; auto; try (apply orb_prop in H2; destruct H2 as [H2|H2]; auto; exfalso; apply Hn; auto).
    + pose proof (proj1 (sel1_err s t e) E) as [H1 [H2 H3]]. subst e.
      split.
      * intro H. injection H as <-. rewrite H2. auto.
      * intros [_ [_ ->]]. auto.
Qed.

(* ------------------------------------------------------------------------------------------ *)
(* joins                                                                                       *)
(* ------------------------------------------------------------------------------------------ *)
Definition available (s : qst) (item : tbl) : list tref :=
  base_tables s ++ map (fun j => Some (j_item j)) (q_joins s) ++ [Some item].

Lemma available_some : forall s item x, mem (Some x) (available s item) = join_source s item x.
Proof.
  intros s item x. unfold available, base_tables, join_source.
  rewrite !mem_app, !mem_some_map, mem_some_joins. cbn.
  destruct (q_update s) as [u|]; cbn;
    destruct (tbl_eqb x item), (existsb (tbl_eqb x) (q_from s)), (existsb (tbl_eqb x) (q_with s)),
             (existsb (fun j => tbl_eqb x (j_item j)) (q_joins s)); try destruct (ptab_eqb _ _); try destruct (tbl_eqb x (TTab u)); reflexivity.
Qed.
Lemma available_none : forall s item, mem None (available s item) = is_none (q_update s).
Proof.
  intros s item. unfold available, base_tables.
  rewrite !mem_app, !mem_none_map, mem_none_joins. cbn.
  destruct (q_update s); reflexivity.
Qed.
Lemma validate_on_forallb : forall s item ts,
  validate_on s item ts = forallb (fun t => mem t (available s item) || tref_eqb t None) ts.
Proof.
  intros. unfold validate_on. fold (available s item).
  rewrite <- (filter_nil_forallb _ (fun t => mem t (available s item) || tref_eqb t None)).
  assert (E : forall l, filter (fun t => negb (mem t (available s item)) && negb (tref_eqb t None)) l
                      = filter (fun t => negb (mem t (available s item) || tref_eqb t None)) l).
  { induction l as [|a l IH]; cbn; auto. rewrite negb_orb, IH. reflexivity. }
  now rewrite E.
Qed.

(* the set of fields: deduplication by rendered key *)
Lemma dedup_in : forall l seen f, In f (dedup_fields seen l) -> In f l.
Proof.
  induction l as [|g l IH]; cbn; intros seen f H; auto.
  destruct (existsb (String.eqb (field_key g)) seen).
  - right. eapply IH; eauto.
  - destruct H as [->|H]; auto. right. eapply IH; eauto.
Qed.
Lemma dedup_repr : forall l seen f, In f l ->
  existsb (String.eqb (field_key f)) seen = true \/
  exists g, In g (dedup_fields seen l) /\ field_key g = field_key f.
Proof.
  induction l as [|h l IH]; cbn; intros seen f Hin; [tauto|].
  destruct Hin as [->|Hin].
  - destruct (existsb (String.eqb (field_key f)) seen) eqn:E; auto.
    right. exists f. cbn. auto.
  - destruct (existsb (String.eqb (field_key h)) seen) eqn:E.
    + apply IH; auto.
    + destruct (IH (field_key h :: seen) f Hin) as [H|[g [Hg Hk]]].
      * cbn in H. apply orb_prop in H. destruct H as [H|H]; auto.
        apply String.eqb_eq in H. right. exists h. cbn. auto.
      * right. exists g. cbn. auto.
Qed.

Definition coherent (l : list jfield) : Prop :=
  forall f g, In f l -> In g l -> field_key f = field_key g -> fst f = fst g.
Lemma keys_coherent_coherent : forall l, keys_coherent l = true -> coherent l.
Proof.
  intros l H f g Hf Hg Hk. unfold keys_coherent in H.
  rewrite forallb_forall in H. specialize (H f Hf). rewrite forallb_forall in H. specialize (H g Hg).
  rewrite Hk, String.eqb_refl in H. cbn in H. now apply tref_eqb_eq.
Qed.

Lemma dedup_forallb : forall (P : tref -> bool) l, coherent l ->
  forallb P (map fst (dedup_fields [] l)) = forallb P (map fst l).
Proof.
  intros P l Hc.
  destruct (forallb P (map fst l)) eqn:E.
  - apply forallb_forall. intros x Hx. apply in_map_iff in Hx. destruct Hx as [f [<- Hf]].
    rewrite forallb_forall in E. apply E. apply in_map. eapply dedup_in; eauto.
  - destruct (forallb P (map fst (dedup_fields [] l))) eqn:E2; auto.
    rewrite <- E. symmetry. apply forallb_forall. intros x Hx. apply in_map_iff in Hx. destruct Hx as [f [<- Hf]].
    destruct (dedup_repr l [] f Hf) as [H|[g [Hg Hk]]]; [discriminate|].
    rewrite forallb_forall in E2.
    rewrite <- (Hc g f (dedup_in _ _ _ Hg) Hf Hk). apply E2. now apply in_map.
Qed.
Lemma dedup_existsb : forall (P : tref -> bool) l, coherent l ->
  existsb P (map fst (dedup_fields [] l)) = existsb P (map fst l).
Proof.
  intros P l Hc.
  pose proof (dedup_forallb (fun x => negb (P x)) l Hc) as H.
  assert (Hn : forall m, forallb (fun x => negb (P x)) m = negb (existsb P m)).
  { induction m; cbn; auto. rewrite IHm. now rewrite negb_orb. }
  rewrite !Hn in H.
  destruct (existsb P (map fst (dedup_fields [] l))), (existsb P (map fst l)); cbn in H; congruence.
Qed.

Lemma join_on_exact : forall s item crit,
  validate_on s item (crit_all_tables crit) = negb (names_foreign_table s item crit).
Proof.
  intros s item crit.
  rewrite validate_on_forallb. unfold names_foreign_table.
  apply forallb_negb_existsb_in. intros [x|] Hin.
  - rewrite available_some. cbn. now rewrite orb_false_r, negb_involutive.
  - cbn. now rewrite orb_true_r.
Qed.

Lemma on_field_valid : forall s item f0 r, q_from s = f0 :: r -> validate_on s item [Some f0; Some item] = true.
Proof.
  intros s item f0 r Hf. rewrite validate_on_forallb. cbn [forallb].
  rewrite !available_some. unfold join_source. rewrite Hf. cbn. rewrite !tbl_eqb_refl. cbn.
  now rewrite !orb_true_r.
Qed.

(* ------------------------------------------------------------------------------------------ *)
(* PostgreSQL RETURNING                                                                         *)
(* ------------------------------------------------------------------------------------------ *)
Definition no_critless (s : qst) : bool := negb (existsb (fun j => is_none (j_crit j)) (q_joins s)).
Definition in_targets (s : qst) (f : tref) : bool :=
  mem f [option_map TTab (q_insert s); option_map TTab (q_update s)].
Definition not_base (s : qst) (tables : list ptab) : bool :=
  existsb (fun p => negb (existsb (tbl_eqb (TTab p)) (q_from s ++ map TTab (join_tables s)))) tables.

Lemma validate_ret1_ok : forall s tables f u,
  is_dml s = true -> no_critless s = true ->
  validate_ret1 s tables (Ok u) f = if negb (in_targets s f) && not_base s tables then Err QueryExc else Ok tt.
Proof.
  intros s tables f u Hd Hc. unfold validate_ret1. rewrite Hd.
  unfold no_critless in Hc. apply negb_true_iff in Hc. rewrite Hc. reflexivity.
Qed.
Lemma validate_ret_fold : forall s tables fields acc,
  is_dml s = true -> no_critless s = true ->
  fold_left (validate_ret1 s tables) fields acc =
  match acc with
  | Err e => Err e
  | Ok _ => if existsb (fun f => negb (in_targets s f)) fields && not_base s tables then Err QueryExc else Ok tt
  end.
Proof.
  intros s tables fields. induction fields as [|f fields IH]; intros acc Hd Hc.
  - cbn. destruct acc as [[]|]; auto.
  - cbn [fold_left existsb]. rewrite IH by auto. destruct acc as [u|e]; [|reflexivity].
    rewrite validate_ret1_ok by auto.
    destruct (negb (in_targets s f)), (not_base s tables),
             (existsb (fun f0 => negb (in_targets s f0)) fields); reflexivity.
Qed.
Lemma validate_ret_nil : forall s tables, validate_ret s [] tables = Ok tt.
Proof. reflexivity. Qed.
Lemma validate_ret_spec : forall s fields tables,
  is_dml s = true -> no_critless s = true ->
  validate_ret s fields tables =
  if existsb (fun f => negb (in_targets s f)) fields && not_base s tables then Err QueryExc else Ok tt.
Proof. intros. unfold validate_ret. now rewrite validate_ret_fold. Qed.

Definition one_target (s : qst) : bool := is_none (q_insert s) || is_none (q_update s).

Lemma in_targets_none : forall s, one_target s = true -> in_targets s None = true.
Proof.
  intros s H. unfold in_targets, one_target in *. cbn.
  destruct (q_insert s), (q_update s); cbn in *; auto.
Qed.
Lemma in_targets_some : forall s p,
  in_targets s (Some (TTab p)) = optab_eqb (Some p) (q_insert s) || optab_eqb (Some p) (q_update s).
Proof.
  intros s p. unfold in_targets. cbn.
  destruct (q_insert s), (q_update s); cbn; rewrite ?orb_false_r; auto.
Qed.

Lemma somes_in : forall A (l : list (option A)) a, In (Some a) l <-> In a (somes l).
Proof.
  intros A l a. induction l as [|[b|] l IH]; cbn; try tauto.
  - rewrite <- IH. split; intros [H|H]; auto; left; congruence.
  - rewrite <- IH. split; [intros [H|H]; [discriminate|auto] | auto].
Qed.

Lemma single_table_eq : forall t p q, single_table t = true -> In p (term_tables t) -> In q (term_tables t) -> p = q.
Proof.
  intros t p q H Hp Hq. unfold single_table in H.
  destruct (term_tables t) as [|h r]; [contradiction|].
  rewrite forallb_forall in H.
  assert (E : forall x, In x (h :: r) -> x = h).
  { intros x [<-|Hx]; auto. symmetry. apply ptab_eqb_eq. auto. }
  rewrite (E p Hp), (E q Hq). reflexivity.
Qed.

Lemma existsb_app_base : forall p s,
  existsb (tbl_eqb (TTab p)) (q_from s ++ map TTab (join_tables s)) =
  existsb (tbl_eqb (TTab p)) (q_from s) || existsb (ptab_eqb p) (join_tables s).
Proof.
  intros p s. rewrite existsb_app. f_equal.
  induction (join_tables s) as [|a l IH]; cbn; auto. now rewrite IH.
Qed.

(* the validation of one term agrees with "some field is not the statement's own" *)
Lemma term_validate_exact : forall s t,
  is_dml s = true -> one_target s = true -> single_table t = true -> keys_coherent (rfields_j t) = true ->
  (existsb (fun f => negb (in_targets s f)) (term_fields t) && not_base s (term_tables t))
  = existsb (fun f => negb (own_field s (fst f))) (rfields t).
Proof.
  intros s t Hd Ho Hs Hk.
  unfold term_fields. rewrite dedup_existsb by now apply keys_coherent_coherent.
  destruct (existsb (fun f => negb (own_field s (fst f))) (rfields t)) eqn:E.
  - (* a foreign field: it is outside the targets, and its table is outside FROM and the joins *)
    apply existsb_exists in E. destruct E as [[[p|] n] [Hin Hown]]; cbn [own_field fst negb] in Hown; [|discriminate].
    apply negb_true_iff in Hown.
    apply orb_false_elim in Hown. destruct Hown as [Hown H4].
    apply orb_false_elim in Hown. destruct Hown as [Hown H3].
    apply andb_true_intro. split.
    + apply existsb_exists. exists (Some (TTab p)). split.
      * unfold rfields_j. rewrite map_map. cbn. apply in_map_iff. exists (Some p, n). auto.
      * rewrite in_targets_some. now rewrite Hown.
    + unfold not_base. apply existsb_exists. exists p. split.
      * unfold term_tables. apply somes_in. apply in_map_iff. exists (Some p, n). auto.
      * rewrite existsb_app_base. now rewrite H3, H4.
  - (* no foreign field *)
    destruct (existsb (fun f => negb (in_targets s f)) (map fst (rfields_j t))) eqn:E1; cbn; auto.
    destruct (not_base s (term_tables t)) eqn:E2; auto.
    exfalso.
    apply existsb_exists in E1. destruct E1 as [f [Hf Hnt]].
    unfold rfields_j in Hf. rewrite map_map in Hf. cbn in Hf. apply in_map_iff in Hf.
    destruct Hf as [[[p|] n] [<- Hin]]; cbn [fst option_map] in Hnt.
    2:{ rewrite in_targets_none in Hnt by auto. discriminate. }
    unfold not_base in E2. apply existsb_exists in E2. destruct E2 as [q [Hq Hnb]].
    assert (Hp : In p (term_tables t)).
    { unfold term_tables. apply somes_in. apply in_map_iff. exists (Some p, n). auto. }
    rewrite (single_table_eq t q p Hs Hq Hp) in Hnb.
    assert (Hown : negb (own_field s (fst (Some p, n))) = true).
    { cbn [own_field fst]. rewrite in_targets_some in Hnt. apply negb_true_iff in Hnt. rewrite Hnt. cbn [orb].
      rewrite existsb_app_base in Hnb. apply negb_true_iff in Hnb. now rewrite Hnb. }
    assert (existsb (fun f => negb (own_field s (fst f))) (rfields t) = true).
    { apply existsb_exists. exists (Some p, n). auto. }
    congruence.
Qed.

(* everything the RETURNING guard reads, except _return_star, is left alone by returning() *)
Definition set_rstar (s : qst) (b : bool) : qst :=
  set_pg s (pg_conflict s) (pg_fields s) (pg_nothing s) (pg_updates s) b.
Definition skipped (star : bool) (t : rterm) : bool :=
  star && match t with RStr false | RField _ _ => true | _ => false end.
Definition star_term (t : rterm) : bool := match t with RStr true => true | _ => false end.

Record ret_inv (s : qst) : Prop := {
  ri_dml : is_dml s = true;
  ri_one : one_target s = true
}.
Definition term_ok (s : qst) (t : rterm) : Prop :=
  single_table t = true /\ keys_coherent (rfields_j t) = true /\ (needs_crit t = false \/ no_critless s = true)
  /\ (t = RStr false -> is_some (q_insert s) || is_some (q_update s) || negb (q_delete s) || truthy (List.length (q_from s)) = true).

Lemma set_rstar_same : forall s b t, ret_bad (set_rstar s b) t = ret_bad s t.
Proof. reflexivity. Qed.

Lemma validate_fieldless : forall s t, has_fields t = false ->
  validate_ret s (term_fields t) (term_tables t) = Ok tt.
Proof.
  intros s t H. unfold has_fields in H. unfold term_fields, rfields_j.
  destruct (rfields t); [reflexivity|discriminate].
Qed.

Lemma ret1_exact : forall s t, ret_inv s -> term_ok s t ->
  ret1 s t = if skipped (pg_rstar s) t then Ok s
             else if ret_bad s t then Err QueryExc
             else Ok (if star_term t then set_rstar s true else s).
Proof.
  intros s t [Hd Ho] [Hs [Hk [Hc Hdel]]].
  destruct t as [[|]|p n| |fk args|l r].
  - (* '*' *) unfold skipped. rewrite andb_false_r. reflexivity.
  - (* 'name' *)
    unfold skipped. rewrite andb_true_r. cbn [ret1].
    destruct Hc as [Hc|Hc]; [discriminate|].
    specialize (Hdel eq_refl).
    assert (Hok : forall p, in_targets s (Some (TTab p)) = true ->
                  return_field s [Some (TTab p)] [p] = if pg_rstar s then Ok s else Ok s).
    { intros p Hp. unfold return_field. destruct (pg_rstar s); auto.
      rewrite validate_ret_spec by auto. cbn [existsb]. rewrite Hp. reflexivity. }
    assert (Hb : ret_bad s (RStr false) = false) by reflexivity. rewrite Hb. cbn [star_term].
    destruct (q_insert s) as [pi|] eqn:Ei.
    + rewrite Hok; [destruct (pg_rstar s); auto|]. rewrite in_targets_some, Ei. cbn. now rewrite ptab_eqb_refl.
    + destruct (q_update s) as [pu|] eqn:Eu.
      * rewrite Hok; [destruct (pg_rstar s); auto|]. rewrite in_targets_some, Eu. cbn. now rewrite ptab_eqb_refl, orb_true_r.
      * unfold is_dml in Hd. rewrite Ei, Eu in Hd. cbn in Hd. rewrite Hd. rewrite Hd in Hdel. cbn in Hdel.
        destruct (q_from s) as [|f0 fr] eqn:Ef; [discriminate|].
        unfold return_field. destruct (pg_rstar s); auto.
        rewrite validate_ret_spec by (auto; unfold is_dml; rewrite Ei, Eu, Hd; auto).
        assert (Hnb : not_base s (ptabs_of [Some f0]) = false).
        { unfold not_base. rewrite Ef. destruct f0; cbn; auto. now rewrite ptab_eqb_refl. }
        rewrite Hnb, andb_false_r. reflexivity.
  - (* a field *)
    unfold skipped. rewrite andb_true_r. cbn [ret1 star_term]. unfold return_field.
    destruct (pg_rstar s); auto.
    destruct Hc as [Hc|Hc]; [discriminate|].
    rewrite validate_ret_spec by auto.
    rewrite term_validate_exact by auto.
    unfold ret_bad. cbn [is_fn andb orb].
    destruct (existsb _ (rfields (RField p n))); auto.
  - (* a constant *) unfold skipped. rewrite andb_false_r. reflexivity.
  - (* a function *)
    unfold skipped. rewrite andb_false_r. cbn [ret1 star_term]. unfold ret_bad. cbn [is_fn andb].
    destruct (is_agg (RFn fk args)) as [[|]|] eqn:Ea; cbn [orb]; auto;
      (destruct Hc as [Hc|Hc];
       [ cbn in Hc; rewrite validate_fieldless by auto;
         unfold has_fields in Hc; destruct (rfields (RFn fk args)); [reflexivity|discriminate]
       | rewrite validate_ret_spec by auto; rewrite term_validate_exact by auto;
         destruct (existsb _ (rfields (RFn fk args))); auto ]).
  - (* an arithmetic expression *)
    unfold skipped. rewrite andb_false_r. cbn [ret1 star_term]. unfold ret_bad. cbn [is_fn andb].
    destruct (is_agg (RArith l r)) as [[|]|] eqn:Ea; cbn [orb]; auto;
      (destruct Hc as [Hc|Hc];
       [ cbn in Hc; rewrite validate_fieldless by auto;
         unfold has_fields in Hc; destruct (rfields (RArith l r)); [reflexivity|discriminate]
       | rewrite validate_ret_spec by auto; rewrite term_validate_exact by auto;
         destruct (existsb _ (rfields (RArith l r))); auto ]).
Qed.

Lemma effective_cons : forall star t ts,
  effective star (t :: ts) =
  if skipped star t then effective star ts else t :: effective (star || star_term t) ts.
Proof.
  intros star t ts. destruct t as [[|]|p n| |fk args|l r]; cbn;
    try rewrite andb_false_r; try rewrite andb_true_r; try rewrite orb_true_r; try rewrite orb_false_r; auto;
    destruct star; auto.
Qed.

Lemma returning_exact : forall ts s k, ret_inv s -> (forall t, In t ts -> term_ok s t) ->
  (fold_res ret1 s ts = Err k <-> (existsb (ret_bad s) (effective (pg_rstar s) ts) = true /\ k = QueryExc)).
Proof.
  induction ts as [|t ts IH]; intros s k Hi Hok.
  - cbn. split; [discriminate|intros [H _]; discriminate].
  - cbn [fold_res]. rewrite effective_cons. rewrite ret1_exact by (auto; apply Hok; left; auto).
    destruct (skipped (pg_rstar s) t) eqn:Es.
    + apply IH; auto. intros; apply Hok; right; auto.
    + cbn [existsb]. destruct (ret_bad s t) eqn:Eb.
      * cbn. split; [intro H; injection H as <-; auto | intros [_ ->]; auto].
      * cbn [orb].
        assert (Hi' : ret_inv (if star_term t then set_rstar s true else s)).
        { destruct (star_term t); auto. destruct Hi. constructor; auto. }
        assert (Hok' : forall t', In t' ts -> term_ok (if star_term t then set_rstar s true else s) t').
        { intros t' Ht'. specialize (Hok t' (or_intror Ht')). destruct (star_term t); auto. }
        rewrite (IH _ k Hi' Hok').
        assert (E1 : pg_rstar (if star_term t then set_rstar s true else s) = pg_rstar s || star_term t).
        { destruct (star_term t); cbn; [now rewrite orb_true_r|now rewrite orb_false_r]. }
        rewrite E1.
        assert (E2 : forall l, existsb (ret_bad (if star_term t then set_rstar s true else s)) l = existsb (ret_bad s) l).
        { intro l. destruct (star_term t); auto. }
        rewrite E2. tauto.
Qed.

(* ------------------------------------------------------------------------------------------ *)
(* the whole table                                                                             *)
(* ------------------------------------------------------------------------------------------ *)
Lemma hd_if : forall (b : bool) (g : guard qx) k,
  hd_error (map (fun g : guard qx => snd g) (if b then [g] else [])) = Some k <-> (b = true /\ snd g = k).
Proof.
  intros [|] g k; cbn; split; intro H.
  - injection H; auto.
  - destruct H as [_ ->]; auto.
  - discriminate.
  - destruct H; discriminate.
Qed.

Theorem guards_q_exact : forall s c k, wf_q s c = true -> frag_q s c = true ->
  (step_q s c = Err k <-> first_fired guards_q (s, c) = Some k).
Proof.
  intros s c k Hwf Hfr.
  unfold wf_q in Hwf. apply andb_prop in Hwf. destruct Hwf as [Happ Hwf].
  unfold step_q. rewrite Happ. cbn [negb].
  destruct c.
  - (* from_ *) destruct s; unf; fin.
  - (* with_ *) destruct s; unf; fin.
  - (* into *) destruct s; unf; cbn; brk; fin.
  - (* update *) destruct s; unf; cbn; brk; fin.
  - (* delete *) destruct s; unf; cbn; brk; fin.
  - (* select *)
    unf. cbn. rewrite hd_if. cbn. rewrite select_err.
    rewrite andb_true_iff, Nat.eqb_eq.
    assert (L : Datatypes.length (q_from s) = 0 <-> q_from s = [])
      by (destruct (q_from s); cbn; split; intro; congruence).
    rewrite L. unfold is_sstr. split; [intros [H1 [H2 H3]]|intros [[H1 H2] H3]]; subst; auto.
  - (* columns *) destruct s; unf; cbn; brk; fin.
  - (* insert *) destruct s; unf; cbn; brk; fin.
  - (* groupby *) destruct s; unf; fin.
  - (* rollup *) destruct s; unf; cbn. destruct mysql, n, q_mysql_rollup, q_groupbys; fin.
  - (* join *)
    destruct h as [[crit|]|n|n|].
    + unf. cbn. rewrite hd_if. cbn. rewrite (join_on_exact s item crit).
      destruct (names_foreign_table s item crit); cbn; split; intro H; try discriminate; try tauto.
      * injection H as <-. auto.
      * destruct H as [_ <-]. auto.
      * destruct H; discriminate.
    + unf; fin.
    + unf. cbn. destruct n; cbn; [fin|].
      cbn in Hwf. destruct (q_from s) as [|f0 r] eqn:Ef; [discriminate|].
      rewrite (on_field_valid s item f0 r Ef). fin.
    + unf. cbn. destruct n; fin.
    + unf; fin.
  - (* on_duplicate_key_update *) destruct s; unf; cbn; brk; fin.
  - (* on_duplicate_key_ignore *) destruct s; unf; cbn. destruct my_dups; fin.
  - (* on_conflict *) destruct s; unf; cbn. destruct q_insert; fin.
  - (* do_nothing *) destruct s; unf; cbn. destruct pg_updates; fin.
  - (* do_update *) destruct s; unf; cbn. destruct pg_nothing, f; fin.
  - (* where *) destruct s; unf; cbn. destruct empty, pg_conflict, pg_nothing, pg_fields, pg_updates; fin.
  - (* returning *)
    cbn in Hfr.
    apply andb_prop in Hfr. destruct Hfr as [Hfr Hkeys].
    apply andb_prop in Hfr. destruct Hfr as [Hfr Hsingle].
    apply andb_prop in Hfr. destruct Hfr as [Hd Ho].
    apply andb_prop in Hwf. destruct Hwf as [Hw1 Hw2].
    unf. cbn. rewrite hd_if. cbn. rewrite Hd. cbn.
    rewrite returning_exact.
    + split; intros [H1 H2]; auto.
    + constructor; auto.
    + intros t Ht. rewrite forallb_forall in Hsingle, Hkeys. repeat split; auto.
      * destruct (needs_crit t) eqn:En; auto. right.
        apply orb_prop in Hw2. destruct Hw2 as [Hw2|Hw2]; auto.
        apply negb_true_iff in Hw2. exfalso.
        assert (existsb needs_crit ts = true) by (apply existsb_exists; eauto). congruence.
      * intros ->.
        destruct (existsb (fun t => match t with RStr false => true | _ => false end) ts) eqn:Ex.
        -- cbn in Hw1. exact Hw1.
        -- exfalso. apply Bool.not_true_iff_false in Ex. apply Ex.
           apply existsb_exists. exists (RStr false). auto.
  - (* top *)
    unf. cbn. cbn in Hfr. destruct v; try discriminate; cbn.
    + destruct percent; cbn; [destruct (Z.leb 0 z && Z.leb z 100)|]; fin.
    + destruct percent; cbn; [destruct (Z.leb 0 z && Z.leb z 100)|]; fin.
    + destruct percent; fin.
    + destruct percent; fin.
    + destruct percent, b; fin.
  - (* render *)
    destruct s; unf; cbn. destruct q_cls; try (fin; fail).
    destruct pg_nothing, pg_updates, pg_fields; fin.
Qed.
