(* GuardsQLemmas.v — the guard table of QueryBuilder and its dialect subclasses is exact on the
   fragment frag_q (proofs for property C14). *)
From PV Require Import Base Guards lemmas.GuardsLemmas.
From Coq Require Import Lia.
Local Open Scope list_scope.

(* ------------------------------------------------------------------------------------------ *)
(* lists                                                                                       *)
(* ------------------------------------------------------------------------------------------ *)
Lemma filter_nil_forallb : forall A (f : A -> bool) l,
  (match filter (fun x => negb (f x)) l with [] => true | _ => false end) = forallb f l.
Proof.
  intros A f l. induction l as [|a l IH]; cbn; auto.
  destruct (f a); cbn; auto.
Qed.

Lemma forallb_negb_existsb_in : forall A (P Q : A -> bool) l,
  (forall x, In x l -> P x = negb (Q x)) -> forallb P l = negb (existsb Q l).
Proof.
  intros A P Q l. induction l as [|a l IH]; cbn; intro H; auto.
  rewrite (H a) by auto. rewrite IH by auto. now rewrite negb_orb.
Qed.

Lemma mem_app : forall x l1 l2, mem x (l1 ++ l2) = mem x l1 || mem x l2.
Proof. intros. unfold mem. apply existsb_app. Qed.
Lemma mem_some_map : forall x l, mem (Some x) (map Some l) = existsb (tbl_eqb x) l.
Proof. intros x l. induction l as [|a l IH]; cbn; auto. now rewrite <- IH. Qed.
Lemma mem_none_map : forall l, mem None (map Some l) = false.
Proof. induction l; cbn; auto. Qed.
Lemma mem_some_joins : forall x (js : list jrec),
  mem (Some x) (map (fun j => Some (j_item j)) js) = existsb (fun j => tbl_eqb x (j_item j)) js.
Proof. intros x js. induction js as [|j js IH]; cbn; auto. now rewrite <- IH. Qed.
Lemma mem_none_joins : forall (js : list jrec), mem None (map (fun j => Some (j_item j)) js) = false.
Proof. induction js; cbn; auto. Qed.

(* ------------------------------------------------------------------------------------------ *)
(* select                                                                                      *)
(* ------------------------------------------------------------------------------------------ *)
Definition is_sstr (t : selterm) : bool := match t with SStr _ => true | _ => false end.

Lemma sel1_from : forall s t s', sel1 s t = Ok s' -> q_from s' = q_from s.
Proof.
  intros s t s'. destruct t as [star| |]; unfold sel1, sel_field; cbn.
  - destruct (q_from s) eqn:E; [discriminate|]. destruct star, (q_star s); intro H; injection H as <-; cbn; auto.
  - destruct (q_star s); intro H; injection H as <-; cbn; auto.
  - intro H; injection H as <-; cbn; auto.
Qed.
Lemma sel1_err : forall s t k, sel1 s t = Err k <-> (q_from s = [] /\ is_sstr t = true /\ k = QueryExc).
Proof.
  intros s t k. destruct t as [star| |]; unfold sel1, sel_field; cbn.
  - destruct (q_from s); [|destruct star, (q_star s)]; split; intro H; try discriminate; try tauto.
    + injection H as <-. auto.
    + destruct H as [_ [_ ->]]. auto.
    + destruct H as [H _]; discriminate.
    + destruct H as [H _]; discriminate.
    + destruct H as [H _]; discriminate.
    + destruct H as [H _]; discriminate.
  - destruct (q_star s); split; intro H; try discriminate; destruct H as [_ [H _]]; discriminate.
  - split; intro H; try discriminate; destruct H as [_ [H _]]; discriminate.
Qed.
Lemma select_err : forall ts s k,
  fold_res sel1 s ts = Err k <-> (q_from s = [] /\ existsb is_sstr ts = true /\ k = QueryExc).
Proof.
  induction ts as [|t ts IH]; intros s k; cbn.
  - split; [discriminate|]. intros [_ [H _]]. discriminate.
  - destruct (sel1 s t) as [s'|e] eqn:E.
    + rewrite IH. rewrite (sel1_from _ _ _ E).
      assert (Hn : ~ (q_from s = [] /\ is_sstr t = true)).
      { intros [H1 H2]. destruct t; try discriminate. unfold sel1 in E. rewrite H1 in E. discriminate. }
      split; intros [H1 [H2 H3]].
      * repeat split; auto; try (rewrite H2; apply orb_true_r).
      * repeat split; auto; try (apply orb_prop in H2; destruct H2 as [H2|H2]; auto; exfalso; apply Hn; auto).
    + pose proof (proj1 (sel1_err s t e) E) as [H1 [H2 H3]]. subst e.
      split.
      * intro H. injection H as <-. rewrite H2. auto.
      * intros [_ [_ ->]]. auto.
Qed.

(* ------------------------------------------------------------------------------------------ *)
(* joins                                                                                       *)
(* ------------------------------------------------------------------------------------------ *)
Definition available (s : qst) (item : tbl) : list tref :=
  base_tables s ++ map (fun j => Some (j_item j)) (q_joins s) ++ [Some item].

Lemma existsb_joins_map : forall x (js : list jrec),
  existsb (fun j => tbl_eqb x (j_item j)) js = existsb (tbl_eqb x) (map j_item js).
Proof. intros x js. induction js as [|j js IH]; cbn; auto. now rewrite IH. Qed.
Lemma available_some : forall s item x, mem (Some x) (available s item) = existsb (tbl_eqb x) (sources s item).
Proof.
  intros s item x. unfold available, base_tables, sources.
  rewrite !mem_app, !mem_some_map, mem_some_joins, existsb_joins_map. cbn [existsb].
  rewrite !existsb_app. cbn.
  destruct (q_update s) as [u|]; cbn;
    destruct (tbl_eqb x item), (existsb (tbl_eqb x) (q_from s)), (existsb (tbl_eqb x) (q_with s)),
             (existsb (tbl_eqb x) (map j_item (q_joins s))); try destruct (tbl_eqb x (TTab u)); reflexivity.
Qed.

Lemma validate_on_forallb : forall s item ts,
  validate_on s item ts = forallb (fun t => mem t (available s item) || tref_eqb t None || is_alq_ref t) ts.
Proof.
  intros. unfold validate_on. fold (available s item).
  rewrite <- (filter_nil_forallb _ (fun t => mem t (available s item) || tref_eqb t None || is_alq_ref t)).
  assert (E : forall l, filter (fun t => negb (mem t (available s item)) && negb (tref_eqb t None) && negb (is_alq_ref t)) l
                      = filter (fun t => negb (mem t (available s item) || tref_eqb t None || is_alq_ref t)) l).
  { induction l as [|a l IH]; cbn; auto. rewrite !negb_orb, IH. reflexivity. }
  now rewrite E.
Qed.

Lemma existsb_ext_on : forall A (f g : A -> bool) l, (forall x, In x l -> f x = g x) -> existsb f l = existsb g l.
Proof.
  intros A f g l H. induction l as [|a l IH]; cbn; auto.
  rewrite H by (left; auto). rewrite IH; auto. intros; apply H; right; auto.
Qed.

(* JoinOn.validate rejects exactly the reference lists that name a table (not a WITH query) which is no source --
   unless a named sub-query is indistinguishable, as a set element, from a source it is not *)
Lemma join_on_list : forall s item ts,
  forallb (fun r => match r with
                    | Some t => forallb (fun u => negb (tbl_eqb t u) || tbl_ident t u) (sources s item)
                    | None => true
                    end) ts = true ->
  validate_on s item ts = negb (existsb (foreign_ref s item) ts).
Proof.
  intros s item ts Hfr.
  rewrite validate_on_forallb.
  rewrite forallb_forall in Hfr.
  apply forallb_negb_existsb_in. intros r Hin. specialize (Hfr r Hin).
  destruct r as [x|]; [|cbn; now rewrite orb_true_r].
  assert (E : existsb (tbl_eqb x) (sources s item) = join_source s item x).
  { unfold join_source. apply existsb_ext_on. intros u Hu.
    rewrite forallb_forall in Hfr. specialize (Hfr u Hu).
    destruct (tbl_eqb x u) eqn:E1, (tbl_ident x u) eqn:E2; auto; try discriminate.
    apply tbl_ident_eqb in E2. congruence. }
  destruct x as [p|n|a src u].
  - rewrite available_some, E. cbn. now rewrite !orb_false_r, negb_involutive.
  - cbn. now rewrite orb_true_r.
  - rewrite available_some, E. cbn. now rewrite !orb_false_r, negb_involutive.
Qed.
(* ... and the criterion as a whole: every field, in whatever operand it sits *)
Lemma join_on_exact : forall s item crit,
  forallb (fun r => match r with
                    | Some t => forallb (fun u => negb (tbl_eqb t u) || tbl_ident t u) (sources s item)
                    | None => true
                    end) (crit_all_tables crit) = true ->
  validate_on s item (crit_all_tables crit) = negb (names_foreign_table s item crit).
Proof. intros s item crit Hsub. unfold names_foreign_table. now apply join_on_list. Qed.

Lemma on_field_valid : forall s item f0 r, q_from s = f0 :: r -> validate_on s item [Some f0; Some item] = true.
Proof.
  intros s item f0 r Hf. rewrite validate_on_forallb. cbn [forallb].
  assert (H1 : mem (Some f0) (available s item) = true).
  { rewrite available_some. unfold sources. rewrite Hf. cbn. rewrite tbl_eqb_refl. now rewrite orb_true_r. }
  assert (H2 : mem (Some item) (available s item) = true).
  { rewrite available_some. unfold sources. cbn. now rewrite tbl_eqb_refl. }
  rewrite H1, H2. reflexivity.
Qed.

(* render time: the statement is complete and some criterion refers to a WITH query nobody defines *)
Lemma renders_is_statement : forall s, renders s = is_statement s.
Proof.
  intros s. unfold renders, is_statement. rewrite <- truthy_ltb.
  destruct (truthy (q_selects s)), (q_insert s), (q_update s), (q_delete s), (q_values s), (q_updates s); reflexivity.
Qed.
Lemma filter_nonnil_existsb : forall A (f : A -> bool) l,
  (match filter f l with [] => false | _ => true end) = existsb f l.
Proof. intros A f l. induction l as [|a l IH]; cbn; auto. destruct (f a); cbn; auto. Qed.
Lemma existsb_ext_in : forall A (f g : A -> bool) l, (forall x, f x = g x) -> existsb f l = existsb g l.
Proof. intros A f g l H. induction l as [|a l IH]; cbn; auto. now rewrite H, IH. Qed.
Lemma existsb_map_item : forall a (js : list jrec),
  existsb (tbl_eqb a) (map j_item js) = existsb (fun j => tbl_eqb a (j_item j)) js.
Proof. intros a js. induction js as [|j js IH]; cbn; auto. now rewrite IH. Qed.
Lemma unknown_with_spec : forall s, unknown_with s = refers_unknown_with s.
Proof.
  intros s. unfold unknown_with, refers_unknown_with.
  apply existsb_ext_in. intro j. rewrite filter_nonnil_existsb.
  apply existsb_ext_in. intro a. rewrite !existsb_app, existsb_map_item, !negb_orb.
  now rewrite andb_assoc.
Qed.

(* ------------------------------------------------------------------------------------------ *)
(* PostgreSQL RETURNING                                                                         *)
(* ------------------------------------------------------------------------------------------ *)
Definition in_targets (s : qst) (f : tref) : bool :=
  mem f [option_map TTab (q_insert s); option_map TTab (q_update s)].
Definition not_base_f (s : qst) (f : tref) : bool :=
  match f with
  | Some (TTab p) => negb (existsb (tbl_eqb (TTab p)) (q_from s ++ map TTab (join_tables s)))
  | _ => false
  end.

Lemma validate_ret1_ok : forall s f u,
  is_dml s = true ->
  validate_ret1 s (Ok u) f = if negb (in_targets s f) && not_base_f s f then Err QueryExc else Ok tt.
Proof. intros s f u Hd. unfold validate_ret1. rewrite Hd. reflexivity. Qed.
Lemma validate_ret_fold : forall s fields acc,
  is_dml s = true ->
  fold_left (validate_ret1 s) fields acc =
  match acc with
  | Err e => Err e
  | Ok _ => if existsb (fun f => negb (in_targets s f) && not_base_f s f) fields then Err QueryExc else Ok tt
  end.
Proof.
  intros s fields. induction fields as [|f fields IH]; intros acc Hd.
  - cbn. destruct acc as [[]|]; auto.
  - cbn [fold_left existsb]. rewrite IH by auto. destruct acc as [u|e]; [|reflexivity].
    rewrite validate_ret1_ok by auto.
    destruct (negb (in_targets s f) && not_base_f s f); reflexivity.
Qed.
Lemma validate_ret_spec : forall s fields,
  is_dml s = true ->
  validate_ret s fields =
  if existsb (fun f => negb (in_targets s f) && not_base_f s f) fields then Err QueryExc else Ok tt.
Proof. intros. unfold validate_ret. now rewrite validate_ret_fold. Qed.

Lemma in_targets_some : forall s p,
  in_targets s (Some (TTab p)) = optab_eqb (Some p) (q_insert s) || optab_eqb (Some p) (q_update s).
Proof.
  intros s p. unfold in_targets. cbn.
  destruct (q_insert s), (q_update s); cbn; rewrite ?orb_false_r; auto.
Qed.

Lemma existsb_app_base : forall p s,
  existsb (tbl_eqb (TTab p)) (q_from s ++ map TTab (join_tables s)) =
  existsb (tbl_eqb (TTab p)) (q_from s) || existsb (ptab_eqb p) (join_tables s).
Proof.
  intros p s. rewrite existsb_app. f_equal.
  induction (join_tables s) as [|a l IH]; cbn; auto. now rewrite IH.
Qed.

(* the validation of one term = "some field is not the statement's own", field by field *)
Lemma term_validate_exact : forall s t,
  existsb (fun f => negb (in_targets s f) && not_base_f s f) (term_fields t)
  = existsb (fun f => negb (own_field s (fst f))) (rfields t).
Proof.
  intros s t. unfold term_fields.
  induction (rfields t) as [|[[p|] n] l IH]; cbn [map existsb fst option_map]; auto.
  - rewrite IH. f_equal. unfold not_base_f, own_field.
    rewrite in_targets_some, existsb_app_base.
    destruct (optab_eqb (Some p) (q_insert s)), (optab_eqb (Some p) (q_update s)),
             (existsb (tbl_eqb (TTab p)) (q_from s)), (existsb (ptab_eqb p) (join_tables s)); reflexivity.
  - rewrite IH. f_equal. unfold not_base_f. cbn. now rewrite andb_false_r.
Qed.

(* everything the RETURNING guard reads, except _return_star, is left alone by returning() *)
Definition set_rstar (s : qst) (b : bool) : qst :=
  set_pg s (pg_conflict s) (pg_fields s) (pg_nothing s) (pg_updates s) b.
Definition skipped (star : bool) (t : rterm) : bool :=
  star && match t with RStr false | RField _ _ => true | _ => false end.
Definition star_term (t : rterm) : bool := match t with RStr true => true | _ => false end.

Definition term_ok (s : qst) (t : rterm) : Prop :=
  (t = RStr false -> is_some (q_insert s) || is_some (q_update s) || negb (q_delete s) || truthy (List.length (q_from s)) = true).

Lemma ret1_exact : forall s t, is_dml s = true -> term_ok s t ->
  ret1 s t = if skipped (pg_rstar s) t then Ok s
             else if ret_bad s t then Err QueryExc
             else Ok (if star_term t then set_rstar s true else s).
Proof.
  intros s t Hd Hdel.
  destruct t as [[|]|p n| |fk args|l r].
  - (* '*' *) unfold skipped. rewrite andb_false_r. reflexivity.
  - (* 'name' *)
    unfold skipped. rewrite andb_true_r. cbn [ret1].
    specialize (Hdel eq_refl).
    assert (Hok : forall p, in_targets s (Some (TTab p)) = true ->
                  return_field s [Some (TTab p)] = if pg_rstar s then Ok s else Ok s).
    { intros p Hp. unfold return_field. destruct (pg_rstar s); auto.
      rewrite validate_ret_spec by auto. cbn [existsb]. rewrite Hp. reflexivity. }
    assert (Hb : ret_bad s (RStr false) = false) by reflexivity. rewrite Hb. cbn [star_term].
    destruct (q_insert s) as [pi|] eqn:Ei.
    + rewrite Hok; [destruct (pg_rstar s); auto|]. rewrite in_targets_some, Ei. cbn. now rewrite ptab_eqb_refl.
    + destruct (q_update s) as [pu|] eqn:Eu.
      * rewrite Hok; [destruct (pg_rstar s); auto|]. rewrite in_targets_some, Eu. cbn. now rewrite ptab_eqb_refl, orb_true_r.
      * unfold is_dml in Hd. rewrite Ei, Eu in Hd. cbn in Hd. rewrite Hd. rewrite Hd in Hdel. cbn in Hdel.
        destruct (q_from s) as [|f0 fr] eqn:Ef; [discriminate|].
        unfold return_field. destruct (pg_rstar s); auto.
        rewrite validate_ret_spec by (auto; unfold is_dml; rewrite Ei, Eu, Hd; auto).
        assert (Hnb : not_base_f s (Some f0) = false).
        { unfold not_base_f. rewrite Ef. destruct f0; cbn; auto. now rewrite ptab_eqb_refl. }
        cbn [existsb]. rewrite Hnb, andb_false_r. reflexivity.
  - (* a field *)
    unfold skipped. rewrite andb_true_r. cbn [ret1 star_term]. unfold return_field.
    destruct (pg_rstar s); auto.
    rewrite validate_ret_spec by auto.
    rewrite term_validate_exact.
    unfold ret_bad. cbn [is_fn andb orb].
    destruct (existsb _ (rfields (RField p n))); auto.
  - (* a constant *) unfold skipped. rewrite andb_false_r. reflexivity.
  - (* a function *)
    unfold skipped. rewrite andb_false_r. cbn [ret1 star_term]. unfold ret_bad. cbn [is_fn andb].
    destruct (is_agg (RFn fk args)) as [[|]|] eqn:Ea; cbn [orb]; auto;
      (rewrite validate_ret_spec by auto; rewrite term_validate_exact;
       destruct (existsb _ (rfields (RFn fk args))); auto).
  - (* an arithmetic expression *)
    unfold skipped. rewrite andb_false_r. cbn [ret1 star_term]. unfold ret_bad. cbn [is_fn andb].
    destruct (is_agg (RArith l r)) as [[|]|] eqn:Ea; cbn [orb]; auto;
      (rewrite validate_ret_spec by auto; rewrite term_validate_exact;
       destruct (existsb _ (rfields (RArith l r))); auto).
Qed.

Lemma effective_cons : forall star t ts,
  effective star (t :: ts) =
  if skipped star t then effective star ts else t :: effective (star || star_term t) ts.
Proof.
  intros star t ts. destruct t as [[|]|p n| |fk args|l r]; cbn;
    try rewrite andb_false_r; try rewrite andb_true_r; try rewrite orb_true_r; try rewrite orb_false_r; auto;
    destruct star; auto.
Qed.

Lemma returning_exact : forall ts s k, is_dml s = true -> (forall t, In t ts -> term_ok s t) ->
  (fold_res ret1 s ts = Err k <-> (existsb (ret_bad s) (effective (pg_rstar s) ts) = true /\ k = QueryExc)).
Proof.
  induction ts as [|t ts IH]; intros s k Hi Hok.
  - cbn. split; [discriminate|intros [H _]; discriminate].
  - cbn [fold_res]. rewrite effective_cons. rewrite ret1_exact by (auto; apply Hok; left; auto).
    destruct (skipped (pg_rstar s) t) eqn:Es.
    + apply IH; auto. intros; apply Hok; right; auto.
    + cbn [existsb]. destruct (ret_bad s t) eqn:Eb.
      * cbn. split; [intro H; injection H as <-; auto | intros [_ ->]; auto].
      * cbn [orb].
        assert (Hi' : is_dml (if star_term t then set_rstar s true else s) = true).
        { destruct (star_term t); auto. }
        assert (Hok' : forall t', In t' ts -> term_ok (if star_term t then set_rstar s true else s) t').
        { intros t' Ht'. specialize (Hok t' (or_intror Ht')). destruct (star_term t); auto. }
        rewrite (IH _ k Hi' Hok').
        assert (E1 : pg_rstar (if star_term t then set_rstar s true else s) = pg_rstar s || star_term t).
        { destruct (star_term t); cbn; [now rewrite orb_true_r|now rewrite orb_false_r]. }
        rewrite E1.
        assert (E2 : forall l, existsb (ret_bad (if star_term t then set_rstar s true else s)) l = existsb (ret_bad s) l).
        { intro l. destruct (star_term t); auto. }
        rewrite E2. tauto.
Qed.

(* 393df3f: once the check in front of the loop has passed, no term of select() can be rejected any more
   (the raise inside _select_field_str is dead): nothing is applied before a rejection *)
Lemma select_loop_total : forall ts s,
  Nat.eqb (List.length (q_from s)) 0 && existsb (fun t => match t with SStr _ => true | _ => false end) ts = false ->
  exists s', fold_res sel1 s ts = Ok s'.
Proof.
  intros ts s H. destruct (fold_res sel1 s ts) as [s'|e] eqn:E; eauto.
  apply select_err in E. destruct E as [Hf [Hs _]].
  rewrite Hf in H. cbn in H. unfold is_sstr in Hs. congruence.
Qed.

(* ------------------------------------------------------------------------------------------ *)
(* the whole table                                                                             *)
(* ------------------------------------------------------------------------------------------ *)
Lemma hd_if : forall (b : bool) (g : guard qx) k,
  hd_error (map (fun g : guard qx => snd g) (if b then [g] else [])) = Some k <-> (b = true /\ snd g = k).
Proof.
  intros [|] g k; cbn; split; intro H.
  - injection H; auto.
  - destruct H as [_ ->]; auto.
  - discriminate.
  - destruct H; discriminate.
Qed.

Theorem guards_q_exact : forall s c k, wf_q s c = true -> frag_q s c = true ->
  (step_q s c = Err k <-> first_fired guards_q (s, c) = Some k).
Proof.
  intros s c k Hwf Hfr.
  unfold wf_q in Hwf. apply andb_prop in Hwf. destruct Hwf as [Happ Hwf].
  unfold step_q. rewrite Happ. cbn [negb].
  destruct c.
  - (* from_ *) destruct s; unf; cbn. destruct (untagged t); fin.
  - (* with_ *) destruct s; unf; fin.
  - (* into *) destruct s; unf; cbn; brk; fin.
  - (* update *) destruct s; unf; cbn; brk; fin.
  - (* delete *) destruct s; unf; cbn; brk; fin.
  - (* select *)
    unf. cbn. rewrite hd_if. cbn.
    destruct (Nat.eqb (Datatypes.length (q_from s)) 0 && existsb (fun t => match t with SStr _ => true | _ => false end) ts) eqn:E.
    + split; [intro H; injection H as <-; auto | intros [_ <-]; auto].
    + destruct (select_loop_total ts s E) as [s' Hs']. rewrite Hs'.
      split; [discriminate | intros [H _]; discriminate].
  - (* columns *) destruct s; unf; cbn; brk; fin.
  - (* insert *) destruct s; unf; cbn; brk; fin.
  - (* set *) destruct s; unf; fin.
  - (* groupby *) destruct s; unf; fin.
  - (* rollup *) destruct s; unf; cbn. destruct mysql, n, q_mysql_rollup, q_groupbys; fin.
  - (* join *)
    unfold join_step.
    destruct h as [[crit|]|n|n|].
    + cbn in Hfr. unf. cbn. rewrite hd_if. cbn.
      rewrite (join_on_exact s (tag_sub (q_subcount s) item) (retag_crit item (tag_sub (q_subcount s) item) crit) Hfr).
      destruct (names_foreign_table s (tag_sub (q_subcount s) item) (retag_crit item (tag_sub (q_subcount s) item) crit));
        cbn; split; intro H; try discriminate; try tauto.
      * injection H as <-. auto.
      * destruct H as [_ <-]. auto.
      * destruct H; discriminate.
    + unf; fin.
    + unf. cbn. destruct n; cbn; [fin|].
      cbn in Hwf. destruct (q_from s) as [|f0 r] eqn:Ef; [discriminate|].
      rewrite (on_field_valid s _ f0 r Ef). fin.
    + unf. cbn. destruct n; fin.
    + unf; fin.
  - (* on_duplicate_key_update *) destruct s; unf; cbn; brk; fin.
  - (* on_duplicate_key_ignore *) destruct s; unf; cbn. destruct my_dups; fin.
  - (* on_conflict *) destruct s; unf; cbn. destruct q_insert; fin.
  - (* do_nothing *) destruct s; unf; cbn. destruct pg_updates; fin.
  - (* do_update *) destruct s; unf; cbn. destruct pg_nothing, f; fin.
  - (* where *) destruct s; unf; cbn. destruct empty, pg_conflict, pg_nothing, pg_fields, pg_updates; fin.
  - (* returning *)
    unf. cbn. rewrite hd_if. cbn.
    destruct (is_dml s) eqn:Hd; cbn.
    + rewrite andb_false_r. rewrite returning_exact; auto.
      * split; intros [H1 H2]; auto.
      * intros t Ht. intros ->.
        destruct (existsb (fun t => match t with RStr false => true | _ => false end) ts) eqn:Ex.
        -- cbn in Hwf. exact Hwf.
        -- exfalso. apply Bool.not_true_iff_false in Ex. apply Ex.
           apply existsb_exists. exists (RStr false). auto.
    + destruct ts as [|t ts]; cbn; split; intro H; try discriminate.
      * destruct H; discriminate.
      * injection H as <-. auto.
      * destruct H as [_ <-]. auto.
  - (* top *)
    unf. cbn. destruct v; cbn.
    + destruct percent; cbn; [destruct (Z.leb 0 z && Z.leb z 100)|]; fin.
    + destruct percent; cbn; [destruct (Z.leb 0 z && Z.leb z 100)|]; fin.
    + destruct percent; fin.
    + destruct percent; fin.
    + destruct percent; fin.
    + destruct percent, b; fin.
  - (* render *)
    unf. cbn -[renders unknown_with is_statement refers_unknown_with].
    rewrite renders_is_statement, unknown_with_spec.
    destruct (is_statement s && refers_unknown_with s); [fin|].
    destruct s; cbn. destruct q_cls; try (fin; fail).
    destruct pg_nothing, pg_updates, pg_fields; fin.
Qed.
