(* FuncOps.v — every state the clause methods can reach renders: the clause methods (.distinct/.filter/.over/.orderby/.rows/.range/.ignore_nulls as modelled by
   apply_op in FuncCorr.v) keep the description inside the combinations that render (combo_ok). *)
From PV Require Import Base Func FuncCorr lemmas.FuncText lemmas.FuncLemmas.
Open Scope string_scope.

Lemma app_nonempty {A} (l r : list A) : r <> [] -> (l ++ r)%list <> [].
Proof. destruct l; cbn; [auto|discriminate]. Qed.

Lemma combo_ok_intro fd :
  (fd_include_filter fd = true -> fd_filters fd <> []) -> (is_some (fd_frame fd) = true -> fd_include_over fd = true) ->
  combo_ok fd = true.
Proof.
  intros H1 H2. unfold combo_ok. apply andb_true_intro; split.
  - destruct (fd_include_filter fd); [|reflexivity]. cbn. specialize (H1 eq_refl). destruct (fd_filters fd); congruence.
  - destruct (is_some (fd_frame fd)); [|reflexivity]. cbn. auto.
Qed.

Lemma apply_op_combo w fd o fd' : combo_ok fd = true -> apply_op w fd o = Ok fd' -> combo_ok fd' = true.
Proof.
  intros Hc H. destruct (combo_ok_parts fd Hc) as [Hf Hfr].
  destruct o as [|cs|ts|ts od|k b ab|]; cbn [apply_op] in H.
  - destruct (w_distinct w); inversion H; subst. apply combo_ok_intro; cbn; auto.
  - destruct (w_agg w); [|discriminate]. destruct (somes cs) as [|c cs'] eqn:E; [inversion H; subst; exact Hc|].
    inversion H; subst. apply combo_ok_intro; cbn [upd fd_include_filter fd_filters fd_frame fd_include_over]; auto.
    intros _. apply app_nonempty. discriminate.
  - destruct (w_analytic w); inversion H; subst. apply combo_ok_intro; cbn; auto.
  - destruct (w_analytic w); inversion H; subst. apply combo_ok_intro; cbn; auto.
  - destruct (w_frame w); [|discriminate]. unfold set_frame in H. destruct (fd_frame fd); [discriminate|].
    inversion H; subst. apply combo_ok_intro; cbn; auto.
  - destruct (w_ignore_nulls w); inversion H; subst. apply combo_ok_intro; cbn; auto.
Qed.

Lemma apply_ops_combo w : forall ops fd fd', combo_ok fd = true ->
  apply_ops w fd ops = Ok fd' -> combo_ok fd' = true.
Proof.
  induction ops as [|o ops IH]; intros fd fd' Hc H; cbn in *.
  - inversion H; subst. exact Hc.
  - destruct (apply_op w fd o) as [fd1|e] eqn:E; [|discriminate].
    apply (IH fd1 fd'); [exact (apply_op_combo w fd o fd1 Hc E)|exact H].
Qed.

(* the description a constructor leaves behind: no optional clause yet *)
Definition fresh (fd : func_desc) : bool :=
  negb (fd_include_filter fd) && negb (fd_include_over fd) && negb (is_some (fd_frame fd)).
Lemma fresh_combo fd : fresh fd = true -> combo_ok fd = true.
Proof.
  unfold fresh. intros H. apply andb_prop in H as [H H3]. apply andb_prop in H as [H1 H2].
  apply negb_true_iff in H1, H2, H3. apply combo_ok_intro; intros E; congruence.
Qed.
