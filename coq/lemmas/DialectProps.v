(* DialectProps.v — C07: the statements about str(query) / get_sql(explicit kwargs) derived from the fuel-indexed lemmas. *)
From PV Require Import Base Crit gen.TermsTable Terms Page gen.QueryTable Query Dialect lemmas.DialectTerms lemmas.DialectQuery.
Local Open Scope list_scope.

(* ---------- decidability plumbing ---------- *)
Lemma string_eqb_eq a b : String.eqb a b = true <-> a = b.
Proof. apply String.eqb_eq. Qed.
Lemma ostr_eqb_eq a b : ostr_eqb a b = true <-> a = b.
Proof.
  unfold ostr_eqb, option_eqb. destruct a as [x|], b as [y|]; split; intros H; try discriminate; try reflexivity.
  - f_equal. apply String.eqb_eq. exact H.
  - inversion H. apply String.eqb_refl.
Qed.
Lemma bool_eqb_eq a b : Bool.eqb a b = true <-> a = b.
Proof. destruct a, b; cbn; split; intros H; try discriminate; reflexivity. Qed.

Lemma strict_tokb_spec v qa t : strict_tokb v qa t = true <-> strict_tok v qa t.
Proof.
  unfold strict_tokb, strict_tok. destruct (snd t) as [s|r qu n og|qu raw og|kw og|b sl|s]; try tauto.
  - destruct r; apply ostr_eqb_eq.
  - apply ostr_eqb_eq.
  - apply bool_eqb_eq.
Qed.
Lemma strict_all_spec v qa ts : forallb (strict_tokb v qa) ts = true <-> Forall (strict_tok v qa) ts.
Proof.
  rewrite forallb_forall, Forall_forall. split; intros H x Hx; apply strict_tokb_spec; auto.
Qed.

(* EXACT + "the origin's convention coincides with the outer one at this token" = STRICT *)
Lemma exact_benign_strict v qa t : exact_tok v t -> benign_tok v qa t = true -> strict_tok v qa t.
Proof.
  intros [He _]. revert He. unfold exact_q, benign_tok, strict_tok. destruct (snd t) as [s|r qu n og|qu raw og|kw og|b sl|s]; try tauto.
  - destruct r; intros He Hb; try exact He; rewrite He; apply ostr_eqb_eq; exact Hb.
  - intros He Hb. rewrite He. apply ostr_eqb_eq. exact Hb.
  - intros He Hb. rewrite He. apply bool_eqb_eq. exact Hb.
Qed.
Lemma exact_benign_strict_all v qa ts :
  Forall (exact_tok v) ts -> forallb (benign_tok v qa) ts = true -> Forall (strict_tok v qa) ts.
Proof.
  intros He Hb. rewrite forallb_forall in Hb. rewrite Forall_forall in *. intros x Hx.
  apply exact_benign_strict; auto.
Qed.

(* ---------- the convention of the outermost call ---------- *)
(* the classes that can supply defaults below a function call: the image of the re-labelling *)
Definition img (rho : cls -> cls) (c : cls) : bool := existsb (fun c0 => cls_eqb (rho c0) c) all_cls.
Lemma cls_eqb_eq a b : cls_eqb a b = true <-> a = b.
Proof. destruct a, b; cbn; split; intros H; try discriminate; reflexivity. Qed.
Lemma img_ok rho c0 : img rho (rho c0) = true.
Proof.
  unfold img. apply existsb_exists. exists c0. split; [destruct c0; cbn; tauto|]. apply cls_eqb_eq. reflexivity.
Qed.
Lemma img_inv rho c : img rho c = true -> exists c0, rho c0 = c.
Proof. unfold img. intros H. apply existsb_exists in H. destruct H as [c0 [_ H]]. exists c0. apply cls_eqb_eq. exact H. Qed.

Definition conv_x (rho : cls -> cls) (x : query) : conv := conv_of (kc (top_k rho x)) (img rho).
Definition conv_kw (rho : cls -> cls) (kw : kwargs) (x : query) : conv := conv_of (kc (kw_ctx rho kw x)) (img rho).
Definition conv_cls (c : cls) : conv :=
  {| v_q := cls_q c; v_sq := cls_sq c; v_aq := cls_aq c; v_as := cls_askw c; v_adm := fun _ => true |}.

Lemma top_ok rho x : ctx_ok (conv_x rho x) (top_origin x) (kc (top_k rho x)).
Proof. destruct x; repeat split. Qed.
Lemma kw_ok rho kw x : ctx_ok (conv_kw rho kw x) (kw_origin kw) (kc (kw_ctx rho kw x)).
Proof. unfold conv_kw, kw_ctx, kw_origin. destruct (kw_rest kw) as [[[s a] k]|]; repeat split. Qed.

(* every string literal of str(query) is quoted by the single quote: all ten classes agree on it (regenerated table) *)
Lemma cls_sq_all c : cls_sq c = Some "'".
Proof. destruct c; reflexivity. Qed.

Theorem str_toks_exact rho n x ts : str_toks rho n x = Ok ts -> Forall (exact_tok (conv_x rho x)) ts.
Proof. intros H. eapply (proj2 (toks_exact rho (conv_x rho x) n (img_ok rho))); [apply top_ok|exact H]. Qed.

Theorem kw_toks_exact rho n kw x ts : kw_toks rho n kw x = Ok ts -> Forall (exact_tok (conv_kw rho kw x)) ts.
Proof. intros H. eapply (proj2 (toks_exact rho (conv_kw rho kw x) n (img_ok rho))); [apply kw_ok|exact H]. Qed.

(* identifiers and string literals: the outer class's quotes at every depth, whatever classes built the sub-queries *)
Definition ident_lit_tok (c : cls) (t : dtok) : Prop :=
  match snd t with
  | AId RIdent qu _ _ => qu = cls_q c
  | AStr qu _ _ => qu = cls_sq c
  | _ => True
  end.
Lemma conv_x_q rho x : v_q (conv_x rho x) = cls_q (top_cls_r rho x).
Proof. destruct x; reflexivity. Qed.
Lemma conv_x_sq rho x og : og_sq (conv_x rho x) og = Some "'".
Proof. destruct og as [|[ci|]]; [|apply cls_sq_all|reflexivity]. destruct x; cbn; try apply cls_sq_all; reflexivity. Qed.

Theorem str_toks_ident_lit rho n x ts :
  str_toks rho n x = Ok ts -> Forall (ident_lit_tok (top_cls_r rho x)) ts.
Proof.
  intros H. apply str_toks_exact in H. eapply Forall_impl; [|exact H]. intros t [Ht _].
  unfold exact_q in Ht. unfold ident_lit_tok. destruct (snd t) as [s|r qu nm og|qu raw og|kw og|b sl|s]; try exact I.
  - destruct r; try exact I. rewrite Ht. apply conv_x_q.
  - rewrite Ht, conv_x_sq, cls_sq_all. reflexivity.
Qed.

(* on the fragment where no alias / AS token originates from a foreign convention: the full per-token claim *)
Theorem str_toks_strict_on_fragment rho n x ts qa :
  str_toks rho n x = Ok ts -> forallb (benign_tok (conv_x rho x) qa) ts = true -> Forall (strict_tok (conv_x rho x) qa) ts.
Proof. intros H Hb. apply exact_benign_strict_all; [eapply str_toks_exact; exact H|exact Hb]. Qed.

(* the devendored, quote-erased token sequence is the same for every labelling of the (sub-)statements *)
Lemma csim_top rho rho' x : csim (kc (top_k rho x)) (kc (top_k rho' x)).
Proof. destruct x; repeat split. Qed.
Theorem str_toks_same rho rho' n x ts ts' :
  str_toks rho n x = Ok ts -> str_toks rho' n x = Ok ts' -> erase ts = erase ts'.
Proof.
  intros H H'. eapply (proj2 (toks_agree rho rho' n)); [apply csim_top| |exact H|exact H']. intros _. reflexivity.
Qed.
Lemma csim_kw rho rho' kw kw' x : csim (kc (kw_ctx rho kw x)) (kc (kw_ctx rho' kw' x)).
Proof. unfold kw_ctx. destruct (kw_rest kw) as [[[s a] k]|], (kw_rest kw') as [[[s' a'] k']|]; repeat split. Qed.
(* ... and the same again for any two sets of explicit quote kwargs (quote-parametricity of the whole statement) *)
Theorem kw_toks_same rho rho' n kw kw' x ts ts' :
  kw_toks rho n kw x = Ok ts -> kw_toks rho' n kw' x = Ok ts' -> erase ts = erase ts'.
Proof.
  intros H H'. eapply (proj2 (toks_agree rho rho' n)); [apply csim_kw| |exact H|exact H']. intros _. reflexivity.
Qed.
Theorem kw_str_toks_same rho rho' n kw x ts ts' :
  kw_toks rho n kw x = Ok ts -> str_toks rho' n x = Ok ts' -> erase ts = erase ts'.
Proof.
  intros H H'. eapply (proj2 (toks_agree rho rho' n)); [| |exact H|exact H'].
  - unfold kw_ctx. destruct (kw_rest kw) as [[[s a] k]|], x; repeat split.
  - intros _. reflexivity.
Qed.

(* ---------- class-level fragment: compatible classes ---------- *)
(* [transparent c]: the fall-backs that apply below a function call (no alias quote, no AS) coincide with c's own
   convention; [compat c ci]: class ci's alias quote, AS keyword and query-alias quote coincide with c's (given c's quote_char) *)
Definition transparent (c : cls) : bool :=
  ostr_eqb (or_ostr (cls_aq c) (cls_q c)) (cls_q c) && negb (cls_askw c) && ostr_eqb (or_ostr (qalias_quote c) (cls_q c)) (cls_q c).
Definition compat (c ci : cls) : bool :=
  ostr_eqb (or_ostr (cls_aq ci) (cls_q c)) (or_ostr (cls_aq c) (cls_q c))
  && Bool.eqb (cls_askw ci) (cls_askw c)
  && ostr_eqb (or_ostr (qalias_quote ci) (cls_q c)) (or_ostr (qalias_quote c) (cls_q c)).
(* the per-token claim minus the two class-independent deviations (WITH names, comparison aliases) *)
Definition strict_core (v : conv) (qa : option string) (t : dtok) : Prop :=
  match snd t with
  | AId RCte _ _ _ | AId RAliasC _ _ _ => True
  | _ => strict_tok v qa t
  end.

Lemma or_ostr_none b : or_ostr None b = b.
Proof. reflexivity. Qed.

Theorem str_toks_compatible rho n x ts :
  let c := top_cls_r rho x in
  transparent c = true -> (forall c0, compat c (rho c0) = true) ->
  str_toks rho n x = Ok ts -> Forall (strict_core (conv_cls c) (qalias_quote c)) ts.
Proof.
  intros c Ht Hc H. apply str_toks_exact in H. eapply Forall_impl; [|exact H]. clear H.
  unfold transparent in Ht. apply andb_prop in Ht. destruct Ht as [Ht Tq]. apply andb_prop in Ht. destruct Ht as [Ta Tk].
  apply ostr_eqb_eq in Ta. apply ostr_eqb_eq in Tq. apply negb_true_iff in Tk.
  assert (Hcc : forall ci, img rho ci = true ->
            or_ostr (cls_aq ci) (cls_q c) = cls_q c /\ cls_askw ci = false /\ or_ostr (qalias_quote ci) (cls_q c) = cls_q c).
  { intros ci Hi. apply img_inv in Hi. destruct Hi as [c0 <-]. specialize (Hc c0). unfold compat in Hc.
    apply andb_prop in Hc. destruct Hc as [Hc C3]. apply andb_prop in Hc. destruct Hc as [C1 C2].
    apply ostr_eqb_eq in C1. apply ostr_eqb_eq in C3. apply (proj1 (bool_eqb_eq _ _)) in C2. fold c in C1, C2, C3.
    repeat split; congruence. }
  assert (Vq : v_q (conv_x rho x) = cls_q c) by apply conv_x_q.
  assert (Vaq : forall og, og_adm (conv_x rho x) og = true -> or_ostr (og_aq (conv_x rho x) og) (cls_q c) = cls_q c).
  { intros [|[ci|]] Ho; cbn [og_aq].
    - destruct x; cbn; try exact Ta; reflexivity.
    - apply (Hcc ci Ho).
    - reflexivity. }
  assert (Vas : forall og, og_adm (conv_x rho x) og = true -> og_as (conv_x rho x) og = false).
  { intros [|[ci|]] Ho; cbn [og_as].
    - destruct x; cbn; try exact Tk; reflexivity.
    - apply (Hcc ci Ho).
    - reflexivity. }
  intros t [He Ha]. unfold strict_core, strict_tok, exact_q, adm_tok in *. cbn [conv_cls v_q v_aq v_as v_sq].
  destruct (snd t) as [s|r qu nm og|qu raw og|kw og|b sl|s]; try exact I.
  - destruct r; try exact I.
    + (* RIdent *) congruence.
    + (* RAlias *) rewrite He, Vq, Vaq by exact Ha. symmetry. exact Ta.
    + (* RAliasQ *) rewrite He, Vq. symmetry. exact Ta.
    + (* RQual *) rewrite He, Vq. symmetry. exact Ta.
    + (* RQAlias *) destruct Ha as [Ha [Hi|Hi]]; rewrite He, Vq, Tq.
      * apply (Hcc inner Hi).
      * subst inner. reflexivity.
    + (* RSAlias *) rewrite He, Vq, Vaq, Tq by exact Ha. reflexivity.
  - (* AStr *) rewrite He, conv_x_sq, cls_sq_all. reflexivity.
  - (* AAs *) rewrite He, Vas by exact Ha. symmetry. exact Tk.
Qed.
