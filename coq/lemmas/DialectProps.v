(* DialectProps.v — C07: the statements about str(query) / get_sql(explicit kwargs) derived from the fuel-indexed lemmas. *)
From PV Require Import Base Crit gen.TermsTable Terms Page gen.QueryTable Query Dialect lemmas.DialectTerms lemmas.DialectQuery.
Local Open Scope list_scope.

(* ---------- decidability plumbing ---------- *)
Lemma string_eqb_eq a b : String.eqb a b = true <-> a = b.
Proof. apply String.eqb_eq. Qed.
Lemma ostr_eqb_eq a b : ostr_eqb a b = true <-> a = b.
Proof.
  unfold ostr_eqb, option_eqb. destruct a as [x|], b as [y|]; split; intros H; try discriminate; try reflexivity.
  - f_equal. apply String.eqb_eq. exact H.
  - inversion H. apply String.eqb_refl.
Qed.
Lemma bool_eqb_eq a b : Bool.eqb a b = true <-> a = b.
Proof. destruct a, b; cbn; split; intros H; try discriminate; reflexivity. Qed.

Lemma strict_tokb_spec v qa t : strict_tokb v qa t = true <-> strict_tok v qa t.
Proof.
  unfold strict_tokb, strict_tok. destruct (snd t) as [s|r qu n og|qu raw og|kw og|b sl|s]; try tauto.
  - destruct r; apply ostr_eqb_eq.
  - apply ostr_eqb_eq.
  - apply bool_eqb_eq.
Qed.
Lemma strict_all_spec v qa ts : forallb (strict_tokb v qa) ts = true <-> Forall (strict_tok v qa) ts.
Proof.
  rewrite forallb_forall, Forall_forall. split; intros H x Hx; apply strict_tokb_spec; auto.
Qed.

(* EXACT + "the origin's convention coincides with the outer one at this token" = STRICT *)
Lemma exact_benign_strict v qa t : exact_tok v t -> benign_tok v qa t = true -> strict_tok v qa t.
Proof.
  intros [He _]. revert He. unfold exact_q, benign_tok, strict_tok. destruct (snd t) as [s|r qu n og|qu raw og|kw og|b sl|s]; try tauto.
  - destruct r; intros He Hb; try exact He; rewrite He; apply ostr_eqb_eq; exact Hb.
  - intros He Hb. rewrite He. apply ostr_eqb_eq. exact Hb.
  - intros He Hb. rewrite He. apply bool_eqb_eq. exact Hb.
Qed.
Lemma exact_benign_strict_all v qa ts :
  Forall (exact_tok v) ts -> forallb (benign_tok v qa) ts = true -> Forall (strict_tok v qa) ts.
Proof.
  intros He Hb. rewrite forallb_forall in Hb. rewrite Forall_forall in *. intros x Hx.
  apply exact_benign_strict; auto.
Qed.

(* ---------- the convention of the outermost call ---------- *)
Definition conv_x (rho : cls -> cls) (x : query) : conv := conv_of (top_k rho x).
Definition conv_kw (rho : cls -> cls) (kw : kwargs) (x : query) : conv := conv_of (kw_ctx rho kw x).
Definition conv_cls (c : cls) : conv :=
  {| v_q := cls_q c; v_sq := cls_sq c; v_aq := cls_aq c; v_as := cls_askw c; v_qa := qalias_quote c; v_abs := false |}.

(* str(query) of ANY statement kind starts from the outer class's constants *)
Lemma conv_x_cls rho x : conv_x rho x = conv_cls (top_cls_r rho x).
Proof. reflexivity. Qed.

Lemma top_ok rho x : ctx_ok (conv_x rho x) (top_origin x) (kc (top_k rho x)).
Proof. repeat split. Qed.
Lemma top_kok rho x : k_ok (conv_x rho x) (top_origin x) (top_k rho x).
Proof. split; [reflexivity|discriminate]. Qed.
Lemma kw_ok rho kw x : ctx_ok (conv_kw rho kw x) (kw_origin kw) (kc (kw_ctx rho kw x)).
Proof. unfold conv_kw, kw_ctx, kw_origin. destruct (kw_rest kw) as [[[s a] k]|]; repeat split. Qed.
Lemma kw_kok rho kw x : k_ok (conv_kw rho kw x) (kw_origin kw) (kw_ctx rho kw x).
Proof. unfold conv_kw, kw_ctx, kw_origin. destruct (kw_rest kw) as [[[s a] k]|]; split; try reflexivity; discriminate. Qed.

(* every string literal of str(query) is quoted by the single quote: all ten classes agree on it (regenerated table) *)
Lemma cls_sq_all c : cls_sq c = Some "'".
Proof. destruct c; reflexivity. Qed.
(* the sub-query alias quote of every class, when it falls back to quote_char, is quote_char (regenerated tables) *)
Lemma qaq_q_all c : or_ostr (qalias_quote c) (cls_q c) = cls_q c.
Proof. destruct c; reflexivity. Qed.

Theorem str_toks_exact rho n x ts : str_toks rho n x = Ok ts -> Forall (exact_tok (conv_x rho x)) ts.
Proof. intros H. eapply (proj2 (toks_exact rho (conv_x rho x) n)); [apply top_kok|apply top_ok|exact H]. Qed.

Theorem kw_toks_exact rho n kw x ts : kw_toks rho n kw x = Ok ts -> Forall (exact_tok (conv_kw rho kw x)) ts.
Proof. intros H. eapply (proj2 (toks_exact rho (conv_kw rho kw x) n)); [apply kw_kok|apply kw_ok|exact H]. Qed.

(* ---------- the per-token claim ---------- *)
(* what holds of every token of str(query): the outer class's convention for its role, with the two documented
   class-independent exceptions spelled out: WITH names are bare, a table alias used as a qualifier takes quote_char *)
Definition strict_or_residue (c : cls) (t : dtok) : Prop :=
  match snd t with
  | AId RCte qu _ _ => qu = None
  | AId RQual qu _ _ => qu = cls_q c
  | _ => strict_tok (conv_cls c) (qalias_quote c) t
  end.

Lemma exact_top_strict rho x t :
  exact_tok (conv_x rho x) t -> strict_or_residue (top_cls_r rho x) t.
Proof.
  rewrite conv_x_cls. set (c := top_cls_r rho x). intros [He Ha].
  unfold strict_or_residue, strict_tok, exact_q, adm_tok, og_adm in *. cbn [conv_cls v_q v_sq v_aq v_as v_qa v_abs] in *.
  destruct (snd t) as [s|r qu nm og|qu raw og|kw og|b sl|s]; try exact I.
  - destruct og as [|o]; [|discriminate Ha]. destruct r; cbn [og_aq og_qa conv_cls v_aq v_qa] in He; try exact He.
    rewrite He. symmetry. apply qaq_q_all.
  - destruct og as [|o]; [|discriminate Ha]. exact He.
  - destruct og as [|o]; [|discriminate Ha]. exact He.
Qed.

Theorem str_toks_strict rho n x ts :
  str_toks rho n x = Ok ts -> Forall (strict_or_residue (top_cls_r rho x)) ts.
Proof. intros H. apply str_toks_exact in H. eapply Forall_impl; [|exact H]. intros t. apply exact_top_strict. Qed.

(* ... hence every token that is not a WITH name / qualifier is strict, *)
Theorem str_toks_strict_nonresidue rho n x ts :
  str_toks rho n x = Ok ts ->
  Forall (fun t => residue_tok t = true \/ strict_tok (conv_cls (top_cls_r rho x)) (qalias_quote (top_cls_r rho x)) t) ts.
Proof.
  intros H. apply str_toks_strict in H. eapply Forall_impl; [|exact H]. intros t Ht.
  unfold strict_or_residue in Ht. unfold residue_tok.
  destruct (snd t) as [s|r qu nm og|qu raw og|kw og|b sl|s]; try (right; exact Ht).
  destruct r; try (right; exact Ht); left; reflexivity.
Qed.

(* ... and for a class whose conventions make the residue coincide, every token is strict:
   [cte_ok]: quote_char is empty (WITH names bare = identifiers bare); [qual_ok]: alias quote = quote_char *)
Definition cte_ok (c : cls) : bool := ostr_eqb (cls_q c) None.
Definition qual_ok (c : cls) : bool := ostr_eqb (or_ostr (cls_aq c) (cls_q c)) (cls_q c).
Definition no_cte_tok (t : dtok) : bool := match snd t with AId RCte _ _ _ => false | _ => true end.
Definition no_qual_tok (t : dtok) : bool := match snd t with AId RQual _ _ _ => false | _ => true end.

Theorem str_toks_all_strict rho n x ts :
  let c := top_cls_r rho x in
  str_toks rho n x = Ok ts ->
  (cte_ok c = true \/ forallb no_cte_tok ts = true) -> (qual_ok c = true \/ forallb no_qual_tok ts = true) ->
  Forall (strict_tok (conv_cls c) (qalias_quote c)) ts.
Proof.
  intros c H Hc Hq. apply str_toks_strict in H. fold c in H. rewrite Forall_forall in *. intros t Ht. specialize (H t Ht).
  unfold strict_or_residue in H. unfold strict_tok. cbn [conv_cls v_q v_aq].
  destruct (snd t) as [s|r qu nm og|qu raw og|kw og|b sl|s] eqn:E; try exact I;
    try (unfold strict_tok in H; rewrite E in H; exact H).
  destruct r; try (unfold strict_tok in H; rewrite E in H; exact H).
  - (* RQual *) destruct Hq as [Hq|Hq].
    + apply ostr_eqb_eq in Hq. rewrite H. symmetry. exact Hq.
    + rewrite forallb_forall in Hq. specialize (Hq t Ht). unfold no_qual_tok in Hq. rewrite E in Hq. discriminate Hq.
  - (* RCte *) destruct Hc as [Hc|Hc].
    + apply ostr_eqb_eq in Hc. rewrite H. symmetry. exact Hc.
    + rewrite forallb_forall in Hc. specialize (Hc t Ht). unfold no_cte_tok in Hc. rewrite E in Hc. discriminate Hc.
Qed.

(* identifiers and string literals: the outer class's quotes at every depth, whatever classes built the sub-queries *)
Definition ident_lit_tok (c : cls) (t : dtok) : Prop :=
  match snd t with
  | AId RIdent qu _ _ => qu = cls_q c
  | AStr qu _ _ => qu = cls_sq c
  | _ => True
  end.
Theorem str_toks_ident_lit rho n x ts :
  str_toks rho n x = Ok ts -> Forall (ident_lit_tok (top_cls_r rho x)) ts.
Proof.
  intros H. apply str_toks_strict in H. eapply Forall_impl; [|exact H]. intros t Ht.
  unfold strict_or_residue, strict_tok, ident_lit_tok in *. destruct (snd t) as [s|r qu nm og|qu raw og|kw og|b sl|s]; try exact I.
  - destruct r; try exact I. exact Ht.
  - exact Ht.
Qed.

(* explicit kwargs, all of them given: the same claim with respect to the kwargs *)
Theorem str_toks_strict_on_fragment rho n x ts qa :
  str_toks rho n x = Ok ts -> forallb (benign_tok (conv_x rho x) qa) ts = true -> Forall (strict_tok (conv_x rho x) qa) ts.
Proof. intros H Hb. apply exact_benign_strict_all; [eapply str_toks_exact; exact H|exact Hb]. Qed.
Theorem kw_toks_strict_on_fragment rho n kw x ts qa :
  kw_toks rho n kw x = Ok ts -> forallb (benign_tok (conv_kw rho kw x) qa) ts = true -> Forall (strict_tok (conv_kw rho kw x) qa) ts.
Proof. intros H Hb. apply exact_benign_strict_all; [eapply kw_toks_exact; exact H|exact Hb]. Qed.

(* the devendored, quote-erased token sequence is the same for every labelling of the (sub-)statements *)
Lemma csim_top rho rho' x : csim (kc (top_k rho x)) (kc (top_k rho' x)).
Proof. repeat split. Qed.
Theorem str_toks_same rho rho' n x ts ts' :
  str_toks rho n x = Ok ts -> str_toks rho' n x = Ok ts' -> erase ts = erase ts'.
Proof.
  intros H H'. eapply (proj2 (toks_agree rho rho' n)); [apply csim_top| |exact H|exact H']. intros _. reflexivity.
Qed.
Lemma csim_kw rho rho' kw kw' x : csim (kc (kw_ctx rho kw x)) (kc (kw_ctx rho' kw' x)).
Proof. unfold kw_ctx. destruct (kw_rest kw) as [[[s a] k]|], (kw_rest kw') as [[[s' a'] k']|]; repeat split. Qed.
(* ... and the same again for any two sets of explicit quote kwargs (quote-parametricity of the whole statement) *)
Theorem kw_toks_same rho rho' n kw kw' x ts ts' :
  kw_toks rho n kw x = Ok ts -> kw_toks rho' n kw' x = Ok ts' -> erase ts = erase ts'.
Proof.
  intros H H'. eapply (proj2 (toks_agree rho rho' n)); [apply csim_kw| |exact H|exact H']. intros _. reflexivity.
Qed.
Theorem kw_str_toks_same rho rho' n kw x ts ts' :
  kw_toks rho n kw x = Ok ts -> str_toks rho' n x = Ok ts' -> erase ts = erase ts'.
Proof.
  intros H H'. eapply (proj2 (toks_agree rho rho' n)); [| |exact H|exact H'].
  - unfold kw_ctx. destruct (kw_rest kw) as [[[s a] k]|]; repeat split.
  - intros _. reflexivity.
Qed.
