(* DialectProps.v — C07: the statements about str(query) / get_sql(explicit kwargs) derived from the fuel-indexed lemmas. *)
From PV Require Import Base Crit gen.TermsTable Terms Page gen.QueryTable Query Dialect lemmas.DialectTerms lemmas.DialectQuery.
Local Open Scope list_scope.

(* ---------- decidability plumbing ---------- *)
Lemma string_eqb_eq a b : String.eqb a b = true <-> a = b.
Proof. apply String.eqb_eq. Qed.
Lemma ostr_eqb_eq a b : ostr_eqb a b = true <-> a = b.
Proof.
  unfold ostr_eqb, option_eqb. destruct a as [x|], b as [y|]; split; intros H; try discriminate; try reflexivity.
  - f_equal. apply String.eqb_eq. exact H.
  - inversion H. apply String.eqb_refl.
Qed.
Lemma bool_eqb_eq a b : Bool.eqb a b = true <-> a = b.
Proof. destruct a, b; cbn; split; intros H; try discriminate; reflexivity. Qed.

Lemma strict_tokb_spec v qa t : strict_tokb v qa t = true <-> strict_tok v qa t.
Proof.
  unfold strict_tokb, strict_tok. destruct (snd t) as [s|r qu n og|qu raw og|kw og|b sl|s]; try tauto.
  - destruct r; apply ostr_eqb_eq.
  - apply ostr_eqb_eq.
  - apply bool_eqb_eq.
Qed.
Lemma strict_all_spec v qa ts : forallb (strict_tokb v qa) ts = true <-> Forall (strict_tok v qa) ts.
Proof.
  rewrite forallb_forall, Forall_forall. split; intros H x Hx; apply strict_tokb_spec; auto.
Qed.

(* EXACT + "the origin's convention coincides with the outer one at this token" = STRICT *)
Lemma exact_benign_strict v qa t : exact_tok v t -> benign_tok v qa t = true -> strict_tok v qa t.
Proof.
  unfold exact_tok, benign_tok, strict_tok. destruct (snd t) as [s|r qu n og|qu raw og|kw og|b sl|s]; try tauto.
  - destruct r; intros He Hb; try exact He; rewrite He; apply ostr_eqb_eq; exact Hb.
  - intros He Hb. rewrite He. apply ostr_eqb_eq. exact Hb.
  - intros He Hb. rewrite He. apply bool_eqb_eq. exact Hb.
Qed.
Lemma exact_benign_strict_all v qa ts :
  Forall (exact_tok v) ts -> forallb (benign_tok v qa) ts = true -> Forall (strict_tok v qa) ts.
Proof.
  intros He Hb. rewrite forallb_forall in Hb. rewrite Forall_forall in *. intros x Hx.
  apply exact_benign_strict; auto.
Qed.

(* ---------- the convention of the outermost call ---------- *)
Definition conv_x (rho : cls -> cls) (x : query) : conv := conv_of (kc (top_k rho x)).
Definition conv_cls (c : cls) : conv := {| v_q := cls_q c; v_sq := cls_sq c; v_aq := cls_aq c; v_as := cls_askw c |}.

Lemma top_ok rho x : ctx_ok (conv_x rho x) (top_origin x) (kc (top_k rho x)).
Proof. destruct x; repeat split. Qed.
Lemma kw_ok rho kw x : ctx_ok (conv_of (kc (kw_ctx rho kw x))) (kw_origin kw) (kc (kw_ctx rho kw x)).
Proof. unfold kw_ctx, kw_origin. destruct (kw_rest kw) as [[[s a] k]|]; repeat split. Qed.

(* every string literal of str(query) is quoted by the single quote: all ten classes agree on it (regenerated table) *)
Lemma cls_sq_all c : cls_sq c = Some "'".
Proof. destruct c; reflexivity. Qed.

Theorem str_toks_exact rho n x ts : str_toks rho n x = Ok ts -> Forall (exact_tok (conv_x rho x)) ts.
Proof. intros H. eapply (proj2 (toks_exact rho _ n)); [apply top_ok|exact H]. Qed.

Theorem kw_toks_exact rho n kw x ts : kw_toks rho n kw x = Ok ts -> Forall (exact_tok (conv_of (kc (kw_ctx rho kw x)))) ts.
Proof. intros H. eapply (proj2 (toks_exact rho _ n)); [apply kw_ok|exact H]. Qed.

(* identifiers and string literals: the outer class's quotes at every depth, whatever classes built the sub-queries *)
Definition ident_lit_tok (c : cls) (t : dtok) : Prop :=
  match snd t with
  | AId RIdent qu _ _ => qu = cls_q c
  | AStr qu _ _ => qu = cls_sq c
  | _ => True
  end.
Lemma conv_x_q rho x : v_q (conv_x rho x) = cls_q (top_cls_r rho x).
Proof. destruct x; reflexivity. Qed.
Lemma conv_x_sq rho x og : og_sq (conv_x rho x) og = Some "'".
Proof. destruct og as [|[ci|]]; [|apply cls_sq_all|reflexivity]. destruct x; cbn; try apply cls_sq_all; reflexivity. Qed.

Theorem str_toks_ident_lit rho n x ts :
  str_toks rho n x = Ok ts -> Forall (ident_lit_tok (top_cls_r rho x)) ts.
Proof.
  intros H. apply str_toks_exact in H. eapply Forall_impl; [|exact H]. intros t Ht.
  unfold exact_tok in Ht. unfold ident_lit_tok. destruct (snd t) as [s|r qu nm og|qu raw og|kw og|b sl|s]; try exact I.
  - destruct r; try exact I. rewrite Ht. apply conv_x_q.
  - rewrite Ht, conv_x_sq, cls_sq_all. reflexivity.
Qed.

(* on the fragment where no alias / AS token originates from a foreign convention: the full per-token claim *)
Theorem str_toks_strict_on_fragment rho n x ts qa :
  str_toks rho n x = Ok ts -> forallb (benign_tok (conv_x rho x) qa) ts = true -> Forall (strict_tok (conv_x rho x) qa) ts.
Proof. intros H Hb. apply exact_benign_strict_all; [eapply str_toks_exact; exact H|exact Hb]. Qed.

(* the devendored, quote-erased token sequence is the same for every labelling of the (sub-)statements *)
Lemma csim_top rho rho' x : csim (kc (top_k rho x)) (kc (top_k rho' x)).
Proof. destruct x; repeat split. Qed.
Theorem str_toks_same rho rho' n x ts ts' :
  str_toks rho n x = Ok ts -> str_toks rho' n x = Ok ts' -> erase ts = erase ts'.
Proof.
  intros H H'. eapply (proj2 (toks_agree rho rho' n)); [apply csim_top| |exact H|exact H']. intros _. reflexivity.
Qed.
Lemma csim_kw rho rho' kw kw' x : csim (kc (kw_ctx rho kw x)) (kc (kw_ctx rho' kw' x)).
Proof. unfold kw_ctx. destruct (kw_rest kw) as [[[s a] k]|], (kw_rest kw') as [[[s' a'] k']|]; repeat split. Qed.
(* ... and the same again for any two sets of explicit quote kwargs (quote-parametricity of the whole statement) *)
Theorem kw_toks_same rho rho' n kw kw' x ts ts' :
  kw_toks rho n kw x = Ok ts -> kw_toks rho' n kw' x = Ok ts' -> erase ts = erase ts'.
Proof.
  intros H H'. eapply (proj2 (toks_agree rho rho' n)); [apply csim_kw| |exact H|exact H']. intros _. reflexivity.
Qed.
Theorem kw_str_toks_same rho rho' n kw x ts ts' :
  kw_toks rho n kw x = Ok ts -> str_toks rho' n x = Ok ts' -> erase ts = erase ts'.
Proof.
  intros H H'. eapply (proj2 (toks_agree rho rho' n)); [| |exact H|exact H'].
  - unfold kw_ctx. destruct (kw_rest kw) as [[[s a] k]|], x; repeat split.
  - intros _. reflexivity.
Qed.
