(* ParseMono.v — one-step unfolding equations and fuel monotonicity of the parser of Parse.v. *)
From PV Require Import Base Crit gen.TermsTable Parse.
From Coq Require Import Lia Arith.

Section G.
Variable T : ptable.
Notation parse := (parse T).
Notation descend := (descend T).
Notation loop := (loop T).
Notation parse_items := (parse_items T).
Notation parse_items1 := (parse_items1 T).
Notation parse_whens := (parse_whens T).

Lemma parse_S f k ts : parse (S f) k ts =
    if Nat.leb k (maxl T) then
      match ts with
      | KNot :: r =>
          if Nat.eqb k (lvl_not T) then
            match parse f k r with
            | Some (c, r') => loop f k (ENot c) r'
            | None => None end
          else descend f k ts
      | _ => descend f k ts
      end
    else
      match ts with
      | KAtom a :: r => Some (EAtom a, r)
      | KNeg :: r => match parse f (atomlvl T) r with Some (c, r') => Some (ENeg c, r') | None => None end
      | KLP :: r => match parse f 0 r with Some (c, KRP :: r') => Some (c, r') | _ => None end
      | KName g :: KLP :: r =>
          match parse_items f r with Some (args, KRP :: r') => Some (ECall g args, r') | _ => None end
      | KCase :: r =>
          match parse_whens f r with
          | Some (ws, KElse :: r1) =>
              match parse f 0 r1 with Some (e, KEnd :: r2) => Some (ECase ws (EOSome e), r2) | _ => None end
          | Some (ws, KEnd :: r1) => Some (ECase ws EONone, r1)
          | _ => None
          end
      | _ => None
      end.
Proof. reflexivity. Qed.

Lemma descend_S f k ts : descend (S f) k ts =
    match parse f (S k) ts with
    | Some (a, r) => loop f k a r
    | None => None end.
Proof. reflexivity. Qed.

Lemma loop_S f k acc ts : loop (S f) k acc ts =
    match ts with
    | KOp o :: r =>
        if Nat.eqb (prec T o) k then
          match parse f (S k) r with
          | Some (rhs, r') => if nonassoc T k then Some (EBin o acc rhs, r') else loop f k (EBin o acc rhs) r'
          | None => None end
        else Some (acc, ts)
    | KPost p :: r =>
        if Nat.eqb (lvl_is T) k then
          (if nonassoc T k then Some (EPost p acc, r) else loop f k (EPost p acc) r)
        else Some (acc, ts)
    | KIn neg :: KLP :: r =>
        if Nat.eqb (lvl_in T) k then
          match parse_items f r with
          | Some (items, KRP :: r') =>
              if nonassoc T k then Some (EIn neg acc items, r') else loop f k (EIn neg acc items) r'
          | _ => None end
        else Some (acc, ts)
    | KBetween :: r =>
        if Nat.eqb (lvl_between T) k then
          match parse f (S k) r with
          | Some (lo, KOp (BB BAnd) :: r1) =>
              match parse f (S k) r1 with
              | Some (hi, r2) =>
                  if nonassoc T k then Some (EBetween acc lo hi, r2) else loop f k (EBetween acc lo hi) r2
              | None => None end
          | _ => None end
        else Some (acc, ts)
    | _ => Some (acc, ts)
    end.
Proof. reflexivity. Qed.

Lemma parse_items_S f ts : parse_items (S f) ts =
    match ts with
    | KRP :: _ => Some (ENil, ts)
    | _ => parse_items1 f ts
    end.
Proof. reflexivity. Qed.

Lemma parse_items1_S f ts : parse_items1 (S f) ts =
    match parse f 0 ts with
    | Some (e, KComma :: r) =>
        match parse_items1 f r with Some (rest, r') => Some (ECons e rest, r') | None => None end
    | Some (e, r) => Some (ECons e ENil, r)
    | None => None
    end.
Proof. reflexivity. Qed.

Lemma parse_whens_S f ts : parse_whens (S f) ts =
    match ts with
    | KWhen :: r =>
        match parse f 0 r with
        | Some (c, KThen :: r1) =>
            match parse f 0 r1 with
            | Some (v, r2) =>
                match parse_whens f r2 with Some (ws, r3) => Some (EWCons c v ws, r3) | None => None end
            | None => None end
        | _ => None end
    | _ => Some (EWNil, ts)
    end.
Proof. reflexivity. Qed.

(* ---- fuel monotonicity ---- *)
Definition mono_at (f : nat) : Prop :=
  (forall k ts x, parse f k ts = Some x -> parse (S f) k ts = Some x)
  /\ (forall k ts x, descend f k ts = Some x -> descend (S f) k ts = Some x)
  /\ (forall k a ts x, loop f k a ts = Some x -> loop (S f) k a ts = Some x)
  /\ (forall ts x, parse_items f ts = Some x -> parse_items (S f) ts = Some x)
  /\ (forall ts x, parse_items1 f ts = Some x -> parse_items1 (S f) ts = Some x)
  /\ (forall ts x, parse_whens f ts = Some x -> parse_whens (S f) ts = Some x).

(* rewrite a successful sub-call at fuel f into the same call at fuel S f, using the IH *)
Ltac sub IHp IHd IHl IHi IHi1 IHw :=
  repeat match goal with
  | H : context [match parse ?f ?k ?ts with _ => _ end] |- _ =>
      let E := fresh "E" in destruct (parse f k ts) as [[? ?]|] eqn:E; [rewrite (IHp _ _ _ E) | discriminate H]
  | H : context [match parse_items ?f ?ts with _ => _ end] |- _ =>
      let E := fresh "E" in destruct (parse_items f ts) as [[? ?]|] eqn:E; [rewrite (IHi _ _ E) | discriminate H]
  | H : context [match parse_items1 ?f ?ts with _ => _ end] |- _ =>
      let E := fresh "E" in destruct (parse_items1 f ts) as [[? ?]|] eqn:E; [rewrite (IHi1 _ _ E) | discriminate H]
  | H : context [match parse_whens ?f ?ts with _ => _ end] |- _ =>
      let E := fresh "E" in destruct (parse_whens f ts) as [[? ?]|] eqn:E; [rewrite (IHw _ _ E) | discriminate H]
  end.

Lemma mono : forall f, mono_at f.
Proof.
  induction f as [|f [IHp [IHd [IHl [IHi [IHi1 IHw]]]]]]; unfold mono_at.
  { repeat split; intros; discriminate. }
  repeat split.
  - (* parse *)
    intros k ts x H. rewrite parse_S in H. rewrite parse_S.
    destruct (Nat.leb k (maxl T)).
    + destruct ts as [|t r]; [apply IHd, H|].
      destruct t; try (apply IHd, H).
      destruct (Nat.eqb k (lvl_not T)); [|apply IHd, H].
      sub IHp IHd IHl IHi IHi1 IHw. apply IHl, H.
    + destruct ts as [|t r]; [discriminate|].
      destruct t; try discriminate; try exact H.
      * sub IHp IHd IHl IHi IHi1 IHw. exact H.
      * sub IHp IHd IHl IHi IHi1 IHw. exact H.
      * destruct r as [|t2 r2]; [discriminate|]. destruct t2; try discriminate.
        sub IHp IHd IHl IHi IHi1 IHw. exact H.
      * sub IHp IHd IHl IHi IHi1 IHw.
        match goal with |- context [match ?l with _ => _ end] => destruct l as [|t3 r3] end; [discriminate|].
        destruct t3; try discriminate; [|exact H].
        sub IHp IHd IHl IHi IHi1 IHw. exact H.
  - (* descend *)
    intros k ts x H. rewrite descend_S in H. rewrite descend_S.
    sub IHp IHd IHl IHi IHi1 IHw. apply IHl, H.
  - (* loop *)
    intros k a ts x H. rewrite loop_S in H. rewrite loop_S.
    destruct ts as [|t r]; [exact H|].
    destruct t; try exact H.
    + destruct (Nat.eqb (prec T o) k); [|exact H].
      sub IHp IHd IHl IHi IHi1 IHw. destruct (nonassoc T k); [exact H | apply IHl, H].
    + destruct (Nat.eqb (lvl_is T) k); [|exact H].
      destruct (nonassoc T k); [exact H | apply IHl, H].
    + destruct r as [|t2 r2]; [exact H|]. destruct t2; try exact H.
      destruct (Nat.eqb (lvl_in T) k); [|exact H].
      sub IHp IHd IHl IHi IHi1 IHw.
      match goal with |- context [match ?l with _ => _ end] => destruct l as [|t3 r3] end; [discriminate|].
      destruct t3; try discriminate.
      destruct (nonassoc T k); [exact H | apply IHl, H].
    + destruct (Nat.eqb (lvl_between T) k); [|exact H].
      destruct (parse f (S k) r) as [[lo r1]|] eqn:E1; [rewrite (IHp _ _ _ E1) | discriminate H].
      destruct r1 as [|t3 r3]; [discriminate|]. destruct t3; try discriminate.
      destruct o; try discriminate. destruct b; try discriminate.
      destruct (parse f (S k) r3) as [[hi r4]|] eqn:E2; [rewrite (IHp _ _ _ E2) | discriminate H].
      destruct (nonassoc T k); [exact H | apply IHl, H].
  - (* parse_items *)
    intros ts x H. rewrite parse_items_S in H. rewrite parse_items_S.
    destruct ts as [|t r]; [apply IHi1, H|]. destruct t; try (apply IHi1, H). exact H.
  - (* parse_items1 *)
    intros ts x H. rewrite parse_items1_S in H. rewrite parse_items1_S.
    destruct (parse f 0 ts) as [[e r]|] eqn:E; [rewrite (IHp _ _ _ E) | discriminate H].
    destruct r as [|t r']; [exact H|]. destruct t; try exact H.
    sub IHp IHd IHl IHi IHi1 IHw. exact H.
  - (* parse_whens *)
    intros ts x H. rewrite parse_whens_S in H. rewrite parse_whens_S.
    destruct ts as [|t r]; [exact H|]. destruct t; try exact H.
    destruct (parse f 0 r) as [[c r1]|] eqn:E1; [rewrite (IHp _ _ _ E1) | discriminate H].
    destruct r1 as [|t3 r3]; [discriminate|]. destruct t3; try discriminate.
    destruct (parse f 0 r3) as [[v r4]|] eqn:E2; [rewrite (IHp _ _ _ E2) | discriminate H].
    sub IHp IHd IHl IHi IHi1 IHw. exact H.
Qed.

Lemma mono_p f f' k ts x : f <= f' -> parse f k ts = Some x -> parse f' k ts = Some x.
Proof. induction 1; auto. intros; apply mono; auto. Qed.
Lemma mono_d f f' k ts x : f <= f' -> descend f k ts = Some x -> descend f' k ts = Some x.
Proof. induction 1; auto. intros; apply mono; auto. Qed.
Lemma mono_l f f' k a ts x : f <= f' -> loop f k a ts = Some x -> loop f' k a ts = Some x.
Proof. induction 1; auto. intros; apply mono; auto. Qed.
Lemma mono_i f f' ts x : f <= f' -> parse_items f ts = Some x -> parse_items f' ts = Some x.
Proof. induction 1; auto. intros; apply mono; auto. Qed.
Lemma mono_i1 f f' ts x : f <= f' -> parse_items1 f ts = Some x -> parse_items1 f' ts = Some x.
Proof. induction 1; auto. intros; apply mono; auto. Qed.
Lemma mono_w f f' ts x : f <= f' -> parse_whens f ts = Some x -> parse_whens f' ts = Some x.
Proof. induction 1; auto. intros; apply mono; auto. Qed.

End G.
