(* DmlLemmas.v — C05: builder calls -> state (DmlStep) -> text (DmlRender) -> positional reader (DmlRead). *)
From Coq Require Import Lia DecimalString Decimal DecimalZ DecimalPos.
From PV Require Import Base Crit gen.TermsTable Terms Page gen.QueryTable Query Dml lemmas.DmlRead lemmas.DmlRender lemmas.DmlStep.

(* ---- decimal numerals are bare tokens ---- *)
Definition num_char (c : ascii) : bool :=
  existsb (Ascii.eqb c) ["-"; "0"; "1"; "2"; "3"; "4"; "5"; "6"; "7"; "8"; "9"]%char.
Fixpoint numeric (s : string) : bool := match s with EmptyString => true | String c r => num_char c && numeric r end.
Lemma numeric_uint d : numeric (NilEmpty.string_of_uint d) = true.
Proof. induction d; cbn; auto. Qed.
Lemma numeric_Z z : numeric (Z_to_string z) = true.
Proof.
  unfold Z_to_string, NilZero.string_of_int, NilZero.string_of_uint.
  destruct (Z.to_int z) as [d|d]; destruct d; cbn; auto using numeric_uint.
Qed.
Lemma Z_to_string_nonempty z : nonempty_str (Z_to_string z) = true.
Proof.
  unfold Z_to_string, NilZero.string_of_int, NilZero.string_of_uint.
  destruct (Z.to_int z) as [d|d]; destruct d; reflexivity.
Qed.
Lemma Z_round_trip z : Z_of_string (Z_to_string z) = Some z.
Proof.
  unfold Z_of_string, Z_to_string. rewrite NilZero.isi.
  - cbn. rewrite DecimalZ.of_to. reflexivity.
  - destruct z; cbn; try discriminate. intros E. inversion E as [E']. exact (Unsigned.to_uint_nonnil _ E').
  - destruct z; cbn; try discriminate. intros E. inversion E as [E']. exact (Unsigned.to_uint_nonnil _ E').
Qed.
Lemma num_char_facts a : num_char a = true -> is_delim a = false /\ Ascii.eqb a sqc = false.
Proof.
  unfold num_char. cbn [existsb]. intros H. rewrite !orb_true_iff in H.
  repeat (destruct H as [H|H]; [apply Ascii.eqb_eq in H; subst a; split; reflexivity|]). discriminate.
Qed.
Lemma numeric_bare s : numeric s = true -> no_delim s = true /\ not_head sqc s = true.
Proof.
  induction s as [|a s IH]; intros H; [split; reflexivity|]. cbn [numeric] in H. apply andb_prop in H as [Ha Hs].
  destruct (num_char_facts a Ha) as [Hd Hq]. destruct (IH Hs) as [IH1 _]. split.
  - cbn [no_delim]. rewrite Hd, IH1. reflexivity.
  - cbn [not_head]. rewrite Hq. reflexivity.
Qed.
Lemma numeric_not s k : numeric k = false -> numeric s = true -> String.eqb s k = false.
Proof. intros Hk Hs. destruct (String.eqb s k) eqn:E; [|reflexivity]. apply String.eqb_eq in E. subst. congruence. Qed.

Lemma no_char_not_head c s : no_char c s = true -> not_head c s = true.
Proof. destruct s as [|a s]; [reflexivity|]. cbn. intros H. apply andb_prop in H as [H _]. exact H. Qed.

(* ---- values are single literal tokens ---- *)
Lemma value_tok_ins_ok c v : lit_val v = true -> lit_ok (value_tok_ins c v) = true.
Proof.
  destruct v as [s|z|b| |x|t]; cbn [lit_val value_tok_ins lit_ok]; intros H; try reflexivity; try discriminate.
  - destruct (numeric_bare _ (numeric_Z z)) as [H1 H2]. rewrite Z_to_string_nonempty, H1, H2. reflexivity.
  - destruct (cls_sqlite_bool c), b; reflexivity.
  - unfold float_ok in H. apply andb_prop in H as [H Hk]. apply andb_prop in H as [H Hz]. apply andb_prop in H as [H Hq].
    apply andb_prop in H as [Hn Hd]. rewrite Hn, Hd, (no_char_not_head _ _ Hq). reflexivity.
Qed.
Lemma value_tok_set_ok c v : lit_val v = true -> lit_ok (value_tok_set c v) = true.
Proof.
  destruct v as [s|z|b| |x|t]; cbn [lit_val value_tok_set lit_ok]; intros H; try reflexivity; try discriminate.
  - destruct (numeric_bare _ (numeric_Z z)) as [H1 H2]. rewrite Z_to_string_nonempty, H1, H2. reflexivity.
  - destruct (cls_sqlite_bool c), b; reflexivity.
  - unfold float_ok in H. apply andb_prop in H as [H Hk]. apply andb_prop in H as [H Hz]. apply andb_prop in H as [H Hq].
    apply andb_prop in H as [Hn Hd]. rewrite Hn, Hd, (no_char_not_head _ _ Hq). reflexivity.
Qed.
Lemma wrap_constant_lit c v : lit_val v = true ->
  is_litterm (snd (wrap_constant c v)) = true /\ lit_of (snd (wrap_constant c v)) = value_tok_ins c v.
Proof. unfold wrap_constant. destruct v as [s|z|b| |x|t]; intros H; try discriminate; split; reflexivity. Qed.
Lemma wrap_set_lit c v : lit_val v = true ->
  is_litterm (snd (wrap_set c v)) = true /\ lit_of (snd (wrap_set c v)) = value_tok_set c v.
Proof. destruct v as [s|z|b| |x|t]; intros H; try discriminate; split; reflexivity. Qed.

(* the engine reads the token back as the value that was given: storage class and content *)
Lemma lit_value_int z : lit_value (LBare (Z_to_string z)) = QInt z.
Proof.
  unfold lit_value. pose proof (numeric_Z z) as N.
  rewrite (numeric_not _ "NULL" eq_refl N), (numeric_not _ "null" eq_refl N), (numeric_not _ "true" eq_refl N),
          (numeric_not _ "false" eq_refl N). cbn [orb]. rewrite Z_round_trip. reflexivity.
Qed.
Theorem inserted_value_denotes c v : lit_val v = true -> lit_value (value_tok_ins c v) = pyval_value v.
Proof.
  destruct v as [s|z|b| |x|t]; intros H; try discriminate; try reflexivity.
  - apply lit_value_int.
  - cbn [value_tok_ins]. destruct (cls_sqlite_bool c), b; reflexivity.
  - cbn [lit_val] in H. unfold float_ok in H. apply andb_prop in H as [H Hk]. apply andb_prop in H as [H Hz].
    cbn [value_tok_ins lit_value pyval_value].
    destruct (String.eqb x "NULL" || String.eqb x "null" || String.eqb x "true" || String.eqb x "false") eqn:E; [discriminate|].
    apply orb_false_elim in E as [E E4]. apply orb_false_elim in E as [E E3]. apply orb_false_elim in E as [E1 E2].
    rewrite E1, E2, E3, E4. cbn [orb]. destruct (Z_of_string x); [discriminate|reflexivity].
Qed.
Theorem assigned_value_denotes c v : lit_val v = true -> lit_value (value_tok_set c v) = pyval_value v.
Proof.
  destruct v as [s|z|b| |x|t]; intros H; try discriminate; try reflexivity.
  - apply lit_value_int.
  - cbn [value_tok_set]. destruct (cls_sqlite_bool c), b; reflexivity.
  - cbn [lit_val] in H. unfold float_ok in H. apply andb_prop in H as [H Hk]. apply andb_prop in H as [H Hz].
    cbn [value_tok_set lit_value pyval_value].
    destruct (String.eqb x "NULL" || String.eqb x "null" || String.eqb x "true" || String.eqb x "false") eqn:E; [discriminate|].
    apply orb_false_elim in E as [E E4]. apply orb_false_elim in E as [E E3]. apply orb_false_elim in E as [E1 E2].
    rewrite E1, E2, E3, E4. cbn [orb]. destruct (Z_of_string x); [discriminate|reflexivity].
Qed.

(* ---- call lists of one statement kind leave the other slots alone ---- *)
Lemma insert_ok_call_ok c cl : insert_call_ok c cl = true -> call_ok c cl = true.
Proof. destruct cl; cbn; auto; discriminate. Qed.
Lemma inssel_ok_call_ok c cl : inssel_call_ok cl = true -> call_ok c cl = true.
Proof. destruct cl as [a|a|a|a|f v|t s|w|n|t|t|s]; cbn; auto; try discriminate; destruct a; auto; discriminate. Qed.
Lemma forallb_impl {A} (p q : A -> bool) l : (forall x, p x = true -> q x = true) -> forallb p l = true -> forallb q l = true.
Proof. intros H. induction l as [|x r IH]; [auto|]. cbn. intros E. apply andb_prop in E as [E1 E2]. rewrite (H x E1), (IH E2). reflexivity. Qed.

Lemma insert_calls_inert c : forall cs, forallb (insert_call_ok c) cs = true ->
  sets_of_calls cs = [] /\ froms_of_calls cs = [] /\ sels_of_calls cs = []
  /\ (forall w, fold_left where_step cs w = w) /\ (forall l, fold_left limit_step cs l = l).
Proof.
  induction cs as [|cl cs IH]; intros H; [repeat split; reflexivity|].
  cbn [forallb] in H. apply andb_prop in H as [Hc Hr]. destruct (IH Hr) as (I1 & I2 & I3 & I4 & I5).
  unfold sets_of_calls, froms_of_calls, sels_of_calls in *.
  destruct cl; try discriminate Hc; cbn [flat_map fold_left where_step limit_step app]; repeat split; auto.
Qed.
Lemma update_calls_inert : forall cs, forallb update_call_ok cs = true ->
  rows_of_calls cs = [] /\ cols_of_calls cs = [] /\ froms_of_calls cs = [] /\ sels_of_calls cs = []
  /\ (forall f, fold_left flag_step cs f = f) /\ (forall l, fold_left limit_step cs l = l) /\ forallb nodml_call cs = true.
Proof.
  induction cs as [|cl cs IH]; intros H; [repeat split; reflexivity|].
  cbn [forallb] in H. apply andb_prop in H as [Hc Hr]. destruct (IH Hr) as (I1 & I2 & I3 & I4 & I5 & I6 & I7).
  unfold rows_of_calls, cols_of_calls, froms_of_calls, sels_of_calls in *.
  destruct cl; try discriminate Hc; cbn [flat_map fold_left flag_step limit_step app forallb nodml_call rows_of_call andb]; repeat split; auto.
Qed.
Lemma delete_calls_update : forall cs, forallb delete_call_ok cs = true -> forallb update_call_ok cs = true /\ sets_of_calls cs = [].
Proof.
  induction cs as [|cl cs IH]; intros H; [split; reflexivity|].
  cbn [forallb] in H. apply andb_prop in H as [Hc Hr]. destruct (IH Hr) as (I1 & I2).
  unfold sets_of_calls in *. destruct cl; try discriminate Hc. cbn [forallb update_call_ok flat_map app andb]. split; auto.
Qed.
Lemma inssel_calls_inert : forall cs, forallb inssel_call_ok cs = true ->
  rows_of_calls cs = [] /\ sets_of_calls cs = [] /\ (forall l, fold_left limit_step cs l = l).
Proof.
  induction cs as [|cl cs IH]; intros H; [repeat split; reflexivity|].
  cbn [forallb] in H. apply andb_prop in H as [Hc Hr]. destruct (IH Hr) as (I1 & I2 & I3).
  unfold rows_of_calls, sets_of_calls in *.
  destruct cl as [a|a|a|a|f v|t s|w|n|t|t|s]; try discriminate Hc; try (destruct a; try discriminate Hc);
    cbn [flat_map fold_left limit_step app rows_of_call rows_of_args]; repeat split; auto.
Qed.

Lemma str_cols_terms tbl : forall cs, forallb str_col cs = true ->
  map (col_term tbl) cs = map (fun s => TField s (Some tbl) None) (map col_str cs) /\ forallb name_ok (map col_str cs) = true.
Proof.
  induction cs as [|c r IH]; intros H; [split; reflexivity|]. cbn [forallb] in H. apply andb_prop in H as [Hc Hr].
  destruct (IH Hr) as [I1 I2]. destruct c as [s|t]; [|discriminate]. cbn [map col_term col_str forallb]. cbn [str_col] in Hc.
  rewrite I1, Hc, I2. split; reflexivity.
Qed.

Definition lit_row (r : list pyval) : bool := match r with [] => false | _ => forallb lit_val r end.
Lemma lit_rows_cells c : forall rows, forallb lit_row rows = true ->
  forallb (forallb (fun x : wk * term => is_litterm (snd x))) (map (map (wrap_constant c)) rows) = true
  /\ map cell_row_text (map (map (wrap_constant c)) rows) = map (map (value_tok_ins c)) rows
  /\ forallb row_ok (map (map (value_tok_ins c)) rows) = true.
Proof.
  induction rows as [|r rs IH]; intros H; [repeat split; reflexivity|].
  cbn [forallb] in H. apply andb_prop in H as [Hr Hrs]. destruct (IH Hrs) as (I1 & I2 & I3).
  assert (R : forallb (fun x : wk * term => is_litterm (snd x)) (map (wrap_constant c) r) = true
              /\ cell_row_text (map (wrap_constant c) r) = map (value_tok_ins c) r
              /\ forallb lit_ok (map (value_tok_ins c) r) = true).
  { assert (Hl : forallb lit_val r = true) by (destruct r; [discriminate|exact Hr]). clear Hr.
    induction r as [|v r IHr]; [repeat split; reflexivity|]. cbn [forallb] in Hl. apply andb_prop in Hl as [Hv Hl].
    destruct (IHr Hl) as (J1 & J2 & J3). destruct (wrap_constant_lit c v Hv) as [W1 W2].
    unfold cell_row_text in *. cbn [map forallb]. rewrite W1, W2, J1, J2, J3, (value_tok_ins_ok c v Hv). repeat split; reflexivity. }
  destruct R as (R1 & R2 & R3).
  cbn [map forallb]. rewrite R1, R2, I1, I2, I3. repeat split; try reflexivity.
  assert (Ro : row_ok (map (value_tok_ins c) r) = true) by (destruct r; [discriminate|exact R3]). rewrite Ro. reflexivity.
Qed.

(* ------------------------------------------------------------------------------------------------ *)
(* INSERT / REPLACE / INSERT OR REPLACE ... VALUES                                                    *)
(* ------------------------------------------------------------------------------------------------ *)
Theorem insert_reads_back c tbl cs :
  dml_cls_ok c = true -> plain_table tbl = true ->
  forallb (insert_call_ok c) cs = true ->
  forallb str_col (cols_of_calls cs) = true ->
  rows_of_calls cs <> [] -> forallb lit_row (rows_of_calls cs) = true ->
  exists st txt, run c (SInto tbl) cs = Ok st /\ dml_text st = Ok txt
    /\ txt = insert_text (mode_of_calls cs) (tname tbl) (map col_str (cols_of_calls cs)) (map (map (value_tok_ins c)) (rows_of_calls cs))
    /\ parse_dml txt = Some (AInsert (mode_of_calls cs) (tname tbl) (map col_str (cols_of_calls cs))
                                     (map (map (value_tok_ins c)) (rows_of_calls cs))).
Proof.
  intros Hc Ht Hcs Hcols Hne Hrows.
  destruct (run_positional_into cs (init c (SInto tbl)) tbl eq_refl
              (forallb_impl _ _ cs (insert_ok_call_ok c) Hcs)) as (st & Hrun & P).
  destruct P as (Pv & Pc & Pu & Pf & Pw & Pl & Pfr & Ps & Pcl & Pi & Pup & Pd).
  cbn [init d_values d_columns d_updates d_replace d_ior d_where d_limit d_from d_selects d_cls d_into d_update d_delete app] in *.
  destruct (str_cols_terms tbl _ Hcols) as [Ec Hnames]. destruct (lit_rows_cells c _ Hrows) as (L1 & L2 & L3).
  assert (Hq : str_query (QIns c tbl (d_columns st) (map (map (fun x => IT (snd x))) (d_values st)) (sel_query st) (d_replace st) None)
               = Ok (insert_text (if d_replace st then MReplace else MInsert) (tname tbl) (map col_str (cols_of_calls cs))
                                 (map (map (value_tok_ins c)) (rows_of_calls cs)))).
  { rewrite Pc, Ec, Pv. rewrite (str_query_insert_values c Hc tbl _ _ (sel_query st) (d_replace st) Ht); auto.
    - rewrite L2. reflexivity.
    - destruct (rows_of_calls cs); [congruence|discriminate]. }
  exists st. eexists. split; [exact Hrun|].
  assert (Ht' : name_ok (tname tbl) = true) by (unfold plain_table in Ht; apply andb_prop in Ht as [Ht _]; apply andb_prop in Ht as [Ht _]; exact Ht).
  assert (Hne' : map (map (value_tok_ins c)) (rows_of_calls cs) <> []) by (destruct (rows_of_calls cs); [congruence|discriminate]).
  assert (Etxt : dml_text st = Ok (insert_text (mode_of_calls cs) (tname tbl) (map col_str (cols_of_calls cs))
                                               (map (map (value_tok_ins c)) (rows_of_calls cs)))).
  { unfold dml_text, state_query, state_kind. rewrite Pup, Pd, Pi, Pcl. cbn iota. rewrite Hq.
    unfold mode_of_calls, flags_of_calls. rewrite <- Pf. unfold mode_of_flags. cbn [fst snd].
    destruct (d_replace st); [|reflexivity]. destruct (d_ior st); reflexivity. }
  split; [exact Etxt|]. split; [reflexivity|].
  apply parse_insert_text; assumption.
Qed.

(* ------------------------------------------------------------------------------------------------ *)
(* INSERT ... SELECT                                                                                  *)
(* ------------------------------------------------------------------------------------------------ *)
Definition inssel_query (c : cls) (cs : list call) : query :=
  QSel c [] false (map IT (sels_of_calls cs)) (map SrcT (froms_of_calls cs)) [] (option_map IT (where_of_calls cs)) None [] []
       None None false None.

Theorem insert_select_reads_back c tbl cs s :
  dml_cls_ok c = true -> plain_table tbl = true ->
  forallb inssel_call_ok cs = true ->
  forallb str_col (cols_of_calls cs) = true ->
  sels_of_calls cs <> [] ->
  ins_sel_res c (inssel_query c cs) = Ok s -> starts_select s = true ->
  exists st txt, run c (SInto tbl) cs = Ok st /\ dml_text st = Ok txt
    /\ txt = insert_select_text (mode_of_calls cs) (tname tbl) (map col_str (cols_of_calls cs)) s
    /\ parse_dml txt = Some (AInsertSelect (mode_of_calls cs) (tname tbl) (map col_str (cols_of_calls cs)) s).
Proof.
  intros Hc Ht Hcs Hcols Hsel Hs Hss.
  destruct (run_positional_into cs (init c (SInto tbl)) tbl eq_refl
              (forallb_impl _ _ cs (inssel_ok_call_ok c) Hcs)) as (st & Hrun & P).
  destruct P as (Pv & Pc & Pu & Pf & Pw & Pl & Pfr & Ps & Pcl & Pi & Pup & Pd).
  cbn [init d_values d_columns d_updates d_replace d_ior d_where d_limit d_from d_selects d_cls d_into d_update d_delete app] in *.
  destruct (inssel_calls_inert cs Hcs) as (I1 & I2 & I3). rewrite I1 in Pv. rewrite I3 in Pl. cbn [map] in Pv.
  destruct (str_cols_terms tbl _ Hcols) as [Ec Hnames].
  assert (Ey : sel_query st = Some (inssel_query c cs)).
  { unfold sel_query, inssel_query. rewrite Ps, Pfr, Pw, Pl, Pcl. fold (where_of_calls cs).
    destruct (sels_of_calls cs); [congruence|reflexivity]. }
  assert (Hsne : nonempty_str s = true).
  { unfold starts_select in Hss. destruct s; [discriminate|reflexivity]. }
  assert (Hq : str_query (QIns c tbl (d_columns st) (map (map (fun x => IT (snd x))) (d_values st)) (sel_query st) (d_replace st) None)
               = Ok (insert_select_text (if d_replace st then MReplace else MInsert) (tname tbl) (map col_str (cols_of_calls cs)) s)).
  { rewrite Pc, Ec, Pv, Ey. cbn [map]. apply str_query_insert_select; assumption. }
  assert (Ht' : name_ok (tname tbl) = true) by (unfold plain_table in Ht; apply andb_prop in Ht as [Ht _]; apply andb_prop in Ht as [Ht _]; exact Ht).
  exists st. eexists. split; [exact Hrun|].
  assert (Etxt : dml_text st = Ok (insert_select_text (mode_of_calls cs) (tname tbl) (map col_str (cols_of_calls cs)) s)).
  { unfold dml_text, state_query, state_kind. rewrite Pup, Pd, Pi, Pcl. cbn iota. rewrite Hq.
    unfold mode_of_calls, flags_of_calls. rewrite <- Pf. unfold mode_of_flags. cbn [fst snd].
    destruct (d_replace st); [|reflexivity]. destruct (d_ior st); reflexivity. }
  split; [exact Etxt|]. split; [reflexivity|].
  apply parse_insert_select_text; assumption.
Qed.

(* ------------------------------------------------------------------------------------------------ *)
(* UPDATE                                                                                             *)
(* ------------------------------------------------------------------------------------------------ *)
Definition where_res (f : term -> res string) (w : option term) : res (option string) :=
  match w with None => Ok None | Some w0 => match f w0 with Ok t => Ok (Some t) | Err e => Err e end end.
Definition set_ok (p : colarg * pyval) : bool := str_col (fst p) && lit_val (snd p).
Definition set_toks (c : cls) (ps : list (colarg * pyval)) : list (string * lit) :=
  map (fun p => (col_str (fst p), value_tok_set c (snd p))) ps.

Lemma lit_sets c : forall ps, forallb set_ok ps = true ->
  let sets' := map (fun p : colarg * pyval => (col_str (fst p), wrap_set c (snd p))) ps in
  map (fun fv : term * (wk * term) => (fst fv, IT (snd (snd fv)))) (map (fun p => (set_field (fst p), wrap_set c (snd p))) ps)
  = map (fun p : string * (wk * term) => (TField (fst p) None None, IT (snd (snd p)))) sets'
  /\ forallb (fun p : string * (wk * term) => is_litterm (snd (snd p))) sets' = true
  /\ set_lits sets' = set_toks c ps
  /\ forallb pair_ok (set_toks c ps) = true.
Proof.
  induction ps as [|[f v] r IH]; intros H; [repeat split; reflexivity|].
  cbn [forallb] in H. apply andb_prop in H as [Hp Hr]. unfold set_ok in Hp. cbn [fst snd] in Hp. apply andb_prop in Hp as [Hf Hv].
  destruct (IH Hr) as (I1 & I2 & I3 & I4). destruct (wrap_set_lit c v Hv) as [W1 W2].
  destruct f as [s|t]; [|discriminate]. cbn [str_col] in Hf.
  unfold set_lits, set_toks in *. cbn [map fst snd set_field col_str forallb].
  rewrite I1, I2, I3, I4, W1, W2. unfold pair_ok. cbn [fst snd]. rewrite Hf, (value_tok_set_ok c v Hv). repeat split; reflexivity.
Qed.

Theorem update_reads_back c tbl cs wo :
  dml_cls_ok c = true -> plain_table tbl = true ->
  forallb update_call_ok cs = true ->
  sets_of_calls cs <> [] -> forallb set_ok (sets_of_calls cs) = true ->
  where_res (upd_where_res c tbl) (where_of_calls cs) = Ok wo ->
  exists st txt, run c (SUpdate tbl) cs = Ok st /\ dml_text st = Ok txt
    /\ txt = update_text (tname tbl) (set_toks c (sets_of_calls cs)) wo
    /\ parse_dml txt = Some (AUpdate (tname tbl) (set_toks c (sets_of_calls cs)) wo).
Proof.
  intros Hc Ht Hcs Hne Hsets Hw.
  destruct (update_calls_inert cs Hcs) as (I1 & I2 & I3 & I4 & I5 & I6 & I7).
  destruct (run_positional_nodml cs (init c (SUpdate tbl)) I7) as (st & Hrun & P).
  destruct P as (Pv & Pc & Pu & Pf & Pw & Pl & Pfr & Ps & Pcl & Pi & Pup & Pd).
  cbn [init d_values d_columns d_updates d_replace d_ior d_where d_limit d_from d_selects d_cls d_into d_update d_delete app] in *.
  rewrite I3 in Pfr. rewrite I6 in Pl. fold (where_of_calls cs) in Pw.
  destruct (lit_sets c _ Hsets) as (L1 & L2 & L3 & L4).
  assert (Ht' : name_ok (tname tbl) = true) by (unfold plain_table in Ht; apply andb_prop in Ht as [Ht _]; apply andb_prop in Ht as [Ht _]; exact Ht).
  assert (Hne' : set_toks c (sets_of_calls cs) <> []) by (unfold set_toks; destruct (sets_of_calls cs); [congruence|discriminate]).
  exists st. eexists. split; [exact Hrun|].
  assert (Etxt : dml_text st = Ok (update_text (tname tbl) (set_toks c (sets_of_calls cs)) wo)).
  { unfold dml_text, state_query, state_kind. rewrite Pup. cbn iota. rewrite Pu, Pfr, Pw, Pl, Pcl, L1. cbn [map].
    rewrite (str_query_update c Hc tbl _ (where_of_calls cs) Ht); [|destruct (sets_of_calls cs); [congruence|discriminate]|exact L2].
    rewrite L3. unfold where_res in Hw. destruct (where_of_calls cs) as [w0|].
    - destruct (upd_where_res c tbl w0); [|discriminate]. injection Hw as <-. reflexivity.
    - injection Hw as <-. reflexivity. }
  split; [exact Etxt|]. split; [reflexivity|].
  apply parse_update_text; assumption.
Qed.

(* ------------------------------------------------------------------------------------------------ *)
(* DELETE                                                                                             *)
(* ------------------------------------------------------------------------------------------------ *)
Theorem delete_reads_back c tbl cs wo :
  dml_cls_ok c = true -> plain_table tbl = true ->
  forallb delete_call_ok cs = true ->
  where_res (del_where_res c tbl) (where_of_calls cs) = Ok wo ->
  exists st txt, run c (SDelete tbl) cs = Ok st /\ dml_text st = Ok txt
    /\ txt = delete_text (tname tbl) wo
    /\ parse_dml txt = Some (ADelete (tname tbl) wo).
Proof.
  intros Hc Ht Hcs Hw.
  destruct (delete_calls_update cs Hcs) as (Hu & Hs0).
  destruct (update_calls_inert cs Hu) as (I1 & I2 & I3 & I4 & I5 & I6 & I7).
  destruct (run_positional_nodml cs (init c (SDelete tbl)) I7) as (st & Hrun & P).
  destruct P as (Pv & Pc & Pu & Pf & Pw & Pl & Pfr & Ps & Pcl & Pi & Pup & Pd).
  cbn [init d_values d_columns d_updates d_replace d_ior d_where d_limit d_from d_selects d_cls d_into d_update d_delete app] in *.
  rewrite I3 in Pfr. rewrite I6 in Pl. fold (where_of_calls cs) in Pw.
  assert (Ht' : name_ok (tname tbl) = true) by (unfold plain_table in Ht; apply andb_prop in Ht as [Ht _]; apply andb_prop in Ht as [Ht _]; exact Ht).
  exists st. eexists. split; [exact Hrun|].
  assert (Etxt : dml_text st = Ok (delete_text (tname tbl) wo)).
  { unfold dml_text, state_query, state_kind. rewrite Pup, Pd. cbn iota. rewrite Pfr, Pw, Pl, Pcl. cbn [map app].
    rewrite (str_query_delete c Hc tbl (where_of_calls cs) Ht). rewrite page_tail_none.
    unfold where_res in Hw. destruct (where_of_calls cs) as [w0|].
    - destruct (del_where_res c tbl w0); [|discriminate]. injection Hw as <-. rewrite sapp_nil_r. reflexivity.
    - injection Hw as <-. rewrite sapp_nil_r. reflexivity. }
  split; [exact Etxt|]. split; [reflexivity|].
  apply parse_delete_text; assumption.
Qed.

(* when the criterion does not render, neither does the statement (the error is kept, not totalised away) *)
Theorem update_where_error c tbl cs e :
  dml_cls_ok c = true -> plain_table tbl = true -> forallb update_call_ok cs = true ->
  sets_of_calls cs <> [] -> forallb set_ok (sets_of_calls cs) = true ->
  where_res (upd_where_res c tbl) (where_of_calls cs) = Err e ->
  exists st, run c (SUpdate tbl) cs = Ok st /\ dml_text st = Err e.
Proof.
  intros Hc Ht Hcs Hne Hsets Hw.
  destruct (update_calls_inert cs Hcs) as (I1 & I2 & I3 & I4 & I5 & I6 & I7).
  destruct (run_positional_nodml cs (init c (SUpdate tbl)) I7) as (st & Hrun & P).
  destruct P as (Pv & Pc & Pu & Pf & Pw & Pl & Pfr & Ps & Pcl & Pi & Pup & Pd).
  cbn [init d_values d_columns d_updates d_replace d_ior d_where d_limit d_from d_selects d_cls d_into d_update d_delete app] in *.
  rewrite I3 in Pfr. rewrite I6 in Pl. fold (where_of_calls cs) in Pw.
  destruct (lit_sets c _ Hsets) as (L1 & L2 & L3 & L4).
  exists st. split; [exact Hrun|].
  unfold dml_text, state_query, state_kind. rewrite Pup. cbn iota. rewrite Pu, Pfr, Pw, Pl, Pcl, L1. cbn [map].
  rewrite (str_query_update c Hc tbl _ (where_of_calls cs) Ht); [|destruct (sets_of_calls cs); [congruence|discriminate]|exact L2].
  unfold where_res in Hw. destruct (where_of_calls cs) as [w0|]; [|discriminate].
  destruct (upd_where_res c tbl w0); [discriminate|]. injection Hw as <-. reflexivity.
Qed.

(* ------------------------------------------------------------------------------------------------ *)
(* ANY values (terms included): the positional structure of the text                                 *)
(* ------------------------------------------------------------------------------------------------ *)
Lemma sets_fields c : forall ps : list (colarg * pyval), forallb (fun p => str_col (fst p)) ps = true ->
  map (fun fv : term * (wk * term) => (fst fv, IT (snd (snd fv)))) (map (fun p => (set_field (fst p), wrap_set c (snd p))) ps)
  = map (fun p : string * (wk * term) => (TField (fst p) None None, IT (snd (snd p))))
        (map (fun p : colarg * pyval => (col_str (fst p), wrap_set c (snd p))) ps).
Proof.
  induction ps as [|[f v] r IH]; intros H; [reflexivity|]. cbn [forallb fst] in H. apply andb_prop in H as [Hf Hr].
  destruct f as [s|t]; [|discriminate]. cbn [map fst snd set_field col_str]. rewrite (IH Hr). reflexivity.
Qed.

Theorem update_structure_any c tbl cs texts wo :
  dml_cls_ok c = true -> plain_table tbl = true ->
  forallb update_call_ok cs = true ->
  sets_of_calls cs <> [] -> forallb (fun p => str_col (fst p)) (sets_of_calls cs) = true ->
  mapM (fun p : colarg * pyval => set_value_res c tbl (where_of_calls cs) (snd (wrap_set c (snd p)))) (sets_of_calls cs) = Ok texts ->
  where_res (upd_where_res c tbl) (where_of_calls cs) = Ok wo ->
  exists st, run c (SUpdate tbl) cs = Ok st
    /\ dml_text st = Ok (update_text_x (tname tbl) (combine (map (fun p => col_str (fst p)) (sets_of_calls cs)) texts) wo).
Proof.
  intros Hc Ht Hcs Hne Hcols Hv Hw.
  destruct (update_calls_inert cs Hcs) as (I1 & I2 & I3 & I4 & I5 & I6 & I7).
  destruct (run_positional_nodml cs (init c (SUpdate tbl)) I7) as (st & Hrun & P).
  destruct P as (Pv & Pc & Pu & Pf & Pw & Pl & Pfr & Ps & Pcl & Pi & Pup & Pd).
  cbn [init d_values d_columns d_updates d_replace d_ior d_where d_limit d_from d_selects d_cls d_into d_update d_delete app] in *.
  rewrite I3 in Pfr. rewrite I6 in Pl. fold (where_of_calls cs) in Pw.
  exists st. split; [exact Hrun|].
  unfold dml_text, state_query, state_kind. rewrite Pup. cbn iota. rewrite Pu, Pfr, Pw, Pl, Pcl, (sets_fields c _ Hcols). cbn [map].
  rewrite (str_query_update_any c Hc tbl _ (where_of_calls cs) texts Ht).
  - rewrite map_map. cbn [fst]. unfold where_res in Hw. destruct (where_of_calls cs) as [w0|].
    + destruct (upd_where_res c tbl w0); [|discriminate]. injection Hw as <-. reflexivity.
    + injection Hw as <-. reflexivity.
  - destruct (sets_of_calls cs); [congruence|discriminate].
  - rewrite mapM_map. cbn [snd]. exact Hv.
Qed.

Theorem insert_structure_any c tbl cs texts :
  dml_cls_ok c = true -> plain_table tbl = true ->
  forallb (insert_call_ok c) cs = true ->
  forallb str_col (cols_of_calls cs) = true ->
  rows_of_calls cs <> [] ->
  mapM (fun row : list pyval => mapM (fun v => ins_value_res c (snd (wrap_constant c v))) row) (rows_of_calls cs) = Ok texts ->
  exists st, run c (SInto tbl) cs = Ok st
    /\ dml_text st = Ok (insert_text_x (mode_of_calls cs) (tname tbl) (map col_str (cols_of_calls cs)) texts).
Proof.
  intros Hc Ht Hcs Hcols Hne Hv.
  destruct (run_positional_into cs (init c (SInto tbl)) tbl eq_refl
              (forallb_impl _ _ cs (insert_ok_call_ok c) Hcs)) as (st & Hrun & P).
  destruct P as (Pv & Pc & Pu & Pf & Pw & Pl & Pfr & Ps & Pcl & Pi & Pup & Pd).
  cbn [init d_values d_columns d_updates d_replace d_ior d_where d_limit d_from d_selects d_cls d_into d_update d_delete app] in *.
  destruct (str_cols_terms tbl _ Hcols) as [Ec Hnames].
  exists st. split; [exact Hrun|].
  assert (Hq : str_query (QIns c tbl (d_columns st) (map (map (fun x => IT (snd x))) (d_values st)) (sel_query st) (d_replace st) None)
               = Ok (insert_text_x (if d_replace st then MReplace else MInsert) (tname tbl) (map col_str (cols_of_calls cs)) texts)).
  { rewrite Pc, Ec, Pv. apply (str_query_insert_any c Hc tbl _ _ (sel_query st) (d_replace st) texts Ht).
    - destruct (rows_of_calls cs); [congruence|discriminate].
    - rewrite mapM_map. rewrite <- Hv. clear. induction (rows_of_calls cs) as [|r rs IH]; [reflexivity|].
      cbn [mapM]. rewrite mapM_map. rewrite IH. reflexivity. }
  unfold dml_text, state_query, state_kind. rewrite Pup, Pd, Pi, Pcl. cbn iota. rewrite Hq.
  unfold mode_of_calls, flags_of_calls. rewrite <- Pf. unfold mode_of_flags. cbn [fst snd].
  destruct (d_replace st); [|reflexivity]. destruct (d_ior st); reflexivity.
Qed.
