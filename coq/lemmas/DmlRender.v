(* DmlRender.v — C05: what the shared statement renderer (Query.str_query) writes for INSERT ... VALUES,
   INSERT ... SELECT, UPDATE ... SET and DELETE statements whose values are literal cells. *)
From Coq Require Import Lia.
From PV Require Import Base Crit gen.TermsTable Terms Page gen.QueryTable Query Dml lemmas.DmlRead.
(* rewriting is syntactic: spell the cell type out *)
Local Notation cell := (wk * term)%type (only parsing).

(* ---- the anonymous loops of rquery are mapM ---- *)
Lemma fix_items {A} (f : A -> res string) : forall l,
  (fix gov (l2 : list A) : res (list string) :=
     match l2 with [] => Ok [] | y :: r2 => a <- f y ;; rest <- gov r2 ;; Ok (a :: rest) end) l = mapM f l.
Proof. induction l as [|y r IH]; [reflexivity|]. cbn [mapM]. rewrite <- IH. destruct (f y); reflexivity. Qed.
Lemma fix_rows {A} (f : A -> res string) : forall rows,
  (fix go (l1 : list (list A)) : res (list string) :=
     match l1 with
     | [] => Ok []
     | row :: r =>
         vs <- (fix gov (l2 : list A) : res (list string) :=
                  match l2 with [] => Ok [] | y :: r2 => a <- f y ;; rest <- gov r2 ;; Ok (a :: rest) end) row ;;
         rest <- go r ;; Ok (join "," vs :: rest)
     end) rows = mapM (fun row => match mapM f row with Ok vs => Ok (join "," vs) | Err e => Err e end) rows.
Proof.
  induction rows as [|row r IH]; [reflexivity|]. cbn [mapM]. rewrite <- IH. rewrite fix_items.
  destruct (mapM f row); reflexivity.
Qed.
Lemma fix_sets (f1 : term -> res string) (f2 : item -> res string) : forall l,
  (fix go (l : list (term * item)) : res (list string) :=
     match l with
     | [] => Ok []
     | (f, v) :: r => a <- f1 f ;; b <- f2 v ;; rest <- go r ;; Ok ((a ++ "=" ++ b) :: rest)
     end) l
  = mapM (fun p => match f1 (fst p) with
                   | Ok a => match f2 (snd p) with Ok b => Ok (a ++ "=" ++ b) | Err e => Err e end
                   | Err e => Err e end) l.
Proof.
  induction l as [|[f v] r IH]; [reflexivity|]. cbn [mapM fst snd]. rewrite <- IH.
  destruct (f1 f); [|reflexivity]. destruct (f2 v); reflexivity.
Qed.
Lemma mapM_ok {A B} (f : A -> res B) (g : A -> B) : forall l, (forall x, In x l -> f x = Ok (g x)) -> mapM f l = Ok (map g l).
Proof.
  induction l as [|x r IH]; intros H; [reflexivity|]. cbn [mapM map]. rewrite (H x (or_introl eq_refl)).
  rewrite IH; [reflexivity|]. intros y Hy. apply H. right. exact Hy.
Qed.

(* ---- class constants ---- *)
Lemma option_eqb_str a b : option_eqb String.eqb a b = true -> a = b.
Proof. destruct a, b; cbn; intros H; try discriminate; [apply String.eqb_eq in H; congruence|reflexivity]. Qed.
Lemma dml_cls_ok_spec c : dml_cls_ok c = true ->
  cls_q c = Some """" /\ cls_sq c = Some "'" /\ cls_aq c = None /\ cls_askw c = false /\ cls_is_clickhouse c = false.
Proof.
  unfold dml_cls_ok. intros H. repeat (apply andb_prop in H as [H ?]).
  repeat split; try (apply option_eqb_str; assumption); match goal with X : negb ?b = true |- ?b = false => destruct b; [discriminate|reflexivity] end.
Qed.
Lemma page_tail_none c k : page_tail c k None None = "".
Proof. destruct c, k; reflexivity. Qed.

(* ---- literal cells ---- *)
Lemma map_tref_lit f t : is_litterm t = true -> map_tref f t = t.
Proof. destruct t; try discriminate; reflexivity. Qed.
Lemma render_lit c0 t : sq c0 = Some "'" -> is_litterm t = true -> render c0 t = Ok (fmt_lit (lit_of t)).
Proof.
  intros Hsq H. unfold lit_of. destruct t; try discriminate H; cbn [is_litterm term_lit] in H;
    match goal with a : option string |- _ => destruct a; try discriminate H end; cbn [term_lit render alias_sql fmt_alias fmt_lit]; try reflexivity.
  rewrite Hsq. reflexivity.
Qed.
Lemma ritem_lit k srcs c0 t : sq c0 = Some "'" -> is_litterm t = true -> ritem k srcs c0 (IT t) = Ok (fmt_lit (lit_of t)).
Proof. intros Hsq H. cbn [ritem]. rewrite (map_tref_lit _ t H). apply render_lit; assumption. Qed.

Lemma render_cols c0 tbl cols : wn c0 = false -> talias tbl = None ->
  render_list c0 (fold_right TCons TNil (map (fun s => TField s (Some tbl) None) cols)) = Ok (map (fq (q c0)) cols).
Proof.
  intros Hwn Hal. induction cols as [|x r IH]; [reflexivity|].
  cbn [map fold_right render_list render]. rewrite Hwn, Hal. cbn [truthy_ostr orb]. rewrite IH.
  destruct (wa c0); reflexivity.
Qed.
Lemma table_sql_plain c0 tbl : plain_table tbl = true -> table_sql c0 tbl = fq (q c0) (tname tbl).
Proof.
  unfold plain_table. intros H. apply andb_prop in H as [H Ha]. apply andb_prop in H as [_ Hs].
  unfold table_sql. destruct (tschema tbl); [|discriminate]. destruct (talias tbl); [discriminate|]. reflexivity.
Qed.
Lemma plain_table_alias tbl : plain_table tbl = true -> talias tbl = None.
Proof. unfold plain_table. intros H. apply andb_prop in H as [_ Ha]. destruct (talias tbl); [discriminate|reflexivity]. Qed.

Definition cell_row_text (row : list cell) : list lit := map (fun c => lit_of (snd c)) row.

Lemma mapM_map {A B C} (f : B -> res C) (g : A -> B) : forall l, mapM f (map g l) = mapM (fun x => f (g x)) l.
Proof. induction l as [|x r IH]; [reflexivity|]. cbn [map mapM]. rewrite IH. reflexivity. Qed.

Section Cls.
Variable c : cls.
Hypothesis Hc : dml_cls_ok c = true.
Let K := defaults c (top_ctx c).
Lemma K_q : q (kc K) = Some """". Proof. destruct (dml_cls_ok_spec c Hc) as (H & _). exact H. Qed.
Lemma K_sq : sq (kc K) = Some "'". Proof. destruct (dml_cls_ok_spec c Hc) as (_ & H & _). exact H. Qed.
Lemma K_aq : aq (kc K) = None. Proof. destruct (dml_cls_ok_spec c Hc) as (_ & _ & H & _). exact H. Qed.
Lemma K_wa : wa (kc K) = false. Proof. reflexivity. Qed.

Lemma cols_part tbl cols (B : ctx) : wn B = false -> q B = Some """" -> talias tbl = None ->
  match map (fun s : string => TField s (Some tbl) None) cols with
  | [] => Ok ""
  | _ :: _ =>
      cs <- render_list B (fold_right TCons TNil (map (fun s : string => TField s (Some tbl) None) cols)) ;;
      Ok (" (" ++ join "," cs ++ ")")
  end = Ok (cols_text cols).
Proof.
  intros Hwn Hq Hal. destruct cols as [|x r]; [reflexivity|].
  rewrite (render_cols B tbl (x :: r) Hwn Hal). cbn [map bind]. rewrite Hq. reflexivity.
Qed.

Lemma rows_part (k : kctx) (V : ctx) (rows : list (list cell)) : sq V = Some "'" ->
  forallb (forallb (fun x => is_litterm (snd x))) rows = true ->
  mapM (fun row : list item => match mapM (ritem k [] V) row with Ok vs => Ok (join "," vs) | Err e => Err e end)
       (map (map (fun x : wk * term => IT (snd x))) rows)
  = Ok (map row_text (map cell_row_text rows)).
Proof.
  intros Hsq Hl. rewrite mapM_map, map_map. apply mapM_ok. intros row Hrow.
  rewrite forallb_forall in Hl. specialize (Hl row Hrow). rewrite forallb_forall in Hl.
  rewrite mapM_map. rewrite (mapM_ok _ (fun x => fmt_lit (lit_of (snd x)))).
  - unfold row_text, cell_row_text. rewrite map_map. reflexivity.
  - intros x Hx. apply ritem_lit; auto.
Qed.

(* ---- INSERT ... VALUES ---- *)
Theorem str_query_insert_values tbl cols (rows : list (list cell)) sel repl :
  plain_table tbl = true -> rows <> [] ->
  forallb (forallb (fun x => is_litterm (snd x))) rows = true ->
  str_query (QIns c tbl (map (fun s => TField s (Some tbl) None) cols) (map (map (fun x => IT (snd x))) rows) sel repl None)
  = Ok (insert_text (if repl then MReplace else MInsert) (tname tbl) cols (map cell_row_text rows)).
Proof.
  intros Ht Hne Hl.
  unfold str_query. cbn [top_cls]. cbn [rquery]. rewrite fix_rows. fold K.
  set (B := set_wn (kc K) false).
  rewrite (cols_part tbl cols B eq_refl K_q (plain_table_alias _ Ht)).
  rewrite (rows_part (with_c K B) (set_subq (set_wa B false) true) rows K_sq Hl).
  rewrite (table_sql_plain B tbl Ht). change (q B) with (q (kc K)). rewrite K_q.
  destruct rows as [|r0 rs]; [congruence|]. cbn [map bind].
  unfold insert_text, values_text. rewrite !sapp_assoc. destruct repl; reflexivity.
Qed.

(* ---- INSERT ... SELECT : the SELECT is whatever the shared renderer writes for it ---- *)
Theorem str_query_insert_select tbl cols y repl s :
  plain_table tbl = true -> ins_sel_res c y = Ok s -> nonempty_str s = true ->
  str_query (QIns c tbl (map (fun s => TField s (Some tbl) None) cols) [] (Some y) repl None)
  = Ok (insert_select_text (if repl then MReplace else MInsert) (tname tbl) cols s).
Proof.
  intros Ht Hs Hne.
  unfold str_query. cbn [top_cls]. cbn [rquery]. fold K.
  set (B := set_wn (kc K) false).
  rewrite (cols_part tbl cols B eq_refl K_q (plain_table_alias _ Ht)).
  unfold ins_sel_res in Hs. fold K in Hs. fold B in Hs. cbn [bind]. rewrite Hs.
  rewrite (table_sql_plain B tbl Ht). change (q B) with (q (kc K)). rewrite K_q.
  destruct s as [|a s']; [discriminate|]. cbn [bind paren].
  unfold insert_select_text. rewrite !sapp_assoc. destruct repl; reflexivity.
Qed.

(* ---- UPDATE ---- *)
Lemma render_set_field (B : ctx) n : render B (TField n None None) = Ok (fq (q B) n).
Proof. cbn [render]. destruct (wa B); reflexivity. Qed.

Definition set_lits (sets : list (string * cell)) : list (string * lit) := map (fun p => (fst p, lit_of (snd (snd p)))) sets.

Lemma sets_part (k : kctx) (B1 B2 : ctx) (sets : list (string * cell)) : q B1 = Some """" -> sq B2 = Some "'" ->
  forallb (fun p => is_litterm (snd (snd p))) sets = true ->
  mapM (fun p0 : term * item =>
          match render B1 (fst p0) with
          | Ok a => match ritem k [] B2 (snd p0) with Ok b => Ok (a ++ "=" ++ b) | Err e => Err e end
          | Err e => Err e end)
       (map (fun p : string * cell => (TField (fst p) None None, IT (snd (snd p)))) sets)
  = Ok (map set_text (set_lits sets)).
Proof.
  intros Hq Hsq Hl. rewrite mapM_map. unfold set_lits. rewrite map_map. apply mapM_ok. intros p Hp.
  rewrite forallb_forall in Hl. specialize (Hl p Hp). cbv beta in Hl |- *. cbn [fst snd].
  rewrite render_set_field, Hq. rewrite (ritem_lit k [] B2 _ Hsq Hl). reflexivity.
Qed.

Theorem str_query_update tbl (sets : list (string * cell)) (w : option term) :
  plain_table tbl = true -> sets <> [] ->
  forallb (fun p => is_litterm (snd (snd p))) sets = true ->
  str_query (QUpd c tbl (map (fun p => (TField (fst p) None None, IT (snd (snd p)))) sets) [] [] (option_map IT w) None)
  = match w with
    | None => Ok (update_text (tname tbl) (set_lits sets) None)
    | Some w0 => match upd_where_res c tbl w0 with
                 | Ok wt => Ok (update_text (tname tbl) (set_lits sets) (Some wt))
                 | Err e => Err e end
    end.
Proof.
  intros Ht Hne Hl. destruct (dml_cls_ok_spec c Hc) as (_ & _ & _ & _ & Hch).
  unfold str_query. cbn [top_cls]. cbn [rquery].
  cbn [name_from name_joins src_refs map app List.length Nat.eqb Nat.ltb Nat.leb negb orb base_tables flat_map].
  rewrite fix_sets. fold K.
  change (existsb (fun o : option tref => match o with
                                          | Some tb => negb (existsb (tref_eqb (resolve_tref [] tb)) [tbl])
                                          | None => false end)
                 (match option_map IT w with Some w0 => item_tables w0 | None => [] end) || false) with (upd_wns tbl w).
  set (B := set_wn (kc K) (upd_wns tbl w)).
  assert (Hsqv : sq (if clause_subq_setvalue then set_subq B true else B) = Some "'") by (destruct clause_subq_setvalue; exact K_sq).
  rewrite (sets_part (with_c K B) (set_wn B false) (if clause_subq_setvalue then set_subq B true else B) sets K_q Hsqv Hl).
  rewrite (table_sql_plain B tbl Ht). change (q B) with (q (kc K)). rewrite K_q, Hch, page_tail_none.
  destruct sets as [|p0 ps]; [congruence|]. cbn [map bind]. fold (set_lits (p0 :: ps)).
  destruct w as [w0|].
  - cbn [option_map opt_bind ritem]. unfold upd_where_res. fold K. fold B.
    destruct (render (set_subq B true) (map_tref (resolve_tref []) w0)) as [wt|e]; [|reflexivity].
    cbn [bind]. unfold update_text, where_text. rewrite ?sapp_assoc, ?sapp_nil_r. reflexivity.
  - cbn [option_map opt_bind bind]. unfold update_text, where_text. rewrite ?sapp_assoc, ?sapp_nil_r. reflexivity.
Qed.

(* ---- DELETE ---- *)
Theorem str_query_delete tbl (w : option term) :
  plain_table tbl = true ->
  str_query (QDel c [SrcT tbl] (option_map IT w))
  = match w with
    | None => Ok (delete_text (tname tbl) None)
    | Some w0 => match del_where_res c tbl w0 with
                 | Ok wt => Ok (delete_text (tname tbl) (Some wt))
                 | Err e => Err e end
    end.
Proof.
  intros Ht. destruct (dml_cls_ok_spec c Hc) as (_ & _ & _ & _ & Hch).
  unfold str_query. cbn [top_cls]. cbn [rquery]. cbn [name_from src_refs]. fold K.
  change ((1 <? Datatypes.length [SrcT tbl])%nat || false
          || existsb (fun o : option tref =>
                            match o with
                            | Some tb => negb (existsb (tref_eqb (resolve_tref [src_ref (SrcT tbl) None] tb)) [src_ref (SrcT tbl) None])
                            | None => false end)
                     (match option_map IT w with Some w0 => item_tables w0 | None => [] end)) with (del_wns tbl w).
  set (B := set_wn (kc K) (del_wns tbl w)).
  rewrite (table_sql_plain B tbl Ht). change (q B) with (q (kc K)). rewrite K_q, Hch. cbn [bind].
  destruct w as [w0|].
  - cbn [option_map opt_bind ritem]. unfold del_where_res. fold K. fold B.
    destruct (render (set_subq B true) (map_tref (resolve_tref [src_ref (SrcT tbl) None]) w0)) as [wt|e]; [|reflexivity].
    cbn [bind paren join]. unfold delete_text, where_text. rewrite ?sapp_assoc. reflexivity.
  - cbn [option_map opt_bind bind paren join]. unfold delete_text, where_text. rewrite ?sapp_assoc, ?sapp_nil_r. reflexivity.
Qed.
(* ------------------------------------------------------------------------------------------------ *)
(* ANY value terms: the statement text has the positional structure whatever the values are         *)
(* ------------------------------------------------------------------------------------------------ *)
Definition values_text_x (rows : list (list string)) : string := " VALUES (" ++ join "),(" (map (join ",") rows) ++ ")".
Definition insert_text_x (m : imode) (tbl : string) (cols : list string) (rows : list (list string)) : string :=
  head_text m ++ fmt_ident tbl ++ cols_text cols ++ values_text_x rows.
Definition pair_text_x (p : string * string) : string := fmt_ident (fst p) ++ "=" ++ snd p.
Definition update_text_x (tbl : string) (pairs : list (string * string)) (w : option string) : string :=
  "UPDATE " ++ fmt_ident tbl ++ " SET " ++ join "," (map pair_text_x pairs) ++ where_text w.

Lemma mapM_bind_ok {A B} (f : A -> res B) : forall l ys, mapM f l = Ok ys -> List.length ys = List.length l /\
  forall k x, nth_error l k = Some x -> exists y, nth_error ys k = Some y /\ f x = Ok y.
Proof.
  induction l as [|a r IH]; intros ys H.
  - injection H as <-. split; [reflexivity|]. intros [|k] x E; discriminate E.
  - cbn [mapM] in H. destruct (f a) as [y|e] eqn:Ea; [|discriminate]. destruct (mapM f r) as [ys'|e] eqn:Er; [|discriminate].
    injection H as <-. destruct (IH ys' eq_refl) as [L N]. split; [cbn; congruence|].
    intros [|k] x E; cbn in E |- *.
    + injection E as <-. exists y. auto.
    + apply N. exact E.
Qed.

Theorem str_query_insert_any tbl cols (rows : list (list cell)) sel repl texts :
  plain_table tbl = true -> rows <> [] ->
  mapM (fun row => mapM (fun x : cell => ins_value_res c (snd x)) row) rows = Ok texts ->
  str_query (QIns c tbl (map (fun s => TField s (Some tbl) None) cols) (map (map (fun x => IT (snd x))) rows) sel repl None)
  = Ok (insert_text_x (if repl then MReplace else MInsert) (tname tbl) cols texts).
Proof.
  intros Ht Hne Hv.
  unfold str_query. cbn [top_cls]. cbn [rquery]. rewrite fix_rows. fold K.
  set (B := set_wn (kc K) false).
  rewrite (cols_part tbl cols B eq_refl K_q (plain_table_alias _ Ht)).
  assert (R : mapM (fun row : list item => match mapM (ritem (with_c K B) [] (set_subq (set_wa B false) true)) row with
                                           | Ok vs => Ok (join "," vs) | Err e => Err e end)
                   (map (map (fun x : cell => IT (snd x))) rows) = Ok (map (join ",") texts)).
  { clear Hne. revert texts Hv. induction rows as [|row rs IH]; intros texts Hv.
    - injection Hv as <-. reflexivity.
    - cbn [mapM map] in Hv |- *.
      destruct (mapM (fun x : cell => ins_value_res c (snd x)) row) as [vs|e] eqn:Er; [|discriminate].
      destruct (mapM (fun row0 => mapM (fun x : cell => ins_value_res c (snd x)) row0) rs) as [ts|e] eqn:Ers; [|discriminate].
      injection Hv as <-. rewrite mapM_map. unfold ins_value_res, ins_value_ctx in Er. fold K in Er. fold B in Er.
      cbn [ritem]. rewrite Er. rewrite (IH ts eq_refl). reflexivity. }
  rewrite R. rewrite (table_sql_plain B tbl Ht). change (q B) with (q (kc K)). rewrite K_q.
  destruct rows as [|r0 rs]; [congruence|]. cbn [map bind].
  unfold insert_text_x, values_text_x. rewrite !sapp_assoc. destruct repl; reflexivity.
Qed.

Theorem str_query_update_any tbl (sets : list (string * cell)) (w : option term) texts :
  plain_table tbl = true -> sets <> [] ->
  mapM (fun p : string * cell => set_value_res c tbl w (snd (snd p))) sets = Ok texts ->
  str_query (QUpd c tbl (map (fun p => (TField (fst p) None None, IT (snd (snd p)))) sets) [] [] (option_map IT w) None)
  = match w with
    | None => Ok (update_text_x (tname tbl) (combine (map fst sets) texts) None)
    | Some w0 => match upd_where_res c tbl w0 with
                 | Ok wt => Ok (update_text_x (tname tbl) (combine (map fst sets) texts) (Some wt))
                 | Err e => Err e end
    end.
Proof.
  intros Ht Hne Hv. destruct (dml_cls_ok_spec c Hc) as (_ & _ & _ & _ & Hch).
  unfold str_query. cbn [top_cls]. cbn [rquery].
  cbn [name_from name_joins src_refs map app List.length Nat.eqb Nat.ltb Nat.leb negb orb base_tables flat_map].
  rewrite fix_sets. fold K.
  change (existsb (fun o : option tref => match o with
                                          | Some tb => negb (existsb (tref_eqb (resolve_tref [] tb)) [tbl])
                                          | None => false end)
                 (match option_map IT w with Some w0 => item_tables w0 | None => [] end) || false) with (upd_wns tbl w).
  set (B := set_wn (kc K) (upd_wns tbl w)).
  set (V := if clause_subq_setvalue then set_subq B true else B).
  assert (R : mapM (fun p0 : term * item =>
                      match render (set_wn B false) (fst p0) with
                      | Ok a => match ritem (with_c K B) [] V (snd p0) with Ok b => Ok (a ++ "=" ++ b) | Err e => Err e end
                      | Err e => Err e end)
                   (map (fun p : string * cell => (TField (fst p) None None, IT (snd (snd p)))) sets)
              = Ok (map pair_text_x (combine (map fst sets) texts))).
  { clear Hne. revert texts Hv. induction sets as [|p ps IH]; intros texts Hv.
    - injection Hv as <-. reflexivity.
    - cbn [mapM map] in Hv |- *.
      destruct (set_value_res c tbl w (snd (snd p))) as [v|e] eqn:Ev; [|discriminate].
      destruct (mapM (fun p0 : string * cell => set_value_res c tbl w (snd (snd p0))) ps) as [ts|e] eqn:Eps; [|discriminate].
      injection Hv as <-. cbn [fst snd]. rewrite render_set_field. change (q (set_wn B false)) with (q (kc K)). rewrite K_q.
      unfold set_value_res, set_value_ctx in Ev. fold K in Ev. fold B in Ev. fold V in Ev. cbn [ritem]. rewrite Ev.
      rewrite (IH ts eq_refl). reflexivity. }
  rewrite R.
  rewrite (table_sql_plain B tbl Ht). change (q B) with (q (kc K)). rewrite K_q, Hch, page_tail_none.
  destruct sets as [|p0 ps]; [congruence|]. cbn [bind].
  destruct w as [w0|].
  - cbn [option_map opt_bind ritem]. unfold upd_where_res. fold K. fold B.
    destruct (render (set_subq B true) (map_tref (resolve_tref []) w0)) as [wt|e]; [|reflexivity].
    cbn [bind]. unfold update_text_x, where_text. rewrite ?sapp_assoc, ?sapp_nil_r. reflexivity.
  - cbn [option_map opt_bind bind]. unfold update_text_x, where_text. rewrite ?sapp_assoc, ?sapp_nil_r. reflexivity.
Qed.
End Cls.
