(* C02Univ.v — the universal part of C02: for EVERY term in the syntactic scope,
   (A) the faithful token renderer emits exactly the tokens of the policy printer,
   (B) on "clean" trees (no NOT used as an operand of an operator or predicate) the policy dominates the textbook
       rule of every engine on the normal form,
   (C) no two adjacent tokens form a comment introducer. *)
From PV Require Import Base Crit gen.TermsTable Terms Parse lemmas.ParseMono lemmas.ParsePrint C02Model lemmas.C02Lemmas.
From Coq Require Import Lia Arith Bool.
Local Open Scope list_scope.

(* ------------------------------------------------------------------------------------------- *)
(* A. tokens = printer                                                                           *)
(* ------------------------------------------------------------------------------------------- *)
Fixpoint atoms_ok (e : expr) : bool :=
  match e with
  | EAtom a => negb (String.eqb a "")
  | ENeg c | ENot c | EPost _ c => atoms_ok c
  | EBin _ l r => atoms_ok l && atoms_ok r
  | EIn _ c items => atoms_ok c && atoms_ok_items items
  | EBetween c lo hi => atoms_ok c && atoms_ok lo && atoms_ok hi
  | ECall _ args => atoms_ok_items args
  | ECase ws els => atoms_ok_whens ws && atoms_ok_else els
  end
with atoms_ok_items (l : elist) : bool := match l with ENil => true | ECons e r => atoms_ok e && atoms_ok_items r end
with atoms_ok_whens (l : ewlist) : bool :=
  match l with EWNil => true | EWCons c v r => atoms_ok c && atoms_ok v && atoms_ok_whens r end
with atoms_ok_else (o : eopt) : bool := match o with EONone => true | EOSome e => atoms_ok e end.

(* facts about the probed tables that part A rests on (re-checked on every run against the extracted tables) *)
Lemma T_null_rows : forall k, operand_parens SNotNull k = operand_parens SIsNull k.
Proof. destruct k; vm_compute; reflexivity. Qed.
Lemma T_lnp_none : forall o, left_needs_parens o None = false.
Proof. destruct o; vm_compute; reflexivity. Qed.
Lemma T_rnp_none : forall o, right_needs_parens o None = false.
Proof. destruct o; vm_compute; reflexivity. Qed.
Lemma T_arith_other_not : forall k, (k = OKOther \/ k = OKNot) -> operand_parens SArithL k = false /\ operand_parens SArithR k = false.
Proof. intros k [->| ->]; vm_compute; split; reflexivity. Qed.
Lemma T_neg_other : operand_parens SNeg OKOther = false.
Proof. vm_compute. reflexivity. Qed.

Local Open Scope string_scope.
Lemma starts_minus_app s1 s2 : s1 <> "" -> starts_minus (s1 ++ s2) = starts_minus s1.
Proof. destruct s1; [congruence|reflexivity]. Qed.
Lemma starts_minus_lp s : starts_minus ("(" ++ s) = false.
Proof. reflexivity. Qed.
Lemma sapp_nonempty_l s1 s2 : s1 <> "" -> s1 ++ s2 <> "".
Proof. destruct s1; [congruence|discriminate]. Qed.
Lemma tok_text_nonempty t : (match t with KAtom a | KName a => a <> "" | _ => True end) -> tok_text t <> "".
Proof.
  destruct t; cbn; auto; try discriminate.
  - destruct o as [a|c|b]; cbn; [destruct a | destruct c | destruct b]; vm_compute; discriminate.
  - destruct p; discriminate.
  - destruct neg; discriminate.
Qed.
Local Close Scope string_scope.

Lemma flatten_par b l : flatten (par b l) = paren b (flatten l).
Proof. apply (flatten_parl b l). Qed.

Lemma top_kind c : top_aop c <> None -> okind_e c = OKOther \/ okind_e c = OKNot.
Proof. destruct c as [| | |[]| | | | |]; cbn; auto; congruence. Qed.

(* first character of the printed text *)
Lemma lead_all :
  (forall e, atoms_ok e = true ->
     flatten (pr impl_pol e) <> ""%string /\ starts_minus (flatten (pr impl_pol e)) = lead_minus e)
  /\ (forall l : elist, True) /\ (forall l : ewlist, True) /\ (forall o : eopt, True).
Proof.
  apply expr_all_ind; auto.
  - (* EAtom *) intros a H. cbn in H. cbn [pr flatten map tok_text sconcat lead_minus]. rewrite sapp_nil_r.
    split; [|reflexivity]. intros ->. discriminate.
  - (* ENeg *) intros c _ _. rewrite pr_ENeg, flatten_cons. split; [discriminate|reflexivity].
  - (* ENot *) intros c _ _. rewrite pr_ENot, flatten_cons. split; [discriminate|reflexivity].
  - (* EBin *) intros o l IHl r _ H. cbn [atoms_ok] in H. apply andb_prop in H as [Hl _].
    destruct (IHl Hl) as [Nl Sl]. rewrite pr_EBin, flatten_app, flatten_par. cbn [lead_minus]. rewrite impl_pol_left.
    destruct (pol_b (PBinL o) l); cbn [paren negb andb].
    + split; [discriminate|reflexivity].
    + split; [apply sapp_nonempty_l, Nl | rewrite starts_minus_app by exact Nl; exact Sl].
  - (* EPost *) intros p c IHc H. cbn [atoms_ok] in H. destruct (IHc H) as [Nc Sc].
    rewrite pr_EPost, flatten_app, flatten_par. cbn [lead_minus].
    assert (E : impl_pol PPost c = pol_b PPost c) by (unfold impl_pol; apply orb_false_r). rewrite E.
    destruct (pol_b PPost c); cbn [paren negb andb].
    + split; [discriminate|reflexivity].
    + split; [apply sapp_nonempty_l, Nc | rewrite starts_minus_app by exact Nc; exact Sc].
  - (* EIn *) intros neg c IHc items _ H. cbn [atoms_ok] in H. apply andb_prop in H as [Hc _]. destruct (IHc Hc) as [Nc Sc].
    rewrite pr_EIn, flatten_app, flatten_par. cbn [lead_minus].
    assert (E : impl_pol PInL c = pol_b PInL c) by (unfold impl_pol; apply orb_false_r). rewrite E.
    destruct (pol_b PInL c); cbn [paren negb andb].
    + split; [discriminate|reflexivity].
    + split; [apply sapp_nonempty_l, Nc | rewrite starts_minus_app by exact Nc; exact Sc].
  - (* EBetween *) intros c IHc lo _ hi _ H. cbn [atoms_ok] in H. apply andb_prop in H as [H _]. apply andb_prop in H as [Hc _].
    destruct (IHc Hc) as [Nc Sc]. rewrite pr_EBetween, flatten_app, flatten_par. cbn [lead_minus].
    assert (E : impl_pol PBetE c = pol_b PBetE c) by (unfold impl_pol; apply orb_false_r). rewrite E.
    destruct (pol_b PBetE c); cbn [paren negb andb].
    + split; [discriminate|reflexivity].
    + split; [apply sapp_nonempty_l, Nc | rewrite starts_minus_app by exact Nc; exact Sc].
  - (* ECall *) intros g args _ _. rewrite pr_ECall, !flatten_cons. cbn [tok_text lead_minus]. split.
    + destruct g; discriminate.
    + destruct g; reflexivity.
  - (* ECase *) intros ws _ els _ _. rewrite pr_ECase, flatten_cons. split; [discriminate|reflexivity].
Qed.
Definition lead_text := proj1 lead_all.

(* shape facts relating a term and its abstract tree *)
Ltac dmatch H :=
  repeat match type of H with
  | obind (match ?y with _ => _ end) _ = Some _ => destruct y eqn:?; cbn [obind] in H; try discriminate H
  | obind ?x _ = Some _ => let E := fresh "E" in destruct x eqn:E; cbn [obind] in H; [|discriminate H]
  | (match ?x with _ => _ end) = Some _ => destruct x eqn:?; try discriminate H
  end.

Lemma to_expr_shape : forall t cx e, to_expr cx t = Some e ->
  okind_of t = okind_e e /\ top_op t = top_aop e
  /\ (match t with TArith _ _ _ _ => neg_parens_arith | TNeg _ => neg_parens_neg | _ => false end
      = match e with EBin (BA _) _ _ => neg_parens_arith | ENeg _ => neg_parens_neg | _ => false end)
  /\ top_bop t = top_bop_e e
  /\ is_cplx t = (match e with EBin (BB _) _ _ => true | _ => false end).
Proof.
  induction t; intros cx e H; cbn [to_expr] in H; try discriminate H; dmatch H;
    try (inversion H; subst; repeat split; fail).
  (* TNot *)
  inversion H; subst. repeat split. cbn [top_op top_aop].
  match goal with IH : forall cx e, to_expr cx ?t = Some e -> _, E : to_expr _ ?t = Some _ |- _ =>
    destruct (IH _ _ E) as [_ [T _]]; exact T end.
Qed.

(* ---- contexts ---- *)
Lemma subc_set_wa c b : subc (set_wa c b) = subc c. Proof. reflexivity. Qed.
Lemma subc_set_subq c b : subc (set_subq c b) = subc c. Proof. reflexivity. Qed.
Lemma subc_set_subc c b : subc (set_subc c b) = b. Proof. reflexivity. Qed.
Lemma subc_fctx c : subc (fctx c) = false. Proof. reflexivity. Qed.

Lemma T_nb_none : forall b, needs_brackets_x b None = false.
Proof. destruct b; vm_compute; reflexivity. Qed.

Lemma par_parl b l : parl b l = par b l. Proof. reflexivity. Qed.
Lemma par_false l : par false l = l. Proof. reflexivity. Qed.
Lemma dbl_par x y l : x && y = false -> parl x (parl y l) = par (x || y) l.
Proof. destruct x, y; cbn; congruence. Qed.

Definition Qt (t : term) := forall c ts e, rtoks c t = Some ts -> to_expr c t = Some e -> nl (subc c) t = true ->
  ts = par (subc c && is_cplx t) (pr impl_pol e) /\ atoms_ok e = true.
Definition Ql (l : tlist) := forall c ts es, rtoks_items c l = Some ts -> to_items c l = Some es -> nl_items (subc c) l = true ->
  ts = pr_items impl_pol es /\ atoms_ok_items es = true.
Definition Qw (l : wlist) := forall c ts ws, rtoks_whens c l = Some ts -> to_whens c l = Some ws -> nl_whens (subc c) l = true ->
  ts = pr_whens impl_pol ws /\ atoms_ok_whens ws = true.
Definition Qo (o : oterm) := match o with ONone => True | OSome t => Qt t end.
Definition Qt' (t : term) := Qt t /\ match t with TTuple vs _ => Ql vs | _ => True end.

(* an operand slot: the tokens of the operand are the printer's, bare *)
Lemma operand_case sl o c0 a0 eo : Qt o ->
  rtoks (opc sl o c0) o = Some a0 -> to_expr (opc sl o c0) o = Some eo ->
  (if pops sl o then nl false o else negb (subc c0 && is_cplx o) && nl (subc c0) o) = true ->
  a0 = pr impl_pol eo /\ atoms_ok eo = true.
Proof.
  intros IH R X N. unfold opc in R, X. unfold pops in N.
  destruct (operand_parens sl (okind_of o) && negb operand_keeps_subc).
  - destruct (IH _ _ _ R X) as [E A]; [rewrite subc_set_subc; exact N|]. rewrite subc_set_subc in E. split; [exact E|exact A].
  - apply andb_prop in N as [N1 N2]. destruct (IH _ _ _ R X N2) as [E A].
    apply negb_true_iff in N1. rewrite N1 in E. split; [exact E|exact A].
Qed.

(* a passed-through part (CASE part, list item): same, the context is the parent's *)
Lemma through_case o c0 a0 eo : Qt o ->
  rtoks c0 o = Some a0 -> to_expr c0 o = Some eo -> negb (subc c0 && is_cplx o) && nl (subc c0) o = true ->
  a0 = pr impl_pol eo /\ atoms_ok eo = true.
Proof.
  intros IH R X N. apply andb_prop in N as [N1 N2]. destruct (IH _ _ _ R X N2) as [E A].
  apply negb_true_iff in N1. rewrite N1 in E. split; [exact E|exact A].
Qed.

Lemma arith_excl e o : (left_needs_parens o (top_aop e) && operand_parens SArithL (okind_e e) = false)
                    /\ (right_needs_parens o (top_aop e) && operand_parens SArithR (okind_e e) = false).
Proof.
  destruct (top_aop e) eqn:T.
  - assert (K : okind_e e = OKOther \/ okind_e e = OKNot) by (apply top_kind; congruence).
    destruct (T_arith_other_not _ K) as [A B]. rewrite A, B, !andb_false_r. split; reflexivity.
  - rewrite T_lnp_none, T_rnp_none. split; reflexivity.
Qed.

Lemma right_arith_tokens op er : atoms_ok er = true ->
  let y := operand_parens SArithR (okind_e er) in
  let b := parl y (pr impl_pol er) in
  parl (right_needs_parens op (top_aop er)
        || (sub_parens_minus && (match op with OSub => true | _ => false end) && starts_minus (flatten b))) b
  = par (impl_pol (PBinR (BA op)) er) (pr impl_pol er).
Proof.
  intros A y b. destruct (lead_text er A) as [_ L]. subst b. destruct (proj2 (arith_excl er op)) as [].
  pose proof (proj2 (arith_excl er op)) as X. fold y in X.
  destruct y eqn:Y.
  - rewrite andb_true_r in X. rewrite X. rewrite flatten_parl. cbn [paren]. rewrite starts_minus_lp, !andb_false_r. cbn [orb].
    unfold impl_pol. cbn [pol_b]. fold y. rewrite X, Y. reflexivity.
  - cbn [parl]. rewrite L. unfold impl_pol. cbn [pol_b]. fold y. rewrite Y, orb_false_r. rewrite par_parl.
    f_equal. f_equal. destruct op; rewrite ?andb_true_r, ?andb_false_r; reflexivity.
Qed.

Lemma neg_tokens e' : atoms_ok e' = true ->
  let K := match e' with EBin (BA _) _ _ => neg_parens_arith | ENeg _ => neg_parens_neg | _ => false end in
  let y := operand_parens SNeg (okind_e e') in
  let a := parl y (pr impl_pol e') in
  parl (K || (neg_parens_minus && starts_minus (flatten a))) a = par (impl_pol PNeg e') (pr impl_pol e').
Proof.
  intros A K y a. destruct (lead_text e' A) as [_ L]. subst a.
  destruct y eqn:Y.
  - assert (K0 : K = false).
    { subst K y. destruct e' as [| | |[]| | | | |]; try reflexivity; cbn [okind_e] in Y; rewrite T_neg_other in Y; discriminate. }
    rewrite K0, flatten_parl. cbn [paren]. rewrite starts_minus_lp, andb_false_r. cbn [orb parl].
    unfold impl_pol. cbn [pol_b]. fold y. rewrite Y. reflexivity.
  - cbn [parl]. rewrite L. unfold impl_pol. cbn [pol_b]. fold y. fold K. rewrite Y. reflexivity.
Qed.


Ltac leaf_tokens :=
  let c := fresh "c" in let ts := fresh "ts" in let e := fresh "e" in
  let R := fresh "R" in let X := fresh "X" in
  split; [|exact I]; intros c ts e R X _; cbn [rtoks to_expr] in R, X; try discriminate R; dmatch R; cbn [obind] in X;
  inversion R; subst; inversion X; subst; rewrite andb_false_r; split; reflexivity.

Ltac use_shape X :=
  let K := fresh "K" in let T := fresh "T" in let N := fresh "N" in let B := fresh "B" in let C := fresh "C" in
  destruct (to_expr_shape _ _ _ X) as [K [T [N [B C]]]].

Lemma tokens_all : (forall t, Qt' t) /\ (forall l, Ql l) /\ (forall l, Qw l) /\ (forall o, Qo o).
Proof.
  apply term_all_ind; unfold Qt', Ql, Qw, Qo.
  - (* TField *) intros name tbl alias. leaf_tokens.
  - (* TStar *) intros tbl. leaf_tokens.
  - (* TValS *) intros s alias. leaf_tokens.
  - (* TValI *) intros z alias. leaf_tokens.
  - (* TValB *) intros b sl alias. leaf_tokens.
  - (* TValNone *) intros alias. leaf_tokens.
  - (* TValRaw *) intros txt alias. leaf_tokens.
  - (* TLit *) intros raw alias. leaf_tokens.
  - (* TParam *) intros txt. leaf_tokens.
  - (* TNeg *) intros t [IH _]. split; [|exact I]. intros c ts e R X N. cbn [rtoks to_expr nl] in R, X, N.
    dmatch R. dmatch X. inversion R; subst; inversion X; subst. clear R X.
    destruct (operand_case SNeg t _ _ _ IH E E0 N) as [-> A]. use_shape E0.
    cbn [is_cplx]. rewrite andb_false_r, par_false, pr_ENeg. cbn [atoms_ok]. split; [|exact A].
    f_equal. rewrite K, N0. apply neg_tokens. exact A.
  - (* TArith *) intros op l [IHl _] r [IHr _] alias. split; [|exact I]. intros c ts e R X N. cbn [rtoks to_expr nl] in R, X, N.
    dmatch R. dmatch X. inversion R; subst; inversion X; subst. clear R X. apply andb_prop in N as [Nl Nr].
    destruct (operand_case SArithL l _ _ _ IHl E E1 Nl) as [-> Al].
    destruct (operand_case SArithR r _ _ _ IHr E0 E2 Nr) as [-> Ar].
    use_shape E1. use_shape E2.
    cbn [is_cplx]. rewrite andb_false_r, par_false, pr_EBin. cbn [atoms_ok]. rewrite Al, Ar. split; [|reflexivity].
    rewrite K, T, K0, T0. f_equal.
    + rewrite dbl_par by apply (proj1 (arith_excl e0 op)). rewrite impl_pol_left. reflexivity.
    + f_equal. apply right_arith_tokens. exact Ar.
  - (* TBasic *) intros cm l [IHl _] r [IHr _] alias. split; [|exact I]. intros c ts e R X N. cbn [rtoks to_expr nl] in R, X, N.
    dmatch R. dmatch X. inversion R; subst; inversion X; subst. clear R X. apply andb_prop in N as [Nl Nr].
    destruct (operand_case SCmpL l _ _ _ IHl E E1 Nl) as [-> Al].
    destruct (operand_case SCmpR r _ _ _ IHr E0 E2 Nr) as [-> Ar].
    use_shape E1. use_shape E2.
    cbn [is_cplx]. rewrite andb_false_r, par_false, pr_EBin. cbn [atoms_ok]. rewrite Al, Ar. split; [|reflexivity].
    rewrite K, K0. unfold impl_pol. cbn [pol_b]. rewrite !orb_false_r. reflexivity.
  - (* TCplx *) intros bo l [IHl _] r [IHr _] alias. split; [|exact I]. intros c ts e R X N. cbn [rtoks to_expr nl] in R, X, N.
    dmatch R. dmatch X. inversion R; subst; inversion X; subst. clear R X. apply andb_prop in N as [Nl Nr].
    destruct (IHl _ _ _ E E1) as [-> Al]; [rewrite subc_set_subc; exact Nl|].
    destruct (IHr _ _ _ E0 E2) as [-> Ar]; [rewrite subc_set_subc; exact Nr|].
    use_shape E1. use_shape E2. rewrite !subc_set_subc.
    cbn [is_cplx]. rewrite andb_true_r, pr_EBin. cbn [atoms_ok]. rewrite Al, Ar. split; [|reflexivity].
    rewrite par_parl. f_equal. unfold impl_pol. cbn [pol_b]. rewrite !orb_false_r, <- B, <- B0.
    f_equal; [|f_equal]; f_equal.
    + destruct l; cbn [top_bop is_cplx]; rewrite ?T_nb_none, ?andb_true_r; reflexivity.
    + destruct r; cbn [top_bop is_cplx]; rewrite ?T_nb_none, ?andb_true_r; reflexivity.
  - (* TIn *) intros t [IHt _] cont [_ IHc] negated alias. split; [|exact I]. intros c ts e R X N.
    cbn [rtoks to_expr nl] in R, X, N. destruct cont; try discriminate R.
    dmatch R. dmatch X. inversion R; subst; inversion X; subst. clear R X. apply andb_prop in N as [Nt Ni].
    destruct (operand_case SInTerm t _ _ _ IHt E E1 Nt) as [-> At].
    destruct (IHc _ _ _ E0 E2) as [-> Ai]; [exact Ni|].
    use_shape E1.
    cbn [is_cplx]. rewrite andb_false_r, par_false, pr_EIn. cbn [atoms_ok]. rewrite At, Ai. split; [|reflexivity].
    rewrite K. unfold impl_pol. cbn [pol_b]. rewrite orb_false_r. reflexivity.
  - (* TBetween *) intros t [IHt _] lo [IHlo _] hi [IHhi _] alias. split; [|exact I]. intros c ts e R X N.
    cbn [rtoks to_expr nl] in R, X, N. dmatch R. dmatch X. inversion R; subst; inversion X; subst. clear R X.
    apply andb_prop in N as [N Nh]. apply andb_prop in N as [Nt Nl].
    destruct (operand_case SBetTerm t _ _ _ IHt E E2 Nt) as [-> At].
    destruct (operand_case SBetLo lo _ _ _ IHlo E0 E3 Nl) as [-> Al].
    destruct (operand_case SBetHi hi _ _ _ IHhi E1 E4 Nh) as [-> Ah].
    use_shape E2. use_shape E3. use_shape E4.
    cbn [is_cplx]. rewrite andb_false_r, par_false, pr_EBetween. cbn [atoms_ok]. rewrite At, Al, Ah. split; [|reflexivity].
    rewrite K, K0, K1. unfold impl_pol. cbn [pol_b]. rewrite !orb_false_r. reflexivity.
  - (* TBitAnd *) intros t _ v alias. split; [|exact I]. intros c ts e R. discriminate R.
  - (* TIsNull *) intros t [IHt _] alias. split; [|exact I]. intros c ts e R X N. cbn [rtoks to_expr nl] in R, X, N.
    dmatch R. dmatch X. inversion R; subst; inversion X; subst. clear R X.
    destruct (operand_case SIsNull t _ _ _ IHt E E0 N) as [-> A]. use_shape E0.
    cbn [is_cplx]. rewrite andb_false_r, par_false, pr_EPost. cbn [atoms_ok]. split; [|exact A].
    rewrite K. unfold impl_pol. cbn [pol_b]. rewrite orb_false_r. reflexivity.
  - (* TNotNull *) intros t [IHt _] alias. split; [|exact I]. intros c ts e R X N. cbn [rtoks to_expr nl] in R, X, N.
    dmatch R. dmatch X. inversion R; subst; inversion X; subst. clear R X.
    destruct (operand_case SNotNull t _ _ _ IHt E E0 N) as [-> A]. use_shape E0.
    cbn [is_cplx]. rewrite andb_false_r, par_false, pr_EPost. cbn [atoms_ok]. split; [|exact A].
    rewrite K. unfold impl_pol. cbn [pol_b]. rewrite orb_false_r. destruct (okind_e e0); reflexivity.
  - (* TNot *) intros t [IHt _] alias. split; [|exact I]. intros c ts e R X N. cbn [rtoks to_expr nl] in R, X, N.
    dmatch R. dmatch X. inversion R; subst; inversion X; subst. clear R X.
    destruct (IHt _ _ _ E E0) as [-> A]; [exact N|]. use_shape E0. rewrite subc_set_wa, subc_set_subc.
    cbn [is_cplx]. rewrite andb_false_r, par_false, pr_ENot. cbn [atoms_ok andb]. split; [|exact A].
    f_equal. f_equal. rewrite C. unfold impl_pol. cbn [pol_b]. rewrite orb_false_r. reflexivity.
  - (* TAll *) intros t _ alias. split; [|exact I]. intros c ts e R. discriminate R.
  - (* TEmpty *) split; [|exact I]. intros c ts e R. discriminate R.
  - (* TCase *) intros ws IHw els IHe alias. split; [|exact I]. intros c ts e R X N. cbn [rtoks to_expr nl] in R, X, N.
    destruct alias; [discriminate R|]. destruct ws as [|cr v r]; [discriminate R|].
    apply andb_prop in N as [Nw Ne].
    destruct (rtoks_whens (set_wa c false) (WCons cr v r)) as [wt|] eqn:RW; cbn [obind] in R; [|discriminate R].
    destruct (to_whens (set_wa c false) (WCons cr v r)) as [we|] eqn:XW; cbn [obind] in X; [|discriminate X].
    destruct (IHw _ _ _ RW XW) as [-> Aw]; [rewrite subc_set_wa; exact Nw|].
    cbn [is_cplx]. rewrite andb_false_r, par_false.
    destruct els as [|t'].
    + cbn [obind] in R, X. inversion R; subst; inversion X; subst. rewrite pr_ECase. cbn [pr_else atoms_ok atoms_ok_else].
      rewrite Aw. split; reflexivity.
    + cbn in IHe. dmatch R. dmatch X. inversion R; subst; inversion X; subst.
      dmatch E. dmatch E0. inversion E; subst; inversion E0; subst.
      match goal with R1 : rtoks _ t' = Some _, X1 : to_expr _ t' = Some _ |- _ =>
        destruct (through_case t' _ _ _ IHe R1 X1) as [-> At]; [rewrite subc_set_wa; exact Ne|] end.
      rewrite pr_ECase, pr_else_some. cbn [atoms_ok atoms_ok_else]. rewrite Aw, At. split; reflexivity.
  - (* TFunc *) intros name args IHa special alias. split; [|exact I]. intros c ts e R X N. cbn [rtoks to_expr nl] in R, X, N.
    dmatch R. dmatch X. inversion R; subst; inversion X; subst. clear R X.
    destruct (IHa _ _ _ E E0) as [-> A]; [rewrite subc_fctx; exact N|].
    cbn [is_cplx]. rewrite andb_false_r, par_false, pr_ECall. cbn [atoms_ok]. split; [reflexivity|exact A].
  - (* TTuple *) intros vs IHv alias. split; [|exact IHv]. intros c ts e R. discriminate R.
  - (* TArray *) intros vs _ alias. split; [|exact I]. intros c ts e R. discriminate R.
  - (* TSub *) intros col tbl alias. split; [|exact I]. intros c ts e R. discriminate R.
  - (* TNil *) intros c ts es R X _. cbn in R, X. inversion R; subst; inversion X; subst. split; reflexivity.
  - (* TCons *) intros t [IHt _] r IHr c ts es R X N. cbn [rtoks_items to_items nl_items] in R, X, N.
    apply andb_prop in N as [Nt Nr].
    destruct r as [|t2 r2].
    + dmatch X. inversion X; subst.
      match goal with Z : to_items _ TNil = Some _ |- _ => cbn [to_items] in Z; inversion Z; subst end.
      destruct (through_case t _ _ _ IHt R E Nt) as [-> At]. cbn [pr_items atoms_ok_items]. rewrite At. split; reflexivity.
    + dmatch R. dmatch X. inversion R; subst; inversion X; subst.
      destruct (through_case t _ _ _ IHt E E1 Nt) as [-> At].
      destruct (IHr _ _ _ E0 E2 Nr) as [-> Ar].
      rewrite pr_items_cons. cbn [atoms_ok_items]. rewrite At, Ar. split; [|reflexivity].
      destruct e0; [|reflexivity]. cbn [to_items] in E2. dmatch E2. discriminate E2.
  - (* WNil *) intros c ts ws R X _. cbn in R, X. inversion R; subst; inversion X; subst. split; reflexivity.
  - (* WCons *) intros cr [IHc _] v [IHv _] r IHr c ts ws R X N. cbn [rtoks_whens to_whens nl_whens] in R, X, N.
    dmatch R. dmatch X. inversion R; subst; inversion X; subst.
    apply andb_prop in N as [N Nr]. apply andb_prop in N as [N Nv2]. apply andb_prop in N as [N Nv1].
    destruct (through_case cr _ _ _ IHc E E2) as [-> Ac]; [exact N|].
    destruct (through_case v _ _ _ IHv E0 E3) as [-> Av]; [rewrite Nv1, Nv2; reflexivity|].
    destruct (IHr _ _ _ E1 E4 Nr) as [-> Ar].
    rewrite pr_whens_cons. cbn [atoms_ok_whens]. rewrite Ac, Av, Ar. split; reflexivity.
  - (* ONone *) exact I.
  - (* OSome *) intros t [IHt _]. exact IHt.
Qed.

Theorem tokens_are_printed c t ts e : rtoks c t = Some ts -> to_expr c t = Some e -> subc c = false -> nl false t = true ->
  ts = pr impl_pol e /\ atoms_ok e = true.
Proof.
  intros R X S N. destruct (proj1 (proj1 tokens_all t) c ts e R X) as [E A]; [rewrite S; exact N|].
  rewrite S in E. split; [exact E|exact A].
Qed.

(* ------------------------------------------------------------------------------------------- *)
(* B. on clean trees the policy dominates every engine's textbook rule on the normal form        *)
(* ------------------------------------------------------------------------------------------- *)
Definition operand_pos (p : pos) : bool := match p with PNot | PBinL (BB _) | PBinR (BB _) => false | _ => true end.
Definition allowed (ph : pos * head) : bool :=
  negb (head_eqb (snd ph) HNot && operand_pos (fst ph))
  && match fst ph, snd ph with PBinR o, HBin o2 => negb (reassoc o o2) | _, _ => true end.

(* THE CODE-SENSITIVE FINITE LEMMA: every (position, child head) pair that can occur in the normal form of a clean
   tree is dominated by the current (extracted) predicates, under all three engine tables.  1881 pairs. *)
Lemma allowed_ok : forall p h, allowed (p, h) = true -> ok_all_engines (p, h) = true.
Proof.
  intros p h.
  destruct p as [| |[[]|[]|[]]|[[]|[]|[]]| | | | |]; destruct h as [| | |[[]|[]|[]]| | | | |];
    vm_compute; intros; congruence.
Qed.

Lemma hd_not_iff e : head_eqb (hd e) HNot = is_not e.
Proof. destruct e as [| | |[]| | | | |]; reflexivity. Qed.

Lemma is_not_rot o l r : is_not (rot o l r) = false.
Proof. destruct (rot_head r o l) as [o3 [l' [r' [E _]]]]. rewrite E. reflexivity. Qed.

Lemma is_not_norm e : is_not (norm e) = is_not e.
Proof. destruct e; cbn [norm is_not]; try reflexivity. apply is_not_rot. Qed.

Lemma allowed_left o c : (is_not c = true -> bool_op o = true) -> allowed (PBinL o, hd c) = true.
Proof.
  intros H. unfold allowed. cbn [fst snd]. rewrite hd_not_iff, andb_true_r.
  destruct (is_not c); [|reflexivity]. specialize (H eq_refl). destruct o; try discriminate. reflexivity.
Qed.

Lemma allowed_right o c : (is_not c = true -> bool_op o = true) ->
  (forall o2 l r, c = EBin o2 l r -> reassoc o o2 = false) -> allowed (PBinR o, hd c) = true.
Proof.
  intros H R. unfold allowed. cbn [fst snd]. rewrite hd_not_iff. apply andb_true_intro. split.
  - destruct (is_not c); [|reflexivity]. specialize (H eq_refl). destruct o; try discriminate. reflexivity.
  - destruct c; cbn [hd]; try reflexivity. rewrite (R _ _ _ eq_refl). reflexivity.
Qed.

Lemma allowed_simple p c : (match p with PBinR _ => False | _ => True end) -> is_not c = false -> allowed (p, hd c) = true.
Proof.
  intros P N. unfold allowed. cbn [fst snd]. rewrite hd_not_iff, N. cbn [andb negb].
  destruct p; try reflexivity. contradiction.
Qed.

Lemma rot_pairs : forall r o l,
  forallb allowed (pairs_of l) = true -> forallb allowed (pairs_of r) = true ->
  (is_not l = true -> bool_op o = true) -> (is_not r = true -> bool_op o = true) ->
  forallb allowed (pairs_of (rot o l r)) = true.
Proof.
  assert (Base : forall r o l,
    forallb allowed (pairs_of l) = true -> forallb allowed (pairs_of r) = true ->
    (is_not l = true -> bool_op o = true) -> (is_not r = true -> bool_op o = true) ->
    (forall o2 rl rr, r = EBin o2 rl rr -> reassoc o o2 = false) ->
    forallb allowed (pairs_of (EBin o l r)) = true).
  { intros r o l Hl Hr Nl Nr R. cbn [pairs_of forallb]. rewrite forallb_app, Hl, Hr, allowed_left, allowed_right; auto. }
  induction r as [a|c IHc|c IHc|o2 rl IHl rr IHr|p c IHc|neg c IHc items|c IHc lo IHlo hi IHhi|g args|ws els];
    intros o l Hl Hr Nl Nr; cbn [rot]; try (apply Base; auto; intros; discriminate).
  destruct (reassoc o o2) eqn:E.
  - cbn [pairs_of forallb] in Hr. apply andb_prop in Hr as [A1 Hr]. apply andb_prop in Hr as [A2 Hr].
    apply forallb_app' in Hr as [A3 A4].
    cbn [pairs_of forallb]. rewrite forallb_app, A2, A4, andb_true_r.
    rewrite IHl; auto.
    + rewrite andb_true_r. apply allowed_left. rewrite is_not_rot. discriminate.
    + intros N. unfold allowed in A1. cbn [fst snd] in A1. rewrite hd_not_iff, N in A1. cbn [andb] in A1.
      destruct (reassoc_shape _ _ E) as [[a [a2 [-> ->]]]|[b [-> ->]]]; [discriminate A1|reflexivity].
  - apply Base; auto. intros o3 x y Q. inversion Q; subst. exact E.
Qed.

Lemma clean_pairs_all :
  (forall e, clean e = true -> forallb allowed (pairs_of (norm e)) = true)
  /\ (forall l, clean_items l = true -> forallb allowed (pairs_items (norm_items l)) = true)
  /\ (forall l, clean_whens l = true -> forallb allowed (pairs_whens (norm_whens l)) = true)
  /\ (forall o, clean_else o = true -> forallb allowed (pairs_else (norm_else o)) = true).
Proof.
  apply expr_all_ind; cbn [clean clean_items clean_whens clean_else norm norm_items norm_whens norm_else
                           pairs_of pairs_items pairs_whens pairs_else forallb]; auto; intros;
  repeat match goal with H : (_ && _) = true |- _ => apply andb_prop in H as [? ?] end.
  - (* ENeg *) rewrite H by assumption. rewrite allowed_simple; auto. rewrite is_not_norm. apply negb_true_iff. assumption.
  - (* ENot *) rewrite H by assumption. rewrite andb_true_r. unfold allowed. cbn [fst snd operand_pos].
    rewrite andb_false_r. destruct (hd (norm e)); reflexivity.
  - (* EBin *) apply rot_pairs; auto; rewrite is_not_norm; intros N;
    match goal with Q : bool_op o || _ = true |- _ =>
      apply orb_true_iff in Q as [Q|Q]; [exact Q | apply andb_prop in Q as [Q1 Q2]; rewrite N in *; discriminate] end.
  - (* EPost *) rewrite H by assumption. rewrite allowed_simple; auto. rewrite is_not_norm. apply negb_true_iff. assumption.
  - (* EIn *) rewrite forallb_app, H, H0 by assumption. rewrite allowed_simple; auto. rewrite is_not_norm. apply negb_true_iff. assumption.
  - (* EBetween *) rewrite !forallb_app, H, H0, H1 by assumption.
    rewrite !allowed_simple; auto; rewrite is_not_norm; apply negb_true_iff; assumption.
  - (* ECase *) rewrite forallb_app, H, H0 by assumption. reflexivity.
  - (* ECons *) rewrite forallb_app, H, H0 by assumption. reflexivity.
  - (* EWCons *) rewrite !forallb_app, H, H0, H1 by assumption. reflexivity.
Qed.

Theorem clean_dominated T e : In T engines -> clean e = true -> dom T impl_pol (norm e) = true.
Proof.
  intros HT C. apply (proj1 (pairs_dom_all T)).
  pose proof (proj1 clean_pairs_all e C) as A. rewrite forallb_forall in *. intros [p h] Hin.
  specialize (A _ Hin). apply allowed_ok in A. unfold ok_all_engines in A. rewrite forallb_forall in A.
  unfold okp_pair. apply A, HT.
Qed.

(* ------------------------------------------------------------------------------------------- *)
(* C. no comment introducer between adjacent tokens                                              *)
(* ------------------------------------------------------------------------------------------- *)
Definition t_l (t : tok) : bool := negb (ends_bad (tok_text t)).
Definition fmt (t : tok) : bool := is_char (first_char (tok_text t)) "-".
Definition fst_ (t : tok) : bool := is_char (first_char (tok_text t)) "*".
Definition fm (ts : list tok) : bool := match ts with t :: _ => fmt t | [] => false end.
Definition fs (ts : list tok) : bool := match ts with t :: _ => fst_ t | [] => false end.
Fixpoint lastt (ts : list tok) : option tok := match ts with [] => None | [t] => Some t | _ :: r => lastt r end.
Definition lsafe (ts : list tok) : bool := match lastt ts with Some t => t_l t | None => true end.

Lemma bad_adj_l t1 t2 : t_l t1 = true -> bad_adj t1 t2 = false.
Proof.
  unfold t_l, ends_bad, bad_adj. intros H. apply negb_true_iff in H. apply orb_false_iff in H as [A B]. rewrite A, B. reflexivity.
Qed.
Lemma bad_adj_f t1 t2 : fmt t2 = false -> fst_ t2 = false -> bad_adj t1 t2 = false.
Proof. unfold fmt, fst_, bad_adj. intros A B. rewrite A, B, !andb_false_r. reflexivity. Qed.

Lemma adj_cons t ts : adjacency_ok ts = true -> (match ts with y :: _ => bad_adj t y = false | [] => True end) ->
  adjacency_ok (t :: ts) = true.
Proof. destruct ts as [|y r]; [reflexivity|]. intros A B. cbn [adjacency_ok]. cbn [adjacency_ok] in A. rewrite B. exact A. Qed.

Lemma lastt_app a b : b <> [] -> lastt (a ++ b) = lastt b.
Proof.
  intros N. induction a as [|x a IH]; [reflexivity|]. cbn [app]. destruct (a ++ b) eqn:E.
  - destruct a; destruct b; cbn in E; congruence.
  - rewrite <- E in *. cbn [lastt]. rewrite E. rewrite <- E. exact IH.
Qed.
Lemma lsafe_app a b : b <> [] -> lsafe (a ++ b) = lsafe b.
Proof. intros N. unfold lsafe. rewrite lastt_app by exact N. reflexivity. Qed.
Lemma fm_app a b : a <> [] -> fm (a ++ b) = fm a.
Proof. destruct a; [congruence|reflexivity]. Qed.
Lemma fs_app a b : a <> [] -> fs (a ++ b) = fs a.
Proof. destruct a; [congruence|reflexivity]. Qed.

Lemma adj_app a b : adjacency_ok a = true -> adjacency_ok b = true ->
  (lsafe a = true \/ (fm b = false /\ fs b = false)) -> adjacency_ok (a ++ b) = true.
Proof.
  induction a as [|x a IH]; intros A B J; [exact B|].
  destruct a as [|x2 a'].
  - cbn [app]. apply adj_cons; [exact B|]. destruct b as [|y r]; [exact I|].
    destruct J as [J|[J1 J2]]; [apply bad_adj_l; exact J | apply bad_adj_f; assumption].
  - cbn [app]. cbn [adjacency_ok] in A. apply andb_prop in A as [A1 A2].
    change ((x2 :: a') ++ b) with (x2 :: a' ++ b) in *. cbn [adjacency_ok]. rewrite A1. cbn [andb].
    apply IH; auto.
Qed.

Lemma par_nonempty b l : l <> [] -> par b l <> [].
Proof. destruct b; cbn; [discriminate|auto]. Qed.
Lemma adj_par b l : adjacency_ok l = true -> adjacency_ok (par b l) = true.
Proof.
  destruct b; cbn [par]; [|auto]. intros A. apply adj_cons.
  - apply adj_app; [exact A|reflexivity|]. right. split; reflexivity.
  - destruct (l ++ [KRP]); [exact I|]. apply bad_adj_l. reflexivity.
Qed.
Lemma lsafe_par b l : lsafe l = true -> lsafe (par b l) = true.
Proof.
  destruct b; cbn [par]; [|auto]. intros _. change (KLP :: l ++ [KRP]) with ((KLP :: l) ++ [KRP]).
  rewrite lsafe_app by discriminate. reflexivity.
Qed.
Lemma fm_par b l : fm (par b l) = negb b && fm l.
Proof. destruct b; reflexivity. Qed.
Lemma fs_par b l : fs (par b l) = negb b && fs l.
Proof. destruct b; reflexivity. Qed.

(* the operator texts (extracted): only '-' ends in a minus, only '/' ends in a slash *)
Lemma op_ends_minus o : is_char (last_char (binop_text o)) "-" = match o with BA OSub => true | _ => false end.
Proof. destruct o as [[]|[]|[]]; vm_compute; reflexivity. Qed.
Lemma op_ends_slash o : is_char (last_char (binop_text o)) "/" = match o with BA ODiv => true | _ => false end.
Proof. destruct o as [[]|[]|[]]; vm_compute; reflexivity. Qed.
Lemma T_sub_minus : sub_parens_minus = true. Proof. vm_compute. reflexivity. Qed.
Lemma T_neg_minus : neg_parens_minus = true. Proof. vm_compute. reflexivity. Qed.

Lemma fmt_atom a : fmt (KAtom a) = starts_minus a.
Proof. destruct a; reflexivity. Qed.
Lemma fmt_name a : fmt (KName a) = starts_minus a.
Proof. destruct a; reflexivity. Qed.

Definition Ae (e : expr) := lex_ok e = true -> atoms_ok e = true ->
  pr impl_pol e <> [] /\ adjacency_ok (pr impl_pol e) = true /\ lsafe (pr impl_pol e) = true
  /\ fm (pr impl_pol e) = lead_minus e /\ fs (pr impl_pol e) = false.
Definition Ai (l : elist) := lex_items l = true -> atoms_ok_items l = true -> adjacency_ok (pr_items impl_pol l) = true.
Definition Aw (l : ewlist) := lex_whens l = true -> atoms_ok_whens l = true ->
  adjacency_ok (pr_whens impl_pol l) = true /\ fm (pr_whens impl_pol l) = false /\ fs (pr_whens impl_pol l) = false
  /\ lsafe (pr_whens impl_pol l) = true.
Definition Ao (o : eopt) := lex_else o = true -> atoms_ok_else o = true ->
  adjacency_ok (pr_else impl_pol o) = true /\ fm (pr_else impl_pol o) = false /\ fs (pr_else impl_pol o) = false
  /\ lsafe (pr_else impl_pol o) = true.

(* a left operand followed by a token that begins harmlessly or by anything when the operand ends safely *)
Lemma left_part b c rest : Ae c -> lex_ok c = true -> atoms_ok c = true -> adjacency_ok rest = true -> rest <> [] ->
  adjacency_ok (par b (pr impl_pol c) ++ rest) = true.
Proof.
  intros IH L A R N. destruct (IH L A) as [_ [Ad [Ls _]]].
  apply adj_app; [apply adj_par, Ad | exact R | left; apply lsafe_par, Ls].
Qed.

Lemma adjacency_all : (forall e, Ae e) /\ (forall l, Ai l) /\ (forall l, Aw l) /\ (forall o, Ao o).
Proof.
  apply expr_all_ind; unfold Ae, Ai, Aw, Ao.
  - (* EAtom *) intros a L A. cbn [pr lex_ok atoms_ok lead_minus] in *. unfold atom_lex in L. apply andb_prop in L as [L1 L2].
    repeat split; try discriminate.
    + unfold lsafe, t_l. cbn [lastt tok_text]. exact L1.
    + cbn [fm]. apply fmt_atom.
    + cbn [fs]. unfold fst_. cbn [tok_text]. apply negb_true_iff, L2.
  - (* ENeg *) intros c IH L A. cbn [lex_ok atoms_ok] in L, A. destruct (IH L A) as [N [Ad [Ls [Fm Fs]]]].
    rewrite pr_ENeg. repeat split; try discriminate.
    + apply adj_cons; [apply adj_par, Ad|].
      destruct (impl_pol PNeg c) eqn:P; cbn [par]; [reflexivity|].
      destruct (pr impl_pol c) as [|y r] eqn:E; [exact I|].
      unfold impl_pol in P. apply orb_false_iff in P as [_ P]. rewrite T_neg_minus in P. cbn [andb] in P.
      unfold bad_adj. cbn [tok_text]. cbn [fm] in Fm. unfold fmt in Fm. rewrite Fm, P. reflexivity.
    + change (KNeg :: par (impl_pol PNeg c) (pr impl_pol c)) with ([KNeg] ++ par (impl_pol PNeg c) (pr impl_pol c)).
      rewrite lsafe_app by (apply par_nonempty, N). apply lsafe_par, Ls.
  - (* ENot *) intros c IH L A. cbn [lex_ok atoms_ok] in L, A. destruct (IH L A) as [N [Ad [Ls [Fm Fs]]]].
    rewrite pr_ENot. repeat split; try discriminate.
    + apply adj_cons; [apply adj_par, Ad|]. destruct (par (impl_pol PNot c) (pr impl_pol c)); [exact I|]. apply bad_adj_l. reflexivity.
    + change (KNot :: par (impl_pol PNot c) (pr impl_pol c)) with ([KNot] ++ par (impl_pol PNot c) (pr impl_pol c)).
      rewrite lsafe_app by (apply par_nonempty, N). apply lsafe_par, Ls.
  - (* EBin *) intros o l IHl r IHr L A. cbn [lex_ok atoms_ok] in L, A.
    apply andb_prop in L as [Ll Lr]. apply andb_prop in A as [Al Ar].
    destruct (IHl Ll Al) as [Nl [Adl [Lsl [Fml Fsl]]]]. destruct (IHr Lr Ar) as [Nr [Adr [Lsr [Fmr Fsr]]]].
    rewrite pr_EBin.
    assert (Rt : adjacency_ok (KOp o :: par (impl_pol (PBinR o) r) (pr impl_pol r)) = true).
    { apply adj_cons; [apply adj_par, Adr|].
      destruct (impl_pol (PBinR o) r) eqn:P; cbn [par]; [apply bad_adj_f; reflexivity|].
      destruct (pr impl_pol r) as [|y rr] eqn:E; [exact I|].
      unfold bad_adj. cbn [tok_text]. rewrite op_ends_minus, op_ends_slash. cbn [fm fs] in Fmr, Fsr. unfold fmt, fst_ in Fmr, Fsr.
      rewrite Fmr, Fsr, andb_false_r, orb_false_r.
      destruct o as [[]|cm|b]; try reflexivity.
      unfold impl_pol in P. apply orb_false_iff in P as [_ P]. rewrite T_sub_minus in P. cbn [andb] in P. rewrite P. reflexivity. }
    repeat split.
    + intros E. apply app_eq_nil in E as [_ E]. discriminate.
    + apply left_part; auto. discriminate.
    + rewrite lsafe_app by discriminate.
      change (KOp o :: par (impl_pol (PBinR o) r) (pr impl_pol r)) with ([KOp o] ++ par (impl_pol (PBinR o) r) (pr impl_pol r)).
      rewrite lsafe_app by (apply par_nonempty, Nr). apply lsafe_par, Lsr.
    + rewrite fm_app by (apply par_nonempty, Nl). rewrite fm_par, Fml, impl_pol_left. reflexivity.
    + rewrite fs_app by (apply par_nonempty, Nl). rewrite fs_par, Fsl. apply andb_false_r.
  - (* EPost *) intros p c IH L A. cbn [lex_ok atoms_ok] in L, A. destruct (IH L A) as [N [Ad [Ls [Fm Fs]]]].
    rewrite pr_EPost. repeat split.
    + intros E. apply app_eq_nil in E as [_ E]. discriminate.
    + apply left_part; auto. discriminate.
    + rewrite lsafe_app by discriminate. destruct p; reflexivity.
    + rewrite fm_app by (apply par_nonempty, N). rewrite fm_par, Fm. cbn [lead_minus].
      replace (impl_pol PPost c) with (pol_b PPost c) by (unfold impl_pol; symmetry; apply orb_false_r). reflexivity.
    + rewrite fs_app by (apply par_nonempty, N). rewrite fs_par, Fs. apply andb_false_r.
  - (* EIn *) intros neg c IH items IHi L A. cbn [lex_ok atoms_ok] in L, A.
    apply andb_prop in L as [Lc Li]. apply andb_prop in A as [Ac Ai0].
    destruct (IH Lc Ac) as [N [Ad [Ls [Fm Fs]]]]. specialize (IHi Li Ai0).
    rewrite pr_EIn. repeat split.
    + intros E. apply app_eq_nil in E as [_ E]. discriminate.
    + apply left_part; auto; [|discriminate].
      apply adj_cons; [|apply bad_adj_l; destruct neg; reflexivity].
      apply adj_cons; [|destruct (pr_items impl_pol items ++ [KRP]); [exact I|apply bad_adj_l; reflexivity]].
      apply adj_app; [exact IHi|reflexivity|right; split; reflexivity].
    + rewrite lsafe_app by discriminate.
      change (KIn neg :: KLP :: pr_items impl_pol items ++ [KRP]) with ((KIn neg :: KLP :: pr_items impl_pol items) ++ [KRP]).
      rewrite lsafe_app by discriminate. reflexivity.
    + rewrite fm_app by (apply par_nonempty, N). rewrite fm_par, Fm. cbn [lead_minus].
      replace (impl_pol PInL c) with (pol_b PInL c) by (unfold impl_pol; symmetry; apply orb_false_r). reflexivity.
    + rewrite fs_app by (apply par_nonempty, N). rewrite fs_par, Fs. apply andb_false_r.
  - (* EBetween *) intros c IHc lo IHlo hi IHhi L A. cbn [lex_ok atoms_ok] in L, A.
    apply andb_prop in L as [L Lh]. apply andb_prop in L as [Lc Ll].
    apply andb_prop in A as [A Ah]. apply andb_prop in A as [Ac Al].
    destruct (IHc Lc Ac) as [N [Ad [Ls [Fm Fs]]]].
    destruct (IHlo Ll Al) as [Nlo [Adlo [Lslo _]]]. destruct (IHhi Lh Ah) as [Nhi [Adhi [Lshi _]]].
    rewrite pr_EBetween. repeat split.
    + intros E. apply app_eq_nil in E as [_ E]. discriminate.
    + apply left_part; auto; [|discriminate].
      apply adj_cons; [|destruct (par (impl_pol PBetLo lo) (pr impl_pol lo) ++ _); [exact I|apply bad_adj_l; reflexivity]].
      apply adj_app; [apply adj_par, Adlo | | left; apply lsafe_par, Lslo].
      apply adj_cons; [apply adj_par, Adhi|]. destruct (par (impl_pol PBetHi hi) (pr impl_pol hi)); [exact I|].
      apply bad_adj_l. vm_compute. reflexivity.
    + rewrite lsafe_app by discriminate.
      change (KBetween :: par (impl_pol PBetLo lo) (pr impl_pol lo) ++ KOp (BB BAnd) :: par (impl_pol PBetHi hi) (pr impl_pol hi))
        with ((KBetween :: par (impl_pol PBetLo lo) (pr impl_pol lo)) ++ [KOp (BB BAnd)] ++ par (impl_pol PBetHi hi) (pr impl_pol hi)).
      rewrite lsafe_app by discriminate. rewrite lsafe_app by (apply par_nonempty, Nhi). apply lsafe_par, Lshi.
    + rewrite fm_app by (apply par_nonempty, N). rewrite fm_par, Fm. cbn [lead_minus].
      replace (impl_pol PBetE c) with (pol_b PBetE c) by (unfold impl_pol; symmetry; apply orb_false_r). reflexivity.
    + rewrite fs_app by (apply par_nonempty, N). rewrite fs_par, Fs. apply andb_false_r.
  - (* ECall *) intros g args IHa L A. cbn [lex_ok atoms_ok] in L, A.
    apply andb_prop in L as [L La]. apply andb_prop in L as [L1 L2]. specialize (IHa La A).
    rewrite pr_ECall. repeat split; try discriminate.
    + apply adj_cons; [|apply bad_adj_f; reflexivity].
      apply adj_cons; [|destruct (pr_items impl_pol args ++ [KRP]); [exact I|apply bad_adj_l; reflexivity]].
      apply adj_app; [exact IHa|reflexivity|right; split; reflexivity].
    + change (KName g :: KLP :: pr_items impl_pol args ++ [KRP]) with ((KName g :: KLP :: pr_items impl_pol args) ++ [KRP]).
      rewrite lsafe_app by discriminate. reflexivity.
    + cbn [fm lead_minus]. apply fmt_name.
    + cbn [fs]. unfold fst_. cbn [tok_text]. apply negb_true_iff, L2.
  - (* ECase *) intros ws IHw els IHe L A. cbn [lex_ok atoms_ok] in L, A.
    apply andb_prop in L as [Lw Le]. apply andb_prop in A as [Aw0 Ae0].
    destruct (IHw Lw Aw0) as [Adw [Fmw [Fsw Lsw]]]. destruct (IHe Le Ae0) as [Ade [Fme [Fse Lse]]].
    rewrite pr_ECase. repeat split; try discriminate.
    + apply adj_cons; [|destruct (pr_whens impl_pol ws ++ _); [exact I|apply bad_adj_l; reflexivity]].
      apply adj_app; [exact Adw| |left; exact Lsw].
      apply adj_app; [exact Ade|reflexivity|right; split; reflexivity].
    + rewrite app_comm_cons, app_assoc. rewrite lsafe_app by discriminate. reflexivity.
  - (* ENil *) reflexivity.
  - (* ECons *) intros e IHe r IHr L A. cbn [lex_items atoms_ok_items] in L, A.
    apply andb_prop in L as [Le Lr]. apply andb_prop in A as [Ae0 Ar]. specialize (IHr Lr Ar).
    assert (Ade : adjacency_ok (pr impl_pol e) = true).
    { destruct e; try (apply IHe; assumption). reflexivity. }
    rewrite pr_items_cons. destruct r as [|e2 r2]; [exact Ade|].
    apply adj_app; [exact Ade| |right; split; reflexivity].
    apply adj_cons; [exact IHr|]. destruct (pr_items impl_pol (ECons e2 r2)); [exact I|]. apply bad_adj_l. reflexivity.
  - (* EWNil *) intros _ _. repeat split.
  - (* EWCons *) intros c IHc v IHv r IHr L A. cbn [lex_whens atoms_ok_whens] in L, A.
    apply andb_prop in L as [L Lr]. apply andb_prop in L as [Lc Lv].
    apply andb_prop in A as [A Ar]. apply andb_prop in A as [Ac Av].
    destruct (IHc Lc Ac) as [Nc [Adc [Lsc _]]]. destruct (IHv Lv Av) as [Nv [Adv [Lsv _]]].
    destruct (IHr Lr Ar) as [Adr [Fmr [Fsr Lsr]]].
    rewrite pr_whens_cons. repeat split.
    + apply adj_cons; [|destruct (pr impl_pol c ++ _); [exact I|apply bad_adj_l; reflexivity]].
      apply adj_app; [exact Adc| |left; exact Lsc].
      apply adj_cons; [|destruct (pr impl_pol v ++ _); [exact I|apply bad_adj_l; reflexivity]].
      apply adj_app; [exact Adv|exact Adr|left; exact Lsv].
    + change (KWhen :: pr impl_pol c ++ KThen :: pr impl_pol v ++ pr_whens impl_pol r)
        with ((KWhen :: pr impl_pol c) ++ [KThen] ++ pr impl_pol v ++ pr_whens impl_pol r).
      rewrite lsafe_app by discriminate. rewrite lsafe_app by (intros E; apply app_eq_nil in E as [E _]; auto).
      destruct (pr_whens impl_pol r) eqn:E; [rewrite app_nil_r; exact Lsv|].
      rewrite lsafe_app by discriminate. exact Lsr.
  - (* EONone *) intros _ _. repeat split.
  - (* EOSome *) intros e IHe L A. cbn [lex_else atoms_ok_else] in L, A. destruct (IHe L A) as [N [Ad [Ls _]]].
    rewrite pr_else_some. repeat split.
    + apply adj_cons; [exact Ad|]. destruct (pr impl_pol e); [exact I|]. apply bad_adj_l. reflexivity.
    + change (KElse :: pr impl_pol e) with ([KElse] ++ pr impl_pol e). rewrite lsafe_app by exact N. exact Ls.
Qed.

Theorem adjacency_holds e : lex_ok e = true -> atoms_ok e = true -> adjacency_ok (pr impl_pol e) = true.
Proof. intros L A. apply (proj1 adjacency_all e L A). Qed.
