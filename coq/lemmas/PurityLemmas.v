(* PurityLemmas.v — proofs about the effect model of Purity.v (C09). *)
From PV Require Import Base Purity.

(* ---------- no listed write => observation leaves the whole heap unchanged ---------- *)
Lemma effect_no_writes : forall T sem w l c, writes T = [] -> effect T sem w l c = w.
Proof. intros T sem w l c H. unfold effect. rewrite H. reflexivity. Qed.

Lemma observe_no_writes : forall T sem w l c ord, writes T = [] -> fst (observe T sem w l c ord) = w.
Proof. intros. simpl. apply effect_no_writes; assumption. Qed.

Lemma run_no_writes : forall T sem hist w, writes T = [] -> run T sem w hist = w.
Proof.
  intros T sem hist. induction hist as [|[[l c] ord] r IH]; intros w H; simpl.
  - reflexivity.
  - rewrite effect_no_writes by assumption. apply IH; assumption.
Qed.

(* ---------- no listed set iteration => the text does not depend on the order oracle ---------- *)
Lemma ord_visible_nil : forall T w l, set_iters T = [] -> ord_visible T w l = false.
Proof. intros T w l H. unfold ord_visible. rewrite H. reflexivity. Qed.

Lemma text_order_independent :
  forall T sem w l c ord1 ord2, ord_visible T w l = false -> text T sem w l c ord1 = text T sem w l c ord2.
Proof. intros. unfold text. rewrite H. reflexivity. Qed.

(* ---------- identically constructed objects render the same text ---------- *)
Lemma twin_text :
  forall T sem w l w2 l2 c ord1 ord2,
    twin w l w2 l2 -> ord_visible T w l = false -> ord_visible T w2 l2 = false ->
    text T sem w l c ord1 = text T sem w2 l2 c ord2.
Proof.
  intros T sem w l w2 l2 c ord1 ord2 Htw H1 H2. unfold text. rewrite H1, H2. rewrite (Htw (depth sem)). reflexivity.
Qed.

(* ---------- the generic theorem ---------- *)
Theorem rendering_pure_generic :
  forall T, writes T = [] -> set_iters T = [] -> rendering_pure T.
Proof.
  intros T Hw Hs sem w hist l c ord1 ord2.
  split; [apply run_no_writes; assumption|].
  split.
  - rewrite (run_no_writes T sem hist w Hw). simpl.
    apply text_order_independent. apply ord_visible_nil; assumption.
  - intros w2 l2 Htw. simpl. apply twin_text; auto using ord_visible_nil.
Qed.

(* ---------- fragments of an arbitrary table ---------- *)
Lemma write_obj_untouched :
  forall T sem args view es o,
    forallb (fun e => negb (entry_matches T e o)) es = true -> write_obj T sem args view es o = o.
Proof.
  intros T sem args view es. unfold write_obj. induction es as [|e r IH]; intros o H; simpl in *.
  - reflexivity.
  - apply andb_true_iff in H. destruct H as [H1 H2].
    apply negb_true_iff in H1. rewrite H1. apply IH. exact H2.
Qed.

Lemma map_idx_id :
  forall {A} (f : nat -> A -> A) (l : list A) i,
    forallb (fun p => match p with (j, x) => true end) (map_idx (fun j x => (j, x)) i l) = true ->
    (forall j x, In (j, x) (map_idx (fun j x => (j, x)) i l) -> f j x = x) ->
    map_idx f i l = l.
Proof.
  intros A f l. induction l as [|x r IH]; intros i _ H; simpl in *.
  - reflexivity.
  - rewrite (H i x) by (left; reflexivity). f_equal. apply IH.
    + clear. generalize (S i). induction r; intros; simpl; auto.
    + intros j y Hin. apply H. right. exact Hin.
Qed.

Lemma effect_pure_on : forall T sem w l c, pure_on T w l = true -> effect T sem w l c = w.
Proof.
  intros T sem w l c H. unfold effect, pure_on in *. destruct (writes T) as [|e es] eqn:E; [reflexivity|].
  rewrite <- E. cbv zeta in H. rewrite forallb_forall in H.
  apply map_idx_id.
  - clear. generalize 0. induction w; intros; simpl; auto.
  - intros j x Hin. specialize (H (j, x) Hin). simpl in H.
    destruct (targeted w (reach w l) j x); simpl in H; [|reflexivity].
    apply write_obj_untouched. exact H.
Qed.

Lemma run_pure_on :
  forall T sem hist w,
    forallb (fun h => pure_on T w (fst (fst h))) hist = true -> run T sem w hist = w.
Proof.
  intros T sem hist. induction hist as [|[[l c] ord] r IH]; intros w H; simpl in *.
  - reflexivity.
  - apply andb_true_iff in H. destruct H as [H1 H2].
    rewrite effect_pure_on by exact H1. apply IH. exact H2.
Qed.

(* On the fragment of a heap that no listed effect can reach, an arbitrary table still gives the property *)
Theorem rendering_pure_on_fragment :
  forall T sem w hist l c ord1 ord2,
    forallb (fun h => pure_on T w (fst (fst h))) hist = true ->
    ord_visible T w l = false ->
    run T sem w hist = w
    /\ snd (observe T sem (run T sem w hist) l c ord1) = snd (observe T sem w l c ord2)
    /\ (forall w2 l2, twin w l w2 l2 -> ord_visible T w2 l2 = false ->
          snd (observe T sem w l c ord1) = snd (observe T sem w2 l2 c ord2)).
Proof.
  intros T sem w hist l c ord1 ord2 Hp Ho.
  pose proof (run_pure_on T sem hist w Hp) as Hr.
  split; [exact Hr|]. split.
  - rewrite Hr. simpl. apply text_order_independent. exact Ho.
  - intros w2 l2 Htw Ho2. simpl. apply twin_text; assumption.
Qed.

(* a table with no writes makes every location pure; with no set iteration, every order invisible *)
Lemma pure_on_no_writes : forall T w l, writes T = [] -> pure_on T w l = true.
Proof. intros T w l H. unfold pure_on. rewrite H. reflexivity. Qed.

(* ---------- the hypotheses matter: tables with an effect break the property ---------- *)
(* a renderer that caches its text in self (the kind of change "self._cached_sql = ..." in get_sql) *)
Definition T_cache : effect_table :=
  mkT [("Q", ["Q"])] [mkW (OnClass "Q") "Q.get_sql" "_cached_sql" "self"] [] [] ["Q.get_sql"] [].

Definition field_text (a : string) (t : tree) : string :=
  match t with
  | TObj _ fs => match assoc_str a fs with Some (TAtom s) => s | _ => "?" end
  | _ => "?"
  end.

Definition sem_cache : semantics :=
  mkSem 3 (fun m args t ord => field_text "_cached_sql" t) (fun e args t => VAtom "SELECT 1").

Definition w_cache : world := [mkObj "Q" [("_cached_sql", VAtom "None")]].
Definition call_str : call := mkCall "__str__" [].

Lemma cache_write_breaks_purity : ~ rendering_pure T_cache.
Proof.
  intro H. destruct (H sem_cache w_cache [(0, call_str, canon)] 0 call_str canon canon) as [H1 _].
  vm_compute in H1. discriminate H1.
Qed.

Lemma cache_write_changes_text :
  snd (observe T_cache sem_cache (run T_cache sem_cache w_cache [(0, call_str, canon)]) 0 call_str canon)
  <> snd (observe T_cache sem_cache w_cache 0 call_str canon).
Proof. vm_compute. discriminate. Qed.

(* the historical defect (fixed in 68bca14): FOR UPDATE OF rendered from a set *)
Definition T_forupdate : effect_table :=
  mkT [("MySQLQueryBuilder", ["MySQLQueryBuilder"; "QueryBuilder"])] []
      [mkI "MySQLQueryBuilder" "MySQLQueryBuilder._for_update_sql" "self._for_update_of"] [] [] [].

Definition set_text (a : string) (ord : order) (w_members : list value) : string :=
  join ", " (map (fun v => match v with VAtom s => s | _ => "?" end) (ord w_members)).

Definition sem_forupdate : semantics :=
  mkSem 3 (fun m args t ord => "FOR UPDATE OF " ++ set_text "_for_update_of" ord [VAtom "a"; VAtom "b"])
        (fun e args t => VAny).

Definition w_forupdate : world := [mkObj "MySQLQueryBuilder" [("_for_update_of", VSet [VAtom "a"; VAtom "b"])]].

Lemma set_iteration_breaks_order_independence : ~ rendering_pure T_forupdate.
Proof.
  intro H. destruct (H sem_forupdate w_forupdate [] 0 call_str canon (@rev value)) as [_ [H2 _]].
  vm_compute in H2. discriminate H2.
Qed.

(* ... and yet the same table is pure on heaps without such an object (fragment theorem is not vacuous) *)
Lemma fragment_example :
  pure_on T_cache [mkObj "Table" [("alias", VAtom "None")]; mkObj "Q" []] 0 = true
  /\ pure_on T_cache [mkObj "Table" [("alias", VAtom "None")]; mkObj "Q" []] 1 = false
  /\ ord_visible T_forupdate [mkObj "Table" []] 0 = false
  /\ ord_visible T_forupdate w_forupdate 0 = true.
Proof. vm_compute. repeat split. Qed.
