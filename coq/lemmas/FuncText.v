(* FuncText.v — text-level lemmas for the C18 model: prefixes, depth scanning, keyword scanning,
   decimal numerals. *)
From PV Require Import Base Func.
From Coq Require Import Lia DecimalString Decimal DecimalZ DecimalPos.
Open Scope string_scope.

(* ---- append / length / take / drop ------------------------------------------------------- *)
Lemma sapp_assoc (a b c : string) : (a ++ b) ++ c = a ++ (b ++ c).
Proof. induction a; cbn; congruence. Qed.
Lemma sapp_nil_r (a : string) : a ++ "" = a.
Proof. induction a; cbn; congruence. Qed.
Lemma slength_app (a b : string) : String.length (a ++ b) = String.length a + String.length b.
Proof. induction a; cbn; congruence. Qed.
Lemma take_app k r : take (String.length k) (k ++ r) = k.
Proof. induction k; cbn; congruence. Qed.
Lemma drop_app k r : drop (String.length k) (k ++ r) = r.
Proof. induction k; cbn; congruence. Qed.

Lemma prefix_cons a b k s :
  prefix (String a k) (String b s) = Ascii.eqb a b && prefix k s.
Proof.
  cbn. destruct (ascii_dec a b) as [->|N].
  - rewrite Ascii.eqb_refl. reflexivity.
  - apply Ascii.eqb_neq in N. rewrite N. reflexivity.
Qed.
Lemma prefix_nil_l s : prefix "" s = true.
Proof. destruct s; reflexivity. Qed.
Lemma prefix_nil_r a k : prefix (String a k) "" = false.
Proof. reflexivity. Qed.

Lemma prefix_app k r : prefix k (k ++ r) = true.
Proof.
  induction k as [|a k IH]; [apply prefix_nil_l|].
  change (String a k ++ r) with (String a (k ++ r)). rewrite prefix_cons, Ascii.eqb_refl, IH. reflexivity.
Qed.
Lemma prefix_mono k : forall s z, prefix k s = true -> prefix k (s ++ z) = true.
Proof.
  induction k as [|a k IH]; intros s z H; [apply prefix_nil_l|].
  destruct s as [|b s]; [discriminate|].
  change (String b s ++ z) with (String b (s ++ z)). rewrite prefix_cons in *.
  apply andb_prop in H as [H1 H2]. rewrite H1, (IH _ _ H2). reflexivity.
Qed.
Lemma strip_prefix_app k r : strip_prefix k (k ++ r) = Some r.
Proof. unfold strip_prefix. rewrite prefix_app, drop_app. reflexivity. Qed.
Lemma strip_prefix_none k s : prefix k s = false -> strip_prefix k s = None.
Proof. unfold strip_prefix. intros ->. reflexivity. Qed.

(* ---- suffixes ----------------------------------------------------------------------------- *)
Lemma strip_suffix_app suf : forall p, strip_suffix suf (p ++ suf) = Some p.
Proof.
  induction p as [|c p IH].
  - cbn [append]. destruct suf; cbn; rewrite ?Ascii.eqb_refl, ?String.eqb_refl; reflexivity.
  - change (String c p ++ suf) with (String c (p ++ suf)).
    cbn [strip_suffix].
    destruct (String.eqb (String c (p ++ suf)) suf) eqn:E.
    + apply String.eqb_eq in E. apply (f_equal String.length) in E. cbn in E. rewrite slength_app in E. lia.
    + rewrite IH. reflexivity.
Qed.
(* a text longer than suf ending in a different last-but-k character: handled by computation on the
   constant tail, character by character on the variable head *)
Lemma strip_suffix_long suf tail : forall p,
  String.length suf < String.length tail ->
  strip_suffix suf tail = None ->
  strip_suffix suf (p ++ tail) = None.
Proof.
  induction p as [|c p IH]; intros L H; [exact H|].
  change (String c p ++ tail) with (String c (p ++ tail)). cbn [strip_suffix].
  destruct (String.eqb (String c (p ++ tail)) suf) eqn:E.
  - apply String.eqb_eq in E. apply (f_equal String.length) in E. cbn in E. rewrite slength_app in E. lia.
  - rewrite IH; auto.
Qed.

(* ---- splitting at a character ------------------------------------------------------------- *)
Lemma split_char_app c : forall p q, nochar c p = true -> split_char c (p ++ String c q) = Some (p, q).
Proof.
  induction p as [|a p IH]; intros q H.
  - cbn. rewrite Ascii.eqb_refl. reflexivity.
  - cbn in H. apply andb_prop in H as [H1 H2]. apply negb_true_iff in H1.
    cbn. rewrite H1, IH; auto.
Qed.
Lemma split_last_none c : forall q, nochar c q = true -> split_last c q = None.
Proof.
  induction q as [|a q IH]; intros H; [reflexivity|].
  cbn in H. apply andb_prop in H as [H1 H2]. apply negb_true_iff in H1.
  cbn. rewrite IH, H1; auto.
Qed.
Lemma split_last_app c : forall p q, nochar c q = true -> split_last c (p ++ String c q) = Some (p, q).
Proof.
  induction p as [|a p IH]; intros q H.
  - cbn. rewrite split_last_none, Ascii.eqb_refl; auto.
  - cbn. rewrite IH; auto.
Qed.
Lemma nochar_app c a b : nochar c (a ++ b) = nochar c a && nochar c b.
Proof. induction a; cbn; [reflexivity|]. rewrite IHa, andb_assoc. reflexivity. Qed.

(* ---- depth -------------------------------------------------------------------------------- *)
Lemma top_bal : forall s d, top d s = true -> bal d s = true.
Proof.
  induction s as [|c s IH]; intros d H; [exact H|].
  cbn in *. destruct (Nat.eqb d 0); cbn in *.
  - destruct (Ascii.eqb c ","); cbn in *; [discriminate|].
    destruct (Ascii.eqb c ")"); cbn in *; [discriminate|]. auto.
  - auto.
Qed.

(* reading a text that is balanced from depth d, k levels deeper, ends k levels deep *)
Lemma next_shift d k c : (Nat.eqb d 0 && Ascii.eqb c ")") = false -> next (d + k) c = next d c + k.
Proof.
  unfold next. intros H. destruct (Ascii.eqb c "("); [reflexivity|].
  destruct (Ascii.eqb c ")"); [|reflexivity].
  destruct d; [discriminate|]. reflexivity.
Qed.
Lemma bal_shift : forall a d k b, bal d a = true -> bal (d + k) (a ++ b) = bal k b.
Proof.
  induction a as [|c a IH]; intros d k b H.
  - cbn in H. apply Nat.eqb_eq in H. subst. reflexivity.
  - cbn in H. change (String c a ++ b) with (String c (a ++ b)). cbn [bal].
    destruct (Nat.eqb d 0 && Ascii.eqb c ")") eqn:E; [discriminate|].
    rewrite next_shift by exact E. rewrite IH by exact H.
    destruct (Nat.eqb (d + k) 0 && Ascii.eqb c ")") eqn:E2; [|reflexivity].
    apply andb_prop in E2 as [E3 E4]. apply Nat.eqb_eq in E3.
    assert (d = 0) by lia. subst. cbn in E. rewrite E4 in E. discriminate.
Qed.
Lemma bal_app a b : bal 0 a = true -> bal 0 b = true -> bal 0 (a ++ b) = true.
Proof. intros Ha Hb. pose proof (bal_shift a 0 0 b Ha) as H. cbn in H. rewrite H. exact Hb. Qed.
Lemma bal_paren a : bal 0 a = true -> bal 0 ("(" ++ a ++ ")") = true.
Proof. intros H. pose proof (bal_shift a 0 1 ")" H) as E. cbn in *. rewrite E. reflexivity. Qed.
Lemma bal_nochar s : nochar "(" s = true -> nochar ")" s = true -> bal 0 s = true.
Proof.
  induction s as [|c s IH]; intros H1 H2; [reflexivity|].
  cbn in *. apply andb_prop in H1 as [A1 B1]. apply andb_prop in H2 as [A2 B2].
  apply negb_true_iff in A1, A2. unfold next. rewrite A1, A2. cbn. auto.
Qed.

Lemma top_app : forall a d b, top d a = true -> top 0 b = true -> top d (a ++ b) = true.
Proof.
  induction a as [|c a IH]; intros d b Ha Hb.
  - cbn in Ha. apply Nat.eqb_eq in Ha. subst. exact Hb.
  - change (String c a ++ b) with (String c (a ++ b)). cbn [top] in *.
    destruct (Nat.eqb d 0 && (Ascii.eqb c "," || Ascii.eqb c ")")); [discriminate|]. auto.
Qed.

(* ---- keywords ----------------------------------------------------------------------------- *)
(* W free of the delimiter: a keyword " W " that matches t followed by a delimiter matches t followed by a space *)
Lemma prefix_delim : forall W t dl x, nochar dl W = true ->
  prefix (W ++ " ") (t ++ String dl x) = true -> prefix (W ++ " ") (t ++ " ") = true.
Proof.
  induction W as [|w W IH]; intros t dl x HW H.
  - destruct t as [|c t]; [reflexivity|].
    cbn [append] in *. rewrite prefix_cons in *. apply andb_prop in H as [H1 _]. rewrite H1. cbn.
    apply prefix_nil_l.
  - cbn in HW. apply andb_prop in HW as [HW1 HW2]. apply negb_true_iff in HW1.
    destruct t as [|c t].
    + cbn [append] in H. rewrite prefix_cons in H. apply andb_prop in H as [H1 _]. congruence.
    + cbn [append] in *. rewrite prefix_cons in *. apply andb_prop in H as [H1 H2]. rewrite H1. cbn.
      eapply IH; eauto.
Qed.

Definition delim_ok (kws : list string) (dl : ascii) : bool := forallb (nochar dl) kws.

Lemma kwp_delim W t dl x : t <> "" -> nochar dl W = true ->
  kwp W (t ++ String dl x) = true -> kwp W (t ++ " ") = true.
Proof.
  intros Ht HW H. destruct t as [|c t]; [congruence|]. unfold kwp in *.
  cbn [append] in *. rewrite prefix_cons in *. apply andb_prop in H as [H1 H2]. rewrite H1. cbn.
  eapply prefix_delim; eauto.
Qed.
Lemma kw_at_delim kws t dl x : t <> "" -> delim_ok kws dl = true ->
  kw_at kws (t ++ String dl x) = true -> kw_at kws (t ++ " ") = true.
Proof.
  intros Ht. unfold kw_at, delim_ok. induction kws as [|W kws IH]; intros HD H; [discriminate|].
  cbn in *. apply andb_prop in HD as [HD1 HD2]. apply orb_prop in H as [H|H].
  - rewrite (kwp_delim W t dl x Ht HD1 H). reflexivity.
  - rewrite (IH HD2 H). apply orb_true_r.
Qed.
Lemma kw_at_mono kws s z : kw_at kws s = true -> kw_at kws (s ++ z) = true.
Proof.
  unfold kw_at. induction kws as [|W kws IH]; intros H; [discriminate|].
  cbn in *. apply orb_prop in H as [H|H].
  - unfold kwp in *. rewrite (prefix_mono _ _ z H). reflexivity.
  - rewrite IH; auto. apply orb_true_r.
Qed.

(* what may follow a scanned piece: nothing, or a delimiter that no keyword contains *)
Definition follows (kws : list string) (x : string) : Prop :=
  x = "" \/ exists dl x', x = String dl x' /\ delim_ok kws dl = true.

Lemma kw_at_follows kws t x : t <> "" -> follows kws x ->
  kw_at kws (t ++ " ") = false -> kw_at kws (t ++ x) = false.
Proof.
  intros Ht [->|[dl [x' [-> HD]]]] H.
  - rewrite sapp_nil_r. destruct (kw_at kws t) eqn:E; [|reflexivity].
    rewrite (kw_at_mono kws t " " E) in H. discriminate.
  - destruct (kw_at kws (t ++ String dl x')) eqn:E; [|reflexivity].
    rewrite (kw_at_delim kws t dl x' Ht HD E) in H. discriminate.
Qed.

(* ---- the scanner --------------------------------------------------------------------------- *)
Lemma next_top d c : (Nat.eqb d 0 && (Ascii.eqb c "," || Ascii.eqb c ")")) = false ->
  (Nat.eqb d 0 && Ascii.eqb c ")") = false /\ (Nat.eqb d 0 && Ascii.eqb c ",") = false.
Proof.
  destruct (Nat.eqb d 0); cbn; [|auto].
  destruct (Ascii.eqb c ","), (Ascii.eqb c ")"); cbn; intros; try discriminate; auto.
Qed.

Lemma scan_nonempty kws : forall s d, fst (scan kws d s) <> [].
Proof.
  destruct s as [|c r]; intros d; cbn [scan]; [discriminate|].
  destruct (Nat.eqb d 0 && (Ascii.eqb c ")" || kw_at kws (String c r))); [discriminate|].
  destruct (Nat.eqb d 0 && Ascii.eqb c ","); [destruct (scan kws 0 r); discriminate|].
  destruct (scan kws (next d c) r) as [[|? ?] ?]; discriminate.
Qed.

Lemma scan_piece kws : forall a d x, top d a = true -> kwfree kws d a = true -> follows kws x ->
  scan kws d (a ++ x) =
  (let (ps, rest) := scan kws 0 x in match ps with p :: ps' => ((a ++ p) :: ps', rest) | [] => ([a], rest) end).
Proof.
  induction a as [|c a IH]; intros d x Ht Hk Hf.
  - cbn in Ht. apply Nat.eqb_eq in Ht. subst. cbn [append].
    destruct (scan kws 0 x) as [ps rest] eqn:E. destruct ps as [|p ps'].
    + exfalso. apply (scan_nonempty kws x 0). rewrite E. reflexivity.
    + reflexivity.
  - change (String c a ++ x) with (String c (a ++ x)). cbn [scan].
    cbn [top] in Ht. cbn [kwfree] in Hk.
    destruct (Nat.eqb d 0 && (Ascii.eqb c "," || Ascii.eqb c ")")) eqn:E0; [discriminate|].
    destruct (next_top d c E0) as [E1 E2].
    apply andb_prop in Hk as [Hk1 Hk2]. apply negb_true_iff in Hk1.
    assert (E3 : (Nat.eqb d 0 && (Ascii.eqb c ")" || kw_at kws (String c (a ++ x)))) = false).
    { destruct (Nat.eqb d 0) eqn:Ed; [|reflexivity]. cbn in *. rewrite E1. cbn.
      change (String c (a ++ x)) with (String c a ++ x).
      apply kw_at_follows; auto. discriminate. }
    rewrite E3, E2. rewrite (IH (next d c) x Ht Hk2 Hf).
    destruct (scan kws 0 x) as [ps rest]. destruct ps as [|p ps']; reflexivity.
Qed.

(* a stop: the scanner returns at once *)
Definition stops (kws : list string) (x : string) : Prop :=
  x = "" \/ (exists x', x = String ")" x') \/ (kw_at kws x = true /\ exists x', x = String " " x').

Lemma scan_stop kws x : stops kws x -> scan kws 0 x = ([""], x).
Proof.
  intros [->|[[x' ->]|[H [x' ->]]]]; [reflexivity|reflexivity|].
  cbn [scan]. rewrite H. reflexivity.
Qed.

Lemma stops_follows kws x : delim_ok kws ")" = true -> delim_ok kws " " = true -> stops kws x -> follows kws x.
Proof.
  intros D1 D2 [->|[[x' ->]|[_ [x' ->]]]]; [left; reflexivity| right; eauto | right; eauto].
Qed.

Lemma kw_at_nonspace kws c r : Ascii.eqb " " c = false -> kw_at kws (String c r) = false.
Proof.
  intros H. unfold kw_at. induction kws as [|W kws IH]; [reflexivity|].
  cbn [existsb]. rewrite IH, orb_false_r. unfold kwp. rewrite prefix_cons, H. reflexivity.
Qed.
Lemma scan_comma kws r : scan kws 0 (String "," r) = (let (ps, rest) := scan kws 0 r in ("" :: ps, rest)).
Proof.
  cbn [scan]. rewrite (kw_at_nonspace kws "," r eq_refl). reflexivity.
Qed.

Definition piece_ok (kws : list string) (p : string) : bool := top 0 p && kwfree kws 0 p.

Lemma scan_list kws : delim_ok kws "," = true -> delim_ok kws ")" = true -> delim_ok kws " " = true ->
  forall items x, items <> [] -> forallb (piece_ok kws) items = true -> stops kws x ->
  scan kws 0 (join "," items ++ x) = (items, x).
Proof.
  intros Dc Dp Ds. induction items as [|p items IH]; intros x Hne Hok Hst; [congruence|].
  cbn in Hok. apply andb_prop in Hok as [Hp Hrest]. unfold piece_ok in Hp. apply andb_prop in Hp as [Hp1 Hp2].
  destruct items as [|q items].
  - cbn [join]. rewrite (scan_piece kws p 0 x Hp1 Hp2 (stops_follows kws x Dp Ds Hst)).
    rewrite (scan_stop kws x Hst). cbv iota beta. rewrite sapp_nil_r. reflexivity.
  - change (join "," (p :: q :: items)) with (p ++ "," ++ join "," (q :: items)).
    rewrite sapp_assoc. rewrite sapp_assoc.
    rewrite (scan_piece kws p 0 _ Hp1 Hp2).
    2:{ right. exists ","%char. eexists. split; [reflexivity|exact Dc]. }
    change ("," ++ join "," (q :: items) ++ x) with (String "," (join "," (q :: items) ++ x)).
    rewrite scan_comma.
    rewrite (IH x); auto; [|discriminate]. cbv iota beta. rewrite sapp_nil_r. reflexivity.
Qed.

Lemma kwfree_nil : forall s d, kwfree [] d s = true.
Proof. induction s; intros; cbn; auto. rewrite andb_false_r. cbn. auto. Qed.

Lemma kwfree_app kws : delim_ok kws " " = true ->
  forall a d b, top d a = true -> kwfree kws d a = true -> kwfree kws 0 b = true ->
  follows kws b -> kwfree kws d (a ++ b) = true.
Proof.
  intros Ds. induction a as [|c a IH]; intros d b Ht Ha Hb Hf.
  - cbn in Ht. apply Nat.eqb_eq in Ht. subst. exact Hb.
  - change (String c a ++ b) with (String c (a ++ b)). cbn [kwfree top] in *.
    destruct (Nat.eqb d 0 && (Ascii.eqb c "," || Ascii.eqb c ")")) eqn:E0; [discriminate|].
    apply andb_prop in Ha as [Ha1 Ha2]. apply negb_true_iff in Ha1.
    rewrite (IH _ _ Ht Ha2 Hb Hf), andb_true_r. apply negb_true_iff.
    destruct (Nat.eqb d 0); [|reflexivity]. cbn [andb] in *.
    change (String c (a ++ b) ++ " ") with ((String c a ++ b) ++ " "). rewrite sapp_assoc.
    apply kw_at_follows; auto; [discriminate|].
    destruct Hf as [->|[dl [x' [-> HD]]]]; right; [exists " "%char | exists dl]; eexists; split; try reflexivity; auto.
Qed.

(* ---- decimal numerals --------------------------------------------------------------------- *)
Definition num_char (c : ascii) : bool :=
  existsb (Ascii.eqb c) ["-"; "0"; "1"; "2"; "3"; "4"; "5"; "6"; "7"; "8"; "9"]%char.
Fixpoint numeric (s : string) : bool := match s with EmptyString => true | String c r => num_char c && numeric r end.

Lemma numeric_uint d : numeric (NilEmpty.string_of_uint d) = true.
Proof. induction d; cbn; auto. Qed.
Lemma numeric_Z z : numeric (Z_to_string z) = true.
Proof.
  unfold Z_to_string, NilZero.string_of_int, NilZero.string_of_uint.
  destruct (Z.to_int z) as [d|d]; destruct d; cbn; auto using numeric_uint.
Qed.
Lemma numeric_nospace s : numeric s = true -> nochar " " s = true.
Proof.
  induction s as [|c s IH]; intros H; [reflexivity|]. cbn in H. apply andb_prop in H as [H1 H2].
  cbn [nochar]. rewrite (IH H2), andb_true_r.
  destruct (Ascii.eqb c " ") eqn:E; [|reflexivity]. apply Ascii.eqb_eq in E. subst. vm_compute in H1. discriminate.
Qed.
(* a numeral followed by anything that does not begin with the given letter never starts with a word
   beginning with that letter *)
Lemma numeric_not_prefix (k : ascii) W s x : num_char k = false -> Ascii.eqb k " " = false ->
  numeric s = true -> prefix (String k W) (s ++ String " " x) = false.
Proof.
  intros Hk Hsp Hs. destruct s as [|c s].
  - cbn [append]. rewrite prefix_cons, Hsp. reflexivity.
  - cbn [numeric] in Hs. apply andb_prop in Hs as [H1 _]. cbn [append]. rewrite prefix_cons.
    destruct (Ascii.eqb k c) eqn:E; [|reflexivity]. apply Ascii.eqb_eq in E. subst. congruence.
Qed.

Lemma Z_round_trip z : Z_of_string (Z_to_string z) = Some z.
Proof.
  unfold Z_of_string, Z_to_string. rewrite NilZero.isi.
  - cbn. rewrite DecimalZ.of_to. reflexivity.
  - destruct z; cbn; try discriminate. intros E. inversion E as [E']. exact (Unsigned.to_uint_nonnil _ E').
  - destruct z; cbn; try discriminate. intros E. inversion E as [E']. exact (Unsigned.to_uint_nonnil _ E').
Qed.

(* ---- parenthesised texts are top-level safe ------------------------------------------------ *)
Lemma top_shift : forall a d k b, bal d a = true -> top (d + S k) (a ++ b) = top (S k) b.
Proof.
  induction a as [|c a IH]; intros d k b H.
  - cbn in H. apply Nat.eqb_eq in H. subst. reflexivity.
  - cbn in H. change (String c a ++ b) with (String c (a ++ b)). cbn [top].
    destruct (Nat.eqb d 0 && Ascii.eqb c ")") eqn:E; [discriminate|].
    replace (Nat.eqb (d + S k) 0) with false by (symmetry; apply Nat.eqb_neq; lia). cbn [andb].
    rewrite (next_shift d (S k) c E). apply IH. exact H.
Qed.
Lemma top_paren a : bal 0 a = true -> top 0 ("(" ++ a ++ ")") = true.
Proof. intros H. pose proof (top_shift a 0 0 ")" H) as E. cbn in *. rewrite E. reflexivity. Qed.

Lemma top_join sep : top 0 sep = true -> forall l, forallb (top 0) l = true -> top 0 (join sep l) = true.
Proof.
  intros Hs. induction l as [|a l IH]; intros H; [reflexivity|].
  cbn in H. apply andb_prop in H as [H1 H2]. destruct l as [|b l]; [exact H1|].
  change (join sep (a :: b :: l)) with (a ++ sep ++ join sep (b :: l)).
  apply top_app; [exact H1|]. apply top_app; [exact Hs|]. apply IH. exact H2.
Qed.

(* ---- non-integer numerals (raw_ok) ---------------------------------------------------------- *)
Lemma num_start_not_prefix (k : ascii) W s x : num_start_char k = false ->
  match s with String c _ => num_start_char c | EmptyString => false end = true ->
  prefix (String k W) (s ++ x) = false.
Proof.
  intros Hk Hs. destruct s as [|c s]; [discriminate|]. cbn [append]. rewrite prefix_cons.
  destruct (Ascii.eqb k c) eqn:E; [|reflexivity]. apply Ascii.eqb_eq in E. subst. congruence.
Qed.
