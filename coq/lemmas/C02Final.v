(* C02Final.v — assembly of the fragment theorem and the refutation witnesses. *)
From PV Require Import Base Crit gen.TermsTable Terms Parse lemmas.ParseMono lemmas.ParsePrint C02Model C02Frag lemmas.C02Lemmas lemmas.C02Univ.
From Coq Require Import Lia Arith ZArith.
Local Open Scope list_scope.

Lemma tok_eqb_eq a b : tok_eqb a b = true -> a = b.
Proof.
  destruct a as [x|x| | |x|x| | | | |x| | | | |], b as [y|y| | |y|y| | | | |y| | | | |]; cbn; try discriminate; auto; intros H;
    first [ apply String.eqb_eq in H; congruence
          | apply binop_eqb_eq in H; congruence
          | apply Bool.eqb_prop in H; congruence
          | destruct x, y; try discriminate; reflexivity
          | destruct x; discriminate ].
Qed.
Lemma list_eqb_tok : forall a b, list_eqb tok_eqb a b = true -> a = b.
Proof.
  induction a as [|x a IH]; destruct b as [|y b]; cbn; try discriminate; auto.
  intros H. apply andb_prop in H as [H1 H2]. apply tok_eqb_eq in H1. f_equal; auto.
Qed.

(* the laws an interpretation of the operators must obey: exactly the identities pypika relies on *)
Definition obeys_identities {V} (s_bin : binop -> V -> V -> V) : Prop :=
  forall o o2, reassoc_valid o o2 = true -> forall a b c, s_bin o a (s_bin o2 b c) = s_bin o2 (s_bin o a b) c.

Theorem C02_universal : forall c t ts e, rtoks c t = Some ts -> to_expr c t = Some e ->
  subc c = false -> nl false t = true -> clean e = true -> lex_ok e = true ->
    (* the tokens are exactly the text pypika renders *)
    render c t = Ok (flatten ts)
    (* every engine table reads the tokens as one and the same tree ... *)
    /\ (forall T, In T engines -> exists fuel, parse T fuel 0 ts = Some (norm e, []))
    (* ... which denotes the same function as the Python tree under every interpretation obeying the identities *)
    /\ (forall V sa sn snot (sb : binop -> V -> V -> V) sp si sbt sc scs, obeys_identities sb ->
          eval V sa sn snot sb sp si sbt sc scs (norm e) = eval V sa sn snot sb sp si sbt sc scs e)
    (* and no comment introducer arises between adjacent tokens *)
    /\ adjacency_ok ts = true.
Proof.
  intros c t ts e R X S N C L. destruct (tokens_are_printed c t ts e R X S N) as [-> A].
  repeat split.
  - apply rtoks_render, R.
  - intros T HT. rewrite <- pr_norm. apply parse_print_engine; auto. apply clean_dominated; auto.
  - intros. apply eval_norm. assumption.
  - apply adjacency_holds; assumption.
Qed.

Theorem C02_fragment_theorem : forall c t, frag02 c t = true ->
  exists ts e, rtoks c t = Some ts /\ to_expr c t = Some e
    /\ render c t = Ok (flatten ts)
    /\ (forall T, In T engines -> exists fuel, parse T fuel 0 ts = Some (norm e, []))
    /\ (forall V sa sn snot (sb : binop -> V -> V -> V) sp si sbt sc scs, obeys_identities sb ->
          eval V sa sn snot sb sp si sbt sc scs (norm e) = eval V sa sn snot sb sp si sbt sc scs e)
    /\ adjacency_ok ts = true.
Proof.
  intros c t H. unfold frag02 in H.
  destruct (rtoks c t) as [ts|] eqn:R; [|discriminate]. destruct (to_expr c t) as [e|] eqn:X; [|discriminate].
  apply andb_prop in H as [H L]. apply andb_prop in H as [H C]. apply andb_prop in H as [S N]. apply negb_true_iff in S.
  exists ts, e. split; [reflexivity|]. split; [reflexivity|]. apply (C02_universal c t ts e R X S N C L).
Qed.

(* the parser is deterministic across fuels *)
Lemma parse_det T f1 f2 k ts x y : parse T f1 k ts = Some x -> parse T f2 k ts = Some y -> x = y.
Proof.
  intros H1 H2.
  pose proof (mono_p T f1 (max f1 f2) k ts x (Nat.le_max_l _ _) H1) as A.
  pose proof (mono_p T f2 (max f1 f2) k ts y (Nat.le_max_r _ _) H2) as B. congruence.
Qed.

(* ---- a concrete interpretation over Z obeying the identities (used for the refutation and non-vacuity) ---- *)
Definition z_bin (o : binop) (a b : Z) : Z :=
  match o with
  | BA OAdd => a + b | BA OSub => a - b | BA OMul => a * b | BA ODiv => a * b   (* any law-abiding reading of / *)
  | BA OShl => Z.shiftl a b | BA OShr => Z.shiftr a b
  | BC CEq => if Z.eqb a b then 1 else 0 | BC CGt => if Z.ltb b a then 1 else 0 | BC _ => 0
  | BB BAnd => a * b | BB BOr => a + b | BB BXor => Z.lxor a b
  end%Z.
Lemma z_bin_laws : obeys_identities z_bin.
Proof.
  intros o o2 H a b c.
  destruct o as [x|x|x], o2 as [y|y|y]; try discriminate; destruct x, y; try discriminate; cbn; try ring.
  symmetry. apply Z.lxor_assoc.
Qed.
Definition z_eval (env : string -> Z) : expr -> Z :=
  eval Z env Z.opp (fun x => (1 - x)%Z) z_bin (fun _ x => x) (fun _ x _ => x) (fun x _ _ => x) (fun _ _ => 0%Z) (fun _ _ => 0%Z).
