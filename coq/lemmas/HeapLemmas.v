(* Proofs about the heap model (Heap.v): the frame theorem behind C01. *)
From PV Require Import Base Heap.
From Coq Require Import Lia.
Close Scope string_scope. Close Scope list_scope. Open Scope list_scope.

(* ---------- lists ---------- *)
Lemma upd_length {A} : forall (l : list A) i x, length (upd l i x) = length l.
Proof. induction l as [|y l IH]; intros [|i] x; cbn; auto. Qed.

Lemma upd_app_ge {A} : forall (l1 l2 : list A) i x, length l1 <= i ->
  upd (l1 ++ l2) i x = l1 ++ upd l2 (i - length l1) x.
Proof.
  induction l1 as [|y l1 IH]; intros l2 i x H; cbn in *.
  - now rewrite Nat.sub_0_r.
  - destruct i as [|i]; [lia|]. cbn. f_equal. apply IH. lia.
Qed.

Lemma nth_error_upd_same {A} : forall (l : list A) i x, i < length l -> nth_error (upd l i x) i = Some x.
Proof. induction l as [|y l IH]; intros [|i] x H; cbn in *; try lia; auto. apply IH. lia. Qed.

Lemma nth_error_upd_other {A} : forall (l : list A) i j x, i <> j -> nth_error (upd l i x) j = nth_error l j.
Proof.
  induction l as [|y l IH]; intros [|i] [|j] x H; cbn; auto; try congruence.
Qed.

Lemma Forall_upd {A} (P : A -> Prop) : forall (l : list A) i x, Forall P l -> P x -> Forall P (upd l i x).
Proof.
  induction l as [|y l IH]; intros [|i] x Hl Hx; cbn; auto; inversion Hl; subst; constructor; auto.
Qed.

Lemma nth_error_Forall {A} (P : A -> Prop) (l : list A) i x : Forall P l -> nth_error l i = Some x -> P x.
Proof. intros H E. rewrite Forall_forall in H. apply H. eapply nth_error_In; eauto. Qed.

(* ---------- well-formedness as a proposition ---------- *)
Definition wf (w : world) : Prop :=
  Forall (fun ob => obj_ok (length (cells w)) ob = true) (objs w)
  /\ Forall (fun c => cell_ok (length (objs w)) c = true) (cells w).

Lemma wfb_wf w : wfb w = true <-> wf w.
Proof.
  unfold wfb, wf. rewrite andb_true_iff, !forallb_forall, !Forall_forall. tauto.
Qed.

Lemma wf_empty : wf empty_world.
Proof. split; constructor. Qed.

Lemma item_ok_mono n m i : n <= m -> item_ok n i = true -> item_ok m i = true.
Proof.
  destruct i as [s|o]; cbn [item_ok]; auto. intros H1 H2. apply Nat.ltb_lt in H2. apply Nat.ltb_lt. lia.
Qed.
Lemma items_ok_mono n m l : n <= m -> items_ok n l = true -> items_ok m l = true.
Proof.
  unfold items_ok. rewrite !forallb_forall. intros H Hl x Hx. eapply item_ok_mono; eauto.
Qed.
Lemma obj_ok_mono n m ob : n <= m -> obj_ok n ob = true -> obj_ok m ob = true.
Proof.
  unfold obj_ok. rewrite !forallb_forall. intros H Hl x Hx. specialize (Hl x Hx).
  rewrite Nat.ltb_lt in *. lia.
Qed.

(* ---------- extension: the old world is a prefix of the new one ---------- *)
Definition ext (B w : world) : Prop :=
  exists so sc, objs w = objs B ++ so /\ cells w = cells B ++ sc.

Lemma ext_refl w : ext w w.
Proof. exists [], []. now rewrite !app_nil_r. Qed.
Lemma ext_trans a b c : ext a b -> ext b c -> ext a c.
Proof.
  intros (so & sc & Ho & Hc) (so' & sc' & Ho' & Hc'). exists (so ++ so'), (sc ++ sc').
  rewrite Ho', Hc', Ho, Hc, !app_assoc. auto.
Qed.
Lemma ext_len B w : ext B w -> length (objs B) <= length (objs w) /\ length (cells B) <= length (cells w).
Proof. intros (so & sc & -> & ->). rewrite !app_length. lia. Qed.

(* ---------- primitives: extension ---------- *)
Lemma alloc_cell_ext B w c : ext B w -> ext B (fst (alloc_cell w c)).
Proof.
  intros (so & sc & Ho & Hc). exists so, (sc ++ [c]). cbn. rewrite Hc, app_assoc. auto.
Qed.
Lemma alloc_obj_ext B w o : ext B w -> ext B (fst (alloc_obj w o)).
Proof.
  intros (so & sc & Ho & Hc). exists (so ++ [o]), sc. cbn. rewrite Ho, app_assoc. auto.
Qed.
Lemma write_cell_ext B w c v w' : ext B w -> length (cells B) <= c -> write_cell w c v = Some w' -> ext B w'.
Proof.
  intros (so & sc & Ho & Hc) Hge. unfold write_cell. destruct (Nat.ltb c (length (cells w))); [|discriminate].
  intros [= <-]. exists so, (upd sc (c - length (cells B)) v). cbn. split; auto.
  rewrite Hc. apply upd_app_ge; auto.
Qed.
Lemma set_attr_ext B w o a c w' : ext B w -> length (objs B) <= o -> set_attr w o a c = Some w' -> ext B w'.
Proof.
  intros (so & sc & Ho & Hc) Hge. unfold set_attr. destruct (nth_error (objs w) o) as [ob|]; [|discriminate].
  intros [= <-]. eexists (upd so (o - length (objs B)) _), sc. cbn. split; auto.
  rewrite Ho. apply upd_app_ge; auto.
Qed.

(* ---------- primitives: well-formedness ---------- *)
Lemma alloc_cell_wf w c : wf w -> cell_ok (length (objs w)) c = true -> wf (fst (alloc_cell w c)).
Proof.
  intros [Ho Hc] Hk. split; cbn.
  - eapply Forall_impl; [|exact Ho]. intros ob H. eapply obj_ok_mono; [|exact H]. rewrite app_length. lia.
  - apply Forall_app. split; auto.
Qed.
Lemma alloc_obj_wf w o : wf w -> obj_ok (length (cells w)) o = true -> wf (fst (alloc_obj w o)).
Proof.
  intros [Ho Hc] Hk. split; cbn.
  - apply Forall_app. split; auto.
  - eapply Forall_impl; [|exact Hc]. intros c H. unfold cell_ok in *. eapply items_ok_mono; [|exact H].
    rewrite app_length. lia.
Qed.
Lemma write_cell_wf w c v w' : wf w -> cell_ok (length (objs w)) v = true -> write_cell w c v = Some w' -> wf w'.
Proof.
  intros [Ho Hc] Hk. unfold write_cell. destruct (Nat.ltb c (length (cells w))); [|discriminate].
  intros [= <-]. split; cbn.
  - rewrite upd_length. auto.
  - apply Forall_upd; auto.
Qed.

Lemma set_assoc_ok n a c l :
  forallb (fun ac : attr * nat => Nat.ltb (snd ac) n) l = true -> c < n ->
  forallb (fun ac : attr * nat => Nat.ltb (snd ac) n) (set_assoc a c l) = true.
Proof.
  intros Hl Hc. induction l as [|[b d] l IH]; cbn in *.
  - rewrite andb_true_r. now apply Nat.ltb_lt.
  - apply andb_prop in Hl as [H1 H2]. destruct (String.eqb a b); cbn.
    + rewrite H2, andb_true_r. now apply Nat.ltb_lt.
    + rewrite H1. cbn. auto.
Qed.

Lemma set_attr_wf w o a c w' : wf w -> c < length (cells w) -> set_attr w o a c = Some w' -> wf w'.
Proof.
  intros [Ho Hc] Hk. unfold set_attr. destruct (nth_error (objs w) o) as [ob|] eqn:E; [|discriminate].
  intros [= <-]. split; cbn.
  - apply Forall_upd; auto. unfold obj_ok. cbn. apply set_assoc_ok; auto.
    apply (nth_error_Forall _ _ _ _ Ho E).
  - rewrite upd_length. auto.
Qed.

(* lengths after the primitives *)
Lemma set_attr_len w o a c w' : set_attr w o a c = Some w' ->
  length (objs w') = length (objs w) /\ cells w' = cells w.
Proof.
  unfold set_attr. destruct (nth_error (objs w) o); [|discriminate]. intros [= <-]. cbn. now rewrite upd_length.
Qed.
Lemma write_cell_len w c v w' : write_cell w c v = Some w' ->
  objs w' = objs w /\ length (cells w') = length (cells w).
Proof.
  unfold write_cell. destruct (Nat.ltb c (length (cells w))); [|discriminate]. intros [= <-]. cbn. now rewrite upd_length.
Qed.

(* ---------- the observation of an old object does not change under extension ---------- *)
Lemma obs_atom f w s : obs f w (IAtom s) = TAtom s.
Proof. destruct f; reflexivity. Qed.

Lemma obs_ext B w : wf B -> ext B w ->
  forall fuel o, o < length (objs B) -> obs fuel w (IRef o) = obs fuel B (IRef o).
Proof.
  intros [WO WC] (so & sc & Ho & Hc). induction fuel as [|f IH]; intros o Hlt; [reflexivity|].
  cbn [obs]. rewrite Ho, nth_error_app1 by auto.
  destruct (nth_error (objs B) o) as [ob|] eqn:E; [|reflexivity].
  f_equal. apply map_ext_in. intros [a c] Hin. cbn [fst snd]. f_equal.
  pose proof (nth_error_Forall _ _ _ _ WO E) as Hob. unfold obj_ok in Hob. rewrite forallb_forall in Hob.
  specialize (Hob _ Hin). cbn in Hob. apply Nat.ltb_lt in Hob.
  rewrite Hc, nth_error_app1 by auto.
  destruct (nth_error (cells B) c) as [cl|] eqn:Ec; [|reflexivity].
  f_equal. f_equal. apply map_ext_in. intros it Hit.
  pose proof (nth_error_Forall _ _ _ _ WC Ec) as Hcl. unfold cell_ok, items_ok in Hcl. rewrite forallb_forall in Hcl.
  specialize (Hcl _ Hit). destruct it as [s|o']; [now rewrite !obs_atom|].
  cbn in Hcl. apply Nat.ltb_lt in Hcl. apply IH. auto.
Qed.

(* ---------- attribute maps ---------- *)
Lemma lookup_set_assoc_same a c l : lookup_attr a (set_assoc a c l) = Some c.
Proof.
  induction l as [|[b d] l IH]; cbn.
  - now rewrite String.eqb_refl.
  - destruct (String.eqb a b) eqn:E; cbn; rewrite E; auto.
Qed.
Lemma lookup_set_assoc_other a b c l : a <> b -> lookup_attr b (set_assoc a c l) = lookup_attr b l.
Proof.
  intros N. induction l as [|[x d] l IH]; cbn.
  - apply String.eqb_neq in N. rewrite String.eqb_sym in N. now rewrite N.
  - destruct (String.eqb a x) eqn:E; cbn.
    + apply String.eqb_eq in E. subst x. assert (String.eqb b a = false) as -> by (apply String.eqb_neq; congruence). auto.
    + destruct (String.eqb b x); auto.
Qed.

Lemma mem_str_In a l : mem_str a l = true <-> In a l.
Proof.
  induction l as [|x l IH]; cbn; [split; [discriminate|tauto]|].
  rewrite orb_true_iff, IH, String.eqb_eq. split; intros [H|H]; auto.
Qed.

Lemma get_attr_set_same w o a k w' : set_attr w o a k = Some w' -> get_attr_cell w' o a = Some k.
Proof.
  unfold set_attr, get_attr_cell. destruct (nth_error (objs w) o) as [ob|] eqn:E; [|discriminate].
  intros [= <-]. cbn. rewrite nth_error_upd_same by (apply nth_error_Some; congruence).
  cbn. apply lookup_set_assoc_same.
Qed.
Lemma get_attr_set_other w o a k w' o' b : set_attr w o a k = Some w' -> (o' <> o \/ a <> b) ->
  get_attr_cell w' o' b = get_attr_cell w o' b.
Proof.
  unfold set_attr, get_attr_cell. destruct (nth_error (objs w) o) as [ob|] eqn:E; [|discriminate].
  intros [= <-] H. cbn. destruct (Nat.eq_dec o' o) as [->|N].
  - rewrite nth_error_upd_same by (apply nth_error_Some; congruence). rewrite E. cbn.
    destruct H as [H|H]; [congruence|]. now apply lookup_set_assoc_other.
  - rewrite nth_error_upd_other by auto. reflexivity.
Qed.

(* the cell of attribute a of object n was allocated after the base world B *)
Definition fresh_in (w : world) (n c0 : nat) (a : attr) : Prop :=
  forall c, get_attr_cell w n a = Some c -> c0 <= c.

Lemma read_attr_some w o a c : read_attr w o a = Some c ->
  exists k, get_attr_cell w o a = Some k /\ nth_error (cells w) k = Some c.
Proof. unfold read_attr. destruct (get_attr_cell w o a) as [k|]; [|discriminate]. eauto. Qed.

Lemma get_attr_cell_lt w o a k : wf w -> get_attr_cell w o a = Some k -> k < length (cells w).
Proof.
  intros [WO _]. unfold get_attr_cell. destruct (nth_error (objs w) o) as [ob|] eqn:E; [|discriminate].
  intros H. pose proof (nth_error_Forall _ _ _ _ WO E) as Hob. unfold obj_ok in Hob. rewrite forallb_forall in Hob.
  assert (In (a, k) (oattrs ob)) as Hin.
  { clear -H. induction (oattrs ob) as [|[b d] l IH]; cbn in *; [discriminate|].
    destruct (String.eqb a b) eqn:Eb; [apply String.eqb_eq in Eb; inversion H; subst; auto | auto]. }
  specialize (Hob _ Hin). now apply Nat.ltb_lt in Hob.
Qed.

Lemma read_attr_none_fresh w o a c0 : wf w -> read_attr w o a = None -> fresh_in w o c0 a.
Proof.
  intros W H c Hc. exfalso. unfold read_attr in H. rewrite Hc in H.
  apply nth_error_None in H. pose proof (get_attr_cell_lt _ _ _ _ W Hc). lia.
Qed.

(* ---------- copy.copy + __copy__ ---------- *)
Lemma recopy_attrs_cons w n a r :
  recopy_attrs w n (a :: r) =
  match read_attr w n a with
  | None => recopy_attrs w n r
  | Some c => match set_attr (fst (alloc_cell w c)) n a (length (cells w)) with
              | None => None
              | Some w2 => recopy_attrs w2 n r
              end
  end.
Proof. reflexivity. Qed.

Lemma recopy_attrs_inv B n : length (objs B) <= n ->
  forall l w w' (D : attr -> Prop), ext B w -> wf w -> (forall a, D a -> fresh_in w n (length (cells B)) a) ->
  recopy_attrs w n l = Some w' ->
  ext B w' /\ wf w' /\ (forall a, D a \/ In a l -> fresh_in w' n (length (cells B)) a).
Proof.
  intros Hn. induction l as [|a l IH]; intros w w' D He Hw HD H; [cbn in H | rewrite recopy_attrs_cons in H].
  - inversion H; subst. split; [auto|split; [auto|]]. intros a [Ha|[]]. auto.
  - destruct (read_attr w n a) as [c|] eqn:R.
    + destruct (set_attr (fst (alloc_cell w c)) n a (length (cells w))) as [w2|] eqn:S2; [|discriminate].
      destruct (read_attr_some _ _ _ _ R) as (k & Hk & Hc).
      assert (Wc : cell_ok (length (objs w)) c = true) by (destruct Hw as [_ WC]; apply (nth_error_Forall _ _ _ _ WC Hc)).
      pose proof (alloc_cell_wf w c Hw Wc) as W1. pose proof (alloc_cell_ext B w c He) as E1.
      assert (W2 : wf w2). { eapply set_attr_wf; [exact W1| |exact S2]. cbn. rewrite app_length. cbn. lia. }
      assert (E2 : ext B w2) by (eapply set_attr_ext; eauto).
      destruct (IH w2 w' (fun b => D b \/ b = a) E2 W2) as (E3 & W3 & F3); auto.
      * intros b [Hb| ->] c' Hc'.
        -- destruct (string_dec a b) as [->|N].
           ++ rewrite (get_attr_set_same _ _ _ _ _ S2) in Hc'. inversion Hc'; subst. apply ext_len in He. lia.
           ++ rewrite (get_attr_set_other _ _ _ _ _ n b S2) in Hc' by auto. apply (HD b Hb c'). exact Hc'.
        -- rewrite (get_attr_set_same _ _ _ _ _ S2) in Hc'. inversion Hc'; subst. apply ext_len in He. lia.
      * split; [auto|split; [auto|]]. intros b [Hb|[->|Hb]]; apply F3; auto.
    + destruct (IH w w' (fun b => D b \/ b = a) He Hw) as (E3 & W3 & F3); auto.
      * intros b [Hb| ->]; auto. apply read_attr_none_fresh; auto.
      * split; [auto|split; [auto|]]. intros b [Hb|[->|Hb]]; apply F3; auto.
Qed.

Lemma copy_obj_inv w o R w1 n : wf w -> copy_obj w o R = Some (w1, n) ->
  n = length (objs w) /\ ext w w1 /\ wf w1 /\ (forall a, In a R -> fresh_in w1 n (length (cells w)) a).
Proof.
  intros W. unfold copy_obj. destruct (nth_error (objs w) o) as [ob|] eqn:E; [|discriminate].
  cbn. destruct (recopy_attrs _ _ R) as [w2|] eqn:RC; [|discriminate]. intros [= <- <-].
  assert (Wob : obj_ok (length (cells w)) ob = true) by (destruct W as [WO _]; apply (nth_error_Forall _ _ _ _ WO E)).
  pose proof (alloc_obj_wf w ob W Wob) as W1. pose proof (alloc_obj_ext w w ob (ext_refl w)) as E1.
  destruct (recopy_attrs_inv w (length (objs w)) (le_n _) R (fst (alloc_obj w ob)) w2 (fun _ => False) E1 W1) as (E2 & W2 & F2); auto.
  - intros a [].
  - split; [auto|split; [auto|split; [auto|]]]. intros a Ha. apply F2. auto.
Qed.

(* ---------- effects ---------- *)
Definition Inv (B w : world) (self : nat) (R : list attr) : Prop :=
  ext B w /\ wf w /\ length (objs B) <= self /\ (forall a, In a R -> fresh_in w self (length (cells B)) a).

Lemma rebind_inv B w self R a p w' :
  Inv B w self R -> items_ok (length (objs w)) (items p) = true ->
  set_attr (fst (alloc_cell w p)) self a (length (cells w)) = Some w' -> Inv B w' self R.
Proof.
  intros (He & Hw & Hs & HF) OK S2.
  pose proof (alloc_cell_wf w p Hw OK) as W1. pose proof (alloc_cell_ext B w p He) as E1.
  assert (W2 : wf w'). { eapply set_attr_wf; [exact W1| |exact S2]. cbn. rewrite app_length. cbn. lia. }
  assert (E2 : ext B w') by (eapply set_attr_ext; eauto).
  split; [|split; [|split]]; auto. intros b Hb c Hc.
  destruct (string_dec a b) as [<-|N].
  + rewrite (get_attr_set_same _ _ _ _ _ S2) in Hc. inversion Hc; subst. apply ext_len in He. lia.
  + rewrite (get_attr_set_other _ _ _ _ _ self b S2) in Hc by auto. apply (HF b Hb c). exact Hc.
Qed.

Lemma run_eff_inv B w self R args e ch w' :
  Inv B w self R -> (negb (fst ch) || eff_safe R e) = true -> run_eff w self args e ch = Some w' -> Inv B w' self R.
Proof.
  intros HI Hq. pose proof HI as (He & Hw & Hs & HF). unfold run_eff. destruct (fst ch) eqn:Fi; cbn [negb].
  2:{ intros [= <-]. auto. }
  cbn in Hq. destruct (items_ok (length (objs w)) (items (snd ch))) eqn:OK; cbn [negb]; [|discriminate].
  unfold eff_safe in Hq. destruct (etgt e) eqn:Et; try discriminate. cbn [target].
  destruct (ekd e) eqn:Ek; try discriminate.
  - (* rebind on self *)
    cbn. intros S2. eapply rebind_inv; eauto.
  - (* guarded rebind on self *)
    destruct (attr_unset w self (eattr e)); [|discriminate]. cbn. intros S2. eapply rebind_inv; eauto.
  - (* in place on a re-created attribute of self *)
    apply mem_str_In in Hq. destruct (get_attr_cell w self (eattr e)) as [c|] eqn:G; [|discriminate].
    intros Wc. pose proof (HF _ Hq c G) as Hge.
    assert (E2 : ext B w') by (eapply write_cell_ext; eauto).
    assert (W2 : wf w') by (eapply write_cell_wf; eauto).
    destruct (write_cell_len _ _ _ _ Wc) as [Ho _].
    split; [|split; [|split]]; auto. intros a Ha c' Hc'. apply (HF a Ha c'). unfold get_attr_cell in *. now rewrite Ho in Hc'.
Qed.

Lemma run_effs_inv B self R args : forall es chs w w',
  Inv B w self R -> fired_safe R es chs = true -> run_effs w self args es chs = Some w' -> Inv B w' self R.
Proof.
  induction es as [|e es IH]; intros [|ch chs] w w' HI Hq H; cbn in H; try discriminate.
  - inversion H; subst; auto.
  - cbn in Hq. apply andb_prop in Hq as [Q1 Q2].
    destruct (run_eff w self args e ch) as [w1|] eqn:R1; [|discriminate].
    eapply IH; [|exact Q2|exact H]. eapply run_eff_inv; eauto.
Qed.

(* ---------- new objects ---------- *)
Lemma alloc_attrs_inv B : forall l w w' m, ext B w -> wf w -> alloc_attrs w l = Some (w', m) ->
  ext B w' /\ wf w' /\ objs w' = objs w /\ length (cells w) <= length (cells w')
  /\ forallb (fun ac : attr * nat => Nat.ltb (snd ac) (length (cells w'))) m = true.
Proof.
  induction l as [|[a c] l IH]; intros w w' m He Hw H; cbn in H.
  - inversion H; subst. split; [|split; [|split; [|split]]]; auto.
  - destruct (items_ok (length (objs w)) (items c)) eqn:OK; cbn [negb] in H; [|discriminate].
    cbn in H. destruct (alloc_attrs _ l) as [[w2 m2]|] eqn:A; [|discriminate]. inversion H; subst.
    pose proof (alloc_cell_wf w c Hw OK) as W1. pose proof (alloc_cell_ext B w c He) as E1.
    destruct (IH _ _ _ E1 W1 A) as (E2 & W2 & O2 & L2 & F2). cbn in O2, L2. rewrite app_length in L2. cbn in L2.
    split; [|split; [|split; [|split]]]; auto; try lia. cbn [forallb snd]. rewrite F2, andb_true_r. apply Nat.ltb_lt. lia.
Qed.

Lemma new_obj_inv B w cls l w' n : ext B w -> wf w -> new_obj w cls l = Some (w', n) -> ext B w' /\ wf w'.
Proof.
  intros He Hw. unfold new_obj. destruct (alloc_attrs w l) as [[w1 m]|] eqn:A; [|discriminate].
  intros [= <- <-]. destruct (alloc_attrs_inv B _ _ _ _ He Hw A) as (E1 & W1 & _ & _ & F1).
  split; [now apply alloc_obj_ext | now apply alloc_obj_wf].
Qed.

(* ---------- one quiet step extends the world ---------- *)
Lemma fired_ok_true R : forall es chs, fired_ok true R es chs = fired_safe R es chs.
Proof. induction es as [|e es IH]; intros [|ch chs]; cbn; auto. now rewrite IH. Qed.

Lemma run_effs_unfired R self args : forall es chs w w',
  fired_ok false R es chs = true -> run_effs w self args es chs = Some w' -> w' = w.
Proof.
  induction es as [|e es IH]; intros [|ch chs] w w' Q H; cbn in H; try discriminate.
  - now inversion H.
  - cbn in Q. apply andb_prop in Q as [Q1 Q2]. rewrite orb_false_r in Q1.
    unfold run_eff in H. rewrite Q1 in H. cbn in H. eapply IH; eauto.
Qed.

Lemma exec_body_ext cpf c m w recv args chs w2 self :
  wf w -> fired_ok cpf (crecopy c) (meffs m) chs = true -> exec_body cpf c m w recv args chs = Some (w2, self) ->
  ext w w2 /\ wf w2.
Proof.
  intros W Q H. unfold exec_body in H. destruct cpf.
  - destruct (copy_obj w recv (crecopy c)) as [[w1 s1]|] eqn:CP; [|discriminate].
    destruct (copy_obj_inv _ _ _ _ _ W CP) as (-> & E1 & W1 & F1).
    destruct (run_effs w1 _ args (meffs m) chs) as [w2'|] eqn:RE; [|discriminate]. inversion H; subst.
    assert (I1 : Inv w w1 (length (objs w)) (crecopy c)) by (split; [|split; [|split]]; auto).
    rewrite fired_ok_true in Q.
    destruct (run_effs_inv _ _ _ _ _ _ _ _ I1 Q RE) as (E2 & W2 & _ & _). auto.
  - destruct (run_effs w recv args (meffs m) chs) as [w2'|] eqn:RE; [|discriminate]. inversion H; subst.
    rewrite (run_effs_unfired _ _ _ _ _ _ _ Q RE). split; auto using ext_refl.
Qed.

Lemma finish_ext w self r wrap w' r' : wf w -> finish w self r wrap = Some (w', r') -> ext w w' /\ wf w'.
Proof.
  intros W H. destruct r; cbn in H.
  - inversion H; subst. split; auto using ext_refl.
  - eapply new_obj_inv; eauto using ext_refl.
  - destruct (deref w self a); inversion H; subst. split; auto using ext_refl.
  - discriminate.
Qed.

Theorem quiet_step_ext T w s w' r :
  wf w -> step_quiet T w s = true -> exec_step T w s = Some (w', r) -> ext w w' /\ wf w'.
Proof.
  intros W Q H. destruct s as [cls l|recv mn args chs wrap]; cbn in H, Q; [|unfold exec_call in H].
  - eapply new_obj_inv; eauto using ext_refl.
  - destruct (lookup_call T w recv mn) as [[c m]|] eqn:LC; [|discriminate].
    destruct (forallb _ args); cbn [negb] in H; [|discriminate].
    destruct (mret m) eqn:MR.
    + destruct (exec_body _ c m w recv args chs) as [[w2 self]|] eqn:EB; [|discriminate].
      destruct (exec_body_ext _ _ _ _ _ _ _ _ _ W Q EB) as [E2 W2].
      destruct (finish_ext _ _ _ _ _ _ W2 H) as [E3 W3]. split; eauto using ext_trans.
    + destruct (exec_body _ c m w recv args chs) as [[w2 self]|] eqn:EB; [|discriminate].
      destruct (exec_body_ext _ _ _ _ _ _ _ _ _ W Q EB) as [E2 W2].
      destruct (finish_ext _ _ _ _ _ _ W2 H) as [E3 W3]. split; eauto using ext_trans.
    + destruct (exec_body _ c m w recv args chs) as [[w2 self]|] eqn:EB; [|discriminate].
      destruct (exec_body_ext _ _ _ _ _ _ _ _ _ W Q EB) as [E2 W2].
      destruct (finish_ext _ _ _ _ _ _ W2 H) as [E3 W3]. split; eauto using ext_trans.
    + apply andb_prop in Q as [Q1 Q2].
      destruct (exec_body _ c m w recv args (firstn _ chs)) as [[w2 self]|] eqn:EB; [|discriminate].
      destruct (exec_body_ext _ _ _ _ _ _ _ _ _ W Q1 EB) as [E2 W2].
      destruct (deref w2 self a) as [o|]; [|discriminate].
      destruct (lookup_call T w2 o m0) as [[c2 k2]|]; [|discriminate].
      destruct (exec_body _ c2 k2 w2 o args (skipn _ chs)) as [[w3 s3]|] eqn:EB2; [|discriminate].
      destruct (exec_body_ext _ _ _ _ _ _ _ _ _ W2 Q2 EB2) as [E3 W3].
      destruct (finish_ext _ _ _ _ _ _ W3 H) as [E4 W4]. split; eauto using ext_trans.
Qed.

(* ---------- the frame theorem, for an arbitrary table ---------- *)
Theorem quiet_history_preserved T : forall h w, wf w -> hist_quiet T w h = true -> preserved T w h.
Proof.
  induction h as [|s h IH]; intros w W Q; cbn in *; auto.
  destruct (exec_step T w s) as [[w1 r]|] eqn:E; auto.
  apply andb_prop in Q as [Q1 Q2]. destruct (quiet_step_ext _ _ _ _ _ W Q1 E) as [E1 W1].
  split; [|apply IH; auto]. intros fuel o Ho. apply obs_ext; auto.
Qed.

(* later calls do not change it either: the observation in every later world equals the one at creation *)
Theorem quiet_history_ext T : forall h w, wf w -> hist_quiet T w h = true ->
  Forall (fun w' => ext w w' /\ wf w') (run T w h).
Proof.
  induction h as [|s h IH]; intros w W Q; cbn in *; [constructor|].
  destruct (exec_step T w s) as [[w1 r]|] eqn:E; [|constructor].
  apply andb_prop in Q as [Q1 Q2]. destruct (quiet_step_ext _ _ _ _ _ W Q1 E) as [E1 W1].
  constructor; auto. eapply Forall_impl; [|apply IH; eauto]. intros w' [E' W']. split; auto. eapply ext_trans; eauto.
Qed.

(* ---------- static reading: pairs of a safe list ---------- *)
Lemma fired_safe_static R : forall es chs, forallb (eff_safe R) es = true -> fired_safe R es chs = true.
Proof.
  induction es as [|e es IH]; intros [|ch chs] H; cbn in *; auto.
  apply andb_prop in H as [H1 H2]. rewrite H1, orb_true_r. cbn. auto.
Qed.

Lemma mem_pair_In p l : mem_pair p l = true -> In p l.
Proof.
  induction l as [|x l IH]; cbn; [discriminate|]. intros H. apply orb_prop in H as [H|H]; auto.
  left. unfold pair_eqb in H. apply andb_prop in H as [H1 H2]. apply String.eqb_eq in H1, H2.
  destruct p, x; cbn in *; congruence.
Qed.

Lemma fired_ok_static R : forall es chs, forallb (eff_safe R) es = true -> fired_ok true R es chs = true.
Proof. intros es chs H. rewrite fired_ok_true. now apply fired_safe_static. Qed.

Lemma meth_safe_quiet T w recv mn args chs wrap c m :
  lookup_call T w recv mn = Some (c, m) -> meth_safe c m = true -> immutable_false w recv = false ->
  step_quiet T w (SCall recv mn args chs wrap) = true.
Proof.
  intros LC MS IM. cbn. rewrite LC. unfold meth_safe in MS. apply andb_prop in MS as [MS M3]. apply andb_prop in MS as [M1 M2].
  assert (CN : copies_now w recv m = true) by (unfold copies_now; rewrite M1, IM; reflexivity).
  destruct (mret m); try discriminate; rewrite CN; now apply fired_ok_static.
Qed.

Lemma uses_quiet T P w s : forallb (pair_safe T) P = true -> step_uses P w s = true -> step_quiet T w s = true.
Proof.
  intros HP. destruct s as [|recv mn args chs wrap]; cbn [step_uses]; auto.
  destruct (lookup_call T w recv mn) as [[c m]|] eqn:LC; [|cbn; now rewrite LC].
  unfold lookup_call in LC. destruct (nth_error (objs w) recv) as [ob|] eqn:E; [|discriminate].
  intros H. apply andb_prop in H as [H1 H2]. apply negb_true_iff in H2.
  apply mem_pair_In in H1. rewrite forallb_forall in HP. specialize (HP _ H1). unfold pair_safe in HP. cbn in HP.
  destruct (find_class T (ocls ob)) as [c'|] eqn:FC; [|discriminate].
  destruct (find_meth (cmeths c') mn) as [m'|] eqn:FM; [|discriminate]. inversion LC; subst.
  eapply meth_safe_quiet; eauto. unfold lookup_call. now rewrite E, FC, FM.
Qed.

Theorem uses_history_quiet T P : forallb (pair_safe T) P = true ->
  forall h w, hist_uses T P w h = true -> hist_quiet T w h = true.
Proof.
  intros HP. induction h as [|s h IH]; intros w H; cbn in *; auto.
  destruct (exec_step T w s) as [[w1 r]|]; auto. apply andb_prop in H as [H1 H2].
  rewrite (uses_quiet _ _ _ _ HP H1). cbn. auto.
Qed.

Lemma safe_pairs_safe T : forallb (pair_safe T) (safe_pairs T) = true.
Proof. unfold safe_pairs. apply forallb_forall. intros p H. apply filter_In in H. tauto. Qed.

Lemma subset_pairs_safe T P : subset_pairs P (safe_pairs T) = true -> forallb (pair_safe T) P = true.
Proof.
  unfold subset_pairs. rewrite !forallb_forall. intros H p Hp. specialize (H p Hp). apply mem_pair_In in H.
  apply filter_In in H. tauto.
Qed.

(* a wholly safe table: every history whose receivers are not in immutable=False mode *)
Lemma find_class_In T c k : find_class T c = Some k -> In k T.
Proof. induction T as [|x T IH]; cbn; [discriminate|]. destruct (String.eqb (cname x) c); [intros [= ->]; auto | auto]. Qed.
Lemma find_meth_In ms m k : find_meth ms m = Some k -> In k ms.
Proof. induction ms as [|x ms IH]; cbn; [discriminate|]. destruct (String.eqb (mname x) m); [intros [= ->]; auto | auto]. Qed.

Definition step_immutable (w : world) (s : step) : bool :=
  match s with SNew _ _ => true | SCall recv _ _ _ _ => negb (immutable_false w recv) end.
Fixpoint hist_immutable (T : table) (w : world) (h : list step) : bool :=
  match h with
  | [] => true
  | s :: r => match exec_step T w s with None => true | Some (w1, _) => step_immutable w s && hist_immutable T w1 r end
  end.

Theorem safe_table_quiet T : safeb T = true -> forall h w, hist_immutable T w h = true -> hist_quiet T w h = true.
Proof.
  intros HS. induction h as [|s h IH]; intros w H; cbn [hist_quiet hist_immutable] in *; auto.
  destruct (exec_step T w s) as [[w1 r]|]; auto. apply andb_prop in H as [H1 H2]. rewrite IH, andb_true_r by auto.
  destruct s as [|recv mn args chs wrap]; auto. cbn in H1. apply negb_true_iff in H1.
  destruct (lookup_call T w recv mn) as [[c m]|] eqn:LC; [|cbn; now rewrite LC].
  eapply meth_safe_quiet; eauto.
  unfold lookup_call in LC. destruct (nth_error (objs w) recv) as [ob|]; [|discriminate].
  destruct (find_class T (ocls ob)) as [c'|] eqn:FC; [|discriminate].
  destruct (find_meth (cmeths c') mn) as [m'|] eqn:FM; [|discriminate]. inversion LC; subst.
  unfold safeb in HS. rewrite forallb_forall in HS. specialize (HS _ (find_class_In _ _ _ FC)).
  rewrite forallb_forall in HS. exact (HS _ (find_meth_In _ _ _ FM)).
Qed.

Theorem immutability_generic T : safeb T = true ->
  forall h w, wf w -> hist_immutable T w h = true -> preserved T w h.
Proof. intros HS h w W H. apply quiet_history_preserved; auto. now apply safe_table_quiet. Qed.

(* reading [preserved] at a given step *)
Lemma preserved_nth T : forall h w i wi wj, preserved T w h ->
  nth_error (w :: run T w h) i = Some wi -> nth_error (run T w h) i = Some wj ->
  forall fuel o, o < length (objs wi) -> obs fuel wj (IRef o) = obs fuel wi (IRef o).
Proof.
  induction h as [|s h IH]; intros w i wi wj P Hi Hj; [destruct i; discriminate|].
  cbn in P, Hj, Hi. destruct (exec_step T w s) as [[w1 r]|]; [|destruct i; discriminate].
  destruct P as [P1 P2]. destruct i as [|i]; cbn in Hi, Hj.
  - inversion Hi; inversion Hj; subst. exact P1.
  - eapply IH; eauto.
Qed.
