(* ReplaceLemmas.v — proofs about subst / rep / covered on the shared term AST (C15). *)
From PV Require Import Base Crit gen.TermsTable Terms gen.C15Table Replace lemmas.ReplaceEqs.
From Coq Require Import Lia Arith Setoid.

Scheme term_mind15 := Induction for term Sort Prop
  with tlist_mind15 := Induction for tlist Sort Prop
  with wlist_mind15 := Induction for wlist Sort Prop
  with oterm_mind15 := Induction for oterm Sort Prop.
Combined Scheme term_all_ind15 from term_mind15, tlist_mind15, wlist_mind15, oterm_mind15.

(* ------------------------------------------------------------------------------------------ *)
(* Table.__eq__ on the modelled attributes is Leibniz equality                                 *)
(* ------------------------------------------------------------------------------------------ *)
Lemma list_eqb_string_eq (a b : list string) : list_eqb String.eqb a b = true <-> a = b.
Proof.
  revert b. induction a as [|x a IH]; intros [|y b]; simpl; split; intro H; try discriminate; auto.
  - apply andb_true_iff in H. destruct H as [H1 H2]. apply String.eqb_eq in H1. apply IH in H2. congruence.
  - inversion H; subst. apply andb_true_iff. split; [apply String.eqb_refl | apply IH; reflexivity].
Qed.

Lemma option_eqb_string_eq (a b : option string) : option_eqb String.eqb a b = true <-> a = b.
Proof.
  destruct a, b; simpl; split; intro H; try discriminate; auto.
  - apply String.eqb_eq in H. congruence.
  - inversion H. apply String.eqb_refl.
Qed.

Lemma tref_eqb_eq (a b : tref) : tref_eqb a b = true <-> a = b.
Proof.
  destruct a as [n s al], b as [n' s' al']. unfold tref_eqb. simpl. split; intro H.
  - apply andb_true_iff in H. destruct H as [H H3]. apply andb_true_iff in H. destruct H as [H1 H2].
    apply String.eqb_eq in H1. apply list_eqb_string_eq in H2. apply option_eqb_string_eq in H3. congruence.
  - inversion H; subst. rewrite String.eqb_refl. simpl.
    rewrite (proj2 (list_eqb_string_eq s' s') eq_refl), (proj2 (option_eqb_string_eq al' al') eq_refl). reflexivity.
Qed.

Lemma tref_eqb_refl a : tref_eqb a a = true.
Proof. apply tref_eqb_eq. reflexivity. Qed.

Lemma tref_eqb_neq (a b : tref) : tref_eqb a b = false <-> a <> b.
Proof.
  split; intro H.
  - intro E. apply tref_eqb_eq in E. congruence.
  - destruct (tref_eqb a b) eqn:E; auto. apply tref_eqb_eq in E. contradiction.
Qed.

Lemma tref_eqb_sym a b : tref_eqb a b = tref_eqb b a.
Proof.
  destruct (tref_eqb a b) eqn:E.
  - apply tref_eqb_eq in E. subst. symmetry. apply tref_eqb_refl.
  - destruct (tref_eqb b a) eqn:E2; auto. apply tref_eqb_eq in E2. subst. rewrite tref_eqb_refl in E. discriminate.
Qed.


Section L.
Variable cf : cfg.
Notation vis := (cvis cf).
Variables A B : tref.
Notation hit := (hit A).
Notation sw_tbl := (sw_tbl A B).
Notation sw_otbl := (sw_otbl A B).
Notation subst := (subst A B).
Notation subst_l := (subst_l A B).
Notation subst_w := (subst_w A B).
Notation subst_o := (subst_o A B).
Notation rep := (rep cf A B).
Notation rep_l := (rep_l cf A B).
Notation rep_w := (rep_w cf A B).
Notation rep_o := (rep_o cf A B).
Notation occ := (occ A).
Notation occ_l := (occ_l A).
Notation occ_w := (occ_w A).
Notation occ_o := (occ_o A).
Notation covered := (covered cf A).
Notation covered_l := (covered_l cf A).
Notation covered_w := (covered_w cf A).
Notation covered_o := (covered_o cf A).

Lemma sw_otbl_id o : occ_otbl A o = false -> sw_otbl o = o.
Proof. destruct o as [t|]; simpl; auto. unfold Replace.sw_tbl. intros ->. reflexivity. Qed.

Ltac orb_split H :=
  repeat match type of H with
         | (_ || _)%bool = false => apply orb_false_iff in H; let H1 := fresh H in destruct H as [H H1]; try orb_split H1
         end.

(* ---- no occurrence: the specification changes nothing ---- *)
Lemma occ_subst_id_all :
  (forall t, occ t = false -> subst t = t) /\ (forall l, occ_l l = false -> subst_l l = l)
  /\ (forall l, occ_w l = false -> subst_w l = l) /\ (forall o, occ_o o = false -> subst_o o = o).
Proof.
  apply term_all_ind15; intros; rw15;
    cbn [Replace.subst Replace.subst_l Replace.subst_w Replace.subst_o] in *;
    cbn [Replace.occ Replace.occ_l Replace.occ_w Replace.occ_o] in *; auto;
    try (match goal with Hx : _ = false |- _ => orb_split Hx end);
    repeat match goal with
           | IH : occ ?x = false -> _, Hx : occ ?x = false |- _ => rewrite (IH Hx); clear IH
           | IH : occ_l ?x = false -> _, Hx : occ_l ?x = false |- _ => rewrite (IH Hx); clear IH
           | IH : occ_w ?x = false -> _, Hx : occ_w ?x = false |- _ => rewrite (IH Hx); clear IH
           | IH : occ_o ?x = false -> _, Hx : occ_o ?x = false |- _ => rewrite (IH Hx); clear IH
           end; auto.
  - rewrite sw_otbl_id by auto. reflexivity.
  - rewrite sw_otbl_id by auto. reflexivity.
Qed.
Definition occ_subst_id := proj1 occ_subst_id_all.
Definition occ_subst_id_l := proj1 (proj2 occ_subst_id_all).
Definition occ_subst_id_w := proj1 (proj2 (proj2 occ_subst_id_all)).
Definition occ_subst_id_o := proj2 (proj2 (proj2 occ_subst_id_all)).

(* the same for the implementation model *)
Lemma occ_rep_id_all :
  (forall t, occ t = false -> rep t = t) /\ (forall l, occ_l l = false -> rep_l l = l)
  /\ (forall l, occ_w l = false -> rep_w l = l) /\ (forall o, occ_o o = false -> rep_o o = o).
Proof.
  apply term_all_ind15; intros; rw15;
    cbn [Replace.rep Replace.rep_l Replace.rep_w Replace.rep_o] in *;
    cbn [Replace.occ Replace.occ_l Replace.occ_w Replace.occ_o] in *; auto;
    try (match goal with Hx : _ = false |- _ => orb_split Hx end);
    repeat match goal with
           | IH : occ ?x = false -> _, Hx : occ ?x = false |- _ => rewrite (IH Hx); clear IH
           | IH : occ_l ?x = false -> _, Hx : occ_l ?x = false |- _ => rewrite (IH Hx); clear IH
           | IH : occ_w ?x = false -> _, Hx : occ_w ?x = false |- _ => rewrite (IH Hx); clear IH
           | IH : occ_o ?x = false -> _, Hx : occ_o ?x = false |- _ => rewrite (IH Hx); clear IH
           end;
    repeat match goal with |- context [if ?b then ?x else ?x] => destruct b end; auto.
  all: rewrite sw_otbl_id by auto; try match goal with |- context [if ?b then _ else _] => destruct b end; reflexivity.
Qed.
Definition occ_rep_id := proj1 occ_rep_id_all.

(* ---- one child slot ---- *)
Lemma slot_ok (v : bool) x :
  cov1 v (covered x) (occ x) = true -> (covered x = true -> rep x = subst x) -> (if v then rep x else x) = subst x.
Proof. destruct v; simpl; intros H IH; [auto|]. apply negb_true_iff in H. symmetry. apply occ_subst_id; auto. Qed.
Lemma slot_ok_l (v : bool) x :
  cov1 v (covered_l x) (occ_l x) = true -> (covered_l x = true -> rep_l x = subst_l x) -> (if v then rep_l x else x) = subst_l x.
Proof. destruct v; simpl; intros H IH; [auto|]. apply negb_true_iff in H. symmetry. apply occ_subst_id_l; auto. Qed.
Lemma slot_ok_o (v : bool) x :
  cov1 v (covered_o x) (occ_o x) = true -> (covered_o x = true -> rep_o x = subst_o x) -> (if v then rep_o x else x) = subst_o x.
Proof. destruct v; simpl; intros H IH; [auto|]. apply negb_true_iff in H. symmetry. apply occ_subst_id_o; auto. Qed.
Lemma slot_ok_tbl (v : bool) o :
  cov1 v true (occ_otbl A o) = true -> (if v then sw_otbl o else o) = sw_otbl o.
Proof. destruct v; simpl; intros H; [auto|]. apply negb_true_iff in H. symmetry. apply sw_otbl_id; auto. Qed.

Ltac andb_split H :=
  repeat match type of H with
         | (_ && _)%bool = true => apply andb_true_iff in H; let H1 := fresh H in destruct H as [H H1]; try andb_split H1
         end.

(* ---- the fragment theorem: covered => the traversal of the code equals the specification ---- *)
Theorem covered_rep_subst_all :
  (forall t, covered t = true -> rep t = subst t) /\ (forall l, covered_l l = true -> rep_l l = subst_l l)
  /\ (forall l, covered_w l = true -> rep_w l = subst_w l) /\ (forall o, covered_o o = true -> rep_o o = subst_o o).
Proof.
  apply term_all_ind15; intros; rw15;
    cbn [Replace.rep Replace.rep_l Replace.rep_w Replace.rep_o Replace.subst Replace.subst_l Replace.subst_w Replace.subst_o];
    try match goal with Hc : _ = true |- _ =>
      cbn [Replace.covered Replace.covered_l Replace.covered_w Replace.covered_o] in Hc; andb_split Hc end;
    repeat match goal with
           | Hc : cov1 ?v (covered ?x) (occ ?x) = true, IH : covered ?x = true -> _ |- _ =>
               rewrite (slot_ok v x Hc IH); clear Hc
           | Hc : cov1 ?v (covered_l ?x) (occ_l ?x) = true, IH : covered_l ?x = true -> _ |- _ =>
               rewrite (slot_ok_l v x Hc IH); clear Hc
           | Hc : cov1 ?v (covered_o ?x) (occ_o ?x) = true, IH : covered_o ?x = true -> _ |- _ =>
               rewrite (slot_ok_o v x Hc IH); clear Hc
           | Hc : cov1 ?v true (occ_otbl A ?o) = true |- _ => rewrite (slot_ok_tbl v o Hc); clear Hc
           | Hc : covered ?x = true, IH : covered ?x = true -> _ |- _ => rewrite (IH Hc); clear IH
           | Hc : covered_l ?x = true, IH : covered_l ?x = true -> _ |- _ => rewrite (IH Hc); clear IH
           | Hc : covered_w ?x = true, IH : covered_w ?x = true -> _ |- _ => rewrite (IH Hc); clear IH
           | Hc : covered_o ?x = true, IH : covered_o ?x = true -> _ |- _ => rewrite (IH Hc); clear IH
           end; reflexivity.
Qed.
Definition covered_rep_subst := proj1 covered_rep_subst_all.
Definition covered_rep_subst_l := proj1 (proj2 covered_rep_subst_all).

(* lists of terms (wrapper slots) *)
Lemma map_rep_subst (l : list term) : forallb covered l = true -> map rep l = map subst l.
Proof.
  induction l as [|x l IH]; simpl; auto. intro H. apply andb_true_iff in H. destruct H as [H1 H2].
  rewrite (covered_rep_subst x H1), (IH H2). reflexivity.
Qed.
Lemma map_subst_id (l : list term) : existsb occ l = false -> map subst l = l.
Proof.
  induction l as [|x l IH]; simpl; auto. intro H. apply orb_false_iff in H. destruct H as [H1 H2].
  rewrite (occ_subst_id x H1), (IH H2). reflexivity.
Qed.

End L.

(* ------------------------------------------------------------------------------------------ *)
(* other tables are untouched; A disappears                                                    *)
(* ------------------------------------------------------------------------------------------ *)
Section CNT.
Variable cf : cfg.
Variables A B C : tref.
Hypothesis CA : tref_eqb C A = false.

Lemma cnt_sw o :
  cnt_otbl C (sw_otbl A B o) = cnt_otbl C o + (if tref_eqb C B then cnt_otbl A o else 0).
Proof.
  destruct o as [t|]; simpl; [|destruct (tref_eqb C B); reflexivity].
  unfold sw_tbl, hit. destruct (tref_eqb t A) eqn:E.
  - apply tref_eqb_eq in E. subst t. rewrite (tref_eqb_sym A C), CA. rewrite (tref_eqb_sym B C).
    destruct (tref_eqb C B); reflexivity.
  - destruct (tref_eqb t C); destruct (tref_eqb C B); simpl; lia.
Qed.

Theorem count_subst_all :
  (forall t, count C (subst A B t) = count C t + (if tref_eqb C B then count A t else 0))
  /\ (forall l, count_l C (subst_l A B l) = count_l C l + (if tref_eqb C B then count_l A l else 0))
  /\ (forall l, count_w C (subst_w A B l) = count_w C l + (if tref_eqb C B then count_w A l else 0))
  /\ (forall o, count_o C (subst_o A B o) = count_o C o + (if tref_eqb C B then count_o A o else 0)).
Proof.
  apply term_all_ind15; intros; rw15; cbn [subst subst_l subst_w subst_o count count_l count_w count_o];
    repeat match goal with H : _ = _ + _ |- _ => rewrite H; clear H end;
    try rewrite cnt_sw; destruct (tref_eqb C B); lia.
Qed.

(* the implementation model never touches a table other than A and B *)
Hypothesis CB : tref_eqb C B = false.
Lemma cnt_sw_other o : cnt_otbl C (sw_otbl A B o) = cnt_otbl C o.
Proof. rewrite cnt_sw, CB. lia. Qed.

Theorem count_rep_all :
  (forall t, count C (rep cf A B t) = count C t) /\ (forall l, count_l C (rep_l cf A B l) = count_l C l)
  /\ (forall l, count_w C (rep_w cf A B l) = count_w C l) /\ (forall o, count_o C (rep_o cf A B o) = count_o C o).
Proof.
  apply term_all_ind15; intros; rw15; cbn [rep rep_l rep_w rep_o count count_l count_w count_o];
    repeat match goal with |- context [if ?b then _ else _] => destruct b end;
    rw15; cbn [count count_l count_w count_o];
    repeat match goal with H : _ = _ |- _ => rewrite H; clear H end;
    try rewrite cnt_sw_other; lia.
Qed.
End CNT.

(* after the specification, A is gone (when B is another table) *)
Theorem count_A_subst_all A B : tref_eqb B A = false ->
  (forall t, count A (subst A B t) = 0) /\ (forall l, count_l A (subst_l A B l) = 0)
  /\ (forall l, count_w A (subst_w A B l) = 0) /\ (forall o, count_o A (subst_o A B o) = 0).
Proof.
  intro BA.
  apply term_all_ind15; intros; rw15; cbn [subst subst_l subst_w subst_o count count_l count_w count_o];
    repeat match goal with H : _ = 0 |- _ => rewrite H; clear H end; auto.
  - destruct tbl as [t|]; simpl; auto. unfold sw_tbl, hit. destruct (tref_eqb t A) eqn:E; [rewrite BA | rewrite E]; reflexivity.
  - destruct tbl as [t|]; simpl; auto. unfold sw_tbl, hit. destruct (tref_eqb t A) eqn:E; [rewrite BA | rewrite E]; reflexivity.
Qed.

(* count and occ agree *)
Lemma count_occ_all A :
  (forall t, sub_foreign A t = true -> (occ A t = false <-> count A t = 0))
  /\ (forall l, sub_foreign_l A l = true -> (occ_l A l = false <-> count_l A l = 0))
  /\ (forall l, sub_foreign_w A l = true -> (occ_w A l = false <-> count_w A l = 0))
  /\ (forall o, sub_foreign_o A o = true -> (occ_o A o = false <-> count_o A o = 0)).
Proof.
  apply term_all_ind15; intros; rw15;
    cbn [occ occ_l occ_w occ_o count count_l count_w count_o sub_foreign sub_foreign_l sub_foreign_w sub_foreign_o] in *;
    try tauto;
    repeat match goal with
           | Hs : (_ && _)%bool = true |- _ => apply andb_true_iff in Hs; destruct Hs
           end;
    repeat match goal with
           | IH : ?P = true -> _, Hs : ?P = true |- _ => specialize (IH Hs)
           end;
    rewrite ?orb_false_iff;
    repeat match goal with IH : _ = false <-> _ = 0 |- _ => rewrite IH; clear IH end;
    try lia.
  - destruct tbl as [t|]; simpl; unfold hit; [destruct (tref_eqb t A)|]; split; intro; congruence.
  - destruct tbl as [t|]; simpl; unfold hit; [destruct (tref_eqb t A)|]; split; intro; congruence.
  - apply negb_true_iff in H. rewrite H. tauto.
Qed.

(* ------------------------------------------------------------------------------------------ *)
(* exactness of the fragment: outside [covered] the traversal of the code differs from the     *)
(* specification (for B other than A)                                                          *)
(* ------------------------------------------------------------------------------------------ *)
Section EXACT.
Variable cf : cfg.
Variables A B : tref.
Hypothesis BA : tref_eqb B A = false.

Lemma subst_fix_no_occ t : sub_foreign A t = true -> subst A B t = t -> occ A t = false.
Proof.
  intros F E. apply (proj1 (count_occ_all A) t F). rewrite <- E. apply (proj1 (count_A_subst_all A B BA)).
Qed.
Lemma subst_fix_no_occ_l l : sub_foreign_l A l = true -> subst_l A B l = l -> occ_l A l = false.
Proof.
  intros F E. apply (proj1 (proj2 (count_occ_all A)) l F). rewrite <- E. apply (proj1 (proj2 (count_A_subst_all A B BA))).
Qed.
Lemma subst_fix_no_occ_o o : sub_foreign_o A o = true -> subst_o A B o = o -> occ_o A o = false.
Proof.
  intros F E. apply (proj2 (proj2 (proj2 (count_occ_all A))) o F). rewrite <- E.
  apply (proj2 (proj2 (proj2 (count_A_subst_all A B BA)))).
Qed.
Lemma sw_fix_no_occ o : sw_otbl A B o = o -> occ_otbl A o = false.
Proof.
  destruct o as [t|]; simpl; auto. unfold sw_tbl, hit. destruct (tref_eqb t A) eqn:E; auto.
  intro H. inversion H as [H1]. rewrite <- H1 in E. congruence.
Qed.

Lemma slot_conv (v : bool) x :
  sub_foreign A x = true -> (rep cf A B x = subst A B x -> covered cf A x = true) ->
  (if v then rep cf A B x else x) = subst A B x -> cov1 v (covered cf A x) (occ A x) = true.
Proof. destruct v; simpl; intros F IH E; auto. apply negb_true_iff. apply subst_fix_no_occ; auto. Qed.
Lemma slot_conv_l (v : bool) x :
  sub_foreign_l A x = true -> (rep_l cf A B x = subst_l A B x -> covered_l cf A x = true) ->
  (if v then rep_l cf A B x else x) = subst_l A B x -> cov1 v (covered_l cf A x) (occ_l A x) = true.
Proof. destruct v; simpl; intros F IH E; auto. apply negb_true_iff. apply subst_fix_no_occ_l; auto. Qed.
Lemma slot_conv_o (v : bool) x :
  sub_foreign_o A x = true -> (rep_o cf A B x = subst_o A B x -> covered_o cf A x = true) ->
  (if v then rep_o cf A B x else x) = subst_o A B x -> cov1 v (covered_o cf A x) (occ_o A x) = true.
Proof. destruct v; simpl; intros F IH E; auto. apply negb_true_iff. apply subst_fix_no_occ_o; auto. Qed.
Lemma slot_conv_tbl (v : bool) o :
  (if v then sw_otbl A B o else o) = sw_otbl A B o -> cov1 v true (occ_otbl A o) = true.
Proof. destruct v; simpl; intros E; auto. apply negb_true_iff. apply sw_fix_no_occ; auto. Qed.

Ltac andb_split' H :=
  repeat match type of H with
         | (_ && _)%bool = true => apply andb_true_iff in H; let H1 := fresh H in destruct H as [H H1]; try andb_split' H1
         end.

Theorem rep_subst_covered_all :
  (forall t, sub_foreign A t = true -> rep cf A B t = subst A B t -> covered cf A t = true)
  /\ (forall l, sub_foreign_l A l = true -> rep_l cf A B l = subst_l A B l -> covered_l cf A l = true)
  /\ (forall l, sub_foreign_w A l = true -> rep_w cf A B l = subst_w A B l -> covered_w cf A l = true)
  /\ (forall o, sub_foreign_o A o = true -> rep_o cf A B o = subst_o A B o -> covered_o cf A o = true).
Proof.
  apply term_all_ind15; intros; rw15;
    cbn [rep rep_l rep_w rep_o subst subst_l subst_w subst_o sub_foreign sub_foreign_l sub_foreign_w sub_foreign_o
         covered covered_l covered_w covered_o] in *; auto;
    repeat match goal with Hs : (_ && _)%bool = true |- _ => andb_split' Hs end;
    repeat match goal with IH : ?P = true -> _, F : ?P = true |- _ => specialize (IH F) end;
    match goal with E : _ = _ :> term |- _ => injection E as ? | E : _ = _ :> tlist |- _ => injection E as ?
                  | E : _ = _ :> wlist |- _ => injection E as ? | E : _ = _ :> oterm |- _ => injection E as ?
                  | _ => idtac end;
    repeat (apply andb_true_iff; split);
    try (apply slot_conv; assumption); try (apply slot_conv_l; assumption); try (apply slot_conv_o; assumption);
    try (apply slot_conv_tbl; assumption); auto.
Qed.

(* covered is exactly the set of terms on which the code's traversal meets the specification *)
Theorem covered_iff t : sub_foreign A t = true -> (covered cf A t = true <-> rep cf A B t = subst A B t).
Proof.
  intro F. split; [apply covered_rep_subst | apply (proj1 rep_subst_covered_all); exact F].
Qed.
End EXACT.

(* ------------------------------------------------------------------------------------------ *)
(* when every slot of the expression classes is visited, every term is in the fragment         *)
(* ------------------------------------------------------------------------------------------ *)
Section ALLVIS.
Variable cf : cfg.
Variable A : tref.
Hypothesis AV : term_slots_all_visited cf = true.

Ltac andb_split'' H :=
  repeat match type of H with
         | (_ && _)%bool = true => apply andb_true_iff in H; let H1 := fresh H in destruct H as [H H1]; try andb_split'' H1
         end.

Theorem all_visited_covered_all :
  (forall t, sub_foreign A t = true -> covered cf A t = true)
  /\ (forall l, sub_foreign_l A l = true -> covered_l cf A l = true)
  /\ (forall l, sub_foreign_w A l = true -> covered_w cf A l = true)
  /\ (forall o, sub_foreign_o A o = true -> covered_o cf A o = true).
Proof.
  pose proof AV as H0. unfold term_slots_all_visited in H0. cbn [forallb term_pairs fst snd] in H0. andb_split'' H0.
  apply term_all_ind15; intros; rw15;
    cbn [covered covered_l covered_w covered_o sub_foreign sub_foreign_l sub_foreign_w sub_foreign_o] in *; auto;
    repeat match goal with Hs : (_ && _)%bool = true |- _ => andb_split'' Hs end;
    repeat match goal with IH : ?P = true -> _, F : ?P = true |- _ => specialize (IH F) end;
    repeat match goal with Hv : cvis cf ?k ?s = true |- context [cvis cf ?k ?s] => rewrite Hv end;
    cbn [cov1];
    repeat match goal with IH : _ = true |- _ => rewrite IH; clear IH end; reflexivity.
Qed.
End ALLVIS.
