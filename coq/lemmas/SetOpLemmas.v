(* Proofs about the set-operation model (SetOp.v). *)
From PV Require Import Base SetOp.
From Coq Require Import Lia.

(* ---- strings ---- *)
Lemma sapp_nil_r (s : string) : s ++ "" = s.
Proof. induction s as [|c s IH]; cbn; [reflexivity | now rewrite IH]. Qed.
Lemma sapp_assoc (a b c : string) : (a ++ b) ++ c = a ++ b ++ c.
Proof. induction a as [|x a IH]; cbn; [reflexivity | now rewrite IH]. Qed.

Lemma join_cons2 sep (a b : string) (r : list string) : join sep (a :: b :: r) = a ++ sep ++ join sep (b :: r).
Proof. reflexivity. Qed.

Lemma weave_cons2 x segs kw kws : weave (x :: segs) (kw :: kws) = x :: kw :: weave segs kws.
Proof. reflexivity. Qed.
Lemma weave_head x segs kws : exists r, weave (x :: segs) kws = x :: r.
Proof. destruct kws; cbn; eauto. Qed.

(* seg0 kw1 seg1 ... joined by blanks = seg0 followed by one " kw seg" piece per operand *)
Lemma join_weave (f : operand -> string) : forall (ops : list (sokind * operand)) (x : string),
  join " " (weave (x :: map (fun p => f (snd p)) ops) (map (fun p => kind_text (fst p)) ops))
  = x ++ sconcat (map (fun p => " " ++ kind_text (fst p) ++ " " ++ f (snd p)) ops).
Proof.
  induction ops as [|p ops IH]; intros x.
  - cbn. now rewrite sapp_nil_r.
  - cbn [map sconcat]. rewrite weave_cons2.
    destruct (weave_head (f (snd p)) (map (fun p => f (snd p)) ops) (map (fun p => kind_text (fst p)) ops)) as [r Hr].
    specialize (IH (f (snd p))). rewrite Hr in *.
    rewrite join_cons2, join_cons2, IH.
    now rewrite !sapp_assoc.
Qed.

(* ---- the loop ---- *)
Definition good (base : operand) (x : sokind * operand) : bool :=
  o_builder base && o_builder (snd x) && Nat.eqb (arity base) (arity (snd x)).
Definition piece (base : operand) (k : kwargs) (x : sokind * operand) : string :=
  " " ++ kind_text (fst x) ++ " " ++ operand_sql base k (snd x).

Lemma so_loop_good base k bq : forall ops acc, forallb (good base) ops = true ->
  so_loop base k bq ops acc = ROk (acc ++ sconcat (map (piece base k) ops)).
Proof.
  induction ops as [|[ty q] ops IH]; intros acc H.
  - cbn. now rewrite sapp_nil_r.
  - cbn [forallb] in H. apply andb_prop in H as [Hg Hr].
    unfold good in Hg. cbn [snd] in Hg. apply andb_prop in Hg as [Hb He]. unfold arity in He.
    cbn [so_loop]. rewrite Hb, He. cbn [negb].
    rewrite (IH _ Hr). cbn [map sconcat]. unfold piece at 2. cbn [fst snd].
    now rewrite !sapp_assoc.
Qed.

Lemma so_loop_bad base k bq : forall pre ty q post acc,
  forallb (good base) pre = true -> good base (ty, q) = false ->
  so_loop base k bq (pre ++ (ty, q) :: post)%list acc =
  if o_builder base && o_builder q then RSetOpExc bq (operand_sql base k q) else RTypeError.
Proof.
  induction pre as [|[ty' q'] pre IH]; intros ty q post acc Hp Hb.
  - cbn [app so_loop]. unfold good in Hb. cbn [snd] in Hb. unfold arity in Hb.
    destruct (o_builder base && o_builder q) eqn:E; cbn [negb].
    + cbn [andb] in Hb. rewrite Hb. reflexivity.
    + reflexivity.
  - cbn [forallb] in Hp. apply andb_prop in Hp as [Hg Hr].
    unfold good in Hg. cbn [snd] in Hg. apply andb_prop in Hg as [Hbb He]. unfold arity in He.
    cbn [app so_loop]. rewrite Hbb, He. cbn [negb]. apply IH; assumption.
Qed.

Lemma first_bad base : forall ops, forallb (good base) ops = false ->
  exists pre ty q post, ops = (pre ++ (ty, q) :: post)%list /\ forallb (good base) pre = true /\ good base (ty, q) = false.
Proof.
  induction ops as [|[ty q] ops IH]; intros H; [discriminate|].
  cbn [forallb] in H. destruct (good base (ty, q)) eqn:G.
  - cbn [andb] in H. destruct (IH H) as (pre & ty' & q' & post & -> & Hp & Hb).
    exists ((ty, q) :: pre), ty', q', post. repeat split; auto. cbn [forallb]. now rewrite G, Hp.
  - exists [], ty, q, ops. repeat split; auto.
Qed.

(* under "everything is a QueryBuilder", good = no arity mismatch *)
Lemma good_all_builders s : all_builders s = true ->
  forallb (good (s_base s)) (s_ops s) = negb (has_mismatch s).
Proof.
  unfold all_builders, has_mismatch. intros H. apply andb_prop in H as [Hb Ho]. revert Ho.
  induction (s_ops s) as [|x ops IH]; intros Ho; [reflexivity|].
  cbn [forallb existsb] in *. apply andb_prop in Ho as [Hx Hr]. rewrite (IH Hr).
  unfold good, mismatch_b. rewrite Hb, Hx. cbn [andb].
  destruct (Nat.eqb (arity (s_base s)) (arity (snd x))); cbn; [reflexivity|]. reflexivity.
Qed.

(* ---- kwargs defaulting ---- *)
Lemma setdefaults_eff s k : apply_defaults (s_base s) k = eff_kwargs s k.
Proof. reflexivity. Qed.

(* ---- the trailing clauses ---- *)
Definition add_tail (s : setop) (k : kwargs) (q : string) : string :=
  let q := if is_nil (s_orderbys s) then q else q ++ orderby_sql (s_base s) k (s_orderbys s) in
  q ++ page_sql (o_page (s_base s)) (s_limit s) (s_offset s).

Lemma add_tail_spec s k q : add_tail s (eff_kwargs s k) q = q ++ spec_tail s k.
Proof.
  unfold add_tail, spec_tail, orderby_sql, opt_piece. cbn [sconcat].
  destruct (is_nil (s_orderbys s)); cbn [negb];
    repeat rewrite sapp_assoc; repeat rewrite sapp_nil_r; cbn [append]; reflexivity.
Qed.

Definition finish (s : setop) (k : kwargs) (with_alias subquery : bool) (q : string) : string :=
  let q := if subquery then "(" ++ q ++ ")" else q in
  if with_alias then
    fmt_alias q (Some (if truthy_ostr (s_alias s) then ostr (s_alias s) else table_name_field_text))
              (kw_str k "quote_char") (source_alias_quote k) (kw_true k "as_keyword")
  else q.

(* render_setop = loop, then tail, then parentheses/alias *)
Lemma render_unfold s k0 wa sub :
  render_setop s k0 wa sub =
  let k := eff_kwargs s k0 in
  let bq := o_text (s_base s) k (o_wrap (s_base s)) in
  match so_loop (s_base s) k bq (s_ops s) bq with
  | ROk q => ROk (finish s k wa sub (add_tail s k q))
  | e => e
  end.
Proof.
  unfold render_setop. rewrite setdefaults_eff. cbv zeta.
  destruct (so_loop _ _ _ _ _); try reflexivity.
  unfold finish, add_tail. destruct wa; reflexivity.
Qed.

(* ---- main theorems ---- *)

(* the body of a chain whose operands all pass the checks: base text, then " KW operand" pieces in list order *)
Lemma render_good s k wa sub :
  forallb (good (s_base s)) (s_ops s) = true ->
  render_setop s k wa sub =
  ROk (finish s (eff_kwargs s k) wa sub
         ((o_text (s_base s) (eff_kwargs s k) (o_wrap (s_base s))
           ++ sconcat (map (piece (s_base s) (eff_kwargs s k)) (s_ops s))) ++ spec_tail s k)).
Proof.
  intros H. rewrite render_unfold. cbv zeta. rewrite (so_loop_good _ _ _ _ _ H).
  now rewrite add_tail_spec.
Qed.

Definition seg_ok (s : setop) (k : kwargs) : Prop :=
  forall o, In o (operands s) -> o_wrap (s_base s) = true -> paren_ok (eff_kwargs s k) o.

Lemma wrap_if_text s k o : seg_ok s k -> In o (operands s) ->
  wrap_if (o_wrap (s_base s)) (own_text (eff_kwargs s k) o) = o_text o (eff_kwargs s k) (o_wrap (s_base s)).
Proof.
  intros H Hin. unfold wrap_if, own_text. destruct (o_wrap (s_base s)) eqn:W; [|reflexivity].
  symmetry. apply (H o Hin W).
Qed.

(* an appended operand's specified segment is what the loop appends *)
Lemma segment_text s k o : seg_ok s k -> In o (operands s) ->
  segment (o_wrap (s_base s)) (eff_kwargs s k) o = operand_sql (s_base s) (eff_kwargs s k) o.
Proof.
  intros H Hin. unfold segment, operand_sql, own_text. destruct (o_wrap (s_base s)) eqn:W.
  - rewrite andb_false_r. symmetry. apply (H o Hin W).
  - rewrite andb_true_r. destruct (o_chain o); reflexivity.
Qed.

Lemma spec_body_pieces s k : seg_ok s k ->
  spec_body s k = o_text (s_base s) (eff_kwargs s k) (o_wrap (s_base s))
                  ++ sconcat (map (piece (s_base s) (eff_kwargs s k)) (s_ops s)).
Proof.
  intros H. unfold spec_body, spec_segments, keywords.
  rewrite (wrap_if_text s k (s_base s) H (or_introl eq_refl)).
  assert (E : map (fun x => segment (o_wrap (s_base s)) (eff_kwargs s k) (snd x)) (s_ops s)
              = map (fun x => operand_sql (s_base s) (eff_kwargs s k) (snd x)) (s_ops s)).
  { apply map_ext_in. intros x Hx. apply segment_text; [assumption|].
    right. apply in_map_iff. exists x. split; [reflexivity | assumption]. }
  rewrite E.
  rewrite (join_weave (fun o => operand_sql (s_base s) (eff_kwargs s k) o) (s_ops s)).
  reflexivity.
Qed.

(* (2) arities agree => exactly the specified text *)
Theorem render_ok s k :
  all_builders s = true -> has_mismatch s = false -> seg_ok s k ->
  render_setop s k false false = ROk (spec_text s k).
Proof.
  intros Hb Hm Hs. pose proof (good_all_builders s Hb) as G. rewrite Hm in G. cbn in G.
  rewrite (render_good s k false false G). unfold finish, spec_text.
  now rewrite (spec_body_pieces s k Hs).
Qed.

(* (1) the first operand that fails a check decides the outcome, whatever follows it and whatever the flags *)
Theorem render_first_bad s k wa sub pre ty q post :
  s_ops s = (pre ++ (ty, q) :: post)%list ->
  forallb (good (s_base s)) pre = true -> good (s_base s) (ty, q) = false ->
  render_setop s k wa sub =
  if o_builder (s_base s) && o_builder q
  then RSetOpExc (o_text (s_base s) (eff_kwargs s k) (o_wrap (s_base s))) (operand_sql (s_base s) (eff_kwargs s k) q)
  else RTypeError.
Proof.
  intros E Hp Hb. rewrite render_unfold. cbv zeta. rewrite E, (so_loop_bad _ _ _ _ _ _ _ _ Hp Hb).
  destruct (o_builder (s_base s) && o_builder q); reflexivity.
Qed.

Definition is_setop_exc (r : rres) : bool := match r with RSetOpExc _ _ => true | _ => false end.
Definition is_ok (r : rres) : bool := match r with ROk _ => true | _ => false end.

Theorem render_exc_iff s k wa sub : all_builders s = true ->
  (is_setop_exc (render_setop s k wa sub) = true <-> has_mismatch s = true).
Proof.
  intros Hb. pose proof (good_all_builders s Hb) as G.
  destruct (has_mismatch s) eqn:M; cbn in G.
  - destruct (first_bad _ _ G) as (pre & ty & q & post & E & Hp & Hq).
    rewrite (render_first_bad s k wa sub pre ty q post E Hp Hq).
    unfold all_builders in Hb. apply andb_prop in Hb as [Hbase Hall].
    rewrite E in Hall. rewrite forallb_app in Hall. apply andb_prop in Hall as [_ Hall].
    cbn [forallb snd] in Hall. apply andb_prop in Hall as [Hqb _]. rewrite Hbase, Hqb. cbn. tauto.
  - rewrite (render_good s k wa sub G). cbn. split; discriminate.
Qed.

(* which operand: the first one (in call order) whose arity differs; its rendered text is quoted *)
Theorem render_first_mismatch s k wa sub pre ty q post :
  all_builders s = true -> s_ops s = (pre ++ (ty, q) :: post)%list ->
  existsb (fun x => mismatch_b (s_base s) (snd x)) pre = false -> mismatch_b (s_base s) q = true ->
  render_setop s k wa sub =
  RSetOpExc (o_text (s_base s) (eff_kwargs s k) (o_wrap (s_base s))) (operand_sql (s_base s) (eff_kwargs s k) q).
Proof.
  intros Hb E Hpre Hq. unfold all_builders in Hb. apply andb_prop in Hb as [Hbase Hall].
  rewrite E in Hall. rewrite forallb_app in Hall. apply andb_prop in Hall as [Hallpre Hall].
  cbn [forallb snd] in Hall. apply andb_prop in Hall as [Hqb _].
  assert (Gp : forallb (good (s_base s)) pre = true).
  { clear E. induction pre as [|x pre IH]; [reflexivity|]. cbn [forallb existsb] in *.
    apply andb_prop in Hallpre as [Hx Hr]. apply orb_false_elim in Hpre as [Mx Mr].
    rewrite (IH Hr Mr). unfold good. rewrite Hbase, Hx. unfold mismatch_b in Mx.
    destruct (Nat.eqb (arity (s_base s)) (arity (snd x))); [reflexivity|discriminate]. }
  assert (Gq : good (s_base s) (ty, q) = false).
  { unfold good. cbn [snd]. rewrite Hbase, Hqb. unfold mismatch_b in Hq.
    destruct (Nat.eqb (arity (s_base s)) (arity q)); [discriminate|reflexivity]. }
  rewrite (render_first_bad s k wa sub pre ty q post E Gp Gq). now rewrite Hbase, Hqb.
Qed.

(* an operand that is not a QueryBuilder (e.g. a nested chain) reached by the loop: TypeError, never text *)
Theorem render_nonbuilder s k wa sub pre ty q post :
  s_ops s = (pre ++ (ty, q) :: post)%list -> forallb (good (s_base s)) pre = true -> o_builder q = false ->
  render_setop s k wa sub = RTypeError.
Proof.
  intros E Hp Hq.
  assert (G : good (s_base s) (ty, q) = false).
  { unfold good. cbn [snd]. rewrite Hq. now rewrite andb_false_r. }
  rewrite (render_first_bad s k wa sub pre ty q post E Hp G). rewrite Hq. now rewrite andb_false_r.
Qed.

(* ---- trailing clauses: once, after the last operand, outside every operand, for every chain ---- *)
Lemma page_none st : page_sql st None None = "".
Proof. destruct st; reflexivity. Qed.

Lemma strip_eff s k : eff_kwargs (strip_tail s) k = eff_kwargs s k.
Proof. reflexivity. Qed.

Theorem render_tail s k :
  match render_setop (strip_tail s) k false false with
  | ROk body => render_setop s k false false = ROk (body ++ spec_tail s k)
  | e => render_setop s k false false = e
  end.
Proof.
  rewrite !render_unfold. cbv zeta. rewrite strip_eff. cbn [strip_tail s_base s_ops].
  destruct (so_loop _ _ _ _ _) as [q| |]; try reflexivity.
  unfold finish. rewrite add_tail_spec.
  unfold add_tail. cbn [strip_tail s_orderbys s_limit s_offset s_base is_nil].
  rewrite page_none, sapp_nil_r. reflexivity.
Qed.

(* ---- use as sub-query / IN container / FROM or JOIN item ---- *)
Theorem render_subquery s k :
  match render_setop s k false false with
  | ROk t =>
      render_setop s k false true = ROk ("(" ++ t ++ ")")
      /\ (forall sub, render_setop s k true sub =
            ROk (fmt_alias (if sub then "(" ++ t ++ ")" else t)
                           (Some (if truthy_ostr (s_alias s) then ostr (s_alias s) else table_name_field_text))
                           (kw_str (eff_kwargs s k) "quote_char") (source_alias_quote (eff_kwargs s k))
                           (kw_true (eff_kwargs s k) "as_keyword")))
  | e => forall wa sub, render_setop s k wa sub = e
  end.
Proof.
  rewrite (render_unfold s k false false). cbv zeta.
  destruct (so_loop _ _ _ _ _) as [q| |] eqn:L.
  - split.
    + rewrite render_unfold. cbv zeta. rewrite L. reflexivity.
    + intros sub. rewrite render_unfold. cbv zeta. rewrite L. reflexivity.
  - intros wa sub. rewrite render_unfold. cbv zeta. now rewrite L.
  - intros wa sub. rewrite render_unfold. cbv zeta. now rewrite L.
Qed.

(* ---- (3) builder steps append at the end ---- *)
Lemma so_call_ops m s o : s_ops (so_call m s o) = (s_ops s ++ [(meth_kind m, o)])%list /\ s_base (so_call m s o) = s_base s.
Proof. destruct m; split; reflexivity. Qed.
Lemma qb_call_ops m b o : s_ops (qb_call m b o) = [(meth_kind m, o)] /\ s_base (qb_call m b o) = b.
Proof. destruct m; split; reflexivity. Qed.

Lemma fold_steps : forall steps s,
  s_ops (fold_left do_step steps s) = (s_ops s ++ step_ops steps)%list
  /\ s_base (fold_left do_step steps s) = s_base s.
Proof.
  induction steps as [|st steps IH]; intros s.
  - cbn. now rewrite app_nil_r.
  - cbn [fold_left]. destruct (IH (do_step s st)) as [Ho Hb]. rewrite Ho, Hb.
    destruct st as [m o| | | |]; cbn [do_step step_ops flat_map]; try (split; reflexivity).
    destruct (so_call_ops m s o) as [E1 E2]. rewrite E1, E2. rewrite <- app_assoc. split; reflexivity.
Qed.

Theorem prog_order base m o steps :
  s_ops (run_prog base m o steps) = (meth_kind m, o) :: step_ops steps
  /\ s_base (run_prog base m o steps) = base.
Proof.
  unfold run_prog. destruct (fold_steps steps (qb_call m base o)) as [Ho Hb].
  destruct (qb_call_ops m base o) as [E1 E2]. rewrite Ho, Hb, E1, E2. split; reflexivity.
Qed.

(* one more call = one more operand at the END; nothing before it changes *)
Theorem step_appends s m o : s_ops (do_step s (StOp m o)) = (s_ops s ++ [(meth_kind m, o)])%list.
Proof. cbn. apply so_call_ops. Qed.

(* ---- left-to-right meaning ---- *)
Theorem sem_chain_snoc {R} (ap : sokind -> R -> R -> R) base ops k r :
  sem_chain ap base (ops ++ [(k, r)])%list = ap k (sem_chain ap base ops) r.
Proof. unfold sem_chain. now rewrite fold_left_app. Qed.
Theorem sem_chain_single {R} (ap : sokind -> R -> R -> R) base k r : sem_chain ap base [(k, r)] = ap k base r.
Proof. reflexivity. Qed.

(* ---- the fragment on which the full statement holds, as a boolean ---- *)
Lemma frag_sound s k : frag s k = true -> all_builders s = true /\ seg_ok s k.
Proof.
  unfold frag. intros H. apply andb_prop in H as [Hb Hp]. split; [assumption|].
  intros o Hin W. rewrite W in Hp. cbn [negb orb] in Hp.
  rewrite forallb_forall in Hp. specialize (Hp o Hin). unfold paren_okb in Hp.
  apply String.eqb_eq in Hp. exact Hp.
Qed.

(* ---- a chain as an operand of a chain ---- *)
Lemma as_operand_paren c k : is_ok (render_setop c k false false) = true -> paren_okb k (as_operand c) = true.
Proof.
  intros H. unfold paren_okb, as_operand. cbn [o_text].
  pose proof (render_subquery c k) as R.
  destruct (render_setop c k false false) as [t| |] eqn:E; try discriminate.
  destruct R as [R _]. rewrite R. apply String.eqb_refl.
Qed.
Lemma as_operand_arity c : arity (as_operand c) = arity (s_base c).
Proof. reflexivity. Qed.
