(* IntervalLemmas.v — proofs about coq/Interval.v: the trimming regular expression never eats a
   digit of a kept field, for ALL field values. *)
From Coq Require Import Lia DecimalString Decimal DecimalFacts DecimalPos DecimalN DecimalZ.
From PV Require Import Base gen.C20Table Interval.

Local Open Scope string_scope.

(* ------------------------------------------------------------------------------------------ *)
(* 0. the generated tables are the ones the model was written for                              *)
(* ------------------------------------------------------------------------------------------ *)
Lemma pattern_is_expected :
  trim_pattern_src = "(^0+\.)|(\.0+$)|(^[0\-.: ]+[\-: ])|([\-:. ][0\-.: ]+$)" /\ trim_pattern_flags = 32%Z.
Proof. split; reflexivity. Qed.

Lemma labels_are_expected : interval_labels = label_names.
Proof. reflexivity. Qed.

Lemma units_are_expected :
  interval_units = ["years"; "months"; "days"; "hours"; "minutes"; "seconds"; "microseconds"].
Proof. reflexivity. Qed.

Lemma dialects_are_expected :
  dialect_members = map dialect_name
    [DVertica; DClickhouse; DOracle; DMssql; DMysql; DPostgresql; DRedshift; DSqlite; DSnowflake].
Proof. reflexivity. Qed.

(* every dialect's template is the one the property asks for (quotes around expr and unit for
   PostgreSQL/Redshift/Vertica and by default, around expr only for Oracle/MySQL) *)
Lemma sapp_nil : forall s : string, s ++ "" = s.
Proof. induction s; simpl; congruence. Qed.

Lemma template_is_spec : forall d e u, fmt_template 0 (template_of d) e u = template_spec d e u.
Proof.
  intros [[]|] e u; try reflexivity;
    (transitivity ("INTERVAL '" ++ e ++ "' " ++ u ++ ""); [reflexivity|rewrite sapp_nil; reflexivity]).
Qed.

(* ------------------------------------------------------------------------------------------ *)
(* 1. characters                                                                               *)
(* ------------------------------------------------------------------------------------------ *)
Definition nz_digit (c : ascii) : bool := is_digit c && negb (is_zero c).

Lemma digit_facts : forall c, is_digit c = true -> ch c "." = false /\ is_d4 c = false /\ ch c "-" = false.
Proof. intros c; destruct c as [[|][|][|][|][|][|][|][|]]; vm_compute; intuition discriminate. Qed.

Lemma nz_digit_facts : forall c, nz_digit c = true ->
  is_digit c = true /\ is_zero c = false /\ in_cls c = false.
Proof. intros c; destruct c as [[|][|][|][|][|][|][|][|]]; vm_compute; intuition discriminate. Qed.

Lemma d3_cls : forall c, is_d3 c = true -> in_cls c = true.
Proof. intros c; destruct c as [[|][|][|][|][|][|][|][|]]; vm_compute; intuition discriminate. Qed.

Lemma zero_cls : forall c, is_zero c = true -> in_cls c = true.
Proof. intros c; destruct c as [[|][|][|][|][|][|][|][|]]; vm_compute; intuition discriminate. Qed.

Lemma all_chars_app : forall p a b, all_chars p (a ++ b) = all_chars p a && all_chars p b.
Proof. induction a; intros; simpl; [reflexivity|]. rewrite IHa, andb_assoc. reflexivity. Qed.

Lemma all_zero_cls : forall s, all_chars is_zero s = true -> all_chars in_cls s = true.
Proof.
  induction s; simpl; intros H; [reflexivity|].
  apply andb_true_iff in H as [H1 H2]. rewrite (zero_cls _ H1), (IHs H2). reflexivity.
Qed.

(* ------------------------------------------------------------------------------------------ *)
(* 2. decimal texts (Python str(int))                                                          *)
(* ------------------------------------------------------------------------------------------ *)
Definition pos_text (s : string) : Prop :=
  exists c r, s = String c r /\ nz_digit c = true /\ all_chars is_digit r = true.

Definition hd_nonzero (u : uint) : Prop := match u with Nil | D0 _ => False | _ => True end.

Lemma nzhead_shape : forall d, nzhead d = Nil \/ hd_nonzero (nzhead d).
Proof. induction d; simpl; auto. Qed.

Lemma to_uint_hd_nonzero : forall p, hd_nonzero (Pos.to_uint p).
Proof.
  intros p.
  assert (E : unorm (Pos.to_uint p) = Pos.to_uint p).
  { rewrite <- (DecimalPos.Unsigned.to_of (Pos.to_uint p)), DecimalPos.Unsigned.of_to. reflexivity. }
  unfold unorm in E. destruct (nzhead_shape (Pos.to_uint p)) as [H|H].
  - rewrite H in E. exfalso. apply (DecimalPos.Unsigned.to_uint_nonzero p). symmetry. exact E.
  - destruct (nzhead (Pos.to_uint p)) eqn:N; try contradiction; rewrite <- E; exact I.
Qed.

Lemma uint_text_digits : forall d, all_chars is_digit (NilEmpty.string_of_uint d) = true.
Proof. induction d; simpl; auto. Qed.

Lemma uint_pos_text : forall d, hd_nonzero d -> pos_text (NilZero.string_of_uint d).
Proof.
  intros d H. destruct d; try contradiction; simpl;
    (eexists; eexists; split; [reflexivity|split; [reflexivity|apply uint_text_digits]]).
Qed.

Lemma Z_to_string_pos : forall z, (0 < z)%Z -> pos_text (Z_to_string z).
Proof.
  intros z Hz. destruct z as [|p|p]; try lia.
  unfold Z_to_string. simpl. apply uint_pos_text, to_uint_hd_nonzero.
Qed.

Lemma Z_to_string_0 : Z_to_string 0 = "0".
Proof. reflexivity. Qed.

Lemma Z_to_string_neg : forall z, (z < 0)%Z -> Z_to_string z = String "-" (Z_to_string (- z)).
Proof. intros z Hz. destruct z as [|p|p]; try lia. reflexivity. Qed.

Lemma Z_of_to_string : forall z, Z_of_string (Z_to_string z) = Some z.
Proof.
  intros z. unfold Z_of_string, Z_to_string.
  rewrite NilZero.isi.
  - simpl. rewrite DecimalZ.of_to. reflexivity.
  - destruct z; simpl; try discriminate. intros [= E]. exact (DecimalPos.Unsigned.to_uint_nonnil _ E).
  - destruct z; simpl; try discriminate. intros [= E]. exact (DecimalPos.Unsigned.to_uint_nonnil _ E).
Qed.

Lemma pos_text_digits : forall s, pos_text s -> all_chars is_digit s = true /\ s <> "".
Proof.
  intros s (c & r & -> & Hc & Hr). split; [|discriminate].
  simpl. destruct (nz_digit_facts _ Hc) as (Hd & _). rewrite Hd, Hr. reflexivity.
Qed.

(* the text of a non-negative integer: non-empty, digits only *)
Lemma nonneg_text : forall z, (0 <= z)%Z -> all_chars is_digit (Z_to_string z) = true /\ Z_to_string z <> "".
Proof.
  intros z Hz. destruct (Z.eq_dec z 0) as [->|Hn].
  - split; [reflexivity|discriminate].
  - apply pos_text_digits, Z_to_string_pos. lia.
Qed.

(* ------------------------------------------------------------------------------------------ *)
(* 3. the regular expression on   Z ++ K0 ++ L ++ T                                            *)
(*    Z: deleted zero fields in front, K0 ++ L: kept text ending in a positive number L,       *)
(*    T: deleted zero fields behind                                                            *)
(* ------------------------------------------------------------------------------------------ *)
Lemma alt24_false : forall c t, all_chars in_cls t = false -> alt2 (String c t) || alt4 (String c t) = false.
Proof.
  intros c t H. destruct t as [|z r]; [discriminate|]. simpl in H. simpl.
  destruct (is_zero z && all_chars is_zero r) eqn:E.
  - apply andb_true_iff in E as [E1 E2]. rewrite (zero_cls _ E1), (all_zero_cls _ E2) in H. discriminate.
  - rewrite <- !andb_assoc, E, H, !andb_false_r. reflexivity.
Qed.

Lemma trim_tail_keep : forall u w, all_chars in_cls w = false -> trim_tail (u ++ w) = u ++ trim_tail w.
Proof.
  induction u as [|c u IH]; intros w H; [reflexivity|].
  change (String c u ++ w) with (String c (u ++ w)).
  unfold trim_tail; fold trim_tail.
  rewrite alt24_false.
  - rewrite IH by exact H. reflexivity.
  - rewrite all_chars_app, H, andb_false_r. reflexivity.
Qed.

Lemma trim_tail_digits : forall u w, all_chars is_digit u = true -> trim_tail (u ++ w) = u ++ trim_tail w.
Proof.
  induction u as [|c u IH]; intros w H; [reflexivity|].
  simpl in H. apply andb_true_iff in H as [Hc Hu].
  change (String c u ++ w) with (String c (u ++ w)).
  unfold trim_tail; fold trim_tail.
  destruct (digit_facts _ Hc) as (H1 & H2 & _).
  assert (E : alt2 (String c (u ++ w)) || alt4 (String c (u ++ w)) = false).
  { unfold alt2, alt4. destruct (u ++ w); [reflexivity|]. rewrite H1, H2. reflexivity. }
  rewrite E, IH by exact Hu. reflexivity.
Qed.

(* the deleted tail: empty, or a delimiter followed by class characters only *)
Definition Tcond (t : string) : bool := match t with EmptyString => true | _ => alt4 t end.

Lemma trim_tail_T : forall t, Tcond t = true -> trim_tail t = "".
Proof.
  intros [|c r] H; [reflexivity|]. change (alt4 (String c r) = true) in H.
  unfold trim_tail; fold trim_tail. rewrite H, orb_true_r. reflexivity.
Qed.

Lemma pos_text_noncls : forall l w, pos_text l -> all_chars in_cls (l ++ w) = false.
Proof.
  intros l w (c & r & -> & Hc & _). simpl.
  destruct (nz_digit_facts _ Hc) as (_ & _ & H). rewrite H. reflexivity.
Qed.

Lemma trim_tail_KLT : forall k0 l t, pos_text l -> Tcond t = true -> trim_tail (k0 ++ l ++ t) = k0 ++ l.
Proof.
  intros k0 l t Hl Ht.
  rewrite trim_tail_keep by (apply pos_text_noncls; exact Hl).
  rewrite trim_tail_digits by (apply pos_text_digits; exact Hl).
  rewrite trim_tail_T by exact Ht.
  rewrite sapp_nil. reflexivity.
Qed.

Lemma alt3_go_last : forall z1 d c w best,
  all_chars in_cls z1 = true -> is_d3 d = true -> in_cls c = false ->
  alt3_go (z1 ++ String d (String c w)) best = Some (String c w).
Proof.
  induction z1 as [|a z1 IH]; intros d c w best Hz Hd Hc.
  - simpl. rewrite (d3_cls _ Hd), Hd, Hc. reflexivity.
  - simpl in Hz. apply andb_true_iff in Hz as [Ha Hz].
    change (String a z1 ++ String d (String c w)) with (String a (z1 ++ String d (String c w))).
    unfold alt3_go; fold alt3_go. rewrite Ha. apply IH; assumption.
Qed.

(* a non-empty deleted head: class characters, at least two, the last one in [\-: ] *)
Lemma trim_head : forall a z1 d c w,
  in_cls a = true -> all_chars in_cls z1 = true -> is_d3 d = true -> in_cls c = false ->
  alt1 (String a (z1 ++ String d (String c w))) = None ->
  alt2 (String a (z1 ++ String d (String c w))) = false ->
  trim (String a (z1 ++ String d (String c w))) = trim_tail (String c w).
Proof.
  intros a z1 d c w Ha Hz Hd Hc H1 H2. unfold trim. rewrite H1, H2.
  unfold alt3. rewrite Ha, alt3_go_last by assumption. reflexivity.
Qed.

Lemma trim_nohead : forall c w, nz_digit c = true -> trim (String c w) = trim_tail (String c w).
Proof.
  intros c w Hc. destruct (nz_digit_facts _ Hc) as (Hd & Hz & Hcls).
  destruct (digit_facts _ Hd) as (Hdot & H4 & _).
  unfold trim, alt1, alt3. rewrite Hz, Hcls.
  unfold trim_tail; fold trim_tail.
  assert (E2 : alt2 (String c w) = false) by (unfold alt2; destruct w; [reflexivity|]; rewrite Hdot; reflexivity).
  assert (E4 : alt4 (String c w) = false) by (unfold alt4; destruct w; [reflexivity|]; rewrite H4; reflexivity).
  rewrite E2, E4. reflexivity.
Qed.

(* ------------------------------------------------------------------------------------------ *)
(* 4. fields joined by delimiters; zero fields in front and behind                             *)
(* ------------------------------------------------------------------------------------------ *)
Lemma sapp_assoc : forall a b c : string, (a ++ b) ++ c = a ++ (b ++ c).
Proof. induction a; intros; simpl; congruence. Qed.

Fixpoint ijoin (ts : list string) (ds : list ascii) : string :=
  match ts with
  | [] => ""
  | t :: ts' =>
      match ts' with
      | [] => t
      | _ :: _ => match ds with
                  | [] => t ++ ijoin ts' []
                  | d :: ds' => t ++ String d (ijoin ts' ds')
                  end
      end
  end.

Fixpoint zpart (n : nat) (ds : list ascii) : string :=
  match n, ds with S n', d :: ds' => String "0" (String d (zpart n' ds')) | _, _ => "" end.
Fixpoint tpart (m : nat) (ds : list ascii) : string :=
  match m, ds with S m', d :: ds' => String d (String "0" (tpart m' ds')) | _, _ => "" end.

Lemma ijoin_cons2 : forall t t2 r d ds,
  ijoin (t :: t2 :: r) (d :: ds) = t ++ String d (ijoin (t2 :: r) ds).
Proof. reflexivity. Qed.

Lemma ijoin_zeros_l : forall n ds t r, n <= List.length ds ->
  ijoin (repeat "0" n ++ t :: r)%list ds = zpart n ds ++ ijoin (t :: r) (skipn n ds).
Proof.
  induction n as [|n IH]; intros ds t r H; [reflexivity|].
  destruct ds as [|d ds]; [simpl in H; lia|]. simpl in H.
  change (repeat "0" (S n) ++ t :: r)%list with ("0" :: (repeat "0" n ++ t :: r))%list.
  destruct (repeat "0" n ++ t :: r)%list as [|x y] eqn:E.
  - destruct n; discriminate.
  - rewrite ijoin_cons2, <- E, IH by lia. reflexivity.
Qed.

Lemma ijoin_zeros_only : forall m ds t, m <= List.length ds ->
  ijoin (t :: repeat "0" m) ds = t ++ tpart m ds.
Proof.
  induction m as [|m IH]; intros ds t H.
  - simpl. rewrite sapp_nil. reflexivity.
  - destruct ds as [|d ds]; [simpl in H; lia|]. simpl in H.
    change (repeat "0" (S m)) with ("0" :: repeat "0" m).
    rewrite ijoin_cons2, IH by lia. reflexivity.
Qed.

Lemma ijoin_zeros_r : forall r t ds m, List.length r + m <= List.length ds ->
  ijoin ((t :: r) ++ repeat "0" m)%list ds = ijoin (t :: r) ds ++ tpart m (skipn (List.length r) ds).
Proof.
  induction r as [|t2 r IH]; intros t ds m H.
  - simpl app. simpl List.length. simpl skipn. apply ijoin_zeros_only. simpl in H. lia.
  - destruct ds as [|d ds]; [simpl in H; lia|]. simpl in H.
    change ((t :: t2 :: r) ++ repeat "0" m)%list with (t :: ((t2 :: r) ++ repeat "0" m))%list.
    change ((t2 :: r) ++ repeat "0" m)%list with (t2 :: (r ++ repeat "0" m))%list.
    rewrite ijoin_cons2.
    change (t2 :: (r ++ repeat "0" m))%list with ((t2 :: r) ++ repeat "0" m)%list.
    rewrite IH by lia. rewrite ijoin_cons2. simpl List.length. simpl skipn.
    rewrite sapp_assoc. reflexivity.
Qed.

Lemma ijoin_firstn : forall r t ds, List.length r <= List.length ds ->
  ijoin (t :: r) (firstn (List.length r) ds) = ijoin (t :: r) ds.
Proof.
  induction r as [|t2 r IH]; intros t ds H; [reflexivity|].
  destruct ds as [|d ds]; [simpl in H; lia|]. simpl in H.
  simpl List.length. simpl firstn. rewrite !ijoin_cons2, IH by lia. reflexivity.
Qed.

Lemma ijoin_last : forall r t ds, exists k0, ijoin (t :: r) ds = k0 ++ last (t :: r) t.
Proof.
  induction r as [|t2 r IH]; intros t ds.
  - exists "". reflexivity.
  - destruct (IH t2 (tl ds)) as [k0 E]. 
    assert (L : last (t :: t2 :: r) t = last (t2 :: r) t2).
    { clear. revert t t2. induction r; intros; [reflexivity|]. 
      change (last (t :: t2 :: a :: r) t) with (last (t2 :: a :: r) t).
      change (last (t2 :: a :: r) t) with (last (a :: r) t).
      change (last (t2 :: a :: r) t2) with (last (a :: r) t2).
      clear. revert a. induction r; intros; [reflexivity|].
      change (last (a0 :: a :: r) t) with (last (a :: r) t).
      change (last (a0 :: a :: r) t2) with (last (a :: r) t2). apply IHr. }
    rewrite L. destruct ds as [|d ds].
    + exists (t ++ k0). simpl tl in E. change (ijoin (t :: t2 :: r) []) with (t ++ ijoin (t2 :: r) []).
      rewrite E, sapp_assoc. reflexivity.
    + exists (t ++ String d k0). simpl tl in E. rewrite ijoin_cons2, E, sapp_assoc. reflexivity.
Qed.

(* ---- reading the joined fields back ---- *)
Lemma span_digits_app : forall u w, all_chars is_digit u = true ->
  match w with EmptyString => True | String c _ => is_digit c = false end ->
  span_digits (u ++ w) = (u, w).
Proof.
  induction u as [|c u IH]; intros w Hu Hw.
  - simpl. destruct w; [reflexivity|]. simpl. rewrite Hw. reflexivity.
  - simpl in Hu. apply andb_true_iff in Hu as [Hc Hu]. simpl. rewrite Hc, IH by assumption. reflexivity.
Qed.

Lemma read_fields_ijoin : forall r t ds, List.length ds = List.length r ->
  (0 <= t)%Z -> Forall (fun v => 0 <= v)%Z r -> forallb (fun d => negb (is_digit d)) ds = true ->
  read_fields ds (ijoin (map Z_to_string (t :: r)) ds) = Some (t :: r).
Proof.
  induction r as [|t2 r IH]; intros t ds Hl Ht Hr Hd.
  - destruct ds; [|discriminate]. simpl.
    destruct (nonneg_text t Ht) as [Hdg Hne].
    rewrite <- (sapp_nil (Z_to_string t)) at 1. rewrite span_digits_app by (auto; exact I).
    destruct (Z_to_string t) eqn:E; [congruence|]. rewrite <- E, Z_of_to_string. reflexivity.
  - destruct ds as [|d ds]; [discriminate|]. simpl in Hl. injection Hl as Hl.
    simpl in Hd. apply andb_true_iff in Hd as [Hd1 Hd]. apply negb_true_iff in Hd1.
    inversion Hr as [|? ? Ht2 Hr']; subst.
    change (map Z_to_string (t :: t2 :: r)) with (Z_to_string t :: Z_to_string t2 :: map Z_to_string r).
    rewrite ijoin_cons2.
    destruct (nonneg_text t Ht) as [Hdg Hne].
    unfold read_fields; fold read_fields.
    rewrite span_digits_app by assumption.
    destruct (Z_to_string t) eqn:E; [congruence|]. rewrite <- E, Z_of_to_string, Ascii.eqb_refl.
    change (Z_to_string t2 :: map Z_to_string r) with (map Z_to_string (t2 :: r)).
    rewrite IH by assumption. reflexivity.
Qed.

(* ------------------------------------------------------------------------------------------ *)
(* 5. lists of field values: leading / trailing zeros                                          *)
(* ------------------------------------------------------------------------------------------ *)
Lemma decomp_lead : forall l, l = (repeat 0%Z (lead0 l) ++ strip0 l)%list.
Proof.
  induction l as [|v l IH]; [reflexivity|]. simpl.
  destruct (Z.eqb_spec v 0); [subst; simpl; congruence|reflexivity].
Qed.

Lemma strip0_hd : forall l, match strip0 l with [] => True | v :: _ => v <> 0%Z end.
Proof.
  induction l as [|v l IH]; simpl; [exact I|].
  destruct (Z.eqb_spec v 0); [exact IH|assumption].
Qed.

Lemma strip0_nonempty : forall l, not_all_zero l = true -> strip0 l <> [].
Proof.
  induction l as [|v l IH]; simpl; [discriminate|]. unfold truthy.
  destruct (Z.eqb_spec v 0); simpl; [exact IH|discriminate].
Qed.

Lemma rev_repeat0 : forall n, rev (repeat 0%Z n) = repeat 0%Z n.
Proof.
  induction n; [reflexivity|]. simpl. rewrite IHn. clear.
  induction n; [reflexivity|]. simpl. rewrite IHn. reflexivity.
Qed.

Lemma not_all_zero_app : forall a b, not_all_zero (a ++ b)%list = not_all_zero a || not_all_zero b.
Proof. intros. unfold not_all_zero. apply existsb_app. Qed.

Lemma not_all_zero_rev : forall l, not_all_zero (rev l) = not_all_zero l.
Proof.
  induction l as [|v l IH]; [reflexivity|]. simpl rev. rewrite not_all_zero_app, IH.
  simpl. rewrite orb_false_r. apply orb_comm.
Qed.

Lemma decomp_kept : forall l, strip0 l = (kept l ++ repeat 0%Z (lead0 (rev (strip0 l))))%list.
Proof.
  intros l. unfold kept.
  rewrite <- rev_repeat0, <- rev_app_distr, <- decomp_lead, rev_involutive. reflexivity.
Qed.

Lemma last_rev_hd : forall (l : list Z) d, last (rev l) d = hd d l.
Proof.
  intros [|v l] d; [reflexivity|]. simpl rev. apply last_last.
Qed.

Lemma hd_app_nonempty : forall (a b : list Z) d, a <> [] -> hd d (a ++ b)%list = hd d a.
Proof. intros [|x a] b d H; [congruence|reflexivity]. Qed.

(* the decomposition  l = 0..0 ++ (k0 :: r) ++ 0..0  with k0 and the last kept value non-zero *)
Lemma decomp : forall l, not_all_zero l = true ->
  exists k0 r, kept l = k0 :: r /\ k0 <> 0%Z /\ last (k0 :: r) k0 <> 0%Z /\
    l = (repeat 0%Z (lead0 l) ++ (k0 :: r) ++ repeat 0%Z (List.length l - lead0 l - S (List.length r)))%list.
Proof.
  intros l H.
  pose proof (strip0_nonempty l H) as Hne.
  pose proof (strip0_hd l) as Hhd.
  destruct (strip0 l) as [|h s] eqn:Es; [congruence|].
  assert (Hk : not_all_zero (rev (h :: s)) = true).
  { rewrite not_all_zero_rev. simpl. unfold truthy. destruct (Z.eqb_spec h 0); [congruence|reflexivity]. }
  pose proof (strip0_nonempty _ Hk) as Hne2.
  pose proof (strip0_hd (rev (h :: s))) as Hhd2.
  pose proof (decomp_kept l) as D. rewrite Es in D.
  assert (Kne : kept l <> []).
  { unfold kept. rewrite Es. intro E. apply Hne2. apply (f_equal (@rev Z)) in E.
    rewrite rev_involutive in E. exact E. }
  destruct (kept l) as [|k0 r] eqn:Ek; [congruence|].
  exists k0, r. split; [reflexivity|].
  assert (Hk0 : k0 = h).
  { apply (f_equal (hd 0%Z)) in D. simpl in D. congruence. }
  split; [congruence|]. split.
  - unfold kept in Ek. rewrite Es in Ek. rewrite <- Ek, last_rev_hd.
    destruct (strip0 (rev (h :: s))) as [|x y]; [congruence|]. simpl. exact Hhd2.
  - pose proof (decomp_lead l) as DL. rewrite Es, D in DL.
    assert (Hlen : List.length l = (lead0 l + (S (List.length r) + lead0 (rev (h :: s))))%nat).
    { rewrite DL at 1. rewrite !app_length, !repeat_length. simpl. reflexivity. }
    replace (List.length l - lead0 l - S (List.length r))%nat with (lead0 (rev (h :: s))) by lia.
    exact DL.
Qed.

(* ------------------------------------------------------------------------------------------ *)
(* 6. the trimmed expression of  0..0 k0 r 0..0  is exactly the kept fields                     *)
(* ------------------------------------------------------------------------------------------ *)
Lemma map_repeat0 : forall k, map Z_to_string (repeat 0%Z k) = repeat "0" k.
Proof. induction k; [reflexivity|]. simpl repeat. simpl map. rewrite IHk. reflexivity. Qed.

Lemma last_map : forall (l : list Z) d, last (map Z_to_string l) (Z_to_string d) = Z_to_string (last l d).
Proof.
  induction l as [|x l IH]; intros d; [reflexivity|].
  destruct l as [|y l]; [reflexivity|].
  change (last (map Z_to_string (x :: y :: l)) (Z_to_string d)) with (last (map Z_to_string (y :: l)) (Z_to_string d)).
  change (last (x :: y :: l) d) with (last (y :: l) d). apply IH.
Qed.

Lemma last_default : forall (l : list Z) x d d', last (x :: l) d = last (x :: l) d'.
Proof.
  induction l as [|y l IH]; intros; [reflexivity|].
  change (last (x :: y :: l) d) with (last (y :: l) d).
  change (last (x :: y :: l) d') with (last (y :: l) d'). apply IH.
Qed.

Lemma ijoin_hd : forall r t ds, exists w, ijoin (t :: r) ds = t ++ w.
Proof.
  intros [|t2 r] t ds.
  - exists "". simpl. rewrite sapp_nil. reflexivity.
  - destruct ds as [|d ds]; eexists; reflexivity.
Qed.

Lemma Tcond_fields : forall a n m, a + S n + m = 7 ->
  Tcond (tpart m (skipn n (skipn a field_delims))) = true.
Proof.
  intros a n m H.
  destruct a as [|[|[|[|[|[|[|a]]]]]]]; try lia;
  destruct n as [|[|[|[|[|[|[|n]]]]]]]; try lia;
  match goal with |- Tcond (tpart _ (skipn ?x (skipn ?y _))) = _ =>
    assert (E : m = 6 - x - y) by lia end; subst m; reflexivity.
Qed.

Lemma Zcond_fields : forall a, 1 <= a <= 5 ->
  exists z1 d, all_chars in_cls z1 = true /\ is_d3 d = true /\
    forall c w, zpart a field_delims ++ String c w = String "0" (z1 ++ String d (String c w)) /\
                alt1 (String "0" (z1 ++ String d (String c w))) = None /\
                alt2 (String "0" (z1 ++ String d (String c w))) = false.
Proof.
  intros a H.
  destruct a as [|[|[|[|[|[|a]]]]]]; try lia.
  - exists "", "-"%char. repeat split; reflexivity.
  - exists "-0", "-"%char. repeat split; reflexivity.
  - exists "-0-0", " "%char. repeat split; reflexivity.
  - exists "-0-0 0", ":"%char. repeat split; reflexivity.
  - exists "-0-0 0:0", ":"%char. repeat split; reflexivity.
Qed.

Lemma trim_fields : forall a n m k0 r,
  a + S n + m = 7 -> List.length r = n -> a <= 5 ->
  (0 < k0)%Z -> Forall (fun v => 0 <= v)%Z r -> (0 < last (k0 :: r) k0)%Z ->
  trim (ijoin (map Z_to_string (repeat 0%Z a ++ (k0 :: r) ++ repeat 0%Z m)%list) field_delims)
  = ijoin (map Z_to_string (k0 :: r)) (firstn n (skipn a field_delims)).
Proof.
  intros a n m k0 r Hsum Hn Ha Hk0 Hr Hlast.
  rewrite !map_app, !map_repeat0.
  change (map Z_to_string (k0 :: r)) with (Z_to_string k0 :: map Z_to_string r).
  assert (Hlen : List.length (map Z_to_string r) = n) by (rewrite map_length; exact Hn).
  rewrite <- app_comm_cons.
  rewrite ijoin_zeros_l by (change (List.length field_delims) with 6; lia).
  rewrite app_comm_cons.
  rewrite ijoin_zeros_r by (rewrite skipn_length, Hlen; change (List.length field_delims) with 6; lia).
  rewrite Hlen.
  pose proof (Tcond_fields a n m Hsum) as HT.
  set (T := tpart m (skipn n (skipn a field_delims))) in *.
  rewrite <- Hlen at 1. rewrite ijoin_firstn by (rewrite skipn_length, Hlen; change (List.length field_delims) with 6; lia).
  set (K := ijoin (Z_to_string k0 :: map Z_to_string r) (skipn a field_delims)).
  destruct (ijoin_last (map Z_to_string r) (Z_to_string k0) (skipn a field_delims)) as [K0 EK].
  fold K in EK.
  assert (HL : pos_text (last (Z_to_string k0 :: map Z_to_string r) (Z_to_string k0))).
  { change (Z_to_string k0 :: map Z_to_string r) with (map Z_to_string (k0 :: r)).
    rewrite last_map. apply Z_to_string_pos. exact Hlast. }
  set (L := last (Z_to_string k0 :: map Z_to_string r) (Z_to_string k0)) in *.
  destruct (ijoin_hd (map Z_to_string r) (Z_to_string k0) (skipn a field_delims)) as [w Ew].
  fold K in Ew.
  destruct (Z_to_string_pos k0 Hk0) as (c & t' & Et & Hc & Ht').
  assert (EKT : K ++ T = String c (t' ++ w ++ T)).
  { rewrite Ew, Et, sapp_assoc. reflexivity. }
  assert (Htt : trim_tail (K ++ T) = K).
  { rewrite EK, sapp_assoc. apply trim_tail_KLT; assumption. }
  destruct a as [|a'].
  - change (zpart 0 field_delims) with "". change ("" ++ (K ++ T)) with (K ++ T).
    rewrite EKT, trim_nohead, <- EKT by exact Hc. exact Htt.
  - destruct (Zcond_fields (S a') ltac:(lia)) as (z1 & d & Hz1 & Hd & Hshape).
    rewrite EKT. destruct (Hshape c (t' ++ w ++ T)) as (E1 & E2 & E3).
    rewrite E1, trim_head; try assumption.
    + rewrite <- EKT. exact Htt.
    + reflexivity.
    + destruct (nz_digit_facts _ Hc) as (_ & _ & Hcls). exact Hcls.
Qed.

(* ------------------------------------------------------------------------------------------ *)
(* 7. Interval.__init__: largest / smallest / sign from the loop                                *)
(* ------------------------------------------------------------------------------------------ *)
Lemma scan_zeros : forall a ls rest lg sm neg,
  scan_fields (combine ls (repeat 0%Z a ++ rest)%list) lg sm neg
  = scan_fields (combine (skipn a ls) rest) lg sm neg.
Proof.
  induction a as [|a IH]; intros ls rest lg sm neg; [reflexivity|].
  destruct ls as [|l ls]; [reflexivity|].
  simpl. apply IH.
Qed.

Definition upd_smallest (s : option string) (p : string * Z) : option string :=
  if truthy (snd p) then Some (fst p) else s.

Lemma scan_phase2 : forall lv lg sm neg,
  scan_fields lv (Some lg) sm neg = (Some lg, fold_left upd_smallest lv sm, neg).
Proof.
  induction lv as [|[l v] lv IH]; intros lg sm neg; [reflexivity|].
  simpl. unfold upd_smallest at 2. simpl. destruct (truthy v); apply IH.
Qed.

Lemma fold_zeros : forall m ls acc, fold_left upd_smallest (combine ls (repeat 0%Z m)) acc = acc.
Proof.
  induction m as [|m IH]; intros ls acc; [destruct ls; reflexivity|].
  destruct ls as [|l ls]; [reflexivity|]. simpl. apply IH.
Qed.

Lemma fold_smallest : forall r x l0 ls m acc,
  last (x :: r) x <> 0%Z -> List.length r <= List.length ls ->
  fold_left upd_smallest (combine (l0 :: ls) ((x :: r) ++ repeat 0%Z m)%list) acc
  = Some (nth (List.length r) (l0 :: ls) "").
Proof.
  induction r as [|y r IH]; intros x l0 ls m acc Hl Hlen.
  - simpl in Hl. simpl. rewrite fold_zeros. unfold upd_smallest, truthy. simpl.
    destruct (Z.eqb_spec x 0); [congruence|reflexivity].
  - destruct ls as [|l1 ls]; [simpl in Hlen; lia|]. simpl in Hlen.
    change (last (x :: y :: r) x) with (last (y :: r) x) in Hl.
    rewrite (last_default r y x y) in Hl.
    change (combine (l0 :: l1 :: ls) ((x :: y :: r) ++ repeat 0%Z m)%list)
      with ((l0, x) :: combine (l1 :: ls) ((y :: r) ++ repeat 0%Z m)%list).
    cbn [fold_left]. rewrite IH by (auto; lia). reflexivity.
Qed.

Lemma scan_decomp : forall ls a k0 r m,
  k0 <> 0%Z -> last (k0 :: r) k0 <> 0%Z -> List.length ls = a + S (List.length r) + m ->
  scan_fields (combine ls (repeat 0%Z a ++ (k0 :: r) ++ repeat 0%Z m)%list) None None false
  = (Some (nth a ls ""), Some (nth (a + List.length r) ls ""), (k0 <? 0)%Z).
Proof.
  intros ls a k0 r m Hk Hl Hlen. rewrite scan_zeros.
  assert (E : exists l0 ls', skipn a ls = l0 :: ls' /\ List.length ls' = List.length r + m
                             /\ forall k, nth k (l0 :: ls') "" = nth (a + k) ls "").
  { clear - Hlen. revert ls Hlen. induction a as [|a IH]; intros ls Hlen.
    - destruct ls as [|l0 ls']; [simpl in Hlen; lia|]. exists l0, ls'. simpl in Hlen.
      split; [reflexivity|split; [lia|intros; reflexivity]].
    - destruct ls as [|l ls]; [simpl in Hlen; lia|]. simpl in Hlen.
      destruct (IH ls ltac:(lia)) as (l0 & ls' & E1 & E2 & E3). exists l0, ls'. split; [exact E1|split; [exact E2|exact E3]]. }
  destruct E as (l0 & ls' & E1 & E2 & E3). rewrite E1.
  change (combine (l0 :: ls') ((k0 :: r) ++ repeat 0%Z m)%list)
    with ((l0, k0) :: combine ls' (r ++ repeat 0%Z m)%list).
  unfold scan_fields; fold scan_fields. unfold truthy at 1.
  destruct (Z.eqb_spec k0 0) as [|_]; [congruence|]. simpl negb. cbv iota.
  rewrite scan_phase2.
  assert (F : fold_left upd_smallest (combine ls' (r ++ repeat 0%Z m)%list) (Some l0)
              = Some (nth (List.length r) (l0 :: ls') "")).
  { pose proof (fold_smallest r k0 l0 ls' m None Hl ltac:(lia)) as F.
    change (combine (l0 :: ls') ((k0 :: r) ++ repeat 0%Z m)%list)
      with ((l0, k0) :: combine ls' (r ++ repeat 0%Z m)%list) in F.
    simpl fold_left in F. unfold upd_smallest at 2 in F. unfold truthy at 1 in F. simpl snd in F.
    destruct (Z.eqb_spec k0 0) as [|_]; [congruence|]. exact F. }
  rewrite F, E3. pose proof (E3 0) as E0. rewrite Nat.add_0_r in E0. simpl in E0. rewrite E0. reflexivity.
Qed.

(* under a uniform sign every non-zero field has the sign of the whole *)
Lemma uniform_neg : forall l v, uniform_sign l = true -> In v l -> v <> 0%Z -> (v <? 0)%Z = has_neg l.
Proof.
  intros l v Hu Hin Hv. unfold uniform_sign in Hu. apply orb_true_iff in Hu as [Hu|Hu].
  - rewrite forallb_forall in Hu. pose proof (Hu v Hin) as H1. apply Z.leb_le in H1.
    assert (E : has_neg l = false).
    { unfold has_neg. apply not_true_is_false. intro E. apply existsb_exists in E as (x & Hx & Hx').
      specialize (Hu x Hx). apply Z.leb_le in Hu. apply Z.ltb_lt in Hx'. lia. }
    rewrite E. apply Z.ltb_ge. exact H1.
  - rewrite forallb_forall in Hu. pose proof (Hu v Hin) as H1. apply Z.leb_le in H1.
    assert (E : (v <? 0)%Z = true) by (apply Z.ltb_lt; lia).
    rewrite E. symmetry. unfold has_neg. apply existsb_exists. exists v. split; assumption.
Qed.

(* ------------------------------------------------------------------------------------------ *)
(* 8. Interval.get_sql                                                                         *)
(* ------------------------------------------------------------------------------------------ *)
Lemma field_attr_abs : forall v, match field_attr v with Some x => x | None => 0%Z end = Z.abs v.
Proof. intros v. unfold field_attr, truthy. destruct (Z.eqb_spec v 0); subst; reflexivity. Qed.

Lemma raw7 : forall d lg sm neg q w l, List.length l = 7 ->
  raw_expr (mkInterval d lg sm neg (map field_attr l) q w)
  = ijoin (map Z_to_string (map Z.abs l)) field_delims.
Proof.
  intros d lg sm neg q w l H.
  do 8 (destruct l as [|? l]; try discriminate H).
  unfold raw_expr, getf. simpl iv_fields. simpl nth. rewrite !field_attr_abs. reflexivity.
Qed.

Lemma map_abs_repeat0 : forall k, map Z.abs (repeat 0%Z k) = repeat 0%Z k.
Proof. induction k; simpl; congruence. Qed.

Lemma last_map_abs : forall (l : list Z) d, last (map Z.abs l) (Z.abs d) = Z.abs (last l d).
Proof.
  induction l as [|x l IH]; intros d; [reflexivity|].
  destruct l as [|y l]; [reflexivity|].
  change (last (map Z.abs (x :: y :: l)) (Z.abs d)) with (last (map Z.abs (y :: l)) (Z.abs d)).
  change (last (x :: y :: l) d) with (last (y :: l) d). apply IH.
Qed.

Lemma forallb_skipn : forall (p : ascii -> bool) a l, forallb p l = true -> forallb p (skipn a l) = true.
Proof.
  induction a as [|a IH]; intros l H; [exact H|]. destruct l as [|x l]; [reflexivity|].
  simpl in H. apply andb_true_iff in H as [_ H]. simpl. apply IH, H.
Qed.

Lemma forallb_firstn : forall (p : ascii -> bool) n l, forallb p l = true -> forallb p (firstn n l) = true.
Proof.
  induction n as [|n IH]; intros l H; [reflexivity|]. destruct l as [|x l]; [reflexivity|].
  simpl in H. apply andb_true_iff in H as [H1 H]. simpl. rewrite H1. apply IH, H.
Qed.

Lemma unit_facts : forall a b, a <= b -> b <= 6 ->
  (match (if option_eqb String.eqb (Some (nth a interval_labels "")) (Some (nth b interval_labels ""))
          then Some (nth a interval_labels "")
          else Some (py_str_opt (Some (nth a interval_labels "")) ++ "_" ++ py_str_opt (Some (nth b interval_labels ""))))
   with Some u => u | None => "DAY" end) = unit_name a b
  /\ unit_span (unit_name a b) = Some (a, b)
  /\ (String.eqb (unit_name a b) "QUARTER" || String.eqb (unit_name a b) "WEEK") = false
  /\ option_eqb String.eqb (Some (nth a interval_labels "")) (Some "MICROSECOND") = Nat.eqb a 6.
Proof.
  intros a b H1 H2.
  destruct a as [|[|[|[|[|[|[|a]]]]]]]; try lia;
  destruct b as [|[|[|[|[|[|[|b]]]]]]]; try lia; vm_compute; auto.
Qed.

(* sign and magnitude text of a non-zero integer, as read_interval splits them *)
Lemma read_body : forall z, z <> 0%Z ->
  (match Z_to_string z with
   | String c r => if ch c "-" then (true, r) else (false, Z_to_string z)
   | EmptyString => (false, Z_to_string z)
   end) = ((z <? 0)%Z, Z_to_string (Z.abs z)).
Proof.
  intros z Hz. destruct (Z.ltb_spec z 0) as [Hneg|Hpos].
  - rewrite (Z_to_string_neg z Hneg). simpl. rewrite Z.abs_neq by lia. reflexivity.
  - destruct (Z_to_string_pos z ltac:(lia)) as (c & r & E & Hc & _).
    rewrite Z.abs_eq by lia. rewrite E.
    destruct (nz_digit_facts _ Hc) as (Hd & _). destruct (digit_facts _ Hd) as (_ & _ & Hm).
    rewrite Hm. reflexivity.
Qed.

Lemma read_single : forall z, (0 <= z)%Z -> read_fields [] (Z_to_string z) = Some [z].
Proof. intros z Hz. apply (read_fields_ijoin [] z []); auto. Qed.

(* ---- the general case: at least one of years..seconds is non-zero ---- *)
Lemma interval_fields : forall svals dc dr,
  List.length svals = 7 -> uniform_sign svals = true -> not_all_zero svals = true -> lead0 svals <= 5 ->
  let a := lead0 svals in
  let b := a + List.length (kept svals) - 1 in
  exists e,
    render_interval dr (mk_interval svals 0 0 dc)
      = template_spec (match dc with Some d => Some d | None => dr end) e (unit_name a b)
    /\ read_interval (unit_name a b) e = Some (has_neg svals, map Z.abs (kept svals)).
Proof.
  intros svals dc dr Hlen Hu Hnz Ha.
  destruct (decomp svals Hnz) as (k0 & r & Ek & Hk0 & Hlast & D). rewrite Hlen in D.
  assert (Hneg : (k0 <? 0)%Z = has_neg svals).
  { apply uniform_neg; [exact Hu| |exact Hk0]. rewrite D. apply in_or_app. right. left. reflexivity. }
  cbv zeta. rewrite Ek, <- Hneg. clear Hneg Hu Hnz Ek.
  remember (lead0 svals) as a eqn:Ea. clear Ea.
  set (n := List.length r) in *. set (m := 7 - a - S n) in *.
  assert (Hsum : a + S n + m = 7).
  { pose proof (f_equal (@List.length Z) D) as DL.
    rewrite !app_length, !repeat_length, Hlen in DL. simpl in DL. fold n in DL. unfold m. lia. }
  clearbody m. simpl List.length. fold n. replace (a + S n - 1) with (a + n) by lia.
  subst svals.
  unfold mk_interval. change (truthy 0) with false. cbv iota.
  rewrite scan_decomp; [|exact Hk0|exact Hlast|fold n; change (List.length interval_labels) with 7; lia].
  fold n. unfold render_interval, interval_expr_unit, eff_dialect.
  cbn [iv_largest iv_smallest iv_quarters iv_weeks iv_negative iv_dialect].
  destruct (unit_facts a (a + n) ltac:(lia) ltac:(lia)) as (U1 & U2 & U3 & U4).
  rewrite U4. replace (Nat.eqb a 6) with false by (symmetry; apply Nat.eqb_neq; lia).
  rewrite U1, raw7 by exact Hlen.
  assert (EA : map Z.abs (repeat 0%Z a ++ (k0 :: r) ++ repeat 0%Z m)%list
               = (repeat 0%Z a ++ (Z.abs k0 :: map Z.abs r) ++ repeat 0%Z m)%list).
  { rewrite !map_app, !map_abs_repeat0. reflexivity. }
  rewrite EA. clear EA.
  change (map Z.abs (k0 :: r)) with (Z.abs k0 :: map Z.abs r).
  assert (Hn' : List.length (map Z.abs r) = n) by (apply map_length).
  assert (Hr' : Forall (fun v => 0 <= v)%Z (map Z.abs r)).
  { apply Forall_forall. intros x Hx. apply in_map_iff in Hx as (y & <- & _). apply Z.abs_nonneg. }
  rewrite (trim_fields a n m (Z.abs k0) (map Z.abs r) Hsum Hn' Ha); [|lia|exact Hr'|].
  2:{ change (Z.abs k0 :: map Z.abs r) with (map Z.abs (k0 :: r)). rewrite last_map_abs. lia. }
  set (ds := firstn n (skipn a field_delims)).
  set (K := ijoin (map Z_to_string (Z.abs k0 :: map Z.abs r)) ds).
  eexists. split; [apply template_is_spec|].
  assert (Hds_len : List.length ds = List.length (map Z.abs r)).
  { unfold ds. rewrite firstn_length, skipn_length, Hn'. change (List.length field_delims) with 6. lia. }
  assert (Hds : forallb (fun d => negb (is_digit d)) ds = true).
  { unfold ds. apply forallb_firstn, forallb_skipn. reflexivity. }
  assert (HK : read_fields ds K = Some (Z.abs k0 :: map Z.abs r)).
  { unfold K. apply read_fields_ijoin; [exact Hds_len|lia|exact Hr'|exact Hds]. }
  unfold read_interval. rewrite U3, U2. replace (a + n - a) with n by lia. fold ds.
  destruct (Z.ltb_spec k0 0) as [Hlt|Hge].
  - change ("-" ++ K) with (String "-"%char K). cbv iota beta.
    change (ch "-"%char "-") with true. cbv iota beta. rewrite HK. reflexivity.
  - destruct (ijoin_hd (map Z_to_string (map Z.abs r)) (Z_to_string (Z.abs k0)) ds) as [w Ew].
    destruct (Z_to_string_pos (Z.abs k0) ltac:(lia)) as (c & t' & Et & Hc & _).
    assert (EK : K = String c (t' ++ w)).
    { unfold K. change (map Z_to_string (Z.abs k0 :: map Z.abs r))
        with (Z_to_string (Z.abs k0) :: map Z_to_string (map Z.abs r)). rewrite Ew, Et. reflexivity. }
    destruct (nz_digit_facts _ Hc) as (Hd & _). destruct (digit_facts _ Hd) as (_ & _ & Hm).
    rewrite EK. cbv iota beta. rewrite Hm. cbv iota beta. rewrite <- EK, HK. reflexivity.
Qed.

(* ---- special branches of get_sql ---- *)
Definition eff (dc dr : option dialect) : option dialect := match dc with Some d => Some d | None => dr end.

Lemma signed_text : forall v, v <> 0%Z ->
  (if (v <? 0)%Z then "-" ++ Z_to_string (Z.abs v) else Z_to_string (Z.abs v)) = Z_to_string v.
Proof.
  intros v Hv. destruct (Z.ltb_spec v 0) as [Hn|Hp].
  - rewrite (Z_to_string_neg v Hn), Z.abs_neq by lia. reflexivity.
  - rewrite Z.abs_eq by lia. reflexivity.
Qed.

(* only microseconds non-zero: the signed count itself *)
Lemma interval_us_only : forall v dc dr, v <> 0%Z ->
  render_interval dr (mk_interval [0; 0; 0; 0; 0; 0; v]%Z 0 0 dc)
    = template_spec (eff dc dr) (Z_to_string v) "MICROSECOND"
  /\ read_interval "MICROSECOND" (Z_to_string v) = Some ((v <? 0)%Z, [Z.abs v]).
Proof.
  intros v dc dr Hv. split.
  - unfold mk_interval. change (truthy 0) with false. cbv iota.
    change (scan_fields (combine interval_labels [0; 0; 0; 0; 0; 0; v]%Z) None None false)
      with (scan_fields [("MICROSECOND", v)] None None false).
    unfold scan_fields, truthy. destruct (Z.eqb_spec v 0) as [|_]; [congruence|]. simpl negb. cbv iota.
    unfold render_interval, interval_expr_unit, eff_dialect.
    cbn [iv_largest iv_smallest iv_quarters iv_weeks iv_negative iv_dialect].
    change (option_eqb String.eqb (Some "MICROSECOND") (Some "MICROSECOND")) with true. cbv iota.
    unfold getf. cbn [iv_fields]. simpl nth. rewrite field_attr_abs, (signed_text v Hv). apply template_is_spec.
  - unfold read_interval. rewrite (read_body v Hv).
    change (String.eqb "MICROSECOND" "QUARTER" || String.eqb "MICROSECOND" "WEEK") with false. cbv iota.
    change (unit_span "MICROSECOND") with (Some (6, 6)). cbv iota beta.
    change (firstn (6 - 6) (skipn 6 field_delims)) with (@nil ascii).
    rewrite read_single by lia. reflexivity.
Qed.

Lemma read_unit_single : forall u z, (String.eqb u "QUARTER" || String.eqb u "WEEK") = true -> z <> 0%Z ->
  read_interval u (Z_to_string z) = Some ((z <? 0)%Z, [Z.abs z]).
Proof.
  intros u z Hu Hz. unfold read_interval. rewrite (read_body z Hz), Hu.
  cbv iota beta. rewrite read_single by lia. reflexivity.
Qed.

(* quarters: every other argument is dropped *)
Lemma interval_quarters : forall vals q w dc dr, q <> 0%Z ->
  render_interval dr (mk_interval vals q w dc) = template_spec (eff dc dr) (Z_to_string q) "QUARTER"
  /\ read_interval "QUARTER" (Z_to_string q) = Some ((q <? 0)%Z, [Z.abs q]).
Proof.
  intros vals q w dc dr Hq. split; [|apply read_unit_single; [reflexivity|exact Hq]].
  unfold mk_interval, truthy. destruct (Z.eqb_spec q 0) as [|_]; [congruence|]. simpl negb. cbv iota.
  unfold render_interval, interval_expr_unit, eff_dialect.
  cbn [iv_largest iv_smallest iv_quarters iv_weeks iv_negative iv_dialect].
  change (option_eqb String.eqb None (Some "MICROSECOND")) with false. cbv iota.
  apply template_is_spec.
Qed.

Lemma interval_weeks : forall vals w dc dr, w <> 0%Z ->
  render_interval dr (mk_interval vals 0 w dc) = template_spec (eff dc dr) (Z_to_string w) "WEEK"
  /\ read_interval "WEEK" (Z_to_string w) = Some ((w <? 0)%Z, [Z.abs w]).
Proof.
  intros vals w dc dr Hw. split; [|apply read_unit_single; [reflexivity|exact Hw]].
  unfold mk_interval. change (truthy 0) with false. cbv iota.
  unfold truthy. destruct (Z.eqb_spec w 0) as [|_]; [congruence|]. simpl negb. cbv iota.
  unfold render_interval, interval_expr_unit, eff_dialect.
  cbn [iv_largest iv_smallest iv_quarters iv_weeks iv_negative iv_dialect].
  change (option_eqb String.eqb None (Some "MICROSECOND")) with false. cbv iota.
  apply template_is_spec.
Qed.

(* nothing given: '0 DAY' *)
Lemma interval_all_zero : forall dc dr,
  render_interval dr (mk_interval (repeat 0%Z 7) 0 0 dc) = template_spec (eff dc dr) "0" "DAY"
  /\ read_interval "DAY" "0" = Some (false, [0%Z]).
Proof.
  intros dc dr. split; [|reflexivity].
  unfold render_interval.
  change (interval_expr_unit (mk_interval (repeat 0%Z 7) 0 0 dc)) with ("0", "DAY").
  apply template_is_spec.
Qed.

Lemma all_zero_repeat : forall l, not_all_zero l = false -> l = repeat 0%Z (List.length l).
Proof.
  induction l as [|v l IH]; intros H; [reflexivity|]. simpl in H. apply orb_false_iff in H as [H1 H2].
  unfold truthy in H1. apply negb_false_iff, Z.eqb_eq in H1. subst. simpl. rewrite <- IH by exact H2. reflexivity.
Qed.

Lemma lead0_six : forall l, List.length l = 7 -> not_all_zero l = true -> lead0 l = 6 ->
  exists v, v <> 0%Z /\ l = [0; 0; 0; 0; 0; 0; v]%Z.
Proof.
  intros l Hl Hnz H6. pose proof (decomp_lead l) as D. rewrite H6 in D.
  pose proof (strip0_hd l) as Hh. pose proof (strip0_nonempty l Hnz) as Hne.
  destruct (strip0 l) as [|v s]; [congruence|].
  exists v. split; [exact Hh|].
  rewrite D in Hl. rewrite app_length, repeat_length in Hl. simpl in Hl.
  destruct s; [exact D|simpl in Hl; lia].
Qed.

(* ---- the property on intervals built from years..microseconds, all field values ---- *)
Theorem interval_fields_read_back : forall svals dc dr,
  List.length svals = 7 -> uniform_sign svals = true -> not_all_zero svals = true ->
  let a := lead0 svals in
  let b := a + List.length (kept svals) - 1 in
  exists e,
    render_interval dr (mk_interval svals 0 0 dc) = template_spec (eff dc dr) e (unit_name a b)
    /\ read_interval (unit_name a b) e = Some (has_neg svals, map Z.abs (kept svals)).
Proof.
  intros svals dc dr Hlen Hu Hnz.
  destruct (le_lt_dec (lead0 svals) 5) as [Ha|Ha].
  - apply interval_fields; assumption.
  - assert (H6 : lead0 svals = 6).
    { pose proof (decomp_lead svals) as D. apply (f_equal (@List.length Z)) in D.
      rewrite app_length, repeat_length, Hlen in D.
      pose proof (strip0_nonempty svals Hnz) as Hne. destruct (strip0 svals); [congruence|]. simpl in D. lia. }
    destruct (lead0_six svals Hlen Hnz H6) as (v & Hv & ->).
    cbv zeta. rewrite H6.
    assert (Hn : has_neg [0; 0; 0; 0; 0; 0; v]%Z = (v <? 0)%Z).
    { unfold has_neg. simpl. apply orb_false_r. }
    assert (Ek : kept [0; 0; 0; 0; 0; 0; v]%Z = [v]).
    { unfold kept. simpl rev. simpl strip0. destruct (Z.eqb_spec v 0); [congruence|].
      simpl rev. simpl strip0. destruct (Z.eqb_spec v 0); [congruence|]. reflexivity. }
    rewrite Hn, Ek. simpl List.length. simpl map.
    change (unit_name 6 (6 + 1 - 1)) with "MICROSECOND".
    exists (Z_to_string v). apply interval_us_only. exact Hv.
Qed.
