(* DdlDrop.v - DROP statements name exactly the given object with the given options *)
From Coq Require Import Lia.
From PV Require Import Base gen.C17Table Ddl lemmas.DdlStrings lemmas.DdlItems.

(* ---------- the state a successful program leaves ---------- *)
Definition drop_step (acc : option (dkind * dtarget)) (c : dcall) :=
  match c with DDrop k tg => Some (k, tg) | _ => acc end.
Definition cluster_step (acc : option string) (c : dcall) := match c with DOnCluster s => Some s | _ => acc end.
Definition is_dcall_if_exists (c : dcall) : bool := match c with DIfExists => true | _ => false end.

(* the drop_xxx / on_cluster call of the program (a second one raises) *)
Definition last_drop (calls : list dcall) : option (dkind * dtarget) := fold_left drop_step calls None.
Definition last_cluster (calls : list dcall) : option string := fold_left cluster_step calls None.

Definition dextend (st : dstate) (calls : list dcall) : dstate :=
  mk_dstate (match fold_left drop_step calls None with Some (k, _) => Some (drop_kind_text k) | None => d_kind st end)
            (match fold_left drop_step calls None with Some (_, tg) => tg | None => d_target st end)
            (d_if_exists st || existsb is_dcall_if_exists calls)
            (match fold_left cluster_step calls None with Some c => Some c | None => d_cluster st end).

Lemma fold_drop_some : forall calls x, exists y, fold_left drop_step calls (Some x) = Some y.
Proof. induction calls as [|c r IH]; intros x; simpl; [eauto|]. destruct c; simpl; auto. Qed.
Lemma fold_cluster_some : forall calls x, exists y, fold_left cluster_step calls (Some x) = Some y.
Proof. induction calls as [|c r IH]; intros x; simpl; [eauto|]. destruct c; simpl; auto. Qed.

Lemma fold_drop_from : forall calls a,
  fold_left drop_step calls a = match fold_left drop_step calls None with Some y => Some y | None => a end.
Proof.
  induction calls as [|c r IH]; intros a; simpl; [reflexivity|].
  destruct c; simpl; auto.
  destruct (fold_drop_some r (k, target)) as (y & ->). reflexivity.
Qed.
Lemma fold_cluster_from : forall calls a,
  fold_left cluster_step calls a = match fold_left cluster_step calls None with Some y => Some y | None => a end.
Proof.
  induction calls as [|c r IH]; intros a; simpl; [reflexivity|].
  destruct c; simpl; auto.
  destruct (fold_cluster_some r c) as (y & ->). reflexivity.
Qed.

Lemma drun_extend : forall cls calls st st', drun cls st calls = Ok st' -> st' = dextend st calls.
Proof.
  induction calls as [|c r IH]; intros st st' H; simpl in H.
  - inversion H. destruct st'. unfold dextend. simpl. now rewrite Bool.orb_false_r.
  - destruct (dstep cls st c) as [s1|] eqn:E; [|discriminate].
    rewrite (IH _ _ H). destruct st as [kd tg ie cl]. unfold dextend.
    destruct c; simpl in E.
    + destruct (is_ch_kind k && negb (has_clickhouse_drops cls))%bool; [discriminate|].
      destruct (is_some kd); [discriminate|]. inversion E. subst. simpl.
      rewrite (fold_drop_from r (Some (k, target))).
      destruct (fold_left drop_step r None) as [[k' t']|]; reflexivity.
    + inversion E. subst. simpl. now rewrite Bool.orb_true_r.
    + destruct (negb (has_clickhouse_drops cls)); [discriminate|].
      destruct (is_some cl); [discriminate|]. inversion E. subst. simpl.
      rewrite (fold_cluster_from r (Some c)).
      destruct (fold_left cluster_step r None); reflexivity.
Qed.

(* classes without on_cluster(): an accepted program does not contain the call *)
Lemma no_cluster_calls : forall cls calls st st', has_clickhouse_drops cls = false -> drun cls st calls = Ok st' ->
  last_cluster calls = None.
Proof.
  unfold last_cluster. induction calls as [|c r IH]; intros st st' Hv H; [reflexivity|].
  simpl in H. destruct (dstep cls st c) as [s1|] eqn:E; [|discriminate].
  destruct c; simpl; eauto. simpl in E. rewrite Hv in E. discriminate.
Qed.

(* ---------- reading the kind ---------- *)
Lemma read_dkind_ok : forall k rest, read_dkind all_dkinds (drop_kind_text k ++ " " ++ rest) = Some (k, rest).
Proof. intros [] rest; reflexivity. Qed.

Lemma kind_is_dictionary : forall k, String.eqb (drop_kind_text k) "DICTIONARY" = match k with KDictionary => true | _ => false end.
Proof. intros []; reflexivity. Qed.

Lemma target_text_table : forall q tg,
  (match tg with DTDatabase n => fqq q n | DTTable t => render_table q t | DTStr s => fqq q s end)
  = render_table q (target_table tg).
Proof. intros q [n|t|s]; reflexivity. Qed.

Lemma table_not_if_exists : forall q t rest, table_ok q t = true ->
  kw_free q (match tschema t with s :: _ => s | [] => tname t end) = true -> sp_or_end rest = true ->
  strip_prefix "IF EXISTS " (render_table q t ++ rest) = None.
Proof.
  intros q t rest H Hk Hr. change "IF EXISTS " with ("IF" ++ String " " "EXISTS ").
  apply table_not_kw; try reflexivity; auto. intros ->. now destruct (kw_free_neq _ Hk).
Qed.

Definition cluster_text (cl : option string) : string :=
  match cl with Some c => " ON CLUSTER " ++ fqq cluster_quote c | None => "" end.

Lemma parse_drop_text : forall (q : quote) (k : dkind) (ie : bool) (t : table) (cl : option string),
  table_ok q t = true -> kw_free q (match tschema t with s :: _ => s | [] => tname t end) = true ->
  (match cl with Some c => name_ok cluster_quote c | None => true end) = true ->
  parse_drop q cluster_quote
    ("DROP " ++ drop_kind_text k ++ " " ++ (if ie then "IF EXISTS " else "") ++ render_table q t ++ cluster_text cl)
  = Some (mk_drop_ast k ie t cl).
Proof.
  intros q k ie t cl Ht Hk Hc. unfold parse_drop. rewrite strip_prefix_app, read_dkind_ok.
  assert (Hsp : sp_or_end (cluster_text cl) = true) by (destruct cl; reflexivity).
  assert (Hie : opt_prefix "IF EXISTS " ((if ie then "IF EXISTS " else "") ++ render_table q t ++ cluster_text cl)
                = (ie, render_table q t ++ cluster_text cl)).
  { destruct ie; [apply opt_prefix_app|]. rewrite sapp_nil_l. apply opt_prefix_none. now apply table_not_if_exists. }
  rewrite Hie. rewrite read_table_ok by assumption.
  destruct cl as [c|]; [|reflexivity].
  unfold cluster_text. change (" ON CLUSTER " ++ fqq cluster_quote c) with (String " " ("ON CLUSTER " ++ fqq cluster_quote c)).
  cbv iota. change (String " " ("ON CLUSTER " ++ fqq cluster_quote c)) with (" ON CLUSTER " ++ fqq cluster_quote c).
  rewrite strip_prefix_app, unquote_fq by assumption. reflexivity.
Qed.

(* ---------- the theorem ---------- *)
Theorem drop_roundtrip : forall cls calls st k tg,
  drun cls init_dstate calls = Ok st ->
  last_drop calls = Some (k, tg) ->
  target_ok (drop_quote cls) tg = true ->
  (match last_cluster calls with Some c => name_ok cluster_quote c | None => true end) = true ->
  parse_drop (drop_quote cls) cluster_quote (render_drop cls st)
  = Some (drop_ast_of (mk_drop_spec k tg (existsb is_dcall_if_exists calls) (last_cluster calls))).
Proof.
  intros cls calls st k tg H Hd Ht Hc.
  assert (Hnc : has_clickhouse_drops cls = false -> last_cluster calls = None) by (intros E; eapply no_cluster_calls; eauto).
  apply drun_extend in H. subst st. unfold last_drop, last_cluster in *.
  unfold render_drop, dextend. cbn [d_kind d_target d_if_exists d_cluster init_dstate]. rewrite Hd.
  rewrite target_text_table. unfold drop_ast_of. cbn [ds_kind ds_target ds_if_exists ds_cluster].
  unfold target_ok in Ht. apply Bool.andb_true_iff in Ht as [Ht1 Ht2].
  cbn [orb ostr odefault].
  set (cl := fold_left cluster_step calls None) in *.
  assert (Hcl : (if has_clickhouse_drops cls
                 then match (match cl with Some c => Some c | None => None end) with
                      | Some c => if String.eqb (drop_kind_text k) "DICTIONARY" then "" else " ON CLUSTER " ++ fqq cluster_quote c
                      | None => ""
                      end
                 else "")
                = cluster_text (match k with KDictionary => None | _ => cl end)).
  { destruct (has_clickhouse_drops cls) eqn:E.
    - rewrite kind_is_dictionary. destruct cl, k; reflexivity.
    - rewrite (Hnc eq_refl). destruct k; reflexivity. }
  rewrite Hcl. apply parse_drop_text; auto.
  destruct k; auto.
Qed.

(* one drop_xxx call with if_exists() / on_cluster() anywhere around it is accepted *)
Theorem drop_program_accepted : forall cls k tg pre post,
  (is_ch_kind k && negb (has_clickhouse_drops cls))%bool = false ->
  forallb is_dcall_if_exists pre = true -> forallb is_dcall_if_exists post = true ->
  exists st, drun cls init_dstate (pre ++ DDrop k tg :: post) = Ok st.
Proof.
  intros cls k tg pre post Hk Hpre Hpost.
  assert (G : forall l st, forallb is_dcall_if_exists l = true -> exists ie, drun cls st l = Ok (mk_dstate (d_kind st) (d_target st) ie (d_cluster st))).
  { induction l as [|c r IH]; intros st Hl; simpl in *.
    - destruct st. eauto.
    - apply Bool.andb_true_iff in Hl as [H1 H2]. destruct c; try discriminate. simpl.
      destruct (IH (mk_dstate (d_kind st) (d_target st) true (d_cluster st)) H2) as (ie & E). simpl in E. eauto. }
  assert (G2 : forall l st, forallb is_dcall_if_exists l = true -> d_kind st = None ->
               exists st', drun cls st (l ++ DDrop k tg :: post) = Ok st').
  { induction l as [|c r IH]; intros st Hl Hts; simpl in *.
    - rewrite Hk, Hts. cbn [is_some]. match goal with |- exists st', drun cls ?s post = _ => destruct (G post s Hpost) as (ie & E) end. eauto.
    - apply Bool.andb_true_iff in Hl as [H1 H2]. destruct c; try discriminate. simpl. apply IH; auto. }
  apply G2; auto.
Qed.
