(* DdlStrings.v - lemmas about the string helpers and the low-level readers of Ddl.v *)
From Coq Require Import Lia.
From PV Require Import Base gen.C17Table Ddl.

(* ---------- append ---------- *)
Lemma sapp_assoc : forall a b c : string, (a ++ b) ++ c = a ++ (b ++ c).
Proof. induction a; intros; simpl; [reflexivity | now rewrite IHa]. Qed.

Lemma sapp_nil_l : forall x : string, "" ++ x = x.
Proof. reflexivity. Qed.

Lemma sapp_nil_r : forall a : string, a ++ "" = a.
Proof. induction a; simpl; [reflexivity | now rewrite IHa]. Qed.

Lemma fqq_none : forall s, fqq QNone s = s.
Proof. intros. unfold fqq, fq, qstr, ostr, odefault. simpl. apply sapp_nil_r. Qed.

Lemma fqq_double : forall s, fqq QDouble s = String """" (s ++ """").
Proof. reflexivity. Qed.
Lemma fqq_backtick : forall s, fqq QBacktick s = String "`" (s ++ "`").
Proof. reflexivity. Qed.

(* ---------- sforall ---------- *)
Lemma sforall_app : forall f a b, sforall f (a ++ b) = (sforall f a && sforall f b)%bool.
Proof. induction a; intros; simpl; [reflexivity | rewrite IHa; now rewrite Bool.andb_assoc]. Qed.

Lemma sforall_impl : forall (f g : ascii -> bool) s,
  (forall a, f a = true -> g a = true) -> sforall f s = true -> sforall g s = true.
Proof.
  induction s; intros H Hs; simpl in *; [reflexivity|].
  apply Bool.andb_true_iff in Hs as [H1 H2]. rewrite (H _ H1), (IHs H H2). reflexivity.
Qed.

Definition notc (c : ascii) : ascii -> bool := fun a => negb (Ascii.eqb a c).

(* the six characters no name contains *)
Lemma namechar_not : forall a c, namechar a = true ->
  (c = "," \/ c = "(" \/ c = ")" \/ c = """" \/ c = "`" \/ c = "'")%char -> notc c a = true.
Proof.
  intros a c H Hc. unfold namechar, char_in in H. rewrite Bool.negb_involutive in H. simpl in H.
  repeat (apply Bool.andb_true_iff in H as [?H H]).
  unfold notc. rewrite Ascii.eqb_sym.
  destruct Hc as [->|[->|[->|[->|[->| ->]]]]]; assumption.
Qed.

Lemma idchar_namechar : forall a, idchar a = true -> namechar a = true.
Proof. intros a H. unfold idchar in H. apply Bool.andb_true_iff in H as [H _]. apply Bool.andb_true_iff in H as [H _]. exact H. Qed.
Lemma idchar_not_space : forall a, idchar a = true -> notc " " a = true.
Proof. intros a H. unfold idchar in H. apply Bool.andb_true_iff in H as [H _]. apply Bool.andb_true_iff in H as [_ H]. exact H. Qed.
Lemma idchar_not_dot : forall a, idchar a = true -> notc "." a = true.
Proof. intros a H. unfold idchar in H. apply Bool.andb_true_iff in H as [_ H]. exact H. Qed.

Lemma name_ok_namechar : forall q s, name_ok q s = true -> sforall namechar s = true.
Proof.
  intros [] s H; simpl in H; try exact H.
  apply Bool.andb_true_iff in H as [_ H]. eapply sforall_impl; [|exact H]. apply idchar_namechar.
Qed.

Lemma name_ok_not : forall q s c, name_ok q s = true ->
  (c = "," \/ c = "(" \/ c = ")" \/ c = """" \/ c = "`" \/ c = "'")%char -> sforall (notc c) s = true.
Proof.
  intros q s c H Hc. eapply sforall_impl; [|exact (name_ok_namechar _ _ H)].
  intros a Ha. now apply namechar_not.
Qed.

(* quoting adds no comma and no parenthesis *)
Lemma fqq_not : forall q s c, name_ok q s = true -> (c = "," \/ c = "(" \/ c = ")")%char ->
  sforall (notc c) (fqq q s) = true.
Proof.
  intros q s c H Hc.
  assert (Hs : sforall (notc c) s = true) by (apply (name_ok_not q); [exact H | tauto]).
  destruct q.
  - rewrite fqq_double. simpl. rewrite sforall_app, Hs. simpl.
    destruct Hc as [->|[->| ->]]; reflexivity.
  - rewrite fqq_backtick. simpl. rewrite sforall_app, Hs. simpl.
    destruct Hc as [->|[->| ->]]; reflexivity.
  - now rewrite fqq_none.
Qed.

(* ---------- strip_prefix / opt_prefix ---------- *)
Lemma strip_prefix_app : forall p r, strip_prefix p (p ++ r) = Some r.
Proof. induction p; intros; simpl; [reflexivity | now rewrite Ascii.eqb_refl]. Qed.

Lemma opt_prefix_app : forall p r, opt_prefix p (p ++ r) = (true, r).
Proof. intros. unfold opt_prefix. now rewrite strip_prefix_app. Qed.

Lemma opt_prefix_none : forall p s, strip_prefix p s = None -> opt_prefix p s = (false, s).
Proof. intros. unfold opt_prefix. now rewrite H. Qed.

Lemma strip_prefix_head : forall a p b s, Ascii.eqb a b = false -> strip_prefix (String a p) (String b s) = None.
Proof. intros. simpl. now rewrite H. Qed.

(* what can follow a bare identifier: the end, or a character that is not an identifier character *)
Definition stops (rest : string) : bool :=
  match rest with EmptyString => true | String a _ => negb (idchar a) end.

(* a bare identifier different from the keyword [kw] is never read as "kw ..." *)
Lemma kw_no_clash : forall kw p name rest,
  sforall idchar kw = true -> sforall idchar name = true -> name <> kw -> stops rest = true ->
  strip_prefix (kw ++ String " " p) (name ++ rest) = None.
Proof.
  induction kw as [|k kw IH]; intros p name rest Hk Hn Hne Hr.
  - destruct name as [|c n]; [congruence|]. simpl in Hn.
    apply Bool.andb_true_iff in Hn as [Hc _]. apply idchar_not_space in Hc. unfold notc in Hc.
    change (strip_prefix (String " " p) (String c (n ++ rest)) = None). apply strip_prefix_head.
    rewrite Ascii.eqb_sym. destruct (Ascii.eqb c " "); [discriminate | reflexivity].
  - simpl in Hk. apply Bool.andb_true_iff in Hk as [Hk1 Hk2].
    destruct name as [|c n]; simpl.
    + destruct rest as [|a r]; [reflexivity|]. simpl in Hr.
      destruct (Ascii.eqb k a) eqn:E; [|reflexivity].
      apply Ascii.eqb_eq in E. subst a. rewrite Hk1 in Hr. discriminate.
    + simpl in Hn. apply Bool.andb_true_iff in Hn as [_ Hn2].
      destruct (Ascii.eqb k c) eqn:E; [|reflexivity].
      apply Ascii.eqb_eq in E. subst c. apply IH; auto. congruence.
Qed.

(* ---------- take_until ---------- *)
Lemma take_until_app : forall c x r, sforall (notc c) x = true -> take_until c (x ++ String c r) = Some (x, r).
Proof.
  induction x; intros r H; simpl in *.
  - now rewrite Ascii.eqb_refl.
  - apply Bool.andb_true_iff in H as [H1 H2]. unfold notc in H1.
    destruct (Ascii.eqb a c); [discriminate|]. now rewrite IHx.
Qed.

(* ---------- split_on / join ---------- *)
Lemma split_on_nonempty : forall c s, exists h t, split_on c s = h :: t.
Proof.
  induction s; simpl; [eauto|].
  destruct (Ascii.eqb a c); [eauto|]. destruct IHs as (h & t & ->). eauto.
Qed.

Lemma split_on_app : forall c a b, split_on c (a ++ String c b) = (split_on c a ++ split_on c b)%list.
Proof.
  induction a; intros; simpl.
  - now rewrite Ascii.eqb_refl.
  - destruct (Ascii.eqb a c); [now rewrite IHa|].
    rewrite IHa. destruct (split_on_nonempty c a0) as (h & t & ->). reflexivity.
Qed.

Lemma split_on_none : forall c x, sforall (notc c) x = true -> split_on c x = [x].
Proof.
  induction x; intros H; simpl in *; [reflexivity|].
  apply Bool.andb_true_iff in H as [H1 H2]. unfold notc in H1.
  destruct (Ascii.eqb a c); [discriminate|]. now rewrite IHx.
Qed.

Lemma split_join : forall c xs, xs <> [] -> forallb (fun x => sforall (notc c) x) xs = true ->
  split_on c (join (String c "") xs) = xs.
Proof.
  induction xs as [|x xs IH]; intros Hne H; [congruence|].
  simpl in H. apply Bool.andb_true_iff in H as [H1 H2].
  destruct xs as [|y ys].
  - simpl. now apply split_on_none.
  - change (join (String c "") (x :: y :: ys)) with (x ++ String c (join (String c "") (y :: ys))).
    rewrite split_on_app, split_on_none by assumption. rewrite IH; [reflexivity | congruence | assumption].
Qed.

Lemma join_split : forall c s, join (String c "") (split_on c s) = s.
Proof.
  induction s; simpl; [reflexivity|].
  destruct (Ascii.eqb a c) eqn:E.
  - apply Ascii.eqb_eq in E. subst a.
    destruct (split_on_nonempty c s) as (h & t & Hs). rewrite Hs in *.
    change (join (String c "") ("" :: h :: t)) with ("" ++ String c (join (String c "") (h :: t))).
    rewrite IHs. reflexivity.
  - destruct (split_on_nonempty c s) as (h & t & Hs). rewrite Hs in *.
    destruct t as [|h2 t].
    + simpl in *. now rewrite IHs.
    + change (join (String c "") (String a h :: h2 :: t)) with (String a (h ++ String c (join (String c "") (h2 :: t)))).
      change (join (String c "") (h :: h2 :: t)) with (h ++ String c (join (String c "") (h2 :: t))) in IHs.
      now rewrite IHs.
Qed.

Lemma sforall_join : forall f sep xs, sforall f sep = true -> forallb (sforall f) xs = true ->
  sforall f (join sep xs) = true.
Proof.
  induction xs as [|x xs IH]; intros Hs H; [reflexivity|].
  simpl in H. apply Bool.andb_true_iff in H as [H1 H2].
  destruct xs as [|y ys]; [exact H1|].
  change (join sep (x :: y :: ys)) with (x ++ sep ++ join sep (y :: ys)).
  rewrite !sforall_app, H1, Hs, IH; auto.
Qed.

(* ---------- strip_last ---------- *)
Lemma strip_last_app : forall c x, strip_last c (x ++ String c "") = Some x.
Proof.
  induction x; simpl.
  - now rewrite Ascii.eqb_refl.
  - destruct (x ++ String c "") eqn:E.
    + destruct x; discriminate.
    + rewrite IHx. reflexivity.
Qed.

(* ---------- identifiers ---------- *)
Lemma take_id_app : forall x rest, sforall idchar x = true -> stops rest = true -> take_id (x ++ rest) = (x, rest).
Proof.
  induction x; intros rest H Hr; simpl in *.
  - destruct rest; [reflexivity|]. simpl in *. destruct (idchar a); [discriminate | reflexivity].
  - apply Bool.andb_true_iff in H as [H1 H2]. rewrite H1, IHx; auto.
Qed.

Lemma read_name_fq : forall q n rest, name_ok q n = true -> stops rest = true ->
  read_name q (fqq q n ++ rest) = Some (n, rest).
Proof.
  intros q n rest H Hr. destruct q.
  - rewrite fqq_double. unfold read_name. simpl. rewrite sapp_assoc.
    apply take_until_app. apply (name_ok_not QDouble); [exact H | tauto].
  - rewrite fqq_backtick. unfold read_name. simpl. rewrite sapp_assoc.
    apply take_until_app. apply (name_ok_not QBacktick); [exact H | tauto].
  - rewrite fqq_none. unfold read_name. simpl. simpl in H. apply Bool.andb_true_iff in H as [H1 H2].
    rewrite take_id_app by assumption. now rewrite H1.
Qed.

Lemma unquote_fq : forall q n, name_ok q n = true -> unquote q (fqq q n) = Some n.
Proof.
  intros q n H. destruct q.
  - rewrite fqq_double. unfold unquote. simpl. apply strip_last_app.
  - rewrite fqq_backtick. unfold unquote. simpl. apply strip_last_app.
  - rewrite fqq_none. unfold unquote. simpl. simpl in H. now rewrite H.
Qed.

Lemma omap_map : forall {A B C} (f : B -> option C) (g : A -> B) (h : A -> C) l,
  (forall a, In a l -> f (g a) = Some (h a)) -> omap f (map g l) = Some (map h l).
Proof.
  induction l; intros H; simpl; [reflexivity|].
  rewrite H by (now left). rewrite IHl; [reflexivity|]. intros; apply H; now right.
Qed.

Lemma omap_app : forall {A B} (f : A -> option B) l1 l2 r1 r2,
  omap f l1 = Some r1 -> omap f l2 = Some r2 -> omap f (l1 ++ l2)%list = Some (r1 ++ r2)%list.
Proof.
  induction l1; intros l2 r1 r2 H1 H2; simpl in *.
  - inversion H1. exact H2.
  - destruct (f a); [|discriminate]. destruct (omap f l1) eqn:E; [|discriminate].
    inversion H1. subst. rewrite (IHl1 l2 l r2 eq_refl H2). reflexivity.
Qed.

Lemma forallb_In : forall {A} (f : A -> bool) l a, forallb f l = true -> In a l -> f a = true.
Proof. intros A f l a H Hi. rewrite forallb_forall in H. auto. Qed.

Lemma forallb_map : forall {A B} (f : B -> bool) (g : A -> B) l, forallb f (map g l) = forallb (fun a => f (g a)) l.
Proof. induction l; simpl; [reflexivity | now rewrite IHl]. Qed.

Lemma forallb_impl : forall {A} (f g : A -> bool) l, (forall a, f a = true -> g a = true) -> forallb f l = true -> forallb g l = true.
Proof.
  intros A f g l H Hl. rewrite forallb_forall in *. auto.
Qed.

(* "n1,n2,...)" *)
Lemma names_block_ok : forall q ns rest, names_ok q ns = true ->
  names_block q (render_names q ns ++ String ")" rest) = Some (ns, rest).
Proof.
  intros q ns rest H. unfold names_ok in H. apply Bool.andb_true_iff in H as [Hne H].
  unfold names_block, render_names.
  rewrite take_until_app.
  - rewrite split_join.
    + rewrite (omap_map (unquote q) (fqq q) (fun x => x)).
      * now rewrite map_id.
      * intros a Ha. apply unquote_fq. eapply forallb_In; eauto.
    + destruct ns; [discriminate|]. simpl. congruence.
    + rewrite forallb_forall. intros x Hx. apply in_map_iff in Hx as (n & <- & Hn).
      apply fqq_not; [eapply forallb_In; eauto | tauto].
  - apply sforall_join; [reflexivity|].
    rewrite forallb_forall. intros x Hx. apply in_map_iff in Hx as (n & <- & Hn).
    apply fqq_not; [eapply forallb_In; eauto | tauto].
Qed.

(* the rest after a table name: the end or a space *)
Definition sp_or_end (rest : string) : bool :=
  match rest with EmptyString => true | String a _ => Ascii.eqb a " " end.
Lemma sp_or_end_stops : forall r, sp_or_end r = true -> stops r = true.
Proof. intros [|a r] H; [reflexivity|]. simpl in *. apply Ascii.eqb_eq in H. now subst. Qed.

(* what can follow a dotted chain: the end, or a character that is neither an identifier character nor a dot *)
Definition ends_chain (rest : string) : bool :=
  match rest with EmptyString => true | String a _ => (negb (idchar a) && negb (Ascii.eqb a "."))%bool end.
Lemma sp_or_end_chain : forall r, sp_or_end r = true -> ends_chain r = true.
Proof. intros [|a r] H; [reflexivity|]. simpl in *. apply Ascii.eqb_eq in H. now subst. Qed.
Lemma ends_chain_stops : forall r, ends_chain r = true -> stops r = true.
Proof. intros [|a r] H; [reflexivity|]. simpl in *. now apply Bool.andb_true_iff in H as [H _]. Qed.

Lemma slen_app : forall a b : string, String.length (a ++ b) = String.length a + String.length b.
Proof. induction a; intros; simpl; [reflexivity | now rewrite IHa]. Qed.

Lemma render_path_cons : forall q x y ys,
  render_path q (x :: y :: ys) = fqq q x ++ String "." (render_path q (y :: ys)).
Proof. reflexivity. Qed.

Lemma path_len : forall q xs x rest, List.length xs <= String.length (render_path q (x :: xs) ++ rest).
Proof.
  induction xs as [|y ys IH]; intros x rest; [simpl; lia|].
  rewrite render_path_cons, sapp_assoc, slen_app. simpl String.length at 2. simpl List.length.
  specialize (IH y rest). simpl in *. lia.
Qed.

Lemma read_path_gen_S : forall rd f s,
  read_path_gen rd (S f) s =
  match rd s with
  | Some (a, r) =>
      match r with
      | String c r1 =>
          if Ascii.eqb c "." then
            match read_path_gen rd f r1 with Some (l, r') => Some (a :: l, r') | None => None end
          else Some ([a], r)
      | EmptyString => Some ([a], r)
      end
  | None => None
  end.
Proof. reflexivity. Qed.

(* generic: a reader [rd] that reads one encoded name back reads a dotted chain of them back *)
Lemma read_path_gen_ok : forall (rd : string -> option (string * string)) (enc : string -> string) (ok : string -> bool),
  (forall x r, ok x = true -> stops r = true -> rd (enc x ++ r) = Some (x, r)) ->
  forall xs x fuel rest, forallb ok (x :: xs) = true -> ends_chain rest = true -> List.length xs < fuel ->
  read_path_gen rd fuel (join "." (map enc (x :: xs)) ++ rest) = Some (x :: xs, rest).
Proof.
  intros rd enc ok Hrd. induction xs as [|y ys IH]; intros x fuel rest Hok Hr Hf.
  - destruct fuel as [|f]; [simpl in Hf; lia|]. simpl in Hok. apply Bool.andb_true_iff in Hok as [Hx _].
    change (join "." (map enc [x])) with (enc x). rewrite read_path_gen_S. rewrite (Hrd x rest Hx (ends_chain_stops _ Hr)).
    destruct rest as [|c r]; [reflexivity|]. simpl in Hr. apply Bool.andb_true_iff in Hr as [_ Hr].
    destruct (Ascii.eqb c "."); [discriminate | reflexivity].
  - destruct fuel as [|f]; [simpl in Hf; lia|].
    cbn [forallb] in Hok. apply Bool.andb_true_iff in Hok as [Hx Hys].
    change (join "." (map enc (x :: y :: ys))) with (enc x ++ String "." (join "." (map enc (y :: ys)))).
    rewrite sapp_assoc.
    change (String "." (join "." (map enc (y :: ys))) ++ rest) with (String "." (join "." (map enc (y :: ys)) ++ rest)).
    rewrite read_path_gen_S. rewrite (Hrd x (String "." (join "." (map enc (y :: ys)) ++ rest)) Hx eq_refl).
    cbv iota. rewrite Ascii.eqb_refl. rewrite IH; auto. simpl in Hf. lia.
Qed.

Lemma table_of_tpath : forall t, talias t = None -> table_of_path (tpath t) = Some t.
Proof.
  intros [n sc al] H. simpl in H. subst al. unfold table_of_path, tpath. simpl.
  rewrite rev_app_distr. simpl. now rewrite rev_involutive.
Qed.

Lemma tpath_cons : forall t, exists x xs, tpath t = x :: xs.
Proof. intros [n [|s sc] al]; unfold tpath; simpl; eauto. Qed.

Lemma table_ok_parts : forall q t, table_ok q t = true ->
  forallb (name_ok q) (tpath t) = true /\ talias t = None.
Proof.
  intros q [n sc al] H. unfold table_ok in H. simpl in H.
  apply Bool.andb_true_iff in H as [H Ha]. apply Bool.andb_true_iff in H as [Hn Hs].
  split; [|destruct al; [discriminate | reflexivity]].
  unfold tpath. simpl. rewrite forallb_app, Hs. simpl. now rewrite Hn.
Qed.

Lemma render_table_path : forall q t, talias t = None -> render_table q t = render_path q (tpath t).
Proof. intros q t H. unfold render_table. now rewrite H. Qed.

Lemma read_table_gen_ok : forall (rd : string -> option (string * string)) q t rest,
  (forall x r, name_ok q x = true -> stops r = true -> rd (fqq q x ++ r) = Some (x, r)) ->
  table_ok q t = true -> ends_chain rest = true ->
  read_table_gen rd (render_table q t ++ rest) = Some (t, rest).
Proof.
  intros rd q t rest Hrd H Hr. destruct (table_ok_parts _ _ H) as [Hp Ha].
  rewrite render_table_path by assumption. unfold read_table_gen, render_path.
  destruct (tpath_cons t) as (x & xs & E). rewrite E in *.
  rewrite (read_path_gen_ok rd (fqq q) (name_ok q) Hrd); auto.
  - rewrite <- E, table_of_tpath by assumption. reflexivity.
  - pose proof (path_len q xs x rest) as L. unfold render_path in L. lia.
Qed.

Lemma read_table_ok : forall q t rest, table_ok q t = true -> sp_or_end rest = true ->
  read_table q (render_table q t ++ rest) = Some (t, rest).
Proof.
  intros q t rest H Hr. unfold read_table. apply read_table_gen_ok; auto using sp_or_end_chain.
  intros x r Hx Hs. now apply read_name_fq.
Qed.

(* ---------- depth scanning and the body splitter ---------- *)
Lemma scan_app : forall a d b, scan d (a ++ b) = match scan d a with Some d' => scan d' b | None => None end.
Proof.
  induction a; intros; simpl; [reflexivity|].
  destruct (Ascii.eqb a "("); [apply IHa|].
  destruct (Ascii.eqb a ")"); [destruct d; [reflexivity | apply IHa]|].
  destruct (Ascii.eqb a ","); [destruct d; [reflexivity | apply IHa]|]. apply IHa.
Qed.

Lemma scan_plain : forall s d, sforall (notc "(") s = true -> sforall (notc ")") s = true -> sforall (notc ",") s = true ->
  scan d s = Some d.
Proof.
  induction s; intros d H1 H2 H3; simpl in *; [reflexivity|].
  apply Bool.andb_true_iff in H1 as [A1 B1]. apply Bool.andb_true_iff in H2 as [A2 B2].
  apply Bool.andb_true_iff in H3 as [A3 B3]. unfold notc in *.
  destruct (Ascii.eqb a "("); [discriminate|]. destruct (Ascii.eqb a ")"); [discriminate|].
  destruct (Ascii.eqb a ","); [discriminate|]. auto.
Qed.

Lemma scan_fqq : forall q n d, name_ok q n = true -> scan d (fqq q n) = Some d.
Proof. intros. apply scan_plain; apply fqq_not; auto. Qed.

(* commas are harmless below the top level *)
Lemma scan_nocomma : forall s d, sforall (notc "(") s = true -> sforall (notc ")") s = true -> scan (S d) s = Some (S d).
Proof.
  induction s; intros d H1 H2; simpl in *; [reflexivity|].
  apply Bool.andb_true_iff in H1 as [A1 B1]. apply Bool.andb_true_iff in H2 as [A2 B2]. unfold notc in *.
  destruct (Ascii.eqb a "("); [discriminate|]. destruct (Ascii.eqb a ")"); [discriminate|].
  destruct (Ascii.eqb a ","); auto.
Qed.

Lemma scan_names : forall q ns d, forallb (name_ok q) ns = true -> scan (S d) (render_names q ns) = Some (S d).
Proof.
  intros. unfold render_names. apply scan_nocomma; (apply sforall_join; [reflexivity|]);
    rewrite forallb_forall; intros x Hx; apply in_map_iff in Hx as (n & <- & Hn);
    (apply fqq_not; [eapply forallb_In; eauto | tauto]).
Qed.

Lemma scan_table : forall q t d, table_ok q t = true -> scan d (render_table q t) = Some d.
Proof.
  intros q t d H. destruct (table_ok_parts _ _ H) as [Hp Ha]. rewrite render_table_path by assumption.
  unfold render_path. apply scan_plain; (apply sforall_join; [reflexivity|]);
    rewrite forallb_forall; intros x Hx; apply in_map_iff in Hx as (n & <- & Hn);
    (apply fqq_not; [eapply forallb_In; eauto | tauto]).
Qed.

Lemma split_body_scan : forall x d acc d' s, scan d x = Some d' ->
  split_body d acc (x ++ s) = split_body d' (acc ++ x) s.
Proof.
  induction x; intros d acc d' s H; simpl in *.
  - inversion H. now rewrite sapp_nil_r.
  - destruct (Ascii.eqb a "(") eqn:E1.
    + apply Ascii.eqb_eq in E1. subst a. rewrite (IHx _ _ _ _ H). now rewrite sapp_assoc.
    + destruct (Ascii.eqb a ")") eqn:E2.
      * apply Ascii.eqb_eq in E2. subst a. destruct d; [discriminate|]. rewrite (IHx _ _ _ _ H). now rewrite sapp_assoc.
      * destruct (Ascii.eqb a ",") eqn:E3.
        -- apply Ascii.eqb_eq in E3. subst a. destruct d; [discriminate|]. rewrite (IHx _ _ _ _ H). now rewrite sapp_assoc.
        -- rewrite (IHx _ _ _ _ H). now rewrite sapp_assoc.
Qed.

Definition item_scan_ok (x : string) : bool := match scan 0 x with Some O => true | _ => false end.

Lemma item_scan_ok_eq : forall x, item_scan_ok x = true -> scan 0 x = Some 0.
Proof. intros x H. unfold item_scan_ok in H. destruct (scan 0 x) as [[|]|]; congruence. Qed.

Lemma split_body_comma : forall acc r,
  split_body 0 acc (String "," r) =
  match split_body 0 EmptyString r with Some (l, rest) => Some (acc :: l, rest) | None => None end.
Proof. reflexivity. Qed.

Lemma split_body_items : forall xs x acc rest, forallb item_scan_ok (x :: xs) = true ->
  split_body 0 acc (join "," (x :: xs) ++ String ")" rest) = Some ((acc ++ x) :: xs, rest).
Proof.
  induction xs as [|y ys IH]; intros x acc rest H; simpl in H.
  - apply Bool.andb_true_iff in H as [H1 _]. apply item_scan_ok_eq in H1.
    simpl join. rewrite (split_body_scan _ _ _ _ _ H1). reflexivity.
  - apply Bool.andb_true_iff in H as [H1 H2]. apply item_scan_ok_eq in H1.
    change (join "," (x :: y :: ys)) with (x ++ String "," (join "," (y :: ys))).
    rewrite sapp_assoc. rewrite (split_body_scan _ _ _ _ _ H1).
    change (String "," (join "," (y :: ys)) ++ String ")" rest) with (String "," (join "," (y :: ys) ++ String ")" rest)).
    rewrite split_body_comma, IH by exact H2. reflexivity.
Qed.
