(* DdlBuild.v - what a program of CreateQueryBuilder calls leaves in the builder:
   a successful program leaves exactly [state_of t calls]; flag calls commute with every other call
   (results and errors alike); the once-only guards. *)
From Coq Require Import Lia Permutation.
From PV Require Import Base gen.C17Table Ddl lemmas.DdlStrings.

(* ---------- the state after a successful run, from any start state ---------- *)
Definition pk_step (acc : option (list string)) (c : ccall) := match c with KPrimaryKey ns => Some ns | _ => acc end.
Definition fk_step (acc : option fkey) (c : ccall) :=
  match c with KForeignKey a t b od ou => Some (mk_fkey a t b od ou) | _ => acc end.
Definition sel_step (acc : option string) (c : ccall) := match c with KAsSelect q => Some q | _ => acc end.

Definition extend (st : cstate) (calls : list ccall) : cstate :=
  mk_cstate (s_table st)
            (s_temporary st || existsb is_call_temporary calls)
            (s_unlogged st || existsb is_call_unlogged calls)
            (fold_left sel_step calls (s_as_select st))
            (s_columns st ++ calls_columns calls)
            (s_periods st ++ calls_periods calls)
            (s_sysver st || existsb is_call_sysver calls)
            (fold_left pk_step calls (s_pk st))
            (s_uniques st ++ calls_uniques calls)
            (s_ine st || existsb is_call_ine calls)
            (fold_left fk_step calls (s_fk st))
            (s_local st || existsb is_call_local calls)
            (s_preserve st || existsb is_call_preserve calls).

Lemma extend_nil : forall st, extend st [] = st.
Proof.
  intros []. unfold extend. simpl. rewrite !Bool.orb_false_r, !app_nil_r. reflexivity.
Qed.

Lemma step_extend : forall cls st c st1 r, is_some (s_table st) = true -> step cls st c = Ok st1 ->
  extend st1 r = extend st (c :: r) /\ is_some (s_table st1) = true.
Proof.
  intros cls st c st1 r Ht H. destruct st as [tb tmp unl sel cols pers sv pk uqs ine fk loc prs].
  simpl in Ht.
  destruct c; simpl in H;
    repeat match type of H with
           | (if ?b then _ else _) = _ => destruct b eqn:?; try discriminate
           end;
    inversion H; subst; clear H; (split; [|assumption || reflexivity]);
    unfold extend, calls_columns, calls_periods, calls_uniques; simpl;
    rewrite ?Bool.orb_true_r, ?Bool.orb_false_r, <- ?app_assoc; try reflexivity.
Qed.

Lemma run_extend : forall cls calls st st', is_some (s_table st) = true -> run cls st calls = Ok st' ->
  st' = extend st calls.
Proof.
  induction calls as [|c r IH]; intros st st' Ht H; simpl in H.
  - inversion H. now rewrite extend_nil.
  - destruct (step cls st c) as [st1|e] eqn:E; [|discriminate].
    destruct (step_extend cls st c st1 r Ht E) as [<- Ht1]. now apply IH.
Qed.

Lemma state_of_extend : forall t calls,
  state_of t calls = extend (mk_cstate (Some t) false false None [] [] false None [] false None false false) calls.
Proof. reflexivity. Qed.

(* a program the builder accepts leaves the described state, whatever the order of its calls *)
Theorem build_state : forall cls t calls st, build cls t calls = Ok st -> st = state_of t calls.
Proof.
  intros cls t calls st H. unfold build in H. simpl in H.
  rewrite state_of_extend. eapply run_extend; [reflexivity | exact H].
Qed.

(* ---------- flag calls commute ---------- *)
Definition step2 (cls : ccls) (st : cstate) (a b : ccall) : res cstate :=
  match step cls st a with Ok s => step cls s b | Err e => Err e end.

Definition reads_temporary (c : ccall) : bool := match c with KLocal | KPreserveRows => true | _ => false end.

(* temporary/unlogged/with_system_versioning/if_not_exists write one scalar slot and read nothing:
   swapping such a call with its neighbour changes neither the resulting builder nor the error -
   except temporary() before Vertica's local()/preserve_rows(), which read that slot *)
Lemma step_flag_commute : forall cls st f c, is_flag_call f = true ->
  (is_call_temporary f && reads_temporary c)%bool = false ->
  step2 cls st f c = step2 cls st c f.
Proof.
  intros cls st f c Hf Hc. destruct st as [tb tmp unl sel cols pers sv pk uqs ine fk loc prs].
  destruct f; try discriminate; destruct c; try discriminate; unfold step2; simpl; unfold pk_set, fk_set; simpl;
    repeat match goal with
           | |- context [if ?b then _ else _] => destruct b eqn:?; simpl
           end; try reflexivity; try discriminate;
    unfold pk_set, fk_set in *; simpl in *; congruence.
Qed.

Lemma run_cons2 : forall cls st a b l,
  run cls st (a :: b :: l) = match step2 cls st a b with Ok s => run cls s l | Err e => Err e end.
Proof. intros. unfold step2. simpl. destruct (step cls st a); reflexivity. Qed.

Theorem flag_call_commutes : forall cls l1 f c l2 st, is_flag_call f = true ->
  (is_call_temporary f && reads_temporary c)%bool = false ->
  run cls st (l1 ++ f :: c :: l2) = run cls st (l1 ++ c :: f :: l2).
Proof.
  induction l1 as [|x l1 IH]; intros f c l2 st Hf Hc.
  - simpl app. rewrite !run_cons2. now rewrite step_flag_commute.
  - simpl. destruct (step cls st x); [now apply IH | reflexivity].
Qed.

(* ---------- the description does not depend on where the flag calls stand ---------- *)
Definition is_any_flag (c : ccall) : bool :=
  match c with KTemporary | KUnlogged | KSysVer | KIfNotExists | KLocal | KPreserveRows => true | _ => false end.
Definition structural (c : ccall) : bool := negb (is_any_flag c).

Lemma existsb_perm : forall {A} (p : A -> bool) l1 l2, Permutation l1 l2 -> existsb p l1 = existsb p l2.
Proof.
  intros A p l1 l2 H. induction H; simpl; try congruence.
  - destruct (p x), (p y); reflexivity.
Qed.

Lemma flat_map_structural : forall {B} (f : ccall -> list B) calls,
  (forall c, structural c = false -> f c = []) -> flat_map f calls = flat_map f (filter structural calls).
Proof.
  intros B f calls H. induction calls as [|c r IH]; [reflexivity|]. simpl.
  destruct (structural c) eqn:E; simpl; [now rewrite IH | now rewrite (H c E), IH].
Qed.

Lemma fold_structural : forall {B} (f : B -> ccall -> B) calls acc,
  (forall a c, structural c = false -> f a c = a) ->
  fold_left f calls acc = fold_left f (filter structural calls) acc.
Proof.
  intros B f calls. induction calls as [|c r IH]; intros acc H; [reflexivity|]. simpl.
  destruct (structural c) eqn:E; simpl; [now apply IH | rewrite (H acc c E); now apply IH].
Qed.

Theorem state_of_order : forall t c1 c2, Permutation c1 c2 -> filter structural c1 = filter structural c2 ->
  state_of t c1 = state_of t c2.
Proof.
  intros t c1 c2 Hp Hf. unfold state_of.
  rewrite !(existsb_perm _ c1 c2 Hp).
  unfold calls_columns, calls_periods, calls_uniques, last_pk, last_fk, last_sel.
  rewrite (flat_map_structural _ c1), (flat_map_structural _ c2) by (intros [] Hx; cbv in Hx; simpl; congruence).
  rewrite (flat_map_structural (fun c => match c with KPeriodFor n s e => _ | _ => [] end) c1),
          (flat_map_structural (fun c => match c with KPeriodFor n s e => _ | _ => [] end) c2) by (intros [] Hx; cbv in Hx; simpl; congruence).
  rewrite (flat_map_structural (fun c => match c with KUnique ns => _ | _ => [] end) c1),
          (flat_map_structural (fun c => match c with KUnique ns => _ | _ => [] end) c2) by (intros [] Hx; cbv in Hx; simpl; congruence).
  rewrite (fold_structural _ c1), (fold_structural _ c2) by (intros ? [] Hx; cbv in Hx; simpl; congruence).
  rewrite (fold_structural (fun acc c => match c with KPrimaryKey ns => _ | _ => acc end) c1),
          (fold_structural (fun acc c => match c with KPrimaryKey ns => _ | _ => acc end) c2) by (intros ? [] Hx; cbv in Hx; simpl; congruence).
  rewrite (fold_structural (fun acc c => match c with KForeignKey a t0 b od ou => _ | _ => acc end) c1),
          (fold_structural (fun acc c => match c with KForeignKey a t0 b od ou => _ | _ => acc end) c2) by (intros ? [] Hx; cbv in Hx; simpl; congruence).
  now rewrite Hf.
Qed.

(* every accepted order of the same calls (structural calls in the same relative order) prints the same statement *)
Theorem build_order_invariant : forall cls t c1 c2 s1 s2,
  build cls t c1 = Ok s1 -> build cls t c2 = Ok s2 ->
  Permutation c1 c2 -> filter structural c1 = filter structural c2 ->
  s1 = s2 /\ render_create cls s1 = render_create cls s2.
Proof.
  intros cls t c1 c2 s1 s2 H1 H2 Hp Hf.
  apply build_state in H1. apply build_state in H2. subst.
  rewrite (state_of_order t c1 c2 Hp Hf). split; reflexivity.
Qed.

(* ---------- once-only guards ---------- *)
Theorem create_guards : forall cls st,
  (forall t, is_some (s_table st) = true -> step cls st (KCreateTable t) = Err "AttributeError")
  /\ (forall ns, pk_set st = true -> step cls st (KPrimaryKey ns) = Err "AttributeError")
  /\ (forall a t b od ou, fk_set st = true -> step cls st (KForeignKey a t b od ou) = Err "AttributeError")
  /\ (forall cs, is_some (s_as_select st) = true -> step cls st (KColumns cs) = Err "AttributeError")
  /\ (forall q, nonempty (s_columns st) = true -> step cls st (KAsSelect q) = Err "AttributeError")
  /\ ((has_vertica_flags cls && s_temporary st)%bool = false ->
      step cls st KLocal = Err "AttributeError" /\ step cls st KPreserveRows = Err "AttributeError").
Proof.
  intros cls st. destruct st as [tb tmp unl sel cols pers sv pk uqs ine fk loc prs].
  repeat split; intros; simpl in *;
    repeat match goal with
           | H : ?b = true |- context [if ?b then _ else _] => rewrite H
           end; try reflexivity;
    destruct (has_vertica_flags cls); simpl in *; subst; reflexivity.
Qed.

(* an error is final: the remaining calls are not performed *)
Lemma run_app_err : forall cls l1 st s c e l2, run cls st l1 = Ok s -> step cls s c = Err e ->
  run cls st (l1 ++ c :: l2) = Err e.
Proof.
  induction l1 as [|x l1 IH]; intros st s c e l2 H1 H2; simpl in *.
  - inversion H1. subst. now rewrite H2.
  - destruct (step cls st x); [eapply IH; eauto | discriminate].
Qed.

(* temporary, with_system_versioning, if_not_exists, period_for and unique never raise *)
Lemma step_never_fails : forall cls st c,
  match c with
  | KTemporary | KSysVer | KIfNotExists | KPeriodFor _ _ _ | KUnique _ => exists s, step cls st c = Ok s
  | _ => True
  end.
Proof. intros cls [] []; simpl; eauto. Qed.

(* a class whose unlogged() raises: an accepted program does not contain the call *)
Lemma accepted_no_unlogged : forall cls calls st st', rejects_unlogged cls = true -> run cls st calls = Ok st' ->
  existsb is_call_unlogged calls = false.
Proof.
  induction calls as [|c r IH]; intros st st' Hv H; [reflexivity|].
  simpl in H. destruct (step cls st c) as [s1|] eqn:E; [|discriminate].
  pose proof (IH _ _ Hv H) as I.
  destruct c; simpl; auto. destruct st. simpl in E. rewrite Hv in E. discriminate.
Qed.
