(* DmlStep.v — C05: the builder state after any list of legal calls is the positional one: rows appended in call
   order (each insert-like call contributing its rows by the _apply_terms rule), values wrapped by wrap_constant,
   the column list in call order, SET pairs in call order wrapped by the class's wrapper, the criteria conjoined
   left to right, the verb decided by the last insert-like call. *)
From Coq Require Import Lia.
From PV Require Import Base Crit gen.TermsTable Terms Page gen.QueryTable Query Dml.

Lemma mapM_wrap_scalars c : forall args, forallb is_scalar args = true ->
  mapM (wrap_arg c) args = Ok (map (wrap_constant c) (flat_map (fun a => match a with AVal v => [v] | ASeq _ _ => [] end) args)).
Proof.
  induction args as [|a r IH]; intros H; [reflexivity|]. cbn [forallb] in H. apply andb_prop in H as [Ha Hr].
  destruct a as [v|k l]; [|discriminate]. cbn [mapM wrap_arg flat_map app map]. rewrite (IH Hr). reflexivity.
Qed.
Lemma mapM_iter_rows : forall args, forallb is_row args = true ->
  mapM iter_arg args = Ok (map (fun a => match a with ASeq _ l => l | AVal _ => [] end) args).
Proof.
  induction args as [|a r IH]; intros H; [reflexivity|]. cbn [forallb] in H. apply andb_prop in H as [Ha Hr].
  destruct a as [v|k l]; [discriminate|]. cbn [mapM iter_arg map]. rewrite (IH Hr). reflexivity.
Qed.
(* _apply_terms on legal arguments: all scalars = one row; all tuples/lists = one row each *)
Lemma arg_rows_legal c args : legal_args args = true -> arg_rows c args = Ok (map (map (wrap_constant c)) (rows_of_args args)).
Proof.
  unfold legal_args. intros H. destruct args as [|a r]; [reflexivity|].
  destruct a as [v|k l].
  - assert (Hs : forallb is_scalar (AVal v :: r) = true).
    { apply orb_prop in H as [H|H]; [exact H|discriminate]. }
    cbn [arg_rows rows_of_args]. rewrite (mapM_wrap_scalars c _ Hs). reflexivity.
  - assert (Hs : forallb is_row (ASeq k l :: r) = true).
    { apply orb_prop in H as [H|H]; [discriminate|exact H]. }
    cbn [arg_rows rows_of_args]. rewrite (mapM_iter_rows _ Hs). reflexivity.
Qed.
Lemma mapM_cols_ones : forall args, forallb (fun i => match i with ColOne _ => true | ColSeq _ => false end) args = true ->
  mapM (fun i => match i with ColOne c => Ok c | ColSeq _ => Err "unmodelled" end) args
  = Ok (flat_map (fun i => match i with ColOne c => [c] | ColSeq _ => [] end) args).
Proof.
  induction args as [|a r IH]; intros H; [reflexivity|]. cbn [forallb] in H. apply andb_prop in H as [Ha Hr].
  destruct a as [c|l]; [|discriminate]. cbn [mapM flat_map app]. rewrite (IH Hr). reflexivity.
Qed.
Lemma col_args_legal args : legal_cols args = true -> col_args args = Ok (cols_of_args args).
Proof.
  intros H. destruct args as [|a r]; [reflexivity|]. destruct a as [c|l].
  - assert (Hs : forallb (fun i => match i with ColOne _ => true | ColSeq _ => false end) (ColOne c :: r) = true) by exact H.
    unfold col_args, cols_of_args. apply mapM_cols_ones. exact Hs.
  - reflexivity.
Qed.

(* the positional description of the state reached from [st] by the calls [cs] *)
Definition positional (tb : option tref) (st : dstate) (cs : list call) (st' : dstate) : Prop :=
  d_values st' = (d_values st ++ map (map (wrap_constant (d_cls st))) (rows_of_calls cs))%list
  /\ d_columns st' = (d_columns st ++ match tb with Some t => map (col_term t) (cols_of_calls cs) | None => [] end)%list
  /\ d_updates st' = (d_updates st ++ map (fun p => (set_field (fst p), wrap_set (d_cls st) (snd p))) (sets_of_calls cs))%list
  /\ (d_replace st', d_ior st') = fold_left flag_step cs (d_replace st, d_ior st)
  /\ d_where st' = fold_left where_step cs (d_where st)
  /\ d_limit st' = fold_left limit_step cs (d_limit st)
  /\ d_from st' = (d_from st ++ froms_of_calls cs)%list
  /\ d_selects st' = (d_selects st ++ sels_of_calls cs)%list
  /\ d_cls st' = d_cls st /\ d_into st' = d_into st /\ d_update st' = d_update st /\ d_delete st' = d_delete st.

Lemma positional_refl tb st : positional tb st [] st.
Proof. unfold positional. cbn. rewrite !app_nil_r. destruct tb; rewrite ?app_nil_r; repeat split; auto. Qed.

Lemma positional_step tb st cl s1 cs s2 :
  d_into st = tb -> positional tb st [cl] s1 -> positional tb s1 cs s2 -> positional tb st (cl :: cs) s2.
Proof.
  unfold positional. intros Htb (A1 & A2 & A3 & A4 & A5 & A6 & A7 & A8 & A9 & A10 & A11 & A12)
                                (B1 & B2 & B3 & B4 & B5 & B6 & B7 & B8 & B9 & B10 & B11 & B12).
  unfold rows_of_calls, cols_of_calls, sets_of_calls, froms_of_calls, sels_of_calls in *.
  cbn [flat_map fold_left] in *. rewrite !app_nil_r in *.
  repeat split.
  - rewrite B1, A1, A9, map_app, app_assoc. reflexivity.
  - rewrite B2, A2. destruct tb; rewrite ?map_app, ?app_assoc, ?app_nil_r; reflexivity.
  - rewrite B3, A3, A9, map_app, app_assoc. reflexivity.
  - rewrite B4, A4. reflexivity.
  - rewrite B5, A5. reflexivity.
  - rewrite B6, A6. reflexivity.
  - rewrite B7, A7, app_assoc. reflexivity.
  - rewrite B8, A8, app_assoc. reflexivity.
  - congruence.
  - congruence.
  - congruence.
  - congruence.
Qed.

(* one legal call on a builder that has an INSERT target *)
Lemma step_positional_into st tb cl : d_into st = Some tb -> call_ok (d_cls st) cl = true ->
  exists s1, step cl st = Ok s1 /\ positional (Some tb) st [cl] s1.
Proof.
  intros Hin Hok. unfold positional, rows_of_calls, cols_of_calls, sets_of_calls, froms_of_calls, sels_of_calls.
  destruct cl as [a|a|a|a|f v|t sels|w|n|t|t|sels]; cbn [call_ok] in Hok; cbn [step flat_map fold_left flag_step where_step limit_step rows_of_call app map].
  - rewrite Hin, (col_args_legal a Hok). eexists; split; [reflexivity|]. cbn. rewrite !app_nil_r. repeat split; auto.
  - unfold apply_terms. rewrite Hin, (arg_rows_legal (d_cls st) a Hok). eexists; split; [reflexivity|]. cbn. rewrite !app_nil_r. repeat split; auto.
  - unfold apply_terms. rewrite Hin, (arg_rows_legal (d_cls st) a Hok). eexists; split; [reflexivity|]. cbn. rewrite !app_nil_r. repeat split; auto.
  - apply andb_prop in Hok as [Hok Hcl]. destruct (d_cls st) eqn:Ecl; try discriminate Hcl.
    unfold apply_terms. rewrite Hin, Ecl, (arg_rows_legal CSQLLite a Hok). eexists; split; [reflexivity|]. cbn. rewrite !app_nil_r. repeat split; auto.
  - eexists; split; [reflexivity|]. cbn. rewrite !app_nil_r. repeat split; auto.
  - eexists; split; [reflexivity|]. cbn. rewrite !app_nil_r. repeat split; auto.
  - eexists; split; [reflexivity|]. cbn. rewrite !app_nil_r. repeat split; auto.
  - eexists; split; [reflexivity|]. cbn. rewrite !app_nil_r. repeat split; auto.
  - discriminate Hok.
  - eexists; split; [reflexivity|]. cbn. rewrite !app_nil_r. repeat split; auto.
  - eexists; split; [reflexivity|]. cbn. rewrite !app_nil_r. repeat split; auto.
Qed.

(* THE builder-layer theorem, INSERT side *)
Theorem run_positional_into : forall cs st tb, d_into st = Some tb -> forallb (call_ok (d_cls st)) cs = true ->
  exists st', run_from cs st = Ok st' /\ positional (Some tb) st cs st'.
Proof.
  induction cs as [|cl cs IH]; intros st tb Hin Hok.
  - exists st. split; [reflexivity|apply positional_refl].
  - cbn [forallb] in Hok. apply andb_prop in Hok as [Hcl Hcs].
    destruct (step_positional_into st tb cl Hin Hcl) as (s1 & Hs1 & P1).
    assert (Hc1 : d_cls s1 = d_cls st) by (unfold positional in P1; tauto).
    assert (Hi1 : d_into s1 = Some tb) by (unfold positional in P1; destruct P1 as (_&_&_&_&_&_&_&_&_&E&_); congruence).
    rewrite <- Hc1 in Hcs. destruct (IH s1 tb Hi1 Hcs) as (s2 & Hs2 & P2).
    exists s2. split; [cbn [run_from]; rewrite Hs1; exact Hs2|].
    eapply positional_step; eauto.
Qed.

(* one call of an UPDATE / DELETE builder (no INSERT target): set, where, limit, from+select *)
Lemma step_positional_nodml st cl : nodml_call cl = true ->
  exists s1, step cl st = Ok s1 /\ positional (d_into st) st [cl] s1.
Proof.
  intros Hok. unfold positional, rows_of_calls, cols_of_calls, sets_of_calls, froms_of_calls, sels_of_calls.
  destruct cl as [a|a|a|a|f v|t sels|w|n|t|t|sels]; try discriminate Hok;
    cbn [step flat_map fold_left flag_step where_step limit_step rows_of_call app map];
    (eexists; split; [reflexivity|]; cbn; rewrite ?app_nil_r; destruct (d_into st); rewrite ?app_nil_r; repeat split; auto).
Qed.
Theorem run_positional_nodml : forall cs st, forallb nodml_call cs = true ->
  exists st', run_from cs st = Ok st' /\ positional (d_into st) st cs st'.
Proof.
  induction cs as [|cl cs IH]; intros st Hok.
  - exists st. split; [reflexivity|apply positional_refl].
  - cbn [forallb] in Hok. apply andb_prop in Hok as [Hcl Hcs].
    destruct (step_positional_nodml st cl Hcl) as (s1 & Hs1 & P1).
    assert (Hi1 : d_into s1 = d_into st) by (unfold positional in P1; tauto).
    destruct (IH s1 Hcs) as (s2 & Hs2 & P2). rewrite Hi1 in P2.
    exists s2. split; [cbn [run_from]; rewrite Hs1; exact Hs2|].
    eapply positional_step; eauto.
Qed.

(* the error cases of the builder layer are kept: no INSERT target, a scalar among row arguments,
   insert_or_replace outside SQLite *)
Lemma insert_without_into c t a : run c (SUpdate t) [KInsert a] = Err "AttributeError".
Proof. reflexivity. Qed.
Lemma columns_without_into c t a : run c (SDelete t) [KColumns a] = Err "AttributeError".
Proof. reflexivity. Qed.
Lemma scalar_among_rows c t l z : run c (SInto t) [KInsert [ASeq SqTuple l; AVal (VInt z)]] = Err "TypeError".
Proof. reflexivity. Qed.
Lemma ior_outside_sqlite t a : run CQuery (SInto t) [KInsertOrReplace a] = Err "TypeError".
Proof. reflexivity. Qed.

(* into() may come after from_() / where() / limit() calls: the builder state is the same as when it comes first
   (it must come before select(): otherwise the statement is a SELECT ... INTO) *)
Lemma pre_into_step cl st : pre_into_call cl = true ->
  exists s1, step cl st = Ok s1 /\ d_into s1 = d_into st /\ d_selects s1 = d_selects st
             /\ forall x, step cl (set_into st x) = Ok (set_into s1 x).
Proof.
  destruct cl as [a|a|a|a|f v|t sels|w|n|t|t|sels]; intros H; try discriminate H;
    (eexists; split; [reflexivity|]; repeat split; reflexivity).
Qed.
Theorem into_commutes t post : forall pre st, forallb pre_into_call pre = true -> d_into st = None -> d_selects st = [] ->
  run_from (pre ++ KInto t :: post) st = run_from (pre ++ post) (set_into st (Some t)).
Proof.
  induction pre as [|cl r IH]; intros st H Hi Hs.
  - cbn [app run_from step]. rewrite Hi, Hs. reflexivity.
  - cbn [forallb] in H. apply andb_prop in H as [Hc Hr].
    destruct (pre_into_step cl st Hc) as (s1 & E1 & E2 & E3 & E4).
    cbn [app run_from]. rewrite E1, (E4 (Some t)). apply IH; [exact Hr|congruence|congruence].
Qed.
Corollary into_position_irrelevant c t pre post : forallb pre_into_call pre = true ->
  run c SBuilder (pre ++ KInto t :: post) = run c (SInto t) (pre ++ post).
Proof. intros H. unfold run. rewrite (into_commutes t post pre (init c SBuilder) H eq_refl eq_refl). reflexivity. Qed.
