(* SelectLemmas.v — C04, the statement skeleton: Query.rquery on a SELECT is the concatenation, in the order
   [sel_order], of one segment per clause; every list-valued segment renders exactly the specification's items, one
   text per item, in the order given; the clause order, the per-clause item flags and the pagination guards assumed by
   the model are the ones extracted from the code (gen/C04Table.v). *)
From PV Require Import Base Crit gen.TermsTable Terms Page gen.QueryTable Query Parse C02Model C02Frag gen.C04Table Select.
From PV Require Import lemmas.C02Lemmas.
From Coq Require Import Lia Arith.
Local Open Scope string_scope.

(* ------------------------------------------------------------------------------------------- *)
(* 1. the named pieces are Query.rquery's SELECT branch                                          *)
(* ------------------------------------------------------------------------------------------- *)
Lemma rquery_QSel kin wa_ sq_ ali c withs d sels from joins wh hv gb ob l o fu a :
  rquery kin wa_ sq_ ali (QSel c withs d sels from joins wh hv gb ob l o fu a) =
  sel_text kin wa_ sq_ ali c withs d sels from joins wh hv gb ob l o fu.
Proof. reflexivity. Qed.

Lemma ritem_IT k srcs c t : ritem k srcs c (IT t) = render c (map_tref (resolve_tref srcs) t).
Proof. reflexivity. Qed.

(* ------------------------------------------------------------------------------------------- *)
(* 2. the code-sensitive finite lemmas                                                           *)
(* ------------------------------------------------------------------------------------------- *)
(* the ordered _xxx_sql calls of the SELECT path of QueryBuilder.get_sql, restricted to the modelled clauses, are the
   model's clause order *)
Lemma clause_order_matches_code : map clause_call sel_order = filter is_modelled (map snd x_select_path).
Proof. vm_compute. reflexivity. Qed.

(* ... and nothing the model ignores sits between two clauses it does not know: the unmodelled renderers are exactly these *)
Lemma unmodelled_are_known :
  filter (fun s => negb (is_modelled s)) (map snd x_select_path) = unmodelled_calls.
Proof. vm_compute. reflexivity. Qed.

(* the keyword arguments every clause renderer passes to its items (with_alias / subquery literals, with_namespace
   forwarded or swallowed) and the separators, as the model assumes them *)
Lemma item_flags_match_code : model_item_flags = x_item_flags.
Proof. vm_compute. reflexivity. Qed.

Lemma distinct_matches_code : x_distinct = ("DISTINCT ", "").
Proof. vm_compute. reflexivity. Qed.

(* the flags the named pieces use are the tabulated ones *)
Lemma flags_used :
  flags_of "_select_sql" = (true, true) /\ flags_of "_from_sql" = (true, true) /\ flags_of "Join.get_sql" = (true, true)
  /\ flags_of "JoinOn.get_sql" = (false, true) /\ flags_of "_where_sql" = (false, true)
  /\ flags_of "_group_sql" = (false, clause_subq_groupby) /\ flags_of "_having_sql" = (false, clause_subq_having)
  /\ flags_of "_orderby_sql" = (false, clause_subq_orderby)
  /\ sep_of "_select_sql" = "," /\ sep_of "_from_sql" = "," /\ sep_of "_group_sql" = "," /\ sep_of "_orderby_sql" = ",".
Proof. vm_compute. repeat split. Qed.

(* ------------------------------------------------------------------------------------------- *)
(* 3. strings                                                                                    *)
(* ------------------------------------------------------------------------------------------- *)
Lemma sconcat_app (a b : list string) : sconcat (a ++ b)%list = sconcat a ++ sconcat b.
Proof. induction a as [|x a IH]; cbn; [reflexivity|]. rewrite IH, sapp_assoc. reflexivity. Qed.

(* ------------------------------------------------------------------------------------------- *)
(* 4. the skeleton theorem                                                                       *)
(* ------------------------------------------------------------------------------------------- *)
Lemma bind_Ok {A B} (x : res A) (f : A -> res B) b : bind x f = Ok b -> exists a, x = Ok a /\ f a = Ok b.
Proof. destruct x; cbn; [eauto|discriminate]. Qed.

Theorem select_is_its_segments kin wa_ sq_ ali c withs d sels from joins wh hv gb ob l o fu a :
  sels <> [] ->
  rquery kin wa_ sq_ ali (QSel c withs d sels from joins wh hv gb ob l o fu a) =
  (s <- sel_segs kin c withs d sels from joins wh hv gb ob l o fu ;; Ok (finish kin c wa_ sq_ ali (assemble s))).
Proof.
  intros Hs. rewrite rquery_QSel. unfold sel_text, sel_segs, finish.
  destruct (name_from sub_count 0 from) as [fnames n1].
  destruct (name_joins (base_tables from) (src_names from fnames) n1 joins) as [jnames n2].
  destruct sels as [|s0 sels']; [exfalso; apply Hs; reflexivity|].
  set (SL := s0 :: sels').
  repeat match goal with
  | |- bind ?x _ = bind (bind ?x _) _ => destruct x; cbn [bind]; [|reflexivity]
  end.
  unfold assemble, sel_order. cbn [map seg_of sconcat s_with s_select s_from s_joins s_where s_group s_having s_order s_page s_fu].
  rewrite !sapp_assoc, sapp_nil_r. reflexivity.
Qed.

(* the statement renders (to a non-error) exactly when every segment does *)
Corollary select_renders_iff_segments kin wa_ sq_ ali c withs d sels from joins wh hv gb ob l o fu a txt :
  sels <> [] ->
  rquery kin wa_ sq_ ali (QSel c withs d sels from joins wh hv gb ob l o fu a) = Ok txt <->
  exists s, sel_segs kin c withs d sels from joins wh hv gb ob l o fu = Ok s /\ txt = finish kin c wa_ sq_ ali (assemble s).
Proof.
  intros Hs. rewrite select_is_its_segments by assumption. split.
  - intros H. apply bind_Ok in H as [s [H1 H2]]. exists s. split; [assumption|]. inversion H2; reflexivity.
  - intros [s [H1 H2]]. rewrite H1. cbn [bind]. rewrite H2. reflexivity.
Qed.

(* ------------------------------------------------------------------------------------------- *)
(* 5. each list segment lists exactly the specification's items, in order                        *)
(* ------------------------------------------------------------------------------------------- *)
Lemma seg_items_spec kk srcs c l ss :
  seg_items kk srcs c l = Ok ss <-> Forall2 (fun y s => ritem kk srcs c y = Ok s) l ss.
Proof.
  revert ss. induction l as [|y r IH]; intros ss; cbn [seg_items].
  - split; [intros H; inversion H; constructor | intros H; inversion H; reflexivity].
  - split.
    + intros H. apply bind_Ok in H as [a [Ha H]]. apply bind_Ok in H as [rest [Hr H]]. inversion H; subst.
      constructor; [assumption | apply IH; assumption].
    + intros H. inversion H as [|y' s' r' ss' Hy Hr]; subst. rewrite Hy. cbn [bind].
      apply IH in Hr. rewrite Hr. reflexivity.
Qed.

Lemma seg_withs_spec kk l ss :
  seg_withs kk l = Ok ss <->
  Forall2 (fun ny s => exists a, rquery kk false false (qalias (snd ny)) (snd ny) = Ok a /\ s = fst ny ++ " AS (" ++ a ++ ") ") l ss.
Proof.
  revert ss. induction l as [|[n y] r IH]; intros ss; cbn [seg_withs].
  - split; [intros H; inversion H; constructor | intros H; inversion H; reflexivity].
  - split.
    + intros H. apply bind_Ok in H as [a [Ha H]]. apply bind_Ok in H as [rest [Hr H]]. inversion H; subst.
      constructor; [exists a; auto | apply IH; assumption].
    + intros H. inversion H as [|y' s' r' ss' [a [Hy ->]] Hr]; subst. cbn [snd fst] in *. rewrite Hy. cbn [bind].
      apply IH in Hr. rewrite Hr. reflexivity.
Qed.

Lemma seg_from_spec k ci l : forall ns ss,
  seg_from k ci l ns = Ok ss <->
  Forall2 (fun sn s => src_text k ci (fst sn) (snd sn) = Ok s)
          (combine l (map (fun i => nth i ns None) (seq 0 (List.length l)))) ss.
Proof.
  induction l as [|s r IH]; intros ns ss; cbn [seg_from].
  - cbn. split; [intros H; inversion H; constructor | intros H; inversion H; reflexivity].
  - cbn [List.length seq map combine].
    assert (Hshift : map (fun i => nth i ns None) (seq 1 (List.length r)) = map (fun i => nth i (List.tl ns) None) (seq 0 (List.length r))).
    { rewrite <- seq_shift, map_map. apply map_ext. intros i. destruct ns; [destruct i; reflexivity | reflexivity]. }
    rewrite Hshift.
    assert (Hhd : nth 0 ns None = List.hd None ns) by (destruct ns; reflexivity). rewrite Hhd.
    split.
    + intros H. apply bind_Ok in H as [a [Ha H]]. apply bind_Ok in H as [rest [Hr H]]. inversion H; subst.
      constructor; [destruct s; exact Ha | apply IH; assumption].
    + intros H. inversion H as [|y' s' r' ss' Hy Hr]; subst. cbn [fst snd] in Hy.
      replace (match s with SrcT t => Ok (table_sql (ci true true) t)
                          | SrcQ y => rquery (with_c k (ci true true)) true true (List.hd None ns) y | SrcA n => Ok n end)
        with (src_text k ci s (List.hd None ns)) by (destruct s; reflexivity).
      rewrite Hy. cbn [bind]. apply IH in Hr. rewrite Hr. reflexivity.
Qed.

Lemma Forall2_len {A B} (R : A -> B -> Prop) l1 l2 : Forall2 R l1 l2 -> List.length l1 = List.length l2.
Proof. induction 1; cbn; congruence. Qed.
Lemma seg_lengths kk srcs c l ss : seg_items kk srcs c l = Ok ss -> List.length ss = List.length l.
Proof. intros H. apply seg_items_spec in H. symmetry. eapply Forall2_len; eauto. Qed.

Lemma seg_joins_length k kk srcs ci l : forall ns ss, seg_joins k kk srcs ci l ns = Ok ss -> List.length ss = List.length l.
Proof.
  induction l as [|[[h s] cnd] r IH]; intros ns ss H; cbn [seg_joins] in H.
  - inversion H; reflexivity.
  - apply bind_Ok in H as [a [Ha H]]. apply bind_Ok in H as [cn [Hc H]]. apply bind_Ok in H as [rest [Hr H]].
    inversion H; subst. cbn. f_equal. eapply IH; eauto.
Qed.

(* a join segment is: type prefix, JOIN, the source, the condition -- for the join of the specification at that position *)
Lemma seg_joins_spec k kk srcs ci l : forall ns ss,
  seg_joins k kk srcs ci l ns = Ok ss ->
  Forall2 (fun jn s => let '(h, src, cnd, n) := jn in
             exists a cn,
               (match src with
                | SrcT t => Ok (table_sql (ci true true) (src_ref src n))
                | SrcQ y => rquery (with_c k (ci true true)) true true n y
                | SrcA nm => Ok nm end) = Ok a
               /\ join_cond_text k kk srcs ci cnd = Ok cn
               /\ s = jprefix h cnd ++ "JOIN " ++ a ++ cn)
          (combine l (map (fun i => nth i ns None) (seq 0 (List.length l)))) ss.
Proof.
  induction l as [|[[h s] cnd] r IH]; intros ns ss H; cbn [seg_joins] in H.
  - inversion H. constructor.
  - cbn [List.length seq map combine].
    assert (Hshift : map (fun i => nth i ns None) (seq 1 (List.length r)) = map (fun i => nth i (List.tl ns) None) (seq 0 (List.length r))).
    { rewrite <- seq_shift, map_map. apply map_ext. intros i. destruct ns; [destruct i; reflexivity | reflexivity]. }
    rewrite Hshift.
    assert (Hhd : nth 0 ns None = List.hd None ns) by (destruct ns; reflexivity). rewrite Hhd.
    apply bind_Ok in H as [a [Ha H]]. apply bind_Ok in H as [cn [Hc H]]. apply bind_Ok in H as [rest [Hr H]].
    inversion H; subst. constructor; [|apply IH; assumption].
    exists a, cn. repeat split; [exact Ha | destruct cnd; exact Hc].
Qed.

Lemma seg_groups_spec k kk srcs ci aref l ss :
  seg_groups k kk srcs ci aref l = Ok ss <->
  Forall2 (fun y s => match (if k_gba k then aref y else None) with
                      | Some a => s = fq (or_ostr (aq (kc k)) (q (kc k))) a
                      | None => ritem kk srcs (ci false clause_subq_groupby) y = Ok s end) l ss.
Proof.
  revert ss. induction l as [|y r IH]; intros ss; cbn [seg_groups].
  - split; [intros H; inversion H; constructor | intros H; inversion H; reflexivity].
  - split.
    + intros H. apply bind_Ok in H as [a [Ha H]]. apply bind_Ok in H as [rest [Hr H]]. inversion H; subst.
      constructor; [|apply IH; assumption].
      destruct (if k_gba k then aref y else None); [inversion Ha; reflexivity | exact Ha].
    + intros H. inversion H as [|y' s' r' ss' Hy Hr]; subst.
      apply IH in Hr. destruct (if k_gba k then aref y else None); [subst s'|rewrite Hy]; cbn [bind]; rewrite Hr; reflexivity.
Qed.

Lemma seg_orders_spec k kk srcs ci aref l ss :
  seg_orders k kk srcs ci aref l = Ok ss <->
  Forall2 (fun yd s => exists a,
             match aref (fst yd) with
             | Some al => a = fq (or_ostr (aq (kc k)) (q (kc k))) al
             | None => ritem kk srcs (ci false clause_subq_orderby) (fst yd) = Ok a end
             /\ s = match snd yd with Some d' => a ++ " " ++ order_text d' | None => a end) l ss.
Proof.
  revert ss. induction l as [|[y d] r IH]; intros ss; cbn [seg_orders].
  - split; [intros H; inversion H; constructor | intros H; inversion H; reflexivity].
  - split.
    + intros H. apply bind_Ok in H as [a [Ha H]]. apply bind_Ok in H as [rest [Hr H]]. inversion H; subst.
      constructor; [|apply IH; assumption]. exists a. cbn [fst snd]. split; [|reflexivity].
      destruct (aref y); [inversion Ha; reflexivity | exact Ha].
    + intros H. inversion H as [|y' s' r' ss' [a [Hy ->]] Hr]; subst. cbn [fst snd] in *.
      apply IH in Hr. destruct (aref y); [subst a|rewrite Hy]; cbn [bind]; rewrite Hr; reflexivity.
Qed.
