(* ReplaceStmt.v — C15 on the wrapper terms, sub-queries, joins and statements: covered => rep = subst. *)
From PV Require Import Base Crit gen.TermsTable Terms gen.C15Table Replace lemmas.ReplaceEqs lemmas.ReplaceLemmas.
From Coq Require Import Lia Arith.

Lemma map_ext_forallb {X} (P : X -> bool) (f g : X -> X) l :
  (forall x, P x = true -> f x = g x) -> forallb P l = true -> map f l = map g l.
Proof.
  intro H. induction l as [|x l IH]; simpl; auto. intro E. apply andb_true_iff in E. destruct E as [E1 E2].
  rewrite (H x E1), (IH E2). reflexivity.
Qed.
Lemma map_id_existsb {X} (O : X -> bool) (g : X -> X) l :
  (forall x, O x = false -> g x = x) -> existsb O l = false -> map g l = l.
Proof.
  intro H. induction l as [|x l IH]; simpl; auto. intro E. apply orb_false_iff in E. destruct E as [E1 E2].
  rewrite (H x E1), (IH E2). reflexivity.
Qed.

(* one slot, generically: visited and the child is covered, or not visited and A does not occur in the child *)
Lemma ifv_ok {X} (v c o : bool) (f g : X -> X) (x : X) :
  cov1 v c o = true -> (c = true -> f x = g x) -> (o = false -> g x = x) -> ifv v f x = g x.
Proof.
  unfold ifv, cov1. destruct v; intros H Hc Ho; [auto|]. apply negb_true_iff in H. symmetry. auto.
Qed.

Section S.
Variable cf : cfg.
Notation vis := (cvis cf).
Variables A B : tref.
Notation hit := (hit A).
Notation sw_tbl := (sw_tbl A B).
Notation subst := (subst A B).
Notation rep := (rep cf A B).
Notation occ := (occ A).
Notation covered := (covered cf A).
Notation covs := (covs cf).
Notation cov_ot := (cov_ot cf).
Notation cov_ob := (cov_ob cf).
Notation cov_q := (cov_q cf).
Notation cov_wt := (cov_wt cf).
Notation cov_ws := (cov_ws cf).
Notation cov_ow := (cov_ow cf).
Notation cov_join := (cov_join cf).
Notation cov_stmt := (cov_stmt cf).
Notation rep_q := (rep_q cf).
Notation rep_ob := (rep_ob cf).
Notation rep_wt := (rep_wt cf).
Notation rep_ow := (rep_ow cf).
Notation rep_join := (rep_join cf).
Notation rep_withs := (rep_withs cf).
Notation rep_joins := (rep_joins cf).
Notation rep_stmt := (rep_stmt cf).
Notation rep_stmt_core := (rep_stmt_core cf).

Lemma sw_tbl_id t : hit t = false -> sw_tbl t = t.
Proof. unfold Replace.sw_tbl. intros ->. reflexivity. Qed.
Lemma map_sw_id l : existsb hit l = false -> map sw_tbl l = l.
Proof. apply map_id_existsb. apply sw_tbl_id. Qed.
Lemma subst_otbl_id o : occ_otbl A o = false -> subst_otbl A B o = o.
Proof. apply sw_otbl_id. Qed.

Lemma covs_ok l : covs A l = true -> map rep l = map subst l.
Proof. apply map_rep_subst. Qed.
Lemma occs_id l : occs A l = false -> map subst l = l.
Proof. apply map_subst_id. Qed.
Lemma cov_ot_ok o : cov_ot A o = true -> option_map rep o = option_map subst o.
Proof. destruct o; simpl; auto. intro H. rewrite (covered_rep_subst cf A B t H). reflexivity. Qed.
Lemma occ_ot_id o : occ_ot A o = false -> option_map subst o = o.
Proof. destruct o; simpl; auto. intro H. rewrite (occ_subst_id A B t H). reflexivity. Qed.
Lemma cov_ob_ok l : cov_ob A l = true -> rep_ob A B l = subst_ob A B l.
Proof.
  apply (map_ext_forallb (fun p => covered (fst p))). intros [t o] H. simpl in *. rewrite (covered_rep_subst cf A B t H). reflexivity.
Qed.
Lemma occ_ob_id l : occ_ob A l = false -> subst_ob A B l = l.
Proof.
  apply (map_id_existsb (fun p => occ (fst p))). intros [t o] H. simpl in *. rewrite (occ_subst_id A B t H). reflexivity.
Qed.

Ltac andb_split H :=
  repeat match type of H with
         | (_ && _)%bool = true => apply andb_true_iff in H; let H1 := fresh H in destruct H as [H H1]; try andb_split H1
         end.
Ltac orb_split H :=
  repeat match type of H with
         | (_ || _)%bool = false => apply orb_false_iff in H; let H1 := fresh H in destruct H as [H H1]; try orb_split H1
         end.

(* ---- sub-queries ---- *)
Lemma occ_q_id q : occ_q A q = false -> subst_q A B q = q.
Proof.
  destruct q as [f s w n]. unfold occ_q, subst_q. simpl. intro H. orb_split H.
  rewrite (map_sw_id f H), (occs_id s H1), (occ_ot_id w H0). reflexivity.
Qed.
Lemma cov_q_ok q : cov_q A q = true -> rep_q A B q = subst_q A B q.
Proof.
  destruct q as [f s w n]. unfold cov_q, rep_q, subst_q. simpl. intro H. andb_split H.
  rewrite (ifv_ok _ _ _ _ (map sw_tbl) f H (fun _ => eq_refl) (map_sw_id f)).
  rewrite (ifv_ok _ _ _ _ (map subst) s H1 (covs_ok s) (occs_id s)).
  rewrite (ifv_ok _ _ _ _ (option_map subst) w H0 (cov_ot_ok w) (occ_ot_id w)).
  reflexivity.
Qed.

(* ---- wrapper terms ---- *)
Lemma occ_wt_id w : occ_wt A w = false -> subst_wt A B w = w.
Proof.
  destruct w; simpl; intro H; orb_split H;
    repeat match goal with
           | Hx : occ ?x = false |- _ => rewrite (occ_subst_id A B x Hx); clear Hx
           | Hx : occs A ?x = false |- _ => rewrite (occs_id x Hx); clear Hx
           | Hx : occ_ob A ?x = false |- _ => rewrite (occ_ob_id x Hx); clear Hx
           | Hx : occ_q A ?x = false |- _ => rewrite (occ_q_id x Hx); clear Hx
           end; reflexivity.
Qed.

Lemma cov_wt_ok w : cov_wt A w = true -> rep_wt A B w = subst_wt A B w.
Proof.
  destruct w; simpl; intro H; andb_split H;
    repeat match goal with
           | Hx : cov1 ?v (covered ?x) (occ ?x) = true |- _ =>
               rewrite (ifv_ok v _ _ rep subst x Hx (covered_rep_subst cf A B x) (occ_subst_id A B x)); clear Hx
           | Hx : cov1 ?v (covs A ?x) (occs A ?x) = true |- _ =>
               rewrite (ifv_ok v _ _ (map rep) (map subst) x Hx (covs_ok x) (occs_id x)); clear Hx
           | Hx : cov1 ?v (cov_ob A ?x) (occ_ob A ?x) = true |- _ =>
               rewrite (ifv_ok v _ _ (rep_ob A B) (subst_ob A B) x Hx (cov_ob_ok x) (occ_ob_id x)); clear Hx
           | Hx : cov1 ?v (cov_q A ?x) (occ_q A ?x) = true |- _ =>
               rewrite (ifv_ok v _ _ (rep_q A B) (subst_q A B) x Hx (cov_q_ok x) (occ_q_id x)); clear Hx
           end; try reflexivity.
  - rewrite (covered_rep_subst cf A B t H). reflexivity.
  - rewrite (cov_q_ok q H). reflexivity.
Qed.

Lemma cov_ws_ok l : cov_ws A l = true -> map (rep_wt A B) l = map (subst_wt A B) l.
Proof. apply map_ext_forallb. apply cov_wt_ok. Qed.
Lemma occ_ws_id l : occ_ws A l = false -> map (subst_wt A B) l = l.
Proof. apply map_id_existsb. apply occ_wt_id. Qed.
Lemma cov_ow_ok o : cov_ow A o = true -> rep_ow A B o = subst_ow A B o.
Proof. destruct o; simpl; auto. intro H. rewrite (cov_wt_ok w H). reflexivity. Qed.
Lemma occ_ow_id o : occ_ow A o = false -> subst_ow A B o = o.
Proof. destruct o; simpl; auto. intro H. rewrite (occ_wt_id w H). reflexivity. Qed.

(* ---- sources and joins ---- *)
Lemma occ_src_id x : occ_src A x = false -> subst_src A B x = x.
Proof.
  destruct x; simpl; intro H; auto.
  - rewrite (sw_tbl_id t H). reflexivity.
  - rewrite (occ_q_id q H). reflexivity.
Qed.
Lemma cov_src_ok x : cov_src A x = true -> cmp_src A B x = subst_src A B x.
Proof.
  destruct x; simpl; intro H; auto. apply negb_true_iff in H. rewrite (occ_q_id q H). reflexivity.
Qed.

Lemma cov_src_m_ok m x : cov_src_m cf A m x = true -> src_total cf A B m x = subst_src A B x.
Proof.
  destruct m; simpl; try apply cov_src_ok.
  destruct x; simpl; intro H; auto. rewrite (cov_q_ok q H). reflexivity.
Qed.

Lemma occ_join_id j : occ_join A j = false -> subst_join A B j = j.
Proof.
  destruct j; simpl; intro H; orb_split H.
  - rewrite (occ_src_id item H). reflexivity.
  - rewrite (occ_src_id item H), (occ_wt_id crit H0). reflexivity.
  - rewrite (occ_src_id item H), (occs_id fields H0). reflexivity.
Qed.

Lemma cov_join_ok j : cov_join A j = true -> rep_join A B j = Ok (subst_join A B j).
Proof.
  destruct j; simpl; intro H.
  - destruct (vis KJoin S_item).
    + destruct (c_src_mode cf KJoin) eqn:M.
      * destruct item; simpl.
        -- rewrite H. reflexivity.
        -- rewrite (cov_q_ok q H). reflexivity.
        -- rewrite H. reflexivity.
      * pose proof (cov_src_m_ok MCmp item H) as E. simpl in E. rewrite E. reflexivity.
      * pose proof (cov_src_m_ok MCmpEnter item H) as E. simpl in E. rewrite E. reflexivity.
    + apply negb_true_iff in H. rewrite (occ_src_id item H). reflexivity.
  - andb_split H.
    rewrite (ifv_ok _ _ _ (src_total cf A B (c_src_mode cf KJoinOn)) (subst_src A B) item H (cov_src_m_ok _ item) (occ_src_id item)).
    rewrite (ifv_ok _ _ _ (rep_wt A B) (subst_wt A B) crit H0 (cov_wt_ok crit) (occ_wt_id crit)). reflexivity.
  - andb_split H.
    rewrite (ifv_ok _ _ _ (src_total cf A B (c_src_mode cf KJoinUsing)) (subst_src A B) item H (cov_src_m_ok _ item) (occ_src_id item)).
    rewrite (ifv_ok _ _ _ (map rep) (map subst) fields H0 (covs_ok fields) (occs_id fields)). reflexivity.
Qed.

Lemma mapM_joins l : forallb (cov_join A) l = true -> mapM (rep_join A B) l = Ok (map (subst_join A B) l).
Proof.
  induction l as [|j l IH]; simpl; auto. intro H. apply andb_true_iff in H. destruct H as [H1 H2].
  rewrite (cov_join_ok j H1), (IH H2). reflexivity.
Qed.

Lemma sw_star_id l : existsb hit l = false -> sw_star A B l = l.
Proof. unfold sw_star. intros ->. reflexivity. Qed.

(* ---- statements ---- *)
Lemma stmt_ext a0 a1 a2 a3 a4 a5 a6 a7 a8 a9 a10 a11 a12 a13 a14 a15 a16 a17 a18 a19 a20 b1 b2 b3 b4 b5 b6 b7 b8 b9 b10 b11 b12 b13 b14 b15 b16 b17 b18 b19 b20 :
  a1 = b1 -> a2 = b2 -> a3 = b3 -> a4 = b4 -> a5 = b5 -> a6 = b6 -> a7 = b7 -> a8 = b8 -> a9 = b9 -> a10 = b10 -> a11 = b11 -> a12 = b12 -> a13 = b13 -> a14 = b14 -> a15 = b15 -> a16 = b16 -> a17 = b17 -> a18 = b18 -> a19 = b19 -> a20 = b20 ->
  Build_stmt a0 a1 a2 a3 a4 a5 a6 a7 a8 a9 a10 a11 a12 a13 a14 a15 a16 a17 a18 a19 a20
  = Build_stmt a0 b1 b2 b3 b4 b5 b6 b7 b8 b9 b10 b11 b12 b13 b14 b15 b16 b17 b18 b19 b20.
Proof. intros; subst; reflexivity. Qed.

Lemma rep_withs_ok s :
  (if vis (skind s) S__with
   then if c_with_by_call cf then match s_with s with [] => true | _ => false end
        else forallb (fun p => cov_q A (snd p)) (s_with s)
   else negb (existsb (fun p => occ_q A (snd p)) (s_with s))) = true ->
  rep_withs A B s = Ok (map (fun p => (fst p, subst_q A B (snd p))) (s_with s)).
Proof.
  unfold Replace.rep_withs. intro HW. destruct (vis (skind s) S__with).
  - destruct (c_with_by_call cf).
    + destruct (s_with s); [reflexivity | discriminate].
    + f_equal. apply (map_ext_forallb (fun p => cov_q A (snd p))); auto. intros [n q] E. simpl in *. rewrite (cov_q_ok q E). reflexivity.
  - apply negb_true_iff in HW. f_equal. symmetry.
    apply (map_id_existsb (fun p => occ_q A (snd p))); auto. intros [n q] E. simpl in *. rewrite (occ_q_id q E). reflexivity.
Qed.

Lemma rep_joins_ok s :
  (if vis (skind s) S__joins then forallb (cov_join A) (s_joins s) else negb (existsb (occ_join A) (s_joins s))) = true ->
  rep_joins A B s = Ok (map (subst_join A B) (s_joins s)).
Proof.
  unfold Replace.rep_joins. intro HJ. destruct (vis (skind s) S__joins).
  - apply mapM_joins. assumption.
  - apply negb_true_iff in HJ. f_equal. symmetry. apply (map_id_existsb (occ_join A)); auto. apply occ_join_id.
Qed.

Ltac slot S := match goal with Hx : cov1 (vis _ S) _ _ = true |- _ => apply (ifv_ok _ _ _ _ _ _ Hx) end.

Theorem cov_stmt_ok s : cov_stmt A s = true -> rep_stmt A B s = Ok (subst_stmt A B s).
Proof.
  unfold Replace.cov_stmt, Replace.rep_stmt. cbv zeta. intro H. andb_split H.
  match goal with Hx : (if vis _ S__with then _ else _) = true |- _ => rewrite (rep_withs_ok s Hx) end.
  match goal with Hx : (if vis _ S__joins then _ else _) = true |- _ => rewrite (rep_joins_ok s Hx) end.
  apply f_equal. unfold Replace.rep_stmt_core, subst_stmt. cbv zeta. apply stmt_ext; try reflexivity.
  - slot S__from; [apply map_ext_forallb; apply cov_src_m_ok | apply map_id_existsb; apply occ_src_id].
  - slot S__insert_table; [reflexivity | apply subst_otbl_id].
  - slot S__update_table; [reflexivity | apply subst_otbl_id].
  - slot S__selects; [apply cov_ws_ok | apply occ_ws_id].
  - slot S__columns; [apply covs_ok | apply occs_id].
  - slot S__values; [apply map_ext_forallb; apply cov_ws_ok | apply map_id_existsb; apply occ_ws_id].
  - slot S__wheres; [apply cov_ow_ok | apply occ_ow_id].
  - slot S__prewheres; [apply cov_ow_ok | apply occ_ow_id].
  - slot S__groupbys; [apply cov_ws_ok | apply occ_ws_id].
  - slot S__havings; [apply cov_ow_ok | apply occ_ow_id].
  - slot S__orderbys.
    + apply (map_ext_forallb (fun p => cov_wt A (fst p))). intros [w o] E. simpl in *. rewrite (cov_wt_ok w E). reflexivity.
    + apply (map_id_existsb (fun p => occ_wt A (fst p))). intros [w o] E. simpl in *. rewrite (occ_wt_id w E). reflexivity.
  - slot S__updates.
    + apply (map_ext_forallb (fun p => covered (fst p) && cov1 (vis KValue S_value) (cov_wt A (snd p)) (occ_wt A (snd p)))).
      intros [t w] E. simpl in *. apply andb_true_iff in E. destruct E as [E1 E2].
      rewrite (covered_rep_subst cf A B t E1).
      rewrite (ifv_ok _ _ _ (rep_wt A B) (subst_wt A B) w E2 (cov_wt_ok w) (occ_wt_id w)). reflexivity.
    + apply (map_id_existsb (fun p => occ (fst p) || occ_wt A (snd p))). intros [t w] E. simpl in *.
      apply orb_false_iff in E. destruct E as [E1 E2]. rewrite (occ_subst_id A B t E1), (occ_wt_id w E2). reflexivity.
  - slot S__select_star_tables; [reflexivity | apply sw_star_id].
  - slot S__limit_by; [apply cov_ws_ok | apply occ_ws_id].
  - slot S__distinct_on; [apply cov_ws_ok | apply occ_ws_id].
  - slot S__returns; [apply cov_ws_ok | apply occ_ws_id].
  - slot S__using; [reflexivity | apply map_sw_id].
  - slot S__duplicate_updates.
    + apply (map_ext_forallb (fun p => covered (fst p) && cov1 (vis KValue S_value) (cov_wt A (snd p)) (occ_wt A (snd p)))).
      intros [t w] E. simpl in *. apply andb_true_iff in E. destruct E as [E1 E2].
      rewrite (covered_rep_subst cf A B t E1).
      rewrite (ifv_ok _ _ _ (rep_wt A B) (subst_wt A B) w E2 (cov_wt_ok w) (occ_wt_id w)). reflexivity.
    + apply (map_id_existsb (fun p => occ (fst p) || occ_wt A (snd p))). intros [t w] E. simpl in *.
      apply orb_false_iff in E. destruct E as [E1 E2]. rewrite (occ_subst_id A B t E1), (occ_wt_id w E2). reflexivity.
Qed.

End S.
